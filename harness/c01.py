"""C01 — periodic-table lookups: translator + exhaustive correspondence + independent NIST/textbook oracle."""
from __future__ import annotations

import itertools
import json
import re
import sys
from decimal import Decimal
from fractions import Fraction
from pathlib import Path

import common
from common import Ctx, Finding, Outcome, err_class

sys.path.insert(0, str(common.VERIF / "tools"))
import gen_periodic  # noqa: E402

PROPERTY = "C01"
LEAN_TARGETS = ["QcelVerif.Props.C01", "QcelVerif.Driver.C01"]
DRIVER = "QcelVerif/Driver/C01.lean"
THEOREMS = [
    ("QcelVerif.PT.shipped_faithful", "rebuild(raw SRD-144 JSON, literal tables of build_periodic_table.py) = shipped (elements, nuclides): rows, order, D/T double spelling, masses digit-for-digit, bare element = most abundant / longest-lived isotope [decide +kernel over the whole generated table]"),
    ("QcelVerif.PT.tree_isBST", "the generated search tree is ordered"),
    ("QcelVerif.PT.tree_is_dict", "tree = dict(zip(EA, (_EE, A, mass))): every row found with its own values, no other keys"),
    ("QcelVerif.PT.aliases_agree", "for all 118 element rows: int Z, str Z, symbol, name resolve (strict or not) to the row's symbol and return its Z/E/name"),
    ("QcelVerif.PT.nuclides_resolve", "for all nuclide rows: the label resolves to its own key, E, Z, A, mass; strict mode accepts it iff it is a bare element symbol"),
    ("QcelVerif.PT.nuclides_resolve_anycase", "lower/upper spelling of every nuclide label resolves to the same key (kernel instances of case-insensitivity)"),
    ("QcelVerif.PT.masses_float_nearest", "for all nuclide rows: the model's float(mass) (Dec.toF64 of the decimal text) is the double nearest to the tabulated Decimal, ties to even (independent predicate); the correspondence compares these IEEE bit patterns with the implementation's to_mass()"),
    ("QcelVerif.PStr.unpack_pack", "unpack (pack s) = s for every byte string of at most 96 bytes: the single-natural encoding of strings used by the table theorems is lossless"),
    ("QcelVerif.PStr.pack_injective", "pack is injective on such strings (two different labels never share a packed key)"),
    ("QcelVerif.PT.resolve_case_insensitive", "ANY table, ANY two ASCII texts equal after lower-casing resolve identically (all 2^|s| casings)"),
    ("QcelVerif.PT.accessors_case_insensitive", "all seven accessors inherit case-insensitivity"),
    ("QcelVerif.PT.no_wrong_species", "a successful lookup is justified by one of: capitalised text is a nuclide key / int value is a tabulated Z / capitalised text is an element name"),
    ("QcelVerif.PT.strict_exact", "strict accepts exactly the non-strict answers that are bare element symbols"),
    ("QcelVerif.PT.period_group_standard", "for EVERY Z: period ladder = 1 + #noble gases below Z; group lists = 18-column offset rule (f-block none)"),
]
TRANSLATORS = [gen_periodic.main]
TRUSTED_BASE = [
    "Lean 4.33 kernel (decide +kernel evaluation of the generated tables; no native_decide); axioms audited per theorem",
    "tools/gen_periodic.py: re-encodes data/nist_2011_atomic_weights.py, the SRD-144 JSON and four literal tables of build_periodic_table.py as packed naturals (no normalisation in the translator); cross-checked by the exhaustive correspondence below",
    "hand-written model Model/PeriodicTable.lean of periodic_table.py:42-347 tied by exhaustive correspondence over the whole table x alias forms x cases x accessors",
    "CPython float(str)/Decimal(str) (mass as float must equal float(decimal text); checked to be the nearest double with exact rationals)",
    "the oracle's independent re-reading of the raw NIST JSON and the embedded textbook 18-column layout",
]
ASSUMPTIONS = [
    "ASCII identifiers only (CPython's Unicode capitalize()/int() accept e.g. non-ASCII digits); int and str arguments only (the documented Union[int, str])",
    "isotopic compositions are compared exactly in the Lean rebuild where the script compares floats (tabulated values are far apart relative to double spacing)",
]
LEVEL_TEXT = (
    "proof over the whole finite table by kernel evaluation (decide +kernel, no native_decide) of tables regenerated from /repo on every run — the "
    "shipped table equals the documented rebuild of the raw NIST SRD-144 file, every alias form of every element and every nuclide label resolves "
    "to its own row, float masses are the nearest doubles — plus general theorems for arbitrary tables and ASCII texts (case-insensitivity, "
    "no-wrong-species, strict mode, period/group layout for every Z); tied to periodic_table.py by an exhaustive correspondence over the table x "
    "alias forms x cases x accessors and an independent oracle reading the raw NIST JSON and a textbook 18-column layout."
)
TECHNIQUE = "Lean 4 kernel evaluation of translator-generated tables + general string-model theorems + exhaustive correspondence"
RULE = (
    "exhaustive: every element row x {int Z, str Z, symbol, name} and every nuclide label x {as-is, lower, upper, random mixed case} "
    "x accessors {to_Z,to_E,to_element (strict off/on), to_A, to_mass (Decimal+float), to_period, to_group}; plus an out-of-table "
    "stream (negative/large Z, decimal strings, A in front, non-existent A, all 1-2 letter and sampled 3-letter non-symbols, "
    "whitespace/sign/underscore integer spellings, random printable ASCII). Distinct = (accessor, strict, argument); non-trivial = "
    "argument is not the canonical capitalised key (alias, other case, or outside the table)."
)

LAYOUT = """
H  .  .  .  .  .  .  .  .  .  .  .  .  .  .  .  .  He
Li Be .  .  .  .  .  .  .  .  .  .  B  C  N  O  F  Ne
Na Mg .  .  .  .  .  .  .  .  .  .  Al Si P  S  Cl Ar
K  Ca Sc Ti V  Cr Mn Fe Co Ni Cu Zn Ga Ge As Se Br Kr
Rb Sr Y  Zr Nb Mo Tc Ru Rh Pd Ag Cd In Sn Sb Te I  Xe
Cs Ba *  Hf Ta W  Re Os Ir Pt Au Hg Tl Pb Bi Po At Rn
Fr Ra ** Rf Db Sg Bh Hs Mt Ds Rg Cn Nh Fl Mc Lv Ts Og
"""
FBLOCK = {6: "La Ce Pr Nd Pm Sm Eu Gd Tb Dy Ho Er Tm Yb Lu".split(), 7: "Ac Th Pa U Np Pu Am Cm Bk Cf Es Fm Md No Lr".split()}


def textbook_positions():
    pos = {}
    for p, line in enumerate([l for l in LAYOUT.strip().splitlines()], start=1):
        for g, sym in enumerate(line.split(), start=1):
            if sym not in (".", "*", "**"):
                pos[sym] = (p, g)
    for p, syms in FBLOCK.items():
        for s in syms:
            pos[s] = (p, None)
    return pos


def nist_expectations():
    """Independent re-reading of the raw NIST file: label -> (Z, E, name, A, mass string)."""
    raw = json.loads((common.REPO / "raw_data/nist_data/srd144_Atomic_Weights_and_Isotopic_Compositions_for_All_Elements.json").read_text())
    script = common.REPO / "raw_data/nist_data/build_periodic_table.py"
    names = gen_periodic.literal_assign(script, "element_names")
    longest = gen_periodic.literal_assign(script, "longest_lived_isotope_for_unstable_elements")
    newnames = {"Uut": "Nh", "Uup": "Mc", "Uus": "Ts"}
    exp = {"X": (0, "X", "Dummy", 0, "0"), "X0": (0, "X", "Dummy", 0, "0")}
    elements = [(0, "X", "Dummy")]
    for el in raw["data"]:
        sym = newnames.get(el["Atomic Symbol"], el["Atomic Symbol"])
        z = int(el["Atomic Number"])
        nm = names[z - 1].capitalize()
        elements.append((z, sym, nm))
        isos = []
        for iso in el["isotopes"]:
            a = int(iso["Mass Number"])
            mass = re.match(r"[\d.]+", iso["Relative Atomic Mass"]).group(0)
            isym = newnames.get(iso["Atomic Symbol"], iso["Atomic Symbol"])
            comp = iso.get("Isotopic Composition")
            comp = Fraction(re.match(r"[\d.]+", comp).group(0)) if comp else None
            isos.append((a, mass, comp, isym))
            exp[f"{sym}{a}"] = (z, sym, nm, a, mass)
            if isym != sym:  # D, T
                exp[isym] = (z, sym, nm, a, mass)
        stable = [i for i in isos if i[2] is not None]
        if stable:
            best = max(stable, key=lambda i: i[2])  # first maximum
        else:
            best = next(i for i in isos if i[0] == longest[sym])
        exp[sym] = (z, sym, nm, best[0], best[1])
    return exp, elements


def hexs(s: str) -> str:
    return s.encode("ascii").hex()


ACCS = [("Z", 0), ("Z", 1), ("E", 0), ("E", 1), ("name", 0), ("name", 1), ("A", 0), ("mass", 0), ("massbits", 0), ("period", 0), ("group", 0)]


def call_impl(pt, acc, strict, arg):
    try:
        if acc == "Z":
            return "ok " + str(pt.to_Z(arg, strict=bool(strict)))
        if acc == "E":
            return "ok " + pt.to_E(arg, strict=bool(strict))
        if acc == "name":
            return "ok " + pt.to_element(arg, strict=bool(strict))
        if acc == "A":
            return "ok " + str(pt.to_A(arg))
        if acc == "mass":
            d = pt.to_mass(arg, return_decimal=True)
            f = pt.to_mass(arg)
            if not isinstance(d, Decimal) or f != float(str(d)):
                return f"ok {d} FLOAT-MISMATCH {f!r}"
            # nearest double (exact rational check): no neighbouring double is closer
            import math

            fr, dr = Fraction(f), Fraction(str(d))
            for nb in (math.nextafter(f, math.inf), math.nextafter(f, -math.inf)):
                if abs(Fraction(nb) - dr) < abs(fr - dr):
                    return f"ok {d} FLOAT-NOT-NEAREST {f!r}"
            return "ok " + str(d)
        if acc == "massbits":
            import struct

            return "ok " + str(struct.unpack(">Q", struct.pack(">d", pt.to_mass(arg)))[0])
        if acc == "period":
            return "ok " + str(pt.to_period(arg))
        if acc == "group":
            return "ok " + str(pt.to_group(arg))
    except Exception as e:  # noqa
        return "err " + err_class(e)
    raise ValueError(acc)


def mixed(rng, s):
    return "".join(c.upper() if rng.random() < 0.5 else c.lower() for c in s)


def run(ctx: Ctx) -> Outcome:
    import qcelemental as qcel

    pt = qcel.periodictable
    out = Outcome()
    rng = ctx.rng
    exp, elements = nist_expectations()
    textbook = textbook_positions()
    cases = []  # (acc, strict, kind, arg, expected_species_or_None, tag)

    def add(arg, species, tag, accs=ACCS):
        for acc, st in accs:
            cases.append((acc, st, arg, species, tag))

    # --- element rows: every alias form, every case
    for z, sym, nm in elements:
        add(z, sym, "int Z")
        for form, tag in ((str(z), "str Z"), (sym, "symbol"), (nm, "name")):
            variants = {form, form.lower(), form.upper(), mixed(rng, form)}
            for v in variants:
                add(v, sym, tag)
    # --- nuclide labels: every label, several cases
    labels = list(pt.EA)
    for lab in labels:
        variants = {lab, lab.lower(), mixed(rng, lab)}
        if ctx.thorough:
            variants |= {lab.upper(), mixed(rng, lab)}
        for v in variants:
            add(v, lab, "nuclide")
    # --- outside the table
    outside = []
    outside += [-1, -5, 118, 119, 200, 10**9, -(10**6)]
    outside += ["-1", "118", "200", "1.0", "1.", "1e0", "0x1", "4He", "84Kr", "2H", "He100", "H8", "Kr300", "X1", "C_sp3", "Ca_", "H-1", "", " ", "He 4", "H e"]
    outside += ["cat", "dog", "Xx", "Qq", "Jj", "Hydrogenn", "Hydroge", "Uut", "Uup", "Uus", "Dummyx"]
    # valid labels wrapped in whitespace are NOT names of a species (only integer text is stripped, by int())
    padded_src = [sym for _, sym, _ in elements] + [nm for _, _, nm in elements] + rng.sample(labels, min(len(labels), ctx.scale(400, 3470)))
    for lab in padded_src:
        pad = rng.choice([" {}", "{} ", "\t{}", "{}\n", " {} ", "{}\t "])
        outside.append(pad.format(mixed(rng, lab)))
    # zero-padded / re-spelled mass numbers of valid nuclide labels denote no tabulated species ('He04', 'KR084', 'H+1')
    for lab in rng.sample(labels, min(len(labels), ctx.scale(500, 3470))):
        mm = re.fullmatch(r"([A-Za-z]+)(\d+)", lab)
        if mm:
            sym_, a_ = mm.group(1), mm.group(2)
            outside.append(mixed(rng, sym_) + rng.choice(["0", "00"]) + a_)
            if rng.random() < 0.3:
                outside.append(sym_ + rng.choice(["+", "_", " ", "-"]) + a_)
    # decimal spellings of valid atomic numbers
    outside += [f"{z}.0" for z in range(0, 118, 7)] + [f"{z}." for z in (1, 2, 36)]
    known = {s.lower() for s in pt.EA} | {n.lower() for n in pt.name}
    letters = "abcdefghijklmnopqrstuvwxyz"
    for n in (1, 2):
        for t in itertools.product(letters, repeat=n):
            s = "".join(t)
            if s not in known:
                outside.append(s)
    for _ in range(ctx.scale(1500, 8000)):
        s = "".join(rng.choice(letters) for _ in range(3))
        if s not in known:
            outside.append(mixed(rng, s))
    # integer spellings that int() accepts: whitespace, sign, underscores (these DO resolve)
    intish = []
    for z in [0, 1, 2, 10, 36, 92, 117]:
        intish += [f" {z} ", f"\t{z}\n", f"+{z}", f"0{z}", f"{z}_", f"_{z}", f"{z}__0", f"-{z}", f"{z} ", f"{z}_0" if z else "0_0", f"{z}.0"]
    printable = [chr(c) for c in range(32, 127)] + ["\t", "\n"]
    rand = []
    for _ in range(ctx.scale(3000, 30000)):
        n = rng.randint(1, 6)
        rand.append("".join(rng.choice(printable) for _ in range(n)))
    # digit-heavy random strings (hit the int() branch)
    for _ in range(ctx.scale(2000, 20000)):
        n = rng.randint(1, 5)
        rand.append("".join(rng.choice("0123456789_+- ") for _ in range(n)))
    small_accs = [("E", 0), ("E", 1), ("mass", 0), ("group", 0)]
    for a in outside:
        add(a, None, "outside", small_accs)
    for a in intish + rand:
        add(a, "?", "intish/random", small_accs)

    # --- model
    def enc(acc, st, arg):
        return f"{acc} {st} " + (f"i {arg}" if isinstance(arg, int) else f"s {hexs(arg)}")

    lines = [enc(acc, st, arg) for acc, st, arg, _, _ in cases]
    model = ctx.run_model(DRIVER, lines) if ctx.model_available else [None] * len(lines)

    el_syms = {sym for _, sym, _ in elements}
    for (acc, st, arg, species, tag), ml in zip(cases, model):
        got = call_impl(pt, acc, st, arg)
        out.evaluations += 1
        out.count("tag:" + tag)
        out.count("outcome:" + got.split()[0] + (":" + got.split()[1] if got.startswith("err") else ""))
        canonical = isinstance(arg, str) and species == arg
        if not canonical:
            out.nontrivial(f"{acc}|{st}|{arg!r}")
        if out.evaluations % 9973 == 1:
            out.sample({"line": enc(acc, st, arg), "arg": repr(arg), "impl": got, "model": ml})
        case = {"accessor": acc, "strict": st, "arg": arg}
        # ---- oracle (independent of the model)
        if got.startswith("err") and got != "err NotAnElement":
            out.violations.append(Finding("oracle:error_class", case, observed=got, expected="err NotAnElement", detail="only NotAnElementError is documented"))
        if "FLOAT" in got:
            out.violations.append(Finding("oracle:mass_float", case, observed=got, detail="float mass is not the nearest double to the Decimal"))
        if species is None:
            if not got.startswith("err NotAnElement"):
                out.violations.append(Finding("oracle:outside_table_accepted", case, observed=got, expected="err NotAnElement", detail="a name that denotes no tabulated species returned data"))
        elif species != "?":
            z, sym, nm, a, mass = exp[species]
            strict_ok = species in el_syms
            if st and not strict_ok:
                want = "err NotAnElement"
            else:
                want = {"Z": str(z), "E": sym, "name": nm, "A": str(a), "mass": mass}.get(acc)
                if acc == "massbits":
                    import struct

                    want = str(struct.unpack(">Q", struct.pack(">d", float(mass)))[0])
                if acc in ("period", "group"):
                    if sym == "X":
                        want = None  # the dummy has no position in the textbook table; model diff only
                    else:
                        p, g = textbook[sym]
                        want = str(p) if acc == "period" else str(g)
                want = None if want is None else "ok " + want
            if want is not None and got != want:
                out.violations.append(Finding("oracle:nist_value", case, observed=got, expected=want, detail=f"species {species} ({tag})"))
        # ---- correspondence
        if ml is not None and ml != got.split(" FLOAT")[0]:
            out.mismatches.append(Finding("mismatch", case, observed=got, expected=ml, detail="implementation vs Lean model"))
    out.exhaustive = True
    out.notes.append(f"exhaustive over {len(elements)} element rows and {len(labels)} nuclide labels; outside-table and random streams sampled from VERIF_SEED")
    out.notes.append("translator cross-check: every table value the implementation returned was compared with the Lean driver reading the generated tables")
    return out


def replay(ctx: Ctx, case) -> Outcome:
    import qcelemental as qcel

    out = Outcome()
    acc, st, arg = case["accessor"], case["strict"], case["arg"]
    got = call_impl(qcel.periodictable, acc, st, arg)
    line = f"{acc} {st} " + (f"i {arg}" if isinstance(arg, int) else f"s {hexs(arg)}")
    ml = ctx.run_model(DRIVER, [line])[0] if ctx.model_available else None
    out.evaluations = 1
    out.sample({"line": line, "impl": got, "model": ml})
    if ml is not None and ml != got:
        out.mismatches.append(Finding("mismatch", case, observed=got, expected=ml))
    # re-run the oracle on this one argument through the full run's tables
    exp, elements = nist_expectations()
    key = arg.capitalize() if isinstance(arg, str) else None
    if key in exp:
        z, sym, nm, a, mass = exp[key]
        want = {"Z": str(z), "E": sym, "name": nm, "A": str(a), "mass": mass}.get(acc)
        if want and not (st and key not in {e[1] for e in elements}) and got != "ok " + want:
            out.violations.append(Finding("oracle:nist_value", case, observed=got, expected="ok " + want))
    elif got.startswith("ok") and not (isinstance(arg, int) or re.fullmatch(r"\s*[+-]?\d[\d_]*\s*", arg or "") or (arg or "").capitalize() in {e[2] for e in elements}):
        out.violations.append(Finding("oracle:outside_table_accepted", case, observed=got, expected="err NotAnElement"))
    return out
