"""C01 — periodic-table lookups: translator + exhaustive correspondence + independent NIST/textbook oracle."""
from __future__ import annotations

import itertools
import json
import re
import sys
from decimal import Decimal
from fractions import Fraction
from pathlib import Path

import common
from common import Ctx, Finding, Outcome, err_class

sys.path.insert(0, str(common.VERIF / "tools"))
import gen_periodic  # noqa: E402
import c01_anchor  # noqa: E402  (embedded textbook table + its translator; independent of /repo)
import c01_src  # noqa: E402  (translator of the lookup LOGIC of periodic_table.py: ladders, resolver statements, accessor bodies, __init__)

PROPERTY = "C01"
LEAN_TARGETS = ["QcelVerif.Props.C01", "QcelVerif.Lemmas.PeriodicSrc", "QcelVerif.Props.C01SrcKeys", "QcelVerif.Props.C01Src", "QcelVerif.Props.C01SrcShipped", "QcelVerif.Props.C01SrcAnchor",
                "QcelVerif.Driver.C01"]
DRIVER = "QcelVerif/Driver/C01.lean"
THEOREMS = [
    ("QcelVerif.PT.shipped_faithful", "rebuild(raw SRD-144 JSON, literal tables of build_periodic_table.py) = shipped (elements, nuclides): rows, order, D/T double spelling, masses digit-for-digit, bare element = most abundant / longest-lived isotope [decide +kernel over the whole generated table]"),
    ("QcelVerif.PT.bare_default_textbook", "against a table embedded in the harness (NOT the repository's build script): the shipped element rows are (Z, symbol, name) of the textbook table for Z = 1, 2, ... (at least the 92 natural elements), and for each of them int Z / str Z / symbol / name return the textbook default isotope's mass number (most abundant; longest-lived per NIST SP 966 if none is stable) and exactly the mass of that isotope's own label [decide +kernel]"),
    ("QcelVerif.PT.anchor_agrees_with_srd144", "the embedded table agrees with the raw NIST file itself: every bracketed standard atomic weight '[A]' of SRD-144 is the embedded longest-lived isotope, every SRD-144 element has the embedded symbol at its Z (after the 2016 renames) and is flagged unstable iff NIST gives it no isotopic composition [decide +kernel]"),
    ("QcelVerif.PT.tree_isBST", "the generated search tree is ordered"),
    ("QcelVerif.PT.tree_is_dict", "tree = dict(zip(EA, (_EE, A, mass))): every row found with its own values, no other keys"),
    ("QcelVerif.PT.aliases_agree", "for all 118 element rows: int Z, str Z, symbol, name resolve (strict or not) to the row's symbol and return its Z/E/name"),
    ("QcelVerif.PT.nuclides_resolve", "for all nuclide rows: the label resolves to its own key, E, Z, A, mass; strict mode accepts it iff it is a bare element symbol"),
    ("QcelVerif.PT.nuclides_resolve_anycase", "lower/upper spelling of every nuclide label resolves to the same key (kernel instances of case-insensitivity)"),
    ("QcelVerif.PT.masses_float_nearest", "for all nuclide rows: the model's float(mass) (Dec.toF64 of the decimal text) is the double nearest to the tabulated Decimal, ties to even (independent predicate); the correspondence compares these IEEE bit patterns with the implementation's to_mass()"),
    ("QcelVerif.PStr.unpack_pack", "unpack (pack s) = s for every byte string of at most 96 bytes: the single-natural encoding of strings used by the table theorems is lossless"),
    ("QcelVerif.PStr.pack_injective", "pack is injective on such strings (two different labels never share a packed key)"),
    ("QcelVerif.PT.resolve_case_insensitive", "ANY table, ANY two ASCII texts equal after lower-casing resolve identically (all 2^|s| casings)"),
    ("QcelVerif.PT.accessors_case_insensitive", "all seven accessors inherit case-insensitivity"),
    ("QcelVerif.PT.no_wrong_species", "a successful lookup is justified by one of: capitalised text is a nuclide key / int value is a tabulated Z / capitalised text is an element name"),
    ("QcelVerif.PT.strict_exact", "strict accepts exactly the non-strict answers that are bare element symbols"),
    ("QcelVerif.PT.period_group_standard", "for EVERY Z: period ladder = 1 + #noble gases below Z; group lists = 18-column offset rule (f-block none)"),
    # ---- the lookup logic regenerated from periodic_table.py (Gen/PeriodicSrc.lean) ----
    ("QcelVerif.PT.Src.period_src_eq_model", "for EVERY Z: the if/elif ladder of to_period as translated from the source (tests and returned literals in source order) = the hand model's periodOfZ"),
    ("QcelVerif.PT.Src.group_src_eq_model", "for EVERY Z: the `Z in [...]` ladder of to_group as translated from the source = the hand model's groupOfZ (None where no list has Z)"),
    ("QcelVerif.PT.Src.period_group_standard_src", "period_group_standard restated for the translated ladders: standard 18-column layout for EVERY Z"),
    ("QcelVerif.PT.Src.resolve_src_eq_model", "ANY table, EVERY argument (int | ASCII str), both strict: executing the statements translated from _resolve_atom_to_key / resolve_eliso (nested try/except/else in source order, capitalize, int(), which dictionary, strict test against self.E) returns the hand model's key, and raises NotAnElementError — no other class — exactly where the model refuses"),
    ("QcelVerif.PT.Src.resolve_src_error_class", "ANY table: the translated resolver never lets KeyError / ValueError / AttributeError / AssertionError escape: every failure is NotAnElementError"),
    ("QcelVerif.PT.Src.accessors_src_eq_model", "ANY table: the translated bodies of to_Z / to_E / to_element / to_A / to_mass (is strict handed on; dictionaries applied to the key, innermost first) return the hand model's accessor values"),
    ("QcelVerif.PT.Src.aliases_src", "the class-level second names to_atomic_number / to_symbol / to_name / to_mass_number are bound to the translated bodies of to_Z / to_E / to_element / to_A"),
    ("QcelVerif.PT.Src.period_group_src_eq_model", "ANY table: to_period / to_group as translated (Z = self.to_Z(atom) without strict, then the ladder) = the hand model's"),
    ("QcelVerif.PT.Src.resolve_case_insensitive_src", "resolve_case_insensitive restated for the translated resolver (ANY table, all 2^|s| casings)"),
    ("QcelVerif.PT.Src.accessors_case_insensitive_src", "accessors_case_insensitive restated for every translated accessor body, second name and ladder"),
    ("QcelVerif.PT.Src.no_wrong_species_src", "no_wrong_species restated for the translated resolver"),
    ("QcelVerif.PT.Src.strict_exact_src", "strict_exact restated for the translated resolver"),
    ("QcelVerif.PT.Src.tree_keys_are_row_keys", "the keys of the generated search tree, in order, are the sorted labels of the data file's EA array: the tree has no key of its own [decide +kernel, structural merge sort]"),
    ("QcelVerif.PT.Src.lastAssoc_eq_lookup", "GENERAL: if every row is found in a search tree with its own value and every key of the tree is a row key, then 'last row with key k' = tree lookup for EVERY k"),
    ("QcelVerif.PT.Src.buildDict_lookup", "GENERAL: dict(zip(keys, values)) modelled as insertion left to right with overwrite answers every key like 'last row with that key'"),
    ("QcelVerif.PT.Src.dicts_src_eq_model", "shipped table, EVERY key of either kind (present or not): each of the seven dictionaries built from the generated arrays by dict(zip(K, V)) with K, V and the order as translated from __init__ (later duplicate wins; int-keyed vs str-keyed as the data file has them) answers like the hand model's tables (value or KeyError); `x in self.E` likewise"),
    ("QcelVerif.PT.Src.resolve_src_shipped", "shipped table: the FULLY source-derived resolver (translated statements over translated dictionary constructions over the regenerated arrays) = the hand model's resolve, every argument, both strict"),
    ("QcelVerif.PT.Src.aliases_agree_src", "aliases_agree restated for the fully source-derived lookups: all 118 rows x {int Z, str Z, symbol, name} x strict: key, Z, E, name of the row, no exception"),
    ("QcelVerif.PT.Src.nuclides_resolve_src", "nuclides_resolve restated for the fully source-derived lookups: every nuclide label -> own key, E, A, mass; strict -> key iff bare element symbol else NotAnElementError"),
    ("QcelVerif.PT.Src.nuclides_resolve_anycase_src", "nuclides_resolve_anycase restated for the fully source-derived resolver"),
    ("QcelVerif.PT.Src.bare_default_textbook_src", "bare_default_textbook restated for the fully source-derived lookups: for every embedded textbook row the shipped table covers, the default isotope's own label gives that element's E, Z and A, and int Z / str Z / symbol / name give that A and exactly that label's mass, without any exception"),
]
TRANSLATORS = [gen_periodic.main, c01_anchor.translate, c01_src.gen_periodic_src]
TRUSTED_BASE = [
    "Lean 4.33 kernel (decide +kernel evaluation of the generated tables; no native_decide); axioms audited per theorem",
    "tools/gen_periodic.py: re-encodes data/nist_2011_atomic_weights.py, the SRD-144 JSON and four literal tables of build_periodic_table.py as packed naturals (no normalisation in the translator); cross-checked by the exhaustive correspondence below",
    "hand-written model Model/PeriodicTable.lean of periodic_table.py:42-347: its lookup logic (resolver cascade, strict test, accessor bodies and second names, period/group ladders, "
    "which array feeds which dictionary) is now ALSO regenerated from the source on every run (harness/c01_src.py -> Gen/PeriodicSrc.lean) and proved equal to the hand model "
    "(resolve_src_eq_model, accessors_src_eq_model, period/group_src_eq_model, dicts_src_eq_model); the exhaustive correspondence over the whole table x alias forms x cases x accessors "
    "stays, three-way (implementation / hand model / source-derived) on every line",
    "harness/c01_src.py (Python ast -> terms of Model/PeriodicSrcEval.lean): trusted to emit the statements it reads (it fails loudly on every statement, expression, signature, "
    "class member or module-level rebinding outside its subset; nothing is normalised or reordered); cross-checked by the three-way correspondence",
    "Model/PeriodicSrcEval.lean: the evaluator's reading of Python semantics for that subset — try/except <classes>/else (handler and else unprotected), return/raise/assert/if, "
    "short-circuit `and` on bools, AttributeError for int.capitalize(), ValueError for int(str), KeyError for a missing or wrongly-typed key, dict(zip()) = insert left to right with overwrite, "
    "`in` on a list — hand-written, small, and tied to CPython only by the three-way correspondence; str.capitalize()/int() themselves remain the hand model's PStr.capitalize / PStr.pyInt",
    "CPython float(str)/Decimal(str) (mass as float must equal float(decimal text); checked to be the nearest double with exact rationals)",
    "the oracle's independent re-reading of the raw NIST JSON and the embedded textbook 18-column layout",
    "harness/c01_anchor.py: the embedded textbook table (118 x Z, symbol, NIST spelling of the name, most abundant or — NIST SP 966, July 2018 — longest-lived isotope; Uut/Uup/Uus renames; D/T) that anchors the oracle and the theorems bare_default_textbook / anchor_agrees_with_srd144; typed in by hand, cross-checked against the SRD-144 bracket notation (9 elements) and compositions in Lean and in the oracle; for Pu…Ts (25 elements) it is the only source besides the repository's own build script",
    "the raw SRD-144 JSON under raw_data/ is NIST's word AS PINNED: harness/data/refpins.json.gz (tools/mk_refpins.py) holds the oracle's own parsed reading of that file at the pinned commit; a row on which the working tree's raw file departs from the pin is judged against the pin, so a consistent edit of raw file and generated table is reported with the nuclide as input (a raw file that changed while the library still returns the pinned values raises no alarm)",
]
ASSUMPTIONS = [
    "source-derived logic: `strict` is a bool (truthiness of other objects is outside the evaluator's subset, reported as such, never defaulted); exceptions are matched by class NAME against the "
    "except tuple (no subclass relation among KeyError/ValueError/AttributeError/AssertionError/IndexError/TypeError is needed); the per-element table _el2a2mass built in __init__ is accepted "
    "in its exact shape and not modelled (no lookup of C01 consults it); to_mass's final Decimal(mass)/float(mass) is shape-checked by the translator and modelled as before (Dec.toF64)",
    "ASCII identifiers only (CPython's Unicode capitalize()/int() accept e.g. non-ASCII digits); int and str arguments only (the documented Union[int, str])",
    "isotopic compositions are compared exactly in the Lean rebuild where the script compares floats (tabulated values are far apart relative to double spacing)",
]
LEVEL_TEXT = (
    "REGENERATED FROM SOURCE, then proved equal to the hand model: the if/elif ladders of to_period/to_group, the statements of _resolve_atom_to_key and its nested function, the accessor "
    "bodies and second names, and the dictionary constructions of __init__ are read out of periodic_table.py by ast on every run; a small evaluator executes them, and Lean proves for ANY table, "
    "EVERY int|ASCII-str argument and both strict values that the result (key or NotAnElementError, never another class) is the hand model's, for EVERY Z that the ladders are the model's, and for "
    "EVERY key that the seven dictionaries built in the source's order from the regenerated arrays are the model's tables — so every theorem below also holds of the source-derived lookups "
    "(restated: *_src). What stays trusted there: the translator's reading of the ast and the evaluator's semantics of the statement subset (both exercised three-way on every line of the correspondence). "
    "Otherwise as before: proof over the whole finite table by kernel evaluation (decide +kernel, no native_decide) of tables regenerated from /repo on every run — the "
    "shipped table equals the documented rebuild of the raw NIST SRD-144 file, every alias form of every element and every nuclide label resolves "
    "to its own row, float masses are the nearest doubles — plus general theorems for arbitrary tables and ASCII texts (case-insensitivity, "
    "no-wrong-species, strict mode, period/group layout for every Z); tied to periodic_table.py by an exhaustive correspondence over the table x "
    "alias forms x cases x accessors (both documented names of each accessor) and an independent oracle reading the raw NIST JSON and a textbook "
    "table embedded in the harness (18-column layout, names, default isotopes). The side tables of the repository's build script "
    "(names, longest-lived isotopes, renames, aliases) are trusted by shipped_faithful only; the oracle and the theorems bare_default_textbook / "
    "anchor_agrees_with_srd144 do not read them, so a regeneration that alters a side table together with the data file is caught with a concrete input."
)
TECHNIQUE = "Lean 4 kernel evaluation of translator-generated tables + lookup logic translated from the source and proved equal to the hand model + general string-model theorems + exhaustive three-way correspondence"
RULE = (
    "exhaustive: every element row x {int Z, str Z, symbol, name} and every nuclide label x {as-is, lower, upper, random mixed case} "
    "x accessors {to_Z,to_E,to_element (strict off/on), to_A, to_mass (Decimal+float), to_period, to_group} and the second names; a sample of the mass / mass-number lookups is repeated inside decimal.localcontext() with narrowed precision and other rounding modes (same oracle) "
    "{to_atomic_number,to_symbol,to_name (strict off/on), to_mass_number} (all alias forms of element rows, one spelling per nuclide label); "
    "the nuclide labels are the union of those NIST tabulates (raw JSON) and those the shipped table has; every successful mass is also "
    "checked against the reported mass number (mass excess bound) and, for bare elements, against the mass of the label <symbol><to_A>; "
    "plus an out-of-table stream (negative/large Z, decimal strings, A in front, non-existent A: every gap inside and both neighbours of each "
    "element's tabulated range, placeholder symbols Uut/Uup/Uus with real mass numbers, other tables' spellings (Aluminium, Caesium, Deuterium), "
    "all 1-2 letter and sampled 3-letter non-symbols, whitespace/sign/underscore integer spellings, random printable ASCII). "
    "Every line is answered three ways — implementation, hand model, source-derived program (under the Python method name actually called, second names included) — and all three must agree. "
    "Distinct = (accessor, strict, argument); non-trivial = argument is not the canonical capitalised key (alias, other case, or outside the table)."
)

LAYOUT = """
H  .  .  .  .  .  .  .  .  .  .  .  .  .  .  .  .  He
Li Be .  .  .  .  .  .  .  .  .  .  B  C  N  O  F  Ne
Na Mg .  .  .  .  .  .  .  .  .  .  Al Si P  S  Cl Ar
K  Ca Sc Ti V  Cr Mn Fe Co Ni Cu Zn Ga Ge As Se Br Kr
Rb Sr Y  Zr Nb Mo Tc Ru Rh Pd Ag Cd In Sn Sb Te I  Xe
Cs Ba *  Hf Ta W  Re Os Ir Pt Au Hg Tl Pb Bi Po At Rn
Fr Ra ** Rf Db Sg Bh Hs Mt Ds Rg Cn Nh Fl Mc Lv Ts Og
"""
FBLOCK = {6: "La Ce Pr Nd Pm Sm Eu Gd Tb Dy Ho Er Tm Yb Lu".split(), 7: "Ac Th Pa U Np Pu Am Cm Bk Cf Es Fm Md No Lr".split()}


def textbook_positions():
    pos = {}
    for p, line in enumerate([l for l in LAYOUT.strip().splitlines()], start=1):
        for g, sym in enumerate(line.split(), start=1):
            if sym not in (".", "*", "**"):
                pos[sym] = (p, g)
    for p, syms in FBLOCK.items():
        for s in syms:
            pos[s] = (p, None)
    return pos


def textbook_z_order():
    """Symbols in order of atomic number, read off the 18-column LAYOUT (f-block rows inserted at * / **)."""
    order = []
    for p, line in enumerate(LAYOUT.strip().splitlines(), start=1):
        for tok in line.split():
            if tok == ".":
                continue
            if tok in ("*", "**"):
                order += FBLOCK[p]
            else:
                order.append(tok)
    return order


def saw_bracket(el):
    """NIST prints the standard atomic weight of an element without stable isotopes as '[A]', A = mass number of
    its longest-lived isotope."""
    m = re.fullmatch(r"\[(\d+)\]", el.get("Standard Atomic Weight") or "")
    return int(m.group(1)) if m else None


def load_refpin(section):
    """the oracles' own reading of the published tables at the pinned commit (tools/mk_refpins.py), or None when absent"""
    import gzip

    from pathlib import Path

    p = Path(__file__).resolve().parent / "data/refpins.json.gz"
    if not p.exists():
        return None
    return json.loads(gzip.open(p).read())[section]


def nist_expectations():
    """nist_expectations_raw() with every row on which the working tree's raw file departs from the pinned reading of SRD-144 replaced
    by the PINNED row (the property names NIST's table, not whatever the checkout's raw_data says today); rows only the working tree
    has are kept as they are.  `repinned` rows are counted in the evidence."""
    exp, elements, conflicts = nist_expectations_raw()
    pin = load_refpin("srd144")
    REPINNED.clear()
    if pin is not None:
        for k, v in pin.items():
            if exp.get(k) != tuple(v):
                REPINNED.append((k, exp.get(k), tuple(v)))
                exp[k] = tuple(v)
    return exp, elements, conflicts


REPINNED = []


def nist_expectations_raw():
    """Independent re-reading of the raw NIST file: label -> (Z, E, name, A, mass string).

    Nothing here comes from the repository's build script or the shipped table: names, the longest-lived isotope of
    the unstable elements and the 2016 renames are the embedded textbook table of c01_anchor.py; everything else is
    the raw SRD-144 JSON.  Returns (exp, elements, conflicts) where `conflicts` lists elements on which the oracle's
    own sources (raw JSON / embedded table / 18-column layout) contradict each other — on a genuine NIST file: none.
    """
    raw = json.loads((common.REPO / "raw_data/nist_data/srd144_Atomic_Weights_and_Isotopic_Compositions_for_All_Elements.json").read_text())
    anchor = {z: (sym, nm, a, unstable) for z, sym, nm, a, unstable in c01_anchor.textbook_rows()}
    newnames = c01_anchor.RENAMED
    zorder = textbook_z_order()
    exp = {"X": (0, "X", "Dummy", 0, "0"), "X0": (0, "X", "Dummy", 0, "0")}
    elements = [(0, "X", "Dummy")]
    conflicts = []
    for el in raw["data"]:
        sym = newnames.get(el["Atomic Symbol"], el["Atomic Symbol"])
        z = int(el["Atomic Number"])
        asym, nm, a_anchor, unstable = anchor[z]
        if asym != sym or zorder[z - 1] != sym:
            conflicts.append((sym, f"Z={z}: raw NIST file says {sym}, embedded table {asym}, 18-column layout {zorder[z - 1]}"))
        elements.append((z, sym, nm))
        isos = []
        for iso in el["isotopes"]:
            a = int(iso["Mass Number"])
            mass = re.match(r"[\d.]+", iso["Relative Atomic Mass"]).group(0)
            isym = newnames.get(iso["Atomic Symbol"], iso["Atomic Symbol"])
            comp = iso.get("Isotopic Composition")
            comp = Fraction(re.match(r"[\d.]+", comp).group(0)) if comp else None
            isos.append((a, mass, comp, isym))
            exp[f"{sym}{a}"] = (z, sym, nm, a, mass)
            if isym != sym:  # D, T
                exp[isym] = (z, sym, nm, a, mass)
                if c01_anchor.HYDROGEN_ALIASES.get(isym) != (sym, a):
                    conflicts.append((sym, f"isotope symbol {isym} of {sym}{a} is not a textbook alias"))
        stable = [i for i in isos if i[2] is not None]
        if stable:
            best = max(stable, key=lambda i: i[2])  # first maximum
        else:
            best = next((i for i in isos if i[0] == a_anchor), None)
        if best is None or best[0] != a_anchor or bool(stable) == unstable:
            conflicts.append((sym, f"default isotope of {sym}: raw NIST compositions give {best and best[0]}, embedded table {a_anchor}{'*' if unstable else ''}"))
            best = best or isos[0]
        br = saw_bracket(el)
        if br is not None and (br != a_anchor or not unstable):
            conflicts.append((sym, f"SRD-144 standard atomic weight [{br}] vs embedded longest-lived isotope {sym}{a_anchor}"))
        exp[sym] = (z, sym, nm, best[0], best[1])
    return exp, elements, conflicts


def hexs(s: str) -> str:
    return s.encode("ascii").hex()


ACCS = [("Z", 0), ("Z", 1), ("E", 0), ("E", 1), ("name", 0), ("name", 1), ("A", 0), ("mass", 0), ("massbits", 0), ("period", 0), ("group", 0)]
# the documented second names of four accessors (periodic_table.py:242-245): other entry points of the same property.
# "<model accessor>@<method>": the Lean driver is asked for the model accessor, the implementation is called by method.
ALIAS_ACCS = [("Z@to_atomic_number", 0), ("Z@to_atomic_number", 1), ("E@to_symbol", 0), ("E@to_symbol", 1),
              ("name@to_name", 0), ("name@to_name", 1), ("A@to_mass_number", 0)]
METHOD = {"Z": "to_Z", "E": "to_E", "name": "to_element", "A": "to_A", "period": "to_period", "group": "to_group"}
# every tabulated nuclide mass lies within this many u of its mass number (largest mass excess of a known nuclide is
# about 0.2 u = 200 MeV, for the heaviest elements; light exotic nuclides reach 0.05 u)
MASS_EXCESS_BOUND = Decimal("0.25")


def call_impl(pt, acc, strict, arg):
    base, _, meth = acc.partition("@")
    try:
        if base in ("Z", "E", "name"):
            return "ok " + str(getattr(pt, meth or METHOD[base])(arg, strict=bool(strict)))
        if base in ("A", "period", "group"):
            return "ok " + str(getattr(pt, meth or METHOD[base])(arg))
        if base == "mass":
            d = pt.to_mass(arg, return_decimal=True)
            f = pt.to_mass(arg)
            if not isinstance(d, Decimal) or f != float(str(d)):
                return f"ok {d} FLOAT-MISMATCH {f!r}"
            # nearest double (exact rational check): no neighbouring double is closer
            import math

            fr, dr = Fraction(f), Fraction(str(d))
            for nb in (math.nextafter(f, math.inf), math.nextafter(f, -math.inf)):
                if abs(Fraction(nb) - dr) < abs(fr - dr):
                    return f"ok {d} FLOAT-NOT-NEAREST {f!r}"
            return "ok " + str(d)
        if base == "massbits":
            import struct

            return "ok " + str(struct.unpack(">Q", struct.pack(">d", pt.to_mass(arg)))[0])
    except Exception as e:  # noqa
        return "err " + err_class(e)
    raise ValueError(acc)


def mixed(rng, s):
    return "".join(c.upper() if rng.random() < 0.5 else c.lower() for c in s)


def enc(acc, st, arg):
    base, _, meth = acc.partition("@")
    return f"{base} {st} " + (f"i {arg}" if isinstance(arg, int) else f"s {hexs(arg)}") + (f" {meth}" if meth else "")


def split_model(ml):
    """driver line `<hand model> || <source-derived>` -> (hand, src); a line without the separator (bad-op) counts for both"""
    if ml is None:
        return None, None
    hand, sep, src = ml.partition(" || ")
    return (hand, src) if sep else (ml, ml)


def compare_model(out, case, got, ml):
    """three-way: implementation vs hand model, implementation vs source-derived program"""
    hand, src = split_model(ml)
    want = got.split(" FLOAT")[0]
    if hand is not None and hand != want:
        out.mismatches.append(Finding("mismatch", case, observed=got, expected=hand, detail="implementation vs Lean hand model"))
    if src is not None and src != want:
        out.mismatches.append(Finding("mismatch:source-derived", case, observed=got, expected=src,
                                      detail="implementation vs the program translated from periodic_table.py (hand model says: %s)" % hand))


class Tables:
    """What the oracle knows, none of it read from the shipped table or the repository's build script."""

    def __init__(self):
        self.exp, self.elements, self.conflicts = nist_expectations()
        self.textbook = textbook_positions()
        self.el_syms = {sym for _, sym, _ in self.elements}
        self.anchor = {sym: (z, nm, a, unstable) for z, sym, nm, a, unstable in c01_anchor.textbook_rows()}


def judge(pt, T: Tables, acc, st, arg, species, tag, got):
    """The property, stated on one output of the implementation.  Returns the list of Findings."""
    import struct

    base = acc.partition("@")[0]
    case = {"accessor": acc, "strict": st, "arg": arg, "species": species, "tag": tag}
    fs = []
    if got.startswith("err") and got != "err NotAnElement":
        fs.append(Finding("oracle:error_class", case, observed=got, expected="err NotAnElement", detail="only NotAnElementError is documented"))
    if "FLOAT" in got:
        fs.append(Finding("oracle:mass_float", case, observed=got, detail="float mass is not the nearest double to the Decimal"))
    # a mass (of anything that resolves) is the mass of a nuclide with the mass number the library reports for it
    if base == "mass" and got.startswith("ok ") and "FLOAT" not in got:
        try:
            d, a = Decimal(got.split()[1]), pt.to_A(arg)
            if abs(d - a) >= MASS_EXCESS_BOUND and not (a == 0 and d == 0):
                fs.append(Finding("oracle:mass_far_from_mass_number", case, observed=f"{got} with to_A = {a}", expected=f"|mass - A| < {MASS_EXCESS_BOUND}",
                                  detail="no nuclide has a mass excess that large: mass and mass number belong to different rows"))
        except Exception as e:  # noqa
            fs.append(Finding("oracle:mass_far_from_mass_number", case, observed=f"{got} but to_A raises {err_class(e)}", expected="to_A succeeds where to_mass does"))
    if species is None:
        if not got.startswith("err NotAnElement"):
            fs.append(Finding("oracle:outside_table_accepted", case, observed=got, expected="err NotAnElement", detail="a name that denotes no tabulated species returned data"))
        return fs
    if species == "?" or species not in T.exp:
        return fs
    z, sym, nm, a, mass = T.exp[species]
    rejected = bool(st) and species not in T.el_syms
    if rejected:
        want = "err NotAnElement"
    else:
        want = {"Z": str(z), "E": sym, "name": nm, "A": str(a), "mass": mass}.get(base)
        if base == "massbits":
            want = str(struct.unpack(">Q", struct.pack(">d", float(mass)))[0])
        if base in ("period", "group"):
            if sym == "X":
                want = None  # the dummy has no position in the textbook table; model diff only
            else:
                p, g = T.textbook[sym]
                want = str(p) if base == "period" else str(g)
        want = None if want is None else "ok " + want
    if want is not None and got != want:
        fs.append(Finding("oracle:nist_value", case, observed=got, expected=want, detail=f"species {species} ({tag})"))
    if rejected or sym == "X":
        return fs
    # --- the embedded textbook table, on its own (differs from the clause above only if the raw NIST file was altered)
    tz, tnm, ta, unstable = T.anchor[sym]
    bare = species in T.el_syms
    twant = {"Z": str(tz), "name": tnm}.get(base)
    if bare and base == "A":
        twant = str(ta)
    if twant is not None and got != "ok " + twant and "ok " + twant != want:
        fs.append(Finding("oracle:textbook_value", case, observed=got, expected="ok " + twant,
                          detail=f"{sym}: Z={tz}, {tnm}, default isotope {sym}{ta} ({'longest-lived, NIST SP 966' if unstable else 'most abundant'})"))
    # --- a bare element IS one of its isotopes: same mass as the explicit label <symbol><to_A(bare)>
    if bare and base == "mass" and got.startswith("ok ") and "FLOAT" not in got:
        try:
            lbl = f"{pt.to_E(arg)}{pt.to_A(arg)}"
            own = call_impl(pt, "mass", 0, lbl)
        except Exception as e:  # noqa
            lbl, own = "?", "err " + err_class(e)
        if own != got:
            fs.append(Finding("oracle:bare_is_own_isotope", case, observed=f"{got} but to_mass({lbl!r}) -> {own}", expected="equal",
                              detail="mass of the bare element differs from the mass of the isotope its own mass number names"))
    return fs


def run(ctx: Ctx) -> Outcome:
    import qcelemental as qcel

    pt = qcel.periodictable
    out = Outcome()
    rng = ctx.rng
    import sideeffects

    sideeffects.exercise(out)  # header writers / table printers / comparison reports first: whatever they leave behind is seen by the sweep below
    T = Tables()
    out.distribution["reference:srd144_rows_judged_against_the_pin_instead_of_the_working_tree_raw_file"] = len(REPINNED)
    if load_refpin("srd144") is None:
        out.notes.append("harness/data/refpins.json.gz absent: the working tree's raw SRD-144 file is the only reference")
    exp, elements = T.exp, T.elements
    cases = []  # (acc, strict, arg, expected_species_or_None, tag)

    def add(arg, species, tag, accs=ACCS):
        for acc, st in accs:
            cases.append((acc, st, arg, species, tag))

    # --- element rows: every alias form, every case
    for z, sym, nm in elements:
        add(z, sym, "int Z", ACCS + ALIAS_ACCS)
        for form, tag in ((str(z), "str Z"), (sym, "symbol"), (nm, "name")):
            variants = {form, form.lower(), form.upper(), mixed(rng, form)}
            for v in sorted(variants):
                add(v, sym, tag, ACCS + ALIAS_ACCS)
    # --- nuclide labels: every label NIST tabulates (whether or not the shipped table has it) and every label the
    #     shipped table has (whether or not NIST tabulates it), several cases
    shipped_labels = list(pt.EA)
    labels = list(exp) + [lab for lab in dict.fromkeys(shipped_labels) if lab not in exp]
    missing = [lab for lab in exp if lab not in set(shipped_labels)]
    for lab in labels:
        variants = {lab, lab.lower(), mixed(rng, lab)}
        if ctx.thorough:
            variants |= {lab.upper(), mixed(rng, lab)}
        for v in sorted(variants):
            if lab in exp:
                add(v, lab, "nuclide")
            else:
                add(v, None, "shipped label NIST does not tabulate")
        if lab in exp:
            add(lab if rng.random() < 0.5 else mixed(rng, lab), lab, "nuclide", ALIAS_ACCS)
    # --- outside the table
    outside = []
    outside += [-1, -5, 118, 119, 200, 10**9, -(10**6)]
    outside += ["-1", "118", "200", "1.0", "1.", "1e0", "0x1", "4He", "84Kr", "2H", "He100", "H8", "Kr300", "X1", "C_sp3", "Ca_", "H-1", "", " ", "He 4", "H e"]
    outside += ["cat", "dog", "Xx", "Qq", "Jj", "Hydrogenn", "Hydroge", "Uut", "Uup", "Uus", "Dummyx"]
    # spellings that are some other table's name for a tabulated element, never this table's
    outside += ["Aluminium", "Caesium", "Sulphur", "Ununtrium", "Ununpentium", "Ununseptium", "Deuterium", "Tritium", "Og", "Oganesson", "Uuo", "Og294"]
    # valid labels wrapped in whitespace are NOT names of a species (only integer text is stripped, by int())
    padded_src = [sym for _, sym, _ in elements] + [nm for _, _, nm in elements] + rng.sample(labels, min(len(labels), ctx.scale(400, 3470)))
    for lab in padded_src:
        pad = rng.choice([" {}", "{} ", "\t{}", "{}\n", " {} ", "{}\t "])
        outside.append(pad.format(mixed(rng, lab)))
    # zero-padded / re-spelled mass numbers of valid nuclide labels denote no tabulated species ('He04', 'KR084', 'H+1')
    for lab in rng.sample(labels, min(len(labels), ctx.scale(500, 3470))):
        mm = re.fullmatch(r"([A-Za-z]+)(\d+)", lab)
        if mm:
            sym_, a_ = mm.group(1), mm.group(2)
            outside.append(mixed(rng, sym_) + rng.choice(["0", "00"]) + a_)
            if rng.random() < 0.3:
                outside.append(sym_ + rng.choice(["+", "_", " ", "-"]) + a_)
    # mass numbers next to the tabulated range of an element, and the placeholder symbols with real mass numbers
    by_el = {}
    for lab in exp:
        mm = re.fullmatch(r"([A-Za-z]+)(\d+)", lab)
        if mm and lab != "X0":
            by_el.setdefault(mm.group(1), set()).add(int(mm.group(2)))
    for sym_, As in by_el.items():
        for a_ in (min(As) - 1, max(As) + 1):
            if a_ > 0:
                outside.append(mixed(rng, sym_) + str(a_))
        for a_ in range(min(As), max(As)):
            if a_ not in As:
                outside.append(sym_ + str(a_))
    for old_, new_ in c01_anchor.RENAMED.items():
        for a_ in sorted(by_el.get(new_, ())):
            outside.append(old_ + str(a_))
    # a mass number attached to something that is not the SYMBOL: element name + A ('helium4', 'Krypton84'), atomic number + A
    # ('2_4' is covered above; '24' IS chromium), name of the nuclide alias + A ('D2'); these are malformed labels
    name_of = {sym: nm for _, sym, nm in elements}
    for sym_, As in by_el.items():
        nm_ = name_of.get(sym_)
        if nm_:
            picks = {min(As), max(As), exp[sym_][3]} | set(rng.sample(sorted(As), min(len(As), 2)))
            for a_ in sorted(picks):
                outside.append(mixed(rng, nm_) + str(a_))
            outside.append(nm_.lower() + str(exp[sym_][3]))
    outside += ["D2", "T3", "d2", "dummy0", "Dummy0"]
    # decimal spellings of valid atomic numbers
    outside += [f"{z}.0" for z in range(0, 118, 7)] + [f"{z}." for z in (1, 2, 36)]
    known = {s.lower() for s in exp} | {n.lower() for _, _, n in elements}
    outside = [a for a in outside if not (isinstance(a, str) and a.lower() in known)]
    letters = "abcdefghijklmnopqrstuvwxyz"
    for n in (1, 2):
        for t in itertools.product(letters, repeat=n):
            s = "".join(t)
            if s not in known:
                outside.append(s)
    for _ in range(ctx.scale(1500, 8000)):
        s = "".join(rng.choice(letters) for _ in range(3))
        if s not in known:
            outside.append(mixed(rng, s))
    # integer spellings that int() accepts: whitespace, sign, underscores (these DO resolve)
    intish = []
    for z in [0, 1, 2, 10, 36, 92, 117]:
        intish += [f" {z} ", f"\t{z}\n", f"+{z}", f"0{z}", f"{z}_", f"_{z}", f"{z}__0", f"-{z}", f"{z} ", f"{z}_0" if z else "0_0", f"{z}.0"]
    printable = [chr(c) for c in range(32, 127)] + ["\t", "\n"]
    rand = []
    for _ in range(ctx.scale(3000, 30000)):
        n = rng.randint(1, 6)
        rand.append("".join(rng.choice(printable) for _ in range(n)))
    # digit-heavy random strings (hit the int() branch)
    for _ in range(ctx.scale(2000, 20000)):
        n = rng.randint(1, 5)
        rand.append("".join(rng.choice("0123456789_+- ") for _ in range(n)))
    small_accs = [("E", 0), ("E", 1), ("mass", 0), ("group", 0)]
    for a in outside:
        add(a, None, "outside", small_accs)
    for a in intish + rand:
        add(a, "?", "intish/random", small_accs)

    # --- model
    lines = [enc(acc, st, arg) for acc, st, arg, _, _ in cases]
    model = ctx.run_model(DRIVER, lines) if ctx.model_available else [None] * len(lines)

    for (acc, st, arg, species, tag), ml in zip(cases, model):
        got = call_impl(pt, acc, st, arg)
        out.evaluations += 1
        out.count("tag:" + tag)
        if "@" in acc:
            out.count("entry:" + acc.partition("@")[2])
        out.count("outcome:" + got.split()[0] + (":" + got.split()[1] if got.startswith("err") else ""))
        canonical = isinstance(arg, str) and species == arg
        if not canonical:
            out.nontrivial(f"{acc}|{st}|{arg!r}")
        if out.evaluations % 9973 == 1:
            out.sample({"line": enc(acc, st, arg), "arg": repr(arg), "impl": got, "model": ml})
        # ---- oracle (independent of the model)
        out.violations += judge(pt, T, acc, st, arg, species, tag, got)
        # ---- correspondence
        compare_model(out, {"accessor": acc, "strict": st, "arg": arg, "species": species, "tag": tag}, got, ml)
    # ---- ambient state: the answers (the Decimal mass in particular: "exactly those of NIST") do not depend on the caller's
    #      decimal context (precision / rounding mode set by the surrounding program, e.g. inside decimal.localcontext())
    import decimal

    dctxs = [{"prec": 8, "rounding": decimal.ROUND_HALF_EVEN}, {"prec": 3, "rounding": decimal.ROUND_DOWN},
             {"prec": 12, "rounding": decimal.ROUND_UP}, {"prec": 5, "rounding": decimal.ROUND_CEILING}, {"prec": 1, "rounding": decimal.ROUND_FLOOR}]
    pool = [c for c in cases if c[0].partition("@")[0] in ("mass", "massbits", "A") and c[3] not in (None, "?")]
    for acc, st, arg, species, tag in rng.sample(pool, min(len(pool), ctx.scale(2500, 30000))):
        dc = rng.choice(dctxs)
        with decimal.localcontext() as lc:
            lc.prec, lc.rounding = dc["prec"], dc["rounding"]
            got = call_impl(pt, acc, st, arg)
        out.evaluations += 1
        out.count("ambient:decimal_context prec=%d" % dc["prec"])
        for f in judge(pt, T, acc, st, arg, species, tag, got):
            f.case["decimal_context"] = dc
            f.detail = (f.detail + "; " if f.detail else "") + f"under decimal.localcontext(prec={dc['prec']}, rounding={dc['rounding']})"
            out.violations.append(f)
    # ---- names outside ASCII (the Lean string model stops at ASCII, see ASSUMPTIONS; oracle only, a fixed list).  "In any letter
    #      case" is str.capitalize()'s case mapping and nothing wider: a name whose capitalised form is ASCII names what that ASCII
    #      form names; a string of Unicode decimal digits is the atomic number int() reads; anything else names nothing.
    NONASCII = ["\u212a", "\u212ar84", "o\u017f", "a\u017f75", "ce\u017fium", "\u017f", "\u00c5", "H\u00e9", "\uff11", "\u0661\u0668", "\uff28",
                "h\u0131", "\u0130", "\u212b", "\u017fi", "\ufb01", "n\u00e9on", "\u03a7e", "\u0421", "\u0397e"]
    for a in NONASCII:
        t = a.capitalize()
        for acc, st in (("E", 0), ("E", 1), ("mass", 0), ("Z", 0)):
            got = call_impl(pt, acc, st, a)
            if t.isascii():
                want, why = call_impl(pt, acc, st, t), f"what its capitalised form {t!r} names"
            elif a.isdecimal():
                want, why = call_impl(pt, acc, st, int(a)), f"the atomic number int() reads ({int(a)})"
            else:
                want, why = "err NotAnElement", "nothing (its capitalised form is not an ASCII name and it is not a number)"
            out.evaluations += 1
            out.count("nonascii_name")
            if got != want:
                out.violations.append(Finding("oracle:nonascii_name", {"accessor": acc, "strict": st, "arg": a, "nonascii": True}, observed=got, expected=want,
                                              detail=f"the non-ASCII name {a!r} must name {why}"))
    # ---- the oracle's own sources must not contradict each other (raw NIST file vs embedded textbook table)
    for sym, why in T.conflicts:
        got = call_impl(pt, "A", 0, sym)
        out.violations.append(Finding("oracle:nist_file_vs_textbook", {"accessor": "A", "strict": 0, "arg": sym, "species": sym, "tag": "symbol", "conflict": True},
                                      observed=got, expected=why, detail="the raw NIST file under raw_data/ contradicts the embedded textbook table: the reference itself was altered"))
    out.count("unstable elements (default isotope anchored in NIST SP 966 / SRD-144 brackets)", sum(1 for _, s_, _ in elements if s_ != "X" and T.anchor[s_][3]))
    out.exhaustive = True
    out.notes.append(f"exhaustive over {len(elements)} element rows and {len(labels)} nuclide labels (NIST's and the shipped table's; {len(missing)} NIST labels missing from the shipped table, "
                     f"{len(labels) - len(exp)} shipped labels unknown to NIST); outside-table and random streams sampled from VERIF_SEED")
    out.notes.append("three-way on every line: implementation / hand model (Model/PeriodicTable.lean) / statements translated from periodic_table.py run over dictionaries built in the source's order (Gen/PeriodicSrc.lean)")
    out.notes.append("translator cross-check: every table value the implementation returned was compared with the Lean driver reading the generated tables")
    out.notes.append("oracle sources: raw SRD-144 JSON + embedded textbook table (names, longest-lived isotopes, renames, 18-column layout); build_periodic_table.py and the shipped data file are NOT read by the oracle")
    return out


def replay(ctx: Ctx, case) -> Outcome:
    import qcelemental as qcel

    pt = qcel.periodictable
    out = Outcome()
    import sideeffects

    sideeffects.exercise()
    acc, st, arg = case["accessor"], case["strict"], case["arg"]
    if case.get("nonascii"):
        return run(ctx)  # fixed list, oracle only: the whole (fast) run replays it
    if case.get("decimal_context"):
        import decimal

        with decimal.localcontext() as lc:
            lc.prec, lc.rounding = case["decimal_context"]["prec"], case["decimal_context"]["rounding"]
            got = call_impl(pt, acc, st, arg)
    else:
        got = call_impl(pt, acc, st, arg)
    line = enc(acc, st, arg)
    ml = ctx.run_model(DRIVER, [line])[0] if ctx.model_available else None
    out.evaluations = 1
    out.sample({"line": line, "impl": got, "model": ml})
    compare_model(out, case, got, ml)
    T = Tables()
    if "species" in case:
        # the full oracle on this one input
        out.violations += judge(pt, T, acc, st, arg, case["species"], case.get("tag", "replay"), got)
        if case.get("conflict"):
            for sym, why in T.conflicts:
                if sym == case["species"]:
                    out.violations.append(Finding("oracle:nist_file_vs_textbook", case, observed=got, expected=why))
        return out
    # replay files recorded before `species` was part of the case: re-derive it from the argument
    exp, elements = T.exp, T.elements
    key = arg.capitalize() if isinstance(arg, str) else None
    if key in exp:
        z, sym, nm, a, mass = exp[key]
        want = {"Z": str(z), "E": sym, "name": nm, "A": str(a), "mass": mass}.get(acc)
        if want and not (st and key not in {e[1] for e in elements}) and got != "ok " + want:
            out.violations.append(Finding("oracle:nist_value", case, observed=got, expected="ok " + want))
    elif got.startswith("ok") and not (isinstance(arg, int) or re.fullmatch(r"\s*[+-]?\d[\d_]*\s*", arg or "") or (arg or "").capitalize() in {e[2] for e in elements}):
        out.violations.append(Finding("oracle:outside_table_accepted", case, observed=got, expected="err NotAnElement"))
    return out
