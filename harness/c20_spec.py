"""Translator for C20: regenerates lean/QcelVerif/Gen/ResultSpec.lean from the *text* of the working tree
(QCEL_REPO/qcelemental/models/{results,procedures,common_models}.py), by `ast` — nothing is imported, so what
is described is what the files say now, not what an already-imported module holds.

What is read (and nothing is interpreted here beyond a small symbolic evaluation of the validator bodies):

  (i)   every field of AtomicResultProperties and WavefunctionProperties: name, annotation class, Optional?, the
        `shape=[...]` and `units="..."` keywords of its `Field(...)`;
  (ii)  every `@validator(...)` of those two classes: decorator arguments (field names, pre, always) and, for each
        attached field name, the rule the body applies — obtained by evaluating the body with `field.name` bound to
        that name: the arguments of the `.reshape(...)` call / `v.shape = ...` assignment as symbolic dimensions
        (3, values['calcinfo_natom'], 3*values['calcinfo_natom'], values['basis'].nbf, -1, int(v.size**0.5)) and what
        happens when the `values` entry is None (raise / return v);
  (iii) `AtomicResult._wavefunction_protocol`: the branch of every WavefunctionProtocolEnum member (pass / wfn = None /
        return_keep = [...]), the suffix dropped for restricted wavefunctions, the keys always copied;
  (iv)  `AtomicResult._validate_return_result`: the reshape applied for every DriverEnum member;
  (v)   `OptimizationResult._trajectory_protocol`: the branch of every TrajectoryProtocolEnum member;
  plus `_native_file_protocol` per NativeFilesProtocolEnum member and `_stdout_protocol` (True / False).

Anything the evaluator does not understand is a TranslatorError (= broken tie, reported by run.py), never dropped.
`cross_check(spec)` compares the extraction with the live classes (`__fields__`, `__validators__`) the harness runs.
"""
from __future__ import annotations

import ast
from pathlib import Path

import common


class TranslatorError(Exception):
    pass


# ----------------------------------------------------------------------------------------------------
# symbolic values


class Sym:
    def __init__(self, t):
        self.t = t

    def __repr__(self):
        return f"Sym({self.t})"

    def __eq__(self, o):
        return isinstance(o, Sym) and o.t == self.t

    def __hash__(self):
        return hash(self.t)


class Reshaped:
    """result of `<base>.reshape(dims)`"""

    def __init__(self, base, dims):
        self.base, self.dims = base, dims


class IsNone:
    def __init__(self, sym, negate=False):
        self.sym, self.negate = sym, negate


class State:
    def __init__(self, field_name, fixed):
        self.field_name = field_name
        self.fixed = fixed  # {symbolic text: concrete value}
        self.guards = []  # (sym text, 'needs' | 'skips')
        self.reshape = None
        self.returned = None


def _fix(st, s):
    if isinstance(s, Sym) and s.t in st.fixed:
        return st.fixed[s.t]
    return s


def ev(node, env, st):
    if isinstance(node, ast.Constant):
        return node.value
    if isinstance(node, ast.Name):
        return env.get(node.id, Sym(node.id))
    if isinstance(node, ast.Attribute):
        base = ev(node.value, env, st)
        if isinstance(base, Sym) and base.t == "field" and node.attr == "name":
            if st.field_name is None:
                raise TranslatorError("field.name used where no field is bound")
            return st.field_name
        if isinstance(base, Sym):
            return _fix(st, Sym(f"{base.t}.{node.attr}"))
        raise TranslatorError(f"attribute {node.attr} of {base!r}")
    if isinstance(node, ast.Subscript):
        base = ev(node.value, env, st)
        idx = ev(node.slice, env, st)
        if isinstance(base, Sym):
            it = idx.t if isinstance(idx, Sym) else repr(idx)
            return _fix(st, Sym(f"{base.t}[{it}]"))
        raise TranslatorError(f"subscript of {base!r}")
    if isinstance(node, (ast.Tuple, ast.List)):
        return [ev(e, env, st) for e in node.elts]
    if isinstance(node, ast.UnaryOp) and isinstance(node.op, ast.USub):
        v = ev(node.operand, env, st)
        if isinstance(v, int):
            return -v
        raise TranslatorError("unary minus of non-integer")
    if isinstance(node, ast.BinOp):
        a, b = ev(node.left, env, st), ev(node.right, env, st)
        if isinstance(node.op, ast.Mult):
            if isinstance(a, int) and isinstance(b, int):
                return a * b
            if isinstance(a, list) and isinstance(b, int):
                return a * b
            if isinstance(a, int) and isinstance(b, Sym):
                return Sym(f"{a}*{b.t}")
            if isinstance(a, Sym) and isinstance(b, int):
                return Sym(f"{b}*{a.t}")
        if isinstance(node.op, ast.Pow) and isinstance(a, Sym) and isinstance(b, (int, float)):
            return Sym(f"{a.t}**{b}")
        raise TranslatorError(f"binary operation {ast.dump(node.op)} on {a!r}, {b!r}")
    if isinstance(node, ast.JoinedStr):
        return Sym("<f-string>")
    if isinstance(node, ast.Compare) and len(node.ops) == 1:
        a, b = ev(node.left, env, st), ev(node.comparators[0], env, st)
        op = node.ops[0]
        if isinstance(op, (ast.Is, ast.IsNot)) and b is None:
            if isinstance(a, Sym):
                return IsNone(a, isinstance(op, ast.IsNot))
            return (a is None) != isinstance(op, ast.IsNot)
        if isinstance(op, (ast.Eq, ast.NotEq)) and isinstance(a, (str, int, bool)) and isinstance(b, (str, int, bool)):
            return (a == b) != isinstance(op, ast.NotEq)
        raise TranslatorError(f"comparison not understood: {ast.unparse(node)}")
    if isinstance(node, ast.Call):
        f = node.func
        if isinstance(f, ast.Attribute):
            if f.attr == "reshape":
                base = ev(f.value, env, st)
                args = [ev(a, env, st) for a in node.args]
                if node.keywords:
                    raise TranslatorError("reshape with keywords (order=...) is not the modelled reshape")
                if len(args) == 1 and isinstance(args[0], list):
                    args = args[0]
                return Reshaped(base, args)
            if f.attr == "asarray" and isinstance(f.value, ast.Name) and f.value.id in ("np", "numpy"):
                if len(node.args) != 1 or node.keywords:
                    raise TranslatorError("np.asarray with extra arguments")
                return ev(node.args[0], env, st)
            if f.attr == "endswith":
                base = ev(f.value, env, st)
                arg = ev(node.args[0], env, st)
                if isinstance(base, str) and isinstance(arg, str):
                    return base.endswith(arg)
                raise TranslatorError("endswith on a non-constant")
            if f.attr == "get":
                base = ev(f.value, env, st)
                key = ev(node.args[0], env, st)
                if len(node.args) == 2 and ev(node.args[1], env, st) is not None:
                    raise TranslatorError(".get with a default other than None")
                if isinstance(base, Sym):
                    it = key.t if isinstance(key, Sym) else repr(key)
                    return _fix(st, Sym(f"{base.t}[{it}]"))
            raise TranslatorError(f"call not understood: {ast.unparse(node)}")
        if isinstance(f, ast.Name):
            args = [ev(a, env, st) for a in node.args]
            if f.id in ("tuple", "list") and len(args) == 1 and isinstance(args[0], list):
                return list(args[0])
            if f.id == "int" and len(args) == 1 and isinstance(args[0], Sym):
                return Sym(f"int({args[0].t})")
            if f.id == "len" and len(args) == 1 and isinstance(args[0], Sym):
                return Sym(f"len({args[0].t})")
            raise TranslatorError(f"call not understood: {ast.unparse(node)}")
    raise TranslatorError(f"expression not understood: {ast.unparse(node)}")


def run_block(stmts, env, st):
    """returns 'return' | 'raise' | None (falls through)"""
    for s in stmts:
        if isinstance(s, ast.Expr):
            if isinstance(s.value, ast.Constant):
                continue
            raise TranslatorError(f"statement not understood: {ast.unparse(s)}")
        if isinstance(s, ast.Pass):
            continue
        if isinstance(s, ast.Assign):
            if len(s.targets) != 1:
                raise TranslatorError("multiple assignment")
            tgt = s.targets[0]
            val = ev(s.value, env, st)
            if isinstance(tgt, ast.Name):
                if isinstance(val, Reshaped):
                    st.reshape = val.dims
                    val = val.base
                env[tgt.id] = val
                continue
            if isinstance(tgt, ast.Attribute) and tgt.attr == "shape" and isinstance(val, list):
                st.reshape = val
                continue
            raise TranslatorError(f"assignment not understood: {ast.unparse(s)}")
        if isinstance(s, ast.If):
            t = ev(s.test, env, st)
            if isinstance(t, bool):
                r = run_block(s.body if t else s.orelse, env, st)
                if r:
                    return r
                continue
            if isinstance(t, IsNone):
                none_body, some_body = (s.orelse, s.body) if t.negate else (s.body, s.orelse)
                sub = State(st.field_name, st.fixed)
                r = run_block(none_body, dict(env), sub)
                if sub.reshape is not None:
                    raise TranslatorError("reshape inside an `is None` branch")
                if r == "raise":
                    st.guards.append((t.sym.t, "needs"))
                elif r == "return":
                    st.guards.append((t.sym.t, "skips"))
                else:
                    raise TranslatorError(f"`is None` branch neither returns nor raises: {ast.unparse(s.test)}")
                r = run_block(some_body, env, st)
                if r:
                    return r
                continue
            raise TranslatorError(f"condition not understood: {ast.unparse(s.test)}")
        if isinstance(s, ast.Try):
            if s.orelse or s.finalbody:
                raise TranslatorError("try with else/finally")
            r = run_block(s.body, env, st)
            if r:
                return r
            continue
        if isinstance(s, ast.Return):
            val = ev(s.value, env, st) if s.value is not None else None
            if isinstance(val, Reshaped):
                st.reshape = val.dims
                val = val.base
            st.returned = val
            return "return"
        if isinstance(s, ast.Raise):
            return "raise"
        raise TranslatorError(f"statement not understood: {ast.unparse(s)}")
    return None


DIM_SYMS = {
    "values['calcinfo_natom']": ("natom", "values['calcinfo_natom']"),
    "3*values['calcinfo_natom']": ("natom3", "values['calcinfo_natom']"),
    "values['basis'].nbf": ("nbf", "values['basis']"),
    "int(v.size**0.5)": ("isqrt", None),
}


def rule_of(fn: ast.FunctionDef, field_name, fixed=None):
    """evaluate validator `fn` for one attached field -> ('reshape', [dims], guard) | ('targetExists',) | ('identity',) | ('other', txt)"""
    args = [a.arg for a in fn.args.args]
    if len(args) < 2 or args[0] != "cls":
        raise TranslatorError(f"{fn.name}: unexpected signature {args}")
    env = {args[1]: Sym("v")}
    for a in args[2:]:
        if a not in ("values", "field"):
            raise TranslatorError(f"{fn.name}: unexpected validator argument {a}")
    st = State(field_name, fixed or {})
    r = run_block(fn.body, env, st)
    if r != "return":
        raise TranslatorError(f"{fn.name}[{field_name}]: does not end in a return on the main path")
    if st.returned != Sym("v"):
        return ("other", f"returns {st.returned!r}")
    guards = [g for g in st.guards if g[0] != "v"]
    if st.reshape is None:
        if guards == [("values[v]", "needs")]:
            return ("targetExists",)
        if not guards:
            return ("identity",)
        return ("other", f"guards {guards}")
    dims, needed = [], set()
    for d in st.reshape:
        if isinstance(d, bool):
            dims.append(("other", repr(d)))
        elif isinstance(d, int) and d >= 0:
            dims.append(("lit", d))
        elif isinstance(d, int) and d == -1:
            dims.append(("any",))
        elif isinstance(d, Sym) and d.t in DIM_SYMS:
            dims.append((DIM_SYMS[d.t][0],))
            if DIM_SYMS[d.t][1]:
                needed.add(DIM_SYMS[d.t][1])
        else:
            dims.append(("other", d.t if isinstance(d, Sym) else repr(d)))
    guard = "free"
    if needed:
        if len(needed) != 1:
            return ("other", f"needs {sorted(needed)}")
        (n,) = needed
        gs = [g[1] for g in guards if g[0] == n]
        if len(gs) != 1 or len(guards) != 1:
            return ("other", f"reads {n} with guards {guards}")
        guard = gs[0]
    elif guards:
        return ("other", f"guards {guards} without use")
    return ("reshape", dims, guard)


# ----------------------------------------------------------------------------------------------------
# reading classes


def find_class(tree, name):
    for n in tree.body:
        if isinstance(n, ast.ClassDef) and n.name == name:
            return n
    raise TranslatorError(f"class {name} not found")


def find_method(cls, name):
    for n in cls.body:
        if isinstance(n, ast.FunctionDef) and n.name == name:
            return n
    raise TranslatorError(f"{cls.name}.{name} not found")


def classify_annotation(a: ast.expr):
    optional = False
    if isinstance(a, ast.Subscript) and isinstance(a.value, ast.Name) and a.value.id == "Optional":
        optional, a = True, a.slice
    txt = ast.unparse(a)
    if txt in ("float", "int", "bool", "str"):
        return optional, (txt,)
    if txt == "Array[float]":
        return optional, ("array",)
    if isinstance(a, ast.Name) and a.id[:1].isupper():
        return optional, ("model", a.id)
    return optional, ("other", txt)


def read_fields(cls: ast.ClassDef):
    out = []
    for n in cls.body:
        if not isinstance(n, ast.AnnAssign) or not isinstance(n.target, ast.Name) or n.target.id.startswith("_"):
            continue
        optional, kind = classify_annotation(n.annotation)
        shape = units = None
        v = n.value
        if isinstance(v, ast.Call) and isinstance(v.func, ast.Name) and v.func.id == "Field":
            for kw in v.keywords:
                if kw.arg == "shape":
                    if not isinstance(kw.value, (ast.List, ast.Tuple)) or not all(
                        isinstance(e, ast.Constant) and isinstance(e.value, (int, str)) and not isinstance(e.value, bool) for e in kw.value.elts
                    ):
                        raise TranslatorError(f"{cls.name}.{n.target.id}: shape= is not a list of int/str literals")
                    shape = [e.value for e in kw.value.elts]
                elif kw.arg == "units":
                    if not (isinstance(kw.value, ast.Constant) and isinstance(kw.value.value, str)):
                        raise TranslatorError(f"{cls.name}.{n.target.id}: units= is not a string literal")
                    units = kw.value.value
        elif v is not None and not isinstance(v, ast.Constant):
            raise TranslatorError(f"{cls.name}.{n.target.id}: default is neither Field(...) nor a literal")
        out.append({"name": n.target.id, "kind": kind, "optional": optional, "shape": shape, "units": units})
    return out


def validator_decorator(fn: ast.FunctionDef):
    for d in fn.decorator_list:
        if isinstance(d, ast.Call) and isinstance(d.func, ast.Name) and d.func.id == "validator":
            names = []
            for a in d.args:
                if not (isinstance(a, ast.Constant) and isinstance(a.value, str)):
                    raise TranslatorError(f"{fn.name}: validator argument is not a string literal")
                names.append(a.value)
            kws = {}
            for kw in d.keywords:
                if not isinstance(kw.value, ast.Constant):
                    raise TranslatorError(f"{fn.name}: validator keyword {kw.arg} is not a literal")
                kws[kw.arg] = kw.value.value
            return names, kws
    return None


def read_validators(cls: ast.ClassDef):
    out = []
    for n in cls.body:
        if not isinstance(n, ast.FunctionDef):
            continue
        dec = validator_decorator(n)
        if dec is None:
            continue
        names, kws = dec
        out.append({"name": n.name, "pre": bool(kws.get("pre", False)), "always": bool(kws.get("always", False)),
                    "rules": [(fname, rule_or_other(n, fname)) for fname in names]})
    return out


def rule_or_other(fn, fname):
    """a body that cannot be evaluated for this field name (e.g. no suffix branch applies: Python would raise
    UnboundLocalError) is reported as `.other`, so that the Lean soundness theorem names the field"""
    try:
        return rule_of(fn, fname)
    except TranslatorError as e:
        return ("other", f"not evaluable for this field: {e}")


def read_enum(tree, name):
    cls = find_class(tree, name)
    vals = []
    for n in cls.body:
        if isinstance(n, ast.Assign) and len(n.targets) == 1 and isinstance(n.targets[0], ast.Name) and isinstance(n.value, ast.Constant) \
                and isinstance(n.value.value, str):
            vals.append(n.value.value)
    if not vals:
        raise TranslatorError(f"enum {name} has no members")
    return vals


# ----------------------------------------------------------------------------------------------------
# protocol branches (pattern based)


def selector_chain(fn: ast.FunctionDef, attr=None, values_key=None):
    """the if/elif chain `sel == "const"` where sel = values["protocols"].<attr> (or the expression values[<values_key>])
    -> list of (const | None for else, body)"""
    sel = None
    for s in fn.body:
        if attr and isinstance(s, ast.Assign) and len(s.targets) == 1 and isinstance(s.targets[0], ast.Name) \
                and ast.unparse(s.value) in (f"values['protocols'].{attr}",):
            sel = s.targets[0].id
        if not isinstance(s, ast.If):
            continue

        def is_sel(e):
            if sel is not None and isinstance(e, ast.Name) and e.id == sel:
                return True
            return values_key is not None and ast.unparse(e) == f"values['{values_key}']"

        def test_const(t):
            if isinstance(t, ast.Compare) and len(t.ops) == 1 and isinstance(t.ops[0], (ast.Eq, ast.Is)) and is_sel(t.left) \
                    and isinstance(t.comparators[0], ast.Constant):
                return True, t.comparators[0].value
            return False, None

        ok, c = test_const(s.test)
        if not ok:
            continue
        chain = []
        cur = s
        while True:
            ok, c = test_const(cur.test)
            if not ok:
                raise TranslatorError(f"{fn.name}: chain test not understood: {ast.unparse(cur.test)}")
            chain.append((c, cur.body))
            if len(cur.orelse) == 1 and isinstance(cur.orelse[0], ast.If) and test_const(cur.orelse[0].test)[0]:
                cur = cur.orelse[0]
                continue
            chain.append((None, cur.orelse))
            break
        return chain, s
    raise TranslatorError(f"{fn.name}: no selector chain found")


def branch_for(chain, value):
    for c, body in chain:
        if c is not None and c == value and type(c) == type(value):
            return body
    return chain[-1][1]  # else


def const_str_list(node):
    if isinstance(node, ast.List) and all(isinstance(e, ast.Constant) and isinstance(e.value, str) for e in node.elts):
        return [e.value for e in node.elts]
    return None


def keep_branch(body, fn_name):
    """summarise a branch of a retention protocol"""
    if not body:
        return ("keepAll",)  # empty else: falls through unchanged
    if len(body) == 1:
        s = body[0]
        if isinstance(s, ast.Pass):
            return ("keepAll",)
        if isinstance(s, ast.Raise):
            return ("raises",)
        if isinstance(s, ast.Assign) and len(s.targets) == 1 and isinstance(s.targets[0], ast.Name):
            if isinstance(s.value, ast.Constant) and s.value.value is None:
                return ("dropAll",)
            if isinstance(s.value, (ast.List, ast.Dict)) and ast.unparse(s.value) in ("[]", "{}"):
                return ("dropAll",)
        if isinstance(s, ast.Return):
            if isinstance(s.value, ast.Name) and s.value.id in ("value", "v"):
                return ("keepAll",)
            if (isinstance(s.value, ast.Constant) and s.value.value is None) or ast.unparse(s.value) in ("{}", "[]"):
                return ("dropAll",)
        if isinstance(s, ast.If) and not s.orelse and isinstance(s.test, ast.Compare) and len(s.test.ops) == 1 \
                and isinstance(s.test.ops[0], ast.Gt) and ast.unparse(s.test.left) == "len(v)" \
                and isinstance(s.test.comparators[0], ast.Constant) and isinstance(s.test.comparators[0].value, int) \
                and len(s.body) == 1 and isinstance(s.body[0], ast.Assign) and ast.unparse(s.body[0].targets[0]) == "v" \
                and isinstance(s.body[0].value, ast.List):
            idx = []
            for e in s.body[0].value.elts:
                if not (isinstance(e, ast.Subscript) and ast.unparse(e.value) == "v"):
                    raise TranslatorError(f"{fn_name}: trajectory element not understood: {ast.unparse(e)}")
                i = ast.literal_eval(ast.unparse(e.slice))
                if not isinstance(i, int):
                    raise TranslatorError(f"{fn_name}: trajectory index not an integer")
                idx.append(i)
            return ("ifLonger", s.test.comparators[0].value, idx)
    s0 = body[0]
    if isinstance(s0, ast.Assign) and len(s0.targets) == 1 and ast.unparse(s0.targets[0]) == "return_keep":
        names = const_str_list(s0.value)
        if names is not None:
            for s in body[1:]:  # only the `files = {} / value.copy()` preparation may follow
                txt = ast.unparse(s)
                if txt.replace("\n", " ").split() != "if value is None: files = {} else: files = value.copy()".split():
                    raise TranslatorError(f"{fn_name}: statement after return_keep not understood: {txt}")
            return ("keep", names)
    raise TranslatorError(f"{fn_name}: branch not understood: {' ; '.join(ast.unparse(s) for s in body)}")


def read_wfn_protocol(fn: ast.FunctionDef):
    chain, _ = selector_chain(fn, attr="wavefunction")
    # restricted: the suffix popped
    suffix = None
    for s in ast.walk(fn):
        if isinstance(s, ast.If) and ast.unparse(s.test) == "restricted":
            for c in ast.walk(s):
                if isinstance(c, ast.Call) and isinstance(c.func, ast.Attribute) and c.func.attr == "endswith" and len(c.args) == 1 \
                        and isinstance(c.args[0], ast.Constant):
                    if suffix is not None:
                        raise TranslatorError("_wavefunction_protocol: two suffix tests under `if restricted`")
                    suffix = c.args[0].value
            pops = [c for c in ast.walk(s) if isinstance(c, ast.Call) and ast.unparse(c) == "wfn.pop(k)"]
            if len(pops) != 1:
                raise TranslatorError("_wavefunction_protocol: `wfn.pop(k)` under `if restricted` not found")
    if suffix is None:
        raise TranslatorError("_wavefunction_protocol: restricted block not found")
    # the keep loop: what is copied
    loop = None
    for s in ast.walk(fn):
        if isinstance(s, ast.For) and ast.unparse(s.iter) == "return_keep":
            loop = s
    if loop is None:
        raise TranslatorError("_wavefunction_protocol: `for rk in return_keep` not found")
    body_txt = [ast.unparse(x).replace("\n", " ") for x in loop.body]
    want = [
        f"key = wfn.get({loop.target.id}, None)",
        "if key is None:     continue",
        None,  # the dangling check: `if key not in wfn: raise ValueError(...)`
        f"ret_wfn[{loop.target.id}] = key",
        "ret_wfn[key] = wfn[key]",
    ]
    if len(body_txt) != len(want):
        raise TranslatorError(f"_wavefunction_protocol: keep loop body changed: {body_txt}")
    for got, w in zip(body_txt, want):
        if w is not None and got.split() != w.split():
            raise TranslatorError(f"_wavefunction_protocol: keep loop statement changed: {got!r} (expected {w!r})")
    dang = loop.body[2]
    if not (isinstance(dang, ast.If) and ast.unparse(dang.test) == "key not in wfn" and len(dang.body) == 1 and isinstance(dang.body[0], ast.Raise)
            and ast.unparse(dang.body[0].exc).startswith("ValueError(") and not dang.orelse):
        raise TranslatorError("_wavefunction_protocol: dangling-pointer check changed: " + ast.unparse(dang))
    # keys always copied
    always = []
    for s in ast.walk(fn):
        if isinstance(s, ast.Assign) and ast.unparse(s.targets[0]) == "ret_wfn" and isinstance(s.value, ast.Dict):
            for k, v in zip(s.value.keys, s.value.values):
                if not isinstance(k, ast.Constant) or ast.unparse(v) != k.value:
                    raise TranslatorError("_wavefunction_protocol: ret_wfn initialiser changed")
                always.append(k.value)
        if isinstance(s, ast.If) and isinstance(s.test, ast.Compare) and isinstance(s.test.ops[0], ast.In) and ast.unparse(s.test.comparators[0]) == "wfn" \
                and isinstance(s.test.left, ast.Constant):
            k = s.test.left.value
            if [ast.unparse(x) for x in s.body] != [f"ret_wfn['{k}'] = wfn['{k}']"]:
                raise TranslatorError("_wavefunction_protocol: conditional copy changed")
            always.append(k)
    return chain, suffix, always


def parse_sources(repo: Path):
    models = repo / "qcelemental" / "models"
    res = ast.parse((models / "results.py").read_text())
    proc = ast.parse((models / "procedures.py").read_text())
    cm = ast.parse((models / "common_models.py").read_text())
    spec = {}
    arp = find_class(res, "AtomicResultProperties")
    wfp = find_class(res, "WavefunctionProperties")
    ar = find_class(res, "AtomicResult")
    spec["propsFields"] = read_fields(arp)
    spec["wfnFields"] = read_fields(wfp)
    spec["propsValidators"] = read_validators(arp)
    spec["wfnValidators"] = read_validators(wfp)
    # class attribute _return_results_names
    rrn = None
    for n in wfp.body:
        if isinstance(n, ast.AnnAssign) and isinstance(n.target, ast.Name) and n.target.id == "_return_results_names":
            if not isinstance(n.value, ast.Set) or not all(isinstance(e, ast.Constant) and isinstance(e.value, str) for e in n.value.elts):
                raise TranslatorError("_return_results_names is not a set of string literals")
            rrn = sorted(e.value for e in n.value.elts)
    if rrn is None:
        raise TranslatorError("_return_results_names not found")
    spec["returnResultsNames"] = rrn
    # enums
    spec["wfnProtoEnum"] = read_enum(res, "WavefunctionProtocolEnum")
    spec["nativeEnum"] = read_enum(res, "NativeFilesProtocolEnum")
    spec["driverEnum"] = read_enum(cm, "DriverEnum")
    spec["trajEnum"] = read_enum(proc, "TrajectoryProtocolEnum")
    # (iii) wavefunction protocol
    wp = find_method(ar, "_wavefunction_protocol")
    dec = validator_decorator(wp)
    if dec is None or dec[0] != ["wavefunction"] or not dec[1].get("pre"):
        raise TranslatorError("_wavefunction_protocol is not a pre-validator of `wavefunction`")
    chain, suffix, always = read_wfn_protocol(wp)
    spec["wfnKeep"] = [(m, keep_branch(branch_for(chain, m), "_wavefunction_protocol")) for m in spec["wfnProtoEnum"]]
    spec["restrictedDropSuffix"] = suffix
    spec["keepAlways"] = always
    # (iv) return_result
    rrv = find_method(ar, "_validate_return_result")
    dec = validator_decorator(rrv)
    if dec is None or dec[0] != ["return_result"] or dec[1].get("pre"):
        raise TranslatorError("_validate_return_result is not a (post) validator of `return_result`")
    spec["rrRules"] = [(m, rule_of(rrv, "return_result", fixed={"values['driver']": m})) for m in spec["driverEnum"]]
    # native files / stdout
    nf = find_method(ar, "_native_file_protocol")
    dec = validator_decorator(nf)
    if dec is None or dec[0] != ["native_files"] or not dec[1].get("always"):
        raise TranslatorError("_native_file_protocol is not an always-validator of `native_files`")
    chain, _ = selector_chain(nf, attr="native_files")
    spec["nativeKeep"] = [(m, keep_branch(branch_for(chain, m), "_native_file_protocol")) for m in spec["nativeEnum"]]
    tail = [ast.unparse(s).replace("\n", " ").split() for s in nf.body[-3:]]
    if tail != ["ret = {}".split(), "for rk in return_keep:     ret[rk] = files.get(rk, None)".split(), "return ret".split()]:
        raise TranslatorError("_native_file_protocol: copy loop changed")
    so = find_method(ar, "_stdout_protocol")
    dec = validator_decorator(so)
    if dec is None or dec[0] != ["stdout"]:
        raise TranslatorError("_stdout_protocol is not a validator of `stdout`")
    chain, _ = selector_chain(so, attr="stdout")
    spec["stdoutKeep"] = [(b, keep_branch(branch_for(chain, b), "_stdout_protocol")) for b in (True, False)]
    # (v) trajectory
    orr = find_class(proc, "OptimizationResult")
    tp = find_method(orr, "_trajectory_protocol")
    dec = validator_decorator(tp)
    if dec is None or dec[0] != ["trajectory"] or dec[1].get("each_item", False) or dec[1].get("pre"):
        raise TranslatorError("_trajectory_protocol is not a whole-list validator of `trajectory`")
    chain, _ = selector_chain(tp, attr="trajectory")
    spec["trajKeep"] = [(m, keep_branch(branch_for(chain, m), "_trajectory_protocol")) for m in spec["trajEnum"]]
    for _m, b in spec["trajKeep"]:
        if b[0] == "keep":
            raise TranslatorError("_trajectory_protocol: unexpected name list")
    return spec


# ----------------------------------------------------------------------------------------------------
# Lean emission


def lstr(s: str) -> str:
    out = []
    for ch in s:
        if ch == "\\":
            out.append("\\\\")
        elif ch == '"':
            out.append('\\"')
        elif ch == "\n":
            out.append("\\n")
        elif ord(ch) < 32 or ord(ch) > 126:
            out.append("\\u{%x}" % ord(ch))
        else:
            out.append(ch)
    return '"' + "".join(out) + '"'


def lopt(x, f):
    return "none" if x is None else f"(some {f(x)})"


def llist(xs, f):
    return "[" + ", ".join(f(x) for x in xs) + "]"


def lkind(k):
    if k[0] in ("float", "int", "bool", "str", "array"):
        return "." + k[0]
    return f"(.{k[0]} {lstr(k[1])})"


def ldecl(d):
    return f"(.lit {d})" if isinstance(d, int) else f"(.sym {lstr(d)})"


def ldim(d):
    if d[0] == "lit":
        return f"(.lit {d[1]})"
    if d[0] == "other":
        return f"(.other {lstr(d[1])})"
    return "." + d[0]


def lrule(r):
    if r[0] == "reshape":
        return f"(.reshape {llist(r[1], ldim)} .{r[2]})"
    if r[0] == "other":
        return f"(.other {lstr(r[1])})"
    return "." + r[0]


def lkeep(b):
    if b[0] == "keep":
        return f"(.keep {llist(b[1], lstr)})"
    if b[0] == "ifLonger":
        raise TranslatorError("a trajectory rule in a retention table")
    return "." + b[0]


def ltraj(b):
    if b[0] == "ifLonger":
        return f"(.ifLonger {b[1]} {llist(b[2], lambda i: str(i) if i >= 0 else f'({i})')})"
    if b[0] == "keep":
        raise TranslatorError("a name list in the trajectory table")
    return "." + b[0]


def lfield(f):
    return (f"  ⟨{lstr(f['name'])}, {lkind(f['kind'])}, {'true' if f['optional'] else 'false'}, "
            f"{lopt(f['shape'], lambda s: llist(s, ldecl))}, {lopt(f['units'], lstr)}⟩")


def lvalidator(v):
    rules = ",\n     ".join(f"({lstr(n)}, {lrule(r)})" for n, r in v["rules"])
    return f"  ⟨{lstr(v['name'])}, {'true' if v['pre'] else 'false'}, {'true' if v['always'] else 'false'},\n    [{rules}]⟩"


def emit_lean(spec) -> str:
    L = [
        "import QcelVerif.Model.ResultSpec",
        "/-! GENERATED by harness/c20_spec.py:gen_result_spec from qcelemental/models/results.py, procedures.py,",
        "common_models.py of the working tree (ast) — do not edit -/",
        "namespace QcelVerif.ResultSpec.Gen",
        "open QcelVerif.ResultSpec",
        "",
    ]

    def table(name, ty, rows):
        L.append(f"def {name} : List {ty} := [")
        L.append(",\n".join(rows))
        L.append("]")
        L.append("")

    table("propsFields", "FieldDecl", [lfield(f) for f in spec["propsFields"]])
    table("wfnFields", "FieldDecl", [lfield(f) for f in spec["wfnFields"]])
    table("propsValidators", "ValidatorDecl", [lvalidator(v) for v in spec["propsValidators"]])
    table("wfnValidators", "ValidatorDecl", [lvalidator(v) for v in spec["wfnValidators"]])
    L.append(f"def returnResultsNames : List String := {llist(spec['returnResultsNames'], lstr)}")
    L.append(f"def wfnProtoEnum : List String := {llist(spec['wfnProtoEnum'], lstr)}")
    L.append(f"def nativeEnum : List String := {llist(spec['nativeEnum'], lstr)}")
    L.append(f"def driverEnum : List String := {llist(spec['driverEnum'], lstr)}")
    L.append(f"def trajEnum : List String := {llist(spec['trajEnum'], lstr)}")
    L.append("")
    table("wfnKeep", "(String × KeepSpec)", [f"  ({lstr(m)}, {lkeep(b)})" for m, b in spec["wfnKeep"]])
    L.append(f"def restrictedDropSuffix : String := {lstr(spec['restrictedDropSuffix'])}")
    L.append(f"def keepAlways : List String := {llist(spec['keepAlways'], lstr)}")
    L.append("")
    table("rrRules", "(String × Rule)", [f"  ({lstr(m)}, {lrule(r)})" for m, r in spec["rrRules"]])
    table("nativeKeep", "(String × KeepSpec)", [f"  ({lstr(m)}, {lkeep(b)})" for m, b in spec["nativeKeep"]])
    table("stdoutKeep", "(Bool × KeepSpec)", [f"  ({'true' if m else 'false'}, {lkeep(b)})" for m, b in spec["stdoutKeep"]])
    table("trajKeep", "(String × TrajSpec)", [f"  ({lstr(m)}, {ltraj(b)})" for m, b in spec["trajKeep"]])
    L.append("end QcelVerif.ResultSpec.Gen")
    return "\n".join(L) + "\n"


LAST_SPEC = {}


def gen_result_spec(ctx) -> None:
    """TRANSLATOR: rewrite lean/QcelVerif/Gen/ResultSpec.lean from the working tree of common.REPO"""
    spec = parse_sources(common.REPO)
    LAST_SPEC.clear()
    LAST_SPEC.update(spec)
    body = emit_lean(spec)
    gen = common.LEAN / "QcelVerif" / "Gen"
    gen.mkdir(exist_ok=True)
    f = gen / "ResultSpec.lean"
    if not f.exists() or f.read_text() != body:
        f.write_text(body)


# ----------------------------------------------------------------------------------------------------
# the translator's output against the live classes (DESIGN §1.6 item 3: a translator bug shows as a disagreement)


def cross_check(spec):
    """list of disagreements between the ast extraction and the imported classes"""
    from qcelemental.models.results import AtomicResult, AtomicResultProperties, WavefunctionProperties
    from qcelemental.models.procedures import OptimizationResult

    bad = []
    for cls, fk, vk in ((AtomicResultProperties, "propsFields", "propsValidators"), (WavefunctionProperties, "wfnFields", "wfnValidators")):
        live = list(cls.__fields__)
        got = [f["name"] for f in spec[fk]]
        if live != got:
            bad.append(f"{cls.__name__}: field list differs: only live {sorted(set(live) - set(got))}, only ast {sorted(set(got) - set(live))}")
        for f in spec[fk]:
            mf = cls.__fields__.get(f["name"])
            if mf is None:
                continue
            extra = mf.field_info.extra
            if list(extra.get("shape") or []) != list(f["shape"] or []) or extra.get("units") != f["units"]:
                bad.append(f"{cls.__name__}.{f['name']}: shape/units differ: live {extra.get('shape')}/{extra.get('units')} vs ast {f['shape']}/{f['units']}")
            if mf.required == f["optional"]:
                bad.append(f"{cls.__name__}.{f['name']}: required/optional differs")
        live_v = {}
        for fname, vals in cls.__validators__.items():
            for v in vals:
                live_v.setdefault(v.func.__name__, set()).add(fname)
        got_v = {v["name"]: {n for n, _ in v["rules"]} for v in spec[vk]}
        if live_v != got_v:
            bad.append(f"{cls.__name__}: validator attachments differ: live {sorted((k, sorted(v)) for k, v in live_v.items())} vs ast "
                       f"{sorted((k, sorted(v)) for k, v in got_v.items())}")
    for cls, names in ((AtomicResult, ["_wavefunction_protocol", "_validate_return_result", "_native_file_protocol", "_stdout_protocol"]),
                       (OptimizationResult, ["_trajectory_protocol"])):
        live_names = {v.func.__name__ for vals in cls.__validators__.values() for v in vals}
        for n in names:
            if n not in live_names:
                bad.append(f"{cls.__name__}: validator {n} not registered on the live class")
    return bad
