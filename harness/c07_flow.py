"""Translator for the COMPOSITION of C07's psi4 text reader: regenerates lean/QcelVerif/Gen/FromStringFlow.lean from the *text* of
QCEL_REPO/qcelemental/molparse/from_string.py (by `ast`, nothing is imported), and the three-way stream that runs the
source-derived reader (Driver/C07d.lean) beside M1 and the implementation.

What is printed, statement by statement, as terms of lean/QcelVerif/Model/MolTextFlow.lean:
  * `_filter_universals`           -> `universals : List Stmt`
  * `_filter_mints`                -> `mints : List Stmt`, its nested `filter_fragment` -> `filterFragment : List Stmt`
  * `parse_as_psi4_ish`            -> `psi4Ish : List PStmt`
  * the head of `from_string`      -> `pre : List PreOp` (`molstr = filter_comments(molstr.strip())`) and
                                      `dispatch : List (String × String × String × Bool)` (dtype, parse function, keyword, value)
Purely syntactic normalisations (nothing else): docstrings dropped; a callback named in `re.sub/re.subn(pattern, cb, line)` is
printed in place as the list of its stores (its final `return ""` is required and dropped); `if unsettled: A else: B` is flattened
into its statements tagged `.unsettled` / `.settled`; dict keys, group names, pattern and flag variables are printed as the
constructor of the same name (tables below); the psi4+ callbacks (`process_atom_unsettled`, `process_variable`) are printed as
`[.unknown "<name>"]`; the message of `raise C(...)` is dropped.  ANY statement that is not one of the listed forms is printed
as `.unknown "<source text>"` - the shape obligations of Props/C07Flow.lean then fail and the evaluator answers out-of-scope.
_filter_xyz, _filter_libefp, _filter_pubchem are NOT translated (Props/C07Flow.lean says so).
"""
from __future__ import annotations

import ast
import re

import common
from common import Finding, Outcome

KEYS = {"fix_com": "fixCom", "fix_orientation": "fixOrientation", "fix_symmetry": "fixSymmetry", "units": "units",
        "molecular_charge": "molecularCharge", "molecular_multiplicity": "molecularMultiplicity", "elbl": "elbl", "geom": "geom",
        "fragment_separators": "fragmentSeparators", "fragment_charges": "fragmentCharges",
        "fragment_multiplicities": "fragmentMultiplicities", "geom_unsettled": "geomUnsettled", "variables": "variables"}
GROUPS = {g: g for g in ("uang", "ubohr", "pg", "chg", "mult", "nucleus", "x", "y", "z")}
PATS = {"com": "com", "orient": "orient", "bohrang": "bohrang", "symmetry": "symmetry", "cgmp": "cgmp", "atom_cartesian": "atomCartesian",
        "atom_vcart": "atomVcart", "atom_zmat1": "atomZmat1", "atom_zmat2": "atomZmat2", "atom_zmat3": "atomZmat3", "atom_zmat4": "atomZmat4",
        "variable": "variable"}
FLAGS = {"com_found": "com", "orient_found": "orient", "bohrang_found": "bohrang", "symmetry_found": "symmetry", "fcgmp_found": "fcgmp"}
FILTERS = {"_filter_pubchem": "pubchem", "_filter_universals": "universals", "_filter_libefp": "libefp", "_filter_mints": "mints"}
UNSETTLED_CBS = {"process_atom_unsettled", "process_variable"}
LITS = {"Angstrom": ".angstrom", "Bohr": ".bohr"}


class FlowTieBroken(Exception):
    pass


def lstr(s: str) -> str:
    out = []
    for ch in s:
        if ch == "\\":
            out.append("\\\\")
        elif ch == '"':
            out.append('\\"')
        elif ch == "\n":
            out.append("\\n")
        elif ord(ch) < 32 or ord(ch) > 126:
            out.append("\\u{%x}" % ord(ch))
        else:
            out.append(ch)
    return '"' + "".join(out) + '"'


def unk(node) -> str:
    return f".unknown {lstr(ast.unparse(node)[:300])}"


def lean_list(xs) -> str:
    return "[" + ", ".join(xs) + "]"


def _m(pat, s):
    return re.fullmatch(pat, s, re.S)


def tr_val(src: str):
    if src == "True":
        return ".tt"
    if src == "None":
        return ".none"
    m = _m(r"'(\w+)'", src)
    if m and m.group(1) in LITS:
        return LITS[m.group(1)]
    for pat, ctor in ((r"matchobj\.group\('(\w+)'\)\.lower\(\)", "lowerGroup"), (r"_float\(matchobj\.group\('(\w+)'\)\)", "floatGroup"),
                      (r"int\(matchobj\.group\('(\w+)'\)\)", "intGroup"), (r"matchobj\.group\('(\w+)'\)", "strGroup")):
        m = _m(pat, src)
        if m and m.group(1) in GROUPS:
            return f"(.{ctor} .{GROUPS[m.group(1)]})"
    return None


def _set_of(src: str):
    """(key, val) of `processed['k'] = v`"""
    m = _m(r"processed\['(\w+)'\] = (.+)", src)
    if m and m.group(1) in KEYS:
        v = tr_val(m.group(2))
        if v is not None:
            return KEYS[m.group(1)], v
    return None


def tr_store(node) -> str:
    src = ast.unparse(node)
    kv = _set_of(src)
    if kv and isinstance(node, ast.Assign):
        return f".set .{kv[0]} {kv[1]}"
    m = _m(r"processed\['(\w+)'\]\.append\((.+)\)", src)
    if m and isinstance(node, ast.Expr) and m.group(1) in KEYS:
        v = tr_val(m.group(2))
        if v is not None:
            return f".append .{KEYS[m.group(1)]} {v}"
    if (isinstance(node, ast.If) and len(node.body) == 1 and len(node.orelse) == 1 and isinstance(node.orelse[0], ast.If)
            and len(node.orelse[0].body) == 1 and not node.orelse[0].orelse):
        g1 = _m(r"matchobj\.group\('(\w+)'\)", ast.unparse(node.test))
        g2 = _m(r"matchobj\.group\('(\w+)'\)", ast.unparse(node.orelse[0].test))
        s1, s2 = _set_of(ast.unparse(node.body[0])), _set_of(ast.unparse(node.orelse[0].body[0]))
        if g1 and g2 and s1 and s2 and g1.group(1) in GROUPS and g2.group(1) in GROUPS:
            return f".ifElif .{g1.group(1)} .{s1[0]} {s1[1]} .{g2.group(1)} .{s2[0]} {s2[1]}"
    return unk(node)


def _strip_doc(body):
    if body and isinstance(body[0], ast.Expr) and isinstance(body[0].value, ast.Constant) and isinstance(body[0].value.value, str):
        return body[1:]
    return body


def tr_callback(fn: ast.FunctionDef) -> str:
    if fn.name in UNSETTLED_CBS:
        return lean_list([f".unknown {lstr(fn.name)}"])
    body = _strip_doc(fn.body)
    if [a.arg for a in fn.args.args] != ["matchobj"] or not body or ast.unparse(body[-1]) != "return ''":
        return lean_list([unk(fn)])
    out = []
    for st in body[:-1]:
        if isinstance(st, ast.Assign) and ast.unparse(st).startswith("nat = matchobj.group"):
            continue
        out.append(tr_store(st))
    return lean_list(out)


def tr_lstmts(body, cbs, guard=".always"):
    out = []
    for st in body:
        src = ast.unparse(st)
        if src == "line = line.strip()" and guard == ".always":
            out.append(".strip")
            continue
        m = _m(r"if not (\w+):\n    line, (\w+) = re\.subn\((\w+), (\w+), line\)", src)
        if m and guard == ".always" and m.group(1) == m.group(2) and m.group(1) in FLAGS and m.group(3) in PATS and m.group(4) in cbs:
            out.append(f".subnIfNot .{FLAGS[m.group(1)]} .{PATS[m.group(3)]} {cbs[m.group(4)]}")
            continue
        m = _m(r"line = re\.sub\((\w+), (\w+), line\)", src)
        if m and m.group(1) in PATS and m.group(2) in cbs:
            out.append(f".sub {guard} .{PATS[m.group(1)]} {cbs[m.group(2)]}")
            continue
        if isinstance(st, ast.If) and ast.unparse(st.test) == "unsettled" and guard == ".always" and st.orelse:
            out += tr_lstmts(st.body, cbs, ".unsettled") + tr_lstmts(st.orelse, cbs, ".settled")
            continue
        if _m(r"if line:\n    f?reconstitute\.append\(line\)", src) and guard == ".always":
            out.append(".keep")
            continue
        out.append(unk(st))
    return out


def tr_fstmts(body, cbs):
    out = []
    for st in body:
        src = ast.unparse(st)
        if src == "frag = frag.strip()":
            out.append(".stripFrag")
            continue
        m = _m(r"if ifr == 0 and (\w+)\.match\(frag\):\n    frag, \w+ = re\.subn\((\w+), (\w+), frag\)\nelse:\n    frag, processed = filter_fragment\(frag\)", src)
        if m and m.group(1) == m.group(2) and m.group(1) in PATS and m.group(3) in cbs:
            out.append(f".sysOrFragment .{PATS[m.group(1)]} {cbs[m.group(3)]}")
            continue
        if src == "if frag:\n    reconstitute.append(frag)":
            out.append(".keepFrag")
            continue
        out.append(unk(st))
    return out


def _names(nodes):
    return {n.id for b in nodes for n in ast.walk(b) if isinstance(n, ast.Name)}


def tr_stmts(body, cbs, nested, guard=".always"):
    """function-level statements; nested FunctionDefs are collected into `cbs` (callbacks) / `nested` (filter_fragment)"""
    out = []
    body = _strip_doc(body)
    for st in body:
        if isinstance(st, ast.FunctionDef):
            if st.name == "filter_fragment":
                nested[st.name] = st
            else:
                cbs[st.name] = tr_callback(st)
    for st in body:
        if isinstance(st, ast.FunctionDef):
            continue
        src = ast.unparse(st)
        if src in ("reconstitute = []", "freconstitute = []") and guard == ".always":
            out.append(".initRecon")
        elif src == "processed = {}" and guard == ".always":
            out.append(".initProcessed")
        elif _m(r"processed\['(\w+)'\] = \[\]", src) and _m(r"processed\['(\w+)'\] = \[\]", src).group(1) in KEYS:
            out.append(f".initList {guard} .{KEYS[_m(r'processed.\'(\w+)\'. = ..', src).group(1)]}")
        elif _m(r"(\w+) = False", src) and _m(r"(\w+) = False", src).group(1) in FLAGS and guard == ".always":
            out.append(f".flagFalse .{FLAGS[_m(r'(\w+) = False', src).group(1)]}")
        elif src == "start_atom = len(processed['elbl'])" and guard == ".always":
            out.append(".startAtom")
        elif src == "if start_atom > 0:\n    processed['fragment_separators'].append(start_atom)" and guard == ".always":
            out.append(".sepIfStart")
        elif isinstance(st, ast.If) and ast.unparse(st.test) == "unsettled" and guard == ".always" and st.orelse:
            out += tr_stmts(st.body, cbs, nested, ".unsettled") + tr_stmts(st.orelse, cbs, nested, ".settled")
        elif isinstance(st, ast.If) and _m(r"not (\w+)", ast.unparse(st.test)) and not st.orelse and guard == ".always" \
                and _m(r"not (\w+)", ast.unparse(st.test)).group(1) in FLAGS:
            f = FLAGS[_m(r"not (\w+)", ast.unparse(st.test)).group(1)]
            out.append(f".ifNotFlag .{f} {lean_list([tr_store(s) for s in st.body])}")
        elif isinstance(st, ast.For) and not st.orelse and guard == ".always":
            hdr = ast.unparse(st.target) + " in " + ast.unparse(st.iter)
            if hdr == "line in string.split('\\n')" or (hdr == "(iln, line) in enumerate(fstring.split('\\n'))" and "iln" not in _names(st.body)):
                out.append(f".forLines {lean_list(tr_lstmts(st.body, cbs))}")
            elif hdr == "(ifr, frag) in enumerate(re.split(fragment_marker, string))":
                out.append(f".forFrags {lean_list(tr_fstmts(st.body, cbs))}")
            else:
                out.append(unk(st))
        elif isinstance(st, ast.Return) and guard == ".always":
            m = _m(r"return \('(.*)'\.join\(f?reconstitute\), processed\)", src)
            out.append(f".retJoin {lstr(m.group(1).encode().decode('unicode_escape'))}" if m else unk(st))
        else:
            out.append(unk(st))
    return out


def tr_pstmts(body):
    out = []
    for st in _strip_doc(body):
        src = ast.unparse(st)
        m = _m(r"\(?molstr, processed\)? = (\w+)\(molstr(, unsettled=unsettled)?\)", src)
        if src == "molinit = {}":
            out.append(".initMolinit")
        elif m and m.group(1) in FILTERS:
            out.append(f".call .{FILTERS[m.group(1)]} {'true' if m.group(2) else 'false'}")
        elif src == "molinit.update(processed)":
            out.append(".update")
        elif isinstance(st, ast.If) and ast.unparse(st.test) == "molstr" and not st.orelse and len(st.body) == 1 and isinstance(st.body[0], ast.Raise) \
                and isinstance(st.body[0].exc, ast.Call) and isinstance(st.body[0].exc.func, ast.Name):
            out.append(f".raiseIfLeft {lstr(st.body[0].exc.func.id)}")
        elif src == "return (molstr, molinit)":
            out.append(".ret")
        else:
            out.append(unk(st))
    return out


def _fn(tree_body, name):
    for n in tree_body:
        if isinstance(n, ast.FunctionDef) and n.name == name:
            return n
    raise FlowTieBroken(f"from_string.py has no function {name}")


def translated() -> dict:
    src = (common.REPO / "qcelemental/molparse/from_string.py").read_text()
    tree = ast.parse(src)
    res = {}
    # _filter_universals
    cbs, nested = {}, {}
    res["universals"] = tr_stmts(_fn(tree.body, "_filter_universals").body, cbs, nested)
    # _filter_mints + filter_fragment
    cbs, nested = {}, {}
    mints_fn = _fn(tree.body, "_filter_mints")
    if [a.arg for a in mints_fn.args.args] != ["string", "unsettled"]:
        raise FlowTieBroken("_filter_mints signature changed")
    mints = tr_stmts(mints_fn.body, cbs, nested)
    if "filter_fragment" not in nested:
        raise FlowTieBroken("_filter_mints has no nested filter_fragment")
    ff = nested["filter_fragment"]
    fcbs = dict(cbs)
    res["filterFragment"] = tr_stmts(ff.body, fcbs, {})
    # the system-cgmp callback is defined before filter_fragment; fragment callbacks inside it
    res["mints"] = mints
    # from_string: head, parse_as_psi4_ish, dispatch
    fs = _fn(tree.body, "from_string")
    body = _strip_doc(fs.body)
    pre, dispatch, psi = [], [], None
    for st in body:
        s = ast.unparse(st)
        if isinstance(st, ast.FunctionDef):
            if st.name == "parse_as_psi4_ish":
                psi = st
            continue
        if isinstance(st, ast.If) and ast.unparse(st.test) == "verbose >= 2":
            continue
        if isinstance(st, ast.If) and ast.unparse(st.test).startswith("dtype =="):
            node = st
            while isinstance(node, ast.If) and ast.unparse(node.test).startswith("dtype =="):
                m = _m(r"dtype == '([^']+)'", ast.unparse(node.test))
                c = _m(r"\(?molstr, molinit\)? = (\w+)\(molstr, (\w+)=(True|False)\)", ast.unparse(node.body[0])) if len(node.body) == 1 else None
                if not m or not c:
                    dispatch.append(f'("?", {lstr(ast.unparse(node)[:200])}, "", false)')
                else:
                    dispatch.append(f'({lstr(m.group(1))}, {lstr(c.group(1))}, {lstr(c.group(2))}, {"true" if c.group(3) == "True" else "false"})')
                node = node.orelse[0] if len(node.orelse) == 1 else None
            break
        if s == "molstr = filter_comments(molstr.strip())":
            pre += [".strip", ".filterComments"]
        else:
            pre.append(unk(st))
    if psi is None:
        raise FlowTieBroken("from_string has no nested parse_as_psi4_ish")
    if [a.arg for a in psi.args.args] != ["molstr", "unsettled"]:
        raise FlowTieBroken("parse_as_psi4_ish signature changed")
    res["psi4Ish"] = tr_pstmts(psi.body)
    res["pre"] = pre
    res["dispatch"] = dispatch
    return res


def gen_fromstring_flow(ctx=None) -> None:
    t = translated()
    lines = [
        "import QcelVerif.Model.MolTextFlow",
        "/-! GENERATED by harness/c07_flow.py:gen_fromstring_flow from the text of qcelemental/molparse/from_string.py - do not edit.",
        "Statement by statement: _filter_universals, _filter_mints, its filter_fragment, parse_as_psi4_ish, the head and dtype dispatch of",
        "from_string; a statement outside the translated forms is `.unknown \"<source>\"`. -/",
        "namespace QcelVerif.Gen.FromStringFlow",
        "open QcelVerif.C07Flow",
        "",
    ]
    for name, ty in (("universals", "Stmt"), ("mints", "Stmt"), ("filterFragment", "Stmt"), ("psi4Ish", "PStmt"), ("pre", "PreOp")):
        lines.append(f"def {name} : List {ty} := [")
        lines.append(",\n".join("  " + x for x in t[name]))
        lines.append("]")
        lines.append("")
    lines.append("def dispatch : List (String × String × String × Bool) := [" + ", ".join(t["dispatch"]) + "]")
    lines.append("")
    lines.append("def prog : Prog := { pre := pre, psi4Ish := psi4Ish, universals := universals, mints := mints, filterFragment := filterFragment }")
    lines.append("")
    lines.append("end QcelVerif.Gen.FromStringFlow")
    body = "\n".join(lines) + "\n"
    f = common.LEAN / "QcelVerif" / "Gen" / "FromStringFlow.lean"
    f.parent.mkdir(exist_ok=True)
    if not f.exists() or f.read_text() != body:
        f.write_text(body)


gen_fromstring_flow.__name__ = "c07_flow.gen_fromstring_flow"


# --------------------------------------------------------------------------------------
# three-way stream: implementation | source-derived reader (Driver/C07d.lean) | M1 (Driver/C07.lean), on the P lines

DRIVER_D = "QcelVerif/Driver/C07d.lean"


def flow_stream(ctx, out: Outcome, cases, m1_lines, m1_compare, hx):
    """`cases` = [(dtype, text, implementation outcome)], `m1_lines` = M1's answers to the same P lines"""
    if not ctx.model_available:
        out.notes.append("Lean driver unavailable: flow three-way stream skipped")
        return
    lines = [f"P|{dt}|{hx(t)}" for dt, t, _ in cases]
    res = ctx.run_model(DRIVER_D, lines)
    for (dt, t, r), fl, ml in zip(cases, res, m1_lines):
        out.count("flow:" + ("oos" if fl == "oos" else "formatError" if fl.startswith("err") else "parsed") + (":psi4" if dt == "psi4" else ":xyz"))
        case = {"stream": "flow", "text": t, "dtype": dt}
        if fl != ml:
            out.mismatches.append(Finding("mismatch:flow-vs-M1", case, observed=fl[:300], expected=ml[:300],
                                          detail="the reader regenerated from from_string.py's statements and M1 disagree (Props/C07Flow.lean proves them equal)"))
            continue
        d = m1_compare(dt, t, r, fl)
        if d is not None:
            out.mismatches.append(Finding("mismatch:flow", case, observed=(r[0], r[1] if r[0] == "err" else None), expected=fl[:300], detail=d))
    out.evaluations += len(lines)
