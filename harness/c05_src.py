"""C05 translator: qcelemental/molparse/chgmult.py  ->  lean/QcelVerif/Gen/ChgMultSrc.lean

Reads `validate_and_fill_chgmult` by `ast` and symbolically executes the statements between the `zero_ghost_fragments`
rewriting and `def reconcile` (chgmult.py:344-462 on the unchanged tree):

  * every `cgmp_range.append(lambda c, fc, m, fm[, ifr=ifr, …]: <expr>)` becomes a `RuleItem` of the expression language
    of lean/QcelVerif/Model/ChgMultAst.lean — the `if`s around the append become the guard, a surrounding
    `for ifr in range(nfr)` / `for ifr, x in enumerate(xs)` becomes `RuleItem.each` with the loop index as bound variable;
    helper functions (`_parity_ok`, `_sufficient_electrons_for_mult`, `_mult_ok`, `_high_spin_sum`, `_apply_default`)
    are inlined from their own source;
  * every `cgmp_exact_{c,m}.append(e)`, `cgmp_exact_{fc,fm}[ifr].append(e)` and
    `for x in [reversed](range(lo, hi)): <list>.append(x)` becomes a `Gen` of the matching search dimension, in source order;
  * integer-valued locals assigned on the way (`zel`, `missing_frag_chg`, `frag_mult_hi`, …) become named definitions, an
    assignment under `if/else` a conditional expression;
  * `reconcile` is checked for its shape (unique_everseen on each list, argument order of itertools.product, first
    all-true assessment returned) and the product order is emitted as `genOrder`.

Anything else fails loudly (`Unsupported`): the check then reports a broken obligation.
"""
from __future__ import annotations

import ast
from pathlib import Path

import common


class Unsupported(Exception):
    pass


def fail(node, msg):
    src = ""
    try:
        src = ast.unparse(node)[:140]
    except Exception:  # noqa
        pass
    raise Unsupported(f"chgmult.py:{getattr(node, 'lineno', '?')}: {msg}: {src}")


# ---- bindings ------------------------------------------------------------------------------------------------------
class Prim:
    def __init__(self, typ, lean):
        self.typ, self.lean = typ, lean


class Bound:
    def __init__(self, bid, typ, loopvar=False):
        self.bid, self.typ, self.loopvar = bid, typ, loopvar


class Thunk:
    def __init__(self, node, env, loopvar=False):
        self.node, self.env, self.loopvar = node, env, loopvar


class DefRef:
    typ = "I"

    def __init__(self, name):
        self.name = name


class IteB:
    def __init__(self, cond, cenv, a, b):
        self.cond, self.cenv, self.a, self.b = cond, cenv, a, b


class RemoveNone:
    def __init__(self, inner):
        self.inner = inner


class Undefined:
    def __init__(self, why):
        self.why = why


class Func:
    def __init__(self, node):
        self.node = node


PROTECTED = {"molecular_charge", "fragment_charges", "molecular_multiplicity", "fragment_multiplicities", "felez", "zeff", "nfr",
             "cgmp_range", "cgmp_rules", "cgmp_exact_c", "cgmp_exact_fc", "cgmp_exact_m", "cgmp_exact_fm"}
EXACT_SCALAR = {"cgmp_exact_c": "c", "cgmp_exact_m": "m"}
EXACT_FRAG = {"cgmp_exact_fc": "fc", "cgmp_exact_fm": "fm"}
CMP = {ast.Eq: "eq", ast.NotEq: "ne", ast.Lt: "lt", ast.LtE: "le", ast.Gt: "gt", ast.GtE: "ge"}
BIN = {ast.Add: "add", ast.Sub: "sub", ast.Mult: "mul", ast.Mod: "mod"}


def lit(v):
    return f"(.lit {v})" if v >= 0 else f"(.lit ({v}))"


class Translator:
    def __init__(self, module: ast.Module):
        self.module = module
        self.stack = []  # binder ids, outermost first
        self.nid = 0
        self.rules = []  # [name, lean RuleItem, source line]
        self.dims = {"c": [], "fc": [], "m": [], "fm": []}
        self.defs = []  # (name, lean IExpr, source text, line)
        self.counts = {}
        self.captured = []  # (name, binding, lambda node)
        self.pending_label = None
        self.menv = {}
        for st in module.body:
            if isinstance(st, ast.FunctionDef):
                self.menv[st.name] = Func(st)

    # -- binders --
    def push(self, typ, loopvar=False):
        self.nid += 1
        self.stack.append(self.nid)
        return Bound(self.nid, typ, loopvar)

    def pop(self):
        self.stack.pop()

    def index(self, b: Bound, node):
        if b.bid not in self.stack:
            fail(node, "variable used outside the loop / comprehension that binds it")
        return len(self.stack) - 1 - self.stack.index(b.bid)

    def lookup(self, name, env, node):
        if name not in env:
            fail(node, f"name `{name}` is not known to the translator")
        b = env[name]
        if isinstance(b, Undefined):
            fail(node, f"`{name}` {b.why}")
        return b

    # -- helper-function inlining --
    def inline(self, func: Func, call: ast.Call, env):
        f = func.node
        a = f.args
        if a.vararg or a.kwarg or a.kwonlyargs or a.posonlyargs or a.defaults or call.keywords or len(a.args) != len(call.args):
            fail(call, f"call of `{f.name}` not supported (signature)")
        fenv = dict(self.menv)
        for p, arg in zip(a.args, call.args):
            fenv[p.arg] = Thunk(arg, env)
        body = list(f.body)
        if body and isinstance(body[0], ast.Expr) and isinstance(body[0].value, ast.Constant) and isinstance(body[0].value.value, str):
            body = body[1:]
        if len(body) == 1 and isinstance(body[0], ast.Return) and body[0].value is not None:
            return ("ret", body[0].value, fenv)
        # acc = e0; for v in it: acc += e; return acc
        if (len(body) == 3 and isinstance(body[0], ast.Assign) and len(body[0].targets) == 1 and isinstance(body[0].targets[0], ast.Name)
                and isinstance(body[1], ast.For) and not body[1].orelse and isinstance(body[1].target, ast.Name) and len(body[1].body) == 1
                and isinstance(body[1].body[0], ast.AugAssign) and isinstance(body[1].body[0].op, ast.Add)
                and isinstance(body[1].body[0].target, ast.Name) and body[1].body[0].target.id == body[0].targets[0].id
                and isinstance(body[2], ast.Return) and isinstance(body[2].value, ast.Name) and body[2].value.id == body[0].targets[0].id):
            acc = body[0].targets[0].id
            e = body[1].body[0].value
            if any(isinstance(n, ast.Name) and n.id == acc for n in ast.walk(e)):
                fail(f, "accumulator read inside its own update")
            return ("acc", body[0].value, body[1].target.id, body[1].iter, e, fenv)
        fail(f, f"body of helper `{f.name}` has an unsupported shape")

    def helper(self, node, env):
        if isinstance(node, ast.Call) and isinstance(node.func, ast.Name) and isinstance(env.get(node.func.id), Func):
            return self.inline(env[node.func.id], node, env)
        return None

    # -- types --
    def btype(self, b, node):
        if isinstance(b, (Prim, Bound)):
            return b.typ
        if isinstance(b, DefRef):
            return "I"
        if isinstance(b, Thunk):
            return self.typeof(b.node, b.env)
        if isinstance(b, IteB):
            ta, tb = self.btype_or_none(b.a, node), self.btype_or_none(b.b, node)
            ts = {t for t in (ta, tb) if t}
            if ts <= {"I", "O"} and ts:
                return "I" if "I" in ts else "O"
            return "?"
        if isinstance(b, RemoveNone):
            return "OL"
        if isinstance(b, Undefined):
            fail(node, b.why)
        return "?"

    def btype_or_none(self, b, node):
        return None if isinstance(b, Undefined) else self.btype(b, node)

    def typeof(self, node, env):
        if isinstance(node, ast.Constant):
            v = node.value
            if v is None:
                return "None"
            if isinstance(v, bool):
                return "B"
            if isinstance(v, int) or (isinstance(v, float) and v.is_integer()):
                return "I"
            return "?"
        if isinstance(node, ast.Name):
            return self.btype(self.lookup(node.id, env, node), node)
        if isinstance(node, ast.BinOp):
            return "I"
        if isinstance(node, ast.UnaryOp):
            return "B" if isinstance(node.op, ast.Not) else "I"
        if isinstance(node, (ast.BoolOp, ast.Compare)):
            return "B"
        if isinstance(node, ast.IfExp):
            ts = {self.typeof(node.body, env), self.typeof(node.orelse, env)}
            if ts <= {"I", "O"}:
                return "I" if "I" in ts else "O"
            return ts.pop() if len(ts) == 1 else "?"
        if isinstance(node, ast.Subscript):
            t = self.typeof(node.value, env)
            if isinstance(node.slice, ast.Slice):
                return t
            return {"L": "I", "OL": "O", "LL": "L"}.get(t, "?")
        if isinstance(node, ast.ListComp):
            return "L"
        if isinstance(node, ast.Call):
            h = self.helper(node, env)
            if h:
                return "I" if h[0] == "acc" else self.typeof(h[1], h[2])
            fn = node.func
            if isinstance(fn, ast.Name):
                if fn.id in ("sum", "len", "abs", "max", "min"):
                    return "I"
                if fn.id in ("all", "any", "isinstance"):
                    return "B"
                if fn.id == "list" and len(node.args) == 1:
                    return self.typeof(node.args[0], env)
            if isinstance(fn, ast.Attribute) and isinstance(fn.value, ast.Name) and fn.value.id == "np" and fn.attr == "sum":
                return "I"
        return "?"

    # -- expressions --
    def tI_b(self, b, node):
        if isinstance(b, Prim):
            if b.typ == "I":
                return b.lean
            if b.typ == "O":
                return f"(.ofOpt {b.lean})"
        elif isinstance(b, Bound):
            k = self.index(b, node)
            return f"(.bvar {k})" if b.typ == "I" else f"(.ofOpt (.bvar {k}))"
        elif isinstance(b, DefRef):
            return b.name
        elif isinstance(b, Thunk):
            return self.tI(b.node, b.env)
        elif isinstance(b, IteB):
            for x in (b.a, b.b):
                if isinstance(x, Undefined):
                    fail(node, "variable is not assigned on every path: " + x.why)
            return f"(.ite {self.tB(b.cond, b.cenv)} {self.tI_b(b.a, node)} {self.tI_b(b.b, node)})"
        fail(node, "not an integer-valued variable")

    def tI(self, node, env):
        if self.typeof(node, env) == "O":
            return f"(.ofOpt {self.tO(node, env)})"
        if isinstance(node, ast.Constant):
            v = node.value
            if isinstance(v, bool) or not (isinstance(v, int) or (isinstance(v, float) and v.is_integer())):
                fail(node, "constant is not an integer")
            return lit(int(v))
        if isinstance(node, ast.Name):
            return self.tI_b(self.lookup(node.id, env, node), node)
        if isinstance(node, ast.BinOp):
            if type(node.op) not in BIN:
                fail(node, "unsupported arithmetic operator")
            return f"(.{BIN[type(node.op)]} {self.tI(node.left, env)} {self.tI(node.right, env)})"
        if isinstance(node, ast.UnaryOp):
            if isinstance(node.op, ast.USub):
                return f"(.neg {self.tI(node.operand, env)})"
            if isinstance(node.op, ast.UAdd):
                return self.tI(node.operand, env)
            fail(node, "unsupported unary operator")
        if isinstance(node, ast.IfExp):
            return f"(.ite {self.tB(node.test, env)} {self.tI(node.body, env)} {self.tI(node.orelse, env)})"
        if isinstance(node, ast.Subscript):
            if isinstance(node.slice, ast.Slice):
                fail(node, "slice where a number is expected")
            t = self.typeof(node.value, env)
            if t == "L":
                return f"(.idx {self.tL(node.value, env)} {self.tI(node.slice, env)})"
            fail(node, "indexing of this kind of value is not supported")
        if isinstance(node, ast.Call):
            h = self.helper(node, env)
            if h:
                if h[0] == "ret":
                    return self.tI(h[1], h[2])
                _, e0, v, it, e, fenv = h
                init = self.tI(e0, fenv)
                lst = self.tL(it, fenv)
                b = self.push("I")
                benv = dict(fenv)
                benv[v] = b
                body = self.tI(e, benv)
                self.pop()
                return f"(.add {init} (.sumOver {lst} {body}))"
            fn = node.func
            if node.keywords:
                fail(node, "keyword arguments are not supported")
            if isinstance(fn, ast.Attribute) and isinstance(fn.value, ast.Name) and fn.value.id == "np" and fn.attr == "sum" and len(node.args) == 1:
                return f"(.sum {self.tL(node.args[0], env)})"
            if isinstance(fn, ast.Name):
                if fn.id == "sum" and len(node.args) == 1:
                    a = node.args[0]
                    if (isinstance(a, ast.Call) and isinstance(a.func, ast.Name) and a.func.id == "filter" and len(a.args) == 2
                            and isinstance(a.args[0], ast.Constant) and a.args[0].value is None):
                        return f"(.sumTruthy {self.tOL(a.args[1], env)})"
                    if isinstance(a, ast.GeneratorExp):
                        g = self.one_gen(a)
                        if self.typeof(g.iter, env) != "L":
                            fail(node, "sum over this kind of iterable is not supported")
                        lst = self.tL(g.iter, env)
                        b = self.push("I")
                        benv = dict(env)
                        benv[g.target.id] = b
                        body = self.tI(a.elt, benv)
                        self.pop()
                        return f"(.sumOver {lst} {body})"
                    return f"(.sum {self.tL(a, env)})"
                if fn.id == "len" and len(node.args) == 1:
                    t = self.typeof(node.args[0], env)
                    if t == "L":
                        return f"(.len {self.tL(node.args[0], env)})"
                    if t == "OL":
                        return f"(.lenO {self.tOL(node.args[0], env)})"
                    if t == "LL":
                        return ".nfr"
                if fn.id == "abs" and len(node.args) == 1:
                    return f"(.abs {self.tI(node.args[0], env)})"
                if fn.id in ("max", "min") and len(node.args) == 2:
                    return f"(.{fn.id} {self.tI(node.args[0], env)} {self.tI(node.args[1], env)})"
        fail(node, "unsupported integer expression")

    def one_gen(self, comp):
        if len(comp.generators) != 1:
            fail(comp, "nested comprehension")
        g = comp.generators[0]
        if g.ifs or g.is_async or not isinstance(g.target, ast.Name):
            fail(comp, "comprehension with a filter / tuple target is not supported")
        return g

    def tO_b(self, b, node):
        if isinstance(b, Prim) and b.typ == "O":
            return b.lean
        if isinstance(b, Bound) and b.typ == "O":
            return f"(.bvar {self.index(b, node)})"
        if isinstance(b, Thunk):
            return self.tO(b.node, b.env)
        fail(node, "not an optional-integer variable")

    def tO(self, node, env):
        if isinstance(node, ast.Name):
            return self.tO_b(self.lookup(node.id, env, node), node)
        if isinstance(node, ast.Subscript) and not isinstance(node.slice, ast.Slice) and self.typeof(node.value, env) == "OL":
            return f"(.idx {self.tOL(node.value, env)} {self.tI(node.slice, env)})"
        fail(node, "unsupported optional-valued expression")

    def tOL_b(self, b, node):
        if isinstance(b, Prim) and b.typ == "OL":
            return b.lean
        if isinstance(b, Thunk):
            return self.tOL(b.node, b.env)
        if isinstance(b, RemoveNone):
            return f"(.removeNone {self.tOL_b(b.inner, node)})"
        fail(node, "not a list of optional integers")

    def tOL(self, node, env):
        if isinstance(node, ast.Name):
            return self.tOL_b(self.lookup(node.id, env, node), node)
        if isinstance(node, ast.Subscript) and isinstance(node.slice, ast.Slice):
            s = node.slice
            if s.lower is None and s.upper is None and s.step is None:
                return self.tOL(node.value, env)
        if isinstance(node, ast.Call) and isinstance(node.func, ast.Name) and node.func.id == "list" and len(node.args) == 1:
            return self.tOL(node.args[0], env)
        fail(node, "unsupported list-of-optionals expression")

    def tL(self, node, env):
        if isinstance(node, ast.Name):
            b = self.lookup(node.id, env, node)
            if isinstance(b, Prim) and b.typ == "L":
                return b.lean
            if isinstance(b, Thunk):
                return self.tL(b.node, b.env)
            fail(node, "not an integer-list variable")
        if isinstance(node, ast.Subscript):
            if isinstance(node.slice, ast.Slice):
                s = node.slice
                if s.lower is None and s.upper is None and s.step is None:
                    return self.tL(node.value, env)
                fail(node, "slices other than [:] are not supported")
            if self.typeof(node.value, env) == "LL":
                return f"(.felezRow {self.tI(node.slice, env)})"
        if isinstance(node, ast.ListComp):
            g = self.one_gen(node)
            t = self.typeof(g.iter, env)
            if t == "OL":
                lst = self.tOL(g.iter, env)
                b = self.push("O")
                benv = dict(env)
                benv[g.target.id] = b
                body = self.tI(node.elt, benv)
                self.pop()
                return f"(.mapOpt {lst} {body})"
            if t == "LL":
                e = node.elt
                ok = (isinstance(e, ast.Call) and len(e.args) == 1 and not e.keywords and isinstance(e.args[0], ast.Name) and e.args[0].id == g.target.id
                      and ((isinstance(e.func, ast.Name) and e.func.id == "sum")
                           or (isinstance(e.func, ast.Attribute) and isinstance(e.func.value, ast.Name) and e.func.value.id == "np" and e.func.attr == "sum")))
                if ok:
                    return ".rowSums"
            fail(node, "unsupported list comprehension")
        if isinstance(node, ast.Call):
            h = self.helper(node, env)
            if h and h[0] == "ret":
                return self.tL(h[1], h[2])
            if isinstance(node.func, ast.Name) and node.func.id == "list" and len(node.args) == 1:
                return self.tL(node.args[0], env)
        fail(node, "unsupported integer-list expression")

    def tB(self, node, env):
        if isinstance(node, ast.Constant) and isinstance(node.value, bool):
            return ".tt" if node.value else ".ff"
        if isinstance(node, ast.BoolOp):
            op = "and" if isinstance(node.op, ast.And) else "or"
            parts = [self.tB(v, env) for v in node.values]
            out = parts[-1]
            for p in reversed(parts[:-1]):
                out = f"(.{op} {p} {out})"
            return out
        if isinstance(node, ast.UnaryOp) and isinstance(node.op, ast.Not):
            return f"(.not {self.tB(node.operand, env)})"
        if isinstance(node, ast.Compare):
            if len(node.ops) != 1:
                fail(node, "chained comparison")
            op, l, r = node.ops[0], node.left, node.comparators[0]
            if isinstance(op, (ast.Is, ast.IsNot)):
                if not (isinstance(r, ast.Constant) and r.value is None):
                    fail(node, "`is` against something other than None")
                t = self.typeof(l, env)
                if t == "O":
                    s = f"(.isNone {self.tO(l, env)})"
                elif t == "I":
                    s = ".ff"  # an integer-typed value is never None (integer scope)
                else:
                    fail(node, "`is None` on this kind of value")
                return s if isinstance(op, ast.Is) else f"(.not {s})"
            if type(op) in CMP:
                for side in (l, r):
                    if isinstance(side, ast.Constant) and side.value is None:
                        fail(node, "comparison with None by ==")
                return f"(.cmp .{CMP[type(op)]} {self.tI(l, env)} {self.tI(r, env)})"
            fail(node, "unsupported comparison operator")
        if isinstance(node, ast.Call):
            h = self.helper(node, env)
            if h and h[0] == "ret":
                return self.tB(h[1], h[2])
            fn = node.func
            if isinstance(fn, ast.Name) and fn.id in ("all", "any") and len(node.args) == 1 and isinstance(node.args[0], ast.GeneratorExp):
                ge = node.args[0]
                g = self.one_gen(ge)
                t = self.typeof(g.iter, env)
                if t == "L":
                    lst, bt, ctor = self.tL(g.iter, env), "I", fn.id + "I"
                elif t == "OL":
                    lst, bt, ctor = self.tOL(g.iter, env), "O", fn.id + "O"
                else:
                    fail(node, "all/any over this kind of iterable")
                b = self.push(bt)
                benv = dict(env)
                benv[g.target.id] = b
                body = self.tB(ge.elt, benv)
                self.pop()
                return f"(.{ctor} {lst} {body})"
            if isinstance(fn, ast.Name) and fn.id == "isinstance" and len(node.args) == 2:
                ty = node.args[1]
                tys = ty.elts if isinstance(ty, ast.Tuple) else [ty]
                names = sorted(ast.unparse(t) for t in tys)
                if self.typeof(node.args[0], env) == "I" and names and set(names) <= {"int", "np.integer"} and "int" in names:
                    return ".tt"  # integer scope: every integer-typed expression is an int
                fail(node, "isinstance of this kind")
        if isinstance(node, ast.Name):
            b = self.lookup(node.id, env, node)
            if isinstance(b, Thunk) and self.typeof(b.node, b.env) == "B":
                return self.tB(b.node, b.env)
        fail(node, "unsupported truth-valued expression")

    # -- statements --
    def guard_lean(self, guards):
        parts = []
        for cond, cenv, neg in guards:
            s = self.tB(cond, cenv)
            parts.append(f"(.not {s})" if neg else s)
        if not parts:
            return ".tt"
        out = parts[-1]
        for p in reversed(parts[:-1]):
            out = f"(.and {p} {out})"
        return out

    def fully_defined(self, b):
        if isinstance(b, Undefined) or b is None:
            return False
        if isinstance(b, IteB):
            return self.fully_defined(b.a) and self.fully_defined(b.b)
        return True

    def new_def(self, name, value_lean, node):
        k = self.counts.get(name, 0) + 1
        self.counts[name] = k
        dn = f"{name}_{k}"
        self.defs.append((dn, value_lean, ast.unparse(node), node.lineno))
        return DefRef(dn)

    def assign(self, name, value, env, node, loop):
        if name in PROTECTED:
            fail(node, f"assignment to `{name}` inside the translated region")
        if loop is not None or self.stack:
            fail(node, "assignment inside a loop is not supported")
        t = self.typeof(value, env)
        snap = dict(env)
        if t == "I":
            env[name] = self.new_def(name, self.tI(value, snap), node)
        elif t in ("OL", "L", "O", "B"):
            env[name] = Thunk(value, snap)
        else:
            fail(node, "assignment of a value the translator cannot type")

    def is_logging_only(self, stmts):
        for s in stmts:
            ok = (isinstance(s, ast.Expr) and isinstance(s.value, ast.Call)
                  and ((isinstance(s.value.func, ast.Attribute) and isinstance(s.value.func.value, ast.Name) and s.value.func.value.id == "text" and s.value.func.attr == "append")
                       or (isinstance(s.value.func, ast.Name) and s.value.func.id == "print")))
            if not ok:
                return False
        return True

    def append_target(self, call):
        """(list name, indexed-by name or None, argument) for `X.append(a)` / `X[i].append(a)`, else None"""
        if not (isinstance(call, ast.Call) and isinstance(call.func, ast.Attribute) and call.func.attr == "append" and len(call.args) == 1 and not call.keywords):
            return None
        v = call.func.value
        if isinstance(v, ast.Name):
            return (v.id, None, call.args[0])
        if isinstance(v, ast.Subscript) and isinstance(v.value, ast.Name) and isinstance(v.slice, ast.Name):
            return (v.value.id, v.slice.id, call.args[0])
        return None

    def emit_gen(self, lst, idxname, gen_of_guard, node, env, guards, loop):
        if lst in EXACT_SCALAR:
            if idxname is not None or loop is not None:
                fail(node, f"`{lst}` is appended to inside a fragment loop")
            self.dims[EXACT_SCALAR[lst]].append((gen_of_guard(self.guard_lean(guards)), node.lineno))
        elif lst in EXACT_FRAG:
            if loop is None or idxname != loop["idx"]:
                fail(node, f"`{lst}[…]` must be indexed by the enclosing fragment loop variable")
            self.dims[EXACT_FRAG[lst]].append((f"{{ count := {loop['count']}, item := {gen_of_guard(self.guard_lean(guards[loop['nguards']:]))} }}", node.lineno))
        else:
            fail(node, "append to an unknown list")

    def exec_block(self, stmts, env, guards, loop):
        for st in stmts:
            self.exec_stmt(st, env, guards, loop)

    def exec_stmt(self, st, env, guards, loop):
        if self.pending_label is not None and not (isinstance(st, ast.Expr) and (self.append_target(st.value) or ("",))[0] == "cgmp_rules"):
            self.pending_label = None
        if isinstance(st, ast.Expr):
            call = st.value
            tgt = self.append_target(call)
            if tgt:
                lst, idxname, arg = tgt
                if lst == "cgmp_range":
                    if idxname is not None or not isinstance(arg, ast.Lambda):
                        fail(st, "cgmp_range.append of something that is not a lambda")
                    self.emit_rule(arg, env, guards, loop, st)
                    return
                if lst == "cgmp_rules":
                    if self.pending_label is None:
                        fail(st, "rule label without a rule before it")
                    self.rules[self.pending_label][0] = self.label_name(arg, loop)
                    self.pending_label = None
                    return
                if lst in EXACT_SCALAR or lst in EXACT_FRAG:
                    snap = dict(env)
                    val = self.tI(arg, snap)
                    self.emit_gen(lst, idxname, lambda g: f"(.val {g} {val})", st, env, guards, loop)
                    return
                fail(st, "append to a list the translator does not know")
            if (isinstance(call, ast.Call) and isinstance(call.func, ast.Attribute) and call.func.attr == "remove" and isinstance(call.func.value, ast.Name)
                    and len(call.args) == 1 and isinstance(call.args[0], ast.Constant) and call.args[0].value is None):
                name = call.func.value.id
                if name in PROTECTED or loop is not None:
                    fail(st, "`.remove(None)` here is not supported")
                b = self.lookup(name, env, st)
                if self.btype(b, st) != "OL":
                    fail(st, "`.remove(None)` on something that is not a list of optionals")
                if isinstance(b, Prim):
                    fail(st, "`.remove(None)` on the caller's own list (aliasing) is not supported")
                if isinstance(b, Thunk) and not (isinstance(b.node, ast.Subscript) and isinstance(b.node.slice, ast.Slice)) and not (
                        isinstance(b.node, ast.Call) and isinstance(b.node.func, ast.Name) and b.node.func.id == "list"):
                    fail(st, "`.remove(None)` on a list that is not a fresh copy")
                env[name] = RemoveNone(b)
                return
            fail(st, "unsupported statement")
        if isinstance(st, ast.Assign):
            if len(st.targets) != 1 or not isinstance(st.targets[0], ast.Name):
                fail(st, "unsupported assignment target")
            self.assign(st.targets[0].id, st.value, env, st, loop)
            return
        if isinstance(st, ast.AugAssign):
            if not isinstance(st.target, ast.Name):
                fail(st, "unsupported augmented assignment target")
            val = ast.copy_location(ast.BinOp(left=ast.Name(id=st.target.id, ctx=ast.Load()), op=st.op, right=st.value), st)
            ast.fix_missing_locations(val)
            self.assign(st.target.id, val, env, st, loop)
            return
        if isinstance(st, ast.If):
            if isinstance(st.test, ast.Name) and st.test.id in ("log_full", "log_brief"):
                if not self.is_logging_only(st.body) or st.orelse:
                    fail(st, "logging block does something other than logging")
                return
            cenv = dict(env)
            self.tB(st.test, cenv)  # must be translatable now (fails loudly otherwise)
            e1, e2 = dict(env), dict(env)
            self.exec_block(st.body, e1, guards + [(st.test, cenv, False)], loop)
            self.exec_block(st.orelse, e2, guards + [(st.test, cenv, True)], loop)
            for n in sorted(set(e1) | set(e2)):
                b1, b2 = e1.get(n), e2.get(n)
                if b1 is b2:
                    continue
                und = Undefined("is assigned on one branch of an `if` only")
                ib = IteB(st.test, cenv, b1 if b1 is not None else und, b2 if b2 is not None else und)
                defined = all(x is not None and not isinstance(x, (Undefined, IteB)) or (isinstance(x, IteB) and self.fully_defined(x)) for x in (b1, b2))
                if defined and loop is None and not self.stack and self.btype(ib, st) == "I":
                    # an integer local assigned on both paths: one named conditional expression
                    k = self.counts.get(n, 0) + 1
                    self.counts[n] = k
                    self.defs.append((f"{n}_{k}", self.tI_b(ib, st), f"{n} after `if {ast.unparse(st.test)}: … else: …`", st.lineno))
                    env[n] = DefRef(f"{n}_{k}")
                else:
                    env[n] = ib
            return
        if isinstance(st, ast.For):
            if st.orelse:
                fail(st, "for/else")
            self.exec_for(st, env, guards, loop)
            return
        fail(st, "unsupported statement")

    def range_args(self, it, env):
        """(reversed?, lo, hi) for `range(a, b)` / `range(b)` / `reversed(range(...))`, else None"""
        rev = False
        if isinstance(it, ast.Call) and isinstance(it.func, ast.Name) and it.func.id == "reversed" and len(it.args) == 1 and not it.keywords:
            rev, it = True, it.args[0]
        if isinstance(it, ast.Call) and isinstance(it.func, ast.Name) and it.func.id == "range" and not it.keywords and len(it.args) in (1, 2):
            lo = lit(0) if len(it.args) == 1 else self.tI(it.args[0], env)
            return rev, lo, self.tI(it.args[-1], env)
        return None

    def exec_for(self, st, env, guards, loop):
        # (a) value loop: for x in [reversed](range(lo, hi)): <exact list>.append(x)
        if isinstance(st.target, ast.Name) and len(st.body) == 1 and isinstance(st.body[0], ast.Expr):
            tgt = self.append_target(st.body[0].value)
            if tgt and (tgt[0] in EXACT_SCALAR or tgt[0] in EXACT_FRAG):
                lst, idxname, arg = tgt
                if not (isinstance(arg, ast.Name) and arg.id == st.target.id):
                    fail(st, "a candidate loop must append its own loop variable")
                ra = self.range_args(st.iter, dict(env))
                if ra is None:
                    fail(st, "candidate loop over something other than range / reversed(range)")
                rev, lo, hi = ra
                self.emit_gen(lst, idxname, lambda g: f"(.range {g} {'true' if rev else 'false'} {lo} {hi})", st, env, guards, loop)
                env[st.target.id] = Undefined("is a loop variable read after its loop")
                return
        # (b) fragment loop
        if loop is not None:
            fail(st, "nested fragment loops are not supported")
        if guards:
            fail(st, "a fragment loop inside an `if` is not supported")
        lenv = dict(env)
        names = []
        if isinstance(st.target, ast.Name):
            ra = self.range_args(st.iter, dict(env))
            if ra is None or ra[0] or ra[1] != lit(0):
                fail(st, "fragment loop must run over range(n)")
            count, idx = ra[2], st.target.id
            b = self.push("I", loopvar=True)
            lenv[idx] = b
            names = [idx]
        elif (isinstance(st.target, ast.Tuple) and len(st.target.elts) == 2 and all(isinstance(e, ast.Name) for e in st.target.elts)
              and isinstance(st.iter, ast.Call) and isinstance(st.iter.func, ast.Name) and st.iter.func.id == "enumerate" and len(st.iter.args) == 1 and not st.iter.keywords
              and self.typeof(st.iter.args[0], env) == "OL"):
            idx, item = st.target.elts[0].id, st.target.elts[1].id
            count = f"(.lenO {self.tOL(st.iter.args[0], dict(env))})"
            b = self.push("I", loopvar=True)
            lenv[idx] = b
            sub = ast.copy_location(ast.Subscript(value=st.iter.args[0], slice=ast.Name(id=idx, ctx=ast.Load()), ctx=ast.Load()), st)
            ast.fix_missing_locations(sub)
            lenv[item] = Thunk(sub, dict(lenv), loopvar=True)
            names = [idx, item]
        else:
            fail(st, "unsupported loop header")
        self.exec_block(st.body, lenv, guards, {"count": count, "idx": idx, "nguards": len(guards), "names": names})
        self.pop()
        for n in names:
            env[n] = Undefined("is a loop variable read after its loop")

    def label_name(self, arg, loop):
        try:
            if isinstance(arg, ast.Constant) and isinstance(arg.value, str):
                s = arg.value
            elif isinstance(arg, ast.BinOp) and isinstance(arg.op, ast.Add) and isinstance(arg.left, ast.Constant) and isinstance(arg.left.value, str):
                s = arg.left.value + "i"
            else:
                return None
            s = "".join(ch for ch in s if ch.isalnum())
            return "rule_" + s if s else None
        except Exception:  # noqa
            return None

    def emit_rule(self, lam: ast.Lambda, env, guards, loop, st):
        a = lam.args
        if a.vararg or a.kwarg or a.kwonlyargs or a.posonlyargs:
            fail(lam, "lambda signature")
        names = [x.arg for x in a.args]
        if names[:4] != ["c", "fc", "m", "fm"]:
            fail(lam, "a rule must take (c, fc, m, fm)")
        extra = names[4:]
        if len(a.defaults) != len(extra):
            fail(lam, "extra lambda parameters must all have defaults")
        lenv = dict(env)
        for p, d in zip(extra, a.defaults):
            if not isinstance(d, ast.Name):
                fail(lam, "default of an extra lambda parameter must be a plain name")
            lenv[p] = self.lookup(d.id, env, d)  # bound NOW (that is what `x=x` is for)
        bound_now = set(extra)
        # free names read when the lambda is CALLED (after all the loops have ended)
        for n in ast.walk(lam.body):
            if isinstance(n, ast.Name) and n.id not in names and n.id in env:
                b = env[n.id]
                if getattr(b, "loopvar", False):
                    fail(lam, f"loop variable `{n.id}` is read late by the lambda (no `{n.id}={n.id}` default)")
                if not isinstance(b, Func):
                    self.captured.append((n.id, b, lam))
        for k, v in (("c", Prim("I", ".candC")), ("fc", Prim("L", ".candFc")), ("m", Prim("I", ".candM")), ("fm", Prim("L", ".candFm"))):
            lenv[k] = v
        del bound_now
        body = self.tB(lam.body, lenv)
        if loop is None:
            item = f"RuleItem.one {self.guard_lean(guards)} {body}"
        else:
            item = f"RuleItem.each {loop['count']} {self.guard_lean(guards[loop['nguards']:])} {body}"
        self.rules.append([None, item, st.lineno, ast.unparse(lam)])
        self.pending_label = len(self.rules) - 1

    def check_captured(self, env):
        for name, b, lam in self.captured:
            if env.get(name) is not b:
                fail(lam, f"`{name}` is reassigned after this lambda captured it (late binding)")


# ---- the function ---------------------------------------------------------------------------------------------------
PINS = {
    "felez": "np.split(zeff, fragment_separators)",
    "nfr": "len(felez)",
    "cgmp_exact_c": "[]",
    "cgmp_exact_fc": "[[] for f in range(nfr)]",
    "cgmp_exact_m": "[]",
    "cgmp_exact_fm": "[[] for f in range(nfr)]",
    "cgmp_range": "[]",
}
DIM_OF_EXACT = {"cgmp_exact_c": "c", "cgmp_exact_fc": "fc", "cgmp_exact_m": "m", "cgmp_exact_fm": "fm"}


def check_reconcile(fn: ast.FunctionDef, rec: ast.FunctionDef, call_stmt):
    """Shape of `reconcile` and of its call; returns the dimension of each component of the product, in order."""
    params = [a.arg for a in rec.args.args]
    if len(params) != 4 or rec.args.defaults or rec.args.vararg or rec.args.kwarg:
        fail(rec, "reconcile signature")
    uniq = {}  # uniq name -> param
    prod_line = None
    ret_ok = False
    unpack = None
    assess = None
    for st in ast.walk(rec):
        if isinstance(st, ast.Assign) and len(st.targets) == 1 and isinstance(st.targets[0], ast.Name):
            src = ast.unparse(st.value)
            for p in params:
                if src == f"unique_everseen({p})" or src == f"[unique_everseen(f) for f in {p}]":
                    uniq[st.targets[0].id] = (p, src.startswith("["))
            if st.targets[0].id == "assessment":
                assess = src
        if isinstance(st, ast.Assign) and len(st.targets) == 1 and isinstance(st.targets[0], ast.Tuple) and ast.unparse(st.value) == "candidate":
            unpack = [ast.unparse(e) for e in st.targets[0].elts]
        if isinstance(st, ast.For) and ast.unparse(st.target) == "candidate":
            prod_line = st
    if prod_line is None:
        fail(rec, "reconcile: no `for candidate in itertools.product(...)`")
    it = prod_line.iter
    if not (isinstance(it, ast.Call) and ast.unparse(it.func) == "itertools.product" and len(it.args) == 1 and isinstance(it.args[0], ast.Starred)
            and isinstance(it.args[0].value, ast.List)):
        fail(it, "reconcile: unexpected product call")
    comps = []
    for e in it.args[0].value.elts:
        s = ast.unparse(e)
        if isinstance(e, ast.Name) and e.id in uniq and not uniq[e.id][1]:
            comps.append(uniq[e.id][0])
        elif isinstance(e, ast.Call) and ast.unparse(e.func) == "itertools.product" and len(e.args) == 1 and isinstance(e.args[0], ast.Starred) \
                and isinstance(e.args[0].value, ast.Name) and e.args[0].value.id in uniq and uniq[e.args[0].value.id][1]:
            comps.append(uniq[e.args[0].value.id][0])
        else:
            fail(e, "reconcile: product component is not a de-duplicated candidate list: " + s)
    if unpack is None or len(unpack) != 4:
        fail(rec, "reconcile: `a, b, c, d = candidate` not found")
    if assess != f"[fn({', '.join(unpack)}) for fn in cgmp_range]":
        fail(rec, "reconcile: assessment is not [fn(<candidate components in order>) for fn in cgmp_range]")
    for st in ast.walk(prod_line):
        if isinstance(st, ast.If) and ast.unparse(st.test) == "all(assessment)" and len(st.body) == 1 and ast.unparse(st.body[0]) == "return candidate":
            ret_ok = True
    if not ret_ok:
        fail(rec, "reconcile: `if all(assessment): return candidate` not found")
    # after the loop: raise ValidationError
    if not any(isinstance(s, ast.Raise) and "ValidationError" in ast.unparse(s) for s in rec.body):
        fail(rec, "reconcile: no ValidationError after the search")
    # the call
    v = call_stmt.value
    if not (isinstance(v, ast.Call) and ast.unparse(v.func) == "reconcile" and len(v.args) == 4 and not v.keywords):
        fail(call_stmt, "call of reconcile")
    actual = [ast.unparse(x) for x in v.args]
    p2dim = {}
    for p, a in zip(params, actual):
        if a not in DIM_OF_EXACT:
            fail(call_stmt, "reconcile is called on something other than the candidate lists")
        p2dim[p] = DIM_OF_EXACT[a]
    if ast.unparse(call_stmt.targets[0]) != "(c_final, fc_final, m_final, fm_final)":
        fail(call_stmt, "result of reconcile is not unpacked as c_final, fc_final, m_final, fm_final")
    have = set(p2dim[p] for p, _ in uniq.values())
    return [p2dim[p] for p in comps], [d for d in ("c", "fc", "m", "fm") if d in have]


def _c(src: str) -> str:
    """source text inside a Lean doc comment"""
    return src.replace("-/", "- /").replace("/-", "/ -").replace("\n", " ")


def translate_source(text: str) -> str:
    mod = ast.parse(text)
    fn = next((s for s in mod.body if isinstance(s, ast.FunctionDef) and s.name == "validate_and_fill_chgmult"), None)
    if fn is None:
        raise Unsupported("validate_and_fill_chgmult not found")
    body = fn.body
    is_rule = lambda s: isinstance(s, ast.Expr) and isinstance(s.value, ast.Call) and ast.unparse(s.value.func) == "cgmp_range.append"  # noqa
    start = next((i for i, s in enumerate(body) if is_rule(s)), None)
    end = next((i for i, s in enumerate(body) if isinstance(s, ast.FunctionDef) and s.name == "reconcile"), None)
    if start is None or end is None or end < start:
        raise Unsupported("rule region not found")
    # prefix: pinned definitions, and nothing but the zero_ghost_fragments rewriting right before the region
    seen = {}
    for s in body[:start]:
        tgt = None
        if isinstance(s, ast.Assign) and len(s.targets) == 1 and isinstance(s.targets[0], ast.Name):
            tgt, val = s.targets[0].id, s.value
        elif isinstance(s, ast.AnnAssign) and isinstance(s.target, ast.Name) and s.value is not None:
            tgt, val = s.target.id, s.value
        if tgt in PINS:
            if ast.unparse(val) != PINS[tgt] or tgt in seen:
                fail(s, f"`{tgt}` is no longer defined as `{PINS[tgt]}`")
            seen[tgt] = True
    missing = [k for k in PINS if k not in seen]
    if missing:
        raise Unsupported(f"definitions not found before the rules: {missing}")
    prev = body[start - 1]
    if not (isinstance(prev, ast.If) and ast.unparse(prev.test) == "zero_ghost_fragments and (not all(real_fragments))"):
        fail(prev, "the statement before the first rule is not the zero_ghost_fragments rewriting")
    # any other touch of the rule / candidate lists outside the region (before reconcile) is an error
    for s in body[:start]:
        for n in ast.walk(s):
            if isinstance(n, ast.Attribute) and n.attr in ("append", "extend", "insert", "remove", "pop") and any(
                    isinstance(x, ast.Name) and x.id in PINS and x.id.startswith("cgmp") for x in ast.walk(n.value)):
                fail(s, "rule / candidate list modified before the translated region")
    tr = Translator(mod)
    env = dict(tr.menv)
    env.update({
        "molecular_charge": Prim("O", ".molCharge"), "molecular_multiplicity": Prim("O", ".molMult"),
        "fragment_charges": Prim("OL", ".fragCharges"), "fragment_multiplicities": Prim("OL", ".fragMults"),
        "zeff": Prim("L", ".zeff"), "felez": Prim("LL", "felez"), "nfr": Prim("I", ".nfr"),
    })
    tr.exec_block(body[start:end], env, [], None)
    tr.check_captured(env)
    if tr.pending_label is not None:
        pass
    # after reconcile: the call
    call_stmt = next((s for s in body[end:] if isinstance(s, ast.Assign) and isinstance(s.value, ast.Call) and ast.unparse(s.value.func) == "reconcile"), None)
    if call_stmt is None:
        raise Unsupported("call of reconcile not found")
    for s in body[end + 1:body.index(call_stmt)]:
        if not isinstance(s, ast.FunctionDef):
            fail(s, "statement between reconcile and its call")
    order, deduped = check_reconcile(fn, body[end], call_stmt)
    # names
    used = set()
    for k, r in enumerate(tr.rules):
        nm = r[0] or f"rule_at_{k}"
        if nm in used:
            nm = f"{nm}_{k}"
        used.add(nm)
        r[0] = nm
    L = [
        "import QcelVerif.Model.ChgMultAst",
        "/-! GENERATED by harness/c05_src.py from qcelemental/molparse/chgmult.py (validate_and_fill_chgmult, the statements",
        f"from the first `cgmp_range.append` (line {body[start].lineno}) to `def reconcile` (line {body[end].lineno})) — do not edit.",
        "Rules: one `RuleItem` per `cgmp_range.append(lambda …)`, named after the label appended to `cgmp_rules` next to it.",
        "Candidates: one `Gen` per append statement of each search dimension, in source order.  Integer locals are definitions",
        "named `<variable>_<k>` for the k-th assignment of that variable in source order. -/",
        "namespace QcelVerif.Gen.ChgMultSrc",
        "open QcelVerif.ChgMult.Ast",
        "",
    ]
    for name, val, src, line in tr.defs:
        L.append(f"/-- chgmult.py:{line}  `{_c(src)}` -/")
        L.append(f"def {name} : IExpr := {val}")
    L.append("")
    for name, item, line, src in tr.rules:
        L.append(f"/-- chgmult.py:{line}  `{_c(src)}` -/")
        L.append(f"def {name} : RuleItem := {item}")
    L.append("")
    L.append("def genRules : List RuleItem := [" + ", ".join(r[0] for r in tr.rules) + "]")
    L.append("")
    for d in ("c", "fc", "m", "fm"):
        ty = "Gen" if d in ("c", "m") else "PerFrag"
        L.append(f"/-- cgmp_exact_{d}: statements at chgmult.py lines {', '.join(str(l) for _, l in tr.dims[d])} -/")
        L.append(f"def gens_{d} : List {ty} := [" + ",\n    ".join(g for g, _ in tr.dims[d]) + "]")
    L.append("")
    L.append("def genDims : Dims := { c := gens_c, fc := gens_fc, m := gens_m, fm := gens_fm }")
    L.append("")
    L.append("/-- components of `itertools.product(*[...])` in `reconcile`, left to right (leftmost varies slowest); the lambdas take them as (c, fc, m, fm) -/")
    L.append("def genOrder : List Dim := [" + ", ".join(f".{d}" for d in order) + "]")
    L.append("/-- dimensions whose list goes through `unique_everseen` -/")
    L.append("def genDeduped : List Dim := [" + ", ".join(f".{d}" for d in deduped) + "]")
    L.append("")
    L.append("end QcelVerif.Gen.ChgMultSrc")
    return "\n".join(L) + "\n"


def gen_chgmult_src(ctx=None) -> None:
    """lean/QcelVerif/Gen/ChgMultSrc.lean <- qcelemental/molparse/chgmult.py (rule lambdas, guards, candidate ranges)."""
    src = (common.REPO / "qcelemental" / "molparse" / "chgmult.py").read_text()
    body = translate_source(src)
    f = common.LEAN / "QcelVerif" / "Gen" / "ChgMultSrc.lean"
    f.parent.mkdir(exist_ok=True)
    if not f.exists() or f.read_text() != body:
        f.write_text(body)


if __name__ == "__main__":
    import sys

    print(translate_source(Path(sys.argv[1] if len(sys.argv) > 1 else "/repo/qcelemental/molparse/chgmult.py").read_text()))
