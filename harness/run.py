#!/venv/bin/python
"""Entry point behind ./check  (DESIGN.md §1.2).

    ./check C05 --tier quick|thorough
    ./check C05 --replay replays/C05-xxxx.json
    ./check --setup

Exit codes: 0 property held on everything explored (KNOWN-FINDING lines allowed);
            1 VIOLATION line printed; 2 harness crash / timeout (never counted as a violation).
"""
from __future__ import annotations

import argparse
import importlib
import json
import os
import subprocess
import sys
import time
import traceback
from pathlib import Path

sys.path.insert(0, str(Path(__file__).resolve().parent))
import common  # noqa: E402
from common import Ctx, Finding, Outcome, log  # noqa: E402

ALL = [f"C{n:02d}" for n in range(1, 21)]


def load(prop: str):
    return common.load_property(prop)


def setup() -> int:
    """Regenerate every translator output and build every Lean target (cold: minutes)."""
    t0 = time.time()
    targets = []
    for p in ALL:
        try:
            mod = load(p)
        except ModuleNotFoundError:
            continue
        ctx = Ctx(p, "quick", 0)
        for tr in getattr(mod, "TRANSLATORS", []):
            try:
                tr(ctx)
            except Exception:
                log(f"setup: translator for {p} failed:\n{traceback.format_exc()}")
        targets += list(mod.LEAN_TARGETS)
        ctx.cleanup()
    ctx = Ctx("setup", "quick", 0)
    ok, out = ctx.lake_build(sorted(set(targets)), timeout=7200)
    ctx.cleanup()
    if not ok:
        log(out[-6000:])
        log("setup: lake build reported failures (individual checks will report them)")
    log(f"setup done in {time.time()-t0:.0f}s")
    # sanity: the implementation imports
    r = subprocess.run(["/venv/bin/python", "-c", "import qcelemental"], cwd="/tmp")
    return 0 if r.returncode == 0 else 2


def match_known(mod, finding: Finding, known: list):
    """A finding is 'known' only if the property module classifies it into a listed kind."""
    for k in known:
        if k.get("kind") == finding.kind:
            pred = getattr(mod, "known_predicate", None)
            if pred is None or pred(finding, k):
                return k
    return None


def decide(prop: str, tier: str, seed: int, replay: str | None) -> int:
    t0 = time.time()
    mod = load(prop)
    ctx = Ctx(prop, tier, seed)
    broken: list[str] = []  # proof obligations / ties that no longer check
    build_log = ""
    audit_res = {"theorems": {}, "forbidden": []}
    leanchecker_res = None
    try:
        # 1. translators: regenerate Gen/*.lean from /repo's working tree
        for tr in getattr(mod, "TRANSLATORS", []):
            try:
                tr(ctx)
            except Exception as e:
                broken.append(f"translator {tr.__name__}: {type(e).__name__}: {e}")
                log(traceback.format_exc())
        # 2. build the Lean targets
        ok, build_log = ctx.lake_build(list(mod.LEAN_TARGETS))
        if not ok:
            errs = [l for l in build_log.splitlines() if l.startswith("error:")][:8]
            broken.append("lake build failed: " + " | ".join(errs))
            # is the driver itself still usable?
            drv_targets = [t for t in mod.LEAN_TARGETS if ".Driver." in t or ".Model." in t]
            ok2, _ = ctx.lake_build(drv_targets) if drv_targets else (False, "")
            ctx.model_available = bool(ok2)
        # 3. audit
        if ok:
            audit_res = common.audit(ctx, mod)
            for n, r in audit_res["theorems"].items():
                if not r["ok"]:
                    broken.append(f"theorem {n}: axioms={r.get('axioms')} {r.get('error','')}")
            for h in audit_res["forbidden"]:
                broken.append(f"forbidden construct: {h}")
        # 3b. thorough tier: independent re-check of the compiled modules (Lean's leanchecker replays
        #     every declaration of the property's project-local modules through the kernel again)
        leanchecker_res = None
        if ok and tier == "thorough" and not replay:
            mods = [str(f.relative_to(common.LEAN))[:-5].replace("/", ".") for f in common.lean_sources_for(list(mod.LEAN_TARGETS))
                    if ".Driver." not in str(f).replace("/", ".")]
            t1 = time.time()
            try:
                p = subprocess.run(["lake", "env", "leanchecker"] + sorted(mods), cwd=common.LEAN, capture_output=True, text=True, timeout=3000)
                leanchecker_res = {"modules": len(mods), "ok": p.returncode == 0, "wall_s": round(time.time() - t1, 1)}
                if p.returncode != 0:
                    broken.append("leanchecker rejects the compiled modules: " + (p.stdout + p.stderr)[-400:])
            except subprocess.TimeoutExpired:
                leanchecker_res = {"modules": len(mods), "ok": None, "wall_s": round(time.time() - t1, 1), "note": "timed out (not counted as a failure)"}
        # 4. correspondence + oracle (or a single replayed case)
        if replay:
            case = json.loads(Path(replay).read_text())
            out = mod.replay(ctx, case.get("case", case))
        else:
            out = mod.run(ctx)
    except subprocess.TimeoutExpired as e:
        log(f"timeout: {e}")
        ctx.cleanup()
        return 2
    except Exception as exc:
        # An exception escaping the harness.  If it was raised INSIDE the library under test (a frame of the traceback lies under
        # QCEL_REPO) the implementation refused something the harness — written against the unchanged tree, where every check
        # completes — takes for granted: the correspondence can no longer be carried out.  That is a broken tie (reported below as
        # VIOLATION ... no-failing-input-found with the traceback in the replay), not a harness crash.  Anything else stays exit 2.
        tb = traceback.extract_tb(exc.__traceback__)
        inside = [f for f in tb if str(f.filename).startswith(str(common.REPO) + "/")]
        log(traceback.format_exc())
        if not inside or replay:
            ctx.cleanup()
            return 2
        callers = [f for f in tb if "/harness/" in str(f.filename)]
        where = f"{inside[-1].filename}:{inside[-1].lineno} in {inside[-1].name}"
        via = f"{Path(callers[-1].filename).name}:{callers[-1].lineno} in {callers[-1].name}" if callers else "?"
        broken.append(f"correspondence harness aborted: the implementation raised {type(exc).__name__}: {str(exc)[:200]} at {where} (reached from {via}), "
                      "where the unchanged tree completes")
        build_log = (build_log + "\n" + traceback.format_exc())[-6000:]
        out = Outcome()
        out.notes.append("run aborted by an exception raised inside the implementation; no oracle results")

    # 4b. failing-input search, escalated: an obligation or the correspondence is broken but the first pass of the
    #     oracle found no (unlisted) failing input -> run the generators + oracle again under further seeds, within
    #     a time budget, and stop at the first concrete failing input.  Never run on a healthy tree (nothing broken).
    known = common.known_for(prop)
    search_note = ""
    if (broken or out.mismatches) and not replay and not any(match_known(mod, v, known) is None for v in out.violations):
        budget = 900 if tier == "thorough" else 300
        t_s = time.time()
        extra_runs = 0
        for k in range(1, 9):
            if time.time() - t_s > budget:
                break
            s2 = seed + 7919 * k
            try:
                ctx2 = Ctx(prop, tier, s2)
                ctx2.model_available = ctx.model_available
                out2 = mod.run(ctx2)
            except Exception:
                log("escalated search pass failed:\n" + traceback.format_exc())
                break
            extra_runs += 1
            out.evaluations += out2.evaluations
            out.distinct |= out2.distinct
            fresh = [v for v in out2.violations if match_known(mod, v, known) is None]
            if fresh:
                for v in fresh:
                    if isinstance(v.case, dict):
                        v.case.setdefault("_found_with_seed", s2)
                out.violations += out2.violations
                break
            if not out.mismatches and out2.mismatches:
                out.mismatches += out2.mismatches
        search_note = f"; escalated search: {extra_runs} further pass(es) under other seeds in {time.time()-t_s:.0f}s"
        out.notes.append("escalated failing-input search" + search_note)

    # 5. decide
    known_hits, new_violations = [], []
    for v in out.violations:
        k = match_known(mod, v, known)
        (known_hits if k else new_violations).append((v, k))
    rc = 0
    lines = []
    seen_known = {}
    for v, k in known_hits:
        seen_known.setdefault(k["id"], (k, 0))
        seen_known[k["id"]] = (k, seen_known[k["id"]][1] + 1)
    for kid, (k, n) in seen_known.items():
        lines.append(f"KNOWN-FINDING: property={prop} {k['what']} [{kid}; {n} case(s) this run]")
    if new_violations:
        v = new_violations[0][0]
        p = common.write_replay(
            prop,
            {
                "property": prop,
                "seed": seed,
                "tier": tier,
                "kind": v.kind,
                "case": v.case,
                "observed": v.observed,
                "expected": v.expected,
                "detail": v.detail,
                "how_to_rerun": f"./check {prop} --replay <this file>",
                "other_violations_this_run": len(new_violations) - 1,
                "violation_kinds_this_run": {k: sum(1 for v2, _ in new_violations if v2.kind == k) for k in sorted({v2.kind for v2, _ in new_violations})},
                "broken_obligations": broken,
            },
        )
        lines.append(f"VIOLATION property={prop} replay={p}")
        rc = 1
    elif broken or out.mismatches:
        # a proof obligation or the correspondence is broken and the search found no failing input
        first = out.mismatches[0].to_json() if out.mismatches else None
        p = common.write_replay(
            prop,
            {
                "property": prop,
                "seed": seed,
                "tier": tier,
                "kind": "broken-obligation",
                "no_longer_checks": broken
                + ([f"correspondence {mod.DRIVER if hasattr(mod,'DRIVER') else ''}: {len(out.mismatches)} disagreement(s)"] if out.mismatches else []),
                "first_disagreement": first,
                "case": first["case"] if first else None,
                "build_log_tail": build_log[-4000:] if broken else "",
                "search": f"property oracle evaluated on {out.evaluations} generated inputs (disagreeing inputs first): no failing input" + search_note,
            },
        )
        lines.append(f"VIOLATION property={prop} replay={p} no-failing-input-found")
        rc = 1

    # 6. evidence
    names = [n for n, _ in mod.THEOREMS]
    discharged = sum(1 for n in names if audit_res["theorems"].get(n, {}).get("ok"))
    ev = {
        "property_id": prop,
        "tier": tier,
        "seed": seed,
        "level": "proof",
        "coverage": {
            "obligations": len(names),
            "discharged": discharged,
            "checker_cmd": "cd lean && lake build " + " ".join(mod.LEAN_TARGETS) + "  # then `#print axioms` on each theorem (harness/common.py:audit)",
            "trusted_base": list(mod.TRUSTED_BASE),
            "theorems": {n: {"statement": d, **audit_res["theorems"].get(n, {})} for n, d in mod.THEOREMS},
            "broken_obligations": broken,
            "evaluations": out.evaluations,
            "distinct_nontrivial": len(out.distinct),
            "rule": mod.RULE,
            "level_text": getattr(mod, "LEVEL_TEXT", ""),
            "technique": getattr(mod, "TECHNIQUE", "Lean 4 proof over a model + correspondence + property oracle"),
            "samples": out.samples or ["(no correspondence cases this run)"],
            "exhaustive": out.exhaustive,
            "distribution": out.distribution,
            "model_impl_disagreements": len(out.mismatches),
            "known_findings_hit": {kid: n for kid, (k, n) in seen_known.items()},
            "notes": out.notes,
            "leanchecker": leanchecker_res,
        },
        "assumptions": list(getattr(mod, "ASSUMPTIONS", [])),
        "wall_s": round(time.time() - t0, 2),
        "violations": len(new_violations) + (1 if (rc == 1 and not new_violations) else 0),
    }
    if discharged == 0:
        # the schema wants discharged >= 1 whenever the proof keys are all present; with nothing
        # discharged (broken build) the run is described by the exploration-style counts instead
        ev["coverage"]["discharged_count"] = 0
        del ev["coverage"]["discharged"]
    for l in lines:
        print(l, flush=True)
    try:
        if not replay:  # a replay of one recorded case must not overwrite the evidence of the last full run
            common.write_evidence(prop, ev)
    except Exception:
        log("evidence does not validate:\n" + traceback.format_exc())
        ctx.cleanup()
        return rc if rc == 1 else 2
    ctx.cleanup()
    if rc == 0:
        print(
            f"OK property={prop} tier={tier} seed={seed} theorems={discharged}/{len(names)} "
            f"cases={out.evaluations} distinct={len(out.distinct)} wall={time.time()-t0:.1f}s",
            flush=True,
        )
    return rc


def main():
    ap = argparse.ArgumentParser()
    ap.add_argument("prop", nargs="?")
    ap.add_argument("--tier", default=os.environ.get("VERIF_TIER", "quick"), choices=["quick", "thorough"])
    ap.add_argument("--replay")
    ap.add_argument("--setup", action="store_true")
    a = ap.parse_args()
    if a.setup:
        sys.exit(setup())
    if not a.prop:
        ap.error("property id required")
    seed = int(os.environ.get("VERIF_SEED", "0") or 0)
    sys.exit(decide(a.prop.upper(), a.tier, seed, a.replay))


if __name__ == "__main__":
    main()
