"""C09 — exported QCSchema instances conform to the exported schema; molrec <-> schema translation stable.

Correspondence (Lean model vs implementation) + an independent Python oracle (jsonschema, dict round trips,
hash equality, Bohr geometry).  See lean/QcelVerif/Model/Schema.lean, Model/MolSchema.lean, Props/C09.lean.
"""
from __future__ import annotations

import contextlib
import copy
import io
import json
import math
import sys
from fractions import Fraction
from pathlib import Path

import numpy as np

from common import Ctx, Finding, Outcome, err_class

sys.path.insert(0, str(Path(__file__).resolve().parent.parent / "tools"))
import gen_schema  # noqa: E402
from c09_src import gen_molschema_src  # noqa: E402

PROPERTY = "C09"
LEAN_TARGETS = ["QcelVerif.Props.C09", "QcelVerif.Props.C09Dict", "QcelVerif.Props.C09Hash", "QcelVerif.Props.C09Typed",
                "QcelVerif.Model.ResultValues", "QcelVerif.Model.ResultKwargs", "QcelVerif.Props.C09Models", "QcelVerif.Model.MolSchemaAst",
                "QcelVerif.Gen.MolSchemaSrc", "QcelVerif.Props.C09Src", "QcelVerif.Model.MolDictAst", "QcelVerif.Props.C09SrcFilter", "QcelVerif.Driver.C09"]
DRIVER = "QcelVerif/Driver/C09.lean"
THEOREMS = [
    ("QcelVerif.Schema.emit_conforms", "for every declaration environment, type and in-memory value: hasType v ty -> the JSON emitted for v (unset/None dropped, keys by alias, arrays flattened) validates against schemaOf ty under the generated definitions (any fuel; 3x the typing fuel suffices)"),
    ("QcelVerif.Schema.root_conforms", "the same for a model instance against the model's root schema (declSchema, not a $ref) - the form in which the six schemas are published"),
    ("QcelVerif.Schema.validate_mono", "more validator fuel never turns an accepted document into a rejected one (fuel exhaustion only rejects)"),
    ("QcelVerif.Schema.validate_closed_object_sound", "the validator is not vacuous: an object accepted by a closed model schema has only declared aliases as keys and every required alias"),
    ("QcelVerif.Schema.owner_is_named_field", "for declarations with distinct aliases the typing rule of hasType types the entry (k, v) of a model instance by the field named k"),
    ("QcelVerif.Schema.uniqueItems_counterexample", "KNOWN FINDING C09-basis-uniqueItems on the model: [0,0] inhabits List[NonnegativeInt](min_items=1) but the published fragment with uniqueItems rejects it at every fuel"),
    ("QcelVerif.MolSchema.roundtrip_args", "under the record invariant, from_schema(to_schema(r, v)) hands from_arrays exactly r's own arrays in order, the separators recovered from the fragment pattern and the exported geometry (v = 1 and 2)"),
    ("QcelVerif.MolSchema.schema_roundtrip", "if from_arrays rebuilds an invariant record from its own data unchanged (C04 idempotence, parameter), fromSchema (toSchema r v) = ok (r stored in Bohr) for v = 1, 2"),
    ("QcelVerif.MolSchema.schema_roundtrip_bohr", "a named record stored in Bohr comes back identical"),
    ("QcelVerif.MolSchema.exported_geometry_bohr", "exported geometry = stored geometry if units are Bohr, else stored * input_units_to_au if the record has one, else stored * default factor (factor a parameter), both versions"),
    ("QcelVerif.MolSchema.exported_fragments", "exported fragments are np.split(arange(nat), separators): blocks that list every atom once, in order, with block ends = separators"),
    ("QcelVerif.MolSchema.contiguize_refuses_noncontiguous", "a pattern of >= 2 fragments whose concatenation is not 0..nat-1 (skipped, repeated or interleaved atoms) is a ValidationError, never repaired"),
    # --- Molecule.__init__ / dict() around the schema functions (Model/MolDict.lean, Props/C09Dict.lean)
    ("QcelVerif.MolDict.after_from_schema_closed_form", "whatever record from_schema returned, the rest of Molecule.__init__ (to_schema dtype 2 -> _filter_defaults -> validated=True -> {**kwargs, **schema} -> title-cased symbols, float_prep'd geometry) succeeds and equals the closed form finish(merge(kwargs, filteredOf(molDict r)))"),
    ("QcelVerif.MolDict.construct_sets_validated", "a successfully constructed Molecule has validated=True among its set fields"),
    ("QcelVerif.MolDict.rebuild_validated_identity", "Molecule(**d) with d['validated']=True runs no validation, no rounding, no re-titling: the object holds exactly d"),
    ("QcelVerif.MolDict.dict_fixed_point", "rebuild (dict m) = m for every Molecule m a validating construction returned, whatever the keywords, the from_arrays behaviour and the parameters"),
    ("QcelVerif.MolDict.filter_drops_exactly_defaults", "_filter_defaults drops atomic_numbers always; masses+mass_numbers exactly when the masses ARE the default masses (exact equality, the repaired np.allclose test); real exactly when all real; atom_labels exactly when all empty; the three fragment keys exactly when the pattern is the single fragment 0..nat-1; every other key unchanged"),
    ("QcelVerif.MolDict.filter_invisible_to_accessors", "for a full dictionary with one real flag per symbol, whose one-fragment case lists the molecular charge/multiplicity as the fragment's: masses/real/atom_labels/fragments/fragment_charges/fragment_multiplicities accessors return the same before and after _filter_defaults"),
    ("QcelVerif.MolDict.filter_single_fragment_multiplicity_counterexample", "the proviso is needed (open finding C05-molecule-from-string-single-fragment-mult on the model): m=1, fm=[3], one fragment -> after the filter the accessor reports [1]"),
    ("QcelVerif.MolDict.merge_schema_wins", "{**kwargs, **schema}: an entry of the schema wins over the caller's"),
    ("QcelVerif.MolDict.merge_keeps_caller_entry", "{**kwargs, **schema}: a key only the caller gave survives (defaults the caller spelled out are kept by dict())"),
    # --- hash link (Props/C09Hash.lean; C04 schema_roundtrip + bridge, C11 canon/hash)
    ("QcelVerif.C09Hash.molecule_canon_of_record", "whatever keywords from_schema mapped to the record r (agreeing with it on the hash entries the caller spelled out; one-fragment proviso; title-case symbols), the Molecule object built has the canonical hash fields recMol r: symbols, masses, charge, multiplicity, real, float_prep of the exported Bohr geometry, fragment pattern, fragment charges/multiplicities, bonds"),
    ("QcelVerif.C09Hash.recMol_inBohr", "r and the record from_schema(to_schema(r)) returns (inBohr r = C04 schemaImage r) have identical hash fields, the held geometry included (no hypothesis)"),
    ("QcelVerif.C09Hash.exported_geometry_held", "the geometry a Molecule holds is float_prep of the stored geometry for a Bohr record and float_prep of stored * factor for an Angstrom record; the round-tripped record holds the same"),
    ("QcelVerif.C09Hash.dict_roundtrip_same_canon", "C04 Inv, >= 1 atom, non-negative separators, hgeo/hre of schema_roundtrip, exact products: Molecule(validate=True, **to_schema(r, 2)) (C09 constructor model with the C04 from_arrays model plugged in) exists and has canonical fields recMol r"),
    ("QcelVerif.C09Hash.dict_roundtrip_same_hash", "same hypotheses: that rebuilt Molecule has the same hash as, and is == to, every Molecule built from keywords that from_schema maps to r (C11 hash_of_canon, molEq_iff; SHA-1/float printing abstract)"),
    ("QcelVerif.C09Hash.dict_rebuild_same_hash", "Molecule(**mol.dict()) (validated=True route) is mol itself, hence same hash and == ; no hypothesis"),
    ("QcelVerif.C09Typed.molFields_tie", "the hand-written Molecule declaration used by the typing theorems IS the declaration regenerated from the live class on this run (checked at every build)"),
    ("QcelVerif.C09Typed.dict_hasType", "every Molecule object of the constructor model with symbols and geometry set, a schema_name matching its pattern, bonds (if any) non-empty with order in [0,5] and well-typed further entries inhabits the declared type Molecule (hasType at fuel n+4), in any environment whose Molecule entry is that declaration"),
    ("QcelVerif.C09Typed.inv_hasType", "the object the constructor builds from ANY record satisfying the record invariant whose bonds (if any) are non-empty with order in [0,5], whatever the caller's keywords, inhabits the declared type: no per-instance hasType check is needed for molecules"),
    ("QcelVerif.C09Typed.molecule_conforms", "hence (root_conforms) the JSON emitted for every such Molecule validates against the generated root schema of Molecule"),
    # --- the other five schema-bearing models (Model/ResultValues.lean, Props/C09Models.lean)
    ("QcelVerif.C09Models.decls_tie", "the hand-written declarations of Identifiers, Provenance, Molecule, HarmonicType, ECPType, ElectronShell, ECPPotential, BasisCenter, BasisSet, DriverEnum, Model, the two protocol enums, ErrorCorrectionProtocol, AtomicResultProtocols, AtomicInput, AtomicResultProperties, WavefunctionProperties, ComputeError, AtomicResult used by the typing theorems ARE the declarations regenerated from the live classes on this run (field names, aliases, types, required flags, allOf wrapping, extra policy, enum members; checked at every build)"),
    ("QcelVerif.C09Models.provenance_hasType", "every Provenance built from a creator, optional version / routine strings and ANY further keywords (arbitrary values, not shadowing the declared names) inhabits the declared type Provenance, in any environment carrying that declaration"),
    ("QcelVerif.C09Models.provenance_conforms", "hence (root_conforms) its emitted JSON validates against the generated root schema of Provenance"),
    ("QcelVerif.C09Models.basis_hasType", "every BasisSet the constructor model accepts (min_items, coefficient-length / fused-contraction / ECP length validators, atom_map keys in center_data, nbf checksum by C20's validateBasis, stripped schema_name) whose shells and potentials are ALSO free of repeated angular momenta and pairwise distinct as emitted JSON (uniq: the hypothesis the published schema adds through uniqueItems) inhabits the declared type BasisSet"),
    ("QcelVerif.C09Models.basis_conforms", "hence its emitted JSON validates against the generated root schema of BasisSet"),
    ("QcelVerif.C09Models.basis_uniq_needed", "KNOWN FINDING C09-basis-uniqueItems at BasisSet level: a basis with one fused shell listing angular momentum 0 twice passes every check of the constructor model, fails uniq, and its emitted JSON is rejected by the generated BasisSet schema at every fuel - uniq cannot be dropped; the finding is exactly the gap between ok and ok+uniq"),
    ("QcelVerif.C09Models.props_hasType", "whenever the validators accept (C20 validateProps: dipoles (3,), quadrupole (3,3), gradients (natom,3), hessians (3natom,3natom)) keywords that are declared int / float / array fields of the right kind (a Python int given for a float field is coerced), the AtomicResultProperties instance inhabits the declared type"),
    ("QcelVerif.C09Models.props_conforms", "hence its emitted JSON validates against the generated root schema of AtomicResultProperties"),
    ("QcelVerif.C09Models.atomicInput_hasType", "every AtomicInput built from a well-formed Molecule object (C09Typed.WellFormed + typed identifiers / provenance; any id / extras), a driver, a Model (method, optional basis name or BasisSet keywords meeting ok+uniq, any further attributes), optional keywords / extras (ANY values), protocols (incl. error-correction policies), provenance and a schema_name matching its pattern after strip inhabits the declared type AtomicInput"),
    ("QcelVerif.C09Models.atomicInput_conforms", "hence its emitted JSON validates against the generated root schema of AtomicInput"),
    ("QcelVerif.C09Models.atomicResult_hasType", "whenever the validators accept (C20: validateProps, _wavefunction_protocol + WavefunctionProperties validators, return_result reshape per driver; stdout / native_files protocols) a well-formed AtomicResult input (as AtomicInput, plus provenance present, property kinds, supplied arrays of rank >= 1, schema_name one of the two accepted names) whose embedded basis sets meet uniq, the instance inhabits the declared type AtomicResult - all four drivers, wavefunction / protocols / error blocks present or absent, ANY values in keywords / extras / native_files / the dict form of return_result"),
    ("QcelVerif.C09Models.atomicResult_conforms", "hence its emitted JSON validates against the generated root schema of AtomicResult"),
    ("QcelVerif.C09Models.wfn_shapes_nonempty", "whatever the wavefunction protocol keeps and the validators reshape (C20's wfnField, unchanged), every array the resulting WavefunctionProperties holds has rank >= 1 if every supplied one had"),
    ("QcelVerif.C09Models.rank0_array_counterexample", "the rank >= 1 demand is needed where no validator reshapes: a rank-0 localized_fock_a passes C20's validator untouched, is emitted as a bare number, and the schema's type:array rejects it at every fuel"),
    ("QcelVerif.C09Hash.revalidate_same_hash_partial", "PARTIAL: re-validating the sparse dict() has the same hash IF from_schema maps it to a record with the same hash fields and the held geometry, and float_prep is idempotent on it (from_arrays on sparse input is a hypothesis)"),
    ("QcelVerif.MolSchema.src_translated", "the translator harness/c09_src.py recognised every statement of to_schema (dtype 1/2 branch), from_schema and _filter_defaults on this run (otherwise it emits inert terms and this fails)"),
    ("QcelVerif.MolSchema.src_toSchema_eq", "for EVERY record, dtype 1 and 2, every np_out and copy flag (units='Bohr'): the generic evaluator at the term re-read from to_schema.py returns a dictionary whose 19 molecule keys, schema_name, schema_version and dtype-1 nesting are exactly the hand model's toSchema (key routing, unit chain with the input_units_to_au / conversion_factor choice, nat, name default, guards), and the caller's record still holds its own geometry"),
    ("QcelVerif.MolSchema.src_toSchema_total", "hence the source-derived to_schema never raises on a record and its decoded result is toSchema (existential form used by the headlines)"),
    ("QcelVerif.MolSchema.src_toSchema_bad_dtype", "an integer dtype other than the ones listed in the source (1, 2) makes the source-derived to_schema raise ValidationError"),
    ("QcelVerif.MolSchema.src_toSchema_keys", "the keys the source writes into the molecule dictionary are the hand model's 19 plus provenance, each once, in the source's order"),
    ("QcelVerif.MolSchema.src_fromSchema_eq", "for EVERY schema dictionary (any name / version / nesting, any subset of the 19 keys): the generic evaluator at the term re-read from from_schema.py (name/version chain, fragment pattern default, every keyword of the contiguize_from_fragment_pattern and from_arrays calls with [k] vs .get(k, None)) yields exactly the hand model's fromSchemaArgs - same from_arrays arguments, same exception class; contiguize's BODY is the hand model"),
    ("QcelVerif.MolSchema.src_fromArrays_constants", "the source passes units='Bohr', input_units_to_au=None, domain='qm', speclabel=False to from_arrays, throw_reorder=True to contiguize, overwrites provenance with its own stamp, and to_schema applies unnp exactly when np_out is false"),
    ("QcelVerif.MolSchema.src_roundtrip_args_partial", "PARTIAL: under the record invariant, source-derived from_schema applied to what source-derived to_schema returned (v = 1, 2; any np_out / copy) hands from_arrays the record's own arrays, recovered separators and exported geometry; the dictionary is passed between the two evaluators through decode/encode (19 keys + name/version/nesting) - that from_schema reads no other entry is not a theorem"),
    ("QcelVerif.MolSchema.src_exported_geometry_bohr", "the geometry entry the source-derived to_schema writes (nested for v1, top level for v2) is exportGeom: the stored geometry, times the record's input_units_to_au or the default factor when stored in Angstrom"),
    ("QcelVerif.MolSchema.src_filterDefaults_eq", "for EVERY molecule dictionary and every default-mass table: the generic evaluator at the term re-read from _filter_defaults (molecule.py: nat, default_mass, each pop and each guarded group of pops in order, each guard with the key it compares) returns exactly the hand model's MolDict.filterDefaults - same dictionary, same KeyError cases"),
]
TRANSLATORS = [gen_schema.main, gen_molschema_src]
TRUSTED_BASE = [
    "Lean 4.33 kernel; axioms of every theorem audited on every run (subset of propext, Classical.choice, Quot.sound)",
    "pydantic-v1 (validation/coercion producing the in-memory instance; Model.schema() generation) is a PARAMETER: hand model schemaOf/declSchema of its generation rules for the occurring subset, tied per run by `declSchema(env) = exported` (Lean driver op `tie`) and by hasType on every generated instance",
    "hand-written constructor models Model/ResultValues.lean of Provenance, BasisSet (ElectronShell, ECPPotential, BasisCenter), AtomicResultProperties, AtomicInput (Model, AtomicResultProtocols, ErrorCorrectionProtocol, Identifiers, the Molecule OBJECT) and AtomicResult (WavefunctionProperties, ComputeError): what pydantic + the validators of basis.py / results.py / common_models.py leave in the set fields for well-formed keywords (int -> float coercion, strip / cast of schema_name, nbf checksum, array reshapes and the wavefunction / stdout / native_files protocols through C20's Model/Protocols.lean, reused unchanged). Tied per instance by the driver op `build`: the keywords of every generated instance (Model/ResultKwargs.lean decodes them; strict) -> ok must hold, emit(value(keywords)) must equal Model.json(exclude_unset, exclude_none) exactly (ints and floats apart), uniq must hold exactly when no uniqueItems keyword fails under python-jsonschema, ok & uniq must give hasType and a valid document. Array SHAPES are not part of the emitted JSON and are tied by C20, not here",
    "in the `build` keywords the harness (norm_kwargs) converts numeric strings / ints of basis exponents and coefficients with CPython float() (pydantic's str -> float coercion is float(); not modelled), array keywords with np.asarray(dtype=float), and replaces the molecule keywords of AtomicInput / AtomicResult by the Molecule object the instance holds (how keywords become that object is Model/MolDict.lean, tied by the op `construct`)",
    "tools/gen_schema.py: re-encodes Model.__fields__ as Ty terms and Model.schema() as Schema terms; drops annotation keywords (title, description, default, shape, units, $schema); picks the two schema_extra edit forms of models/basis.py from the exported schema (recorded in evidence)",
    "hand-written models Model/Schema.lean (emit = ProtoModel.dict + pydantic _iter + JSONArrayEncoder; Draft-04 validator for the occurring keywords; tiny matcher for the three `^(…)$` patterns) and Model/MolSchema.lean (to_schema.py:40-112, from_schema.py:27-190; its toSchema and fromSchemaArgs are now PROVED equal to the terms regenerated from the source, see the next entry - what stays hand-written and differential there is contiguize, the body of contiguize_from_fragment_pattern), tied by differential correspondence incl. perturbed (invalid) documents against python-jsonschema",
    "translator gen_molschema_src in harness/c09_src.py (python `ast` of molparse/to_schema.py, molparse/from_schema.py, models/molecule.py -> lean/QcelVerif/Gen/MolSchemaSrc.lean): statement order, branch order and every key string of to_schema's dtype-1/2 branch, from_schema up to the from_arrays call and _filter_defaults are translated; anything outside the small syntax of Model/MolSchemaAst.lean raises (broken obligation) and leaves inert terms with translationOk := false, so Props/C09Src.lean fails with it. Trusted: that it maps each recognised python shape to the constructor documented for it; the evaluator's reading of those constructors (np.array / .tolist() / deepcopy / unnp keep the VALUES and evaluate as the identity: container types and aliasing of anything but the geometry are not represented and stay with the harness oracle np_out / record_modified; `geom *= f` on np.array(x, copy=False) of an ndarray writes through to the caller); the key names of Molrec / MolDict / Contig as python dictionaries (recDict, encMol, decodeMol, contigDict); provenance is an opaque value handed through. For _filter_defaults the evaluator (Model/MolDictAst.lean) works on the hand model's MolDict with keys addressed by name (encMol for reads, popField for pops: trusted naming) and is proved equal to MolDict.filterDefaults (Props/C09SrcFilter.lean); the REST of Molecule.__init__ around it (schema_name / version defaults, the to_schema(from_schema(kwargs)) call with copy=False / np_out=True, {**kwargs, **schema}, title-casing, float_prep) stays the hand model Model/MolDict.lean + the driver op `construct`",
    "hand-written model Model/MolDict.lean of Molecule.__init__ / _filter_defaults / {**kwargs, **schema} / dict() / the accessors (molecule.py:334-384, 449-509, 592-595, 1489-1513), tied by the driver op `construct` on generated keywords: the 19 modelled dict() entries exactly (geometry through the exact model of np.around: rndDouble products/quotients, zero band), the remaining keys (schema_name/version, provenance, extras, identifiers, id) by a rule stated in harness/c09.py:check_construct, and Molecule(**mol.dict()).dict() == mol.dict(); the embedding MolDict.molVal of that object as an in-memory value is tied by emit(molVal) == Molecule.json() (provenance/extras/identifiers/id aside) and hasType = T on every construction; pydantic's coercions (list -> ndarray, int -> float) are the identity on exact values and are not represented",
    "from_arrays is a parameter of the C09 models (Model/MolSchema.lean, Model/MolDict.lean): in the driver its value is what the implementation's from_schema returned; in Props/C09Hash.lean it is C04's model (faOfC04) under C04's hypotheses (Inv, >= 1 atom, hgeo, hre; bridge scope: exact products, non-negative separators). Molecule.get_hash is C11's model: SHA-1 and float printing abstract; to_mass, float_prep (one coordinate) and str.title are parameters of the hash theorems (the driver runs concrete ones)",
    "hypotheses of molecule_canon_of_record that are not proved from C04: `agreesB` (where _filter_defaults dropped the schema's entry of a hash key the caller spelled out, the caller's entry is the one from_arrays handed back; no caller bonds when the record has none) and `singleOkB` (one-fragment records list the molecular charge/multiplicity as the fragment's - false for the open finding C05-molecule-from-string-single-fragment-mult); both are evaluated by the driver on every generated construction (agreesB false = mismatch; singleOkB counted)",
    "re-validation of a Molecule's own SPARSE dict() (route `revalidate`: from_arrays must re-derive the dropped defaults) is proved only under that hypothesis (revalidate_same_hash_partial); the from_data / json routes are differential (oracle) only",
    "harness/c09.py generators, encoders and the Python oracle; python-jsonschema 4.x Draft4Validator as the reference validator",
]
ASSUMPTIONS = [
    "finite floats only (NaN/inf are not JSON); str dict keys; values in Any-typed slots are None/bool/int/float/str/list/dict/ndarray",
    "instances are built through the public constructors (validation on), plus Molecule(validate=False) on already valid data; 0-atom molecules do not exist (from_arrays refuses them)",
    "to_schema with units='Bohr' and dtype 1 or 2 (dtype 'psi4' and Angstrom export are outside C09)",
    "string route stream: only texts molparse.from_string accepts are evaluated (refused texts are not valid molecules); only the masses are compared there (Molecule.from_data(text).masses vs from_string(text)['qm']['mass'], exactly)",
    "np_out only changes container types (and, in the source-derived evaluator, could change a key: proved not to, src_toSchema_eq holds for both values); container types themselves are not represented in the Lean models (both settings are compared by the harness)",
    "Model/ResultValues.lean: keyword input as the generators produce it - declared keywords of the declared kind (str / int / float-or-int / bool / enum member / list / dict), nested models as keyword dicts, array keywords of rank >= 1 (a rank-0 value for the one unreshaped array field pair localized_fock_a/b is accepted by the constructor and emitted as a bare number: rank0_array_counterexample; not generated), ASCII whitespace / case in schema_name, str dict keys; a keyword given as None for an Optional field is read as absent; WavefunctionProperties pointers (orbitals_a, ...) name array fields; instances passed as already-built sub-model objects other than the molecule are outside the constructor models (the generic `conf` check still covers them)",
    "Model/MolDict.lean: validating construction with orient=False, schema_version 2 (version 1 has no nested 'molecule' entry: KeyError, modelled; other versions: ValidationError), ASCII symbols; orient=True, geometry_noise != 8, nonphysical=True and Molecule(validate=False) without a validated flag are outside the model; Molecule-level hash theorem for dtype 2 (a dtype-1 dictionary is not a Molecule keyword set; dtype 1 is covered at record level)",
]
RULE = (
    "instances: generated constructor kwargs for the six models (Provenance with extras; Molecule 1-7 atoms with optional "
    "ghosts/labels/masses/connectivity/1-3 contiguous fragments/identifiers/extras, validated or validate=False; BasisSet "
    "spherical|cartesian x segmented|general|fused x ECP scalar|spinorbit; AtomicInput/AtomicResult over the 4 drivers with "
    "optional protocols, wavefunction (5 protocols, restricted or not), properties, stdout/native_files protocols, error); each "
    "instance -> hasType, emit, validate (Lean) vs json()/jsonschema (implementation); plus 3-6 single-point perturbations of "
    "every emitted document validated by both validators; molrecs from from_arrays (Bohr|Angstrom, with/without "
    "input_units_to_au) x dtype {1,2} x np_out {T,F}; malformed schema dicts (names/versions, interleaved/skipping/offset/empty "
    "patterns, wrong-length arrays, short geometry); Molecule keyword sets for the constructor model (1-6 atoms; defaults the caller "
    "spells out - masses, real, atom_labels, atomic/mass numbers, one all-atom fragment -, masses within 1e-5..1e-7 of the defaults, "
    "lower/upper-case symbols, coordinates inside/at the edge of float_prep's zero band and beyond the 8th decimal, validated=False, "
    "schema_version 1/3 refusals) -> dict() keys and values vs the model, Molecule(**dict()).dict() identical. A case is distinct by (model, set of emitted key paths, array ranks) or by "
    "(outcome class, fragment shape) and non-trivial when it has an optional block, an alias, an array, or is refused. Every generated instance of the "
    "five non-Molecule models also goes through the constructor models (op `build`, from its KEYWORDS); Any / Dict[str, Any] slots (keywords, extras, "
    "Provenance / Model extra attributes, native_files, ComputeError.extras, Molecule.id, the dict form of return_result) carry nested random values "
    "(None inside dicts and lists, lists of dicts, ndarrays, ints next to floats, non-ASCII / empty keys). Every molrec x dtype x np_out case and every "
    "(malformed) schema dictionary is also sent to the SOURCE-DERIVED voice (ops srctoschema / srcfromschema: the evaluator at the terms re-read from the source on "
    "this run, with the copy flag of that very call) and compared three ways: source-derived = hand model textually, hand model ~ implementation, and the geometry "
    "the caller's record holds after the call. String route (last stream): 1-3 atom texts, mostly carbon (the one element whose default mass is "
    "an exact integer), atoms optionally carrying `@mass` within 4e-4 of the default -> Molecule.from_data(text).masses must be from_string(text)'s masses exactly."
)
LEVEL_TEXT = (
    "proof, partial: conformance is proved for every value of every declared type against the generated schema, and the generated "
    "schema is checked equal to the exported one on every run; that pydantic's runtime values inhabit the declared types is checked "
    "per generated instance (hasType), not proved. Translation round trip is proved at record level with from_arrays as a parameter, and "
    "with C04's from_arrays model plugged in (bridge). Molecule level: the constructor around the schema functions (_filter_defaults, "
    "merge, title, float_prep, dict(), accessors) is modelled and tied exactly on generated keywords; dict_fixed_point (rebuild (dict m) = m) "
    "is proved without hypotheses; dict_roundtrip_same_hash (the Molecule rebuilt with validation from to_schema(r, 2) has the hash of every "
    "Molecule built from keywords mapped to r, and is ==) is proved from C04's schema_roundtrip + C11's hash_of_canon under C04's hypotheses "
    "plus two checked-per-case provisos (agreesB, singleOkB) and with to_mass / float_prep / SHA-1 / float printing as parameters. Still "
    "partial / differential only: re-validation of the sparse dict() (from_arrays on sparse input is a hypothesis), the from_data and json "
    "routes, orient=True. hasType: proved for every validated Molecule (inv_hasType, so emit_conforms applies to all of them without a per-instance "
    "check; the hand declaration is re-tied to the regenerated one at every build). For the other five models hasType and conformance are now PROVED for "
    "every well-formed keyword input of the constructor models (provenance_/basis_/props_/atomicInput_/atomicResult_hasType and _conforms; values in Any slots "
    "arbitrary; declarations re-tied by decls_tie at every build; array shapes by C20's shape model); BasisSet and the two models embedding one need the "
    "explicit uniqueness hypothesis uniq, proved necessary (basis_uniq_needed = known finding C09-basis-uniqueItems). What stays differential for them: that "
    "pydantic + the validators really produce value(keywords) (tied per generated instance by emit(value) == Model.json()), float(str) of basis numbers, and "
    "instances built from sub-model OBJECTS instead of keywords (still covered per instance by the generic conf/hasType check). "
    "Source tie (Props/C09Src.lean): the key routing of to_schema (dtype 1 / 2 branch: which molrec key goes to which schema key, unit chain and factor "
    "choice, nat, name default, guards, dtype validation, dtype-1 nesting, independence of np_out and copy, caller's geometry untouched) and of from_schema "
    "(name / version dispatch, fragment-pattern default, [k] vs .get(k, None), every keyword of the contiguize and from_arrays calls, the literals units='Bohr' / "
    "domain='qm') is REGENERATED FROM THE SOURCE on every run and PROVED equal to Model/MolSchema.lean for all records / all dictionaries; the round-trip-arguments "
    "and Bohr-geometry headlines are restated over the source-derived functions (round trip partial: dictionary handed over through decode/encode). "
    "_filter_defaults is regenerated statement by statement and PROVED equal to MolDict.filterDefaults for all dictionaries (Props/C09SrcFilter.lean). "
    "Still hand-modelled / differential: the body of contiguize_from_fragment_pattern, container types (np_out, unnp), provenance, the psi4 dtype, the rest of "
    "Molecule.__init__ around the translators (merge, title, float_prep, dict())."
)
TECHNIQUE = "Lean 4 proof (structural/fuel induction over a type language and a Draft-04 validator; list lemmas for np.split; source -> AST -> equality with the hand model for the schema translators) + per-run schema tie + differential correspondence against pydantic/jsonschema"

KNOWN_KIND = "oracle:conformance_uniqueItems"

# ------------------------------------------------------------------------------------------------------
# encoding for the driver


class Unsupported(Exception):
    pass


def enc_str(s: str) -> str:
    return ".".join(format(ord(c), "x") for c in s)


def dec_str(h: str) -> str:
    return "" if h == "" else "".join(chr(int(x, 16)) for x in h.split("."))


def enc_frac(x: float) -> str:
    if not math.isfinite(x):
        raise Unsupported("non-finite float")
    f = Fraction(x)
    return f"{f.numerator}/{f.denominator}"


def enc_val(x) -> str:
    """In-memory value -> Val (model instances with their __dict__ and __fields_set__)."""
    import enum

    from pydantic.v1 import BaseModel

    if x is None:
        return "N;"
    if isinstance(x, (bool, np.bool_)):
        return "T;" if x else "F;"
    if isinstance(x, enum.Enum):
        return enc_val(x.value)
    if isinstance(x, (int, np.integer)):
        return f"I{int(x)};"
    if isinstance(x, (float, np.floating)):
        return f"R{enc_frac(float(x))};"
    if isinstance(x, str):
        return f"S{enc_str(str(x))};"
    if isinstance(x, np.ndarray):
        flat = x.ravel().tolist()
        return f"A{x.ndim};" + "".join(f"{d};" for d in x.shape) + f"{len(flat)};" + "".join(enc_val(v) for v in flat)
    if isinstance(x, (list, tuple)):
        return f"L{len(x)};" + "".join(enc_val(v) for v in x)
    if isinstance(x, dict):
        for k in x:
            if not isinstance(k, str):
                raise Unsupported("non-str key")
        return f"D{len(x)};" + "".join(f"S{enc_str(k)};" + enc_val(v) for k, v in x.items())
    if isinstance(x, BaseModel):
        fs = x.__fields_set__
        items = list(x.__dict__.items())
        return (
            f"O{enc_str(type(x).__name__)};{len(items)};"
            + "".join(f"S{enc_str(k)};" + ("" if k in fs else "U") + enc_val(v) for k, v in items)
        )
    raise Unsupported(type(x).__name__)


def enc_json(x) -> str:
    """Parsed JSON (json.loads) -> Json."""
    if x is None:
        return "n;"
    if isinstance(x, bool):
        return "t;" if x else "f;"
    if isinstance(x, int):
        return f"i{x};"
    if isinstance(x, float):
        return f"r{enc_frac(x)};"
    if isinstance(x, str):
        return f"s{enc_str(x)};"
    if isinstance(x, list):
        return f"a{len(x)};" + "".join(enc_json(v) for v in x)
    if isinstance(x, dict):
        return f"o{len(x)};" + "".join(f"s{enc_str(k)};" + enc_json(v) for k, v in x.items())
    raise Unsupported(type(x).__name__)


def canon(x):
    """Parsed JSON -> comparable form (floats exact, ints and floats kept apart)."""
    if isinstance(x, bool) or x is None or isinstance(x, str):
        return x
    if isinstance(x, int):
        return ("i", x)
    if isinstance(x, float):
        return ("f", Fraction(x))
    if isinstance(x, list):
        return [canon(v) for v in x]
    if isinstance(x, dict):
        return {k: canon(v) for k, v in x.items()}
    raise Unsupported(type(x).__name__)


def parse_model_json(s: str):
    """Driver's Json text -> the same comparable form."""
    pos = 0

    def tok():
        nonlocal pos
        j = s.index(";", pos)
        t = s[pos:j]
        pos = j + 1
        return t

    def val():
        nonlocal pos
        c = s[pos]
        pos += 1
        if c == "n":
            tok()
            return None
        if c == "t":
            tok()
            return True
        if c == "f":
            tok()
            return False
        if c == "i":
            return ("i", int(tok()))
        if c == "r":
            p, q = tok().split("/")
            return ("f", Fraction(int(p), int(q)))
        if c == "s":
            return dec_str(tok())
        if c == "a":
            n = int(tok())
            return [val() for _ in range(n)]
        if c == "o":
            n = int(tok())
            out = {}
            for _ in range(n):
                assert s[pos] == "s"
                pos += 1
                k = dec_str(tok())
                if k in out:
                    raise ValueError("duplicate key in emitted object: " + k)
                out[k] = val()
            return out
        raise ValueError("bad json text at %d" % pos)

    v = val()
    if pos != len(s):
        raise ValueError("trailing text")
    return v


# ------------------------------------------------------------------------------------------------------
# generators (constructor kwargs are JSON-able; {"__nd__": [...]} is revived to an ndarray)

ELEMS = ["H", "He", "Li", "C", "N", "O", "F", "Ne", "Na", "S", "Cl", "Ar", "Fe", "Br"]
HEAVY = ["I", "Xe", "Cs", "Ba", "Au", "Pb", "U", "Rn"]  # mass numbers >= 127 (drawn with p=0.12 per molecule)
_ISOS = {}


def isotopes_of(sym):
    """mass numbers the periodic table knows for an element"""
    if sym not in _ISOS:
        from qcelemental import periodictable
        import re as _re

        _ISOS[sym] = sorted(int(k[len(sym):]) for k in periodictable._eliso2mass if _re.fullmatch(sym + r"\d+", k))
    return _ISOS[sym]
WORDS = ["", "a", "b3lyp", "cc-pVDZ", "x y", "é", "Q\"q", "line\nbreak", "0", "none"]


def revive(x):
    if isinstance(x, dict):
        if set(x) == {"__nd__"}:
            return np.array(x["__nd__"])
        return {k: revive(v) for k, v in x.items()}
    if isinstance(x, list):
        return [revive(v) for v in x]
    return x


def rfloat(rng):
    c = rng.random()
    if c < 0.15:
        return float(rng.randint(-3, 3))
    if c < 0.25:
        return rng.choice([1e-12, -2.5e10, 0.1, -0.0, 1 / 3])
    return round(rng.uniform(-10, 10), rng.choice([1, 4, 12]))


def rany(rng, depth=0):
    c = rng.random()
    if depth > 2 or c < 0.55:
        return rng.choice([None, True, False, rng.randint(-5, 99), rfloat(rng), rng.choice(WORDS)])
    if c < 0.75:
        return [rany(rng, depth + 1) for _ in range(rng.randint(0, 3))]
    if c < 0.93:
        return {rng.choice(WORDS) + str(i): rany(rng, depth + 1) for i in range(rng.randint(0, 3))}
    shape = rng.choice([(2,), (2, 2), (1, 3)])
    n = int(np.prod(shape))
    return {"__nd__": np.array([rfloat(rng) for _ in range(n)]).reshape(shape).tolist()}


def gen_provenance(rng):
    kw = {"creator": rng.choice(["QCElemental", "psi4", "me", ""])}
    if rng.random() < 0.5:
        kw["version"] = rng.choice(["", "1.0", "v0.28.0+dev"])
    if rng.random() < 0.4:
        kw["routine"] = rng.choice(["", "module.fn"])
    for i in range(rng.choice([0, 0, 1, 2])):
        kw[rng.choice(["wall_time", "nthreads", "note", "creator_extra"]) + ("" if i == 0 else str(i))] = rany(rng)
    return kw


def gen_geom(rng, n):
    pts = []
    while len(pts) < n:
        p = [round(rng.uniform(-4, 4), rng.choice([2, 6, 12])) for _ in range(3)]
        if all(sum((a - b) ** 2 for a, b in zip(p, q)) > 1.2 for q in pts):
            pts.append(p)
    return pts


def gen_molecule(rng, nmax=7, minimal_p=0.15):
    n = rng.randint(1, nmax)
    pool = ELEMS + HEAVY if rng.random() < 0.12 else ELEMS
    syms = [rng.choice(pool) for _ in range(n)]
    pts = gen_geom(rng, n)
    form = rng.random()
    geom = [c for p in pts for c in p] if form < 0.5 else pts
    kw = {"symbols": syms, "geometry": geom}
    if rng.random() < minimal_p:
        return kw
    if rng.random() < 0.4:
        kw["name"] = rng.choice(WORDS)
    if rng.random() < 0.2:
        kw["comment"] = rng.choice(WORDS)
    if rng.random() < 0.35:
        real = [rng.random() > 0.3 for _ in range(n)]
        kw["real"] = real
    if rng.random() < 0.3:
        kw["atom_labels"] = [rng.choice(["", "1", "a", "_x"]) for _ in range(n)]
    if rng.random() < 0.25:
        # heavier isotope for hydrogens / explicit masses (nonstandard masses survive _filter_defaults)
        from qcelemental import periodictable

        kw["masses"] = [periodictable.to_mass(s) * rng.choice([1.0, 1.0, 1.001]) for s in syms]
    elif rng.random() < 0.2:
        # named isotopes (mass NUMBERS, masses derived by the library): any nuclide of the table, default or not
        kw["mass_numbers"] = [rng.choice(isotopes_of(s)) if rng.random() < 0.6 else -1 for s in syms]
        if all(a == -1 for a in kw["mass_numbers"]):
            kw["mass_numbers"][0] = isotopes_of(syms[0])[-1]
    if n >= 2 and rng.random() < 0.4:
        bonds = set()
        for _ in range(rng.randint(1, min(4, n))):
            a, b = rng.sample(range(n), 2)
            bonds.add((a, b) if rng.random() < 0.5 else (b, a))
        seen, conn = set(), []
        for a, b in bonds:
            if (min(a, b), max(a, b)) in seen:
                continue
            seen.add((min(a, b), max(a, b)))
            conn.append([a, b, rng.choice([1, 2, 1.5, 0.5, 3.0, 5, 0])])
        kw["connectivity"] = conn
    if n >= 2 and rng.random() < 0.45:
        k = rng.randint(2, min(3, n))
        cuts = sorted(rng.sample(range(1, n), k - 1))
        frs, lo = [], 0
        for c in cuts + [n]:
            frs.append(list(range(lo, c)))
            lo = c
        kw["fragments"] = frs
        if rng.random() < 0.5:
            # neutral closed/open shell per fragment, consistent by construction: let qcel complete the rest
            kw["fragment_charges"] = [float(rng.choice([0, 0, 1, -1])) for _ in frs]
            if rng.random() < 0.3:
                # fractional fragment charges (their float sum is the molecular charge, whatever binary round-off it carries)
                kw["fragment_charges"] = [rng.choice([0.1, 0.2, 0.7, -0.3, 0.25, -0.1, 0.0, 1.1]) for _ in frs]
    elif rng.random() < 0.3:
        kw["molecular_charge"] = rng.choice([0, 1, -1, 2.0])
    if rng.random() < 0.3:
        kw["fix_com"] = rng.random() < 0.7
    if rng.random() < 0.3:
        kw["fix_orientation"] = rng.random() < 0.7
    if rng.random() < 0.15:
        kw["fix_symmetry"] = rng.choice(["c1", "c2v", "d2h"])
    if rng.random() < 0.2:
        kw["identifiers"] = {k: rng.choice(WORDS) for k in rng.sample(["smiles", "inchi", "pubchem_cid", "molecular_formula", "molecule_hash"], rng.randint(0, 3))}
    if rng.random() < 0.25:
        kw["extras"] = {rng.choice(WORDS) + str(i): rany(rng) for i in range(rng.randint(0, 2))}
    if rng.random() < 0.15:
        kw["id"] = rng.choice([7, "abc", None, [1, 2], {"k": 1.5}])
    if rng.random() < 0.15:
        kw["provenance"] = gen_provenance(rng)
    return kw


def gen_shell(rng, dup_am=False):
    nprim = rng.randint(1, 3)
    kind = rng.choice(["seg", "general", "fused"])
    if kind == "fused":
        am = rng.choice([[0, 1], [0, 1, 2], [1, 2]])
        if dup_am:
            am = rng.choice([[0, 0], [1, 1, 2]])
        ncoef = len(am)
    elif kind == "general":
        am, ncoef = [rng.randint(0, 4)], rng.randint(2, 3)
    else:
        am, ncoef = [rng.randint(0, 5)], 1
    num = (lambda: rng.choice([rfloat(rng), str(round(rng.uniform(0.01, 50), 4)), rng.randint(1, 9)]))
    return {
        "angular_momentum": am,
        "harmonic_type": rng.choice(["spherical", "cartesian"]),
        "exponents": [abs(rfloat(rng)) + 0.01 if rng.random() < 0.8 else num() for _ in range(nprim)],
        "coefficients": [[num() for _ in range(nprim)] for _ in range(ncoef)],
    }


def gen_ecp(rng):
    nr = rng.randint(1, 3)
    return {
        "ecp_type": rng.choice(["scalar", "spinorbit"]),
        "angular_momentum": [rng.randint(0, 4)],
        "r_exponents": [rng.randint(0, 2) for _ in range(nr)],
        "gaussian_exponents": [abs(rfloat(rng)) + 0.1 for _ in range(nr)],
        "coefficients": [[rfloat(rng) for _ in range(nr)] for _ in range(rng.randint(1, 2))],
    }


def gen_basis(rng, natom=None, dup=None):
    ncen = rng.randint(1, 3)
    names = [f"{rng.choice(ELEMS)}_{i}" for i in range(ncen)]
    centers = {}
    for i, nm in enumerate(names):
        shells = [gen_shell(rng, dup_am=(dup == "am" and i == 0)) for _ in range(rng.randint(1, 3))]
        if dup == "shell" and i == 0:
            shells.append(copy.deepcopy(shells[0]))
        c = {"electron_shells": shells}
        if rng.random() < 0.35 or (dup == "ecp" and i == 0):
            c["ecp_electrons"] = rng.choice([2, 10, 28])
            c["ecp_potentials"] = [gen_ecp(rng) for _ in range(rng.randint(1, 2))]
            if dup == "ecp" and i == 0:
                c["ecp_potentials"].append(copy.deepcopy(c["ecp_potentials"][0]))
        elif rng.random() < 0.2:
            c["ecp_electrons"] = 0
        centers[nm] = c
    na = natom if natom is not None else rng.randint(1, 4)
    kw = {"name": rng.choice(["sto-3g", "custom", ""]), "center_data": centers, "atom_map": [rng.choice(names) for _ in range(na)]}
    if rng.random() < 0.3:
        kw["description"] = rng.choice(WORDS)
    if rng.random() < 0.2:
        kw["schema_version"] = 1
    if rng.random() < 0.15:
        kw["schema_name"] = " qcschema_basis "
    return kw


def nfunc(shell):
    if shell["harmonic_type"] == "spherical":
        return sum(2 * L + 1 for L in shell["angular_momentum"])
    return sum((L + 1) * (L + 2) // 2 for L in shell["angular_momentum"])


def basis_nbf(b):
    per = {k: sum(nfunc(s) for s in c["electron_shells"]) for k, c in b["center_data"].items()}
    return sum(per[a] for a in b["atom_map"])


def gen_protocols(rng, wfn=None):
    p = {}
    if wfn is not None:
        p["wavefunction"] = wfn
    elif rng.random() < 0.3:
        p["wavefunction"] = "none"
    if rng.random() < 0.4:
        p["stdout"] = rng.random() < 0.5
    if rng.random() < 0.3:
        ec = {}
        if rng.random() < 0.6:
            ec["default_policy"] = rng.random() < 0.5
        if rng.random() < 0.6:
            ec["policies"] = {rng.choice(["a", "b", "scf"]): rng.random() < 0.5 for _ in range(rng.randint(0, 2))}
        p["error_correction"] = ec
    if rng.random() < 0.4:
        p["native_files"] = rng.choice(["all", "input", "none"])
    return p


def gen_input(rng, driver=None, small_basis=False):
    mol = gen_molecule(rng, nmax=4)
    kw = {"molecule": mol, "driver": driver or rng.choice(["energy", "gradient", "hessian", "properties"])}
    model = {"method": rng.choice(["hf", "B3LYP", "uff", ""])}
    c = rng.random()
    if c < 0.4:
        model["basis"] = rng.choice(["sto-3g", "6-31G*", ""])
    elif c < 0.6:
        model["basis"] = gen_basis(rng)
    elif c < 0.7:
        model["basis"] = None
    if rng.random() < 0.15:
        model["extra_knob"] = rany(rng)
    kw["model"] = model
    if rng.random() < 0.5:
        kw["keywords"] = {rng.choice(["scf_type", "e_conv", "k", ""]) + str(i): rany(rng) for i in range(rng.randint(0, 3))}
    if rng.random() < 0.5:
        kw["protocols"] = gen_protocols(rng)
    if rng.random() < 0.3:
        kw["extras"] = {"x" + str(i): rany(rng) for i in range(rng.randint(0, 2))}
    if rng.random() < 0.3:
        kw["provenance"] = gen_provenance(rng)
    if rng.random() < 0.2:
        kw["id"] = rng.choice(["1", "xyz", None])
    if rng.random() < 0.15:
        kw["schema_name"] = rng.choice(["qcschema_input", "qc_schema_input", " qcschema_input"])
    if rng.random() < 0.15:
        kw["schema_version"] = 1
    return kw


PROP_INT = ["calcinfo_nbasis", "calcinfo_nmo", "calcinfo_nalpha", "calcinfo_nbeta", "scf_iterations", "ccsd_iterations"]
PROP_FLOAT = ["nuclear_repulsion_energy", "return_energy", "scf_total_energy", "scf_xc_energy", "mp2_total_energy", "ccsd_prt_pr_total_energy", "scf_dispersion_correction_energy"]
PROP_DIP = ["scf_dipole_moment", "mp2_dipole_moment", "ccsd_dipole_moment", "ccsdt_dipole_moment"]


def gen_properties(rng, nat):
    kw = {}
    for k in rng.sample(PROP_INT, rng.randint(0, 3)):
        kw[k] = rng.randint(0, 40)
    for k in rng.sample(PROP_FLOAT, rng.randint(0, 4)):
        kw[k] = rng.choice([rfloat(rng), rng.randint(-80, 0)])
    for k in rng.sample(PROP_DIP, rng.randint(0, 2)):
        kw[k] = [rfloat(rng) for _ in range(3)]
    if rng.random() < 0.25:
        q = [rfloat(rng) for _ in range(9)]
        kw["scf_quadrupole_moment"] = q if rng.random() < 0.5 else [q[0:3], q[3:6], q[6:9]]
    if rng.random() < 0.4:
        kw["calcinfo_natom"] = nat
        if rng.random() < 0.7:
            kw[rng.choice(["return_gradient", "scf_total_gradient"])] = [rfloat(rng) for _ in range(3 * nat)]
        if rng.random() < 0.3:
            kw[rng.choice(["return_hessian", "scf_total_hessian"])] = [rfloat(rng) for _ in range(9 * nat * nat)]
    return kw


def gen_wavefunction(rng, nat):
    basis = gen_basis(rng, natom=nat)
    nbf = basis_nbf(basis)
    while nbf > 12:  # keep matrices small
        basis = gen_basis(rng, natom=nat)
        nbf = basis_nbf(basis)
    nmo = rng.randint(1, nbf) if nbf > 0 else 0
    restricted = rng.random() < 0.5
    w = {"basis": basis, "restricted": restricted}
    mat = lambda a, b: [rfloat(rng) for _ in range(a * b)]  # noqa: E731
    spins = ["a"] if rng.random() < 0.5 else ["a", "b"]
    for s in spins:
        if rng.random() < 0.7:
            w[f"scf_orbitals_{s}"] = mat(nbf, nmo)
        if rng.random() < 0.6:
            w[f"scf_eigenvalues_{s}"] = [rfloat(rng) for _ in range(nmo)]
        if rng.random() < 0.4:
            w[f"scf_occupations_{s}"] = [float(rng.choice([0, 1, 2])) for _ in range(nmo)]
        if rng.random() < 0.3:
            w[f"scf_density_{s}"] = mat(nbf, nbf)
        if rng.random() < 0.2:
            w[f"scf_fock_{s}"] = mat(nbf, nbf)
        if rng.random() < 0.15:
            w[f"h_core_{s}"] = mat(nbf, nbf)
    for q in ["orbitals", "eigenvalues", "occupations", "density", "fock"]:
        for s in spins:
            if f"scf_{q}_{s}" in w and rng.random() < 0.6:
                w[f"{q}_{s}"] = f"scf_{q}_{s}"
    return w


def gen_result(rng, driver):
    kw = gen_input(rng, driver=driver)
    nat = len(kw["molecule"]["symbols"])
    kw.pop("schema_name", None)
    if rng.random() < 0.2:
        kw["schema_name"] = rng.choice(["qcschema_output", "qcschema_input"])
    props = gen_properties(rng, nat) if rng.random() < 0.8 else {}
    kw["properties"] = props
    if driver == "energy":
        kw["return_result"] = rng.choice([rfloat(rng), rng.randint(-100, -1)])
    elif driver == "gradient":
        g = [rfloat(rng) for _ in range(3 * nat)]
        kw["return_result"] = g if rng.random() < 0.5 else [g[3 * i : 3 * i + 3] for i in range(nat)]
    elif driver == "hessian":
        kw["return_result"] = [rfloat(rng) for _ in range(9 * nat * nat)]
    else:
        kw["return_result"] = rng.choice([{}, {"dipole": [0.0, 0.1, 0.2], "n": 3, "nested": {"a": None}}, {"mulliken": {"__nd__": [0.1, -0.1]}}, rfloat(rng)])
        if rng.random() < 0.4:
            # Dict[str, Any]: arbitrary nested values (None inside, lists of dicts, ndarrays, ints next to floats)
            kw["return_result"] = {rng.choice(WORDS) + str(i): rany(rng) for i in range(rng.randint(1, 3))}
    if rng.random() < 0.45:
        wfnp = rng.choice(["all", "orbitals_and_eigenvalues", "occupations_and_eigenvalues", "return_results", "none", None])
        kw["wavefunction"] = gen_wavefunction(rng, nat)
        pr = kw.get("protocols", {})
        if wfnp is not None:
            pr["wavefunction"] = wfnp
        kw["protocols"] = pr
    if rng.random() < 0.5:
        kw["stdout"] = rng.choice(["", "output text\nline 2", None])
    if rng.random() < 0.3:
        kw["stderr"] = rng.choice(["", "warn", None])
    if rng.random() < 0.4:
        kw["native_files"] = {k: (rany(rng) if rng.random() < 0.3 else rng.choice(["text", None])) for k in rng.sample(["input", "out.dat", "grid"], rng.randint(0, 2))}
    kw["success"] = rng.random() < 0.8
    if rng.random() < 0.25:
        err = {"error_type": rng.choice(["input_error", "random_error"]), "error_message": rng.choice(WORDS)}
        if rng.random() < 0.5:
            err["extras"] = {"k": rany(rng)}
        kw["error"] = err
    kw["provenance"] = gen_provenance(rng)
    return kw


def build(model: str, kw, flags=None):
    import qcelemental as qcel

    flags = flags or {}
    cls = getattr(qcel.models, model)
    kw = revive(copy.deepcopy(kw))
    with contextlib.redirect_stdout(io.StringIO()):
        if model == "Molecule" and flags.get("revalidate_false"):
            m = cls(**kw)
            return cls(validate=False, **m.dict())
        if model == "Molecule" and flags.get("orient"):
            return cls(orient=True, **kw)
        return cls(**kw)


def gen_instances(ctx: Ctx):
    """yield (stream, model, kwargs, flags)"""
    rng = ctx.rng
    n = ctx.scale(1, 8)
    for _ in range(60 * n):
        yield "provenance", "Provenance", gen_provenance(rng), {}
    for _ in range(260 * n):
        flags = {}
        c = rng.random()
        if c < 0.12:
            flags["revalidate_false"] = True
        elif c < 0.2:
            flags["orient"] = True
        yield "molecule", "Molecule", gen_molecule(rng), flags
    # fractional fragment charges whose float sum carries binary round-off (0.1 + 0.2): the stored total IS that sum
    for _ in range(24 * n):
        kw = gen_molecule(rng, minimal_p=0.0)
        while "fragments" not in kw:
            kw = gen_molecule(rng, minimal_p=0.0)
        kw.pop("molecular_charge", None)
        kw["fragment_charges"] = [rng.choice([0.1, 0.2, 0.7, 0.1, -0.3, 1.1, 0.3]) for _ in kw["fragments"]]
        yield "molecule", "Molecule", kw, ({"revalidate_false": True} if rng.random() < 0.15 else {})
    for _ in range(160 * n):
        yield "basis", "BasisSet", gen_basis(rng), {}
    for _ in range(120 * n):
        nat = rng.randint(1, 3)
        yield "properties", "AtomicResultProperties", gen_properties(rng, nat), {}
    for _ in range(140 * n):
        yield "input", "AtomicInput", gen_input(rng), {}
    for drv in ["energy", "gradient", "hessian", "properties"]:
        for _ in range(75 * n):
            yield "result:" + drv, "AtomicResult", gen_result(rng, drv), {}
    # dedicated low-volume stream: duplicates that the published schema forbids (known finding)
    for _ in range(6 * n):
        yield "basis_dup", "BasisSet", gen_basis(rng, dup=rng.choice(["am", "shell", "ecp"])), {}


# ------------------------------------------------------------------------------------------------------
# schema access, perturbations

_SCHEMAS = {}


def schemas():
    import jsonschema
    import qcelemental as qcel

    if not _SCHEMAS:
        for m in qcel.models.qcschema_models():
            s = json.loads(m.schema_json())
            jsonschema.Draft4Validator.check_schema(s)
            _SCHEMAS[m.__name__] = (s, jsonschema.Draft4Validator(s))
    return _SCHEMAS


def first_error(model, doc):
    import jsonschema

    try:
        jsonschema.validate(doc, schemas()[model][0])
    except jsonschema.ValidationError as e:
        return e
    return None


def paths(doc, pre=()):
    """all (path, value) pairs of a parsed JSON document"""
    yield pre, doc
    if isinstance(doc, dict):
        for k, v in doc.items():
            yield from paths(v, pre + (k,))
    elif isinstance(doc, list):
        for i, v in enumerate(doc[:6]):
            yield from paths(v, pre + (i,))


def set_path(doc, path, fn):
    doc = copy.deepcopy(doc)
    if not path:
        return fn(doc)
    cur = doc
    for p in path[:-1]:
        cur = cur[p]
    r = fn(cur[path[-1]])
    if r is DELETE:
        del cur[path[-1]]
    else:
        cur[path[-1]] = r
    return doc


DELETE = object()


def perturb(rng, doc):
    """one single-point change of a JSON document (the result may or may not still be valid)"""
    ps = list(paths(doc))
    for _ in range(20):
        path, v = rng.choice(ps)
        kind = rng.random()
        if isinstance(v, dict):
            if kind < 0.4 and v:
                k = rng.choice(list(v))
                return ("delkey", set_path(doc, path + (k,), lambda _: DELETE))
            if kind < 0.8:
                return ("addkey", set_path(doc, path, lambda d: {**d, rng.choice(["zz_extra", "masses_", "real"]): rng.choice([1, "s", None, [1.5]])}))
            return ("obj2x", set_path(doc, path, lambda d: rng.choice([[], "str", 3, None])))
        if isinstance(v, list):
            if kind < 0.35 and v:
                return ("dup", set_path(doc, path, lambda l: l + [copy.deepcopy(l[rng.randrange(len(l))])]))
            if kind < 0.55 and v:
                return ("drop", set_path(doc, path, lambda l: l[:-1]))
            if kind < 0.7:
                return ("empty", set_path(doc, path, lambda l: []))
            if kind < 0.85:
                return ("append", set_path(doc, path, lambda l: l + [rng.choice([-1, 2.5, "q", None, True, [1], 0, 0.0])]))
            return ("list2x", set_path(doc, path, lambda l: rng.choice([{}, "s", 1.5])))
        if isinstance(v, bool):
            return ("bool2x", set_path(doc, path, lambda b: rng.choice([0, 1, "true", None, not b])))
        if isinstance(v, int):
            return ("int2x", set_path(doc, path, lambda i: rng.choice([float(i), i + 0.5, -i - 1, str(i), True, None, 6, -1])))
        if isinstance(v, float):
            return ("float2x", set_path(doc, path, lambda f: rng.choice([int(f), str(f), f + 0.5, None, [f], -1.0, 5.5, 5.0, 0])))
        if isinstance(v, str):
            return ("str2x", set_path(doc, path, lambda s: rng.choice([s + "\n", s + "x", "x" + s, s.upper(), "", 3, None, "qc_schema_input", "qcschema_input", "qc__schema_input", "all", s + "\n\n"])))
        if v is None:
            return ("null2x", set_path(doc, path, lambda _: rng.choice([0, "s", {}, []])))
    return ("same", copy.deepcopy(doc))


# ------------------------------------------------------------------------------------------------------
# part (a): instances


def shape_key(model, doc):
    ks = []
    for p, v in paths(doc):
        if len(p) <= 2 and all(isinstance(x, str) for x in p):
            ks.append(".".join(p) + (":" + type(v).__name__[0]))
    return model + "|" + ",".join(sorted(ks))


def classify_conformance(model, e):
    if e is None:
        return None
    sp = list(e.absolute_schema_path)
    if sp and sp[-1] == "uniqueItems" and model in ("BasisSet", "AtomicInput", "AtomicResult"):
        return KNOWN_KIND
    return "oracle:conformance"


def check_instances(ctx: Ctx, out: Outcome, items):
    """items: list of (stream, model, kwargs, flags).  Builds, emits, validates; one `conf` line and a few
    `val` lines per instance go to the driver."""
    rng = ctx.rng
    built = []
    for stream, model, kw, flags in items:
        flags = dict(flags or {})
        prior = flags.pop("__prior_calls", None)
        case = {"stream": "instance", "model": model, "kwargs": kw, "flags": flags}
        if prior:
            case["prior_calls"] = prior
        try:
            inst = build(model, kw, flags)
        except Exception as e:  # generator produced something the constructor refuses: not an instance
            out.count("rejected_by_constructor:" + model + ":" + err_class(e))
            continue
        out.evaluations += 1
        out.count("stream:" + stream)
        # other public serialisation calls made on the instance BEFORE the emission under test (an application dumps parts of
        # a model, then the whole): options passed to one call must not colour any later call, on this or any other instance.
        # Recorded in the case, so a replay repeats them.
        if "prior_calls" not in case and rng.random() < 0.15:
            fs = sorted(getattr(inst, "__fields_set__", ()) or ())
            if fs:
                pick = sorted(rng.sample(fs, min(len(fs), rng.choice([1, 1, 2]))))
                case["prior_calls"] = [[rng.choice(["dict_exclude", "json_exclude", "serialize_exclude", "dict_include"]), pick]]
        for how, names in case.get("prior_calls", []):
            out.count("prior_call:" + how)
            try:
                if how == "dict_exclude":
                    inst.dict(exclude=set(names))
                elif how == "json_exclude":
                    inst.json(exclude=set(names))
                elif how == "serialize_exclude":
                    inst.serialize("json", exclude=set(names))
                elif how == "dict_include":
                    inst.dict(include=set(names))
            except Exception:  # noqa  -- the partial dump itself is not under test
                out.count("prior_call_raised:" + how)
        try:
            text = inst.json(exclude_unset=True, exclude_none=True)
            doc = json.loads(text)
            line = f"conf|{model}|{enc_val(inst)}"
        except Unsupported as e:
            out.count("unsupported:" + str(e))
            continue
        except Exception as e:
            out.violations.append(Finding("oracle:emit_raises", case, observed=err_class(e) + ": " + str(e)[:200], detail="json(exclude_unset, exclude_none) raised on a valid instance"))
            continue
        bline = None
        if model in BUILD_MODELS:
            try:
                bline = build_line(model, kw, inst)
            except Exception as e:  # keywords the encoder cannot carry: counted, not silently passed
                out.count("build_unencodable:" + model + ":" + type(e).__name__)
        built.append((stream, model, case, inst, doc, line, bline))
    lines = [b[5] for b in built]
    blines = [(bi, b[6]) for bi, b in enumerate(built) if b[6] is not None]
    # perturbed documents
    pert = []
    for bi, (stream, model, case, inst, doc, _, _b) in enumerate(built):
        for _ in range(rng.choice([3, 4, 6])):
            kind, d2 = perturb(rng, doc)
            try:
                pert.append((bi, kind, d2, f"val|{model}|{enc_json(d2)}"))
            except Unsupported:
                pass
    model_out = [None] * (len(lines) + len(pert) + len(blines))
    if ctx.model_available:
        model_out = ctx.run_model(DRIVER, lines + [p[3] for p in pert] + [b[1] for b in blines])
    for (bi, _bl), ml in zip(blines, model_out[len(lines) + len(pert):]):
        stream, model, case, inst, doc, _l, _b = built[bi]
        if ml is not None:
            out.evaluations += 1
            check_build(out, model, case, doc, first_error(model, doc), ml)
    for (stream, model, case, inst, doc, _, _b), ml in zip(built, model_out[: len(lines)]):
        e = first_error(model, doc)
        kind = classify_conformance(model, e)
        out.nontrivial(shape_key(model, doc))
        out.count("emitted_keys_total", len(doc))
        if kind:
            out.violations.append(Finding(kind, case, observed={"emitted": doc if len(json.dumps(doc)) < 3000 else "(large)", "error": e.message[:300], "schema_path": [str(x) for x in e.absolute_schema_path]},
                                          detail="emitted JSON of a valid instance does not validate against the published schema"))
        if ("sampled:" + stream) not in out.distribution and len(out.samples) < 5:
            out.distribution["sampled:" + stream] = 1
            out.sample({"model": model, "emitted": text_short(doc), "valid": kind is None, "model_line": (ml or "")[:60]})
        if ml is None:
            continue
        parts = ml.split(" ", 2)
        if len(parts) != 3 or parts[0] not in "TF" or parts[1] not in "TF":
            out.mismatches.append(Finding("mismatch:driver", case, observed=ml[:200], detail="driver could not process the instance"))
            continue
        ht, vv, js = parts
        try:
            mj = parse_model_json(js)
        except Exception as ex:
            out.mismatches.append(Finding("mismatch:emit", case, observed=str(ex), detail="model emit not parseable"))
            continue
        if mj != canon(doc):
            out.mismatches.append(Finding("mismatch:emit", case, observed=text_short(doc), expected=js[:400], detail="Model.json(exclude_unset, exclude_none) differs from the model's emit (first differing key: %s)" % first_diff(mj, canon(doc))))
        if (vv == "T") != (e is None):
            out.mismatches.append(Finding("mismatch:validate", case, observed="jsonschema " + ("valid" if e is None else "invalid: " + e.message[:200]), expected="lean validate " + vv, detail="Lean validator and python-jsonschema disagree on the emitted document"))
        if ht == "T" and e is not None:
            out.mismatches.append(Finding("mismatch:theorem_instance", case, observed=e.message[:200], detail="hasType holds but the document is invalid (contradicts emit_conforms unless the tie is broken)"))
        if ht == "F" and e is None:
            out.mismatches.append(Finding("mismatch:hasType", case, observed="instance valid under jsonschema", detail="runtime value does not inhabit the declared (extracted) type"))
        out.count(f"hasType={ht},valid={vv}")
    for (bi, kind, d2, _), ml in zip(pert, model_out[len(lines) : len(lines) + len(pert)]):
        stream, model, case, inst, doc, _l, _b = built[bi]
        ok = schemas()[model][1].is_valid(d2)
        out.evaluations += 1
        out.count(f"perturb:{kind}:{'valid' if ok else 'invalid'}")
        if ml is not None and ml != ("T" if ok else "F"):
            e2 = first_error(model, d2)
            out.mismatches.append(Finding("mismatch:validate_perturbed", {"stream": "document", "model": model, "document": d2}, observed="jsonschema " + ("valid" if ok else "invalid: " + (e2.message[:200] if e2 else "")), expected="lean " + ml, detail=f"validators disagree on a perturbed ({kind}) document"))
    return built


# ------------------------------------------------------------------------------------------------------
# constructor models of the five non-Molecule models (Model/ResultValues.lean, driver op `build`)

BUILD_MODELS = ("Provenance", "BasisSet", "AtomicResultProperties", "AtomicInput", "AtomicResult")
PROP_ARRAYS = {"return_gradient", "return_hessian", "scf_dipole_moment", "scf_quadrupole_moment", "scf_total_gradient", "scf_total_hessian",
               "mp2_dipole_moment", "ccsd_dipole_moment", "ccsd_prt_pr_dipole_moment", "ccsdt_dipole_moment", "ccsdtq_dipole_moment"}
WFN_ARRAYS = {b + s for b in ("h_core", "h_effective", "scf_orbitals", "scf_density", "scf_fock", "scf_eigenvalues", "scf_occupations",
                              "scf_coulomb", "scf_exchange", "localized_orbitals", "localized_fock") for s in ("_a", "_b")}


def _farr(v):
    return np.asarray(v, dtype=float)


def norm_basis(b):
    """keyword form the Lean decoder reads: List[float] entries as the float pydantic stores (float(str), float(int))"""
    b = dict(b)
    cd = {}
    for name, c in b["center_data"].items():
        c = dict(c)
        shells = []
        for sh in c["electron_shells"]:
            sh = dict(sh)
            sh["exponents"] = [float(x) for x in sh["exponents"]]
            sh["coefficients"] = [[float(x) for x in row] for row in sh["coefficients"]]
            shells.append(sh)
        c["electron_shells"] = shells
        if c.get("ecp_potentials") is not None:
            eps = []
            for e in c["ecp_potentials"]:
                e = dict(e)
                e["gaussian_exponents"] = [float(x) for x in e["gaussian_exponents"]]
                e["coefficients"] = [[float(x) for x in row] for row in e["coefficients"]]
                eps.append(e)
            c["ecp_potentials"] = eps
        cd[name] = c
    b["center_data"] = cd
    return b


def norm_kwargs(model, kw, inst):
    """revived constructor keywords -> what `build|<model>|…` carries (see lean/QcelVerif/Model/ResultKwargs.lean):
    array keywords as float ndarrays, basis numbers as floats, the molecule as the Molecule OBJECT the instance holds
    (how a Molecule is built from keywords is Model/MolDict.lean's business), everything else untouched."""
    kw = revive(copy.deepcopy(kw))
    if model == "BasisSet":
        return norm_basis(kw)
    if model == "AtomicResultProperties":
        return {k: (_farr(v) if k in PROP_ARRAYS and v is not None else v) for k, v in kw.items()}
    if model in ("AtomicInput", "AtomicResult"):
        kw["molecule"] = inst.molecule
        m = dict(kw["model"])
        if isinstance(m.get("basis"), dict):
            m["basis"] = norm_basis(m["basis"])
        kw["model"] = m
        if model == "AtomicResult":
            kw["properties"] = norm_kwargs("AtomicResultProperties", kw["properties"], None)
            if isinstance(kw.get("wavefunction"), dict):
                w = dict(kw["wavefunction"])
                w["basis"] = norm_basis(w["basis"])
                for k in list(w):
                    if k in WFN_ARRAYS and w[k] is not None:
                        w[k] = _farr(w[k])
                kw["wavefunction"] = w
            if isinstance(kw["return_result"], (list, np.ndarray)):
                kw["return_result"] = _farr(kw["return_result"])
    return kw


def build_line(model, kw, inst):
    return f"build|{model}|{enc_val(norm_kwargs(model, kw, inst))}"


def check_build(out: Outcome, model, case, doc, e, ml):
    """one `build` answer of the driver against the implementation's emitted JSON `doc` (jsonschema error `e` or None).
    The constructor accepted the keywords, so: the model's `ok` holds and its validators accept; emit(value) is the JSON;
    `uniq` holds exactly when no uniqueItems keyword fails; ok & uniq -> hasType and valid (the theorems, per instance)."""
    parts = ml.split(" ", 5)
    if parts[0] == "refused" or parts[0] == "bad-op" or len(parts) != 6 or parts[0] != "ok":
        out.mismatches.append(Finding("mismatch:build", case, observed="constructor accepted", expected=ml[:200], detail="the constructor model refuses / cannot read keywords the implementation accepted"))
        return
    _, okf, uq, ht, vv, js = parts
    out.count(f"build:{model}:ok={okf},uniq={uq},hasType={ht},valid={vv}")
    if okf != "T":
        out.mismatches.append(Finding("mismatch:build_wf", case, observed="constructor accepted", expected="input.ok = false", detail="the model's well-formedness predicate rejects keywords the implementation accepted"))
    try:
        mj = parse_model_json(js)
    except Exception as ex:
        out.mismatches.append(Finding("mismatch:build_emit", case, observed=str(ex), detail="model emit not parseable"))
        return
    if mj != canon(doc):
        out.mismatches.append(Finding("mismatch:build_emit", case, observed=text_short(doc), expected=js[:400], detail="Model.json(exclude_unset, exclude_none) differs from emit(value(keywords)) of the constructor model (first differing key: %s)" % first_diff(mj, canon(doc))))
    uniq_fail = e is not None and list(e.absolute_schema_path)[-1:] == ["uniqueItems"]
    if uq == "T" and okf == "T" and (ht != "T" or vv != "T" or e is not None):
        out.mismatches.append(Finding("mismatch:build_theorem_instance", case, observed=("jsonschema: " + e.message[:200]) if e is not None else f"hasType={ht} validate={vv}", expected="ok & uniq -> hasType, valid", detail="a well-formed input whose value does not inhabit the type / does not validate (contradicts <model>_hasType / _conforms unless the tie is broken)"))
    if uq == "F" and not uniq_fail:
        out.mismatches.append(Finding("mismatch:build_uniq", case, observed="no uniqueItems failure under jsonschema" + ("" if e is None else ": " + e.message[:120]), expected="input.uniq = false", detail="the model's uniqueness hypothesis fails but the published schema's uniqueItems does not"))
    if uq == "T" and uniq_fail:
        out.mismatches.append(Finding("mismatch:build_uniq", case, observed="uniqueItems fails under jsonschema", expected="input.uniq = true", detail="the published schema's uniqueItems fails but the model's uniqueness hypothesis holds"))


def text_short(doc):
    t = json.dumps(doc, sort_keys=True)
    return t if len(t) < 400 else t[:400] + "…"


def first_diff(a, b, pre=""):
    if isinstance(a, dict) and isinstance(b, dict):
        for k in sorted(set(a) | set(b)):
            if k not in a or k not in b:
                return pre + "/" + k + "(presence)"
            if a[k] != b[k]:
                return first_diff(a[k], b[k], pre + "/" + k)
    if isinstance(a, list) and isinstance(b, list):
        if len(a) != len(b):
            return pre + "(length)"
        for i, (x, y) in enumerate(zip(a, b)):
            if x != y:
                return first_diff(x, y, pre + f"/{i}")
    return pre


# ------------------------------------------------------------------------------------------------------
# Molecule rebuild / hash (oracle only)


def check_molecule_rebuild(ctx, out: Outcome, inst, case):
    import qcelemental as qcel

    Molecule = qcel.models.Molecule
    h = inst.get_hash()
    d = inst.dict()
    routes = {
        "kwargs": lambda: Molecule(**copy.deepcopy(d)),
        "from_data": lambda: Molecule.from_data(copy.deepcopy(d)),
        "json": lambda: Molecule.parse_raw(inst.json()),
        "revalidate": lambda: Molecule(**{**copy.deepcopy(d), "validated": False}),
    }
    for name, fn in routes.items():
        out.count("rebuild:" + name)
        try:
            with contextlib.redirect_stdout(io.StringIO()):
                m2 = fn()
            same = (m2 == inst) and (m2.get_hash() == h)
        except Exception as e:
            out.violations.append(Finding("oracle:rebuild_" + name, case, observed=err_class(e) + ": " + str(e)[:200], detail="Molecule cannot be rebuilt from its own dictionary"))
            continue
        if not same:
            out.violations.append(Finding("oracle:rebuild_" + name, case, observed=m2.get_hash(), expected=h, detail="Molecule rebuilt from its own dictionary differs / has another hash"))
    # a molecule DERIVED from this one (pydantic copy with one listed field replaced) is a Molecule too: it must survive the rebuild
    # from its own dictionary with its own hash — whatever the parent had already computed (masses, hash, repr) when the copy was taken
    syms = [str(x) for x in inst.symbols]
    if len(inst.fragments) == 1 and len(set(syms)) >= 2 and inst.__dict__.get("masses_") is None and inst.__dict__.get("mass_numbers_") is None:
        _ = (inst.masses, inst.get_hash(), repr(inst), inst.get_molecular_formula())
        i = 0
        j = next(k for k, x in enumerate(syms) if x != syms[0])
        s2 = list(syms)
        s2[i], s2[j] = s2[j], s2[i]  # same atoms, two of them exchanged: total electron count unchanged
        out.count("rebuild:derived_copy")
        try:
            with contextlib.redirect_stdout(io.StringIO()):
                mc = inst.copy(update={"symbols": np.array(s2)})
                hc = mc.get_hash()
                m3 = Molecule(**copy.deepcopy(mc.dict()))
                m4 = Molecule.parse_raw(mc.json())
            if not (m3.get_hash() == hc and m4.get_hash() == hc and m3 == mc and [float(x) for x in m3.masses] == [float(x) for x in mc.masses]):
                out.violations.append(Finding("oracle:rebuild_derived_copy", dict(case, derived={"symbols": s2}), observed={"copy": hc, "kwargs": m3.get_hash(), "json": m4.get_hash(), "masses_copy": [float(x) for x in mc.masses], "masses_rebuilt": [float(x) for x in m3.masses]},
                                              expected="equal hashes and masses", detail="a copy(update={'symbols': ...}) of the molecule does not survive the rebuild from its own dictionary / json"))
        except Exception as e:
            out.violations.append(Finding("oracle:rebuild_derived_copy", dict(case, derived={"symbols": s2}), observed=err_class(e) + ": " + str(e)[:200], detail="a derived copy cannot be rebuilt from its own dictionary"))


# ------------------------------------------------------------------------------------------------------
# part (b): molrec <-> schema


def gen_molrec_kwargs(rng):
    n = rng.randint(1, 7)
    pts = gen_geom(rng, n)
    zs = [rng.choice([1, 1, 2, 6, 7, 8, 9, 10, 17, 26]) for _ in range(n)]
    kw = {"geom": [c for p in pts for c in p], "elez": zs, "units": rng.choice(["Bohr", "Angstrom"])}
    if kw["units"] == "Angstrom" and rng.random() < 0.5:
        kw["input_units_to_au"] = rng.choice([1.8897261246, 1.889726125, 1.88972, 1.0 / 0.52917721067, 1.85])
    if n >= 2 and rng.random() < 0.6:
        k = rng.randint(2, min(4, n))
        kw["fragment_separators"] = sorted(rng.sample(range(1, n), k - 1))
    if rng.random() < 0.4:
        kw["real"] = [rng.random() > 0.3 for _ in range(n)]
    if rng.random() < 0.4:
        kw["elbl"] = [rng.choice(["", "a", "1", "_g"]) for _ in range(n)]
    if rng.random() < 0.3:
        kw["name"] = rng.choice(["nm", "", "water dimer"])
    if rng.random() < 0.2:
        kw["comment"] = rng.choice(["c", "two\nlines"])
    if rng.random() < 0.4:
        kw["fix_com"] = rng.random() < 0.5
        kw["fix_orientation"] = rng.random() < 0.5
    if rng.random() < 0.2:
        kw["fix_symmetry"] = rng.choice(["c1", "cs"])
    if n >= 2 and rng.random() < 0.35:
        a, b = rng.sample(range(n), 2)
        kw["connectivity"] = [[a, b, rng.choice([1.0, 2.0, 1.5])]]
    if rng.random() < 0.3:
        # isotopes through the mass number (D, T, 13C, 18O, 37Cl); None = most abundant
        iso = {1: [2, 3], 6: [13], 8: [18], 17: [37]}
        kw["elea"] = [rng.choice(iso[z]) if z in iso and rng.random() < 0.6 else None for z in zs]
    return kw


def make_molrec(kw):
    from qcelemental.molparse import from_arrays

    with contextlib.redirect_stdout(io.StringIO()):
        return from_arrays(speclabel=False, **copy.deepcopy(kw))


def T_(b):
    return "T" if b else "F"


def optS(x, f):
    return "N" if x is None else "S" + f(x)


def lst(xs, f):
    return "".join(f(x) + "," for x in xs)


def fr(x):
    return enc_frac(float(x))


def conn_s(c):
    return lst(c, lambda t: f"{int(t[0])}:{int(t[1])}:{fr(t[2])}")


def molrec_line(rec, v, dflt, fgv):
    f = [
        "toschema", str(v), fr(dflt), enc_str(fgv),
        rec["units"], optS(rec.get("input_units_to_au"), fr), lst(np.asarray(rec["geom"]).ravel().tolist(), fr),
        lst(list(rec["elea"]), lambda x: str(int(x))), lst(list(rec["elez"]), lambda x: str(int(x))),
        lst(list(rec["elem"]), lambda s: enc_str(str(s))), lst(list(rec["mass"]), fr), lst(list(rec["real"]), lambda b: T_(bool(b))),
        lst(list(rec["elbl"]), lambda s: enc_str(str(s))), lst(list(rec["fragment_separators"]), lambda x: str(int(x))),
        lst(list(rec["fragment_charges"]), fr), lst(list(rec["fragment_multiplicities"]), lambda x: str(int(x))),
        fr(rec["molecular_charge"]), str(int(rec["molecular_multiplicity"])), T_(rec["fix_com"]), T_(rec["fix_orientation"]),
        optS(rec.get("fix_symmetry"), enc_str), optS(rec.get("name"), enc_str), optS(rec.get("comment"), enc_str),
        optS(rec.get("connectivity"), conn_s),
    ]
    return "|".join(f)


MD_KEYS = ["symbols", "geometry", "masses", "atomic_numbers", "mass_numbers", "atom_labels", "real", "name", "comment",
           "molecular_charge", "molecular_multiplicity", "fragments", "fragment_charges", "fragment_multiplicities",
           "fix_com", "fix_orientation", "fix_symmetry", "connectivity", "validated"]


def tolist(x):
    return np.asarray(x).tolist() if not isinstance(x, list) else x


def frags_s(p):
    return "".join(lst(tolist(f), lambda x: str(int(x))) + ";" for f in p)


def moldict_fields(ms):
    """the 19 '|'-separated fields of a molecule dictionary (values may be ndarray or list)"""
    g = lambda k: ms.get(k)  # noqa: E731
    geom = None if g("geometry") is None else np.asarray(g("geometry"), dtype=float).ravel().tolist()
    return [
        optS(g("symbols"), lambda v: lst(tolist(v), lambda s: enc_str(str(s)))),
        optS(geom, lambda v: lst(v, fr)),
        optS(g("masses"), lambda v: lst(tolist(v), fr)),
        optS(g("atomic_numbers"), lambda v: lst(tolist(v), lambda x: str(int(x)))),
        optS(g("mass_numbers"), lambda v: lst(tolist(v), lambda x: str(int(x)))),
        optS(g("atom_labels"), lambda v: lst(tolist(v), lambda s: enc_str(str(s)))),
        optS(g("real"), lambda v: lst(tolist(v), lambda b: T_(bool(b)))),
        optS(g("name"), enc_str), optS(g("comment"), enc_str),
        optS(g("molecular_charge"), fr), optS(g("molecular_multiplicity"), lambda x: str(int(x))),
        optS(g("fragments"), frags_s),
        optS(g("fragment_charges"), lambda v: lst(tolist(v), fr)),
        optS(g("fragment_multiplicities"), lambda v: lst(tolist(v), lambda x: str(int(x)))),
        optS(g("fix_com"), lambda b: T_(bool(b))), optS(g("fix_orientation"), lambda b: T_(bool(b))),
        optS(g("fix_symmetry"), enc_str), optS(g("connectivity"), conn_s), optS(g("validated"), lambda b: T_(bool(b))),
    ]


def schema_dict_line(sd):
    nm, ver = sd.get("schema_name"), sd.get("schema_version")
    if "molecule" in sd and isinstance(sd["molecule"], dict):
        tag, ms = "M", sd["molecule"]
    elif "symbols" in sd or "geometry" in sd:
        tag, ms = "T", sd
    else:
        tag, ms = "0", {}
    return "|".join(["fromschema", optS(nm, enc_str), optS(ver, lambda x: str(int(x))), tag] + moldict_fields(ms))


def parse_terms(s, f):
    if s == "":
        return []
    items = s.split(",")
    assert items[-1] == ""
    return [f(x) for x in items[:-1]]


def pfrac(s):
    if "/" in s:
        p, q = s.split("/")
        return Fraction(int(p), int(q))
    return Fraction(int(s))


def popt(s, f):
    if s == "N":
        return None
    assert s[0] == "S"
    return f(s[1:])


def pconn(s):
    return parse_terms(s, lambda t: (int(t.split(":")[0]), int(t.split(":")[1]), pfrac(t.split(":")[2])))


def pfrags(s):
    parts = s.split(";")
    assert parts[-1] == ""
    return [parse_terms(p, int) for p in parts[:-1]]


def parse_moldict(fields):
    fs = [lambda s: parse_terms(s, dec_str), lambda s: parse_terms(s, pfrac), lambda s: parse_terms(s, pfrac),
          lambda s: parse_terms(s, int), lambda s: parse_terms(s, int), lambda s: parse_terms(s, dec_str),
          lambda s: parse_terms(s, lambda x: x == "T"), dec_str, dec_str, pfrac, int, pfrags,
          lambda s: parse_terms(s, pfrac), lambda s: parse_terms(s, int), lambda s: s == "T", lambda s: s == "T",
          dec_str, pconn, lambda s: s == "T"]
    return {k: popt(v, f) for k, v, f in zip(MD_KEYS, fields, fs)}


def exact(x):
    """implementation value -> exact comparable (floats as Fractions)"""
    if isinstance(x, np.ndarray):
        return exact(x.tolist())
    if isinstance(x, (bool, np.bool_)):
        return bool(x)
    if isinstance(x, (int, np.integer)):
        return int(x)
    if isinstance(x, (float, np.floating)):
        return Fraction(float(x))
    if isinstance(x, (str, np.str_)):
        return str(x)
    if isinstance(x, (list, tuple)):
        return [exact(v) for v in x]
    if x is None:
        return None
    raise Unsupported(type(x).__name__)


def num_eq(a, b):
    """exact comparison where ints and integral Fractions are the same number"""
    if isinstance(a, list) and isinstance(b, list):
        return len(a) == len(b) and all(num_eq(x, y) for x, y in zip(a, b))
    if isinstance(a, tuple) or isinstance(b, tuple):
        return num_eq(list(a), list(b))
    if isinstance(a, bool) or isinstance(b, bool) or isinstance(a, str) or isinstance(b, str) or a is None or b is None:
        return type(a) == type(b) and a == b
    return Fraction(a) == Fraction(b)


REL = Fraction(1, 2 ** 52)


def close(a: Fraction, b: Fraction, rel=REL):
    return abs(a - b) <= rel * max(abs(a), abs(b)) + Fraction(1, 10 ** 320)


def bohr_factor_default():
    import qcelemental as qcel

    return qcel.constants.conversion_factor("Angstrom", "Bohr")


def _same_value(a, b) -> bool:
    if isinstance(a, np.ndarray) or isinstance(b, np.ndarray):
        a_, b_ = np.asarray(a), np.asarray(b)
        return a_.shape == b_.shape and a_.dtype == b_.dtype and a_.tobytes() == b_.tobytes()
    return type(a) is type(b) and a == b


def _zero_copy(rec, v, np_out):
    return (len(rec["elem"]) + v + int(np_out)) % 2 == 0


def check_toschema(ctx, out: Outcome, recs):
    """recs: list of (case_kwargs, molrec).  Compares to_schema(rec, v, np_out) with the model, evaluates the oracle."""
    import qcelemental as qcel
    from qcelemental.molparse import from_schema, to_schema
    from qcelemental.molparse.to_string import formula_generator

    dflt = bohr_factor_default()
    indep = 1.0 / qcel.constants.bohr2angstroms
    lines, meta = [], []
    for kw, rec in recs:
        for v in (1, 2):
            base = molrec_line(rec, v, dflt, formula_generator(rec["elem"]))
            lines.append(base)
            # the source-derived voice (Model/MolSchemaAst.lean at Gen/MolSchemaSrc.lean), one line per np_out with the copy flag of that call
            for np_out in (True, False):
                f = base.split("|")
                lines.append("|".join(["srctoschema"] + f[1:4] + [T_(np_out), T_(not _zero_copy(rec, v, np_out))] + f[4:]))
            meta.append((kw, rec, v))
    model_out = [None] * len(lines)
    if ctx.model_available:
        model_out = ctx.run_model(DRIVER, lines)
    for j, (kw, rec, v) in enumerate(meta):
        ml = model_out[3 * j]
        src_lines = {True: model_out[3 * j + 1], False: model_out[3 * j + 2]}
        for np_out in (True, False):
            case = {"stream": "molrec", "from_arrays": kw, "dtype": v, "np_out": np_out}
            out.evaluations += 1
            out.count(f"to_schema:v{v}:np_out={np_out}:{rec['units']}:{'iutau' if 'input_units_to_au' in rec else 'default'}")
            out.nontrivial(("molrec", v, np_out, rec["units"], "input_units_to_au" in rec, len(rec["fragment_separators"]), len(rec["elem"]), "connectivity" in rec, "fix_symmetry" in rec))
            # the documented zero-copy option on every other case: the caller's record must come out of the export as it went in
            # (a second export of the same record is then the same schema), and the export itself must not depend on the option
            zero_copy = _zero_copy(rec, v, np_out)
            work = copy.deepcopy(rec)
            case["copy"] = not zero_copy
            try:
                with contextlib.redirect_stdout(io.StringIO()):
                    sd = to_schema(work, dtype=v, np_out=np_out, copy=not zero_copy)
                    if v == 1 and not isinstance(sd.get("molecule"), dict):
                        out.violations.append(Finding("oracle:to_schema_layout", case, observed=sorted(map(str, sd))[:8], expected="a 'molecule' entry holding the molecule keys",
                                                      detail="the version-1 schema dictionary has no nested 'molecule' dictionary (from_schema cannot read it back)"))
                        continue
                    snap_geom = np.array(sd["molecule"]["geometry"] if v == 1 else sd["geometry"], dtype=float).copy()
                    changed = [k for k in rec if not _same_value(rec[k], work.get(k))] + [k for k in work if k not in rec]
                    if changed:
                        out.violations.append(Finding("oracle:to_schema_record_modified", case, observed={k: repr(work.get(k))[:120] for k in changed[:3]},
                                                      expected={k: repr(rec.get(k))[:120] for k in changed[:3]}, detail=f"to_schema(copy={not zero_copy}) changed the molecule record it was given"))
                    sd_again = to_schema(work, dtype=v, np_out=np_out)
                    g2 = np.array(sd_again["molecule"]["geometry"] if v == 1 else sd_again["geometry"], dtype=float)
                    if g2.shape != snap_geom.shape or not np.array_equal(g2, snap_geom):
                        out.violations.append(Finding("oracle:to_schema_second_export", case, observed=g2.ravel().tolist()[:9], expected=snap_geom.ravel().tolist()[:9],
                                                      detail="exporting the same validated record a second time gives another geometry"))
            except Exception as e:
                out.violations.append(Finding("oracle:to_schema_raises", case, observed=err_class(e) + ": " + str(e)[:200], detail="to_schema raised on a validated molrec"))
                continue
            ms = sd["molecule"] if v == 1 else sd
            # ---- oracle: geometry in Bohr
            geom = np.asarray(ms["geometry"], dtype=float).ravel()
            stored = np.asarray(rec["geom"], dtype=float).ravel()
            if rec["units"] == "Bohr":
                fac, rel = 1.0, Fraction(0)
            elif "input_units_to_au" in rec:
                fac, rel = rec["input_units_to_au"], REL
            else:
                fac, rel = indep, Fraction(1, 10 ** 13)
            bad = [i for i in range(len(stored)) if not close(Fraction(float(geom[i])), Fraction(float(stored[i])) * Fraction(fac), rel)] if len(geom) == len(stored) else ["length"]
            if bad:
                out.violations.append(Finding("oracle:geometry_bohr", case, observed=geom.tolist(), expected=(stored * fac).tolist(), detail=f"exported geometry is not stored geometry x {fac!r} (first bad index {bad[0]})"))
            # ---- oracle: container types follow np_out
            want = np.ndarray if np_out else list
            for k in ("symbols", "geometry", "masses", "atomic_numbers", "mass_numbers", "atom_labels", "real"):
                if not isinstance(ms[k], want):
                    out.violations.append(Finding("oracle:np_out", case, observed=type(ms[k]).__name__, expected=want.__name__, detail=f"{k} has the wrong container for np_out={np_out}"))
                    break
            if not np_out:
                try:
                    json.dumps(sd)
                except TypeError as e:
                    out.violations.append(Finding("oracle:np_out", case, observed=str(e), detail="np_out=False output is not JSON-able"))
            # ---- oracle: round trip
            try:
                with contextlib.redirect_stdout(io.StringIO()):
                    back = from_schema(copy.deepcopy(sd))
                diffs = []
                for k in sorted(set(rec) | set(back)):
                    if k in ("provenance", "geom", "units", "input_units_to_au"):
                        continue
                    if k == "name" and "name" not in rec:
                        if back.get("name") != formula_generator(rec["elem"]):
                            diffs.append(k)
                        continue
                    if k not in rec or k not in back or not num_eq(exact(rec[k]), exact(back[k])):
                        diffs.append(k)
                if back.get("units") != "Bohr" or "input_units_to_au" in back:
                    diffs.append("units")
                if not num_eq(exact(back["geom"]), exact(geom)):
                    diffs.append("geom")
                if back.get("provenance", {}).get("routine") != "qcelemental.molparse.from_schema":
                    diffs.append("provenance")
                if diffs:
                    out.violations.append(Finding("oracle:roundtrip", case, observed={k: repr(back.get(k))[:200] for k in diffs}, expected={k: repr(rec.get(k))[:200] for k in diffs}, detail="from_schema(to_schema(molrec)) does not reproduce the molrec in: " + ",".join(diffs)))
            except Exception as e:
                out.violations.append(Finding("oracle:roundtrip", case, observed=err_class(e) + ": " + str(e)[:200], detail="from_schema(to_schema(molrec)) raised"))
            # ---- correspondence with the model: the hand model, then the source-derived voice (same comparison; the second also
            #      says what the caller's record holds after the call, for this call's copy flag)
            if ml is None:
                continue
            sl = src_lines[np_out]
            if sl is None or sl.count("|") != 22:
                out.mismatches.append(Finding("mismatch:to_schema_src", case, observed=str(sl)[:200], expected=ml[:200], detail="the source-derived to_schema (Gen/MolSchemaSrc.lean) does not produce a dictionary where the hand model does"))
            else:
                head, caller = sl.rsplit("|", 1)
                if head != ml:
                    out.mismatches.append(Finding("mismatch:to_schema_src", case, observed=head[:400], expected=ml[:400], detail="the source-derived to_schema and the hand model Model/MolSchema.lean differ on this record (Props/C09Src.lean proves them equal)"))
                try:
                    cg = parse_terms(caller, pfrac)
                    held = exact(np.asarray(work["geom"], dtype=float).ravel())
                    if len(held) != len(cg) or not all(close(a, b) for a, b in zip(held, cg)):
                        out.mismatches.append(Finding("mismatch:to_schema_src", case, observed=np.asarray(work["geom"]).ravel().tolist()[:9], expected=caller[:200], detail=f"geometry held by the caller's record after to_schema(copy={not zero_copy}) differs from the source-derived evaluation"))
                except Exception as ex:
                    out.mismatches.append(Finding("mismatch:driver", case, observed=str(ex), detail="srctoschema caller geometry not parseable"))
            parts = ml.split("|")
            if len(parts) != 22:
                out.mismatches.append(Finding("mismatch:driver", case, observed=ml[:200], detail="toschema line not processed"))
                continue
            try:
                mname, mver, tag = popt(parts[0], dec_str), popt(parts[1], int), parts[2]
                md = parse_moldict(parts[3:])
            except Exception as ex:
                out.mismatches.append(Finding("mismatch:driver", case, observed=str(ex), detail="toschema output not parseable"))
                continue
            diffs = []
            if mname != sd.get("schema_name") or mver != sd.get("schema_version") or (tag == "M") != (v == 1):
                diffs.append("schema_name/version/layout")
            for k in MD_KEYS:
                iv = ms.get(k)
                mv = md[k]
                if (iv is None) != (mv is None):
                    diffs.append(k + "(presence)")
                    continue
                if iv is None:
                    continue
                ev = exact(iv)
                if k == "geometry":
                    ev = exact(np.asarray(iv, dtype=float).ravel())
                    ok = len(ev) == len(mv) and all(close(a, b) for a, b in zip(ev, mv))
                elif k == "connectivity":
                    ok = num_eq([list(t) for t in ev], [list(t) for t in mv])
                else:
                    ok = num_eq(ev, mv)
                if not ok:
                    diffs.append(k)
            extra = set(ms) - set(MD_KEYS) - {"provenance", "schema_name", "schema_version"}
            if extra:
                diffs.append("unmodelled keys " + ",".join(sorted(extra)))
            if diffs:
                out.mismatches.append(Finding("mismatch:to_schema", case, observed={k.split("(")[0]: repr(ms.get(k.split("(")[0]))[:200] for k in diffs}, expected=ml[:400], detail="to_schema differs from the model in: " + ",".join(diffs)))


def spy_from_schema(sd):
    """run from_schema with from_arrays intercepted -> ('args', kwargs) | ('err', class)"""
    import qcelemental.molparse  # noqa: F401

    fsmod = sys.modules["qcelemental.molparse.from_schema"]
    captured = {}
    real = fsmod.from_arrays

    class _Stop(Exception):
        pass

    def fake(**kw):
        captured.update(kw)
        raise _Stop()

    fsmod.from_arrays = fake
    try:
        with contextlib.redirect_stdout(io.StringIO()):
            fsmod.from_schema(copy.deepcopy(sd))
    except _Stop:
        return ("args", captured)
    except Exception as e:
        return ("err", err_class(e))
    finally:
        fsmod.from_arrays = real
    return ("err", "no-call")


ARG_KEYS = ["geom", "elea", "elez", "elem", "mass", "real", "elbl", "name", "fix_com", "fix_orientation", "fix_symmetry",
            "fragment_separators", "fragment_charges", "fragment_multiplicities", "molecular_charge", "molecular_multiplicity",
            "comment", "connectivity"]


def parse_args_line(s):
    parts = s.split("|")
    assert len(parts) == 18, len(parts)
    fs = [lambda x: parse_terms(x, pfrac), lambda x: popt(x, lambda y: parse_terms(y, int)), lambda x: popt(x, lambda y: parse_terms(y, int)),
          lambda x: parse_terms(x, dec_str), lambda x: popt(x, lambda y: parse_terms(y, pfrac)), lambda x: popt(x, lambda y: parse_terms(y, lambda z: z == "T")),
          lambda x: popt(x, lambda y: parse_terms(y, dec_str)), lambda x: popt(x, dec_str), lambda x: popt(x, lambda y: y == "T"), lambda x: popt(x, lambda y: y == "T"),
          lambda x: popt(x, dec_str), lambda x: parse_terms(x, int), lambda x: popt(x, lambda y: parse_terms(y, pfrac)), lambda x: popt(x, lambda y: parse_terms(y, int)),
          lambda x: popt(x, pfrac), lambda x: popt(x, int), lambda x: popt(x, dec_str), lambda x: popt(x, pconn)]
    return {k: f(p) for k, p, f in zip(ARG_KEYS, parts, fs)}


def malform(rng, sd, v):
    """one perturbation of a schema dictionary relevant to from_schema's own logic"""
    sd = copy.deepcopy(sd)
    ms = sd["molecule"] if v == 1 else sd
    nat = len(ms["symbols"])
    c = rng.choice(["name", "version", "nofrag", "interleave", "skip", "offset", "emptypat", "shortarr", "shortgeom", "geom3", "reorder1", "dropkey", "dup", "none", "emptyfrag"])
    if c == "name":
        sd["schema_name"] = rng.choice(["qc_schema_input", "qcschema", "qcschema_output", "qcschema_molecule", "qc_schema", "QCSchema_input", "schema", "qcschema_moleculeX", ""])
    elif c == "version":
        sd["schema_version"] = rng.choice([1, 2, 3, 0])
        if rng.random() < 0.2:
            del sd["schema_version"]
    elif c == "nofrag":
        ms.pop("fragments")
        if rng.random() < 0.5:
            ms.pop("fragment_charges", None)
            ms.pop("fragment_multiplicities", None)
    elif c == "interleave" and nat >= 2:
        idx = list(range(nat))
        rng.shuffle(idx)
        k = rng.randint(1, nat - 1)
        ms["fragments"] = [idx[:k], idx[k:]]
    elif c == "skip":
        ms["fragments"] = [[i for i in f if i != rng.randrange(nat)] for f in ms["fragments"]] + ([[nat + 1]] if rng.random() < 0.5 else [])
    elif c == "offset":
        ms["fragments"] = [[i + 1 for i in range(nat)]]
    elif c == "emptypat":
        ms["fragments"] = rng.choice([[], [[]]])
    elif c == "shortarr":
        k = rng.choice(["masses", "real", "atom_labels", "atomic_numbers", "mass_numbers", "symbols"])
        ms[k] = list(ms[k])[:-1]
    elif c == "shortgeom":
        ms["geometry"] = list(np.asarray(ms["geometry"]).ravel())[:-3]
    elif c == "geom3":
        ms["geometry"] = list(np.asarray(ms["geometry"]).ravel())[:-1]
    elif c == "reorder1":
        idx = list(range(nat))
        rng.shuffle(idx)
        ms["fragments"] = [idx]
    elif c == "dropkey":
        ms.pop(rng.choice(["symbols", "geometry", "masses", "real", "name", "fix_com", "molecular_charge", "atom_labels"]), None)
    elif c == "dup" and nat >= 2:
        ms["fragments"] = [[0, 0] + list(range(2, nat))]
    elif c == "emptyfrag":
        ms["fragments"] = list(ms["fragments"]) + [[]]
    if v == 1 and rng.random() < 0.05:
        sd.pop("molecule")
    return c, sd


def jsonable(x):
    if isinstance(x, dict):
        return {k: jsonable(v) for k, v in x.items()}
    if isinstance(x, (list, tuple)):
        return [jsonable(v) for v in x]
    if isinstance(x, np.ndarray):
        return x.tolist()
    if isinstance(x, np.generic):
        return x.item()
    return x


def check_fromschema(ctx, out: Outcome, dicts):
    """dicts: list of (label, schema dict).  from_schema up to the from_arrays call vs the model."""
    lines = []
    keep = []
    for label, sd in dicts:
        try:
            lines.append(schema_dict_line(sd))
            keep.append((label, sd))
        except Exception:
            out.count("fromschema_unencodable")
    model_out = [None] * len(lines)
    src_out = [None] * len(lines)
    if ctx.model_available:
        both = ctx.run_model(DRIVER, lines + ["src" + ln for ln in lines])
        model_out, src_out = both[:len(lines)], both[len(lines):]
    for (label, sd), ml, sl in zip(keep, model_out, src_out):
        case = {"stream": "schema_dict", "dict": jsonable(sd)}
        if ml is not None and sl != ml:
            out.mismatches.append(Finding("mismatch:from_schema_src", case, observed=str(sl)[:300], expected=ml[:300], detail=f"the source-derived from_schema (Gen/MolSchemaSrc.lean) and the hand model differ ({label}); Props/C09Src.lean proves them equal"))
        res = spy_from_schema(sd)
        out.evaluations += 1
        tagc = res[0] if res[0] == "args" else "err:" + res[1]
        if res[0] == "err" and label in ("interleave", "skip") and len(out.samples) < 6:
            out.sample({"from_schema": label, "fragments": jsonable((sd.get("molecule") or sd).get("fragments")), "impl": tagc, "model": (ml or "")[:40]})
        out.count(f"from_schema:{label}:{tagc}")
        out.nontrivial(("from_schema", label, tagc))
        if ml is None:
            continue
        if res[0] == "err":
            if ml != "err " + res[1]:
                out.mismatches.append(Finding("mismatch:from_schema", case, observed="err " + res[1], expected=ml[:300], detail=f"from_schema ({label}) vs model"))
            continue
        if not ml.startswith("ok "):
            out.mismatches.append(Finding("mismatch:from_schema", case, observed="reaches from_arrays", expected=ml[:300], detail=f"from_schema ({label}) vs model"))
            continue
        try:
            margs = parse_args_line(ml[3:])
        except Exception as ex:
            out.mismatches.append(Finding("mismatch:driver", case, observed=str(ex), detail="fromschema output not parseable"))
            continue
        got = res[1]
        diffs = []
        if got.get("units") != "Bohr" or got.get("input_units_to_au") is not None or got.get("domain") != "qm" or got.get("speclabel") is not False:
            diffs.append("constants of the from_arrays call")
        for k in ARG_KEYS:
            iv, mv = got.get(k), margs[k]
            if (iv is None) != (mv is None):
                diffs.append(k + "(presence)")
                continue
            if iv is None:
                continue
            try:
                ev = exact(np.asarray(iv, dtype=float).ravel()) if k == "geom" else exact(iv)
                if k == "connectivity":
                    ok = num_eq([list(t) for t in ev], [list(t) for t in mv])
                else:
                    ok = num_eq(ev, mv)
            except Unsupported:
                ok = False
            if not ok:
                diffs.append(k)
        if diffs:
            out.mismatches.append(Finding("mismatch:from_schema", case, observed={k.split("(")[0]: repr(got.get(k.split("(")[0]))[:160] for k in diffs}, expected=ml[:300], detail=f"from_schema ({label}) hands from_arrays other data than the model: " + ",".join(diffs)))


def run_partb(ctx, out: Outcome):
    from qcelemental.molparse import to_schema

    rng = ctx.rng
    recs = []
    for _ in range(ctx.scale(220, 2000)):
        kw = gen_molrec_kwargs(rng)
        try:
            recs.append((kw, make_molrec(kw)))
        except Exception as e:
            out.count("molrec_rejected:" + err_class(e))
    check_toschema(ctx, out, recs)
    dicts = []
    for kw, rec in recs:
        for v in (1, 2):
            np_flag = rng.random() < 0.5
            try:
                with contextlib.redirect_stdout(io.StringIO()):
                    sd = to_schema(copy.deepcopy(rec), dtype=v, np_out=np_flag)
                if v == 1 and not isinstance(sd.get("molecule"), dict):
                    raise KeyError("molecule")
            except Exception as e:  # already reported by check_toschema (oracle:to_schema_raises / oracle:to_schema_layout) for the same record
                out.count("partb_to_schema_unusable:" + err_class(e))
                continue
            dicts.append((f"valid:v{v}", sd))
            for _ in range(2):
                label, bad = malform(rng, sd, v)
                dicts.append((label, bad))
    check_fromschema(ctx, out, dicts)


# ------------------------------------------------------------------------------------------------------
# part (c): Molecule.__init__ / dict() around the schema functions (Model/MolDict.lean)

UNMODELLED_DICT_KEYS = {"schema_name", "schema_version", "provenance", "extras", "identifiers", "id"}


def gen_construct_kwargs(rng):
    """Molecule kwargs that exercise _filter_defaults / {**kwargs, **schema} / title / float_prep: defaults the
    caller spells out (they survive the filter), near-default masses, one all-atom fragment, lower/upper-case
    symbols, coordinates in float_prep's zero band and beyond the 8th decimal."""
    from qcelemental import periodictable

    kw = gen_molecule(rng, nmax=6, minimal_p=0.1)
    kw.pop("provenance", None)  # always overwritten by from_schema's stamp; partial stamps are refused by from_arrays
    n = len(kw["symbols"])
    syms = kw["symbols"]
    flat = [c for p in kw["geometry"] for c in p] if isinstance(kw["geometry"][0], list) else list(kw["geometry"])
    if rng.random() < 0.35:
        i = rng.randrange(len(flat))
        flat[i] = flat[i] + rng.choice([3e-7, -3e-7, 5.1e-7, 5.2e-7, 4.9e-9, 5.000000001e-9, -0.0, 1e-12])
    if rng.random() < 0.2:
        i = rng.randrange(len(flat))
        flat[i] = rng.choice([-0.0, 0.0, 2e-7, -5.12e-7])
    kw["geometry"] = flat if rng.random() < 0.5 else [flat[3 * i : 3 * i + 3] for i in range(n)]
    c = rng.random()
    if c < 0.25:
        kw["masses"] = [periodictable.to_mass(s) for s in syms]  # spelled-out defaults
    elif c < 0.45:
        kw["masses"] = [periodictable.to_mass(s) * rng.choice([1.0, 1.0, 1.000001, 1.0000001, 1.00001]) for s in syms]
    if rng.random() < 0.2:
        kw["real"] = [True] * n
    if rng.random() < 0.15:
        kw["atom_labels"] = [""] * n
    if rng.random() < 0.2:
        kw["atomic_numbers"] = [periodictable.to_Z(s) for s in syms]
    if rng.random() < 0.15:
        kw["mass_numbers"] = [periodictable.to_A(s) for s in syms]
    if "fragments" not in kw and rng.random() < 0.25:
        kw["fragments"] = [list(range(n))]
        kw.pop("molecular_charge", None)
        if rng.random() < 0.5:
            kw["fragment_charges"] = [0.0]
    if rng.random() < 0.3:
        kw["symbols"] = [rng.choice([s.lower(), s.upper(), s]) for s in syms]
    if rng.random() < 0.15:
        kw["validated"] = False
    if rng.random() < 0.15:
        kw["schema_version"] = 2
    if rng.random() < 0.1:
        kw["schema_name"] = "qcschema_molecule"
    if rng.random() < 0.04:
        kw["schema_version"] = rng.choice([1, 3])  # refused: from_schema finds no "molecule" entry / unknown version
    return kw


def moldict_diffs(ms, md, exact_geometry=True):
    """ms: implementation dictionary; md: parse_moldict(...) of the model's.  Exact comparison of the 19 keys."""
    diffs = []
    for k in MD_KEYS:
        iv, mv = ms.get(k), md[k]
        if (iv is None) != (mv is None):
            diffs.append(k + "(presence)")
            continue
        if iv is None:
            continue
        try:
            ev = exact(iv)
            if k == "geometry":
                ev = exact(np.asarray(iv, dtype=float).ravel())
                ok = num_eq(ev, mv) if exact_geometry else (len(ev) == len(mv) and all(close(a, b) for a, b in zip(ev, mv)))
            elif k == "connectivity":
                ok = num_eq([list(t) for t in ev], [list(t) for t in mv])
            else:
                ok = num_eq(ev, mv)
        except Unsupported:
            ok = False
        if not ok:
            diffs.append(k)
    return diffs


def same_value(a, b):
    """deep exact equality of two dict() outputs (ndarrays by value and shape, floats exactly, models by dict)"""
    if isinstance(a, np.ndarray) or isinstance(b, np.ndarray):
        if not (isinstance(a, np.ndarray) and isinstance(b, np.ndarray)) or a.shape != b.shape or a.dtype.kind != b.dtype.kind:
            return False
        return a.tolist() == b.tolist() and all(math.copysign(1, x) == math.copysign(1, y) for x, y in zip(a.ravel().tolist(), b.ravel().tolist())
                                                  if isinstance(x, float))
    if isinstance(a, dict) and isinstance(b, dict):
        return list(a) == list(b) and all(same_value(a[k], b[k]) for k in a)
    if isinstance(a, (list, tuple)) and isinstance(b, (list, tuple)):
        return type(a) == type(b) and len(a) == len(b) and all(same_value(x, y) for x, y in zip(a, b))
    return type(a) == type(b) and a == b


def check_construct(ctx, out: Outcome, kwlist):
    """kwlist: list of Molecule kwargs.  `Molecule(**kwargs).dict()` vs the model's prediction (keys and values), the
    unmodelled keys by their stated rule, and `Molecule(**mol.dict()).dict()` vs `mol.dict()` (dict_fixed_point)."""
    import qcelemental as qcel
    from qcelemental import periodictable
    from qcelemental.molparse import from_schema
    from qcelemental.molparse.to_string import formula_generator

    Molecule = qcel.models.Molecule
    dflt = bohr_factor_default()
    lines, meta = [], []
    for kw in kwlist:
        case = {"stream": "construct", "kwargs": kw}
        kwr = revive(copy.deepcopy(kw))
        try:
            with contextlib.redirect_stdout(io.StringIO()):
                m = Molecule(**copy.deepcopy(kwr))
            impl = ("ok", m)
        except Exception as e:
            impl = ("err", err_class(e))
        out.evaluations += 1
        out.count("construct:" + (impl[0] if impl[0] == "ok" else "err:" + impl[1]))
        # the value of the from_arrays parameter: what from_schema returns for these kwargs
        sd = {**copy.deepcopy(kwr), "schema_name": kwr.get("schema_name", "qcschema_molecule"), "schema_version": kwr.get("schema_version", 2)}
        try:
            with contextlib.redirect_stdout(io.StringIO()):
                rec = from_schema(sd)
        except Exception as e:
            rec = None
            if impl[0] == "ok":
                out.mismatches.append(Finding("mismatch:construct", case, observed="Molecule built", expected="from_schema raises " + err_class(e), detail="Molecule(**kwargs) succeeded although from_schema(kwargs) is refused"))
            continue
        try:
            dm = [periodictable.to_mass(e) for e in rec["elem"]]
            line = "|".join(["construct", optS(kwr.get("schema_name"), enc_str), optS(kwr.get("schema_version"), lambda x: str(int(x))),
                             fr(dflt), enc_str(formula_generator(rec["elem"])), lst(dm, fr)]
                            + moldict_fields(kwr) + molrec_line(rec, 2, dflt, "x").split("|")[4:])
        except Exception as e:
            out.count("construct_unencodable:" + type(e).__name__)
            continue
        lines.append(line)
        meta.append((case, kwr, impl))
    model_out = [None] * len(lines)
    if ctx.model_available:
        model_out = ctx.run_model(DRIVER, lines)
    for (case, kwr, impl), ml in zip(meta, model_out):
        kw = case["kwargs"]
        if impl[0] == "err":
            if ml is not None and not ml.startswith("err"):
                out.mismatches.append(Finding("mismatch:construct", case, observed="err " + impl[1], expected=ml[:200], detail="Molecule(**kwargs) raised after from_schema accepted the kwargs; the model builds the object"))
            continue
        m = impl[1]
        d = m.dict()
        out.nontrivial(("construct", tuple(sorted(d)), tuple(sorted(k for k in kw if k in MD_KEYS))))
        for k in MD_KEYS:
            if k in d and k not in ("symbols", "geometry", "validated", "name", "molecular_charge", "molecular_multiplicity", "fix_com", "fix_orientation"):
                out.count("dict_key:" + k + (":caller" if k in kw else ":schema"))
        # ---- unmodelled keys: stated rule
        diffs = []
        extra = set(d) - set(MD_KEYS) - UNMODELLED_DICT_KEYS
        if extra:
            diffs.append("unexpected keys " + ",".join(sorted(extra)))
        if d.get("schema_name") != "qcschema_molecule" or d.get("schema_version") != 2:
            diffs.append("schema_name/schema_version")
        if not same_value(d.get("extras"), kwr.get("extras", {})):
            diffs.append("extras")
        for k in ("identifiers", "id"):
            if (k in d) != (k in kwr):
                diffs.append(k + "(presence)")
        if (d.get("provenance") or {}).get("routine") != "qcelemental.molparse.from_schema":
            diffs.append("provenance")
        # ---- the 19 modelled keys against the model
        if ml is not None:
            parts = ml.split("|")
            if parts[0] != "ok" or len(parts) != 25:
                out.mismatches.append(Finding("mismatch:construct", case, observed="Molecule built; dict keys " + ",".join(sorted(d)), expected=ml[:200], detail="the model does not build the object"))
            else:
                try:
                    md = parse_moldict(parts[1:20])
                    diffs += moldict_diffs(d, md)
                    if parts[20] != "T":
                        diffs.append("model: rebuild(dict m) != m")
                    if parts[21] != "T":
                        diffs.append("agreesB false: from_schema/to_schema changed a hash entry the caller spelled out (hypothesis of molecule_canon_of_record)")
                    out.count("construct:singleOkB=" + parts[22])
                    # the embedding molVal (Props/C09Typed.lean): typed, and emitted exactly as the implementation's JSON
                    if parts[23] != "T":
                        diffs.append("model: molVal(dict) does not inhabit the declared type (contradicts dict_hasType)")
                    doc = json.loads(m.json(exclude_unset=True, exclude_none=True))
                    want = {k: v for k, v in canon(doc).items() if k not in ("provenance", "extras", "identifiers", "id")}
                    got = parse_model_json(parts[24])
                    if got != want:
                        diffs.append("emit(molVal) vs Molecule.json(): " + first_diff(got, want))
                except Exception as ex:
                    diffs.append("driver output not parseable: " + str(ex)[:100])
        if diffs:
            out.mismatches.append(Finding("mismatch:construct", case, observed={k.split("(")[0]: repr(d.get(k.split("(")[0]))[:160] for k in diffs}, expected=(ml or "")[:400],
                                          detail="Molecule(**kwargs).dict() differs from the model (filter_defaults / merge / title / float_prep) in: " + ",".join(diffs)))
        # ---- dict_fixed_point on the implementation: Molecule(**mol.dict()).dict() is mol.dict()
        try:
            with contextlib.redirect_stdout(io.StringIO()):
                m2 = Molecule(**copy.deepcopy(d))
            d2 = m2.dict()
            bad = [k for k in sorted(set(d) | set(d2)) if k not in d or k not in d2 or not same_value(d[k], d2[k])]
            if bad:
                out.mismatches.append(Finding("mismatch:dict_rebuild", case, observed={k: repr(d2.get(k))[:160] for k in bad}, expected={k: repr(d.get(k))[:160] for k in bad},
                                              detail="Molecule(**mol.dict()).dict() differs from mol.dict() (model: rebuild (dict m) = m) in: " + ",".join(bad)))
            # the property clause itself (oracle): equal, same hash
            if not (m2 == m and m2.get_hash() == m.get_hash()):
                out.violations.append(Finding("oracle:rebuild_kwargs", case, observed=m2.get_hash(), expected=m.get_hash(), detail="Molecule rebuilt from its own dictionary differs / has another hash"))
        except Exception as e:
            out.violations.append(Finding("oracle:rebuild_kwargs", case, observed=err_class(e) + ": " + str(e)[:200], detail="Molecule cannot be rebuilt from its own dictionary"))


def run_partc(ctx, out: Outcome):
    rng = ctx.rng
    check_construct(ctx, out, [gen_construct_kwargs(rng) for _ in range(ctx.scale(260, 2500))])


# ------------------------------------------------------------------------------------------------------
# string route: Molecule.from_data(text) = from_string -> to_schema(dtype=2, np_out=True) -> _filter_defaults -> Molecule(validate=False)
# Here _filter_defaults acts on a dictionary the caller did NOT spell out, so nothing restores an entry it drops: the masses the parser
# validated must be the masses the Molecule holds (property clause "translating a validated molecule to a schema dictionary and back
# reproduces it", Molecule level).  Elements whose default mass is an exact integer (C-12 = 12.0) are over-represented on purpose.

def gen_mass_text(rng):
    from qcelemental import periodictable

    n = rng.randint(1, 3)
    syms = [rng.choice(["C", "C", "C", "H", "O", "N", "F"]) for _ in range(n)] if rng.random() < 0.6 else ["C"] * n
    rows = []
    for i, s in enumerate(syms):
        lab = s
        if rng.random() < 0.75:
            mass = periodictable.to_mass(s) + rng.choice([0.0, 1e-8, 3e-6, 4e-4, -2e-4, 1e-5])
            lab = f"{s}@{mass:.8f}"
        rows.append(f"{lab} {round(rng.uniform(-1, 1), 4)} {round(rng.uniform(-1, 1), 4)} {round(2.5 * i + rng.uniform(-0.3, 0.3), 4)}")
    return "\n".join(rows)


def check_from_data_text(ctx, out: Outcome, texts):
    import qcelemental as qcel
    from qcelemental.molparse import from_string

    for text in texts:
        case = {"stream": "from_data", "text": text}
        try:
            with contextlib.redirect_stdout(io.StringIO()):
                rec = from_string(text)["qm"]
        except Exception as e:
            out.count("from_data_text_refused:" + err_class(e))  # not a valid molecule: outside the quantifier
            continue
        out.evaluations += 1
        out.nontrivial(("from_data", len(rec["elem"]), "@" in text, len(set(rec["elem"])) == 1))
        try:
            with contextlib.redirect_stdout(io.StringIO()):
                m = qcel.models.Molecule.from_data(text)
        except Exception as e:
            out.violations.append(Finding("oracle:from_data_masses", case, observed=err_class(e) + ": " + str(e)[:200], detail="Molecule.from_data raised on a text from_string validates"))
            continue
        got = [Fraction(float(x)) for x in m.masses]
        want = [Fraction(float(x)) for x in rec["mass"]]
        if got != want:
            out.violations.append(Finding("oracle:from_data_masses", case, observed=[float(x) for x in m.masses], expected=[float(x) for x in rec["mass"]],
                                          detail="the Molecule built from the text does not hold the masses the parser validated (lost between to_schema and the constructor)"))


def run_from_data_text(ctx, out: Outcome):
    rng = ctx.rng
    check_from_data_text(ctx, out, [gen_mass_text(rng) for _ in range(ctx.scale(60, 600))])


# ------------------------------------------------------------------------------------------------------


def tie_and_wf(ctx, out: Outcome):
    if not ctx.model_available:
        return
    r = ctx.run_model(DRIVER, ["tie", "wf"])
    out.evaluations += 2
    out.notes.append(f"schema tie: declSchema(env) vs exported for the six roots and all definitions: {r[0][:300]}; Env.wf: {r[1]}")
    out.notes.append("schema_extra refinements taken from the exported schema: " + "; ".join("/".join(x) for x in gen_schema.REFINEMENTS))
    out.notes.append(f"translator: {gen_schema.SUMMARY}")
    if r[0] != "ok":
        out.mismatches.append(Finding("mismatch:schema_tie", {"stream": "tie"}, observed=r[0][:1500], expected="ok", detail="schema generated from the declared field types differs from the exported schema (modulo annotations)"))
    if r[1] != "T":
        out.mismatches.append(Finding("mismatch:env_wf", {"stream": "tie"}, observed=r[1], expected="T", detail="duplicate field names / aliases / model names in the extracted declarations"))


def pattern_stream(ctx, out: Outcome):
    """the pattern matcher against CPython's re.search on the patterns that occur and near misses"""
    import re

    if not ctx.model_available:
        return
    pats = sorted({p for p in _collect_patterns()})
    cases = []
    for p in pats:
        body = p[2:-2] if p.startswith("^(") and p.endswith(")$") else p
        lit = re.sub(r"\\(.)", r"\1", body).replace("?", "")
        alts = {lit, lit + "\n", lit + "\n\n", "\n" + lit, lit + "x", "x" + lit, lit[:-1], lit.replace("_", "", 1), lit.replace("_", "__", 1), lit.upper(), "", " " + lit}
        if "?" in body:
            i = body.index("?")
            alts.add(re.sub(r"\\(.)", r"\1", body[: i - 1].rstrip("\\")) + re.sub(r"\\(.)", r"\1", body[i + 1 :]).replace("?", ""))
        for s in sorted(alts):
            cases.append((p, s))
    outl = ctx.run_model(DRIVER, [f"pat|{enc_str(p)}|{enc_str(s)}" for p, s in cases])
    for (p, s), ml in zip(cases, outl):
        out.evaluations += 1
        want = "T" if re.search(p, s) else "F"
        out.count("pattern:" + want)
        if ml != want:
            out.mismatches.append(Finding("mismatch:pattern", {"stream": "pattern", "pattern": p, "string": s}, observed=want, expected=ml, detail="pattern matcher vs re.search"))


def _collect_patterns():
    for _name, (s, _v) in schemas().items():
        for _p, v in paths_all(s):
            if isinstance(v, dict) and isinstance(v.get("pattern"), str):
                yield v["pattern"]


def paths_all(doc, pre=()):
    yield pre, doc
    if isinstance(doc, dict):
        for k, v in doc.items():
            yield from paths_all(v, pre + (k,))
    elif isinstance(doc, list):
        for i, v in enumerate(doc):
            yield from paths_all(v, pre + (i,))


KNOWN_KIND_RANK0 = "oracle:conformance_rank0_array"


def rank0_stream(ctx: Ctx, out: Outcome):
    """The one Array field of WavefunctionProperties without a reshaping validator (localized_fock_a/b, declared nmo x nmo): a
    rank-0 value is accepted and emitted as a bare number, which the published schema (type: array) rejects.  Proved on the model as
    C09Models.rank0_array_counterexample; a genuine defect of the unchanged library, recorded (C09-rank0-localized-fock).  A few cases
    per run, reported under their own kind so that the recorded class stays narrow."""
    import qcelemental as qcel

    rng = ctx.rng
    for _ in range(ctx.scale(4, 20)):
        for attempt in range(20):
            kw = gen_result(rng, rng.choice(["energy", "gradient"]))
            if isinstance(kw.get("wavefunction"), dict) and kw["wavefunction"].get("basis") is not None:
                break
        else:
            continue
        which = rng.choice(["localized_fock_a", "localized_fock_b"])
        kw = copy.deepcopy(kw)
        kw["wavefunction"][which] = rng.choice([5.0, 0.25, -1.5])
        kw["wavefunction"]["restricted"] = False
        kw.setdefault("protocols", {})
        kw["protocols"] = dict(kw["protocols"], wavefunction="all")
        case = {"stream": "rank0", "model": "AtomicResult", "kwargs": kw, "field": which}
        try:
            inst = build("AtomicResult", kw, {})
            doc = json.loads(inst.json(exclude_unset=True, exclude_none=True))
        except Exception as e:  # noqa -- refused: the recorded class is gone (a validator landed); nothing to report
            out.count("rank0:refused_or_unbuildable:" + err_class(e))
            continue
        out.evaluations += 1
        out.count("rank0:accepted")
        e = first_error("AtomicResult", doc)
        if e is not None:
            path = [str(x) for x in e.absolute_path]
            kind = KNOWN_KIND_RANK0 if (path[-2:] == ["wavefunction", which] and e.validator == "type" and not isinstance(doc["wavefunction"][which], list)) else "oracle:conformance"
            out.violations.append(Finding(kind, case, observed={"path": path, "validator": e.validator, "emitted": doc.get("wavefunction", {}).get(which)}, expected="validates",
                                          detail=f"rank-0 {which} is emitted as a bare number; the published schema demands an array"))


def run(ctx: Ctx) -> Outcome:
    out = Outcome()
    tie_and_wf(ctx, out)
    rank0_stream(ctx, out)
    pattern_stream(ctx, out)
    items = list(gen_instances(ctx))
    built = check_instances(ctx, out, items)
    nmol = 0
    for stream, model, case, inst, doc, _, _b in built:
        if model == "Molecule" and nmol < ctx.scale(400, 3200):
            nmol += 1
            check_molecule_rebuild(ctx, out, inst, case)
    run_partb(ctx, out)
    run_partc(ctx, out)
    run_from_data_text(ctx, out)  # last: draws from ctx.rng after every other stream
    out.exhaustive = False
    out.notes.append("all streams sampled from VERIF_SEED; the schema tie and the pattern table are exhaustive over what the six schemas contain")
    return out


def replay(ctx: Ctx, case) -> Outcome:
    out = Outcome()
    stream = case.get("stream") if isinstance(case, dict) else None
    if stream == "instance":
        built = check_instances(ctx, out, [("replay", case["model"], case["kwargs"], dict(case.get("flags") or {}, **({"__prior_calls": case["prior_calls"]} if case.get("prior_calls") else {})))])
        for _s, model, c, inst, _d, _l, _b in built:
            if model == "Molecule":
                check_molecule_rebuild(ctx, out, inst, c)
    elif stream == "molrec":
        rec = make_molrec(case["from_arrays"])
        check_toschema(ctx, out, [(case["from_arrays"], rec)])
    elif stream == "schema_dict":
        check_fromschema(ctx, out, [("replay", case["dict"])])
    elif stream == "construct":
        check_construct(ctx, out, [case["kwargs"]])
    elif stream == "from_data":
        check_from_data_text(ctx, out, [case["text"]])
    elif stream == "document":
        model, d2 = case["model"], case["document"]
        ml = ctx.run_model(DRIVER, [f"val|{model}|{enc_json(d2)}"])[0] if ctx.model_available else None
        ok = schemas()[model][1].is_valid(d2)
        out.evaluations += 1
        if ml is not None and ml != ("T" if ok else "F"):
            out.mismatches.append(Finding("mismatch:validate_perturbed", case, observed="jsonschema " + str(ok), expected="lean " + ml))
    elif stream == "rank0":
        rank0_stream(ctx, out)
    elif stream == "pattern":
        pattern_stream(ctx, out)
    else:
        tie_and_wf(ctx, out)
    return out


def known_predicate(finding: Finding, entry) -> bool:
    """C09-basis-uniqueItems: only a jsonschema failure on a `uniqueItems` keyword, only for the models that embed a BasisSet."""
    if entry.get("id") == "C09-rank0-localized-fock":
        o = finding.observed or {}
        c = finding.case or {}
        return (finding.kind == KNOWN_KIND_RANK0 and c.get("stream") == "rank0" and c.get("field") in ("localized_fock_a", "localized_fock_b")
                and o.get("validator") == "type" and (o.get("path") or [])[-2:] == ["wavefunction", c.get("field")] and not isinstance(o.get("emitted"), list))
    if entry.get("id") != "C09-basis-uniqueItems" or finding.kind != KNOWN_KIND:
        return False
    obs = finding.observed or {}
    sp = obs.get("schema_path") or []
    model = (finding.case or {}).get("model")
    return bool(sp) and sp[-1] == "uniqueItems" and model in ("BasisSet", "AtomicInput", "AtomicResult")
