"""C02 translator: qcelemental/physical_constants/context.py  ->  lean/QcelVerif/Gen/ContextSrc.lean

Reads `PhysicalConstantsContext` by `ast` (never imports it) and symbolically executes `__init__` once per supported
context string ("CODATA2014", "CODATA2018"), deciding every `if context == "<literal>"` statically:

  * `_transtable = str.maketrans(x, y, z)` (or the one-dict form)        -> `transTable : List (Nat × List Nat)`
    (character -> replacement bytes, `[]` = deleted);
  * which data table a context loads (`from ..data import nist_20xx_codata`, `self.doi`, `self.raw_codata`) -> `dataSet20xx`;
  * `self.pc["<key>"] = Datum("<label>", "<units>", <decimal expr>, comment="…")` (the calorie-joule relationship)
                                                                        -> `extras20xx : List (Bytes × AliasDef)`;
  * the dict literal iterated by the rename loop and the loop's shape     -> `renames20xx : List (Bytes × Bytes)` (source key, inserted name);
  * `aliases = [...]` / `aliases.extend([...])`: every tuple, its fields assigned to label / units / data / comment by reading
    the insertion loop (`ident, units, value, comment = alias; self.pc[ident.lower()] = Datum(ident, units, value, comment=comment)`)
    and its Decimal expression tree translated to the expression language of lean/QcelVerif/Model/Constants.lean:
        self.pc['<lower-case key>'].data  -> .pc      Decimal('<text>') / Decimal(<int>) / bare int operand  -> .lit
        a * b -> .mul     a / b -> .div      _get_pi(from_scratch=False) -> its `return Decimal("…")` inlined
    -> `initial20xx` (the list assigned first: the three derived legacy constants in 2018) and `extended20xx` (the 27 aliases);
  * the order of the stages (constant loop, extras, renames, evaluation of ALL alias tuples, insertion loop, attribute loop)
    is checked to be the one `Model/ConstantsSrc.lean: buildPCFrom` executes; the constant loop and the attribute loop are
    checked to have the shape the hand-written model transcribes.

Anything else fails loudly (`Unsupported`): `+`, `-`, `**`, float literals / `float(...)`, `Decimal(<float>)`, upper-case keys
(a KeyError at run time), computed keys, a different tuple arity, further statements touching `self.pc`, … .  The Decimal model
(Model/Dec.lean through `Expr.evalDec`) has `mul` and `div` nodes only: no shipped definition uses anything else, and the
relative error bound `evalDec_rel_err` has no counterpart for sums (cancellation).  On failure a stub with empty tables and
`translated := false` is written so that every theorem of Props/C02Src.lean fails with the translator, while the driver still builds.
"""
from __future__ import annotations

import ast
from pathlib import Path

import common

CONTEXTS = ("CODATA2014", "CODATA2018")
MAX_DEPTH = 10  # Constants.evalFuel = 12


class Unsupported(Exception):
    pass


def fail(node, msg):
    src = ""
    try:
        src = ast.unparse(node)[:160]
    except Exception:  # noqa
        pass
    raise Unsupported(f"context.py:{getattr(node, 'lineno', '?')}: {msg}: {src}")


def same(node, text: str) -> bool:
    """structural equality with the statement written in `text` (layout / quote style / comments do not matter)"""
    want = ast.parse(text).body[0]
    return ast.dump(node) == ast.dump(want)


def const_str(node, what):
    if isinstance(node, ast.Constant) and isinstance(node.value, str):
        try:
            node.value.encode("ascii")
        except UnicodeEncodeError:
            fail(node, f"{what}: non-ASCII text is outside the model")
        return node.value
    fail(node, f"{what}: a string literal is required")


def is_self_attr(node, attr):
    return isinstance(node, ast.Attribute) and node.attr == attr and isinstance(node.value, ast.Name) and node.value.id == "self"


def mentions(node, pred) -> bool:
    return any(pred(n) for n in ast.walk(node))


# ---- the translate table ------------------------------------------------------------------------------------------
def transtable(cls: ast.ClassDef):
    found = [st for st in cls.body if isinstance(st, ast.Assign) and len(st.targets) == 1 and isinstance(st.targets[0], ast.Name)
             and st.targets[0].id == "_transtable"]
    if len(found) != 1:
        raise Unsupported("class attribute `_transtable` not found exactly once")
    v = found[0].value
    if not (isinstance(v, ast.Call) and isinstance(v.func, ast.Attribute) and v.func.attr == "maketrans"
            and isinstance(v.func.value, ast.Name) and v.func.value.id == "str" and not v.keywords):
        fail(v, "`_transtable` is not a call of str.maketrans")
    table = {}

    def code(ch, node):
        if len(ch) != 1 or ord(ch) > 127:
            fail(node, "translate-table key must be one ASCII character")
        return ord(ch)

    if len(v.args) in (2, 3):
        x, y = const_str(v.args[0], "maketrans x"), const_str(v.args[1], "maketrans y")
        z = const_str(v.args[2], "maketrans z") if len(v.args) == 3 else ""
        if len(x) != len(y):
            fail(v, "maketrans: the first two arguments must have equal length (ValueError at import)")
        for a, b in zip(x, y):
            table[code(a, v)] = [code(b, v)]
        for a in z:
            table[code(a, v)] = []
    elif len(v.args) == 1 and isinstance(v.args[0], ast.Dict):
        for k, val in zip(v.args[0].keys, v.args[0].values):
            if isinstance(k, ast.Constant) and isinstance(k.value, int) and not isinstance(k.value, bool) and 0 <= k.value < 128:
                kc = k.value
            else:
                kc = code(const_str(k, "maketrans key"), v)
            if isinstance(val, ast.Constant) and val.value is None:
                table[kc] = []
            elif isinstance(val, ast.Constant) and isinstance(val.value, int) and not isinstance(val.value, bool) and 0 <= val.value < 128:
                table[kc] = [val.value]
            else:
                table[kc] = list(const_str(val, "maketrans value").encode("ascii"))
    else:
        fail(v, "unsupported form of str.maketrans")
    return list(table.items())


# ---- Decimal expressions -------------------------------------------------------------------------------------------
class Exprs:
    def __init__(self, module: ast.Module):
        self.funcs = {st.name: st for st in module.body if isinstance(st, ast.FunctionDef)}

    def dec(self, node, depth=0):
        """-> ('pc', key) | ('lit', text) | ('mul', a, b) | ('div', a, b)"""
        if depth > MAX_DEPTH:
            fail(node, f"expression deeper than {MAX_DEPTH} (evalFuel of the model)")
        # self.pc['key'].data
        if isinstance(node, ast.Attribute) and node.attr == "data" and isinstance(node.value, ast.Subscript) and is_self_attr(node.value.value, "pc"):
            key = const_str(node.value.slice, "key of self.pc[...]")
            if key != key.lower():
                fail(node, "key of self.pc[...] is not lower-case (pc keys are lower-case: KeyError at construction)")
            return ("pc", key)
        if isinstance(node, ast.Call) and isinstance(node.func, ast.Name) and node.func.id == "Decimal":
            if len(node.args) != 1 or node.keywords:
                fail(node, "Decimal(...) with other than one positional argument")
            a = node.args[0]
            if isinstance(a, ast.Constant) and isinstance(a.value, str):
                return ("lit", const_str(a, "Decimal text"))
            if isinstance(a, ast.Constant) and isinstance(a.value, int) and not isinstance(a.value, bool) and a.value >= 0:
                return ("lit", str(a.value))
            fail(node, "Decimal(<not a string / non-negative int literal>): a float argument carries its binary expansion, not the decimal text")
        if isinstance(node, ast.Constant):
            if isinstance(node.value, int) and not isinstance(node.value, bool) and node.value >= 0:
                return ("lit", str(node.value))  # int operand of Decimal arithmetic is converted exactly
            fail(node, f"{type(node.value).__name__} literal in Decimal arithmetic (float operands raise TypeError / are not decimal arithmetic)")
        if isinstance(node, ast.BinOp):
            if isinstance(node.op, ast.Mult):
                return ("mul", self.dec(node.left, depth + 1), self.dec(node.right, depth + 1))
            if isinstance(node.op, ast.Div):
                return ("div", self.dec(node.left, depth + 1), self.dec(node.right, depth + 1))
            fail(node, f"operator {type(node.op).__name__} is not in the decimal expression language of the model (mul / div only)")
        if isinstance(node, ast.Call) and isinstance(node.func, ast.Name) and node.func.id in self.funcs:
            return self.inline(self.funcs[node.func.id], node, depth)
        fail(node, "unsupported node in a Decimal expression")

    def inline(self, f: ast.FunctionDef, call: ast.Call, depth):
        """a module-level helper called with literal arguments whose body is `if <param>: … else: return <decimal expr>`"""
        a = f.args
        if a.vararg or a.kwarg or a.kwonlyargs or a.posonlyargs:
            fail(call, f"call of `{f.name}` not supported (signature)")
        params = [p.arg for p in a.args]
        env = {}
        defaults = dict(zip(params[len(params) - len(a.defaults):], a.defaults))
        for p, arg in zip(params, call.args):
            env[p] = arg
        for kw in call.keywords:
            if kw.arg not in params or kw.arg in env:
                fail(call, f"call of `{f.name}`: bad keyword")
            env[kw.arg] = kw.value
        for p in params:
            if p not in env:
                if p not in defaults:
                    fail(call, f"call of `{f.name}`: missing argument {p}")
                env[p] = defaults[p]
        for p, v in env.items():
            if not (isinstance(v, ast.Constant) and isinstance(v.value, bool)):
                fail(call, f"call of `{f.name}`: argument {p} is not a literal True/False")
        body = list(f.body)
        if body and isinstance(body[0], ast.Expr) and isinstance(body[0].value, ast.Constant) and isinstance(body[0].value.value, str):
            body = body[1:]
        while True:
            if len(body) == 1 and isinstance(body[0], ast.Return) and body[0].value is not None:
                return self.dec(body[0].value, depth)
            if len(body) == 1 and isinstance(body[0], ast.If) and isinstance(body[0].test, ast.Name) and body[0].test.id in env:
                body = body[0].body if env[body[0].test.id].value else body[0].orelse
                continue
            fail(f, f"body of helper `{f.name}` has an unsupported shape")


# ---- symbolic execution of __init__ --------------------------------------------------------------------------------
CONST_LOOP = """
for k, v in self.raw_codata.items():
    self.pc[k] = Datum(v["quantity"], v["unit"], Decimal(v["value"]), comment="uncertainty={}".format(v["uncertainty"]), doi=self.doi)
"""
ATTR_LOOP = """
for qca in self.pc.values():
    callname = qca.label.translate(self._transtable)
    setattr(self, callname, float(qca.data))
"""
PC_INIT = "self.pc = collections.OrderedDict()"


class Run:
    """one pass over `__init__` with `context` fixed"""

    def __init__(self, ex: Exprs, init: ast.FunctionDef, context: str):
        self.ex, self.context = ex, context
        a = init.args
        if [p.arg for p in a.args] != ["self", "context"] or a.vararg or a.kwarg or a.kwonlyargs or a.posonlyargs or len(a.defaults) != 1:
            fail(init, "signature of __init__ is not (self, context=<default>)")
        self.default = const_str(a.defaults[0], "default of `context`")
        self.events = []  # stage log: 'pc-init', 'const-loop', ('extra', …), ('renames', pairs), ('alias-eval', n), 'alias-insert', 'attr-loop'
        self.dicts = {}  # local name -> [(key, value)] of a dict literal of string literals
        self.data_imports = set()
        self.doi_from = self.raw_from = None
        self.aliases = None  # None (unassigned) or list of raw tuple nodes
        self.segments = []  # [[tuple nodes]] : the list assigned first, then every extend
        self.extras = []
        self.renames = []
        self.roles = None
        self.block(init.body)

    # -- statements --
    def block(self, stmts):
        for st in stmts:
            self.stmt(st)

    def stmt(self, st):
        if isinstance(st, ast.Expr) and isinstance(st.value, ast.Constant) and isinstance(st.value.value, str):
            return  # docstring
        if isinstance(st, ast.If):
            return self.if_(st)
        if isinstance(st, ast.ImportFrom):
            if st.module == "data" and st.level == 2 and all(al.asname is None for al in st.names):
                self.data_imports |= {al.name for al in st.names}
                return
            fail(st, "unsupported import inside __init__")
        if isinstance(st, ast.Raise):
            fail(st, f"__init__ raises for context {self.context!r}")
        if isinstance(st, ast.For):
            return self.for_(st)
        if isinstance(st, ast.Assign) and len(st.targets) == 1:
            return self.assign(st, st.targets[0], st.value)
        if (isinstance(st, ast.Expr) and isinstance(st.value, ast.Call) and isinstance(st.value.func, ast.Attribute) and st.value.func.attr == "extend"
                and isinstance(st.value.func.value, ast.Name) and st.value.func.value.id == "aliases"):
            c = st.value
            if len(c.args) != 1 or c.keywords or not isinstance(c.args[0], ast.List):
                fail(st, "aliases.extend(<not a list literal>)")
            if self.aliases is None:
                fail(st, "aliases.extend before `aliases` is assigned (NameError)")
            return self.add_tuples(c.args[0].elts, st)
        fail(st, "unsupported statement in __init__")

    def if_(self, st: ast.If):
        t = st.test
        if not (isinstance(t, ast.Compare) and len(t.ops) == 1 and isinstance(t.ops[0], ast.Eq) and isinstance(t.left, ast.Name)
                and t.left.id == "context" and len(t.comparators) == 1):
            fail(st, "condition is not `context == \"<literal>\"`")
        lit = const_str(t.comparators[0], "context literal")
        if lit == self.context:
            return self.block(st.body)
        return self.block(st.orelse)

    def assign(self, st, target, value):
        if is_self_attr(target, "pc"):
            if self.events or not same(st, PC_INIT):
                fail(st, "self.pc is (re)assigned in an unsupported way")
            self.events.append("pc-init")
            return
        if isinstance(target, ast.Attribute) and isinstance(target.value, ast.Name) and target.value.id == "self":
            # self.doi / self.raw_codata / self.name / self.year / self._ureg : no effect on pc, must not read pc or aliases
            if mentions(value, lambda n: is_self_attr(n, "pc") or (isinstance(n, ast.Name) and n.id == "aliases")):
                fail(st, "attribute assignment reads self.pc / aliases")
            if target.attr in ("doi", "raw_codata"):
                if not (isinstance(value, ast.Subscript) and isinstance(value.value, ast.Name) and value.value.id in self.data_imports):
                    fail(st, f"self.{target.attr} is not taken from an imported data table")
                field = const_str(value.slice, "data table field")
                if field != {"doi": "doi", "raw_codata": "constants"}[target.attr]:
                    fail(st, f"self.{target.attr} is taken from field {field!r}")
                if "const-loop" in self.events:
                    fail(st, f"self.{target.attr} assigned after the constant loop")
                if target.attr == "doi":
                    self.doi_from = value.value.id
                else:
                    self.raw_from = value.value.id
            return
        if isinstance(target, ast.Subscript) and is_self_attr(target.value, "pc"):
            return self.extra(st, target, value)
        if isinstance(target, ast.Name):
            if target.id == "aliases":
                if not isinstance(value, ast.List):
                    fail(st, "`aliases` assigned something other than a list literal")
                if self.aliases is not None:
                    fail(st, "`aliases` assigned twice on this path")
                self.aliases = []
                return self.add_tuples(value.elts, st, first=True)
            if isinstance(value, ast.Dict):
                self.dicts[target.id] = [(const_str(k, "dict key"), const_str(v, "dict value")) for k, v in zip(value.keys, value.values)]
                keys = [k for k, _ in self.dicts[target.id]]
                if len(set(keys)) != len(keys):
                    fail(st, "duplicate key in dict literal")
                return
        fail(st, "unsupported assignment in __init__")

    def datum_call(self, call, st):
        """-> (label node, units node, data node, comment node | None); doi must be absent"""
        if not (isinstance(call, ast.Call) and isinstance(call.func, ast.Name) and call.func.id == "Datum" and len(call.args) == 3):
            fail(st, "value stored in self.pc is not Datum(label, units, data, …)")
        kws = {k.arg: k.value for k in call.keywords}
        if set(kws) - {"comment"}:
            fail(st, f"Datum keyword(s) {sorted(set(kws) - {'comment'})} not supported here (model stores doi=None, no glossary)")
        return call.args[0], call.args[1], call.args[2], kws.get("comment")

    def extra(self, st, target, value):
        if "const-loop" not in self.events or any(isinstance(e, tuple) and e[0] in ("renames", "alias-eval") for e in self.events) or "alias-insert" in self.events:
            fail(st, "a literal-key insertion into self.pc outside the stage after the constant loop and before renames/aliases")
        key = const_str(target.slice, "key of self.pc[...] = …")
        label, units, data, comment = self.datum_call(value, st)
        if comment is None:
            fail(st, "Datum without comment (model stores a comment string)")
        e = (key, const_str(label, "label"), const_str(units, "units"), self.ex.dec(data), const_str(comment, "comment"))
        self.extras.append(e)
        self.events.append(("extra", key))

    def add_tuples(self, elts, st, first=False):
        if "alias-insert" in self.events:
            fail(st, "alias tuples built after the insertion loop")
        for e in elts:
            if not (isinstance(e, ast.Tuple) and len(e.elts) == 4):
                fail(e, "alias entry is not a 4-tuple")
        self.aliases += list(elts)
        self.segments.append(list(elts))
        self.events.append(("alias-eval", len(elts)))

    def for_(self, st: ast.For):
        if st.orelse:
            fail(st, "for … else")
        if same(st, CONST_LOOP):
            if self.events != ["pc-init"] or self.doi_from is None or self.raw_from is None:
                fail(st, "constant loop not directly after self.pc / doi / raw_codata are set")
            self.events.append("const-loop")
            return
        if same(st, ATTR_LOOP):
            if "alias-insert" not in self.events:
                fail(st, "attribute loop before the alias insertion loop")
            self.events.append("attr-loop")
            return
        # rename loop: for new, old in <dict>.items(): dm = self.pc[new.lower()]; self.pc[old.lower()] = Datum(old, dm.units, dm.data, comment=dm.comment, doi=dm.doi)
        it = st.iter
        if (isinstance(it, ast.Call) and isinstance(it.func, ast.Attribute) and it.func.attr == "items" and isinstance(it.func.value, ast.Name)
                and it.func.value.id in self.dicts and not it.args and not it.keywords):
            d = it.func.value.id
            if not (isinstance(st.target, ast.Tuple) and len(st.target.elts) == 2 and all(isinstance(x, ast.Name) for x in st.target.elts)):
                fail(st, "rename loop target is not a pair of names")
            a, b = (x.id for x in st.target.elts)
            want = (f"for {a}, {b} in {d}.items():\n"
                    f"    dm = self.pc[{a}.lower()]\n"
                    f"    self.pc[{b}.lower()] = Datum({b}, dm.units, dm.data, comment=dm.comment, doi=dm.doi)\n")
            if not same(st, want):
                fail(st, "rename loop body differs from `dm = self.pc[src.lower()]; self.pc[dst.lower()] = Datum(dst, dm.units, dm.data, comment=dm.comment, doi=dm.doi)`")
            if any(isinstance(e, tuple) and e[0] == "alias-eval" for e in self.events) or not self.events or self.events[0] != "pc-init" or "const-loop" not in self.events:
                fail(st, "rename loop outside the stage between the extras and the alias definitions")
            if self.renames:
                fail(st, "second rename loop")
            self.renames = list(self.dicts[d])
            self.events.append(("renames", len(self.renames)))
            return
        # insertion loop
        if isinstance(it, ast.Name) and it.id == "aliases" and isinstance(st.target, ast.Name):
            if self.aliases is None:
                fail(st, "insertion loop over an unassigned `aliases`")
            v = st.target.id
            if not (len(st.body) == 2 and isinstance(st.body[0], ast.Assign) and len(st.body[0].targets) == 1 and isinstance(st.body[0].targets[0], ast.Tuple)
                    and isinstance(st.body[0].value, ast.Name) and st.body[0].value.id == v
                    and all(isinstance(x, ast.Name) for x in st.body[0].targets[0].elts) and len(st.body[0].targets[0].elts) == 4):
                fail(st, "insertion loop does not start with a 4-name unpacking of the tuple")
            names = [x.id for x in st.body[0].targets[0].elts]
            if len(set(names)) != 4:
                fail(st, "unpacking repeats a name")
            ins = st.body[1]
            if not (isinstance(ins, ast.Assign) and len(ins.targets) == 1 and isinstance(ins.targets[0], ast.Subscript) and is_self_attr(ins.targets[0].value, "pc")):
                fail(st, "insertion loop does not assign self.pc[...]")
            label, units, data, comment = self.datum_call(ins.value, st)
            if comment is None or not all(isinstance(x, ast.Name) and x.id in names for x in (label, units, data, comment)):
                fail(st, "Datum(...) of the insertion loop does not take its four fields from the unpacked tuple")
            roles = {"label": names.index(label.id), "units": names.index(units.id), "data": names.index(data.id), "comment": names.index(comment.id)}
            if len(set(roles.values())) != 4:
                fail(st, "a tuple field is used twice")
            key = ins.targets[0].slice
            if not (isinstance(key, ast.Call) and not key.args and not key.keywords and isinstance(key.func, ast.Attribute) and key.func.attr == "lower"
                    and isinstance(key.func.value, ast.Name) and key.func.value.id == label.id):
                fail(st, "insertion key is not <label>.lower()")
            if "alias-insert" in self.events:
                fail(st, "second insertion loop")
            self.roles = roles
            self.events.append("alias-insert")
            return
        fail(st, "unsupported loop in __init__")

    # -- result --
    def finish(self):
        ev = [e if isinstance(e, str) else e[0] for e in self.events]
        core = [e for e in ev if e not in ("extra", "alias-eval")]
        want = ["pc-init", "const-loop"] + (["renames"] if self.renames else []) + ["alias-insert", "attr-loop"]
        if core != want or self.roles is None:
            raise Unsupported(f"{self.context}: stages of __init__ are {ev}, the model executes pc-init, const-loop, extras, [renames], alias evaluation, alias-insert, attr-loop")
        if self.doi_from != self.raw_from:
            raise Unsupported(f"{self.context}: doi and constants come from different tables ({self.doi_from}, {self.raw_from})")
        if not self.segments:
            raise Unsupported(f"{self.context}: `aliases` never assigned")
        r = self.roles

        def adef(t):
            return (const_str(t.elts[r["label"]], "alias name"), const_str(t.elts[r["units"]], "alias units"),
                    self.ex.dec(t.elts[r["data"]]), const_str(t.elts[r["comment"]], "alias comment"))

        initial = [adef(t) for t in self.segments[0]]
        extended = [adef(t) for seg in self.segments[1:] for t in seg]
        return {"data": self.raw_from, "extras": self.extras, "renames": self.renames, "initial": initial, "extended": extended, "default": self.default}


# ---- rendering -----------------------------------------------------------------------------------------------------
def lstr(s: str) -> str:
    return 'b!"' + s.replace("\\", "\\\\").replace('"', '\\"') + '"'


def lexpr(e) -> str:
    if e[0] == "pc":
        return f"(.pc {lstr(e[1])})"
    if e[0] == "lit":
        return f"(.lit {lstr(e[1])})"
    return f"(.{e[0]} {lexpr(e[1])} {lexpr(e[2])})"


def ldef(a) -> str:
    return f"⟨{lstr(a[0])}, {lstr(a[1])}, {lexpr(a[2])}, {lstr(a[3])}⟩"


def llist(items, indent="  ") -> str:
    return "[]" if not items else "[ " + (",\n" + indent + "  ").join(items) + " ]"


HEADER = "import QcelVerif.Model.Constants\n"


def render(res) -> str:
    L = [HEADER + "/-! GENERATED by harness/c02_src.py from qcelemental/physical_constants/context.py — do not edit.",
         "`__init__` executed symbolically once per context; Decimal expression trees in the language of Model/Constants.lean. -/",
         "namespace QcelVerif.Gen.ContextSrc", "open QcelVerif QcelVerif.Constants", "",
         "def translated : Bool := true", "",
         "/-- `_transtable` (str.maketrans): character ↦ replacement bytes, `[]` = deleted -/",
         "def transTable : List (Nat × List Nat) := [" + ", ".join(f"({k}, [{', '.join(map(str, v))}])" for k, v in res["trans"]) + "]", "",
         "/-- default of the `context` parameter and the argument of the module-level singleton `constants` -/",
         f"def defaultContext : List Nat := {lstr(res['default'])}",
         f"def singletonContext : List Nat := {lstr(res['singleton'])}", ""]
    for c in CONTEXTS:
        y = c[-4:]
        r = res[c]
        L += [f"/-! ### context \"{c}\" -/",
              f"def dataSet{y} : List Nat := {lstr(r['data'])}",
              "/-- literal-key insertions after the constant loop: (key, ⟨label, units, data, comment⟩), doi absent -/",
              f"def extras{y} : List (List Nat × AliasDef) :=\n  " + llist([f"({lstr(e[0])}, {ldef(e[1:])})" for e in r["extras"]]),
              "/-- rename loop: (key looked up, name inserted) in dict order -/",
              f"def renames{y} : List (List Nat × List Nat) :=\n  " + llist([f"({lstr(a)}, {lstr(b)})" for a, b in r["renames"]]),
              "/-- the list `aliases` is first assigned -/",
              f"def initial{y} : List AliasDef :=\n  " + llist([ldef(a) for a in r["initial"]]),
              "/-- everything `aliases.extend([...])` adds, in order -/",
              f"def extended{y} : List AliasDef :=\n  " + llist([ldef(a) for a in r["extended"]]), ""]
    L.append("end QcelVerif.Gen.ContextSrc")
    return "\n".join(L) + "\n"


def stub(msg: str) -> str:
    msg = msg.replace("-/", "- /")
    L = [HEADER + "/-! GENERATED by harness/c02_src.py — the source could NOT be translated:", msg, "-/",
         "namespace QcelVerif.Gen.ContextSrc", "open QcelVerif QcelVerif.Constants",
         "def translated : Bool := false",
         "def transTable : List (Nat × List Nat) := []",
         "def defaultContext : List Nat := []", "def singletonContext : List Nat := []"]
    for c in CONTEXTS:
        y = c[-4:]
        L += [f"def dataSet{y} : List Nat := []", f"def extras{y} : List (List Nat × AliasDef) := []", f"def renames{y} : List (List Nat × List Nat) := []",
              f"def initial{y} : List AliasDef := []", f"def extended{y} : List AliasDef := []"]
    L.append("end QcelVerif.Gen.ContextSrc")
    return "\n".join(L) + "\n"


def extract(src: str):
    module = ast.parse(src)
    classes = [st for st in module.body if isinstance(st, ast.ClassDef) and st.name == "PhysicalConstantsContext"]
    if len(classes) != 1:
        raise Unsupported("class PhysicalConstantsContext not found exactly once")
    cls = classes[0]
    inits = [st for st in cls.body if isinstance(st, ast.FunctionDef) and st.name == "__init__"]
    if len(inits) != 1:
        raise Unsupported("__init__ not found exactly once")
    ex = Exprs(module)
    res = {"trans": transtable(cls)}
    for c in CONTEXTS:
        run = Run(ex, inits[0], c)
        res[c] = run.finish()
        res["default"] = run.default
    single = [st for st in module.body if isinstance(st, ast.Assign) and len(st.targets) == 1 and isinstance(st.targets[0], ast.Name) and st.targets[0].id == "constants"]
    if len(single) != 1:
        raise Unsupported("module-level singleton `constants` not found exactly once")
    v = single[0].value
    if not (isinstance(v, ast.Call) and isinstance(v.func, ast.Name) and v.func.id == "PhysicalConstantsContext" and not v.keywords and len(v.args) <= 1):
        fail(v, "singleton is not PhysicalConstantsContext(<literal>)")
    res["singleton"] = const_str(v.args[0], "singleton context") if v.args else res["default"]
    return res


def translate_source(src: str) -> str:
    return render(extract(src))


def gen_context_src(ctx=None) -> None:
    """lean/QcelVerif/Gen/ContextSrc.lean <- qcelemental/physical_constants/context.py"""
    f = common.LEAN / "QcelVerif" / "Gen" / "ContextSrc.lean"
    f.parent.mkdir(exist_ok=True)
    try:
        body = translate_source((common.REPO / "qcelemental" / "physical_constants" / "context.py").read_text())
    except Exception as e:
        body = stub(f"{type(e).__name__}: {e}")
        if not f.exists() or f.read_text() != body:
            f.write_text(body)
        raise
    if not f.exists() or f.read_text() != body:
        f.write_text(body)


if __name__ == "__main__":
    import sys

    print(translate_source(Path(sys.argv[1] if len(sys.argv) > 1 else "/repo/qcelemental/physical_constants/context.py").read_text()))
