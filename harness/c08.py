"""C08 — program input blocks state exactly the molecule they were made from.

generator (validated molecules x 14 dtypes x units x width/prec x format overrides)
  -> real qcelemental.molparse.to_string / Molecule.to_string (in process, return_data=True)
  -> the same cases as lines to the Lean driver (Model/ToString.lean) -> text compared line by line,
     fields and keywords compared as typed values
plus an independent Python oracle: per-dtype extractor that reads the atom lines, charge/multiplicity
and the announced unit back out of the text/keywords and compares them with the molecule.
"""
from __future__ import annotations

import contextlib
import io
import math
import re
from decimal import Decimal
from fractions import Fraction

import numpy as np

from common import Ctx, Finding, Outcome

PROPERTY = "C08"
LEAN_TARGETS = ["QcelVerif.Props.C08", "QcelVerif.Driver.C08"]
DRIVER = "QcelVerif/Driver/C08.lean"
THEOREMS = [
    ("QcelVerif.FixedFmt.rhe_isNearestEven", "the rounding used by the fixed-point printer returns a nearest integer to tn/td, the even one on an exact tie"),
    ("QcelVerif.FixedFmt.isNearestEven_unique", "at most one integer is nearest-with-ties-to-even to a given non-negative rational"),
    ("QcelVerif.FixedFmt.isFixedRounding_unique", "at most one string passes the checker isFixedRounding for a given (sign bit, exact value, precision)"),
    ("QcelVerif.FixedFmt.isFixedRounding_spec", "a string that passes is sign ++ I ++ ('.' ++ F) with |F| = prec and value(I F) = N/10^prec where N is nearest-even to |q|*10^prec, i.e. within 1/2 * 10^-prec of |q| (ties to even)"),
    ("QcelVerif.ToString.formatter_lists_shown_atoms", "_atoms_formatter success: the lines are exactly one line per shown atom (real, or ghost with non-empty ghost format), in the molecule's order, each built from that atom's label and its own three coordinates"),
    ("QcelVerif.ToString.words_atomLine", "a whitespace tokeniser (str.split) reads from an atom line exactly the words of the label followed by the three coordinate texts in x, y, z order (any width, any label)"),
    ("QcelVerif.ToString.formatter_length", "number of atom lines = number of shown atoms; = number of atoms when the ghost format is non-empty"),
    ("QcelVerif.ToString.extract_atomLines", "for every dtype and every molecule: reading the text back by the format's layout (skip header, stop at the footer / use the count line / drop fragment separators) returns exactly the formatter's atom lines"),
    ("QcelVerif.ToString.spelling", "per dtype, the label of a real / ghost atom is the program's spelling (orca E / E:, cfour E / GH, nwchem E+lbl / bqE+lbl, gamess ' E+lbl Z' / ' E -Z', terachem E / XE, psi4 E+lbl / Gh(E+lbl), qchem E / @E, madness E / GH, molpro/mrchem/turbomole E / E, xyz default E / @E)"),
    ("QcelVerif.ToString.ghost_suppressed_only_xyz_empty", "ghost atoms are dropped iff dtype is xyz/xyz+ and ghost_format = ''; every other dtype lists every atom"),
    ("QcelVerif.ToString.npSplit_flatten", "np.split at ascending separators: the blocks concatenate to the atom lines and block k has seps[k]-seps[k-1] lines"),
    ("QcelVerif.ToString.fragment_blocks_partition", "psi4/qchem: the fragment loop output, with the '--' and charge/multiplicity lines removed, is the atom lines; block k is headed by fragment k's charge and multiplicity"),
    ("QcelVerif.ToString.molpro_dummy_indices", "the molpro dummy card lists exactly the 1-based positions of the ghost atoms, ascending (strictly increasing, each names a ghost, every ghost named)"),
    ("QcelVerif.ToString.chgmult_stated", "per dtype with a slot: the charge / multiplicity text line or keyword is the molecule's value (molpro spin = mult-1, nwchem nopen = mult-1); dtypes without a slot are listed explicitly"),
    ("QcelVerif.ToString.announced_unit_is_used", "decision table 14 dtypes x 2 stored units x 5 requests x pinned/unpinned: whenever the unit word written is one the target program reads as unit u, the factor applied is the one converting stored -> u"),
    ("QcelVerif.ToString.unit_error_rows", "the rows that raise (orca/terachem/psi4/qchem x nm,pm: KeyError; turbomole x not-Bohr: KeyError; sdf x not-Angstrom: ValueError) are exactly these"),
    ("QcelVerif.ToString.checked_coordinates", "what the driver verifies before rendering: a value f for the model-selected factor exists and every coordinate text is the unique correctly rounded decimal (prec digits; 4 for SDF) of a double within relative 2^-53 of stored x * f"),
    ("QcelVerif.ToString.unit_none_rows", "the rows that write the word None instead of a unit are exactly cfour/molpro/gamess/madness x nm,pm (outside the property's quantifier)"),
]
TRUSTED_BASE = [
    "Lean 4.33 kernel; axioms per theorem audited on every run (subset of propext, Classical.choice, Quot.sound)",
    "hand-written model Model/ToString.lean of to_string.py:73-511 tied by differential correspondence (exact text, fields, typed keywords) on the generated stream",
    "CPython format(x, '.{p}f') and str(float): taken as parameters; every printed coordinate is checked by the Lean checker isFixedRounding against the exact rational of the double (Model/FixedFmt.lean)",
    "numpy elementwise double multiply geom*factor: the product is a parameter, checked against the exact product with the model-selected factor under the IEEE standard model |p - xf| <= 2^-53 |xf|",
    "constants.bohr2angstroms (C02) and constants.conversion_factor (C03) values are parameters; the oracle checks conversion_factor against the SI definitions (relative 1e-12)",
    "guess_connectivity (C18) supplies the SDF bond list when the molecule has none (parameter); from_arrays / from_schema build the molrec (C04)",
    "harness/c08.py generators and the Python oracle",
]
ASSUMPTIONS = [
    "integer charges (the property's scope); ASCII names/labels/format overrides",
    "format overrides use plain {field} replacement fields, {{ and }} (conversions/specs/positional fields are outside the model: Err.unsupported, not generated); overrides with unknown fields or unbalanced braces are generated for the correspondence only",
    "a pinned input_units_to_au on Bohr storage is 1.0",
    "nm/pm on dtypes that do not spell them (error rows and the four 'None' rows) are generated for the correspondence only; the oracle makes no demand there",
    "formats without a charge/multiplicity slot (terachem, turbomole, nglview-sdf; madness has no multiplicity value, only spin_restricted) are outside the chgmult clause and counted in the distribution",
    "width >= 1; precision 0..16",
]
RULE = (
    "molecules: from_arrays-validated, 1-12 atoms on a jittered lattice (coordinates with 1-10 decimals, negative, -0.0 and tiny values), ghosts anywhere, "
    "user labels, isotopes / non-standard masses, 1-4 fragments with valid (charge, multiplicity) in -3..3 / 1..6, Bohr or Angstrom storage, input_units_to_au absent or pinned "
    "(three CODATA-ish values), names, fix_com/fix_orientation/fix_symmetry, explicit bonds; for each molecule EVERY dtype x a rotating choice of unit request "
    "(default, Bohr, Angstrom, case variants, nm, pm) x width/precision x atom_format/ghost_format overrides, both molparse.to_string and Molecule.to_string. "
    "A case is distinct by (molecule, dtype, units, width, prec, overrides, route) and non-trivial when it has a ghost, >1 fragment, a unit conversion, an override or an error outcome."
)
LEVEL_TEXT = (
    "Lean proofs (any number of atoms/fragments) about a hand model of to_string: atom lines once and in order, layout read-back, spellings, fragment partition, dummy indices, "
    "charge/multiplicity slots, and the complete unit decision table; partial: the theorems are close to the templates, float printing/multiplication are checked parameters, "
    "and the model is tied to the code by exact-text differential runs, not by proof."
)
TECHNIQUE = "Lean 4 proof of list/template theorems and a finite decision table + exact-text behavioural correspondence + independent extractor oracle"

DTYPES = ["xyz", "xyz+", "cfour", "gamess", "molpro", "nwchem", "orca", "psi4", "qchem", "terachem", "turbomole", "madness", "mrchem", "nglview-sdf"]
DEFAULT_UNIT = {d: "bohr" for d in DTYPES}
DEFAULT_UNIT.update({"xyz": "angstrom", "xyz+": "angstrom", "nglview-sdf": "angstrom"})
# rows where the format cannot spell the unit and the implementation refuses (see Props/C08.lean unit_error_rows)
REFUSES = {(d, u) for d in ["orca", "terachem", "psi4", "qchem"] for u in ["nm", "pm"]}
REFUSES |= {("turbomole", u) for u in ["angstrom", "nm", "pm"]}
REFUSES |= {("nglview-sdf", u) for u in ["bohr", "nm", "pm"]}
SPELLS_NM_PM = {"xyz", "xyz+", "nwchem"}

ELEMS = [("H", 1), ("H", 1), ("H", 1), ("He", 2), ("Li", 3), ("Be", 4), ("B", 5), ("C", 6), ("C", 6), ("N", 7), ("O", 8), ("O", 8),
         ("F", 9), ("Ne", 10), ("Na", 11), ("Mg", 12), ("Al", 13), ("Si", 14), ("P", 15), ("S", 16), ("Cl", 17), ("Ar", 18),
         ("K", 19), ("Ca", 20), ("Fe", 26), ("Cu", 29), ("Zn", 30), ("Br", 35), ("Kr", 36), ("I", 53), ("Xe", 54), ("Au", 79), ("U", 92)]
ISOTOPES = {"H": [2, 3], "C": [13, 14], "O": [17, 18], "N": [15], "Cl": [37], "Li": [6], "B": [10], "He": [3], "Br": [81], "U": [235]}
LABELS = ["", "", "", "", "1", "2", "_a", "x", "_gh", "A1b", "12", "_"]
NAMES = [None, None, None, "water dimer", "mol-1", "Zn(II) complex", "a", "x y  z", "CH4", "trailing ", "1,2-diol; test"]
PINNED_A = [1.8897261328856432, 1.889726125, 1.88972612456506, 1.8897]
AFMTS = [None, None, None, "{elem}", "{elem}{elbl}", "{elez}", "{elem}{elea}", "{elem}@{mass}", "{elea}{elem}_{elbl}", "{{{elem}}}", "{elem} {elez}", "x{elbl}-{elem}"]
GFMTS = [None, None, None, "", "", "@{elem}", "Gh({elem})", "{elem}:", "gh_{elem}{elbl}", "X", "@{elem}{elea}", "{elez}-{mass}"]
BAD_FMTS = ["{elen}", "{elem", "elem}", "{elem}}", "{}", "{elem:>4}", "{elem!r}", "{0}"]


def quiet():
    return contextlib.redirect_stdout(io.StringIO())


# --------------------------------------------------------------------------------------
# generator: molecule specs (JSON-able kwargs of from_arrays)


def gen_coord(rng, base):
    r = rng.random()
    if r < 0.04:
        return 0.0
    if r < 0.07:
        return -0.0
    if r < 0.11:
        return rng.choice([1, -1]) * rng.choice([1e-7, 4.9e-5, 5e-4, 5.0000001e-4, 2.5e-3, 1e-13])
    v = base + rng.uniform(-0.45, 0.45)
    if rng.random() < 0.5:
        v = -v
    nd = rng.choice([1, 2, 3, 5, 8, 10, 17])
    return round(v, nd) if nd < 17 else v


def gen_spec(rng):
    """A from_arrays kwargs dict for a validated molecule of 1-12 atoms, 1-4 fragments."""
    nat = rng.choice([1, 1, 2, 2, 3, 3, 4, 5, 6, 7, 8, 10, 12])
    nfr = min(nat, rng.choice([1, 1, 1, 2, 2, 3, 4]))
    cuts = sorted(rng.sample(range(1, nat), nfr - 1)) if nfr > 1 else []
    sizes = [b - a for a, b in zip([0] + cuts, cuts + [nat])]
    sites = [(i, j, k) for i in range(4) for j in range(3) for k in range(3)]
    rng.shuffle(sites)
    elem, elez, real, elbl, elea, mass, geom = [], [], [], [], [], [], []
    pg = rng.choice([0.0, 0.15, 0.15, 0.35, 0.7])
    fcs, fms = [], []
    any_iso = any_mass = False
    scale = rng.choice([1.6, 2.4, 3.1])
    for sz in sizes:
        ghost_frag = rng.random() < 0.12
        zreal = 0
        for _ in range(sz):
            s, z = rng.choice(ELEMS)
            rl = not ghost_frag and rng.random() >= pg
            elem.append(s if rng.random() > 0.1 else s.upper() if rng.random() < 0.5 else s.lower())
            elez.append(z)
            real.append(rl)
            elbl.append(rng.choice(LABELS))
            iso = None
            if s in ISOTOPES and rng.random() < 0.2:
                iso = rng.choice(ISOTOPES[s])
                any_iso = True
            elea.append(iso)
            ms = None
            if iso is None and rng.random() < 0.05:
                ms = round(2.0 * z + rng.uniform(-0.4, 0.4), rng.choice([1, 3, 6]))
                any_mass = True
            mass.append(ms)
            i, j, k = sites.pop()
            geom += [gen_coord(rng, scale * i), gen_coord(rng, scale * j), gen_coord(rng, scale * k)]
            if rl:
                zreal += z
        if zreal == 0:
            fc, fm = 0, 1
        else:
            fc = rng.choice([0, 0, 0, 0, 1, -1, 2, -2, 3, -3])
            if zreal - fc < 0:
                fc = 0
            ne = zreal - fc
            lo = 1 + ne % 2
            fm = lo + 2 * rng.choice([0, 0, 0, 1, 1, 2])
            if fm - 1 > ne or fm > 6:
                fm = lo
        fcs.append(fc)
        fms.append(fm)
    units = rng.choice(["Bohr", "Angstrom"])
    spec = {"elem": elem, "geom": geom, "real": real, "elbl": elbl, "units": units, "speclabel": False,
            "fragment_separators": cuts, "fragment_charges": fcs, "fragment_multiplicities": fms}
    if any_iso:
        spec["elea"] = elea
    if any_mass:
        spec["mass"] = mass
        spec["nonphysical"] = True
    r = rng.random()
    if units == "Angstrom" and r < 0.55:
        spec["input_units_to_au"] = rng.choice(PINNED_A)
    elif units == "Bohr" and r < 0.4:
        spec["input_units_to_au"] = 1.0
    nm = rng.choice(NAMES)
    if nm is not None:
        spec["name"] = nm
    fr = rng.random()
    if fr < 0.3:
        spec["fix_com"], spec["fix_orientation"] = True, True
    elif fr < 0.45:
        spec["fix_com"], spec["fix_orientation"] = True, False
    elif fr < 0.6:
        spec["fix_com"], spec["fix_orientation"] = False, True
    if rng.random() < 0.3:
        spec["fix_symmetry"] = rng.choice(["c1", "C1", "c2v", "Cs", "d2h", "C2"])
    if nat >= 2 and rng.random() < 0.25:
        nb = rng.randint(1, min(4, nat - 1))
        bonds = set()
        for _ in range(nb):
            a, b = rng.sample(range(nat), 2)
            bonds.add((min(a, b), max(a, b)))
        spec["connectivity"] = [[a, b, rng.choice([1.0, 1.0, 2.0, 1.5, 3.0])] for a, b in sorted(bonds)]
    return spec


def build_molrec(spec):
    from qcelemental.molparse import from_arrays

    kw = dict(spec)
    kw["geom"] = np.array(kw["geom"], dtype=float)
    with quiet():
        return from_arrays(**kw)


def gen_molecules(ctx, n):
    rng = ctx.rng
    out = []
    tries = 0
    while len(out) < n and tries < 20 * n:
        tries += 1
        spec = gen_spec(rng)
        try:
            rec = build_molrec(spec)
        except Exception:
            continue
        if not (-3 <= rec["molecular_charge"] <= 3 and 1 <= rec["molecular_multiplicity"] <= 6):
            continue
        out.append((spec, rec))
    return out


def gen_opts(rng, dtype, k):
    """k-th option set for a molecule/dtype; k=0 is all defaults."""
    if k == 0:
        return {"dtype": dtype, "units": None, "atom_format": None, "ghost_format": None, "width": 17, "prec": 12}
    units = rng.choice([None, "Bohr", "Angstrom", "Bohr", "Angstrom", "bohr", "ANGSTROM", "angstrom", "BOHR", "nm", "pm"])
    if units in ("nm", "pm") and dtype not in SPELLS_NM_PM and rng.random() < 0.5:
        units = rng.choice(["Bohr", "Angstrom"])
    o = {"dtype": dtype if rng.random() > 0.05 else dtype.upper(), "units": units, "atom_format": None, "ghost_format": None,
         "width": rng.choice([17, 17, 1, 6, 8, 10, 12, 14, 20, 24]), "prec": rng.choice([12, 12, 0, 1, 2, 3, 4, 5, 6, 8, 10, 14, 16])}
    if dtype in ("xyz", "xyz+"):
        o["atom_format"] = rng.choice(AFMTS)
        o["ghost_format"] = rng.choice(GFMTS)
        if rng.random() < 0.04:
            o[rng.choice(["atom_format", "ghost_format"])] = rng.choice(BAD_FMTS)
    elif dtype == "nglview-sdf":
        o["ghost_format"] = rng.choice([None, None, "", "Gh", "X", "Bq"])
    elif rng.random() < 0.25:  # overrides are ignored by every other branch
        o["atom_format"] = rng.choice(AFMTS)
        o["ghost_format"] = rng.choice(GFMTS)
    return o


# --------------------------------------------------------------------------------------
# implementation


def call_impl(rec, o, mol=None):
    from qcelemental.molparse import to_string

    kw = dict(units=o["units"], atom_format=o["atom_format"], ghost_format=o["ghost_format"], width=o["width"], prec=o["prec"], return_data=True)
    try:
        with quiet():
            if mol is not None:
                s, d = mol.to_string(o["dtype"], **kw)
            else:
                s, d = to_string(rec, o["dtype"], **kw)
    except Exception as e:  # noqa
        return ("err", type(e).__name__, str(e)[:200])
    return ("ok", s, d)


def hx(s: str) -> str:
    return "h" + s.encode("latin-1").hex()


def unhx(s: str) -> str:
    assert s.startswith("h")
    return bytes.fromhex(s[1:]).decode("latin-1")


def canon_kw(kw: dict):
    """typed canonical form of a keywords dict"""
    out = {}
    for k, v in kw.items():
        if isinstance(v, (bool, np.bool_)):
            out[str(k)] = ("b", bool(v))
        elif isinstance(v, (int, np.integer)):
            out[str(k)] = ("i", int(v))
        elif isinstance(v, str):
            out[str(k)] = ("s", v)
        elif v is None:
            out[str(k)] = ("n", None)
        else:
            out[str(k)] = ("?", repr(v))
    return out


def parse_model(line: str):
    if not line.startswith("ok|"):
        return ("err", line)
    _, t, f, k = line.split("|")
    fields = [unhx(x) for x in f.split(",")] if f else []
    kw = {}
    if k:
        for item in k.split(";"):
            key, val = item.split("=", 1)
            if val[0] == "i":
                v = ("i", int(val[1:]))
            elif val[0] == "s":
                v = ("s", unhx(val[1:]))
            elif val[0] == "b":
                v = ("b", val[1] == "T")
            else:
                v = ("n", None)
            kw[unhx(key)] = v
    return ("ok", unhx(t), fields, kw)


# --------------------------------------------------------------------------------------
# the harness's own view of units (independent of to_string.py)

_CONST = {}


def consts():
    if not _CONST:
        import qcelemental as qcel

        b2a = float(qcel.constants.bohr2angstroms)
        _CONST["b2a"] = b2a
        _CONST["inv"] = 1.0 / b2a
        for s in ("Bohr", "Angstrom"):
            for t in ("nm", "pm"):
                _CONST[(s.lower(), t)] = float(qcel.constants.conversion_factor(s, t))
        _CONST["a2b"] = float(qcel.constants.conversion_factor("Angstrom", "Bohr"))
    return _CONST


SI_M = {"angstrom": Fraction(1, 10**10), "nm": Fraction(1, 10**9), "pm": Fraction(1, 10**12)}


def si_length(unit: str) -> Fraction:
    """metres per unit (Bohr through bohr2angstroms, C02's value)"""
    if unit == "bohr":
        return Fraction(consts()["b2a"]) * SI_M["angstrom"]
    return SI_M[unit]


def exact_factor(stored: str, target: str, iutau) -> Fraction:
    """the conversion the property demands: stored -> target"""
    if stored == target:
        return Fraction(1)
    if stored == "angstrom" and target == "bohr" and iutau is not None:
        return Fraction(float(iutau))
    return si_length(stored) / si_length(target)


def float_factor(stored: str, target: str, iutau) -> float:
    c = consts()
    if stored == target:
        return 1.0
    if stored == "angstrom" and target == "bohr":
        return float(iutau) if iutau is not None else c["inv"]
    if stored == "bohr" and target == "angstrom":
        return c["b2a"]
    return c[(stored, target)]


def target_unit(o):
    d = o["dtype"].lower()
    return DEFAULT_UNIT[d] if o["units"] is None else o["units"].lower()


def frac(x) -> str:
    f = Fraction(float(x))
    return str(f.numerator) if f.denominator == 1 else f"{f.numerator}/{f.denominator}"


def enc_case(rec, o) -> str:
    """driver line for (molrec, options); every third-party value is computed here, not taken from to_string"""
    import qcelemental as qcel

    c = consts()
    d = o["dtype"].lower()
    stored = rec["units"].lower()
    tgt = target_unit(o)
    iutau = rec.get("input_units_to_au", None)
    f = float_factor(stored, tgt, iutau)
    geom = np.asarray(rec["geom"], dtype=float).reshape((-1, 3))
    prod = geom * f
    prec = 4 if d == "nglview-sdf" else o["prec"]
    req = {None: "D", "bohr": "B", "angstrom": "A", "nm": "nm", "pm": "pm"}[None if o["units"] is None else o["units"].lower()]
    conv = c[(stored, tgt)] if tgt in ("nm", "pm") else None
    bonds = ""
    if d == "nglview-sdf" and tgt == "angstrom":
        conn = rec.get("connectivity", None)
        if conn is None:
            conn = qcel.molutil.guess_connectivity(rec["elem"], prod * c["a2b"], default_connectivity=1)
        bonds = ";".join(f"{int(a)},{int(b)},{frac(bo)}" for a, b, bo in conn)
    atoms = []
    for i in range(geom.shape[0]):
        parts = [str(int(rec["elea"][i])), str(int(rec["elez"][i])), hx(str(rec["elem"][i])), hx(format(rec["mass"][i], "")),
                 hx(str(rec["elbl"][i])), "1" if rec["real"][i] else "0"]
        for j in range(3):
            p = float(prod[i, j])
            parts += [frac(geom[i, j]), frac(p), "1" if math.copysign(1.0, p) < 0 else "0", hx(format(p, f".{prec}f"))]
        atoms.append(",".join(parts))
    fields = [
        d, req,
        "N" if o["atom_format"] is None else hx(o["atom_format"]),
        "N" if o["ghost_format"] is None else hx(o["ghost_format"]),
        str(o["width"]), str(o["prec"]),
        "B" if stored == "bohr" else "A",
        "N" if iutau is None else frac(iutau),
        frac(c["b2a"]), frac(c["inv"]),
        "N" if conv is None else frac(conv),
        hx(rec["name"]) if "name" in rec else "N",
        str(int(rec["molecular_charge"])), str(int(rec["molecular_multiplicity"])),
        ",".join(str(int(s)) for s in rec["fragment_separators"]),
        ",".join(str(int(x)) for x in rec["fragment_charges"]),
        ",".join(str(int(x)) for x in rec["fragment_multiplicities"]),
        "1" if rec["fix_com"] else "0", "1" if rec["fix_orientation"] else "0",
        hx(rec["fix_symmetry"]) if "fix_symmetry" in rec else "N",
        bonds, ";".join(atoms),
    ]
    return "|".join(fields)


# --------------------------------------------------------------------------------------
# the oracle: read the text back, compare with the molecule


def mol_view(rec):
    """What the molecule says (taken from the molrec the text was made from)."""
    nat = len(rec["elem"])
    seps = [int(s) for s in rec["fragment_separators"]]
    return {
        "elem": [str(x) for x in rec["elem"]], "elbl": [str(x) for x in rec["elbl"]], "elez": [int(x) for x in rec["elez"]],
        "elea": [int(x) for x in rec["elea"]], "mass": [rec["mass"][i] for i in range(nat)], "real": [bool(x) for x in rec["real"]],
        "geom": [float(x) for x in np.asarray(rec["geom"], dtype=float).reshape(-1)], "stored": rec["units"].lower(),
        "iutau": rec.get("input_units_to_au", None), "charge": rec["molecular_charge"], "mult": rec["molecular_multiplicity"],
        "sizes": [b - a for a, b in zip([0] + seps, seps + [nat])],
        "fcharges": list(rec["fragment_charges"]), "fmults": list(rec["fragment_multiplicities"]),
    }


def view_from_molecule(mol):
    """The same view taken from the Molecule model's own fields (Molecule.to_string route)."""
    nat = len(mol.symbols)
    frs = [list(map(int, f)) for f in mol.fragments]
    return {
        "elem": [str(x) for x in mol.symbols], "elbl": [str(x) for x in mol.atom_labels], "elez": [int(x) for x in mol.atomic_numbers],
        "elea": [int(x) for x in mol.mass_numbers], "mass": [mol.masses[i] for i in range(nat)], "real": [bool(x) for x in mol.real],
        "geom": [float(x) for x in np.asarray(mol.geometry, dtype=float).reshape(-1)], "stored": "bohr", "iutau": None,
        "charge": mol.molecular_charge, "mult": mol.molecular_multiplicity, "sizes": [len(f) for f in frs],
        "fcharges": list(mol.fragment_charges), "fmults": list(mol.fragment_multiplicities),
        "contiguous": [i for f in frs for i in f] == list(range(nat)),
    }


NUM_RE = re.compile(r"^-?\d+(\.\d+)?$")


def expected_labels(d, v, o):
    """(index, tokens of the expected label) for every atom the format shows"""
    out = []
    for i in range(len(v["elem"])):
        E, L, Z, real = v["elem"][i], v["elbl"][i], v["elez"][i], v["real"][i]
        info = {"elea": "" if v["elea"][i] == -1 else v["elea"][i], "elez": Z, "elem": E, "mass": v["mass"][i], "elbl": L}
        if d in ("xyz", "xyz+"):
            af = "{elem}" if o["atom_format"] is None else o["atom_format"]
            gf = "@{elem}" if o["ghost_format"] is None else o["ghost_format"]
            if real:
                lab = af.format(**info)
            elif gf == "":
                continue
            else:
                lab = gf.format(**info)
        elif d == "orca":
            lab = E if real else E + ":"
        elif d in ("cfour", "madness"):
            lab = E if real else "GH"
        elif d in ("molpro", "mrchem"):
            lab = E
        elif d == "turbomole":
            lab = E.lower()
        elif d == "nwchem":
            lab = E + L if real else "bq" + E + L
        elif d == "gamess":
            lab = f"{E}{L} {Z}" if real else f"{E} -{Z}"
        elif d == "terachem":
            lab = E if real else "X" + E
        elif d == "psi4":
            lab = E + L if real else f"Gh({E}{L})"
        elif d == "qchem":
            lab = E if real else "@" + E
        elif d == "nglview-sdf":
            lab = E if real else (o["ghost_format"] or "Gh")
        out.append((i, lab.split()))
    return out


def plain_format(fmt) -> bool:
    """override inside the quantifier: literal text, {{, }}, and plain {name} fields"""
    if fmt is None:
        return True
    rest = re.sub(r"\{\{|\}\}", "", fmt)
    rest = re.sub(r"\{[A-Za-z_][A-Za-z_0-9]*\}", "", rest)
    return "{" not in rest and "}" not in rest


class Unreadable(Exception):
    pass


def read_back(d, text, kw):
    """Per-dtype reader: atom entries [(label tokens, [x,y,z] texts)], stated charge/mult, fragment headers,
    announced unit (or None), molpro dummy list.  Follows each program's layout, not to_string.py."""
    L = text.split("\n")
    if L[-1] != "":
        raise Unreadable("text does not end with a newline")
    L = L[:-1]
    r = {"atoms": [], "charge": None, "mult": None, "frags": None, "unit": None, "dummy": None, "unit_word": None}

    def atom(line, coords_first=False):
        t = line.split()
        if len(t) < 4:
            raise Unreadable(f"atom line has {len(t)} tokens: {line!r}")
        return (t[3:], t[:3]) if coords_first else (t[:-3], t[-3:])

    def unit_from(word, table):
        r["unit_word"] = word
        r["unit"] = table.get(word)

    if d in ("xyz", "xyz+", "terachem"):
        h = L[0].split()
        nat = int(h[0])
        unit_from(" ".join(h[1:]), {"": "angstrom", "au": "bohr", "nm": "nm", "pm": "pm"} if d != "terachem" else {"": "angstrom", "au": "bohr"})
        if d != "terachem":
            cm = L[1].split()
            r["charge"], r["mult"] = int(cm[0]), int(cm[1])
        body = L[2:]
        if len(body) != nat:
            raise Unreadable(f"count line says {nat} atoms, {len(body)} lines follow")
        r["atoms"] = [atom(x) for x in body]
    elif d == "orca":
        unit_from(L[0], {"! Bohrs": "bohr", "!": "angstrom"})
        m = re.fullmatch(r"\*xyz (-?\d+) (-?\d+)", L[2])
        if not m or L[1] != "" or L[-1] != "*":
            raise Unreadable("orca frame")
        r["charge"], r["mult"] = int(m.group(1)), int(m.group(2))
        r["atoms"] = [atom(x) for x in L[3:-1]]
    elif d == "cfour":
        r["atoms"] = [atom(x) for x in L[1:]]
        r["charge"], r["mult"] = kw.get("charge"), kw.get("multiplicity")
        unit_from(kw.get("units"), {"bohr": "bohr", "angstrom": "angstrom"})
    elif d == "molpro":
        g = L.index("geometry={")
        e = L.index("}", g)
        m = re.fullmatch(r"\{(.*)\}", L[g - 1])
        unit_from(m.group(1) if m else None, {"bohr": "bohr", "angstrom": "angstrom"})
        r["atoms"] = [atom(x) for x in L[g + 1:e]]
        rest = L[e + 1:]
        r["dummy"] = []
        for x in rest:
            if x.startswith("dummy,"):
                r["dummy"] = [int(y) for y in x.split(",")[1:]]
            elif x.startswith("set,charge="):
                fv = float(x.split("=")[1])
                r["charge"] = int(fv) if fv == int(fv) else fv
            elif x.startswith("set,spin="):
                r["mult"] = int(x.split("=")[1]) + 1
    elif d == "nwchem":
        m = re.fullmatch(r"geometry units (\S+)", L[0])
        unit_from(m.group(1) if m else None, {"bohr": "bohr", "angstroms": "angstrom", "nanometers": "nm", "picometers": "pm"})
        if L[-1] != "end":
            raise Unreadable("nwchem frame")
        body = L[1:-1]
        body = [x for x in body if x != "" and not x.startswith("symmetry ")]
        r["atoms"] = [atom(x) for x in body]
        r["charge"] = kw.get("charge")
        ms = {kw[k] for k in ("dft__mult", "mcscf__multiplicity") if k in kw}
        if "scf__nopen" in kw:
            ms.add(kw["scf__nopen"] + 1)
        r["mult"] = 1 if not ms else (ms.pop() if len(ms) == 1 else ("inconsistent", sorted(ms)))
    elif d == "madness":
        m = re.fullmatch(r"units (\S+)", L[1])
        unit_from(m.group(1) if m else None, {"au": "bohr", "angstrom": "angstrom"})
        if L[0] != "geometry" or L[-1] != "end":
            raise Unreadable("madness frame")
        r["atoms"] = [atom(x) for x in L[2:-1]]
        r["charge"] = kw.get("charge")
        r["open_shell"] = kw.get("spin_restricted") == "false"
    elif d == "gamess":
        if L[0] != " $data" or L[-1] != " $end":
            raise Unreadable("gamess frame")
        body = L[3:-1]
        if body and body[0] == "":  # blank card after a non-C1 point group
            body = body[1:]
        r["atoms"] = [atom(x) for x in body]
        r["charge"], r["mult"] = kw.get("contrl__icharg"), kw.get("contrl__mult")
        unit_from(kw.get("contrl__units"), {"bohr": "bohr", "angs": "angstrom"})
    elif d in ("psi4", "qchem"):
        if d == "psi4":
            body = L
            tail = []
            while body and not NUM_RE.match(body[-1].split()[-1] if body[-1].split() else ""):
                tail.insert(0, body[-1])
                body = body[:-1]
            us = [x for x in tail if x.startswith("units ")]
            unit_from(us[0].split()[1] if us else None, {"bohr": "bohr", "angstrom": "angstrom"})
        else:
            if L[0] != "$molecule" or L[-1] != "$end":
                raise Unreadable("qchem frame")
            body = L[1:-1]
            unit_from(kw.get("input_bohr"), {"True": "bohr", "False": "angstrom"})
        cm = body[0].split()
        r["charge"], r["mult"] = int(cm[0]), int(cm[1])
        frags, cur = [], None
        i = 1
        while i < len(body):
            if body[i] == "--":
                fcm = body[i + 1].split()
                cur = [int(fcm[0]), int(fcm[1]), 0]
                frags.append(cur)
                i += 2
                continue
            r["atoms"].append(atom(body[i]))
            if cur is not None:
                cur[2] += 1
            i += 1
        r["frags"] = frags
    elif d == "turbomole":
        if L[0] != "$coord" or L[-1] != "$end":
            raise Unreadable("turbomole frame")
        r["atoms"] = [atom(x, coords_first=True) for x in L[1:-1]]
        r["unit"], r["unit_word"] = "bohr", "$coord"
    elif d == "mrchem":
        c0 = L.index("$coords")
        e = L.index("$end")
        r["atoms"] = [atom(x) for x in L[c0 + 1:e]]
        for x in L[:c0]:
            m = re.fullmatch(r"charge = (-?\d+)", x)
            if m:
                r["charge"] = int(m.group(1))
            m = re.fullmatch(r"multiplicity = (-?\d+)", x)
            if m:
                r["mult"] = int(m.group(1))
        r["kw_charge"], r["kw_mult"] = kw.get("charge"), kw.get("multiplicity")
        r["kw_coords"] = kw.get("coords")
    elif d == "nglview-sdf":
        cnt = L[3]
        nat, nb = int(cnt[0:3]), int(cnt[3:6])
        for x in L[4:4 + nat]:
            r["atoms"].append((x[30:].split()[:1], [x[0:10].strip(), x[10:20].strip(), x[20:30].strip()]))
        if len(L) != 4 + nat + nb:
            raise Unreadable("sdf counts line does not match the number of lines")
        r["unit"], r["unit_word"] = "angstrom", "sdf"
    return r


def coord_ok(text, exact: Fraction, prec: int):
    """text is a fixed decimal with `prec` places within 1/2 ulp of the exact converted coordinate
    (+ relative 1e-12 for the double arithmetic and the constants)"""
    if not NUM_RE.match(text):
        return False
    if prec == 0:
        if "." in text:
            return False
    elif len(text.split(".")[-1]) != prec or "." not in text:
        return False
    val = Fraction(Decimal(text))
    tol = Fraction(1, 2 * 10**prec) + abs(exact) * Fraction(1, 10**12)
    return abs(val - exact) <= tol


def oracle(v, o, res, stats=None):
    """List of (clause, message) the implementation's answer violates; only inside the quantifier.
    `stats` (optional dict) counts which clauses were actually evaluated."""
    if stats is None:
        stats = {}

    def tick(k, n=1):
        stats[k] = stats.get(k, 0) + n

    d = o["dtype"].lower()
    tgt = target_unit(o)
    bad = []
    in_scope_unit = tgt in ("bohr", "angstrom") or d in SPELLS_NM_PM
    overrides_ok = all(plain_format(o[k]) for k in ("atom_format", "ghost_format")) if d in ("xyz", "xyz+") else True
    try:
        exp = expected_labels(d, v, o) if overrides_ok else None
    except Exception:
        overrides_ok = False  # malformed override: outside the quantifier
    if not overrides_ok:
        return bad
    if res[0] == "err":
        if (d, tgt) in REFUSES:
            tick("oracle:refusal_row")
            return bad  # the format cannot spell the unit: refusing is not a wrong announcement
        if in_scope_unit:
            bad.append(("unexpected_error", f"{res[1]}: {res[2]}"))
        return bad
    _, text, data = res
    kw = data.get("keywords", {})
    try:
        r = read_back(d, text, kw)
    except Exception as e:  # noqa
        if in_scope_unit:
            bad.append(("unreadable", f"{type(e).__name__}: {e}"))
        return bad
    if not in_scope_unit:
        return bad
    prec = 4 if d == "nglview-sdf" else o["prec"]
    # --- atoms once, in order, spelled right
    got = [a[0] for a in r["atoms"]]
    want = [lab for _, lab in exp]
    if d == "turbomole":
        got = [[x for x in g] for g in got]
    tick("oracle:atoms_checked", len(want))
    if len(want) < len(v["elem"]):
        tick("oracle:ghosts_suppressed")
    if got != want:
        bad.append(("atoms", f"labels read back {got} expected {want}"))
        return bad
    # --- coordinates: converted to the requested unit, printed at the requested precision
    F = exact_factor(v["stored"], tgt, v["iutau"])
    tick("oracle:coords_checked", 3 * len(exp))
    tick("oracle:unit_read:" + str(r["unit"]))
    for (i, _), (_, cs) in zip(exp, r["atoms"]):
        for j in range(3):
            ex = Fraction(v["geom"][3 * i + j]) * F
            if not coord_ok(cs[j], ex, prec):
                bad.append(("coords", f"atom {i} axis {j}: printed {cs[j]!r}, molecule {v['geom'][3*i+j]!r} {v['stored']} -> {tgt} is {float(ex)!r} at {prec} places"))
                return bad
    # --- announced unit is the unit the coordinates are written in
    if r["unit"] is not None and r["unit"] != tgt:
        Fa = exact_factor(v["stored"], r["unit"], v["iutau"])
        for (i, _), (_, cs) in zip(exp, r["atoms"]):
            for j in range(3):
                if not coord_ok(cs[j], Fraction(v["geom"][3 * i + j]) * Fa, prec):
                    bad.append(("unit_announced", f"text/keywords announce {r['unit']} ({r['unit_word']!r}) but coordinates are in {tgt}"))
                    return bad
    if r["unit"] is None and d not in ("mrchem",) and (tgt in ("bohr", "angstrom") or d in SPELLS_NM_PM):
        bad.append(("unit_announced", f"unit word {r['unit_word']!r} is not one the program reads (requested {tgt})"))
    # --- charge and multiplicity
    c, m = int(v["charge"]), int(v["mult"])
    if d in ("xyz", "xyz+", "orca", "cfour", "molpro", "nwchem", "madness", "gamess", "psi4", "qchem", "mrchem"):
        if r["charge"] != c or isinstance(r["charge"], bool):
            bad.append(("chgmult", f"charge stated {r['charge']!r}, molecule {c}"))
    if d in ("xyz", "xyz+", "orca", "cfour", "molpro", "nwchem", "gamess", "psi4", "qchem", "mrchem"):
        if r["mult"] != m or isinstance(r["mult"], bool):
            bad.append(("chgmult", f"multiplicity stated {r['mult']!r}, molecule {m}"))
    if d == "madness" and r["open_shell"] != (m != 1):
        bad.append(("chgmult", f"spin_restricted flag {r['open_shell']} for multiplicity {m}"))
    if d == "mrchem":
        if r["kw_charge"] != c or r["kw_mult"] != m:
            bad.append(("chgmult", f"mrchem keywords charge/multiplicity {r['kw_charge']!r}/{r['kw_mult']!r}, molecule {c}/{m}"))
        if r["kw_coords"] != "\n".join(text.split("\n")[5:-3]):
            bad.append(("atoms", "mrchem keywords coords differ from the $coords block"))
    if d in ("psi4", "qchem"):
        nfr = len(v["sizes"])
        tick(f"oracle:fragments_checked:{min(nfr, 4)}")
        if nfr > 1:
            want_fr = [[int(v["fcharges"][k]), int(v["fmults"][k]), v["sizes"][k]] for k in range(nfr)]
            if r["frags"] != want_fr:
                bad.append(("fragments", f"fragment blocks (charge, mult, natoms) {r['frags']} expected {want_fr}"))
        elif r["frags"] not in ([], [[int(v["fcharges"][0]), int(v["fmults"][0]), len(v["elem"])]]):
            bad.append(("fragments", f"single fragment but blocks {r['frags']}"))
    if d == "molpro":
        wantd = [i + 1 for i, rl in enumerate(v["real"]) if not rl]
        tick("oracle:dummy_checked:" + ("some" if wantd else "none"))
        if r["dummy"] != wantd:
            bad.append(("dummy", f"dummy card {r['dummy']} expected {wantd}"))
    return bad


def check_conversion_constants(out: Outcome):
    """constants.conversion_factor (C03) against the SI definitions, relative 1e-12."""
    c = consts()
    for s in ("bohr", "angstrom"):
        for t in ("nm", "pm"):
            ex = si_length(s) / si_length(t)
            got = Fraction(c[(s, t)])
            out.evaluations += 1
            if abs(got - ex) > abs(ex) * Fraction(1, 10**12):
                out.violations.append(Finding("oracle:conversion_constant", {"from": s, "to": t}, observed=c[(s, t)], expected=float(ex),
                                              detail="constants.conversion_factor differs from the SI definition (C03's territory)"))
    ex = si_length("angstrom") / si_length("bohr")
    if abs(Fraction(c["a2b"]) - ex) > ex * Fraction(1, 10**12) or abs(Fraction(c["inv"]) - ex) > ex * Fraction(1, 10**12):
        out.violations.append(Finding("oracle:conversion_constant", {"from": "angstrom", "to": "bohr"}, observed=c["a2b"], expected=float(ex)))


# --------------------------------------------------------------------------------------
# one case


def diff_text(a: str, b: str) -> str:
    la, lb = a.split("\n"), b.split("\n")
    for i in range(max(len(la), len(lb))):
        x = la[i] if i < len(la) else "<missing>"
        y = lb[i] if i < len(lb) else "<missing>"
        if x != y:
            return f"line {i}: implementation {x!r} / model {y!r}"
    return "same"


def classify(v, o):
    d = o["dtype"].lower()
    tags = []
    if not all(v["real"]):
        tags.append("ghost")
    if len(v["sizes"]) > 1:
        tags.append("multifrag")
    if target_unit(o) != v["stored"]:
        tags.append("converted")
    if o["atom_format"] is not None or o["ghost_format"] is not None:
        tags.append("override")
    return tags


def check_case(ctx, out: Outcome, spec, rec, o, model_line, route, mol=None, view=None):
    d = o["dtype"].lower()
    v = view if view is not None else mol_view(rec)
    res = call_impl(rec, o, mol)
    case = {"spec": spec, "opts": o, "route": route}
    out.evaluations += 1
    tgt = target_unit(o)
    out.count(f"dtype:{d}")
    out.count(f"route:{route}")
    out.count(f"units:{v['stored']}->{tgt}" + (":pinned" if v["iutau"] is not None else ""))
    tags = classify(v, o)
    for t in tags:
        out.count("tag:" + t)
    if res[0] == "err":
        out.count(f"outcome:err:{res[1]}")
        ci = "err " + res[1]
    else:
        out.count("outcome:ok")
        ci = "ok"
    if tags or res[0] == "err":
        out.nontrivial((spec_key(spec), d, str(o["units"]), o["width"], o["prec"], str(o["atom_format"]), str(o["ghost_format"]), route))
    if d in ("terachem", "turbomole", "nglview-sdf") and res[0] == "ok":
        out.count("chgmult:no_slot:" + d)
    if len(out.samples) < 6 and tags and res[0] == "ok" and len(v["elem"]) <= 4 and ctx.rng.random() < 0.05:
        out.sample({"dtype": d, "units": o["units"], "stored": v["stored"], "width": o["width"], "prec": o["prec"], "text": res[1], "keywords": canon_kw(res[2]["keywords"])})
    # --- property oracle on the implementation
    stats = {}
    findings = oracle(v, o, res, stats)
    for k, n in stats.items():
        out.count(k, n)
    for clause, msg in findings:
        out.violations.append(Finding("oracle:" + clause, case, observed=(res[1] if res[0] == "ok" else ci), detail=msg))
    # --- correspondence
    if model_line is None:
        return
    pm = parse_model(model_line)
    if pm[0] == "err":
        ml = pm[1]
        if ml == "err Unsupported":
            out.count("model:unsupported_format_feature")  # outside the model (ASSUMPTIONS); nothing to compare
        elif ml.startswith("err "):
            if ci != ml:
                out.mismatches.append(Finding("mismatch", case, observed=ci, expected=ml, detail="error outcome: implementation vs Lean model"))
        else:
            # bad-product / bad-fixed / bad-op: a checked third-party parameter failed its check
            out.mismatches.append(Finding("param:" + ml.split()[0], case, observed=ci, expected=ml,
                                          detail="driver rejected a parameter (float print / product / parse)"))
        return
    if res[0] == "err":
        out.mismatches.append(Finding("mismatch", case, observed=ci, expected="ok", detail="implementation raised, model renders"))
        return
    _, mtext, mfields, mkw = pm
    if mtext != res[1]:
        out.mismatches.append(Finding("mismatch", case, observed=res[1], expected=mtext, detail="text: " + diff_text(res[1], mtext)))
    elif list(res[2].get("fields", [])) != mfields:
        out.mismatches.append(Finding("mismatch", case, observed=list(res[2].get("fields", [])), expected=mfields, detail="fields"))
    elif canon_kw(res[2].get("keywords", {})) != mkw:
        out.mismatches.append(Finding("mismatch", case, observed=str(canon_kw(res[2].get("keywords", {}))), expected=str(mkw), detail="keywords"))


def spec_key(spec):
    import hashlib
    import json

    return hashlib.sha1(json.dumps(spec, sort_keys=True).encode()).hexdigest()[:12]


def molecule_route(spec, rec):
    """Molecule object + the molrec Molecule.to_string derives from it."""
    import qcelemental as qcel
    from qcelemental.molparse.from_schema import from_schema

    with quiet():
        mol = qcel.models.Molecule(**qcel.molparse.to_schema(rec, dtype=2))
        rec2 = from_schema(mol.dict(), nonphysical=True)
    return mol, rec2


def run_model_parallel(ctx: Ctx, lines, nproc=4):
    """ctx.run_model semantics (one answer line per input line), the stream cut into `nproc` contiguous chunks that
    are piped through separate driver processes (the interpreted driver is the slow side of the check)."""
    import subprocess
    from concurrent.futures import ThreadPoolExecutor

    from common import LEAN, ModelCrash

    if len(lines) < 400:
        return ctx.run_model(DRIVER, lines)
    exe = LEAN / ".lake" / "build" / "bin" / "drv_c08"
    cmd = [str(exe)] if exe.exists() else ["lake", "env", "lean", "--run", DRIVER]
    size = (len(lines) + nproc - 1) // nproc
    chunks = [lines[i:i + size] for i in range(0, len(lines), size)]

    def one(arg):
        i, chunk = arg
        inp = ctx.work / f"C08.{i}.in"
        inp.write_text("\n".join(chunk) + "\n")
        with open(inp) as fh:
            p = subprocess.run(cmd, cwd=LEAN, stdin=fh, capture_output=True, text=True, timeout=3000)
        if p.returncode != 0:
            raise ModelCrash(f"driver {DRIVER} exited {p.returncode}: {p.stderr[-2000:]}")
        res = p.stdout.split("\n")
        if res and res[-1] == "":
            res.pop()
        if len(res) != len(chunk):
            raise ModelCrash(f"driver {DRIVER}: {len(chunk)} lines in, {len(res)} lines out; stderr={p.stderr[-1000:]}")
        return res

    with ThreadPoolExecutor(max_workers=nproc) as ex:
        parts = list(ex.map(one, enumerate(chunks)))
    return [x for part in parts for x in part]


def run(ctx: Ctx) -> Outcome:
    out = Outcome()
    check_conversion_constants(out)
    rng = ctx.rng
    nmol = ctx.scale(700, 4000)
    mols = gen_molecules(ctx, nmol)
    cases = []
    for idx, (spec, rec) in enumerate(mols):
        for d in DTYPES:
            nk = 3 if d in ("xyz", "xyz+", "nwchem") else 2
            for k in range(nk):
                if k == 0 and idx % 3:
                    continue
                cases.append((spec, rec, gen_opts(rng, d, k), "molparse", None, None))
        if idx % 4 == 0:
            try:
                mol, rec2 = molecule_route(spec, rec)
            except Exception as e:  # noqa
                out.count("molecule_route_unavailable:" + type(e).__name__)
                continue
            view = view_from_molecule(mol)
            if not view.pop("contiguous"):
                continue
            for d in rng.sample(DTYPES, 5):
                cases.append((spec, rec2, gen_opts(rng, d, rng.choice([0, 1])), "Molecule", mol, view))
    model = [None] * len(cases)
    if ctx.model_available:
        model = run_model_parallel(ctx, [enc_case(rec, o) for (_, rec, o, _, _, _) in cases])
    for (spec, rec, o, route, mol, view), ml in zip(cases, model):
        check_case(ctx, out, spec, rec, o, ml, route, mol, view)
    out.exhaustive = False
    out.count("molecules", len(mols))
    out.notes.append("every generated molecule is rendered in all 14 dtypes; unit request / width / precision / overrides are sampled from VERIF_SEED")
    out.notes.append("formats without a charge/multiplicity slot (terachem, turbomole, nglview-sdf; madness: spin_restricted flag only; nwchem/madness omit singlet) are outside the chgmult clause")
    out.notes.append("mrchem writes no unit at all; cfour/molpro/gamess/madness write the word None for nm/pm (outside the quantifier: formats that do not spell them)")
    return out


def replay(ctx: Ctx, case) -> Outcome:
    out = Outcome()
    spec, o, route = case["spec"], case["opts"], case.get("route", "molparse")
    rec = build_molrec(spec)
    mol = view = None
    if route == "Molecule":
        mol, rec = molecule_route(spec, rec)
        view = view_from_molecule(mol)
        view.pop("contiguous")
    ml = ctx.run_model(DRIVER, [enc_case(rec, o)])[0] if ctx.model_available else None
    check_case(ctx, out, spec, rec, o, ml, route, mol, view)
    return out
