"""C08 — program input blocks state exactly the molecule they were made from.

generator (validated molecules x 14 dtypes x units x width/prec x format overrides)
  -> real qcelemental.molparse.to_string / Molecule.to_string (in process, return_data=True)
  -> the same cases as lines to the Lean driver (Model/ToString.lean) -> text compared line by line,
     fields and keywords compared as typed values
plus an independent Python oracle: per-dtype extractor that reads the atom lines, charge/multiplicity
and the announced unit back out of the text/keywords and compares them with the molecule.

Second stream, call sequences: families of sibling molecules (one aspect changed) written one after another in this
process through molparse.to_string / Molecule.to_string / Molecule.to_file, objects reused, rebuilt, returned data
scribbled on; every answer goes through the same oracle and model, must equal the answer of a fresh process
(Zygote: fork before anything was written) and must leave its argument unchanged.  Finding kinds:
oracle:<clause> (atoms, coords, unit_announced, chgmult, fragments, dummy, unexpected_error, unreadable),
oracle:call_history, oracle:argument_mutated, oracle:conversion_constant.
"""
from __future__ import annotations

import contextlib
import io
import math
import os
import re
from decimal import Decimal
from fractions import Fraction

import numpy as np

import c08_spec
from common import Ctx, Finding, Outcome

PROPERTY = "C08"
LEAN_TARGETS = ["QcelVerif.Props.C08", "QcelVerif.Props.C08Seq", "QcelVerif.Props.C08Spec", "QcelVerif.Props.C08Whole", "QcelVerif.Driver.C08"]
# Gen/ToStringSpec.lean is rewritten from QCEL_REPO/qcelemental/molparse/to_string.py (+ Molecule.to_string) on every run
TRANSLATORS = [c08_spec.gen_tostring_spec]
DRIVER = "QcelVerif/Driver/C08.lean"
THEOREMS = [
    ("QcelVerif.FixedFmt.rhe_isNearestEven", "the rounding used by the fixed-point printer returns a nearest integer to tn/td, the even one on an exact tie"),
    ("QcelVerif.FixedFmt.isNearestEven_unique", "at most one integer is nearest-with-ties-to-even to a given non-negative rational"),
    ("QcelVerif.FixedFmt.isFixedRounding_unique", "at most one string passes the checker isFixedRounding for a given (sign bit, exact value, precision)"),
    ("QcelVerif.FixedFmt.isFixedRounding_spec", "a string that passes is sign ++ I ++ ('.' ++ F) with |F| = prec and value(I F) = N/10^prec where N is nearest-even to |q|*10^prec, i.e. within 1/2 * 10^-prec of |q| (ties to even)"),
    ("QcelVerif.ToString.formatter_lists_shown_atoms", "_atoms_formatter success: the lines are exactly one line per shown atom (real, or ghost with non-empty ghost format), in the molecule's order, each built from that atom's label and its own three coordinates"),
    ("QcelVerif.ToString.words_atomLine", "a whitespace tokeniser (str.split) reads from an atom line exactly the words of the label followed by the three coordinate texts in x, y, z order (any width, any label)"),
    ("QcelVerif.ToString.formatter_length", "number of atom lines = number of shown atoms; = number of atoms when the ghost format is non-empty"),
    ("QcelVerif.ToString.extract_atomLines", "for every dtype and every molecule: reading the text back by the format's layout (skip header, stop at the footer / use the count line / drop fragment separators) returns exactly the formatter's atom lines"),
    ("QcelVerif.ToString.spelling", "per dtype, the label of a real / ghost atom is the program's spelling (orca E / E:, cfour E / GH, nwchem E+lbl / bqE+lbl, gamess ' E+lbl Z' / ' E -Z', terachem E / XE, psi4 E+lbl / Gh(E+lbl), qchem E / @E, madness E / GH, molpro/mrchem/turbomole E / E, xyz default E / @E)"),
    ("QcelVerif.ToString.ghost_suppressed_only_xyz_empty", "ghost atoms are dropped iff dtype is xyz/xyz+ and ghost_format = ''; every other dtype lists every atom"),
    ("QcelVerif.ToString.npSplit_flatten", "np.split at ascending separators: the blocks concatenate to the atom lines and block k has seps[k]-seps[k-1] lines"),
    ("QcelVerif.ToString.fragment_blocks_partition", "psi4/qchem: the fragment loop output, with the '--' and charge/multiplicity lines removed, is the atom lines; block k is headed by fragment k's charge and multiplicity"),
    ("QcelVerif.ToString.molpro_dummy_indices", "the molpro dummy card lists exactly the 1-based positions of the ghost atoms, ascending (strictly increasing, each names a ghost, every ghost named)"),
    ("QcelVerif.ToString.chgmult_stated", "per dtype with a slot: the charge / multiplicity text line or keyword is the molecule's value (molpro spin = mult-1, nwchem nopen = mult-1); dtypes without a slot are listed explicitly"),
    ("QcelVerif.ToString.announced_unit_is_used", "decision table 14 dtypes x 2 stored units x 5 requests x pinned/unpinned: whenever the unit word written is one the target program reads as unit u, the factor applied is the one converting stored -> u"),
    ("QcelVerif.ToString.unit_error_rows", "the rows that raise (orca/terachem/psi4/qchem x nm,pm: KeyError; turbomole x not-Bohr: KeyError; sdf x not-Angstrom: ValueError) are exactly these"),
    ("QcelVerif.ToString.checked_coordinates", "what the driver verifies before rendering: a value f for the model-selected factor exists and every coordinate text is the unique correctly rounded decimal (prec digits; 4 for SDF) of a double within relative 2^-53 of stored x * f"),
    ("QcelVerif.ToString.unit_none_rows", "the rows that write the word None instead of a unit are exactly cfour/molpro/gamess/madness x nm,pm (outside the property's quantifier)"),
    ("QcelVerif.ToString.spell_tells_labels_apart", "sibling molecules: nwchem / psi4 spell two atoms of the same kind alike only if symbol+label agree, so a text carrying another molecule's labels is not this molecule's text"),
    ("QcelVerif.ToString.spell_tells_ghost_apart", "sibling molecules: every format except molpro/mrchem/turbomole/sdf spells the ghost and the real atom of the same element, label and Z differently (any label, any Z)"),
    # --- Props/C08Spec.lean: the model's templates are those of to_string.py (Gen/ToStringSpec.lean, regenerated on every run)
    ("QcelVerif.ToString.dtype_set_eq", "[regenerated from to_string.py] the branches of the source's if/elif dtype chain, in source order, are the model's fourteen dtypes, each once; the names are read alike by the driver's parseDtype?; every dtype of the model has a branch"),
    ("QcelVerif.ToString.umap_eq", "unit announcement texts: for every dtype and unit the model's umap entry is the source's per-branch umap dictionary entry (au, '', '! Bohrs', '!', angstroms, nanometers, picometers, angs, True/False ...)"),
    ("QcelVerif.ToString.unit_word_eq", "for every dtype and unit the model's unitWord (word / Python None / KeyError / SDF ValueError / no slot) is what the source's branch does with its umap: umap.get(u, u), umap.get(u), umap[u], the bare lookup of turbomole, SDF's units.capitalize() != 'Angstrom' guard"),
    ("QcelVerif.ToString.select_factor_eq", "for every stored unit, target unit and pinned flag the model's selectFactor is the source's if/elif chain on (molrec['units'], units.capitalize()) with its right-hand sides 1.0 / input_units_to_au if present else 1.0/bohr2angstroms / bohr2angstroms / conversion_factor"),
    ("QcelVerif.ToString.fields_eq", "for every dtype data.fields of the model = class Data's base list + the branch's data.fields.extend([...]) literal, in order"),
    ("QcelVerif.ToString.keywords_eq", "for every dtype, molecule and unit word: the model's data.keywords (key names, conditions multiplicity != 1 / fix_symmetry == 'c1', constant values, which molecule datum fills each) = the interpretation of the source's data.keywords dict literal and data.keywords[k] = v assignments"),
    ("QcelVerif.ToString.layout_eq", "for every dtype, molecule, unit word, atom block and fragment-loop output: the model's header ++ body ++ footer = the interpretation of the source's line program (every literal line, f-string hole, .rstrip(), condition, position of the atom block, molpro dummy card, SDF counts/bond layouts)"),
    ("QcelVerif.ToString.frag_eq", "for every dtype and molecule: the model's body stage = the source's fragment loop (np.split, separator literal '--', the '{charge} {multiplicity}' header per block, only when more than one block) for psi4/qchem, the lower-cased / plain atom block otherwise"),
    ("QcelVerif.ToString.sdf_layout_eq", "for every atom, bond and ghost word: the SDF atom line (10.4f coordinates, >3s symbol, tail literal) and bond line (2d/2d/1d, literals) of the model are the source's f-strings; the driver's float check uses the source's 4 decimals for this branch"),
    ("QcelVerif.ToString.render_eq_source", "HEADLINE tie: for every option set and every molecule (no size bound) the hand model render = renderBy, the interpreter of Model/ToStringSrc.lean run on the tables generated from to_string.py (text lines, fields, keywords and error outcome)"),
    ("QcelVerif.ToString.chgmult_slots_eq", "read off the generated tables: per program the text slots (literal before the value, value kind int(charge) / float charge / multiplicity / multiplicity-1) and keyword slots (name, condition, value kind) that state the total charge and multiplicity - exactly those chgmult_stated proves correct; terachem/turbomole/nglview-sdf have none"),
    ("QcelVerif.ToString.coord_format_spec_eq", "_atoms_formatter's format specs parse to: coordinates '{:>{width}.{prec}f}' = right-aligned, width, prec decimals, fixed notation; label '{:{width}}'; separator '{:{sp}}'; atominfo offers exactly the five fields the model's fieldValue knows; lines joined and terminated by newline"),
    ("QcelVerif.ToString.atomLine_follows_specs", "for every width, label and coordinate texts: the model's atomLine (both column orders) = the parts padded as the parsed source specs say and joined by the separator spec applied to '' with sp = 2"),
    ("QcelVerif.ToString.spelling_source", "the spelling theorem restated over the format strings read from the source (Gen/SrcConsts to_string.formats): for every program but nglview-sdf and every atom, substituting the atom's fields into the SOURCE's atom / ghost format literal gives the program's spelling spell d a"),
    ("QcelVerif.ToString.raw_request_sound", "the driver is handed the caller's dtype / units strings as given; whenever the model accepts a units string as a Bohr / Angstrom request, units.capitalize() (the factor chain's test) and units.lower() (the umap key) are those of that unit; nm / pm are accepted only as written; anything else is refused by the model (bad-op), never guessed"),
    ("QcelVerif.ToString.molecule_route_eq", "[regenerated from molecule.py] Molecule.to_string declares the same arguments and defaults as molparse.to_string, builds from_schema(self.dict(), nonphysical=True) and forwards every option unchanged by name"),
    ("QcelVerif.ToString.announced_unit_is_used_source", "the unit decision restated over the generated tables only (default_units of Gen/SrcConsts, the branch's umap and access, the source's factor chain): whenever the word the SOURCE's branch writes is read by the target program as unit u, the factor the SOURCE's chain selects is the one converting stored -> u (14 x 2 x 5 x 2 rows)"),
    ("QcelVerif.ToString.unit_error_rows_source", "the rows that raise, computed from the generated tables, are exactly refuses (orca/terachem/psi4/qchem x nm,pm and turbomole x not-Bohr: KeyError; sdf x not-Angstrom: ValueError)"),
    # --- Props/C08Whole.lean: the clauses stated about the OUTPUT of render (what the driver compares with the implementation)
    ("QcelVerif.ToString.rendered_atoms", "for every successful render of a non-SDF dtype on a molecule with three coordinates per atom and ascending separators: reading r.lines back by the format's layout gives exactly one line per shown atom, in the molecule's order, made of the label the branch's formats give that atom and its own coordinate texts"),
    ("QcelVerif.ToString.rendered_atoms_sdf", "for every successful nglview-sdf render: lines 3 .. 3+natoms of r.lines are one SDF atom line per atom of the molecule, in order, ghosts under the ghost word"),
    ("QcelVerif.ToString.rendered_chgmult", "for every successful render: the total charge and multiplicity sit in r.lines at the stated position from the top (xyz, xyz+, orca, psi4, qchem, mrchem) or bottom (molpro: charge as c.0, spin = mult-1), or in r.keywords under the program's names (cfour, gamess, nwchem incl. nopen = mult-1 only for non-singlets, madness flag, mrchem), with the molecule's values"),
    ("QcelVerif.ToString.render_shows_unit", "for every successful render there is the unit word uw of this call and r shows it at the program's own place: count line (xyz, xyz+, terachem), first line (orca, nwchem), second line (madness), the line before geometry={ (molpro), the first line after the atoms (psi4), keyword units / contrl__units / input_bohr (cfour, gamess, qchem); turbomole, nglview-sdf, mrchem write none"),
    ("QcelVerif.ToString.rendered_unit_is_used", "end to end: render succeeded, the driver's parameter check passed and the unit word of this call is read by the target program as unit u => the factor converting stored -> u has a checked value f and every coordinate text is the unique correctly rounded decimal of a double within relative 2^-53 of stored x * f"),
]
TRUSTED_BASE = [
    "Lean 4.33 kernel; axioms per theorem audited on every run (subset of propext, Classical.choice, Quot.sound)",
    "hand-written model Model/ToString.lean of to_string.py:73-511. REGENERATED FROM THE SOURCE on every run and proved equal to the model for ALL inputs (Props/C08Spec.lean render_eq_source; broken build = broken obligation): per dtype branch the umap dictionary and how it is read, the whole list smol as a line program (literal lines, f-string holes, conditions, .rstrip(), atom block position, fragment loop with its separator and header line, molpro dummy card, SDF counts/atom/bond layouts), data.fields, data.keywords (names, conditions, values), the factor-selection chain, _atoms_formatter's three format specs, tagline, join; Molecule.to_string's defaults / from_schema call / forwarding. Still tied only by differential correspondence (exact text, fields, typed keywords on the generated stream): the MEANING of the recognised Python shapes (Model/ToStringSrc.lean: f-string substitution, str.format of the atom/ghost formats, rstrip/strip/upper/lower, np.split, dict/list building order) and formula_generator",
    "dtype.lower(), units.capitalize() and units.lower() are applied by the MODEL (Model/ToStringSrc.lean dtypeOfRaw / reqOfRaw): the driver receives the caller's strings as given (upper/mixed-case dtype names and Bohr/Angstrom spellings are part of the generated stream); the harness still lower-cases them for its own oracle",
    "translator harness/c08_spec.py (python `ast` of qcelemental/molparse/to_string.py and models/molecule.py -> lean/QcelVerif/Gen/ToStringSpec.lean): a small symbolic executor of each branch body; only the syntax tree is read; a statement / expression / condition / if-elif pair it does not recognise, a dtype in the source that the model lacks (or the reverse), a second atom block or a keyword written twice raise SpecError: the run reports a broken obligation and the generated file is replaced by a stub that cannot satisfy Props/C08Spec.lean. Hole expressions are recognised by their normalised source text (e.g. int(molrec['molecular_charge'])) and given their meaning in Model/ToStringSrc.lean by hand",
    "CPython format(x, '.{p}f') and str(float): taken as parameters; every printed coordinate is checked by the Lean checker isFixedRounding against the exact rational of the double (Model/FixedFmt.lean)",
    "numpy elementwise double multiply geom*factor: the product is a parameter, checked against the exact product with the model-selected factor under the IEEE standard model |p - xf| <= 2^-53 |xf|",
    "constants.bohr2angstroms (C02) and constants.conversion_factor (C03) values are parameters; the oracle checks conversion_factor against the SI definitions (relative 1e-12)",
    "guess_connectivity (C18) supplies the SDF bond list when the molecule has none (parameter); from_arrays / from_schema build the molrec (C04)",
    "harness/c08.py generators and the Python oracle",
    "call sequences: the reference answer of a single call comes from a fresh fork (os.fork) of a process that has imported qcelemental and loaded its unit registry but never built or written a molecule; CPython object allocation decides whether id()-keyed state is met again (such findings may not replay)",
]
ASSUMPTIONS = [
    "integer charges (the property's scope); ASCII names/labels/format overrides",
    "format overrides use plain {field} replacement fields, {{ and }} (conversions/specs/positional fields are outside the model: Err.unsupported, not generated); overrides with unknown fields or unbalanced braces are generated for the correspondence only",
    "a pinned input_units_to_au on Bohr storage is 1.0",
    "nm/pm on dtypes that do not spell them (error rows and the four 'None' rows) are generated for the correspondence only; the oracle makes no demand there",
    "formats without a charge/multiplicity slot (terachem, turbomole, nglview-sdf; madness has no multiplicity value, only spin_restricted) are outside the chgmult clause and counted in the distribution",
    "width >= 1; precision 0..16",
    "call sequences stay inside the quantifier: every member of a family is a from_arrays-validated molecule, or a Molecule.copy(update=...) of one that changes only name / fix_com / fix_orientation / fix_symmetry / lower-case atom_labels (fields validation leaves as they are; a copy with an upper-case label is not a validated molecule: validation lower-cases labels)",
    "the source tie (Props/C08Spec.lean) holds in the model's integer-charge scope: the hole `molrec['molecular_charge']` of molpro's `set,charge=` line is interpreted as str() of an integral float (c.0); int(...) of a charge as the integer itself",
    "text-only answers (return_data=False, Molecule.to_file): clauses whose slot is a keyword (cfour/nwchem/madness/gamess charge+multiplicity, cfour/gamess/qchem unit, mrchem keywords) are not evaluated; the rest is",
    "oracle:call_history demands that a call's answer (text, fields, keywords) does not depend on what the process wrote before; oracle:argument_mutated that to_string leaves the molrec / Molecule it is given unchanged - both are what 'the text states the molecule it was made from' needs once objects are reused",
]
RULE = (
    "molecules: from_arrays-validated, 1-12 atoms on a jittered lattice (coordinates with 1-10 decimals, negative, -0.0 and tiny values), ghosts anywhere, "
    "user labels, isotopes / non-standard masses, 1-4 fragments with valid (charge, multiplicity) in -3..3 / 1..6, Bohr or Angstrom storage, input_units_to_au absent or pinned "
    "(three CODATA-ish values), names, fix_com/fix_orientation/fix_symmetry, explicit bonds; for each molecule EVERY dtype x a rotating choice of unit request "
    "(default, Bohr, Angstrom, case variants, nm, pm) x width/precision x atom_format/ghost_format overrides, both molparse.to_string and Molecule.to_string. "
    "A case is distinct by (molecule, dtype, units, width, prec, overrides, route) and non-trivial when it has a ghost, >1 fragment, a unit conversion, an override or an error outcome. "
    "Views of the molecule and fingerprints of the argument objects are taken before the first call; the same molrec / Molecule object is reused for all its calls and compared after each. "
    "Call sequences (160 quick / 900 thorough families): a base molecule plus 1-4 siblings differing in ONE aspect (labels, name, fix_com/fix_orientation, fix_symmetry, a ghost flag, an isotope, "
    "a fragment charge/multiplicity, fragmentation, stored unit, pinned input_units_to_au, one coordinate by 1e-9..1e-2, atom order, swapped positions, bonds, nothing at all; sometimes two aspects; "
    "Molecule siblings also via Molecule.copy(update=...)); 4 dtypes x 1-2 option sets, each written for every member in shuffled order (sometimes returning to the first), through molparse.to_string, "
    "Molecule.to_string, Molecule.to_file, with return_data on/off, objects kept or dropped-and-rebuilt, returned keywords/fields scribbled on. Each answer: per-call oracle + model correspondence + "
    "equality with a fresh process's answer to that single call + argument unchanged. A failing call is localised (fresh processes) to the shortest list of calls that shows it again; that list is the replay."
)
LEVEL_TEXT = (
    "Lean proofs (any number of atoms/fragments) about a hand model of to_string: atom lines once and in order, layout read-back, spellings, fragment partition, dummy indices, "
    "charge/multiplicity slots, and the complete unit decision table; these clauses are also composed into statements about the OUTPUT of render (Props/C08Whole.lean: atoms read back from r.lines, "
    "charge/multiplicity at their line/keyword of r, the unit word at the program's place in r, and end to end: announced unit u => every checked coordinate is the correctly rounded print of stored x * factor(stored -> u)). "
    "The model's templates are no longer only hand-copied: every literal, condition, keyword, umap, the factor chain and the format specs are re-read from to_string.py by `ast` on every run and the model is PROVED equal, "
    "for all molecules and options, to an interpreter run on those tables (render_eq_source); the unit decision theorem is restated over the generated tables. Partial: float printing/multiplication are checked parameters; "
    "the meaning given to the recognised Python shapes (the interpreter) and everything the translator maps by name are tied to the code by exact-text differential runs, not by proof. Independence of a text from earlier calls (caches, shared or edited objects) is searched, not proved: "
    "sampled call sequences over sibling molecules compared with a history-free model and with fresh processes."
)
TECHNIQUE = "Lean 4 proof of list/template theorems and a finite decision table + ast translator of the branch bodies into line programs with a proved-equal table-driven renderer + exact-text behavioural correspondence + independent extractor oracle"

DTYPES = ["xyz", "xyz+", "cfour", "gamess", "molpro", "nwchem", "orca", "psi4", "qchem", "terachem", "turbomole", "madness", "mrchem", "nglview-sdf"]
DEFAULT_UNIT = {d: "bohr" for d in DTYPES}
DEFAULT_UNIT.update({"xyz": "angstrom", "xyz+": "angstrom", "nglview-sdf": "angstrom"})
# rows where the format cannot spell the unit and the implementation refuses (see Props/C08.lean unit_error_rows)
REFUSES = {(d, u) for d in ["orca", "terachem", "psi4", "qchem"] for u in ["nm", "pm"]}
REFUSES |= {("turbomole", u) for u in ["angstrom", "nm", "pm"]}
REFUSES |= {("nglview-sdf", u) for u in ["bohr", "nm", "pm"]}
SPELLS_NM_PM = {"xyz", "xyz+", "nwchem"}
# formats whose charge/multiplicity slot, resp. unit announcement, is a keyword (not text): unreadable when only the text is returned
KW_CHG = {"cfour", "nwchem", "madness", "gamess"}
KW_UNIT = {"cfour", "gamess", "qchem"}

ELEMS = [("H", 1), ("H", 1), ("H", 1), ("He", 2), ("Li", 3), ("Be", 4), ("B", 5), ("C", 6), ("C", 6), ("N", 7), ("O", 8), ("O", 8),
         ("F", 9), ("Ne", 10), ("Na", 11), ("Mg", 12), ("Al", 13), ("Si", 14), ("P", 15), ("S", 16), ("Cl", 17), ("Ar", 18),
         ("K", 19), ("Ca", 20), ("Fe", 26), ("Cu", 29), ("Zn", 30), ("Br", 35), ("Kr", 36), ("I", 53), ("Xe", 54), ("Au", 79), ("U", 92)]
ISOTOPES = {"H": [2, 3], "C": [13, 14], "O": [17, 18], "N": [15], "Cl": [37], "Li": [6], "B": [10], "He": [3], "Br": [81], "U": [235]}
LABELS = ["", "", "", "", "1", "2", "_a", "x", "_gh", "A1b", "12", "_"]
NAMES = [None, None, None, "water dimer", "mol-1", "Zn(II) complex", "a", "x y  z", "CH4", "trailing ", "1,2-diol; test"]
PINNED_A = [1.8897261328856432, 1.889726125, 1.88972612456506, 1.8897]
AFMTS = [None, None, None, "{elem}", "{elem}{elbl}", "{elez}", "{elem}{elea}", "{elem}@{mass}", "{elea}{elem}_{elbl}", "{{{elem}}}", "{elem} {elez}", "x{elbl}-{elem}"]
GFMTS = [None, None, None, "", "", "@{elem}", "Gh({elem})", "{elem}:", "gh_{elem}{elbl}", "X", "@{elem}{elea}", "{elez}-{mass}", "{elbl}", "{elbl}", "g{elbl}"]
BAD_FMTS = ["{elen}", "{elem", "elem}", "{elem}}", "{}", "{elem:>4}", "{elem!r}", "{0}"]


def quiet():
    return contextlib.redirect_stdout(io.StringIO())


# --------------------------------------------------------------------------------------
# generator: molecule specs (JSON-able kwargs of from_arrays)


def gen_coord(rng, base):
    r = rng.random()
    if r < 0.04:
        return 0.0
    if r < 0.07:
        return -0.0
    if r < 0.11:
        return rng.choice([1, -1]) * rng.choice([1e-7, 4.9e-5, 5e-4, 5.0000001e-4, 2.5e-3, 1e-13])
    v = base + rng.uniform(-0.45, 0.45)
    if rng.random() < 0.5:
        v = -v
    nd = rng.choice([1, 2, 3, 5, 8, 10, 17])
    return round(v, nd) if nd < 17 else v


def gen_spec(rng):
    """A from_arrays kwargs dict for a validated molecule of 1-12 atoms, 1-4 fragments."""
    nat = rng.choice([1, 1, 2, 2, 3, 3, 4, 5, 6, 7, 8, 10, 12])
    nfr = min(nat, rng.choice([1, 1, 1, 2, 2, 3, 4]))
    cuts = sorted(rng.sample(range(1, nat), nfr - 1)) if nfr > 1 else []
    sizes = [b - a for a, b in zip([0] + cuts, cuts + [nat])]
    sites = [(i, j, k) for i in range(4) for j in range(3) for k in range(3)]
    rng.shuffle(sites)
    elem, elez, real, elbl, elea, mass, geom = [], [], [], [], [], [], []
    pg = rng.choice([0.0, 0.15, 0.15, 0.35, 0.7])
    fcs, fms = [], []
    any_iso = any_mass = False
    scale = rng.choice([1.6, 2.4, 3.1])
    for sz in sizes:
        ghost_frag = rng.random() < 0.12
        zreal = 0
        for _ in range(sz):
            s, z = rng.choice(ELEMS)
            rl = not ghost_frag and rng.random() >= pg
            elem.append(s if rng.random() > 0.1 else s.upper() if rng.random() < 0.5 else s.lower())
            elez.append(z)
            real.append(rl)
            elbl.append(rng.choice(LABELS))
            iso = None
            if s in ISOTOPES and rng.random() < 0.2:
                iso = rng.choice(ISOTOPES[s])
                any_iso = True
            elea.append(iso)
            ms = None
            if iso is None and rng.random() < 0.05:
                ms = round(2.0 * z + rng.uniform(-0.4, 0.4), rng.choice([1, 3, 6]))
                any_mass = True
            mass.append(ms)
            i, j, k = sites.pop()
            geom += [gen_coord(rng, scale * i), gen_coord(rng, scale * j), gen_coord(rng, scale * k)]
            if rl:
                zreal += z
        if zreal == 0:
            fc, fm = 0, 1
        else:
            fc = rng.choice([0, 0, 0, 0, 1, -1, 2, -2, 3, -3])
            if zreal - fc < 0:
                fc = 0
            ne = zreal - fc
            lo = 1 + ne % 2
            fm = lo + 2 * rng.choice([0, 0, 0, 1, 1, 2])
            if fm - 1 > ne or fm > 6:
                fm = lo
        fcs.append(fc)
        fms.append(fm)
    units = rng.choice(["Bohr", "Angstrom"])
    spec = {"elem": elem, "geom": geom, "real": real, "elbl": elbl, "units": units, "speclabel": False,
            "fragment_separators": cuts, "fragment_charges": fcs, "fragment_multiplicities": fms}
    if any_iso:
        spec["elea"] = elea
    if any_mass:
        spec["mass"] = mass
        spec["nonphysical"] = True
    r = rng.random()
    if units == "Angstrom" and r < 0.55:
        spec["input_units_to_au"] = rng.choice(PINNED_A)
    elif units == "Bohr" and r < 0.4:
        spec["input_units_to_au"] = 1.0
    nm = rng.choice(NAMES)
    if nm is not None:
        spec["name"] = nm
    fr = rng.random()
    if fr < 0.3:
        spec["fix_com"], spec["fix_orientation"] = True, True
    elif fr < 0.45:
        spec["fix_com"], spec["fix_orientation"] = True, False
    elif fr < 0.6:
        spec["fix_com"], spec["fix_orientation"] = False, True
    if rng.random() < 0.3:
        spec["fix_symmetry"] = rng.choice(["c1", "C1", "c2v", "Cs", "d2h", "C2"])
    if nat >= 2 and rng.random() < 0.25:
        nb = rng.randint(1, min(4, nat - 1))
        bonds = set()
        for _ in range(nb):
            a, b = rng.sample(range(nat), 2)
            bonds.add((min(a, b), max(a, b)))
        spec["connectivity"] = [[a, b, rng.choice([1.0, 1.0, 2.0, 1.5, 3.0])] for a, b in sorted(bonds)]
    return spec


def build_molrec(spec):
    from qcelemental.molparse import from_arrays

    kw = dict(spec)
    kw["geom"] = np.array(kw["geom"], dtype=float)
    with quiet():
        return from_arrays(**kw)


def gen_molecules(ctx, n):
    rng = ctx.rng
    out = []
    tries = 0
    while len(out) < n and tries < 20 * n:
        tries += 1
        spec = gen_spec(rng)
        try:
            rec = build_molrec(spec)
        except Exception:
            continue
        if not (-3 <= rec["molecular_charge"] <= 3 and 1 <= rec["molecular_multiplicity"] <= 6):
            continue
        out.append((spec, rec))
    return out


def gen_opts(rng, dtype, k):
    """k-th option set for a molecule/dtype; k=0 is all defaults."""
    if k == 0:
        return {"dtype": dtype, "units": None, "atom_format": None, "ghost_format": None, "width": 17, "prec": 12}
    units = rng.choice([None, "Bohr", "Angstrom", "Bohr", "Angstrom", "bohr", "ANGSTROM", "angstrom", "BOHR", "nm", "pm"])
    if units in ("nm", "pm") and dtype not in SPELLS_NM_PM and rng.random() < 0.5:
        units = rng.choice(["Bohr", "Angstrom"])
    o = {"dtype": dtype if rng.random() > 0.05 else dtype.upper(), "units": units, "atom_format": None, "ghost_format": None,
         "width": rng.choice([17, 17, 1, 6, 8, 10, 12, 14, 20, 24]), "prec": rng.choice([12, 12, 0, 1, 2, 3, 4, 5, 6, 8, 10, 14, 16])}
    if dtype in ("xyz", "xyz+"):
        o["atom_format"] = rng.choice(AFMTS)
        o["ghost_format"] = rng.choice(GFMTS)
        if rng.random() < 0.04:
            o[rng.choice(["atom_format", "ghost_format"])] = rng.choice(BAD_FMTS)
    elif dtype == "nglview-sdf":
        o["ghost_format"] = rng.choice([None, None, "", "Gh", "X", "Bq"])
    elif rng.random() < 0.25:  # overrides are ignored by every other branch
        o["atom_format"] = rng.choice(AFMTS)
        o["ghost_format"] = rng.choice(GFMTS)
    return o


# --------------------------------------------------------------------------------------
# implementation


def call_impl(rec, o, mol=None):
    from qcelemental.molparse import to_string

    kw = dict(units=o["units"], atom_format=o["atom_format"], ghost_format=o["ghost_format"], width=o["width"], prec=o["prec"], return_data=True)
    try:
        with quiet():
            if mol is not None:
                s, d = mol.to_string(o["dtype"], **kw)
            else:
                s, d = to_string(rec, o["dtype"], **kw)
    except Exception as e:  # noqa
        return ("err", type(e).__name__, str(e)[:200])
    return ("ok", s, d)


def hx(s: str) -> str:
    return "h" + s.encode("latin-1").hex()


def unhx(s: str) -> str:
    assert s.startswith("h")
    return bytes.fromhex(s[1:]).decode("latin-1")


def canon_kw(kw: dict):
    """typed canonical form of a keywords dict"""
    out = {}
    for k, v in kw.items():
        if isinstance(v, (bool, np.bool_)):
            out[str(k)] = ("b", bool(v))
        elif isinstance(v, (int, np.integer)):
            out[str(k)] = ("i", int(v))
        elif isinstance(v, str):
            out[str(k)] = ("s", v)
        elif v is None:
            out[str(k)] = ("n", None)
        else:
            out[str(k)] = ("?", repr(v))
    return out


def parse_model(line: str):
    if not line.startswith("ok|"):
        return ("err", line)
    _, t, f, k = line.split("|")
    fields = [unhx(x) for x in f.split(",")] if f else []
    kw = {}
    if k:
        for item in k.split(";"):
            key, val = item.split("=", 1)
            if val[0] == "i":
                v = ("i", int(val[1:]))
            elif val[0] == "s":
                v = ("s", unhx(val[1:]))
            elif val[0] == "b":
                v = ("b", val[1] == "T")
            else:
                v = ("n", None)
            kw[unhx(key)] = v
    return ("ok", unhx(t), fields, kw)


# --------------------------------------------------------------------------------------
# the harness's own view of units (independent of to_string.py)

_CONST = {}


def consts():
    if not _CONST:
        import qcelemental as qcel

        b2a = float(qcel.constants.bohr2angstroms)
        _CONST["b2a"] = b2a
        _CONST["inv"] = 1.0 / b2a
        for s in ("Bohr", "Angstrom"):
            for t in ("nm", "pm"):
                _CONST[(s.lower(), t)] = float(qcel.constants.conversion_factor(s, t))
        _CONST["a2b"] = float(qcel.constants.conversion_factor("Angstrom", "Bohr"))
    return _CONST


SI_M = {"angstrom": Fraction(1, 10**10), "nm": Fraction(1, 10**9), "pm": Fraction(1, 10**12)}


def si_length(unit: str) -> Fraction:
    """metres per unit (Bohr through bohr2angstroms, C02's value)"""
    if unit == "bohr":
        return Fraction(consts()["b2a"]) * SI_M["angstrom"]
    return SI_M[unit]


def exact_factor(stored: str, target: str, iutau) -> Fraction:
    """the conversion the property demands: stored -> target"""
    if stored == target:
        return Fraction(1)
    if stored == "angstrom" and target == "bohr" and iutau is not None:
        return Fraction(float(iutau))
    return si_length(stored) / si_length(target)


def float_factor(stored: str, target: str, iutau) -> float:
    c = consts()
    if stored == target:
        return 1.0
    if stored == "angstrom" and target == "bohr":
        return float(iutau) if iutau is not None else c["inv"]
    if stored == "bohr" and target == "angstrom":
        return c["b2a"]
    return c[(stored, target)]


def target_unit(o):
    d = o["dtype"].lower()
    return DEFAULT_UNIT[d] if o["units"] is None else o["units"].lower()


def frac(x) -> str:
    f = Fraction(float(x))
    return str(f.numerator) if f.denominator == 1 else f"{f.numerator}/{f.denominator}"


def enc_case(rec, o) -> str:
    """driver line for (molrec, options); every third-party value is computed here, not taken from to_string"""
    import qcelemental as qcel

    c = consts()
    d = o["dtype"].lower()
    stored = rec["units"].lower()
    tgt = target_unit(o)
    iutau = rec.get("input_units_to_au", None)
    f = float_factor(stored, tgt, iutau)
    geom = np.asarray(rec["geom"], dtype=float).reshape((-1, 3))
    prod = geom * f
    prec = 4 if d == "nglview-sdf" else o["prec"]
    req = {None: "D", "bohr": "B", "angstrom": "A", "nm": "nm", "pm": "pm"}[None if o["units"] is None else o["units"].lower()]
    conv = c[(stored, tgt)] if tgt in ("nm", "pm") else None
    bonds = ""
    if d == "nglview-sdf" and tgt == "angstrom":
        conn = rec.get("connectivity", None)
        if conn is None:
            conn = qcel.molutil.guess_connectivity(rec["elem"], prod * c["a2b"], default_connectivity=1)
        bonds = ";".join(f"{int(a)},{int(b)},{frac(bo)}" for a, b, bo in conn)
    atoms = []
    for i in range(geom.shape[0]):
        parts = [str(int(rec["elea"][i])), str(int(rec["elez"][i])), hx(str(rec["elem"][i])), hx(format(rec["mass"][i], "")),
                 hx(str(rec["elbl"][i])), "1" if rec["real"][i] else "0"]
        for j in range(3):
            p = float(prod[i, j])
            parts += [frac(geom[i, j]), frac(p), "1" if math.copysign(1.0, p) < 0 else "0", hx(format(p, f".{prec}f"))]
        atoms.append(",".join(parts))
    # dtype and units go to the driver as the caller gave them: the model applies dtype.lower(), units.capitalize() / units.lower()
    fields = [
        "raw:" + hx(o["dtype"]), "D" if o["units"] is None else "raw:" + hx(o["units"]),
        "N" if o["atom_format"] is None else hx(o["atom_format"]),
        "N" if o["ghost_format"] is None else hx(o["ghost_format"]),
        str(o["width"]), str(o["prec"]),
        "B" if stored == "bohr" else "A",
        "N" if iutau is None else frac(iutau),
        frac(c["b2a"]), frac(c["inv"]),
        "N" if conv is None else frac(conv),
        hx(rec["name"]) if "name" in rec else "N",
        str(int(rec["molecular_charge"])), str(int(rec["molecular_multiplicity"])),
        ",".join(str(int(s)) for s in rec["fragment_separators"]),
        ",".join(str(int(x)) for x in rec["fragment_charges"]),
        ",".join(str(int(x)) for x in rec["fragment_multiplicities"]),
        "1" if rec["fix_com"] else "0", "1" if rec["fix_orientation"] else "0",
        hx(rec["fix_symmetry"]) if "fix_symmetry" in rec else "N",
        bonds, ";".join(atoms),
    ]
    return "|".join(fields)


# --------------------------------------------------------------------------------------
# the oracle: read the text back, compare with the molecule


def mol_view(rec):
    """What the molecule says (taken from the molrec the text was made from)."""
    nat = len(rec["elem"])
    seps = [int(s) for s in rec["fragment_separators"]]
    return {
        "elem": [str(x) for x in rec["elem"]], "elbl": [str(x) for x in rec["elbl"]], "elez": [int(x) for x in rec["elez"]],
        "elea": [int(x) for x in rec["elea"]], "mass": [rec["mass"][i] for i in range(nat)], "real": [bool(x) for x in rec["real"]],
        "geom": [float(x) for x in np.asarray(rec["geom"], dtype=float).reshape(-1)], "stored": rec["units"].lower(),
        "iutau": rec.get("input_units_to_au", None), "charge": rec["molecular_charge"], "mult": rec["molecular_multiplicity"],
        "sizes": [b - a for a, b in zip([0] + seps, seps + [nat])],
        "fcharges": list(rec["fragment_charges"]), "fmults": list(rec["fragment_multiplicities"]),
    }


def view_from_molecule(mol):
    """The same view taken from the Molecule model's own fields (Molecule.to_string route)."""
    nat = len(mol.symbols)
    frs = [list(map(int, f)) for f in mol.fragments]
    return {
        "elem": [str(x) for x in mol.symbols], "elbl": [str(x) for x in mol.atom_labels], "elez": [int(x) for x in mol.atomic_numbers],
        "elea": [int(x) for x in mol.mass_numbers], "mass": [mol.masses[i] for i in range(nat)], "real": [bool(x) for x in mol.real],
        "geom": [float(x) for x in np.asarray(mol.geometry, dtype=float).reshape(-1)], "stored": "bohr", "iutau": None,
        "charge": mol.molecular_charge, "mult": mol.molecular_multiplicity, "sizes": [len(f) for f in frs],
        "fcharges": list(mol.fragment_charges), "fmults": list(mol.fragment_multiplicities),
        "contiguous": [i for f in frs for i in f] == list(range(nat)),
    }


NUM_RE = re.compile(r"^-?\d+(\.\d+)?$")


def expected_labels(d, v, o):
    """(index, tokens of the expected label) for every atom the format shows"""
    out = []
    for i in range(len(v["elem"])):
        E, L, Z, real = v["elem"][i], v["elbl"][i], v["elez"][i], v["real"][i]
        info = {"elea": "" if v["elea"][i] == -1 else v["elea"][i], "elez": Z, "elem": E, "mass": v["mass"][i], "elbl": L}
        if d in ("xyz", "xyz+"):
            af = "{elem}" if o["atom_format"] is None else o["atom_format"]
            gf = "@{elem}" if o["ghost_format"] is None else o["ghost_format"]
            if real:
                lab = af.format(**info)
            elif gf == "":
                continue
            else:
                lab = gf.format(**info)
        elif d == "orca":
            lab = E if real else E + ":"
        elif d in ("cfour", "madness"):
            lab = E if real else "GH"
        elif d in ("molpro", "mrchem"):
            lab = E
        elif d == "turbomole":
            lab = E.lower()
        elif d == "nwchem":
            lab = E + L if real else "bq" + E + L
        elif d == "gamess":
            lab = f"{E}{L} {Z}" if real else f"{E} -{Z}"
        elif d == "terachem":
            lab = E if real else "X" + E
        elif d == "psi4":
            lab = E + L if real else f"Gh({E}{L})"
        elif d == "qchem":
            lab = E if real else "@" + E
        elif d == "nglview-sdf":
            lab = E if real else (o["ghost_format"] or "Gh")
        out.append((i, lab.split()))
    return out


def plain_format(fmt) -> bool:
    """override inside the quantifier: literal text, {{, }}, and plain {name} fields"""
    if fmt is None:
        return True
    rest = re.sub(r"\{\{|\}\}", "", fmt)
    rest = re.sub(r"\{[A-Za-z_][A-Za-z_0-9]*\}", "", rest)
    return "{" not in rest and "}" not in rest


class Unreadable(Exception):
    pass


def read_back(d, text, kw):
    """Per-dtype reader: atom entries [(label tokens, [x,y,z] texts)], stated charge/mult, fragment headers,
    announced unit (or None), molpro dummy list.  Follows each program's layout, not to_string.py."""
    L = text.split("\n")
    if L[-1] != "":
        raise Unreadable("text does not end with a newline")
    L = L[:-1]
    r = {"atoms": [], "charge": None, "mult": None, "frags": None, "unit": None, "dummy": None, "unit_word": None}

    def atom(line, coords_first=False, empty_label_ok=False):
        t = line.split()
        if len(t) == 3 and empty_label_ok:
            return ([], t)  # an override template that renders empty for this atom (e.g. '{elbl}' on an unlabelled one): the line is still the atom's
        if len(t) < 4:
            raise Unreadable(f"atom line has {len(t)} tokens: {line!r}")
        return (t[3:], t[:3]) if coords_first else (t[:-3], t[-3:])

    def unit_from(word, table):
        r["unit_word"] = word
        r["unit"] = table.get(word)

    if d in ("xyz", "xyz+", "terachem"):
        h = L[0].split()
        nat = int(h[0])
        unit_from(" ".join(h[1:]), {"": "angstrom", "au": "bohr", "nm": "nm", "pm": "pm"} if d != "terachem" else {"": "angstrom", "au": "bohr"})
        if d != "terachem":
            cm = L[1].split()
            r["charge"], r["mult"] = int(cm[0]), int(cm[1])
        body = L[2:]
        if len(body) != nat:
            raise Unreadable(f"count line says {nat} atoms, {len(body)} lines follow")
        r["atoms"] = [atom(x, empty_label_ok=(d != "terachem")) for x in body]
    elif d == "orca":
        unit_from(L[0], {"! Bohrs": "bohr", "!": "angstrom"})
        m = re.fullmatch(r"\*xyz (-?\d+) (-?\d+)", L[2])
        if not m or L[1] != "" or L[-1] != "*":
            raise Unreadable("orca frame")
        r["charge"], r["mult"] = int(m.group(1)), int(m.group(2))
        r["atoms"] = [atom(x) for x in L[3:-1]]
    elif d == "cfour":
        r["atoms"] = [atom(x) for x in L[1:]]
        r["charge"], r["mult"] = kw.get("charge"), kw.get("multiplicity")
        unit_from(kw.get("units"), {"bohr": "bohr", "angstrom": "angstrom"})
    elif d == "molpro":
        g = L.index("geometry={")
        e = L.index("}", g)
        m = re.fullmatch(r"\{(.*)\}", L[g - 1])
        unit_from(m.group(1) if m else None, {"bohr": "bohr", "angstrom": "angstrom"})
        r["atoms"] = [atom(x) for x in L[g + 1:e]]
        rest = L[e + 1:]
        r["dummy"] = []
        for x in rest:
            if x.startswith("dummy,"):
                r["dummy"] = [int(y) for y in x.split(",")[1:]]
            elif x.startswith("set,charge="):
                fv = float(x.split("=")[1])
                r["charge"] = int(fv) if fv == int(fv) else fv
            elif x.startswith("set,spin="):
                r["mult"] = int(x.split("=")[1]) + 1
    elif d == "nwchem":
        m = re.fullmatch(r"geometry units (\S+)", L[0])
        unit_from(m.group(1) if m else None, {"bohr": "bohr", "angstroms": "angstrom", "nanometers": "nm", "picometers": "pm"})
        if L[-1] != "end":
            raise Unreadable("nwchem frame")
        body = L[1:-1]
        body = [x for x in body if x != "" and not x.startswith("symmetry ")]
        r["atoms"] = [atom(x) for x in body]
        r["charge"] = kw.get("charge")
        ms = {kw[k] for k in ("dft__mult", "mcscf__multiplicity") if k in kw}
        if "scf__nopen" in kw:
            ms.add(kw["scf__nopen"] + 1)
        r["mult"] = 1 if not ms else (ms.pop() if len(ms) == 1 else ("inconsistent", sorted(ms)))
    elif d == "madness":
        m = re.fullmatch(r"units (\S+)", L[1])
        unit_from(m.group(1) if m else None, {"au": "bohr", "angstrom": "angstrom"})
        if L[0] != "geometry" or L[-1] != "end":
            raise Unreadable("madness frame")
        r["atoms"] = [atom(x) for x in L[2:-1]]
        r["charge"] = kw.get("charge")
        r["open_shell"] = kw.get("spin_restricted") == "false"
    elif d == "gamess":
        if L[0] != " $data" or L[-1] != " $end":
            raise Unreadable("gamess frame")
        body = L[3:-1]
        if body and body[0] == "":  # blank card after a non-C1 point group
            body = body[1:]
        r["atoms"] = [atom(x) for x in body]
        r["charge"], r["mult"] = kw.get("contrl__icharg"), kw.get("contrl__mult")
        unit_from(kw.get("contrl__units"), {"bohr": "bohr", "angs": "angstrom"})
    elif d in ("psi4", "qchem"):
        if d == "psi4":
            body = L
            tail = []
            while body and not NUM_RE.match(body[-1].split()[-1] if body[-1].split() else ""):
                tail.insert(0, body[-1])
                body = body[:-1]
            us = [x for x in tail if x.startswith("units ")]
            unit_from(us[0].split()[1] if us else None, {"bohr": "bohr", "angstrom": "angstrom"})
        else:
            if L[0] != "$molecule" or L[-1] != "$end":
                raise Unreadable("qchem frame")
            body = L[1:-1]
            unit_from(kw.get("input_bohr"), {"True": "bohr", "False": "angstrom"})
        cm = body[0].split()
        r["charge"], r["mult"] = int(cm[0]), int(cm[1])
        frags, cur = [], None
        i = 1
        while i < len(body):
            if body[i] == "--":
                fcm = body[i + 1].split()
                cur = [int(fcm[0]), int(fcm[1]), 0]
                frags.append(cur)
                i += 2
                continue
            r["atoms"].append(atom(body[i]))
            if cur is not None:
                cur[2] += 1
            i += 1
        r["frags"] = frags
    elif d == "turbomole":
        if L[0] != "$coord" or L[-1] != "$end":
            raise Unreadable("turbomole frame")
        r["atoms"] = [atom(x, coords_first=True) for x in L[1:-1]]
        r["unit"], r["unit_word"] = "bohr", "$coord"
    elif d == "mrchem":
        c0 = L.index("$coords")
        e = L.index("$end")
        r["atoms"] = [atom(x) for x in L[c0 + 1:e]]
        for x in L[:c0]:
            m = re.fullmatch(r"charge = (-?\d+)", x)
            if m:
                r["charge"] = int(m.group(1))
            m = re.fullmatch(r"multiplicity = (-?\d+)", x)
            if m:
                r["mult"] = int(m.group(1))
        r["kw_charge"], r["kw_mult"] = kw.get("charge"), kw.get("multiplicity")
        r["kw_coords"] = kw.get("coords")
    elif d == "nglview-sdf":
        cnt = L[3]
        nat, nb = int(cnt[0:3]), int(cnt[3:6])
        for x in L[4:4 + nat]:
            r["atoms"].append((x[30:].split()[:1], [x[0:10].strip(), x[10:20].strip(), x[20:30].strip()]))
        if len(L) != 4 + nat + nb:
            raise Unreadable("sdf counts line does not match the number of lines")
        r["unit"], r["unit_word"] = "angstrom", "sdf"
    return r


def coord_ok(text, exact: Fraction, prec: int):
    """text is a fixed decimal with `prec` places within 1/2 ulp of the exact converted coordinate
    (+ relative 1e-12 for the double arithmetic and the constants)"""
    if not NUM_RE.match(text):
        return False
    if prec == 0:
        if "." in text:
            return False
    elif len(text.split(".")[-1]) != prec or "." not in text:
        return False
    val = Fraction(Decimal(text))
    tol = Fraction(1, 2 * 10**prec) + abs(exact) * Fraction(1, 10**12)
    return abs(val - exact) <= tol


def oracle(v, o, res, stats=None):
    """List of (clause, message) the implementation's answer violates; only inside the quantifier.
    `stats` (optional dict) counts which clauses were actually evaluated."""
    if stats is None:
        stats = {}

    def tick(k, n=1):
        stats[k] = stats.get(k, 0) + n

    d = o["dtype"].lower()
    tgt = target_unit(o)
    bad = []
    in_scope_unit = tgt in ("bohr", "angstrom") or d in SPELLS_NM_PM
    overrides_ok = all(plain_format(o[k]) for k in ("atom_format", "ghost_format")) if d in ("xyz", "xyz+") else True
    try:
        exp = expected_labels(d, v, o) if overrides_ok else None
    except Exception:
        overrides_ok = False  # malformed override: outside the quantifier
    if not overrides_ok:
        return bad
    if res[0] == "err":
        if (d, tgt) in REFUSES:
            tick("oracle:refusal_row")
            return bad  # the format cannot spell the unit: refusing is not a wrong announcement
        if in_scope_unit:
            bad.append(("unexpected_error", f"{res[1]}: {res[2]}"))
        return bad
    _, text, data = res
    text_only = data is None  # return_data=False / Molecule.to_file: only the text is there to read
    kw = {} if text_only else data.get("keywords", {})
    if text_only:
        tick("oracle:text_only")
    try:
        r = read_back(d, text, kw)
    except Exception as e:  # noqa
        if in_scope_unit:
            bad.append(("unreadable", f"{type(e).__name__}: {e}"))
        return bad
    if not in_scope_unit:
        return bad
    prec = 4 if d == "nglview-sdf" else o["prec"]
    # --- atoms once, in order, spelled right
    got = [a[0] for a in r["atoms"]]
    want = [lab for _, lab in exp]
    if d == "turbomole":
        got = [[x for x in g] for g in got]
    tick("oracle:atoms_checked", len(want))
    if len(want) < len(v["elem"]):
        tick("oracle:ghosts_suppressed")
    if got != want:
        bad.append(("atoms", f"labels read back {got} expected {want}"))
        return bad
    # --- coordinates: converted to the requested unit, printed at the requested precision
    F = exact_factor(v["stored"], tgt, v["iutau"])
    tick("oracle:coords_checked", 3 * len(exp))
    tick("oracle:unit_read:" + str(r["unit"]))
    for (i, _), (_, cs) in zip(exp, r["atoms"]):
        for j in range(3):
            ex = Fraction(v["geom"][3 * i + j]) * F
            if not coord_ok(cs[j], ex, prec):
                bad.append(("coords", f"atom {i} axis {j}: printed {cs[j]!r}, molecule {v['geom'][3*i+j]!r} {v['stored']} -> {tgt} is {float(ex)!r} at {prec} places"))
                return bad
    # --- announced unit is the unit the coordinates are written in
    if r["unit"] is not None and r["unit"] != tgt:
        Fa = exact_factor(v["stored"], r["unit"], v["iutau"])
        for (i, _), (_, cs) in zip(exp, r["atoms"]):
            for j in range(3):
                if not coord_ok(cs[j], Fraction(v["geom"][3 * i + j]) * Fa, prec):
                    bad.append(("unit_announced", f"text/keywords announce {r['unit']} ({r['unit_word']!r}) but coordinates are in {tgt}"))
                    return bad
    if r["unit"] is None and d not in ("mrchem",) and (tgt in ("bohr", "angstrom") or d in SPELLS_NM_PM) and not (text_only and d in KW_UNIT):
        bad.append(("unit_announced", f"unit word {r['unit_word']!r} is not one the program reads (requested {tgt})"))
    # --- charge and multiplicity
    c, m = int(v["charge"]), int(v["mult"])
    kw_slot = text_only and d in KW_CHG  # the slot is a keyword and no keywords were returned: nothing to read
    if d in ("xyz", "xyz+", "orca", "cfour", "molpro", "nwchem", "madness", "gamess", "psi4", "qchem", "mrchem") and not kw_slot:
        if r["charge"] != c or isinstance(r["charge"], bool):
            bad.append(("chgmult", f"charge stated {r['charge']!r}, molecule {c}"))
    if d in ("xyz", "xyz+", "orca", "cfour", "molpro", "nwchem", "gamess", "psi4", "qchem", "mrchem") and not kw_slot:
        if r["mult"] != m or isinstance(r["mult"], bool):
            bad.append(("chgmult", f"multiplicity stated {r['mult']!r}, molecule {m}"))
    if d == "madness" and not kw_slot and r["open_shell"] != (m != 1):
        bad.append(("chgmult", f"spin_restricted flag {r['open_shell']} for multiplicity {m}"))
    if d == "mrchem" and not text_only:
        if r["kw_charge"] != c or r["kw_mult"] != m:
            bad.append(("chgmult", f"mrchem keywords charge/multiplicity {r['kw_charge']!r}/{r['kw_mult']!r}, molecule {c}/{m}"))
        if r["kw_coords"] != "\n".join(text.split("\n")[5:-3]):
            bad.append(("atoms", "mrchem keywords coords differ from the $coords block"))
    if d in ("psi4", "qchem"):
        nfr = len(v["sizes"])
        tick(f"oracle:fragments_checked:{min(nfr, 4)}")
        if nfr > 1:
            want_fr = [[int(v["fcharges"][k]), int(v["fmults"][k]), v["sizes"][k]] for k in range(nfr)]
            if r["frags"] != want_fr:
                bad.append(("fragments", f"fragment blocks (charge, mult, natoms) {r['frags']} expected {want_fr}"))
        elif r["frags"] not in ([], [[int(v["fcharges"][0]), int(v["fmults"][0]), len(v["elem"])]]):
            bad.append(("fragments", f"single fragment but blocks {r['frags']}"))
    if d == "molpro":
        wantd = [i + 1 for i, rl in enumerate(v["real"]) if not rl]
        tick("oracle:dummy_checked:" + ("some" if wantd else "none"))
        if r["dummy"] != wantd:
            bad.append(("dummy", f"dummy card {r['dummy']} expected {wantd}"))
    return bad


def check_conversion_constants(out: Outcome):
    """constants.conversion_factor (C03) against the SI definitions, relative 1e-12."""
    c = consts()
    for s in ("bohr", "angstrom"):
        for t in ("nm", "pm"):
            ex = si_length(s) / si_length(t)
            got = Fraction(c[(s, t)])
            out.evaluations += 1
            if abs(got - ex) > abs(ex) * Fraction(1, 10**12):
                out.violations.append(Finding("oracle:conversion_constant", {"from": s, "to": t}, observed=c[(s, t)], expected=float(ex),
                                              detail="constants.conversion_factor differs from the SI definition (C03's territory)"))
    ex = si_length("angstrom") / si_length("bohr")
    if abs(Fraction(c["a2b"]) - ex) > ex * Fraction(1, 10**12) or abs(Fraction(c["inv"]) - ex) > ex * Fraction(1, 10**12):
        out.violations.append(Finding("oracle:conversion_constant", {"from": "angstrom", "to": "bohr"}, observed=c["a2b"], expected=float(ex)))


# --------------------------------------------------------------------------------------
# one case


def diff_text(a: str, b: str) -> str:
    la, lb = a.split("\n"), b.split("\n")
    for i in range(max(len(la), len(lb))):
        x = la[i] if i < len(la) else "<missing>"
        y = lb[i] if i < len(lb) else "<missing>"
        if x != y:
            return f"line {i}: implementation {x!r} / model {y!r}"
    return "same"


def classify(v, o):
    d = o["dtype"].lower()
    tags = []
    if not all(v["real"]):
        tags.append("ghost")
    if len(v["sizes"]) > 1:
        tags.append("multifrag")
    if target_unit(o) != v["stored"]:
        tags.append("converted")
    if o["atom_format"] is not None or o["ghost_format"] is not None:
        tags.append("override")
    return tags


def check_case(ctx, out: Outcome, spec, rec, o, model_line, route, mol=None, view=None, fp=None):
    """One call of the main stream.  `view` / `fp` (fingerprint of the argument) were taken BEFORE any call was made with
    this object, so a to_string that edits its argument is seen, not followed.  Returns True when the argument was edited."""
    v = view if view is not None else mol_view(rec)
    res = call_impl(rec, o, mol)
    case = {"spec": spec, "opts": o, "route": route}
    edited = False
    if fp is not None:
        now = freeze_dict(mol.dict() if mol is not None else rec)
        if now != fp:
            edited = True
            keys = sorted(k for k in set(fp) | set(now) if fp.get(k) != now.get(k))
            out.violations.append(Finding("oracle:argument_mutated", case, observed=keys,
                                          detail=f"{route} to_string changed the molecule it was given (fields {keys}); a later text made from the same object no longer states the molecule"))
    judge(ctx, out, case, spec_key(spec), v, o, res, model_line, route)
    return edited


def judge(ctx, out: Outcome, case, skey, v, o, res, model_line, route):
    """Property oracle + model correspondence for one answer `res` of the implementation."""
    d = o["dtype"].lower()
    out.evaluations += 1
    tgt = target_unit(o)
    out.count(f"dtype:{d}")
    out.count(f"route:{route}")
    out.count(f"units:{v['stored']}->{tgt}" + (":pinned" if v["iutau"] is not None else ""))
    tags = classify(v, o)
    for t in tags:
        out.count("tag:" + t)
    if res[0] == "err":
        out.count(f"outcome:err:{res[1]}")
        ci = "err " + res[1]
    else:
        out.count("outcome:ok")
        ci = "ok"
    if tags or res[0] == "err":
        out.nontrivial((skey, d, str(o["units"]), o["width"], o["prec"], str(o["atom_format"]), str(o["ghost_format"]), route))
    if d in ("terachem", "turbomole", "nglview-sdf") and res[0] == "ok":
        out.count("chgmult:no_slot:" + d)
    if len(out.samples) < 6 and tags and res[0] == "ok" and len(v["elem"]) <= 4 and ctx.rng.random() < 0.05:
        out.sample({"dtype": d, "units": o["units"], "stored": v["stored"], "width": o["width"], "prec": o["prec"], "text": res[1],
                    "keywords": canon_kw(res[2]["keywords"]) if res[2] is not None else None})
    # --- property oracle on the implementation
    stats = {}
    findings = oracle(v, o, res, stats)
    for k, n in stats.items():
        out.count(k, n)
    for clause, msg in findings:
        out.violations.append(Finding("oracle:" + clause, case, observed=(res[1] if res[0] == "ok" else ci), detail=msg))
    # --- correspondence
    if model_line is None:
        return
    pm = parse_model(model_line)
    if pm[0] == "err":
        ml = pm[1]
        if ml == "err Unsupported":
            out.count("model:unsupported_format_feature")  # outside the model (ASSUMPTIONS); nothing to compare
        elif ml.startswith("err "):
            if ci != ml:
                out.mismatches.append(Finding("mismatch", case, observed=ci, expected=ml, detail="error outcome: implementation vs Lean model"))
        else:
            # bad-product / bad-fixed / bad-op: a checked third-party parameter failed its check
            out.mismatches.append(Finding("param:" + ml.split()[0], case, observed=ci, expected=ml,
                                          detail="driver rejected a parameter (float print / product / parse)"))
        return
    if res[0] == "err":
        out.mismatches.append(Finding("mismatch", case, observed=ci, expected="ok", detail="implementation raised, model renders"))
        return
    _, mtext, mfields, mkw = pm
    if mtext != res[1]:
        out.mismatches.append(Finding("mismatch", case, observed=res[1], expected=mtext, detail="text: " + diff_text(res[1], mtext)))
    elif res[2] is None:
        pass  # text-only answer (return_data=False / to_file): nothing else to compare
    elif list(res[2].get("fields", [])) != mfields:
        out.mismatches.append(Finding("mismatch", case, observed=list(res[2].get("fields", [])), expected=mfields, detail="fields"))
    elif canon_kw(res[2].get("keywords", {})) != mkw:
        out.mismatches.append(Finding("mismatch", case, observed=str(canon_kw(res[2].get("keywords", {}))), expected=str(mkw), detail="keywords"))


def spec_key(spec):
    import hashlib
    import json

    return hashlib.sha1(json.dumps(spec, sort_keys=True).encode()).hexdigest()[:12]


def molecule_route(spec, rec):
    """Molecule object + the molrec Molecule.to_string derives from it."""
    import qcelemental as qcel
    from qcelemental.molparse.from_schema import from_schema

    with quiet():
        mol = qcel.models.Molecule(**qcel.molparse.to_schema(rec, dtype=2))
        rec2 = from_schema(mol.dict(), nonphysical=True)
    return mol, rec2


# --------------------------------------------------------------------------------------
# call sequences: sibling molecules written one after another in one process
#
# The property is about every text, whatever was written before it.  A family is a base molecule plus variants that
# differ from it in ONE aspect (labels, name, frame flags, ghost flag, isotope, charge/multiplicity, fragmentation,
# stored unit, pinned factor, a coordinate by 1e-9..1e-2, atom order, swapped positions, bonds) or in nothing at all
# (an equal molecule built separately); Molecule variants are also made by Molecule.copy(update=...).  A sequence writes
# the members of a family in varied order through both entry points (and Molecule.to_file, return_data=False), reusing
# the molrec / Molecule objects between calls, dropping and rebuilding them, and scribbling on the returned data.
# Every answer is judged by the same per-call oracle against a view of the molecule taken before the first call,
# and must equal the answer a process that has written nothing else gives to the same single call (`Zygote`).


def freeze(x):
    """hashable, exact fingerprint of a molrec / Molecule.dict() value"""
    if isinstance(x, np.ndarray):
        return ("nd", str(x.dtype), x.shape, repr(x.tolist()) if x.dtype == object else x.tobytes())
    if isinstance(x, dict):
        return ("d", tuple(sorted(((str(k), freeze(v)) for k, v in x.items()), key=lambda kv: kv[0])))
    if isinstance(x, (list, tuple)):
        return (type(x).__name__, tuple(freeze(y) for y in x))
    if isinstance(x, (float, np.floating)):
        return ("f", float(x).hex())
    if isinstance(x, np.generic):
        return ("g", str(x.dtype), repr(x.item()))
    return (type(x).__name__, repr(x))


def freeze_dict(d):
    return {str(k): freeze(v) for k, v in d.items()}


def jcopy(x):
    import json

    return json.loads(json.dumps(x))


ASPECTS = ["labels", "labels", "name", "frame", "symmetry", "ghost", "isotope", "chgmult", "frags", "units", "iutau",
           "geom_small", "reorder", "swap_geom", "connectivity", "same"]
COPY_ASPECTS = ["labels", "name", "frame", "symmetry"]  # fields Molecule.copy(update=...) may change without re-validation
SYMS = [None, "c1", "C1", "c2v", "Cs", "d2h", "C2"]


def frag_of(spec, i):
    k = 0
    for s in spec["fragment_separators"]:
        if i >= s:
            k += 1
    return k


def derive(rng, spec, aspect):
    """A from_arrays kwargs dict that differs from `spec` in one aspect (None: not applicable); validity is decided by from_arrays."""
    s = jcopy(spec)
    nat = len(s["elem"])
    nfr = len(s["fragment_charges"])
    if aspect == "same":
        return s
    if aspect == "labels":
        i = rng.randrange(nat)
        new = [rng.choice(LABELS) if rng.random() < 0.5 else l for l in s["elbl"]]
        new[i] = rng.choice([l for l in LABELS if l != s["elbl"][i]])
        s["elbl"] = new
    elif aspect == "name":
        nm = rng.choice([n for n in NAMES[2:] + ["second", "B"] if n != s.get("name")])
        if nm is None:
            s.pop("name", None)
        else:
            s["name"] = nm
    elif aspect == "frame":
        cur = (bool(s.get("fix_com", False)), bool(s.get("fix_orientation", False)))
        s["fix_com"], s["fix_orientation"] = rng.choice([c for c in [(False, False), (False, True), (True, False), (True, True)] if c != cur])
    elif aspect == "symmetry":
        sym = rng.choice([x for x in SYMS if x != s.get("fix_symmetry")])
        if sym is None:
            s.pop("fix_symmetry", None)
        else:
            s["fix_symmetry"] = sym
    elif aspect == "ghost":
        i = rng.randrange(nat)
        s["real"][i] = not s["real"][i]
        k = frag_of(s, i)
        s["fragment_charges"][k] = None
        s["fragment_multiplicities"][k] = None
    elif aspect == "isotope":
        cands = [i for i in range(nat) if s["elem"][i].capitalize() in ISOTOPES]
        if not cands:
            return None
        i = rng.choice(cands)
        elea = s.get("elea") or [None] * nat
        opts = [a for a in ISOTOPES[s["elem"][i].capitalize()] + [None] if a != elea[i]]
        elea[i] = rng.choice(opts)
        s["elea"] = elea
        if "mass" in s:
            s["mass"][i] = None
    elif aspect == "chgmult":
        k = rng.randrange(nfr)
        s["fragment_charges"][k] = rng.choice([c for c in [-2, -1, 0, 1, 2] if c != s["fragment_charges"][k]])
        s["fragment_multiplicities"][k] = None
    elif aspect == "frags":
        if nat < 2:
            return None
        n2 = rng.choice([n for n in range(1, min(nat, 4) + 1)])
        cuts = sorted(rng.sample(range(1, nat), n2 - 1))
        if cuts == s["fragment_separators"]:
            return None
        s["fragment_separators"] = cuts
        s["fragment_charges"] = [None] * n2
        s["fragment_multiplicities"] = [None] * n2
    elif aspect == "units":
        s["units"] = "Angstrom" if s["units"] == "Bohr" else "Bohr"
        s.pop("input_units_to_au", None)
    elif aspect == "iutau":
        if s["units"] == "Bohr":
            if "input_units_to_au" in s:
                s.pop("input_units_to_au")
            else:
                s["input_units_to_au"] = 1.0
        else:
            s["input_units_to_au"] = rng.choice([x for x in PINNED_A + [None] if x != s.get("input_units_to_au")])
            if s["input_units_to_au"] is None:
                s.pop("input_units_to_au")
    elif aspect == "geom_small":
        i = rng.randrange(3 * nat)
        s["geom"][i] = s["geom"][i] + rng.choice([1, -1]) * rng.choice([1e-9, 1e-8, 1e-7, 1e-6, 3e-5, 1e-2])
    elif aspect == "reorder":
        seps = [0] + s["fragment_separators"] + [nat]
        blocks = [(a, b) for a, b in zip(seps, seps[1:]) if b - a >= 2]
        if not blocks:
            return None
        a, b = rng.choice(blocks)
        i, j = rng.sample(range(a, b), 2)
        for key in ("elem", "real", "elbl", "elea", "mass"):
            if key in s:
                s[key][i], s[key][j] = s[key][j], s[key][i]
        for c in range(3):
            s["geom"][3 * i + c], s["geom"][3 * j + c] = s["geom"][3 * j + c], s["geom"][3 * i + c]
        if all(s[key][i] == s[key][j] for key in ("elem", "real", "elbl") if key in s) and s.get("elea", [0] * nat)[i] == s.get("elea", [0] * nat)[j]:
            return None  # indistinguishable atoms: the same molecule
    elif aspect == "swap_geom":
        if nat < 2:
            return None
        i, j = rng.sample(range(nat), 2)
        for c in range(3):
            s["geom"][3 * i + c], s["geom"][3 * j + c] = s["geom"][3 * j + c], s["geom"][3 * i + c]
    elif aspect == "connectivity":
        if nat < 2:
            return None
        if "connectivity" in s and rng.random() < 0.5:
            s.pop("connectivity")
        else:
            a, b = sorted(rng.sample(range(nat), 2))
            s["connectivity"] = [[a, b, rng.choice([1.0, 2.0, 3.0])]]
    return s


def copy_update(rng, spec, aspect):
    """JSON-able description of a Molecule.copy(update=...) changing one un-validated field"""
    nat = len(spec["elem"])
    if aspect == "labels":
        # validation lower-cases labels; a copy is not re-validated, so only labels validation leaves alone stay inside the quantifier
        new = [rng.choice(LABELS).lower() for _ in range(nat)]
        i = rng.randrange(nat)
        new[i] = rng.choice([l.lower() for l in LABELS if l.lower() != spec["elbl"][i].lower()])
        return {"atom_labels": new}
    if aspect == "name":
        return {"name": rng.choice([n for n in NAMES[3:] + ["second"] if n != spec.get("name")])}
    if aspect == "frame":
        cur = (bool(spec.get("fix_com", False)), bool(spec.get("fix_orientation", False)))
        fc, fo = rng.choice([c for c in [(False, False), (False, True), (True, False), (True, True)] if c != cur])
        return {"fix_com": fc, "fix_orientation": fo}
    return {"fix_symmetry": rng.choice([x for x in SYMS if x != spec.get("fix_symmetry")])}


class Objects:
    """The molrec / Molecule objects of a family, built on demand from the JSON description and kept between calls."""

    def __init__(self, variants):
        self.variants = variants
        self.recs = {}
        self.mols = {}

    def rec(self, i):
        if i not in self.recs:
            self.recs[i] = build_molrec(self.variants[i]["spec"])
        return self.recs[i]

    def make_mol(self, i):
        import qcelemental as qcel

        v = self.variants[i]
        if "copy_of" in v:
            upd = dict(v["update"])
            if "atom_labels" in upd:
                upd["atom_labels_"] = np.array(upd.pop("atom_labels"))
            return self.mol(v["copy_of"]).copy(update=upd)
        with quiet():
            return qcel.models.Molecule(**qcel.molparse.to_schema(build_molrec(v["spec"]), dtype=2))

    def mol(self, i, fresh=False):
        if fresh:
            # every Molecule object kept so far is dropped before the new one is built: the new object may sit where an
            # equal or a sibling molecule sat (same id()), and nothing may remember the old one
            self.mols.clear()
        if i not in self.mols:
            self.mols[i] = self.make_mol(i)
        return self.mols[i]


def prepare_family(variants):
    """Per variant: the views the oracle compares with and the molrecs the model is given.  Built from separate objects
    that are never handed to to_string.  Sets variant['nomol'] when no Molecule can be built (molparse route only)."""
    from qcelemental.molparse.from_schema import from_schema

    objs = Objects(variants)
    prep = []
    for i, v in enumerate(variants):
        p = {}
        if "spec" in v:
            rec = objs.rec(i)
            p["rec"] = rec
            p["view_rec"] = mol_view(rec)
        if not v.get("nomol"):
            try:
                mol = objs.mol(i)
                with quiet():
                    p["rec2"] = from_schema(mol.dict(), nonphysical=True)
                vw = view_from_molecule(mol)
                if not vw.pop("contiguous"):
                    raise ValueError("non-contiguous fragments")
                p["view_mol"] = vw
            except Exception:
                if "copy_of" in v:
                    raise
                v["nomol"] = True
        prep.append(p)
    return prep


def gen_family(rng):
    """(variants, calls) or None"""
    base = gen_spec(rng)
    variants = [{"spec": base, "aspect": "base"}]
    try:
        rec = build_molrec(base)
    except Exception:
        return None
    if not (-3 <= rec["molecular_charge"] <= 3 and 1 <= rec["molecular_multiplicity"] <= 6):
        return None
    for _ in range(rng.choice([1, 2, 2, 3, 4])):
        parents = [i for i, v in enumerate(variants) if "spec" in v]
        pi = rng.choice(parents)
        asp = rng.choice(ASPECTS)
        if asp in COPY_ASPECTS and rng.random() < 0.3:
            variants.append({"copy_of": pi, "update": copy_update(rng, variants[pi]["spec"], asp), "aspect": "copy:" + asp})
            continue
        s = derive(rng, variants[pi]["spec"], asp)
        if s is not None and rng.random() < 0.2:
            asp2 = rng.choice(ASPECTS)
            s2 = derive(rng, s, asp2)
            if s2 is not None:
                s, asp = s2, asp + "+" + asp2
        if s is None:
            continue
        try:
            rec = build_molrec(s)
        except Exception:
            continue
        if not (-3 <= rec["molecular_charge"] <= 3 and 1 <= rec["molecular_multiplicity"] <= 6):
            continue
        if any(not (-3 <= c <= 3) or c != int(c) for c in rec["fragment_charges"]) or any(not (1 <= m <= 6) for m in rec["fragment_multiplicities"]):
            continue
        variants.append({"spec": s, "aspect": asp})
    if len(variants) < 2:
        return None
    try:
        prep = prepare_family(variants)
    except Exception:
        return None
    nv = len(variants)
    mode = rng.choice(["molparse", "molparse", "Molecule", "Molecule", "Molecule", "mixed"])
    calls = []
    for d in rng.sample(DTYPES, 4):
        for rnd in range(1 + (rng.random() < 0.6)):
            o = gen_opts(rng, d, 0 if (rnd == 0 and rng.random() < 0.4) else 1)
            order = list(range(nv))
            rng.shuffle(order)
            if rng.random() < 0.3:
                order.append(order[0])
            for vi in order:
                route = mode if mode != "mixed" else rng.choice(["molparse", "Molecule"])
                if "copy_of" in variants[vi]:
                    route = "Molecule"
                elif variants[vi].get("nomol"):
                    route = "molparse"
                c = {"v": vi, "route": route, "opts": o, "rd": True, "fresh": False, "post": None}
                x = rng.random()
                if x < 0.08:
                    c["rd"] = False
                elif x < 0.22:
                    c["post"] = "scribble"
                if route == "Molecule":
                    if rng.random() < 0.15:
                        c["fresh"] = True
                    if d in ("xyz", "xyz+", "psi4") and rng.random() < 0.3:
                        c.update(route="to_file", opts=gen_opts(rng, d, 0), rd=False, post=None)
                calls.append(c)
    return variants, calls, prep


def exec_sequence(variants, calls):
    """Make the calls, in order, in THIS process.  Returns per call {"res", "mutated"}."""
    import copy
    import shutil
    import tempfile

    from qcelemental.molparse import to_string

    objs = Objects(variants)
    tmp = None
    results = []
    for n, c in enumerate(calls):
        o = c["opts"]
        kw = dict(units=o["units"], atom_format=o["atom_format"], ghost_format=o["ghost_format"], width=o["width"], prec=o["prec"])
        mutated = None
        try:
            if c["route"] == "molparse":
                target = objs.rec(c["v"])
                before = freeze_dict(target)
            else:
                target = objs.mol(c["v"], c.get("fresh", False))
                before = freeze_dict(target.dict())
        except Exception as e:  # noqa
            results.append({"res": ("build-failed", type(e).__name__, str(e)[:200]), "mutated": None})
            continue
        try:
            with quiet():
                if c["route"] == "molparse":
                    r = to_string(target, o["dtype"], return_data=c["rd"], **kw)
                elif c["route"] == "Molecule":
                    r = target.to_string(o["dtype"], return_data=c["rd"], **kw)
                else:
                    if tmp is None:
                        tmp = tempfile.mkdtemp(prefix="c08seq")
                    path = f"{tmp}/m{n}.txt"
                    target.to_file(path, o["dtype"])
                    with open(path, newline="") as fh:
                        r = fh.read()
            if c["rd"] and c["route"] != "to_file":
                res = ("ok", r[0], copy.deepcopy(r[1]))  # a snapshot: whatever happens to the returned object later is not this answer
                if c.get("post") == "scribble":  # the caller edits what it was handed; later answers must not notice
                    data = r[1]
                    for k in list(data.get("keywords", {})):
                        data["keywords"][k] = "scribbled"
                    data.setdefault("keywords", {}).update({"charge": 99, "multiplicity": 99, "units": "scribbled", "contrl__icharg": 99, "dft__mult": 99})
                    if isinstance(data.get("fields"), list):
                        data["fields"].append("scribbled")
            else:
                res = ("ok", r, None)
        except Exception as e:  # noqa
            res = ("err", type(e).__name__, str(e)[:200])
        after = freeze_dict(target if c["route"] == "molparse" else target.dict())
        if after != before:
            mutated = sorted(k for k in set(before) | set(after) if before.get(k) != after.get(k))
        results.append({"res": res, "mutated": mutated})
    if tmp is not None:
        shutil.rmtree(tmp, ignore_errors=True)
    return results


class Zygote:
    """A process forked from the harness before it has written any molecule.  Each job (variants, calls) is executed by a
    fresh fork of it, i.e. by a process in which no other molecule has ever been built or written."""

    PAR = 8

    def __init__(self):
        import pickle

        self.pickle = pickle
        r1, w1 = os.pipe()
        r2, w2 = os.pipe()
        pid = os.fork()
        if pid == 0:
            try:
                os.close(w1)
                os.close(r2)
                self._serve(r1, w2)
            finally:
                os._exit(0)
        os.close(r1)
        os.close(w2)
        self.w = os.fdopen(w1, "wb")
        self.r = os.fdopen(r2, "rb")
        self.pid = pid

    def run_many(self, jobs):
        if not jobs:
            return []
        self.pickle.dump(jobs, self.w)
        self.w.flush()
        return self.pickle.load(self.r)

    def close(self):
        try:
            self.w.close()
            self.r.close()
            os.waitpid(self.pid, 0)
        except Exception:
            pass

    def _serve(self, rfd, wfd):
        import select

        import qcelemental  # noqa: F401  (imported once; the forks share it)

        consts()  # loads the lazily imported unit registry (pint, ~0.4 s) once instead of in every fork; no molecule is involved

        pickle = self.pickle
        rf = os.fdopen(rfd, "rb")
        wf = os.fdopen(wfd, "wb")
        while True:
            try:
                jobs = pickle.load(rf)
            except EOFError:
                return
            results = [None] * len(jobs)
            pending = {}
            nxt = 0
            while nxt < len(jobs) or pending:
                while nxt < len(jobs) and len(pending) < self.PAR:
                    cr, cw = os.pipe()
                    pid = os.fork()
                    if pid == 0:
                        try:
                            os.close(cr)
                            try:
                                payload = pickle.dumps(exec_sequence(*jobs[nxt]))
                            except BaseException as e:  # noqa
                                payload = pickle.dumps([{"res": ("crash", type(e).__name__, str(e)[:200]), "mutated": None}] * len(jobs[nxt][1]))
                            with os.fdopen(cw, "wb") as fh:
                                fh.write(payload)
                        finally:
                            os._exit(0)
                    os.close(cw)
                    pending[cr] = (nxt, pid, [])
                    nxt += 1
                ready, _, _ = select.select(list(pending), [], [])
                for fd in ready:
                    chunk = os.read(fd, 1 << 16)
                    if chunk:
                        pending[fd][2].append(chunk)
                    else:
                        idx, pid, buf = pending.pop(fd)
                        os.close(fd)
                        os.waitpid(pid, 0)
                        results[idx] = pickle.loads(b"".join(buf))
            pickle.dump(results, wf)
            wf.flush()


def same_answer(a, b):
    if a[0] != b[0]:
        return False
    if a[0] != "ok":
        return a[1:] == b[1:]
    if a[1] != b[1] or (a[2] is None) != (b[2] is None):
        return False
    if a[2] is None:
        return True
    return list(a[2].get("fields", [])) == list(b[2].get("fields", [])) and canon_kw(a[2].get("keywords", {})) == canon_kw(b[2].get("keywords", {}))


def call_view(prep, c):
    p = prep[c["v"]]
    return (p["view_rec"], p["rec"]) if c["route"] == "molparse" else (p["view_mol"], p["rec2"])


def call_key(c):
    import json

    return json.dumps([c["v"], c["route"], c["opts"], c["rd"]], sort_keys=True)


def call_findings(ctx, variants, calls, n, prep, r, ref):
    """Findings (kind, detail, observed) of call n of a sequence given its answer r and the isolated answer ref (or None)."""
    c = calls[n]
    v, _ = call_view(prep, c)
    fs = []
    res = r["res"]
    if res[0] in ("build-failed", "crash"):
        return [("harness", f"{res[0]}: {res[1]} {res[2]}", None)]
    for clause, msg in oracle(v, c["opts"], res, {}):
        fs.append(("oracle:" + clause, msg, res[1] if res[0] == "ok" else "err " + res[1]))
    if r["mutated"]:
        fs.append(("oracle:argument_mutated", f"{c['route']} to_string changed the molecule it was given (fields {r['mutated']})", r["mutated"]))
    if ref is not None and ref["res"][0] not in ("build-failed", "crash") and not same_answer(res, ref["res"]):
        what = diff_text(res[1], ref["res"][1]).replace("implementation", "in sequence").replace("model", "alone") if res[0] == ref["res"][0] == "ok" and res[1] != ref["res"][1] \
            else ("keywords/fields differ" if res[0] == ref["res"][0] == "ok" else f"{res[0]} {res[1]} in sequence / {ref['res'][0]} alone")
        fs.append(("oracle:call_history", f"call {n} ({c['route']}, variant {c['v']} [{variants[c['v']].get('aspect')}], {c['opts']['dtype']}): the answer after {n} earlier call(s) differs from "
                   f"the answer of a process that wrote only this molecule: {what}", res[1] if res[0] == "ok" else "err " + res[1]))
    return fs


def merge_calls(items):
    """[(variants, call)] of possibly several families -> one (variants, calls) sequence; also the new index of each item's molecule"""
    variants, calls, base = [], [], {}
    for vs, c in items:
        if id(vs) not in base:
            base[id(vs)] = len(variants)
            for v in vs:
                v2 = dict(v)
                if "copy_of" in v2:
                    v2["copy_of"] += base[id(vs)]
                variants.append(v2)
        calls.append(dict(c, v=c["v"] + base[id(vs)]))
    return variants, calls


def localise(ctx, zy, log, pos, kind, pentry, ref):
    """log[pos] = (variants, call) showed a finding of `kind` in this process.  Find a short list of calls, ending with that
    call, that shows it again when a FRESH process makes them (so that the recorded case replays): the call alone; else
    earlier calls on the same family; else the last 1, 2, 4 ... calls of the whole process.  Returns (variants, calls, note)."""
    from common import shrink_list

    target = log[pos]

    def fails(hist):
        variants, calls = merge_calls(hist + [target])
        rs = zy.run_many([(variants, calls)])[0]
        n = len(calls) - 1
        return any(k == kind for k, _, _ in call_findings(ctx, variants, calls, n, {calls[n]["v"]: pentry}, rs[-1], ref))

    def done(hist, note):
        variants, calls = merge_calls(hist + [target])
        return variants, calls, note

    if fails([]):
        return done([], "fails on its own")
    family = [it for it in log[:pos] if it[0] is target[0]]
    if family and fails(family):
        for it in reversed(family):  # a single earlier call is the usual culprit
            if fails([it]):
                return done([it], "depends on 1 earlier call on a sibling molecule")
        hist = shrink_list(family, fails, max_steps=30)
        return done(hist, f"depends on {len(hist)} earlier call(s) on sibling molecules")
    k = 1
    while k <= min(pos, 512):
        hist = log[pos - k: pos]
        if fails(hist):
            if k > 1:
                hist = shrink_list(hist, fails, max_steps=30)
            return done(hist, f"depends on {len(hist)} earlier call(s) on other molecules")
        if k == pos:
            break
        k = min(2 * k, pos)
    # state keyed by something the allocator decides (id() of a dropped object ...): repeating the family's calls gives the
    # freed objects of one round the chance to be met again in the next
    rep = (family + [target]) * 3 + family
    if fails(rep):
        hist = shrink_list(rep, fails, max_steps=30)
        return done(hist, f"allocation-dependent: shown again by a fresh process that repeats the family's calls ({len(hist)} earlier calls)")
    return done(family, "NOT reproduced by a fresh process from the last 512 calls; the calls on this family are recorded")


def run_sequences(ctx, out: Outcome, zy, fams, model_lines, log, shrink_budget=2, also_isolated=False):
    """fams: [(variants, calls, prep)]; model_lines: one per call, family after family (or Nones); log: every call this
    process has made so far, in order (appended to)."""
    jobs, where = [], []
    for fi, (variants, calls, prep) in enumerate(fams):
        seen = {}
        for n, c in enumerate(calls):
            k = call_key(c)
            if k not in seen:
                seen[k] = len(jobs)
                jobs.append((variants, [dict(c, fresh=False, post=None)]))
            where.append(seen[k])
        if also_isolated:
            jobs.append((variants, calls))
    refs = zy.run_many(jobs)
    pos = 0
    found = []  # (family index, call index, findings, ref, position in log)
    for fi, (variants, calls, prep) in enumerate(fams):
        results = exec_sequence(variants, calls)
        runs = [("", results)]
        if also_isolated:  # a replay: the recorded calls were found failing in a fresh process; look there as well as here,
            # and make the calls a few more times (objects dropped in between) for state that depends on where objects land
            runs.append(("fresh process: ", refs[max(where[pos: pos + len(calls)]) + 1]))
            for k in range(2, 6):
                runs.append((f"round {k}: ", exec_sequence(variants, calls)))
        out.count("sequence:families")
        out.count("sequence:members", len(variants))
        for v in variants[1:]:
            out.count("sequence:aspect:" + str(v.get("aspect", "?")))
        for n, c in enumerate(calls):
            r = results[n]
            ref = refs[where[pos]][0]
            ml = model_lines[pos]
            pos += 1
            log.append((variants, c))
            v, _ = call_view(prep, c)
            out.count("sequence:calls")
            if c.get("post"):
                out.count("sequence:returned_data_scribbled")
            if c.get("fresh"):
                out.count("sequence:object_rebuilt")
            if not c["rd"]:
                out.count("sequence:text_only")
            if ref["res"][0] in ("build-failed", "crash") or r["res"][0] in ("build-failed", "crash"):
                out.count("sequence:harness_trouble:" + str(r["res"][:2]) + str(ref["res"][:2]))
                continue
            fs, seen_kinds = [], set()
            for tag, rs in runs:
                for kind, msg, obs in call_findings(ctx, variants, calls, n, prep, rs[n], ref):
                    if kind not in seen_kinds:
                        seen_kinds.add(kind)
                        fs.append((kind, tag + msg, obs))
            if fs:
                found.append((fi, n, fs, ref, len(log) - 1))
            # correspondence with the (history-free) model; the oracle clauses were evaluated above
            sub = Outcome()
            judge(ctx, sub, {"stream": "sequence", "variants": variants, "calls": calls[: n + 1]},
                  spec_key(variants[c["v"]].get("spec", variants[c["v"]])), v, c["opts"], r["res"], ml, "seq:" + c["route"])
            out.evaluations += sub.evaluations
            out.distinct |= sub.distinct
            for k, cnt in sub.distribution.items():
                out.count(k, cnt)
            out.mismatches += sub.mismatches
            for s_ in sub.samples:
                out.sample(s_)
    # findings that name the wrong datum (atoms, coords, chgmult ...) before the bare "differs from a fresh process" ones
    found.sort(key=lambda t: 0 if any(k != "oracle:call_history" for k, _, _ in t[2]) else 1)
    ok_first, rest = [], []
    retry = 4  # findings whose recorded calls do not fail again in a fresh process (allocation-dependent state): try the next ones
    for fi, n, fs, ref, lp in found:
        variants, calls, prep = fams[fi]
        c = calls[n]
        fs.sort(key=lambda f: f[0] == "oracle:call_history")
        case = {"stream": "sequence", "variants": variants, "calls": calls[: n + 1]}
        note = ""
        reproduced = False
        if shrink_budget > 0:
            try:
                vs, cs, note = localise(ctx, zy, log, lp, fs[0][0], prep[c["v"]], ref)
                case = {"stream": "sequence", "variants": vs, "calls": cs}
                reproduced = not note.startswith("NOT")
                note = "; " + note
            except Exception as e:  # noqa
                out.count("sequence:localise_failed:" + type(e).__name__)
            if reproduced:
                shrink_budget -= 1
            else:
                retry -= 1
                if retry <= 0:
                    shrink_budget = 0
        for kind, msg, obs in fs:
            (ok_first if reproduced else rest).append(Finding(kind, case, observed=obs, detail=f"[sequence, call {n}: {c['route']} variant {c['v']} ({variants[c['v']].get('aspect')}) {c['opts']['dtype']}{note}] " + msg))
    out.violations += ok_first + rest


def run_model_parallel(ctx: Ctx, lines, nproc=4):
    """ctx.run_model semantics (one answer line per input line), the stream cut into `nproc` contiguous chunks that
    are piped through separate driver processes (the interpreted driver is the slow side of the check)."""
    import subprocess
    from concurrent.futures import ThreadPoolExecutor

    from common import LEAN, ModelCrash

    if len(lines) < 400:
        return ctx.run_model(DRIVER, lines)
    exe = LEAN / ".lake" / "build" / "bin" / "drv_c08"
    cmd = [str(exe)] if exe.exists() else ["lake", "env", "lean", "--run", DRIVER]
    size = (len(lines) + nproc - 1) // nproc
    chunks = [lines[i:i + size] for i in range(0, len(lines), size)]

    def one(arg):
        i, chunk = arg
        inp = ctx.work / f"C08.{i}.in"
        inp.write_text("\n".join(chunk) + "\n")
        with open(inp) as fh:
            p = subprocess.run(cmd, cwd=LEAN, stdin=fh, capture_output=True, text=True, timeout=3000)
        if p.returncode != 0:
            raise ModelCrash(f"driver {DRIVER} exited {p.returncode}: {p.stderr[-2000:]}")
        res = p.stdout.split("\n")
        if res and res[-1] == "":
            res.pop()
        if len(res) != len(chunk):
            raise ModelCrash(f"driver {DRIVER}: {len(chunk)} lines in, {len(res)} lines out; stderr={p.stderr[-1000:]}")
        return res

    with ThreadPoolExecutor(max_workers=nproc) as ex:
        parts = list(ex.map(one, enumerate(chunks)))
    return [x for part in parts for x in part]


def run(ctx: Ctx) -> Outcome:
    out = Outcome()
    zy = Zygote()  # forked before this process has built or written any molecule
    try:
        return _run(ctx, out, zy)
    finally:
        zy.close()


def _run(ctx: Ctx, out: Outcome, zy) -> Outcome:
    check_conversion_constants(out)
    rng = ctx.rng
    nmol = ctx.scale(700, 4000)
    mols = gen_molecules(ctx, nmol)
    cases = []
    holders = []  # per argument object: [object handed to to_string, view and fingerprint taken before the first call]
    for idx, (spec, rec) in enumerate(mols):
        h = {"rec": rec, "mol": None, "view": mol_view(rec), "fp": freeze_dict(rec), "spec": spec, "enc": rec}
        holders.append(h)
        for d in DTYPES:
            nk = 3 if d in ("xyz", "xyz+", "nwchem") else 2
            for k in range(nk):
                if k == 0 and idx % 3:
                    continue
                cases.append((h, gen_opts(rng, d, k), "molparse"))
        if idx % 4 == 0:
            try:
                mol, rec2 = molecule_route(spec, rec)
            except Exception as e:  # noqa
                out.count("molecule_route_unavailable:" + type(e).__name__)
                continue
            view = view_from_molecule(mol)
            if not view.pop("contiguous"):
                continue
            hm = {"rec": rec2, "mol": mol, "view": view, "fp": freeze_dict(mol.dict()), "spec": spec, "enc": rec2}
            holders.append(hm)
            for d in rng.sample(DTYPES, 5):
                cases.append((hm, gen_opts(rng, d, rng.choice([0, 1])), "Molecule"))
    # call sequences over families of sibling molecules (generated after the main stream: its cases are unchanged)
    fams = []
    nfam = ctx.scale(160, 900)
    tries = 0
    while len(fams) < nfam and tries < 4 * nfam:
        tries += 1
        f = gen_family(rng)
        if f is not None:
            fams.append(f)
    seq_lines = [enc_case(call_view(prep, c)[1], c["opts"]) for (_, calls, prep) in fams for c in calls]
    nseq = len(seq_lines)
    model = [None] * (nseq + len(cases))
    if ctx.model_available:
        # the model lines are computed from the objects as they are BEFORE any call
        model = run_model_parallel(ctx, seq_lines + [enc_case(h["enc"], o) for (h, o, _) in cases])
    log = []  # every call this process makes, in order: (variants, call)
    run_sequences(ctx, out, zy, fams, model[:nseq], log)
    first_main = None  # the main stream is itself one long call sequence
    for (h, o, route), ml in zip(cases, model[nseq:]):
        nv = len(out.violations)
        edited = check_case(ctx, out, h["spec"], h["rec"], o, ml, route, h["mol"], h["view"], h["fp"])
        if "variants" not in h:
            h["variants"] = [{"spec": h["spec"], "aspect": "main-stream"}]
        log.append((h["variants"], {"v": 0, "route": route, "opts": o, "rd": True, "fresh": False, "post": None}))
        if len(out.violations) > nv and first_main is None:
            first_main = (nv, len(log) - 1, h)
        if edited:  # later cases get a fresh object (one finding per edit, not one per later call)
            fresh = build_molrec(h["spec"])
            if route == "Molecule":
                h["mol"], h["rec"] = molecule_route(h["spec"], fresh)
                h["fp"] = freeze_dict(h["mol"].dict())
            else:
                h["rec"] = fresh
                h["fp"] = freeze_dict(fresh)
    if first_main is not None and first_main[0] == 0:
        # the run's first violation (the one that is recorded) came from the main stream: make sure the recorded case
        # fails in a fresh process, i.e. record the earlier calls it depends on, if any
        vpos, lp, h = first_main
        v0 = out.violations[vpos]
        try:
            pentry = {"view_rec": h["view"], "rec": h["enc"], "view_mol": h["view"], "rec2": h["enc"]}
            vs, cs, note = localise(ctx, zy, log, lp, v0.kind, pentry, None)
            if len(cs) > 1 or not note.startswith("fails on its own"):
                v0.case = {"stream": "sequence", "variants": vs, "calls": cs}
                v0.detail = f"[main stream; {note}] " + v0.detail
                out.count("main_stream:first_violation_is_history_dependent")
        except Exception as e:  # noqa
            out.count("main_stream:localise_failed:" + type(e).__name__)
    out.exhaustive = False
    out.count("molecules", len(mols))
    out.notes.append("every generated molecule is rendered in all 14 dtypes; unit request / width / precision / overrides are sampled from VERIF_SEED")
    out.notes.append("formats without a charge/multiplicity slot (terachem, turbomole, nglview-sdf; madness: spin_restricted flag only; nwchem/madness omit singlet) are outside the chgmult clause")
    out.notes.append("mrchem writes no unit at all; cfour/molpro/gamess/madness write the word None for nm/pm (outside the quantifier: formats that do not spell them)")
    out.notes.append("call sequences: families of sibling molecules written in varied order in one process through molparse.to_string, Molecule.to_string, Molecule.to_file, "
                     "objects reused / rebuilt, returned data scribbled on; each answer judged by the per-call oracle, checked for argument edits and compared with a fresh process's answer")
    return out


def replay(ctx: Ctx, case) -> Outcome:
    out = Outcome()
    if case.get("stream") == "sequence":
        zy = Zygote()
        try:
            variants, calls = case["variants"], case["calls"]
            prep = prepare_family(variants)
            lines = [None] * len(calls)
            if ctx.model_available:
                lines = ctx.run_model(DRIVER, [enc_case(call_view(prep, c)[1], c["opts"]) for c in calls])
            run_sequences(ctx, out, zy, [(variants, calls, prep)], lines, [], shrink_budget=0, also_isolated=True)
        finally:
            zy.close()
        return out
    spec, o, route = case["spec"], case["opts"], case.get("route", "molparse")
    rec = build_molrec(spec)
    mol = view = None
    if route == "Molecule":
        mol, rec = molecule_route(spec, rec)
        view = view_from_molecule(mol)
        view.pop("contiguous")
    fp = freeze_dict(mol.dict() if mol is not None else rec)
    view = view if view is not None else mol_view(rec)
    ml = ctx.run_model(DRIVER, [enc_case(rec, o)])[0] if ctx.model_available else None
    check_case(ctx, out, spec, rec, o, ml, route, mol, view, fp)
    return out
