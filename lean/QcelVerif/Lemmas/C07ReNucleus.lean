import QcelVerif.Lemmas.C07ReAtomShapes
import QcelVerif.Props.C07
/-!
C07 — NUCLEUS inside `atom_cartesian`: the nucleus group of the generated AST (`nucLine`, run by the generic backtracking engine from
the start of a line) takes exactly the prefixes the hand recogniser `isNucleus` accepts, and captures the prefix as group 1.

  * `mem_ms_rep13_n`, `Ext.run13` : bounded greedy class repetition `[class]{1,3}` as splits.
  * `GExt re L` : extent of a pattern WITH inner capture groups: only the cursor and the set-or-not status of group 3 (`gh2`) are tracked.
    Closed under `seq/alt/?/group i (i ≠ 3)` and contains `Ext`.
  * `NLabel/NMass/NBody/LNuc` : the language of NUCLEUS on `Str`, read off the AST.
  * `nucLine_sound/complete` : regex side;  `isNucleus_iff` : hand side;  `nucLine_ext` : the theorem.
Core Lean only.
-/
namespace QcelVerif.MolText
open QcelVerif.Regex QcelVerif.Gen

/-! ## bounded greedy repetition of a one-character class -/

theorem mem_classRuns_some_n (p : Nat → Bool) :
    ∀ (s : List Nat) (lo hi f : Nat), s.length < f → ∀ x : List Nat × List Nat,
      x ∈ classRuns p lo (some hi) f s ↔
        (s = x.1 ++ x.2 ∧ (∀ c ∈ x.1, p c = true) ∧ lo ≤ x.1.length ∧ x.1.length ≤ hi) := by
  intro s
  induction s with
  | nil =>
    intro lo hi f hf x
    obtain ⟨f', rfl⟩ : ∃ f', f = f' + 1 := ⟨f - 1, by omega⟩
    obtain ⟨a, b⟩ := x
    simp only [classRuns, ite_self, List.nil_append]
    by_cases hlo : lo = 0
    · subst hlo
      constructor
      · intro h; simp at h; obtain ⟨rfl, rfl⟩ := h; simp
      · rintro ⟨h1, _, _⟩
        have := List.append_eq_nil_iff.mp h1.symm
        simp [this.1, this.2]
    · simp only [hlo, if_false]
      constructor
      · intro h; simp at h
      · rintro ⟨h1, _, h3, _⟩
        have := List.append_eq_nil_iff.mp h1.symm
        simp [this.1] at h3
        exact absurd h3 hlo
  | cons c t ih =>
    intro lo hi f hf x
    obtain ⟨f', rfl⟩ : ∃ f', f = f' + 1 := ⟨f - 1, by omega⟩
    have hf' : t.length < f' := by simp at hf; omega
    obtain ⟨a, b⟩ := x
    simp only [classRuns, decHi, List.mem_append]
    constructor
    · rintro (h | h)
      · by_cases hh : hi = 0
        · simp [hh] at h
        · have hh' : ¬ (some hi = some 0) := by simpa using hh
          simp only [hh', if_false] at h
          by_cases hp : p c = true
          · simp only [hp, if_true, List.mem_map] at h
            obtain ⟨y, hy, hxy⟩ := h
            have := (ih (lo - 1) (hi - 1) f' hf' y).mp hy
            injection hxy with h1 h2
            subst h1; subst h2
            refine ⟨by simp [this.1], ?_, by simp; omega, by simp; omega⟩
            intro d hd
            simp at hd
            rcases hd with rfl | hd
            · exact hp
            · exact this.2.1 d hd
          · simp [hp] at h
      · by_cases hlo : lo = 0
        · simp [hlo] at h; obtain ⟨rfl, rfl⟩ := h; simp [hlo]
        · simp [hlo] at h
    · rintro ⟨h1, h2, h3, h4⟩
      cases a with
      | nil =>
        right
        simp at h3 h1
        simp [h3, h1]
      | cons d a' =>
        left
        simp at h1
        obtain ⟨rfl, h1⟩ := h1
        have hp : p c = true := h2 c (by simp)
        simp only [List.length_cons] at h3 h4
        have hh' : ¬ (some hi = some 0) := by simp; omega
        simp only [hh', if_false, hp, if_true, List.mem_map]
        exact ⟨(a', b), (ih (lo - 1) (hi - 1) f' hf' (a', b)).mpr ⟨h1, fun e he => h2 e (by simp [he]), by
          show lo - 1 ≤ a'.length
          omega, by show a'.length ≤ hi - 1; omega⟩, rfl⟩

/-- `[class]{1,3}`, greedy: every split of the rest into a run of 1..3 characters inside the class and what follows -/
theorem mem_ms_rep13_n {neg : Bool} {items : List Item} {st x : St} :
    x ∈ (Re.rep 1 (some 3) true (.cls neg items)).ms st ↔
      ∃ a r, a ≠ [] ∧ a.length ≤ 3 ∧ st.rest = a ++ r ∧ (∀ c ∈ a, clsMem neg items c = true) ∧ x = st.adv a r := by
  rw [show (Re.rep 1 (some 3) true (.cls neg items)).ms st
        = repMs (fun st' => Re.ms (.cls neg items) st') 1 (some 3) true (st.rest.length + 1) st from rfl, repMs_cls, List.mem_map]
  constructor
  · rintro ⟨y, hy, rfl⟩
    have := (mem_classRuns_some_n _ _ 1 3 _ (Nat.lt_succ_self _) y).mp hy
    refine ⟨y.1, y.2, ?_, this.2.2.2, this.1, this.2.1, rfl⟩
    intro h; rw [h] at this; simp at this
  · rintro ⟨a, r, h0, h3, h1, h2, rfl⟩
    refine ⟨(a, r), (mem_classRuns_some_n _ _ 1 3 _ (Nat.lt_succ_self _) (a, r)).mpr ⟨h1, h2, ?_, h3⟩, rfl⟩
    cases a with
    | nil => exact absurd rfl h0
    | cons _ _ => simp

/-- a run of one to three characters of a class -/
def LRun13 (p : Char → Bool) (t : Str) : Prop := t ≠ [] ∧ t.length ≤ 3 ∧ ∀ c ∈ t, p c = true

theorem Ext.run13 {neg : Bool} {items : List Item} {p : Char → Bool} (hp : ∀ c : Char, clsMem neg items c.toNat = p c) :
    Ext (.rep 1 (some 3) true (.cls neg items)) (LRun13 p) := by
  intro s st x hs
  rw [mem_ms_rep13_n]
  constructor
  · rintro ⟨a, r, h0, h3, h1, h2, rfl⟩
    rw [hs] at h1
    obtain ⟨t, r', rfl, rfl, rfl⟩ := toBytes_eq_append h1
    exact ⟨t, r', rfl, ⟨by simpa [toBytes_eq_nil] using h0, by simpa using h3, (all_toBytes _ _ hp t).mp h2⟩, rfl⟩
  · rintro ⟨t, r, rfl, ⟨h0, h3, h2⟩, rfl⟩
    exact ⟨toBytes t, toBytes r, by simpa [toBytes_eq_nil] using h0, by simpa using h3, by simp [hs],
      (all_toBytes _ _ hp t).mpr h2, rfl⟩

/-! ## extent of a pattern with inner capture groups (cursor + status of group 3 only) -/

def GExt (re : Re) (L : Str → Prop) : Prop :=
  ∀ (s : Str) (st : St), st.rest = toBytes s →
    (∀ x ∈ re.ms st, ∃ t r, s = t ++ r ∧ L t ∧ x.rest = toBytes r ∧ (x.group 3).isSome = (st.group 3).isSome) ∧
    (∀ t r, s = t ++ r → L t → ∃ x, x ∈ re.ms st ∧ x.rest = toBytes r ∧ (x.group 3).isSome = (st.group 3).isSome)

theorem GExt.ofExt {re : Re} {L : Str → Prop} (h : Ext re L) : GExt re L := by
  intro s st hs
  constructor
  · intro x hx
    obtain ⟨t, r, h1, h2, rfl⟩ := (h s st x hs).mp hx
    exact ⟨t, r, h1, h2, rfl, rfl⟩
  · intro t r h1 h2
    exact ⟨st.adv (toBytes t) (toBytes r), (h s st _ hs).mpr ⟨t, r, h1, h2, rfl⟩, rfl, rfl⟩

theorem GExt.congr {re : Re} {L L' : Str → Prop} (h : GExt re L) (hL : ∀ t, L t ↔ L' t) : GExt re L' := by
  intro s st hs
  constructor
  · intro x hx
    obtain ⟨t, r, h1, h2, h3⟩ := (h s st hs).1 x hx
    exact ⟨t, r, h1, (hL t).mp h2, h3⟩
  · intro t r h1 h2
    exact (h s st hs).2 t r h1 ((hL t).mpr h2)

theorem GExt.seq {a b : Re} {A B : Str → Prop} (ha : GExt a A) (hb : GExt b B) : GExt (.seq a b) (LSeq A B) := by
  intro s st hs
  constructor
  · intro x hx
    obtain ⟨m, hm, hx⟩ := mem_ms_seq.mp hx
    obtain ⟨t, r, rfl, hA, hmr, hmg⟩ := (ha s st hs).1 m hm
    obtain ⟨t', r', rfl, hB, hxr, hxg⟩ := (hb r m hmr).1 x hx
    exact ⟨t ++ t', r', by simp, ⟨t, t', rfl, hA, hB⟩, hxr, hxg.trans hmg⟩
  · rintro _ r rfl ⟨u, v, rfl, hA, hB⟩
    obtain ⟨m, hm, hmr, hmg⟩ := (ha _ st hs).2 u (v ++ r) (by simp) hA
    obtain ⟨x, hx, hxr, hxg⟩ := (hb (v ++ r) m hmr).2 v r rfl hB
    exact ⟨x, mem_ms_seq.mpr ⟨m, hm, hx⟩, hxr, hxg.trans hmg⟩

theorem GExt.alt {a b : Re} {A B : Str → Prop} (ha : GExt a A) (hb : GExt b B) : GExt (.alt a b) (LAlt A B) := by
  intro s st hs
  constructor
  · intro x hx
    rcases mem_ms_alt.mp hx with hx | hx
    · obtain ⟨t, r, h1, h2, h3⟩ := (ha s st hs).1 x hx
      exact ⟨t, r, h1, Or.inl h2, h3⟩
    · obtain ⟨t, r, h1, h2, h3⟩ := (hb s st hs).1 x hx
      exact ⟨t, r, h1, Or.inr h2, h3⟩
  · rintro t r h1 (h2 | h2)
    · obtain ⟨x, hx, h3⟩ := (ha s st hs).2 t r h1 h2
      exact ⟨x, mem_ms_alt.mpr (Or.inl hx), h3⟩
    · obtain ⟨x, hx, h3⟩ := (hb s st hs).2 t r h1 h2
      exact ⟨x, mem_ms_alt.mpr (Or.inr hx), h3⟩

theorem GExt.opt {a : Re} {A : Str → Prop} (ha : GExt a A) : GExt (.rep 0 (some 1) true a) (LOpt A) := by
  intro s st hs
  constructor
  · intro x hx
    rcases mem_ms_opt.mp hx with hx | rfl
    · obtain ⟨t, r, h1, h2, h3⟩ := (ha s st hs).1 x hx
      exact ⟨t, r, h1, Or.inl h2, h3⟩
    · exact ⟨[], s, rfl, Or.inr rfl, hs, rfl⟩
  · rintro t r h1 (h2 | rfl)
    · obtain ⟨x, hx, h3⟩ := (ha s st hs).2 t r h1 h2
      exact ⟨x, mem_ms_opt.mpr (Or.inl hx), h3⟩
    · simp only [List.nil_append] at h1
      subst h1
      exact ⟨st, mem_ms_opt.mpr (Or.inr rfl), hs, rfl⟩

theorem group3_capture (i : Nat) (hi : i ≠ 3) (a b : St) : (St.capture i a b).group 3 = b.group 3 := by
  have : (3 == i) = false := by
    cases h : (3 == i) with
    | false => rfl
    | true => rw [beq_iff_eq] at h; exact absurd h.symm hi
  simp [St.group, St.capture, List.lookup, this]

theorem GExt.group {i : Nat} (hi : i ≠ 3) {a : Re} {A : Str → Prop} (ha : GExt a A) : GExt (.group i a) A := by
  intro s st hs
  constructor
  · intro x hx
    obtain ⟨m, hm, rfl⟩ := mem_ms_group.mp hx
    obtain ⟨t, r, h1, h2, h3, h4⟩ := (ha s st hs).1 m hm
    exact ⟨t, r, h1, h2, h3, by rw [group3_capture i hi]; exact h4⟩
  · intro t r h1 h2
    obtain ⟨m, hm, h3, h4⟩ := (ha s st hs).2 t r h1 h2
    exact ⟨St.capture i st m, mem_ms_group.mpr ⟨m, hm, rfl⟩, h3, by rw [group3_capture i hi]; exact h4⟩

/-! ## the pieces of NUCLEUS -/

def nucGhost : Re :=
  (.rep 0 (some 1) true
    (.alt
      (.group 2
        (.cls false [.ch 64]))
      (.group 3
        (.seq
          (.cls false [.ch 71, .ch 103])
          (.seq
            (.cls false [.ch 104, .ch 72])
            (.cls false [.ch 40]))))))

def nucLabel : Re :=
    (.group 4
      (.alt
        (.group 5
          (.seq
            (.rep 0 (some 1) true
              (.group 6
                (.rep 1 none true
                  (.cls false [.digit]))))
            (.seq
              (.group 7
                (.rep 1 (some 3) true
                  (.cls false [.range 65 90, .range 97 122])))
              (.rep 0 (some 1) true
                (.group 8
                  (.alt
                    (.group 9
                      (.seq
                        (.cls false [.ch 95])
                        (.rep 1 none true
                          (.cls false [.word]))))
                    (.group 10
                      (.rep 1 none true
                        (.cls false [.digit])))))))))
        (.group 11
          (.seq
            (.group 12
              (.rep 1 (some 3) true
                (.cls false [.digit])))
            (.rep 0 (some 1) true
              (.group 13
                (.group 14
                  (.seq
                    (.cls false [.ch 95])
                    (.rep 1 none true
                      (.cls false [.word]))))))))))

def nucMass : Re :=
      (.rep 0 (some 1) true
        (.seq
          (.cls false [.ch 64])
          (.group 15
            (.seq
              (.rep 1 none true
                (.cls false [.digit]))
              (.seq
                (.cls false [.ch 46])
                (.rep 1 none true
                  (.cls false [.digit])))))))

def nucClose : Re := .ifGroup 3 (.cls false [.ch 41]) .eps

theorem nucLine_cut : nucLine = .seq nucGhost (.seq nucLabel (.seq nucMass nucClose)) := rfl

/-! ## the classes of NUCLEUS -/

def isUs (c : Char) : Bool := c == '_'
def isAt (c : Char) : Bool := c == '@'
def isLP (c : Char) : Bool := c == '('
def isRP (c : Char) : Bool := c == ')'
def isGc (c : Char) : Bool := c.toLower == 'g'
def isHc (c : Char) : Bool := c.toLower == 'h'

theorem cls_us (c : Char) : clsMem false [.ch 95] c.toNat = isUs c := by
  rw [cls_ch]; simp only [isUs, beq_lit, Char.reduceToNat]
theorem cls_at (c : Char) : clsMem false [.ch 64] c.toNat = isAt c := by
  rw [cls_ch]; simp only [isAt, beq_lit, Char.reduceToNat]
theorem cls_lp (c : Char) : clsMem false [.ch 40] c.toNat = isLP c := by
  rw [cls_ch]; simp only [isLP, beq_lit, Char.reduceToNat]
theorem cls_rp (c : Char) : clsMem false [.ch 41] c.toNat = isRP c := by
  rw [cls_ch]; simp only [isRP, beq_lit, Char.reduceToNat]

theorem cls_alpha_n (c : Char) : clsMem false [.range 65 90, .range 97 122] c.toNat = c.isAlpha := by
  rw [isAlpha_nat]; simp [clsMem, Item.mem, isAlphaC]

theorem cls_g (c : Char) : clsMem false [.ch 71, .ch 103] c.toNat = isGc c := by
  unfold isGc
  rw [beq_lit, toLower_nat]
  simp only [clsMem, Item.mem, List.any_cons, List.any_nil, Bool.or_false, Char.reduceToNat]
  rw [Bool.eq_iff_iff]
  by_cases h : 65 ≤ c.toNat ∧ c.toNat ≤ 90
  · simp only [h, and_self, if_true, bne_iff_ne, ne_eq, Bool.not_eq_false, Bool.or_eq_true, beq_iff_eq]
    omega
  · simp only [h, if_false, bne_iff_ne, ne_eq, Bool.not_eq_false, Bool.or_eq_true, beq_iff_eq]
    omega

theorem cls_h (c : Char) : clsMem false [.ch 104, .ch 72] c.toNat = isHc c := by
  unfold isHc
  rw [beq_lit, toLower_nat]
  simp only [clsMem, Item.mem, List.any_cons, List.any_nil, Bool.or_false, Char.reduceToNat]
  rw [Bool.eq_iff_iff]
  by_cases h : 65 ≤ c.toNat ∧ c.toNat ≤ 90
  · simp only [h, and_self, if_true, bne_iff_ne, ne_eq, Bool.not_eq_false, Bool.or_eq_true, beq_iff_eq]
    omega
  · simp only [h, if_false, bne_iff_ne, ne_eq, Bool.not_eq_false, Bool.or_eq_true, beq_iff_eq]
    omega

/-! ## the language of NUCLEUS, read off the AST -/

def LUser : Str → Prop := LSeq (LChar isUs) (LPlus isWord)
def NUser1 : Str → Prop := LOpt (LAlt LUser LDig1)
def NUser2 : Str → Prop := LOpt LUser
def NLabel1 : Str → Prop := LSeq (LOpt LDig1) (LSeq (LRun13 Char.isAlpha) NUser1)
def NLabel2 : Str → Prop := LSeq (LRun13 Char.isDigit) NUser2
def NLabel : Str → Prop := LAlt NLabel1 NLabel2
def NMass : Str → Prop := LOpt (LSeq (LChar isAt) (LSeq LDig1 (LSeq (LChar isDotC) LDig1)))
def NBody : Str → Prop := LSeq NLabel NMass

/-- ghost marker `@` | `Gh(` … `)` (any case) | none, around label + mass -/
def LNuc (t : Str) : Prop :=
  (∃ b, t = '@' :: b ∧ NBody b) ∨
  (∃ g h b, t = g :: h :: '(' :: (b ++ [')']) ∧ isGc g = true ∧ isHc h = true ∧ NBody b) ∨
  NBody t

theorem ext_user : Ext (.seq (.cls false [.ch 95]) (.rep 1 none true (.cls false [.word]))) LUser :=
  Ext.seq (Ext.cls cls_us) (Ext.plus cls_word)

theorem gext_label : GExt nucLabel NLabel :=
  GExt.group (by decide) (GExt.alt
    (GExt.group (by decide) (GExt.seq
      (GExt.opt (GExt.group (by decide) (GExt.ofExt (Ext.plus cls_digit))))
      (GExt.seq (GExt.group (by decide) (GExt.ofExt (Ext.run13 cls_alpha_n)))
        (GExt.opt (GExt.group (by decide) (GExt.alt
          (GExt.group (by decide) (GExt.ofExt ext_user))
          (GExt.group (by decide) (GExt.ofExt (Ext.plus cls_digit)))))))))
    (GExt.group (by decide) (GExt.seq
      (GExt.group (by decide) (GExt.ofExt (Ext.run13 cls_digit)))
      (GExt.opt (GExt.group (by decide) (GExt.group (by decide) (GExt.ofExt ext_user)))))))

theorem gext_mass : GExt nucMass NMass :=
  GExt.opt (GExt.seq (GExt.ofExt (Ext.cls cls_at))
    (GExt.group (by decide) (GExt.ofExt (Ext.seq (Ext.plus cls_digit) (Ext.seq (Ext.cls cls_dot) (Ext.plus cls_digit))))))

theorem gext_body : GExt (.seq nucLabel nucMass) NBody := GExt.seq gext_label gext_mass

/-! ## ghost marker, closing parenthesis, the whole NUCLEUS -/

theorem mem_ms_seq_assoc {a b c : Re} {st x : St} :
    x ∈ (Re.seq a (.seq b c)).ms st ↔ ∃ m, m ∈ (Re.seq a b).ms st ∧ x ∈ c.ms m := by
  constructor
  · intro h
    obtain ⟨m1, h1, h⟩ := mem_ms_seq.mp h
    obtain ⟨m2, h2, h⟩ := mem_ms_seq.mp h
    exact ⟨m2, mem_ms_seq.mpr ⟨m1, h1, h2⟩, h⟩
  · rintro ⟨m2, h12, h⟩
    obtain ⟨m1, h1, h2⟩ := mem_ms_seq.mp h12
    exact mem_ms_seq.mpr ⟨m1, h1, mem_ms_seq.mpr ⟨m2, h2, h⟩⟩

theorem group3_set (a b : St) : ((St.capture 3 a b).group 3).isSome = true := by
  simp [St.group, St.capture]

theorem ext_gh : Ext (.seq (.cls false [.ch 71, .ch 103]) (.seq (.cls false [.ch 104, .ch 72]) (.cls false [.ch 40])))
    (LSeq (LChar isGc) (LSeq (LChar isHc) (LChar isLP))) :=
  Ext.seq (Ext.cls cls_g) (Ext.seq (Ext.cls cls_h) (Ext.cls cls_lp))

theorem isAt_iff {c : Char} : isAt c = true ↔ c = '@' := by simp [isAt]
theorem isLP_iff {c : Char} : isLP c = true ↔ c = '(' := by simp [isLP]
theorem isRP_iff {c : Char} : isRP c = true ↔ c = ')' := by simp [isRP]
theorem isUs_iff {c : Char} : isUs c = true ↔ c = '_' := by simp [isUs]

theorem ghost_sound (s : Str) (st : St) (hs : st.rest = toBytes s) (h3 : (st.group 3).isSome = false) :
    ∀ m ∈ nucGhost.ms st,
      (m.rest = toBytes s ∧ (m.group 3).isSome = false) ∨
      (∃ r, s = '@' :: r ∧ m.rest = toBytes r ∧ (m.group 3).isSome = false) ∨
      (∃ g h r, s = g :: h :: '(' :: r ∧ isGc g = true ∧ isHc h = true ∧ m.rest = toBytes r ∧ (m.group 3).isSome = true) := by
  intro m hm
  rcases mem_ms_opt.mp hm with hm | rfl
  · rcases mem_ms_alt.mp hm with hm | hm
    · obtain ⟨m', hm', rfl⟩ := mem_ms_group.mp hm
      obtain ⟨t, r, rfl, ⟨c, rfl, hc⟩, rfl⟩ := (Ext.cls cls_at s st m' hs).mp hm'
      rw [isAt_iff.mp hc]
      exact Or.inr (Or.inl ⟨r, rfl, rfl, by rw [group3_capture 2 (by decide)]; exact h3⟩)
    · obtain ⟨m', hm', rfl⟩ := mem_ms_group.mp hm
      obtain ⟨t, r, rfl, ⟨_, _, rfl, ⟨g, rfl, hg⟩, _, _, rfl, ⟨h, rfl, hh⟩, p, rfl, hp⟩, rfl⟩ := (ext_gh s st m' hs).mp hm'
      rw [isLP_iff.mp hp]
      exact Or.inr (Or.inr ⟨g, h, r, rfl, hg, hh, rfl, group3_set _ _⟩)
  · exact Or.inl ⟨hs, h3⟩

theorem ghost_none (st : St) : st ∈ nucGhost.ms st := mem_ms_opt.mpr (Or.inr rfl)

theorem ghost_at (r : Str) (st : St) (hs : st.rest = toBytes ('@' :: r)) (h3 : (st.group 3).isSome = false) :
    ∃ m, m ∈ nucGhost.ms st ∧ m.rest = toBytes r ∧ (m.group 3).isSome = false := by
  refine ⟨St.capture 2 st (st.adv (toBytes ['@']) (toBytes r)), ?_, rfl, by rw [group3_capture 2 (by decide)]; exact h3⟩
  refine mem_ms_opt.mpr (Or.inl (mem_ms_alt.mpr (Or.inl (mem_ms_group.mpr ⟨_, ?_, rfl⟩))))
  exact (Ext.cls cls_at _ st _ hs).mpr ⟨['@'], r, rfl, ⟨'@', rfl, by decide⟩, rfl⟩

theorem ghost_gh (g h : Char) (r : Str) (st : St) (hs : st.rest = toBytes (g :: h :: '(' :: r))
    (hg : isGc g = true) (hh : isHc h = true) :
    ∃ m, m ∈ nucGhost.ms st ∧ m.rest = toBytes r ∧ (m.group 3).isSome = true := by
  refine ⟨St.capture 3 st (st.adv (toBytes [g, h, '(']) (toBytes r)), ?_, rfl, group3_set _ _⟩
  refine mem_ms_opt.mpr (Or.inl (mem_ms_alt.mpr (Or.inr (mem_ms_group.mpr ⟨_, ?_, rfl⟩))))
  exact (ext_gh _ st _ hs).mpr ⟨[g, h, '('], r, rfl, ⟨[g], [h, '('], rfl, ⟨g, rfl, hg⟩, [h], ['('], rfl, ⟨h, rfl, hh⟩, '(', rfl, by decide⟩, rfl⟩

theorem ms_close (st : St) : nucClose.ms st = if (st.group 3).isSome then (Re.cls false [.ch 41]).ms st else [st] := by
  simp [nucClose, Re.ms]

theorem tail_sound (s : Str) (st : St) (hs : st.rest = toBytes s) :
    ∀ x ∈ (Re.seq nucLabel (.seq nucMass nucClose)).ms st,
      ((st.group 3).isSome = false → ∃ t r, s = t ++ r ∧ NBody t ∧ x.rest = toBytes r) ∧
      ((st.group 3).isSome = true → ∃ t r, s = t ++ ')' :: r ∧ NBody t ∧ x.rest = toBytes r) := by
  intro x hx
  obtain ⟨m, hm, hx⟩ := mem_ms_seq_assoc.mp hx
  obtain ⟨t, r, rfl, hB, hmr, hmg⟩ := (gext_body s st hs).1 m hm
  rw [ms_close] at hx
  constructor
  · intro h3
    rw [h3] at hmg
    simp only [hmg, Bool.false_eq_true, if_false, List.mem_singleton] at hx
    subst hx
    exact ⟨t, r, rfl, hB, hmr⟩
  · intro h3
    rw [h3] at hmg
    simp only [hmg, if_true] at hx
    obtain ⟨t', r', rfl, ⟨c, rfl, hc⟩, rfl⟩ := (Ext.cls cls_rp r m x hmr).mp hx
    rw [isRP_iff.mp hc]
    exact ⟨t, r', rfl, hB, rfl⟩

theorem tail_complete_plain (t r : Str) (st : St) (hs : st.rest = toBytes (t ++ r)) (h3 : (st.group 3).isSome = false)
    (hB : NBody t) : ∃ x, x ∈ (Re.seq nucLabel (.seq nucMass nucClose)).ms st ∧ x.rest = toBytes r := by
  obtain ⟨m, hm, hmr, hmg⟩ := (gext_body _ st hs).2 t r rfl hB
  refine ⟨m, mem_ms_seq_assoc.mpr ⟨m, hm, ?_⟩, hmr⟩
  rw [ms_close, hmg, h3]
  simp

theorem tail_complete_paren (t r : Str) (st : St) (hs : st.rest = toBytes (t ++ ')' :: r)) (h3 : (st.group 3).isSome = true)
    (hB : NBody t) : ∃ x, x ∈ (Re.seq nucLabel (.seq nucMass nucClose)).ms st ∧ x.rest = toBytes r := by
  obtain ⟨m, hm, hmr, hmg⟩ := (gext_body _ st hs).2 t (')' :: r) rfl hB
  refine ⟨m.adv (toBytes [')']) (toBytes r), mem_ms_seq_assoc.mpr ⟨m, hm, ?_⟩, rfl⟩
  rw [ms_close, hmg, h3]
  simp only [if_true]
  exact (Ext.cls cls_rp _ m _ hmr).mpr ⟨[')'], r, rfl, ⟨')', rfl, by decide⟩, rfl⟩

/-- every way NUCLEUS matches from a cursor (group 3 not yet set) consumed a word of `LNuc` -/
theorem nucLine_sound (s : Str) (st : St) (hs : st.rest = toBytes s) (h3 : (st.group 3).isSome = false) :
    ∀ x ∈ nucLine.ms st, ∃ t r, s = t ++ r ∧ LNuc t ∧ x.rest = toBytes r := by
  intro x hx
  rw [nucLine_cut] at hx
  obtain ⟨m, hm, hx⟩ := mem_ms_seq.mp hx
  rcases ghost_sound s st hs h3 m hm with ⟨hmr, hmg⟩ | ⟨b, rfl, hmr, hmg⟩ | ⟨g, h, b, rfl, hg, hh, hmr, hmg⟩
  · obtain ⟨t, r, rfl, hB, hxr⟩ := (tail_sound s m hmr x hx).1 hmg
    exact ⟨t, r, rfl, Or.inr (Or.inr hB), hxr⟩
  · obtain ⟨t, r, rfl, hB, hxr⟩ := (tail_sound b m hmr x hx).1 hmg
    exact ⟨'@' :: t, r, rfl, Or.inl ⟨t, rfl, hB⟩, hxr⟩
  · obtain ⟨t, r, rfl, hB, hxr⟩ := (tail_sound b m hmr x hx).2 hmg
    exact ⟨g :: h :: '(' :: (t ++ [')']), r, by simp, Or.inr (Or.inl ⟨g, h, t, rfl, hg, hh, hB⟩), hxr⟩

/-- every word of `LNuc` followed by any rest is matched some way -/
theorem nucLine_complete (t r : Str) (st : St) (hs : st.rest = toBytes (t ++ r)) (h3 : (st.group 3).isSome = false)
    (hL : LNuc t) : ∃ x, x ∈ nucLine.ms st ∧ x.rest = toBytes r := by
  rw [nucLine_cut]
  rcases hL with ⟨b, rfl, hB⟩ | ⟨g, h, b, rfl, hg, hh, hB⟩ | hB
  · obtain ⟨m, hm, hmr, hmg⟩ := ghost_at (b ++ r) st hs h3
    obtain ⟨x, hx, hxr⟩ := tail_complete_plain b r m hmr hmg hB
    exact ⟨x, mem_ms_seq.mpr ⟨m, hm, hx⟩, hxr⟩
  · obtain ⟨m, hm, hmr, hmg⟩ := ghost_gh g h (b ++ ')' :: r) st (by rw [hs]; simp) hg hh
    obtain ⟨x, hx, hxr⟩ := tail_complete_paren b r m hmr hmg hB
    exact ⟨x, mem_ms_seq.mpr ⟨m, hm, hx⟩, hxr⟩
  · obtain ⟨x, hx, hxr⟩ := tail_complete_plain t r st hs h3 hB
    exact ⟨x, mem_ms_seq.mpr ⟨st, ghost_none st, hx⟩, hxr⟩

/-! ## the hand recogniser, stage by stage -/

theorem LUser_iff (u : Str) : LUser u ↔ ∃ w, u = '_' :: w ∧ LPlus isWord w := by
  unfold LUser LSeq LChar
  constructor
  · rintro ⟨_, w, rfl, ⟨c, rfl, hc⟩, hw⟩
    rw [isUs_iff.mp hc]
    exact ⟨w, rfl, hw⟩
  · rintro ⟨w, rfl, hw⟩
    exact ⟨['_'], w, rfl, ⟨'_', rfl, by decide⟩, hw⟩

theorem usw_iff (w : Str) : (!w.isEmpty && w.all isWord) = true ↔ LPlus isWord w := by
  cases w <;> simp [LPlus, List.all_eq_true]

theorem LDig1_cons (c : Char) (w : Str) : LDig1 (c :: w) ↔ allDigits (c :: w) = true := by
  rw [allDigits_iff0]
  unfold LDig1 LDig0 LPlus LStar
  simp

theorem userOk1_cons_ne (c : Char) (w : Str) (hc : c ≠ '_') : userOk1 (c :: w) = allDigits (c :: w) := by
  unfold userOk1
  split
  · rename_i heq; cases heq
  · rename_i w' heq; injection heq with h1 h2; exact absurd h1 hc
  · rfl

theorem userOk2_cons_ne (c : Char) (w : Str) (hc : c ≠ '_') : userOk2 (c :: w) = false := by
  unfold userOk2
  split
  · rename_i heq; cases heq
  · rename_i w' heq; injection heq with h1 h2; exact absurd h1 hc
  · rfl

theorem userOk1_iff (u : Str) : userOk1 u = true ↔ NUser1 u := by
  unfold NUser1 LOpt LAlt
  cases u with
  | nil => simp [userOk1]
  | cons c w =>
    by_cases hc : c = '_'
    · subst hc
      rw [show userOk1 ('_' :: w) = (!w.isEmpty && w.all isWord) from rfl, usw_iff, LUser_iff]
      constructor
      · intro h; exact Or.inl (Or.inl ⟨w, rfl, h⟩)
      · rintro ((⟨w', h1, h⟩ | h) | h)
        · injection h1 with _ h1; rw [h1]; exact h
        · exact absurd (h.2 '_' (by simp)) (by decide)
        · cases h
    · rw [userOk1_cons_ne c w hc, ← LDig1_cons, LUser_iff]
      constructor
      · intro h; exact Or.inl (Or.inr h)
      · rintro ((⟨w', h1, _⟩ | h) | h)
        · injection h1 with h1 _; exact absurd h1 hc
        · exact h
        · cases h

theorem userOk2_iff (u : Str) : userOk2 u = true ↔ NUser2 u := by
  unfold NUser2 LOpt
  cases u with
  | nil => simp [userOk2]
  | cons c w =>
    by_cases hc : c = '_'
    · subst hc
      rw [show userOk2 ('_' :: w) = (!w.isEmpty && w.all isWord) from rfl, usw_iff, LUser_iff]
      constructor
      · intro h; exact Or.inl ⟨w, rfl, h⟩
      · rintro (⟨w', h1, h⟩ | h)
        · injection h1 with _ h1; rw [h1]; exact h
        · cases h
    · rw [userOk2_cons_ne c w hc, LUser_iff]
      constructor
      · intro h; cases h
      · rintro (⟨w', h1, _⟩ | h)
        · injection h1 with h1 _; exact absurd h1 hc
        · cases h

theorem NUser2_sub {u : Str} (h : NUser2 u) : NUser1 u := by
  rcases h with h | h
  · exact Or.inl (Or.inl h)
  · exact Or.inr h

theorem NUser1_cases {u : Str} (h : NUser1 u) :
    u = [] ∨ (∃ w, u = '_' :: w ∧ LPlus isWord w) ∨ LDig1 u := by
  rcases h with (h | h) | h
  · exact Or.inr (Or.inl ((LUser_iff u).mp h))
  · exact Or.inr (Or.inr h)
  · exact Or.inl h

theorem NUser2_cases {u : Str} (h : NUser2 u) : u = [] ∨ (∃ w, u = '_' :: w ∧ LPlus isWord w) := by
  rcases h with h | h
  · exact Or.inr ((LUser_iff u).mp h)
  · exact Or.inl h

theorem NUser1_word {u : Str} (h : NUser1 u) : ∀ c ∈ u, isWord c = true := by
  rcases NUser1_cases h with rfl | ⟨w, rfl, hw⟩ | hd
  · simp
  · intro c hc; simp at hc; rcases hc with rfl | hc; decide; exact hw.2 c hc
  · intro c hc; exact digit_word (hd.2 c hc)

theorem NUser1_head {u : Str} (h : NUser1 u) : u = [] ∨ ∃ d t, u = d :: t ∧ d.isAlpha = false := by
  rcases NUser1_cases h with rfl | ⟨w, rfl, _⟩ | hd
  · exact Or.inl rfl
  · exact Or.inr ⟨'_', w, rfl, by decide⟩
  · obtain ⟨c, t, rfl, hc⟩ := dig1_head hd
    exact Or.inr ⟨c, t, rfl, digit_not_alpha hc⟩

theorem NUser2_head {u : Str} (h : NUser2 u) :
    u = [] ∨ ∃ d t, u = d :: t ∧ d.isAlpha = false ∧ d.isDigit = false := by
  rcases NUser2_cases h with rfl | ⟨w, rfl, _⟩
  · exact Or.inl rfl
  · exact Or.inr ⟨'_', w, rfl, by decide, by decide⟩

theorem NMass_iff (m : Str) : NMass m ↔ m = [] ∨ ∃ a b, m = '@' :: (a ++ '.' :: b) ∧ LDig1 a ∧ LDig1 b := by
  unfold NMass LOpt LSeq
  constructor
  · rintro (⟨_, _, rfl, ⟨c, rfl, hc⟩, a, _, rfl, ha, _, b, rfl, hd, hb⟩ | rfl)
    · rw [isAt_iff.mp hc, LDot_iff.mp hd]
      exact Or.inr ⟨a, b, rfl, ha, hb⟩
    · exact Or.inl rfl
  · rintro (rfl | ⟨a, b, rfl, ha, hb⟩)
    · exact Or.inr rfl
    · exact Or.inl ⟨['@'], _, rfl, ⟨'@', rfl, by decide⟩, a, _, rfl, ha, ['.'], b, rfl, LDot_iff.mpr rfl, hb⟩

theorem parseMass_cons_ne (c : Char) (m : Str) (hc : c ≠ '@') : parseMass (c :: m) = none := by
  unfold parseMass
  split
  · rename_i heq; cases heq
  · rename_i m' heq; injection heq with h1 _; exact absurd h1 hc
  · rfl

theorem isEmpty_false_iff {α} (l : List α) : (!l.isEmpty) = true ↔ l ≠ [] := by cases l <;> simp

theorem parseMass_isSome (m : Str) : (parseMass m).isSome = true ↔ NMass m := by
  rw [NMass_iff]
  cases m with
  | nil => simp [parseMass]
  | cons c m' =>
    by_cases hc : c = '@'
    · subst hc
      have hsplit : m'.takeWhile Char.isDigit ++ m'.dropWhile Char.isDigit = m' := List.takeWhile_append_dropWhile
      have htw : ∀ c ∈ m'.takeWhile Char.isDigit, c.isDigit = true := by
        have := List.all_takeWhile (p := Char.isDigit) (l := m')
        exact fun c hc => List.all_eq_true.mp this c hc
      constructor
      · intro h
        right
        simp only [parseMass] at h
        split at h
        · rename_i b heq
          rw [ite_isSome, Bool.and_eq_true, Bool.and_eq_true, isEmpty_false_iff, isEmpty_false_iff, allDigits_iff0] at h
          refine ⟨m'.takeWhile Char.isDigit, b, ?_, ⟨h.1.1, htw⟩, ⟨h.1.2, h.2⟩⟩
          rw [← heq, hsplit]
        · simp at h
      · rintro (h | ⟨a, b, h, ha, hb⟩)
        · cases h
        · injection h with _ h
          subst h
          have hdot : Char.isDigit '.' = false := by decide
          have h1 : (a ++ '.' :: b).takeWhile Char.isDigit = a := tw_app a _ ha.2 (Or.inr ⟨'.', b, rfl, hdot⟩)
          have h2 : (a ++ '.' :: b).dropWhile Char.isDigit = '.' :: b := dw_app a _ ha.2 (Or.inr ⟨'.', b, rfl, hdot⟩)
          simp only [parseMass, h1, h2]
          rw [ite_isSome, Bool.and_eq_true, Bool.and_eq_true, isEmpty_false_iff, isEmpty_false_iff, allDigits_iff0]
          exact ⟨⟨ha.1, hb.1⟩, hb.2⟩
    · rw [parseMass_cons_ne c m' hc]
      constructor
      · intro h; cases h
      · rintro (h | ⟨a, b, h, _, _⟩)
        · cases h
        · injection h with h _; exact absurd h hc

/-- the label test of `parseCore` -/
def labelOk (lbl : Str) : Bool :=
  let a := lbl.takeWhile Char.isDigit
  let r := lbl.dropWhile Char.isDigit
  let l := r.takeWhile Char.isAlpha
  let u := r.dropWhile Char.isAlpha
  if !l.isEmpty then (l.length ≤ 3 && userOk1 u) else (1 ≤ a.length && a.length ≤ 3 && userOk2 u)

theorem parseCore_isSome (g : Bool) (core : Str) :
    (parseCore g core).isSome =
      ((parseMass (core.dropWhile (· != '@'))).isSome && labelOk (core.takeWhile (· != '@'))) := by
  unfold parseCore labelOk
  cases parseMass (core.dropWhile (· != '@')) with
  | none => rfl
  | some mass =>
    simp only [Option.isSome_some, Bool.true_and]
    split <;> split <;> simp_all

theorem all_tw (p : Char → Bool) (l : Str) : ∀ c ∈ l.takeWhile p, p c = true := by
  have := List.all_takeWhile (p := p) (l := l)
  exact fun c hc => List.all_eq_true.mp this c hc

theorem optDig_all {a : Str} (h : LOpt LDig1 a) : ∀ c ∈ a, c.isDigit = true := by
  rcases h with h | rfl
  · exact h.2
  · simp

theorem run13_head {p : Char → Bool} {l : Str} (h : LRun13 p l) : ∃ d t, l = d :: t ∧ p d = true := by
  obtain ⟨h0, _, h1⟩ := h
  cases l with
  | nil => exact absurd rfl h0
  | cons d t => exact ⟨d, t, rfl, h1 d (by simp)⟩

theorem labelOk_iff (lbl : Str) : labelOk lbl = true ↔ NLabel lbl := by
  constructor
  · intro h
    unfold labelOk at h
    simp only at h
    have h1 : lbl.takeWhile Char.isDigit ++ lbl.dropWhile Char.isDigit = lbl := List.takeWhile_append_dropWhile
    have h2 : (lbl.dropWhile Char.isDigit).takeWhile Char.isAlpha ++ (lbl.dropWhile Char.isDigit).dropWhile Char.isAlpha
        = lbl.dropWhile Char.isDigit := List.takeWhile_append_dropWhile
    generalize lbl.takeWhile Char.isDigit = a, all_tw Char.isDigit lbl = ha at *
    generalize hr : lbl.dropWhile Char.isDigit = r at *
    generalize (r.takeWhile Char.isAlpha) = sy, all_tw Char.isAlpha r = hsy at *
    generalize (r.dropWhile Char.isAlpha) = u at *
    subst h2
    subst h1
    split at h
    · rename_i hne
      rw [isEmpty_false_iff] at hne
      rw [Bool.and_eq_true, decide_eq_true_eq, userOk1_iff] at h
      left
      refine ⟨a, sy ++ u, rfl, ?_, sy, u, rfl, ⟨hne, h.1, hsy⟩, h.2⟩
      cases a with
      | nil => exact Or.inr rfl
      | cons d t => exact Or.inl ⟨by simp, ha⟩
    · rename_i hne
      have hsy0 : sy = [] := by
        cases sy with
        | nil => rfl
        | cons _ _ => simp at hne
      subst hsy0
      rw [Bool.and_eq_true, Bool.and_eq_true, decide_eq_true_eq, decide_eq_true_eq, userOk2_iff] at h
      right
      refine ⟨a, u, rfl, ⟨?_, h.1.2, ha⟩, h.2⟩
      intro h0; subst h0; simp at h
  · rintro (⟨a, _, rfl, ha, sy, u, rfl, hsy, hu⟩ | ⟨z, u, rfl, hz, hu⟩)
    · obtain ⟨d, t, hdt, hd⟩ := run13_head hsy
      have hda := optDig_all ha
      have hr : sy ++ u = [] ∨ ∃ d t, sy ++ u = d :: t ∧ d.isDigit = false :=
        Or.inr ⟨d, t ++ u, by simp [hdt], alpha_not_digit hd⟩
      have e1 : (a ++ (sy ++ u)).takeWhile Char.isDigit = a := tw_app a _ hda hr
      have e2 : (a ++ (sy ++ u)).dropWhile Char.isDigit = sy ++ u := dw_app a _ hda hr
      have e3 : (sy ++ u).takeWhile Char.isAlpha = sy := tw_app sy u hsy.2.2 (NUser1_head hu)
      have e4 : (sy ++ u).dropWhile Char.isAlpha = u := dw_app sy u hsy.2.2 (NUser1_head hu)
      have hne : (!sy.isEmpty) = true := (isEmpty_false_iff sy).mpr hsy.1
      unfold labelOk
      simp only [e1, e2, e3, e4, hne, if_true]
      rw [Bool.and_eq_true, decide_eq_true_eq, userOk1_iff]
      exact ⟨hsy.2.1, hu⟩
    · have hr : u = [] ∨ ∃ d t, u = d :: t ∧ d.isDigit = false := by
        rcases NUser2_head hu with h | ⟨d, t, h1, _, h2⟩
        · exact Or.inl h
        · exact Or.inr ⟨d, t, h1, h2⟩
      have hr' : u = [] ∨ ∃ d t, u = d :: t ∧ d.isAlpha = false := by
        rcases NUser2_head hu with h | ⟨d, t, h1, h2, _⟩
        · exact Or.inl h
        · exact Or.inr ⟨d, t, h1, h2⟩
      have e1 : (z ++ u).takeWhile Char.isDigit = z := tw_app z _ hz.2.2 hr
      have e2 : (z ++ u).dropWhile Char.isDigit = u := dw_app z _ hz.2.2 hr
      have e3 : u.takeWhile Char.isAlpha = [] := by
        have := tw_app (p := Char.isAlpha) [] u (by simp) hr'; simpa using this
      have e4 : u.dropWhile Char.isAlpha = u := by
        have := dw_app (p := Char.isAlpha) [] u (by simp) hr'; simpa using this
      unfold labelOk
      simp only [e1, e2, e3, e4]
      have hz1 : 1 ≤ z.length := by
        obtain ⟨d, t, rfl, _⟩ := run13_head hz
        simp
      simp only [List.isEmpty_nil, Bool.not_true, Bool.false_eq_true, if_false]
      rw [Bool.and_eq_true, Bool.and_eq_true, decide_eq_true_eq, decide_eq_true_eq, userOk2_iff]
      exact ⟨⟨hz1, hz.2.1⟩, hu⟩

theorem NLabel_word {l : Str} (h : NLabel l) : ∀ c ∈ l, isWord c = true := by
  rcases h with ⟨a, _, rfl, ha, sy, u, rfl, hsy, hu⟩ | ⟨z, u, rfl, hz, hu⟩
  · intro c hc
    simp only [List.mem_append] at hc
    rcases hc with hc | hc | hc
    · exact digit_word (optDig_all ha c hc)
    · exact alpha_word (hsy.2.2 c hc)
    · exact NUser1_word hu c hc
  · intro c hc
    simp only [List.mem_append] at hc
    rcases hc with hc | hc
    · exact digit_word (hz.2.2 c hc)
    · exact NUser1_word (NUser2_sub hu) c hc

theorem NLabel_head {l : Str} (h : NLabel l) : ∃ d t, l = d :: t := by
  rcases h with ⟨a, _, rfl, ha, sy, u, rfl, hsy, hu⟩ | ⟨z, u, rfl, hz, hu⟩
  · obtain ⟨d, t, rfl, _⟩ := run13_head hsy
    cases a with
    | nil => exact ⟨d, t ++ u, rfl⟩
    | cons e a' => exact ⟨e, _, rfl⟩
  · obtain ⟨d, t, rfl, _⟩ := run13_head hz
    exact ⟨d, t ++ u, rfl⟩

/-- characters of a nucleus body: word characters, `@`, `.` -/
def isNucChar (c : Char) : Bool := isWord c || c == '@' || c == '.'

theorem NMass_chars {m : Str} (h : NMass m) : ∀ c ∈ m, isNucChar c = true := by
  rcases (NMass_iff m).mp h with rfl | ⟨a, b, rfl, ha, hb⟩
  · simp
  · intro c hc
    simp only [List.mem_cons, List.mem_append] at hc
    rcases hc with rfl | hc | rfl | hc
    · decide
    · simp [isNucChar, digit_word (ha.2 c hc)]
    · decide
    · simp [isNucChar, digit_word (hb.2 c hc)]

theorem NBody_chars {b : Str} (h : NBody b) : ∀ c ∈ b, isNucChar c = true := by
  obtain ⟨l, m, rfl, hl, hm⟩ := h
  intro c hc
  rcases List.mem_append.mp hc with hc | hc
  · simp [isNucChar, NLabel_word hl c hc]
  · exact NMass_chars hm c hc

theorem NBody_head {b : Str} (h : NBody b) : ∃ d t, b = d :: t ∧ isWord d = true := by
  obtain ⟨l, m, rfl, hl, hm⟩ := h
  obtain ⟨d, t, rfl⟩ := NLabel_head hl
  exact ⟨d, t ++ m, rfl, NLabel_word hl d (by simp)⟩

theorem parseCore_iff (g : Bool) (core : Str) : (parseCore g core).isSome = true ↔ NBody core := by
  rw [parseCore_isSome, Bool.and_eq_true, parseMass_isSome, labelOk_iff]
  constructor
  · rintro ⟨hm, hl⟩
    exact ⟨_, _, List.takeWhile_append_dropWhile.symm, hl, hm⟩
  · rintro ⟨l, m, rfl, hl, hm⟩
    have hall : ∀ c ∈ l, (c != '@') = true := by
      intro c hc; have := word_ne (NLabel_word hl c hc) '@' (by decide); simp [bne, this]
    have hr : m = [] ∨ ∃ d t, m = d :: t ∧ (d != '@') = false := by
      rcases (NMass_iff m).mp hm with rfl | ⟨a, b, rfl, _, _⟩
      · exact Or.inl rfl
      · exact Or.inr ⟨'@', _, rfl, by decide⟩
    rw [tw_app l m hall hr, dw_app l m hall hr]
    exact ⟨hm, hl⟩

theorem parseNucleus_cons (c : Char) (r : Str) : parseNucleus (c :: r) =
    if c == '@' then parseCore true r
    else if isGhPrefix (c :: r) then
      (if (c :: r).getLast? = some ')' then parseCore true (((c :: r).drop 3).dropLast) else none)
    else parseCore false (c :: r) := rfl

theorem isGhPrefix_iff (t : Str) : isGhPrefix t = true ↔ ∃ g h r, t = g :: h :: '(' :: r ∧ isGc g = true ∧ isHc h = true := by
  match t with
  | [] => simp [isGhPrefix]
  | [_] => simp [isGhPrefix]
  | [_, _] => simp [isGhPrefix]
  | g :: h :: p :: r =>
    simp only [isGhPrefix, Bool.and_eq_true, beq_iff_eq, isGc, isHc]
    constructor
    · rintro ⟨⟨hg, hh⟩, rfl⟩
      exact ⟨g, h, r, rfl, hg, hh⟩
    · rintro ⟨g', h', r', heq, hg, hh⟩
      simp only [List.cons.injEq] at heq
      obtain ⟨rfl, rfl, rfl, rfl⟩ := heq
      exact ⟨⟨hg, hh⟩, rfl⟩

theorem nucChar_ne_lp {c : Char} (h : isNucChar c = true) : c ≠ '(' := by
  rintro rfl; revert h; decide

/-- **hand side**: the recogniser accepts exactly the language read off the AST -/
theorem isNucleus_iff (t : Str) : isNucleus t = true ↔ LNuc t := by
  unfold isNucleus LNuc
  cases t with
  | nil =>
    constructor
    · intro h; cases h
    · rintro (⟨b, h, _⟩ | ⟨g, h, b, h', _⟩ | h)
      · cases h
      · cases h'
      · obtain ⟨d, t, h, _⟩ := NBody_head h; cases h
  | cons c r =>
    rw [parseNucleus_cons]
    by_cases hc : c = '@'
    · subst hc
      simp only [beq_self_eq_true, if_true]
      rw [parseCore_iff]
      constructor
      · intro h; exact Or.inl ⟨r, rfl, h⟩
      · rintro (⟨b, h, hb⟩ | ⟨g, h, b, h', hg, _⟩ | h)
        · injection h with _ h; rw [h]; exact hb
        · injection h' with h' _; subst h'; exact absurd hg (by decide)
        · obtain ⟨d, t, h, hd⟩ := NBody_head h
          injection h with h _; subst h; exact absurd hd (by decide)
    · have hc' : (c == '@') = false := by simp [hc]
      simp only [hc', Bool.false_eq_true, if_false]
      by_cases hg : isGhPrefix (c :: r) = true
      · simp only [hg, if_true]
        obtain ⟨g, h, r', heq, hgc, hhc⟩ := (isGhPrefix_iff _).mp hg
        rw [heq]
        simp only [List.drop_succ_cons, List.drop_zero]
        constructor
        · intro hp
          split at hp
          · rename_i hlast
            rw [parseCore_iff] at hp
            rw [List.getLast?_cons_cons, List.getLast?_cons_cons] at hlast
            obtain ⟨ys, hys⟩ := List.getLast?_eq_some_iff.mp hlast
            cases ys with
            | nil => simp at hys
            | cons y ys' =>
              simp only [List.cons_append, List.cons.injEq] at hys
              obtain ⟨_, rfl⟩ := hys
              rw [List.dropLast_concat] at hp
              exact Or.inr (Or.inl ⟨g, h, ys', rfl, hgc, hhc, hp⟩)
          · cases hp
        · rintro (⟨b, h1, _⟩ | ⟨g', h', b, h1, _, _, hb⟩ | hb)
          · injection h1 with h1 _; injection heq with h2 _; exact absurd (h2.trans h1) hc
          · simp only [List.cons.injEq, true_and] at h1
            obtain ⟨_, _, rfl⟩ := h1
            have hl : (g :: h :: '(' :: (b ++ [')'])).getLast? = some ')' := by
              rw [List.getLast?_cons_cons, List.getLast?_cons_cons, ← List.cons_append, List.getLast?_concat]
            simp only [hl, if_true, List.dropLast_concat]
            rw [parseCore_iff]; exact hb
          · exact absurd rfl (nucChar_ne_lp (NBody_chars hb '(' (by simp)))
      · simp only [hg, Bool.false_eq_true, if_false]
        rw [parseCore_iff]
        constructor
        · intro h; exact Or.inr (Or.inr h)
        · rintro (⟨b, h1, _⟩ | ⟨g', h', b, h1, hgc, hhc, _⟩ | hb)
          · injection h1 with h1 _; exact absurd h1 hc
          · exact absurd ((isGhPrefix_iff _).mpr ⟨g', h', _, h1, hgc, hhc⟩) hg
          · exact hb

/-! ## the theorems -/

/-- **NUCLEUS inside atom_cartesian = hand recogniser**: from the start of a line, the nucleus group takes exactly the prefixes
`isNucleus` accepts (every one of them, by backtracking), and captures the prefix as group 1 -/
theorem nucLine_ext : NucExtFor nucLine (fun t => isNucleus t) := by
  intro s
  have h3 : ((St.init (toBytes s)).group 3).isSome = false := rfl
  constructor
  · intro x hx
    obtain ⟨m, hm, rfl⟩ := mem_ms_group.mp hx
    obtain ⟨t, r, rfl, hL, hmr⟩ := nucLine_sound s (St.init (toBytes s)) rfl h3 m hm
    refine ⟨t, r, rfl, (isNucleus_iff t).mpr hL, hmr, ?_⟩
    simp only [St.group, capture_caps', List.lookup, beq_self_eq_true, hmr]
    rw [show (St.init (toBytes (t ++ r))).rest = toBytes t ++ toBytes r by simp [St.init], takeDiff_append']
  · intro t r hs ht
    subst hs
    obtain ⟨m, hm, hmr⟩ := nucLine_complete t r (St.init (toBytes (t ++ r))) rfl h3 ((isNucleus_iff t).mp ht)
    exact ⟨St.capture 1 _ m, mem_ms_group.mpr ⟨m, hm, rfl⟩, hmr⟩

theorem nucChar_not_sep {c : Char} (h : isNucChar c = true) : isSep c = false := by
  simp only [isNucChar, Bool.or_eq_true, beq_iff_eq] at h
  rcases h with (h | rfl) | rfl
  · exact word_not_sep h
  · decide
  · decide

theorem NBody_no_sep {b : Str} (h : NBody b) : ∀ c ∈ b, isSep c = false :=
  fun c hc => nucChar_not_sep (NBody_chars h c hc)

theorem isGc_not_sep {c : Char} (h : isGc c = true) : isSep c = false := by
  cases hs : isSep c with
  | false => rfl
  | true => rcases sep_cases hs with rfl | rfl | rfl <;> revert h <;> decide

theorem isHc_not_sep {c : Char} (h : isHc c = true) : isSep c = false := by
  cases hs : isSep c with
  | false => rfl
  | true => rcases sep_cases hs with rfl | rfl | rfl <;> revert h <;> decide

/-- a nucleus token contains no separator character -/
theorem isNucleus_no_sep {t : Str} (h : isNucleus t = true) : ∀ c ∈ t, isSep c = false := by
  rcases (isNucleus_iff t).mp h with ⟨b, rfl, hb⟩ | ⟨g, hh, b, rfl, hg, hhc, hb⟩ | hb
  · intro c hc
    simp only [List.mem_cons] at hc
    rcases hc with rfl | hc
    · decide
    · exact NBody_no_sep hb c hc
  · intro c hc
    simp only [List.mem_cons, List.mem_append, List.not_mem_nil, or_false] at hc
    rcases hc with rfl | rfl | rfl | hc | rfl
    · exact isGc_not_sep hg
    · exact isHc_not_sep hhc
    · decide
    · exact NBody_no_sep hb c hc
    · decide
  · exact NBody_no_sep hb

theorem isNucleus_ne_nil {t : Str} (h : isNucleus t = true) : t ≠ [] := by
  rintro rfl
  cases h

/-! ## non-vacuity -/

example : isNucleus "Gh(He_3@4.0026)".toList = true := by decide
example : isNucleus "Gh(He_3@4.0026".toList = false := by decide
example : ((Re.group 1 nucLine).ms (St.init (toBytes "He12 ".toList))).map (fun x => x.rest.length) = [1, 2, 3, 4] := by decide

end QcelVerif.MolText
