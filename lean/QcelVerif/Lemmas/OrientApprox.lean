import QcelVerif.Model.OrientApprox
import QcelVerif.Lemmas.Orient
import QcelVerif.Lemmas.OrientUnique

/-!
# C16 — helper lemmas for the quantitative (approximate-certificate) theorems

Nothing here is a property statement; the property statements are in `Props/C16Approx.lean`.

* §1  `inertia_defect`: the transformation law of the inertia tensor under ANY matrix `V`, with the
      explicit defect term (generalises `inertia_transforms`, which assumes `Orth V`).
* §2  entrywise bounds: bilinear forms, sums over atoms, matrix products in the max-entry norm.
* §3  one row of a perturbed eigen-equation (Gershgorin / Bauer–Fike in dimension 3).
* §4  two approximate eigen-frames: the intertwining identity with its defect, bounds on `VᵀV'`.
-/

namespace QcelVerif.Orient

/-! ## 1. transformation law with defect (any commutative ring, any `V`) -/
section Ring
variable {K : Type} [CommRing K]

/-- `V Vᵀ - 1` (second residual of the certificate) -/
def E1 (V : M3 K) : M3 K := M3.sub (M3.mul V (M3.tr V)) M3.one
/-- `Vᵀ V - 1` (first residual of the certificate) -/
def E2 (V : M3 K) : M3 K := M3.sub (M3.mul (M3.tr V) V) M3.one

/-- the quadratic form `p E pᵀ` -/
def quadE (E : M3 K) (p : V3 K) : K := V3.dot (V3.mulMat p E) p

/-- one atom's defect: `m ((p (VVᵀ-1) pᵀ) 1 - |p|² (VᵀV-1))` -/
def I1Defect (V : M3 K) (m : K) (p : V3 K) : M3 K :=
  M3.smul m (M3.sub (M3.smul (quadE (E1 V) p) M3.one) (M3.smul (V3.normSq p) (E2 V)))

/-- the defect of the transformation law, summed over the atoms:
`(Σ m p(VVᵀ-1)pᵀ) · 1 - (Σ m |p|²) · (VᵀV-1)` -/
def inertiaDefect (ms : List K) (g : List (V3 K)) (V : M3 K) : M3 K :=
  M3.sub (M3.smul (wsumF (quadE (E1 V)) ms g) M3.one) (M3.smul (wsumF V3.normSq ms g) (E2 V))

/-- per-atom law for ANY `V` (pure ring identity) -/
theorem I1_rotate_defect (V : M3 K) (m : K) (p : V3 K) :
    I1 m (V3.mulMat p V) = M3.add (sandwich V (I1 m p)) (I1Defect V m p) := by
  apply M3.ext' <;>
    simp only [I1Defect, quadE, E1, E2, sandwich, I1, M3.mul, M3.tr, M3.smul, M3.sub, M3.add, M3.one, M3.outer,
      V3.mulMat, V3.normSq, V3.dot] <;> ring

theorem add_zero3 (A : M3 K) : M3.add A M3.zero = A := by
  apply M3.ext' <;> simp [M3.add, M3.zero]

theorem inertiaDefect_nil_left (g : List (V3 K)) (V : M3 K) : inertiaDefect ([] : List K) g V = M3.zero := by
  apply M3.ext' <;> simp [inertiaDefect, wsumF, M3.zero, M3.sub, M3.smul]

theorem inertiaDefect_nil_right (ms : List K) (V : M3 K) : inertiaDefect ms ([] : List (V3 K)) V = M3.zero := by
  cases ms <;> apply M3.ext' <;> simp [inertiaDefect, wsumF, M3.zero, M3.sub, M3.smul]

theorem inertiaDefect_cons (m : K) (ms : List K) (p : V3 K) (g : List (V3 K)) (V : M3 K) :
    inertiaDefect (m :: ms) (p :: g) V = M3.add (I1Defect V m p) (inertiaDefect ms g V) := by
  apply M3.ext' <;> simp only [inertiaDefect, I1Defect, wsumF, M3.add, M3.smul, M3.sub, M3.one] <;> ring

/-- **Transformation law with explicit defect, for ANY `V`.**
`I(xV) = Vᵀ I(x) V + (Σ m p(VVᵀ-1)pᵀ)·1 - (Σ m |p|²)·(VᵀV-1)` -/
theorem inertia_defect_sandwich (V : M3 K) : ∀ (ms : List K) (g : List (V3 K)),
    inertia ms (rotate g V) = M3.add (sandwich V (inertia ms g)) (inertiaDefect ms g V)
  | [], g => by
    rw [inertia_nil_left, inertia_nil_left, sandwich_zero, inertiaDefect_nil_left, add_zero3]
  | m :: ms, [] => by
    simp only [rotate, List.map_nil]
    rw [inertia_nil_right, sandwich_zero, inertiaDefect_nil_right, add_zero3]
  | m :: ms, p :: g => by
    have ih := inertia_defect_sandwich V ms g
    simp only [rotate, List.map_cons] at ih ⊢
    rw [inertia_cons, inertia_cons, ih, I1_rotate_defect, inertiaDefect_cons, sandwich_add]
    apply M3.ext' <;> simp only [M3.add] <;> ring

/-- `D A D` for a diagonal `D`, entry by entry -/
theorem sandwich_diag_entries (a b c : K) (A : M3 K) :
    sandwich (M3.diag a b c) A =
      ⟨a * a * A.xx, a * b * A.xy, a * c * A.xz, b * a * A.yx, b * b * A.yy, b * c * A.yz,
       c * a * A.zx, c * b * A.zy, c * c * A.zz⟩ := by
  apply M3.ext' <;> simp only [sandwich, M3.mul, M3.tr, M3.diag] <;> ring

/-- linearity of the atom sum -/
theorem wsumF_add (f h : V3 K → K) : ∀ (ms : List K) (g : List (V3 K)),
    wsumF (fun p => f p + h p) ms g = wsumF f ms g + wsumF h ms g
  | [], _ => by simp [wsumF]
  | _ :: _, [] => by simp [wsumF]
  | m :: ms, p :: g => by simp only [wsumF]; rw [wsumF_add f h ms g]; ring

/-- `tr I = 2 Σ m |p|²` -/
theorem inertia_trace (ms : List K) (g : List (V3 K)) :
    (inertia ms g).xx + (inertia ms g).yy + (inertia ms g).zz = 2 * wsumF V3.normSq ms g := by
  simp only [inertia]
  rw [← wsumF_add, ← wsumF_add]
  have : ∀ (f h : V3 K → K), (∀ p, f p = h p) → wsumF f ms g = wsumF h ms g := by
    intro f h e; rw [funext e]
  have e2 : (2 : K) * wsumF V3.normSq ms g = wsumF (fun p => V3.normSq p + V3.normSq p) ms g := by
    rw [wsumF_add]; ring
  rw [e2]
  apply this
  intro p; simp only [V3.normSq]; ring

/-! column vectors and matrix–vector product (used for eigen-equations `T u = μ u`) -/

def M3.col0 (A : M3 K) : V3 K := ⟨A.xx, A.yx, A.zx⟩
def M3.col1 (A : M3 K) : V3 K := ⟨A.xy, A.yy, A.zy⟩
def M3.col2 (A : M3 K) : V3 K := ⟨A.xz, A.yz, A.zz⟩

/-- `A w` for a column vector `w` -/
def M3.mulVec (A : M3 K) (w : V3 K) : V3 K :=
  ⟨A.xx * w.x + A.xy * w.y + A.xz * w.z, A.yx * w.x + A.yy * w.y + A.yz * w.z, A.zx * w.x + A.zy * w.y + A.zz * w.z⟩

theorem mulVec_mulVec (A B : M3 K) (w : V3 K) : M3.mulVec A (M3.mulVec B w) = M3.mulVec (M3.mul A B) w := by
  apply V3.ext' <;> simp only [M3.mulVec, M3.mul] <;> ring

theorem mulVec_smul (A : M3 K) (a : K) (w : V3 K) : M3.mulVec A (V3.smul a w) = V3.smul a (M3.mulVec A w) := by
  apply V3.ext' <;> simp only [M3.mulVec, V3.smul] <;> ring

end Ring

/-! ## 2. entrywise bounds -/
section Ordered
variable {K : Type} [Field K] [LinearOrder K] [IsStrictOrderedRing K]

omit [IsStrictOrderedRing K] in
theorem maxAbs_le_iff {A : M3 K} {ε : K} :
    M3.maxAbs A ≤ ε ↔
      |A.xx| ≤ ε ∧ |A.xy| ≤ ε ∧ |A.xz| ≤ ε ∧ |A.yx| ≤ ε ∧ |A.yy| ≤ ε ∧ |A.yz| ≤ ε ∧ |A.zx| ≤ ε ∧ |A.zy| ≤ ε ∧ |A.zz| ≤ ε := by
  unfold M3.maxAbs
  simp only [max_le_iff]

theorem maxAbs_nonneg (A : M3 K) : 0 ≤ M3.maxAbs A := by
  unfold M3.maxAbs
  exact le_trans (abs_nonneg A.xx) (le_max_left _ _)

theorem normSq_nonneg (p : V3 K) : 0 ≤ V3.normSq p := by
  simp only [V3.normSq]; nlinarith [mul_self_nonneg p.x, mul_self_nonneg p.y, mul_self_nonneg p.z]

/-- bilinear form with an entrywise-bounded matrix: `|u W vᵀ| ≤ ω · 3(|u|² + |v|²)/2` -/
theorem bilin_bound {W : M3 K} {ω : K} (h : M3.maxAbs W ≤ ω) (u v : V3 K) :
    |V3.dot (V3.mulMat u W) v| ≤ ω * (3 * (V3.normSq u + V3.normSq v) / 2) := by
  obtain ⟨h1, h2, h3, h4, h5, h6, h7, h8, h9⟩ := maxAbs_entries h
  have e : V3.dot (V3.mulMat u W) v = u.x * W.xx * v.x + u.y * W.yx * v.x + u.z * W.zx * v.x
      + (u.x * W.xy * v.y + u.y * W.yy * v.y + u.z * W.zy * v.y)
      + (u.x * W.xz * v.z + u.y * W.yz * v.z + u.z * W.zz * v.z) := by
    simp only [V3.dot, V3.mulMat]; ring
  have b1 := abs_le.mp (term_bound (a := u.x) (b := v.x) h1)
  have b2 := abs_le.mp (term_bound (a := u.y) (b := v.x) h4)
  have b3 := abs_le.mp (term_bound (a := u.z) (b := v.x) h7)
  have b4 := abs_le.mp (term_bound (a := u.x) (b := v.y) h2)
  have b5 := abs_le.mp (term_bound (a := u.y) (b := v.y) h5)
  have b6 := abs_le.mp (term_bound (a := u.z) (b := v.y) h8)
  have b7 := abs_le.mp (term_bound (a := u.x) (b := v.z) h3)
  have b8 := abs_le.mp (term_bound (a := u.y) (b := v.z) h6)
  have b9 := abs_le.mp (term_bound (a := u.z) (b := v.z) h9)
  rw [e, V3.normSq, V3.normSq, abs_le]
  constructor <;> linarith [b1.1, b1.2, b2.1, b2.2, b3.1, b3.2, b4.1, b4.2, b5.1, b5.2, b6.1, b6.2, b7.1, b7.2, b8.1, b8.2, b9.1, b9.2]

/-- `|p E pᵀ| ≤ 3 ε |p|²` -/
theorem quad_bound {E : M3 K} {ε : K} (h : M3.maxAbs E ≤ ε) (p : V3 K) : |quadE E p| ≤ 3 * ε * V3.normSq p := by
  have := bilin_bound h p p
  unfold quadE
  linarith

/-- bilinear form between vectors of squared length `≤ c`: `|u W vᵀ| ≤ 3 ω c` -/
theorem bilin_bound_c {W : M3 K} {ω c : K} (h : M3.maxAbs W ≤ ω) {u v : V3 K}
    (hu : V3.normSq u ≤ c) (hv : V3.normSq v ≤ c) : |V3.dot (V3.mulMat u W) v| ≤ 3 * ω * c := by
  have hω : 0 ≤ ω := le_trans (maxAbs_nonneg W) h
  have := bilin_bound h u v
  nlinarith [mul_le_mul_of_nonneg_left hu hω, mul_le_mul_of_nonneg_left hv hω]

/-- `|u · v| ≤ (|u|² + |v|²)/2` -/
theorem dot_bound (u v : V3 K) : |V3.dot u v| ≤ (V3.normSq u + V3.normSq v) / 2 := by
  simp only [V3.dot, V3.normSq]
  rw [abs_le]
  constructor <;> nlinarith [sq_nonneg (u.x - v.x), sq_nonneg (u.x + v.x), sq_nonneg (u.y - v.y), sq_nonneg (u.y + v.y),
    sq_nonneg (u.z - v.z), sq_nonneg (u.z + v.z)]

/-- sum over atoms of a pointwise bounded quantity, with `|mᵢ|` as weights on the right -/
theorem wsumF_abs_le {f h : V3 K → K} {c : K} (hf : ∀ p, |f p| ≤ c * h p) : ∀ (ms : List K) (g : List (V3 K)),
    |wsumF f ms g| ≤ c * wsumF h (ms.map (fun m => |m|)) g
  | [], _ => by simp [wsumF]
  | _ :: _, [] => by simp [wsumF]
  | m :: ms, p :: g => by
    have ih := wsumF_abs_le hf ms g
    simp only [List.map_cons, wsumF]
    have h1 : |m * f p| ≤ |m| * (c * h p) := by
      rw [abs_mul]; exact mul_le_mul_of_nonneg_left (hf p) (abs_nonneg m)
    calc |m * f p + wsumF f ms g| ≤ |m * f p| + |wsumF f ms g| := abs_add_le _ _
      _ ≤ |m| * (c * h p) + c * wsumF h (ms.map (fun m => |m|)) g := add_le_add h1 ih
      _ = c * (|m| * h p + wsumF h (ms.map (fun m => |m|)) g) := by ring

theorem absS_nonneg (ms : List K) (g : List (V3 K)) : 0 ≤ absS ms g := by
  have := wsumF_abs_le (f := V3.normSq) (h := V3.normSq) (c := 1)
    (fun p => by rw [abs_of_nonneg (normSq_nonneg p), one_mul]) ms g
  unfold absS
  linarith [abs_nonneg (wsumF V3.normSq ms g)]

theorem wsumF_normSq_le_absS (ms : List K) (g : List (V3 K)) : |wsumF V3.normSq ms g| ≤ absS ms g := by
  have := wsumF_abs_le (f := V3.normSq) (h := V3.normSq) (c := 1)
    (fun p => by rw [abs_of_nonneg (normSq_nonneg p), one_mul]) ms g
  unfold absS
  linarith

theorem wsumF_quad_le_absS {E : M3 K} {ε : K} (h : M3.maxAbs E ≤ ε) (ms : List K) (g : List (V3 K)) :
    |wsumF (quadE E) ms g| ≤ 3 * ε * absS ms g :=
  wsumF_abs_le (fun p => quad_bound h p) ms g

/-- non-negative masses: `absS` is half the trace of the inertia tensor -/
theorem absS_eq_half_trace {ms : List K} (hm : ∀ m ∈ ms, 0 ≤ m) (g : List (V3 K)) :
    2 * absS ms g = (inertia ms g).xx + (inertia ms g).yy + (inertia ms g).zz := by
  have : ms.map (fun m => |m|) = ms := by
    conv_rhs => rw [← List.map_id ms]
    apply List.map_congr_left
    intro m hmm; exact abs_of_nonneg (hm m hmm)
  rw [inertia_trace, absS, this]

/-- entries of the defect term: diagonal `≤ (3 εb + εa) S`, off-diagonal `≤ εa S` -/
theorem inertiaDefect_bound {V : M3 K} {εa εb : K} (ha : M3.maxAbs (E2 V) ≤ εa) (hb : M3.maxAbs (E1 V) ≤ εb)
    (ms : List K) (g : List (V3 K)) :
    let D := inertiaDefect ms g V
    let S := absS ms g
    |D.xx| ≤ (3 * εb + εa) * S ∧ |D.yy| ≤ (3 * εb + εa) * S ∧ |D.zz| ≤ (3 * εb + εa) * S ∧
    |D.xy| ≤ εa * S ∧ |D.xz| ≤ εa * S ∧ |D.yz| ≤ εa * S ∧ |D.yx| ≤ εa * S ∧ |D.zx| ≤ εa * S ∧ |D.zy| ≤ εa * S := by
  intro D S
  obtain ⟨a1, a2, a3, a4, a5, a6, a7, a8, a9⟩ := maxAbs_entries ha
  have hq := wsumF_quad_le_absS hb ms g
  have hs := wsumF_normSq_le_absS ms g
  have hS : 0 ≤ S := absS_nonneg ms g
  set q := wsumF (quadE (E1 V)) ms g with hqd
  set s := wsumF V3.normSq ms g with hsd
  have prod : ∀ e : K, |e| ≤ εa → |s * e| ≤ εa * S := by
    intro e he
    rw [abs_mul, mul_comm]
    exact mul_le_mul he hs (abs_nonneg _) (le_trans (abs_nonneg _) he)
  have dg : ∀ e : K, |e| ≤ εa → |q * 1 - s * e| ≤ (3 * εb + εa) * S := by
    intro e he
    have p1 := abs_le.mp (prod e he)
    have p2 := abs_le.mp hq
    rw [abs_le]; constructor <;> linarith [p1.1, p1.2, p2.1, p2.2]
  have od : ∀ e : K, |e| ≤ εa → |q * 0 - s * e| ≤ εa * S := by
    intro e he
    have p1 := abs_le.mp (prod e he)
    rw [abs_le]; constructor <;> linarith [p1.1, p1.2]
  refine ⟨?_, ?_, ?_, ?_, ?_, ?_, ?_, ?_, ?_⟩ <;>
    simp only [D, inertiaDefect, M3.sub, M3.smul, M3.one, ← hqd, ← hsd]
  · exact dg _ a1
  · exact dg _ a5
  · exact dg _ a9
  · exact od _ a2
  · exact od _ a3
  · exact od _ a6
  · exact od _ a4
  · exact od _ a7
  · exact od _ a8

theorem abs_pm_mul2 {a b : K} (ha : a = 1 ∨ a = -1) (hb : b = 1 ∨ b = -1) (x : K) : |a * b * x| = |x| := by
  rw [mul_assoc, abs_pm_mul ha, abs_pm_mul hb]


/-! ## 3. one row of a perturbed eigen-equation -/

/-- `(lᵢ - μ) wᵢ = Σ eₖ wₖ`, `|eₖ| ≤ β`, `|wₖ| ≤ |wᵢ| ≠ 0`  ⇒  `|lᵢ - μ| ≤ 3β` -/
theorem row_bound {li μ wi w1 w2 w3 e1 e2 e3 β : K}
    (hrow : (li - μ) * wi = e1 * w1 + e2 * w2 + e3 * w3)
    (h1 : |e1| ≤ β) (h2 : |e2| ≤ β) (h3 : |e3| ≤ β)
    (m1 : |w1| ≤ |wi|) (m2 : |w2| ≤ |wi|) (m3 : |w3| ≤ |wi|) (hpos : 0 < |wi|) : |li - μ| ≤ 3 * β := by
  have hβ : 0 ≤ β := le_trans (abs_nonneg _) h1
  have t : ∀ {e w : K}, |e| ≤ β → |w| ≤ |wi| → |e * w| ≤ β * |wi| := by
    intro e w he hw; rw [abs_mul]; exact mul_le_mul he hw (abs_nonneg _) hβ
  have t1 := abs_le.mp (t h1 m1); have t2 := abs_le.mp (t h2 m2); have t3 := abs_le.mp (t h3 m3)
  have key : |li - μ| * |wi| ≤ 3 * β * |wi| := by
    rw [← abs_mul, hrow, abs_le]
    constructor <;> linarith [t1.1, t1.2, t2.1, t2.2, t3.1, t3.2]
  exact le_of_mul_le_mul_right key hpos

theorem pert_entry_bound {μ g a εa ε₂ : K} (hg : |g| ≤ εa) (ha : |a| ≤ ε₂) : |μ * g - a| ≤ ε₂ + |μ| * εa := by
  have h1 : |μ * g| ≤ |μ| * εa := by rw [abs_mul]; exact mul_le_mul_of_nonneg_left hg (abs_nonneg _)
  have p1 := abs_le.mp h1; have p2 := abs_le.mp ha
  rw [abs_le]; constructor <;> linarith [p1.1, p1.2, p2.1, p2.2]

/-- a non-zero vector has a component of maximal, positive absolute value -/
theorem exists_max_comp {w : V3 K} (hw : w ≠ V3.zero) :
    (|w.y| ≤ |w.x| ∧ |w.z| ≤ |w.x| ∧ 0 < |w.x|) ∨ (|w.x| ≤ |w.y| ∧ |w.z| ≤ |w.y| ∧ 0 < |w.y|) ∨
    (|w.x| ≤ |w.z| ∧ |w.y| ≤ |w.z| ∧ 0 < |w.z|) := by
  have key : ∀ a b c : K, (b ≤ a ∧ c ≤ a) ∨ (a ≤ b ∧ c ≤ b) ∨ (a ≤ c ∧ b ≤ c) := by
    intro a b c
    rcases le_total a b with h1 | h1 <;> rcases le_total b c with h2 | h2 <;> rcases le_total a c with h3 | h3
    all_goals first
      | exact Or.inl ⟨by linarith, by linarith⟩
      | exact Or.inr (Or.inl ⟨by linarith, by linarith⟩)
      | exact Or.inr (Or.inr ⟨by linarith, by linarith⟩)
  have pos : ∀ {a b c : K}, |b| ≤ |a| → |c| ≤ |a| → (a = 0 → b = 0 → c = 0 → False) → 0 < |a| := by
    intro a b c hb hc hz
    by_contra hn
    have ha0 : |a| = 0 := le_antisymm (not_lt.mp hn) (abs_nonneg a)
    have hb0 : |b| = 0 := le_antisymm (by rw [← ha0]; exact hb) (abs_nonneg b)
    have hc0 : |c| = 0 := le_antisymm (by rw [← ha0]; exact hc) (abs_nonneg c)
    exact hz (abs_eq_zero.mp ha0) (abs_eq_zero.mp hb0) (abs_eq_zero.mp hc0)
  rcases key |w.x| |w.y| |w.z| with ⟨h1, h2⟩ | ⟨h1, h2⟩ | ⟨h1, h2⟩
  · exact Or.inl ⟨h1, h2, pos h1 h2 (fun a b c => hw (V3.ext' a b c))⟩
  · exact Or.inr (Or.inl ⟨h1, h2, pos h1 h2 (fun b a c => hw (V3.ext' a b c))⟩)
  · exact Or.inr (Or.inr ⟨h1, h2, pos h1 h2 (fun c a b => hw (V3.ext' a b c))⟩)

/-! ## 4. two approximate eigen-frames -/

omit [LinearOrder K] [IsStrictOrderedRing K] in
/-- **Intertwining with its defect** (pure ring identity; exact frames give `frame_intertwine`):
`L M - M L' = M E' - E M + Vᵀ(T-T')V' + Vᵀ T (VVᵀ-1) V' - Vᵀ (V'V'ᵀ-1) T' V'`,
`M = VᵀV'`, `E = VᵀTV - L`, `E' = V'ᵀT'V' - L'`. -/
theorem intertwine_defect (T T' V V' : M3 K) (a b c a' b' c' : K) :
    M3.sub (M3.mul (M3.diag a b c) (M3.mul (M3.tr V) V')) (M3.mul (M3.mul (M3.tr V) V') (M3.diag a' b' c')) =
      M3.add (M3.sub (M3.mul (M3.mul (M3.tr V) V') (M3.sub (sandwich V' T') (M3.diag a' b' c')))
                     (M3.mul (M3.sub (sandwich V T) (M3.diag a b c)) (M3.mul (M3.tr V) V')))
        (M3.add (M3.mul (M3.mul (M3.tr V) (M3.sub T T')) V')
          (M3.sub (M3.mul (M3.mul (M3.tr V) (M3.mul T (E1 V))) V') (M3.mul (M3.mul (M3.tr V) (M3.mul (E1 V') T')) V'))) := by
  apply M3.ext' <;>
    simp only [sandwich, E1, M3.mul, M3.tr, M3.sub, M3.add, M3.one, M3.diag] <;> ring

omit [LinearOrder K] [IsStrictOrderedRing K] in
/-- `(VᵀV')ᵀ(VᵀV') = V'ᵀV' + V'ᵀ(VVᵀ-1)V'` -/
theorem overlap_gram (V V' : M3 K) :
    M3.mul (M3.tr (M3.mul (M3.tr V) V')) (M3.mul (M3.tr V) V') =
      M3.add (M3.mul (M3.tr V') V') (M3.mul (M3.mul (M3.tr V') (E1 V)) V') := by
  apply M3.ext' <;> simp only [E1, M3.mul, M3.tr, M3.sub, M3.add, M3.one] <;> ring

omit [LinearOrder K] [IsStrictOrderedRing K] in
/-- `V' - V D = V (VᵀV' - D) - (VVᵀ-1) V'` -/
theorem frame_diff (V V' D : M3 K) :
    M3.sub V' (M3.mul V D) = M3.sub (M3.mul V (M3.sub (M3.mul (M3.tr V) V') D)) (M3.mul (E1 V) V') := by
  apply M3.ext' <;> simp only [E1, M3.mul, M3.tr, M3.sub, M3.one] <;> ring

theorem three_prod_bound {a1 a2 a3 b1 b2 b3 α β : K} (ha1 : |a1| ≤ α) (ha2 : |a2| ≤ α) (ha3 : |a3| ≤ α)
    (hb1 : |b1| ≤ β) (hb2 : |b2| ≤ β) (hb3 : |b3| ≤ β) : |a1 * b1 + a2 * b2 + a3 * b3| ≤ 3 * α * β := by
  have hα : 0 ≤ α := le_trans (abs_nonneg _) ha1
  have t : ∀ {a b : K}, |a| ≤ α → |b| ≤ β → |a * b| ≤ α * β := by
    intro a b h1 h2; rw [abs_mul]; exact mul_le_mul h1 h2 (abs_nonneg _) hα
  have t1 := abs_le.mp (t ha1 hb1); have t2 := abs_le.mp (t ha2 hb2); have t3 := abs_le.mp (t ha3 hb3)
  rw [abs_le]; constructor <;> linarith [t1.1, t1.2, t2.1, t2.2, t3.1, t3.2]

/-- max-entry norm of a product: `‖AB‖ ≤ 3‖A‖‖B‖` -/
theorem maxAbs_mul_le {A B : M3 K} {α β : K} (hA : M3.maxAbs A ≤ α) (hB : M3.maxAbs B ≤ β) :
    M3.maxAbs (M3.mul A B) ≤ 3 * α * β := by
  obtain ⟨a1, a2, a3, a4, a5, a6, a7, a8, a9⟩ := maxAbs_entries hA
  obtain ⟨b1, b2, b3, b4, b5, b6, b7, b8, b9⟩ := maxAbs_entries hB
  rw [maxAbs_le_iff]
  simp only [M3.mul]
  exact ⟨three_prod_bound a1 a2 a3 b1 b4 b7, three_prod_bound a1 a2 a3 b2 b5 b8, three_prod_bound a1 a2 a3 b3 b6 b9,
    three_prod_bound a4 a5 a6 b1 b4 b7, three_prod_bound a4 a5 a6 b2 b5 b8, three_prod_bound a4 a5 a6 b3 b6 b9,
    three_prod_bound a7 a8 a9 b1 b4 b7, three_prod_bound a7 a8 a9 b2 b5 b8, three_prod_bound a7 a8 a9 b3 b6 b9⟩

theorem maxAbs_add_le {A B : M3 K} {α β : K} (hA : M3.maxAbs A ≤ α) (hB : M3.maxAbs B ≤ β) :
    M3.maxAbs (M3.add A B) ≤ α + β := by
  obtain ⟨a1, a2, a3, a4, a5, a6, a7, a8, a9⟩ := maxAbs_entries hA
  obtain ⟨b1, b2, b3, b4, b5, b6, b7, b8, b9⟩ := maxAbs_entries hB
  rw [maxAbs_le_iff]
  simp only [M3.add]
  have t : ∀ {x y : K}, |x| ≤ α → |y| ≤ β → |x + y| ≤ α + β := fun h1 h2 => le_trans (abs_add_le _ _) (add_le_add h1 h2)
  exact ⟨t a1 b1, t a2 b2, t a3 b3, t a4 b4, t a5 b5, t a6 b6, t a7 b7, t a8 b8, t a9 b9⟩

theorem maxAbs_sub_le {A B : M3 K} {α β : K} (hA : M3.maxAbs A ≤ α) (hB : M3.maxAbs B ≤ β) :
    M3.maxAbs (M3.sub A B) ≤ α + β := by
  obtain ⟨a1, a2, a3, a4, a5, a6, a7, a8, a9⟩ := maxAbs_entries hA
  obtain ⟨b1, b2, b3, b4, b5, b6, b7, b8, b9⟩ := maxAbs_entries hB
  rw [maxAbs_le_iff]
  simp only [M3.sub]
  have t : ∀ {x y : K}, |x| ≤ α → |y| ≤ β → |x - y| ≤ α + β := by
    intro x y h1 h2
    have p1 := abs_le.mp h1; have p2 := abs_le.mp h2
    rw [abs_le]; constructor <;> linarith [p1.1, p1.2, p2.1, p2.2]
  exact ⟨t a1 b1, t a2 b2, t a3 b3, t a4 b4, t a5 b5, t a6 b6, t a7 b7, t a8 b8, t a9 b9⟩

/-- squared lengths of the columns of an approximately orthogonal matrix -/
theorem col_normSq_le {V : M3 K} {ε : K} (h : M3.maxAbs (E2 V) ≤ ε) :
    V3.normSq (M3.col0 V) ≤ 1 + ε ∧ V3.normSq (M3.col1 V) ≤ 1 + ε ∧ V3.normSq (M3.col2 V) ≤ 1 + ε := by
  obtain ⟨h1, -, -, -, h5, -, -, -, h9⟩ := maxAbs_entries h
  simp only [E2, M3.sub, M3.mul, M3.tr, M3.one] at h1 h5 h9
  have p1 := abs_le.mp h1; have p5 := abs_le.mp h5; have p9 := abs_le.mp h9
  simp only [V3.normSq, M3.col0, M3.col1, M3.col2]
  exact ⟨by linarith [p1.2], by linarith [p5.2], by linarith [p9.2]⟩

/-- `|x|² ≤ c`, `1 ≤ c` ⇒ `|x| ≤ c` -/
theorem abs_le_of_mul_self_le {x c : K} (h : x * x ≤ c) (hc : 1 ≤ c) : |x| ≤ c := by
  apply abs_le_of_sq_le_sq _ (by linarith)
  nlinarith

/-- entries of an approximately orthogonal matrix are at most `1 + ε` in absolute value -/
theorem maxAbs_le_of_cols {V : M3 K} {c : K} (hc : 1 ≤ c)
    (h0 : V3.normSq (M3.col0 V) ≤ c) (h1 : V3.normSq (M3.col1 V) ≤ c) (h2 : V3.normSq (M3.col2 V) ≤ c) :
    M3.maxAbs V ≤ c := by
  simp only [V3.normSq, M3.col0, M3.col1, M3.col2] at h0 h1 h2
  rw [maxAbs_le_iff]
  refine ⟨?_, ?_, ?_, ?_, ?_, ?_, ?_, ?_, ?_⟩ <;> apply abs_le_of_mul_self_le _ hc
  · nlinarith [mul_self_nonneg V.yx, mul_self_nonneg V.zx]
  · nlinarith [mul_self_nonneg V.yy, mul_self_nonneg V.zy]
  · nlinarith [mul_self_nonneg V.yz, mul_self_nonneg V.zz]
  · nlinarith [mul_self_nonneg V.xx, mul_self_nonneg V.zx]
  · nlinarith [mul_self_nonneg V.xy, mul_self_nonneg V.zy]
  · nlinarith [mul_self_nonneg V.xz, mul_self_nonneg V.zz]
  · nlinarith [mul_self_nonneg V.xx, mul_self_nonneg V.yx]
  · nlinarith [mul_self_nonneg V.xy, mul_self_nonneg V.yy]
  · nlinarith [mul_self_nonneg V.xz, mul_self_nonneg V.yz]

/-- `‖Vᵀ W V'‖ ≤ 3 ω c` when the columns of `V`, `V'` have squared length `≤ c` and `‖W‖ ≤ ω` -/
theorem sandwich2_bound {V V' W : M3 K} {ω c : K} (hW : M3.maxAbs W ≤ ω)
    (h0 : V3.normSq (M3.col0 V) ≤ c) (h1 : V3.normSq (M3.col1 V) ≤ c) (h2 : V3.normSq (M3.col2 V) ≤ c)
    (h0' : V3.normSq (M3.col0 V') ≤ c) (h1' : V3.normSq (M3.col1 V') ≤ c) (h2' : V3.normSq (M3.col2 V') ≤ c) :
    M3.maxAbs (M3.mul (M3.mul (M3.tr V) W) V') ≤ 3 * ω * c := by
  have e : M3.mul (M3.mul (M3.tr V) W) V' =
      ⟨V3.dot (V3.mulMat (M3.col0 V) W) (M3.col0 V'), V3.dot (V3.mulMat (M3.col0 V) W) (M3.col1 V'), V3.dot (V3.mulMat (M3.col0 V) W) (M3.col2 V'),
       V3.dot (V3.mulMat (M3.col1 V) W) (M3.col0 V'), V3.dot (V3.mulMat (M3.col1 V) W) (M3.col1 V'), V3.dot (V3.mulMat (M3.col1 V) W) (M3.col2 V'),
       V3.dot (V3.mulMat (M3.col2 V) W) (M3.col0 V'), V3.dot (V3.mulMat (M3.col2 V) W) (M3.col1 V'), V3.dot (V3.mulMat (M3.col2 V) W) (M3.col2 V')⟩ := by
    apply M3.ext' <;> simp only [M3.mul, M3.tr, V3.dot, V3.mulMat, M3.col0, M3.col1, M3.col2] <;> ring
  rw [e, maxAbs_le_iff]
  exact ⟨bilin_bound_c hW h0 h0', bilin_bound_c hW h0 h1', bilin_bound_c hW h0 h2',
    bilin_bound_c hW h1 h0', bilin_bound_c hW h1 h1', bilin_bound_c hW h1 h2',
    bilin_bound_c hW h2 h0', bilin_bound_c hW h2 h1', bilin_bound_c hW h2 h2'⟩

/-- the overlap matrix `VᵀV'` of two approximately orthogonal matrices has entries `≤ c` -/
theorem overlap_maxAbs {V V' : M3 K} {c : K}
    (h0 : V3.normSq (M3.col0 V) ≤ c) (h1 : V3.normSq (M3.col1 V) ≤ c) (h2 : V3.normSq (M3.col2 V) ≤ c)
    (h0' : V3.normSq (M3.col0 V') ≤ c) (h1' : V3.normSq (M3.col1 V') ≤ c) (h2' : V3.normSq (M3.col2 V') ≤ c) :
    M3.maxAbs (M3.mul (M3.tr V) V') ≤ c := by
  have e : M3.mul (M3.tr V) V' =
      ⟨V3.dot (M3.col0 V) (M3.col0 V'), V3.dot (M3.col0 V) (M3.col1 V'), V3.dot (M3.col0 V) (M3.col2 V'),
       V3.dot (M3.col1 V) (M3.col0 V'), V3.dot (M3.col1 V) (M3.col1 V'), V3.dot (M3.col1 V) (M3.col2 V'),
       V3.dot (M3.col2 V) (M3.col0 V'), V3.dot (M3.col2 V) (M3.col1 V'), V3.dot (M3.col2 V) (M3.col2 V')⟩ := by
    apply M3.ext' <;> simp only [M3.mul, M3.tr, V3.dot, M3.col0, M3.col1, M3.col2]
  have t : ∀ {u v : V3 K}, V3.normSq u ≤ c → V3.normSq v ≤ c → |V3.dot u v| ≤ c := by
    intro u v hu hv; have := dot_bound u v; linarith
  rw [e, maxAbs_le_iff]
  exact ⟨t h0 h0', t h0 h1', t h0 h2', t h1 h0', t h1 h1', t h1 h2', t h2 h0', t h2 h1', t h2 h2'⟩

/-- the sign of a number close to `±1`: `|m - sgn m| ≤ |m² - 1|` -/
theorem abs_sub_sign_le (m : K) : |m - (if 0 ≤ m then 1 else -1)| ≤ |m * m - 1| := by
  have f : m * m - 1 = (m - 1) * (m + 1) := by ring
  split_ifs with h
  · rw [f, abs_mul]
    have : 1 ≤ |m + 1| := by rw [abs_of_nonneg (by linarith)]; linarith
    nlinarith [abs_nonneg (m - 1)]
  · have hneg : m < 0 := not_le.mp h
    rw [f, abs_mul, sub_neg_eq_add]
    have : 1 ≤ |m - 1| := by rw [abs_of_neg (by linarith)]; linarith
    nlinarith [abs_nonneg (m + 1)]

/-- `|a·m| ≤ δ`, `0 < γ ≤ |a|`  ⇒  `|m| ≤ δ/γ` -/
theorem div_bound {a m δ γ : K} (h : |a * m| ≤ δ) (hg : γ ≤ |a|) (hγ : 0 < γ) : |m| ≤ δ / γ := by
  rw [le_div_iff₀ hγ]
  rw [abs_mul] at h
  calc |m| * γ ≤ |m| * |a| := mul_le_mul_of_nonneg_left hg (abs_nonneg m)
    _ = |a| * |m| := mul_comm _ _
    _ ≤ δ := h

theorem three_prod_bound3 {a1 a2 a3 b1 b2 b3 α β1 β2 β3 : K} (ha1 : |a1| ≤ α) (ha2 : |a2| ≤ α) (ha3 : |a3| ≤ α)
    (hb1 : |b1| ≤ β1) (hb2 : |b2| ≤ β2) (hb3 : |b3| ≤ β3) : |a1 * b1 + a2 * b2 + a3 * b3| ≤ α * (β1 + β2 + β3) := by
  have hα : 0 ≤ α := le_trans (abs_nonneg _) ha1
  have t : ∀ {a b β : K}, |a| ≤ α → |b| ≤ β → |a * b| ≤ α * β := by
    intro a b β h1 h2; rw [abs_mul]; exact mul_le_mul h1 h2 (abs_nonneg _) hα
  have t1 := abs_le.mp (t ha1 hb1); have t2 := abs_le.mp (t ha2 hb2); have t3 := abs_le.mp (t ha3 hb3)
  rw [abs_le]; constructor <;> linarith [t1.1, t1.2, t2.1, t2.2, t3.1, t3.2]

/-- product with a nearly diagonal-free matrix: diagonal entries of `N` at most `κ`, the others at most `η` -/
theorem mul_near_diag_bound {V N : M3 K} {c κ η : K} (hV : M3.maxAbs V ≤ c)
    (d1 : |N.xx| ≤ κ) (d2 : |N.yy| ≤ κ) (d3 : |N.zz| ≤ κ)
    (o1 : |N.xy| ≤ η) (o2 : |N.xz| ≤ η) (o3 : |N.yx| ≤ η) (o4 : |N.yz| ≤ η) (o5 : |N.zx| ≤ η) (o6 : |N.zy| ≤ η) :
    M3.maxAbs (M3.mul V N) ≤ c * (κ + 2 * η) := by
  obtain ⟨a1, a2, a3, a4, a5, a6, a7, a8, a9⟩ := maxAbs_entries hV
  rw [maxAbs_le_iff]
  simp only [M3.mul]
  have e1 : κ + 2 * η = κ + η + η := by ring
  have e2 : κ + 2 * η = η + κ + η := by ring
  have e3 : κ + 2 * η = η + η + κ := by ring
  refine ⟨?_, ?_, ?_, ?_, ?_, ?_, ?_, ?_, ?_⟩
  · rw [e1]; exact three_prod_bound3 a1 a2 a3 d1 o3 o5
  · rw [e2]; exact three_prod_bound3 a1 a2 a3 o1 d2 o6
  · rw [e3]; exact three_prod_bound3 a1 a2 a3 o2 o4 d3
  · rw [e1]; exact three_prod_bound3 a4 a5 a6 d1 o3 o5
  · rw [e2]; exact three_prod_bound3 a4 a5 a6 o1 d2 o6
  · rw [e3]; exact three_prod_bound3 a4 a5 a6 o2 o4 d3
  · rw [e1]; exact three_prod_bound3 a7 a8 a9 d1 o3 o5
  · rw [e2]; exact three_prod_bound3 a7 a8 a9 o1 d2 o6
  · rw [e3]; exact three_prod_bound3 a7 a8 a9 o2 o4 d3

/-- a diagonal entry of `M` from the Gram identity: `m² = 1 + g + s - p² - q²` with `|g| ≤ ε`, `|s| ≤ σ`, `|p|,|q| ≤ η` -/
theorem diag_from_gram {m p q g s ε σ η : K} (h : m * m + p * p + q * q = (1 + g) + s)
    (hg : |g| ≤ ε) (hs : |s| ≤ σ) (hp : |p| ≤ η) (hq : |q| ≤ η) :
    |m - (if 0 ≤ m then 1 else -1)| ≤ ε + σ + 2 * (η * η) := by
  refine le_trans (abs_sub_sign_le m) ?_
  have hp2 : p * p ≤ η * η := by
    have := abs_le.mp hp; nlinarith [abs_nonneg p]
  have hq2 : q * q ≤ η * η := by
    have := abs_le.mp hq; nlinarith [abs_nonneg q]
  have pg := abs_le.mp hg; have ps := abs_le.mp hs
  rw [abs_le]; constructor <;> nlinarith [mul_self_nonneg p, mul_self_nonneg q]

end Ordered

end QcelVerif.Orient
