import QcelVerif.Lemmas.Kabsch
import Mathlib.Analysis.Real.Sqrt
import Mathlib.Tactic.FieldSimp
/-!
# Surjectivity of unit quaternions onto SO(3)  (used by `Props/C12Full.lean`)

Every proper rotation `R` (`R·Rᵀ = I`, `det R = +1`) over ℝ — more generally over every linearly ordered
field in which positive elements have square roots — is `quatRot q` for a unit quaternion `q`, where
`quatRot` is *exactly* the matrix the implementation writes at align.py:542-552 (`Model/Kabsch.lean`).

Route (Shepperd / Cayley, without case-specific algebra):

1. `rot_facts`      : from `R·Rᵀ = I` and `det R = 1` derive that every entry equals its cofactor
                      (`R = cof R`) and the column relations `Rᵀ·R = I` (21 quadratic equations).
2. `Nmat R`         : the symmetric 4×4 matrix that equals `4·q qᵀ` when `R = U(q)`, `|q|² = 1`
                      (diagonal `1 ± R₀₀ ± R₁₁ ± R₂₂`, off-diagonal sums/differences of `R`'s off-diagonals).
   `Nmat_rank1`     : for a proper rotation all eighteen "rank-one" relations `N_ab·N_ac = N_aa·N_bc` hold
                      (each is a constant-coefficient combination of the 21 equations of step 1).
3. `outer_of_column`: if a column `v` of `N` and `n = N_aa` satisfy `v_b v_c = n·N_bc` and `4t²n = 1`, then
                      `q = t·v` has `4·q_b q_c = N_bc` for all ten entries (`IsOuter N q`).
4. `quatRot_of_outer`: `IsOuter (Nmat R) q` gives `|q|² = 1` and `quatRot q = R` (linear in the ten equations).
5. `tr (Nmat R) = 4`, so some diagonal entry is positive; take `t = 1/(2√N_aa)`.
-/
namespace QcelVerif.Kabsch
variable {K : Type}

section Ring
variable [CommRing K]

/-- the 21 quadratic relations satisfied by the entries of a proper rotation -/
structure RotFacts (R : M3 K) : Prop where
  r00 : R.a00 * R.a00 + R.a01 * R.a01 + R.a02 * R.a02 = 1
  r11 : R.a10 * R.a10 + R.a11 * R.a11 + R.a12 * R.a12 = 1
  r22 : R.a20 * R.a20 + R.a21 * R.a21 + R.a22 * R.a22 = 1
  r01 : R.a00 * R.a10 + R.a01 * R.a11 + R.a02 * R.a12 = 0
  r02 : R.a00 * R.a20 + R.a01 * R.a21 + R.a02 * R.a22 = 0
  r12 : R.a10 * R.a20 + R.a11 * R.a21 + R.a12 * R.a22 = 0
  c00 : R.a00 * R.a00 + R.a10 * R.a10 + R.a20 * R.a20 = 1
  c11 : R.a01 * R.a01 + R.a11 * R.a11 + R.a21 * R.a21 = 1
  c22 : R.a02 * R.a02 + R.a12 * R.a12 + R.a22 * R.a22 = 1
  c01 : R.a00 * R.a01 + R.a10 * R.a11 + R.a20 * R.a21 = 0
  c02 : R.a00 * R.a02 + R.a10 * R.a12 + R.a20 * R.a22 = 0
  c12 : R.a01 * R.a02 + R.a11 * R.a12 + R.a21 * R.a22 = 0
  k00 : R.a00 = R.a11 * R.a22 - R.a12 * R.a21
  k01 : R.a01 = R.a12 * R.a20 - R.a10 * R.a22
  k02 : R.a02 = R.a10 * R.a21 - R.a11 * R.a20
  k10 : R.a10 = R.a02 * R.a21 - R.a01 * R.a22
  k11 : R.a11 = R.a00 * R.a22 - R.a02 * R.a20
  k12 : R.a12 = R.a01 * R.a20 - R.a00 * R.a21
  k20 : R.a20 = R.a01 * R.a12 - R.a02 * R.a11
  k21 : R.a21 = R.a02 * R.a10 - R.a00 * R.a12
  k22 : R.a22 = R.a00 * R.a11 - R.a01 * R.a10

/-- a proper rotation is its own cofactor matrix (nine equations), from `R·Rᵀ = I` and `det R = 1` -/
theorem cofactor_eqs (R : M3 K) (ho : R.mul R.transpose = M3.one) (hd : R.det = 1) :
    R.a00 = R.a11 * R.a22 - R.a12 * R.a21 ∧ R.a01 = R.a12 * R.a20 - R.a10 * R.a22
    ∧ R.a02 = R.a10 * R.a21 - R.a11 * R.a20 ∧ R.a10 = R.a02 * R.a21 - R.a01 * R.a22
    ∧ R.a11 = R.a00 * R.a22 - R.a02 * R.a20 ∧ R.a12 = R.a01 * R.a20 - R.a00 * R.a21
    ∧ R.a20 = R.a01 * R.a12 - R.a02 * R.a11 ∧ R.a21 = R.a02 * R.a10 - R.a00 * R.a12
    ∧ R.a22 = R.a00 * R.a11 - R.a01 * R.a10 := by
  obtain ⟨a, b, c, d, e, f, g, h, i⟩ := R
  simp only [M3.ext_iff, M3.mul, M3.transpose, M3.one] at ho
  simp only [M3.det] at hd
  obtain ⟨h00, h01, h02, h10, h11, h12, h20, h21, h22⟩ := ho
  -- R_mn − C_mn = Σ_k C_kn·((RRᵀ)_km − δ_km) − R_mn·(det R − 1)
  refine ⟨?_, ?_, ?_, ?_, ?_, ?_, ?_, ?_, ?_⟩
  · linear_combination (e * i - f * h) * h00 + (c * h - b * i) * h10 + (b * f - c * e) * h20 - a * hd
  · linear_combination (f * g - d * i) * h00 + (a * i - c * g) * h10 + (c * d - a * f) * h20 - b * hd
  · linear_combination (d * h - e * g) * h00 + (b * g - a * h) * h10 + (a * e - b * d) * h20 - c * hd
  · linear_combination (e * i - f * h) * h01 + (c * h - b * i) * h11 + (b * f - c * e) * h21 - d * hd
  · linear_combination (f * g - d * i) * h01 + (a * i - c * g) * h11 + (c * d - a * f) * h21 - e * hd
  · linear_combination (d * h - e * g) * h01 + (b * g - a * h) * h11 + (a * e - b * d) * h21 - f * hd
  · linear_combination (e * i - f * h) * h02 + (c * h - b * i) * h12 + (b * f - c * e) * h22 - g * hd
  · linear_combination (f * g - d * i) * h02 + (a * i - c * g) * h12 + (c * d - a * f) * h22 - h * hd
  · linear_combination (d * h - e * g) * h02 + (b * g - a * h) * h12 + (a * e - b * d) * h22 - i * hd

/-- all 21 relations -/
theorem rot_facts (R : M3 K) (ho : R.mul R.transpose = M3.one) (hd : R.det = 1) : RotFacts R := by
  obtain ⟨k00, k01, k02, k10, k11, k12, k20, k21, k22⟩ := cofactor_eqs R ho hd
  obtain ⟨a, b, c, d, e, f, g, h, i⟩ := R
  simp only [M3.ext_iff, M3.mul, M3.transpose, M3.one] at ho
  simp only [M3.det] at hd
  obtain ⟨h00, h01, h02, h10, h11, h12, h20, h21, h22⟩ := ho
  simp only at k00 k01 k02 k10 k11 k12 k20 k21 k22
  refine ⟨h00, h11, h22, h01, h02, h12, ?_, ?_, ?_, ?_, ?_, ?_, k00, k01, k02, k10, k11, k12, k20, k21, k22⟩
  -- (RᵀR)_ij = Σ_k (R_ki − C_ki)·R_kj + det R·δ_ij
  · show a * a + d * d + g * g = 1
    linear_combination a * k00 + d * k10 + g * k20 + hd
  · show b * b + e * e + h * h = 1
    linear_combination b * k01 + e * k11 + h * k21 + hd
  · show c * c + f * f + i * i = 1
    linear_combination c * k02 + f * k12 + i * k22 + hd
  · show a * b + d * e + g * h = 0
    linear_combination b * k00 + e * k10 + h * k20
  · show a * c + d * f + g * i = 0
    linear_combination c * k00 + f * k10 + i * k20
  · show b * c + e * f + h * i = 0
    linear_combination c * k01 + f * k11 + i * k21

/-- **columns are orthonormal too**: `R·Rᵀ = I ∧ det R = 1 → Rᵀ·R = I` -/
theorem transpose_mul_of_rot (R : M3 K) (ho : R.mul R.transpose = M3.one) (hd : R.det = 1) :
    R.transpose.mul R = M3.one := by
  have F := rot_facts R ho hd
  ext <;> simp only [M3.mul, M3.transpose, M3.one]
  · exact F.c00
  · exact F.c01
  · exact F.c02
  · linear_combination F.c01
  · exact F.c11
  · exact F.c12
  · linear_combination F.c02
  · linear_combination F.c12
  · exact F.c22

/-- the symmetric 4×4 matrix that equals `4·q qᵀ` when `R = quatRot q`, `|q|² = 1` (Shepperd's table) -/
def Nmat (R : M3 K) : S4 K where
  f00 := 1 + R.a00 + R.a11 + R.a22
  f11 := 1 + R.a00 - R.a11 - R.a22
  f22 := 1 - R.a00 + R.a11 - R.a22
  f33 := 1 - R.a00 - R.a11 + R.a22
  f01 := R.a21 - R.a12
  f02 := R.a02 - R.a20
  f03 := R.a10 - R.a01
  f12 := R.a01 + R.a10
  f13 := R.a02 + R.a20
  f23 := R.a12 + R.a21

/-- sanity: for `R = quatRot q` the table is `4·q qᵀ + (|q|²-1)`-corrections; with `|q|² = 1` exactly `4 q qᵀ` -/
theorem Nmat_quatRot (q : Q4 K) (h : q.nrm2 = 1) :
    Nmat (quatRot q) = ⟨4 * q.q0 ^ 2, 4 * (q.q0 * q.q1), 4 * (q.q0 * q.q2), 4 * (q.q0 * q.q3), 4 * q.q1 ^ 2,
      4 * (q.q1 * q.q2), 4 * (q.q1 * q.q3), 4 * q.q2 ^ 2, 4 * (q.q2 * q.q3), 4 * q.q3 ^ 2⟩ := by
  simp only [Q4.nrm2] at h
  ext <;> simp only [Nmat, quatRot]
  · linear_combination (-1 : K) * h
  · ring
  · ring
  · ring
  · linear_combination (-1 : K) * h
  · ring
  · ring
  · linear_combination (-1 : K) * h
  · ring
  · linear_combination (-1 : K) * h

/-- the eighteen rank-one relations `N_ab·N_ac = N_aa·N_bc` of a symmetric 4×4 matrix -/
structure Rank1 (N : S4 K) : Prop where
  s01 : N.f01 * N.f01 = N.f00 * N.f11
  s02 : N.f02 * N.f02 = N.f00 * N.f22
  s03 : N.f03 * N.f03 = N.f00 * N.f33
  s12 : N.f12 * N.f12 = N.f11 * N.f22
  s13 : N.f13 * N.f13 = N.f11 * N.f33
  s23 : N.f23 * N.f23 = N.f22 * N.f33
  t0_12 : N.f01 * N.f02 = N.f00 * N.f12
  t0_13 : N.f01 * N.f03 = N.f00 * N.f13
  t0_23 : N.f02 * N.f03 = N.f00 * N.f23
  t1_02 : N.f01 * N.f12 = N.f11 * N.f02
  t1_03 : N.f01 * N.f13 = N.f11 * N.f03
  t1_23 : N.f12 * N.f13 = N.f11 * N.f23
  t2_01 : N.f02 * N.f12 = N.f22 * N.f01
  t2_03 : N.f02 * N.f23 = N.f22 * N.f03
  t2_13 : N.f12 * N.f23 = N.f22 * N.f13
  t3_01 : N.f03 * N.f13 = N.f33 * N.f01
  t3_02 : N.f03 * N.f23 = N.f33 * N.f02
  t3_12 : N.f13 * N.f23 = N.f33 * N.f12

/-- `4·q_b·q_c = N_bc` for all ten entries: `N = 4·q qᵀ` -/
def IsOuter (N : S4 K) (q : Q4 K) : Prop :=
  4 * (q.q0 * q.q0) = N.f00 ∧ 4 * (q.q0 * q.q1) = N.f01 ∧ 4 * (q.q0 * q.q2) = N.f02
  ∧ 4 * (q.q0 * q.q3) = N.f03 ∧ 4 * (q.q1 * q.q1) = N.f11 ∧ 4 * (q.q1 * q.q2) = N.f12
  ∧ 4 * (q.q1 * q.q3) = N.f13 ∧ 4 * (q.q2 * q.q2) = N.f22 ∧ 4 * (q.q2 * q.q3) = N.f23
  ∧ 4 * (q.q3 * q.q3) = N.f33

/-- scaling a "column" `v` with `v_b·v_c = n·N_bc` by `t`, `4t²n = 1`, gives `q` with `N = 4 q qᵀ` -/
theorem outer_of_column (N : S4 K) (v : Q4 K) (n t : K) (ht : 4 * t ^ 2 * n = 1)
    (c00 : v.q0 * v.q0 = n * N.f00) (c01 : v.q0 * v.q1 = n * N.f01) (c02 : v.q0 * v.q2 = n * N.f02)
    (c03 : v.q0 * v.q3 = n * N.f03) (c11 : v.q1 * v.q1 = n * N.f11) (c12 : v.q1 * v.q2 = n * N.f12)
    (c13 : v.q1 * v.q3 = n * N.f13) (c22 : v.q2 * v.q2 = n * N.f22) (c23 : v.q2 * v.q3 = n * N.f23)
    (c33 : v.q3 * v.q3 = n * N.f33) :
    IsOuter N ⟨t * v.q0, t * v.q1, t * v.q2, t * v.q3⟩ := by
  refine ⟨?_, ?_, ?_, ?_, ?_, ?_, ?_, ?_, ?_, ?_⟩
  · linear_combination 4 * t ^ 2 * c00 + N.f00 * ht
  · linear_combination 4 * t ^ 2 * c01 + N.f01 * ht
  · linear_combination 4 * t ^ 2 * c02 + N.f02 * ht
  · linear_combination 4 * t ^ 2 * c03 + N.f03 * ht
  · linear_combination 4 * t ^ 2 * c11 + N.f11 * ht
  · linear_combination 4 * t ^ 2 * c12 + N.f12 * ht
  · linear_combination 4 * t ^ 2 * c13 + N.f13 * ht
  · linear_combination 4 * t ^ 2 * c22 + N.f22 * ht
  · linear_combination 4 * t ^ 2 * c23 + N.f23 * ht
  · linear_combination 4 * t ^ 2 * c33 + N.f33 * ht

/-- the four choices of column (Shepperd's four branches), once and for all for a rank-one `N` -/
theorem outer_col0 (N : S4 K) (h : Rank1 N) (t : K) (ht : 4 * t ^ 2 * N.f00 = 1) :
    IsOuter N ⟨t * N.f00, t * N.f01, t * N.f02, t * N.f03⟩ :=
  outer_of_column N ⟨N.f00, N.f01, N.f02, N.f03⟩ N.f00 t ht rfl rfl rfl rfl h.s01 h.t0_12 h.t0_13 h.s02
    h.t0_23 h.s03

theorem outer_col1 (N : S4 K) (h : Rank1 N) (t : K) (ht : 4 * t ^ 2 * N.f11 = 1) :
    IsOuter N ⟨t * N.f01, t * N.f11, t * N.f12, t * N.f13⟩ :=
  outer_of_column N ⟨N.f01, N.f11, N.f12, N.f13⟩ N.f11 t ht (by rw [h.s01]; ring) (by ring) h.t1_02 h.t1_03
    rfl rfl rfl h.s12 h.t1_23 h.s13

theorem outer_col2 (N : S4 K) (h : Rank1 N) (t : K) (ht : 4 * t ^ 2 * N.f22 = 1) :
    IsOuter N ⟨t * N.f02, t * N.f12, t * N.f22, t * N.f23⟩ :=
  outer_of_column N ⟨N.f02, N.f12, N.f22, N.f23⟩ N.f22 t ht (by rw [h.s02]; ring) h.t2_01 (by ring) h.t2_03
    (by rw [h.s12]; ring) (by ring) h.t2_13 rfl rfl h.s23

theorem outer_col3 (N : S4 K) (h : Rank1 N) (t : K) (ht : 4 * t ^ 2 * N.f33 = 1) :
    IsOuter N ⟨t * N.f03, t * N.f13, t * N.f23, t * N.f33⟩ :=
  outer_of_column N ⟨N.f03, N.f13, N.f23, N.f33⟩ N.f33 t ht (by rw [h.s03]; ring) h.t3_01 h.t3_02 (by ring)
    (by rw [h.s13]; ring) h.t3_12 (by ring) (by rw [h.s23]; ring) (by ring) rfl

end Ring

section Ordered
variable [Field K] [LinearOrder K] [IsStrictOrderedRing K]

/-- **the table of a proper rotation has rank one**: all eighteen relations, each a constant-coefficient
    combination of the 21 relations of `rot_facts` -/
theorem Nmat_rank1 (R : M3 K) (ho : R.mul R.transpose = M3.one) (hd : R.det = 1) : Rank1 (Nmat R) := by
  obtain ⟨r00, r11, r22, r01, r02, r12, c00, c11, c22, c01, c02, c12, k00, k01, k02, k10, k11, k12, k20, k21,
    k22⟩ := rot_facts R ho hd
  constructor <;> simp only [Nmat] <;> linarith

/-- `N = 4 q qᵀ` for the table of `R` gives back `|q|² = 1` and `quatRot q = R` (nine entries) -/
theorem quatRot_of_outer (R : M3 K) (q : Q4 K) (h : IsOuter (Nmat R) q) : q.nrm2 = 1 ∧ quatRot q = R := by
  obtain ⟨h00, h01, h02, h03, h11, h12, h13, h22, h23, h33⟩ := h
  simp only [Nmat] at h00 h01 h02 h03 h11 h12 h13 h22 h23 h33
  refine ⟨?_, ?_⟩
  · simp only [Q4.nrm2]; linear_combination (h00 + h11 + h22 + h33) / 4
  · ext <;> simp only [quatRot]
    · linear_combination (h00 + h11 - h22 - h33) / 4
    · linear_combination (h12 - h03) / 2
    · linear_combination (h13 + h02) / 2
    · linear_combination (h12 + h03) / 2
    · linear_combination (h00 - h11 + h22 - h33) / 4
    · linear_combination (h23 - h01) / 2
    · linear_combination (h13 - h02) / 2
    · linear_combination (h23 + h01) / 2
    · linear_combination (h00 - h11 - h22 + h33) / 4

theorem exists_scale (hsqrt : ∀ x : K, 0 < x → ∃ s : K, s * s = x) (n : K) (hn : 0 < n) :
    ∃ t : K, 4 * t ^ 2 * n = 1 := by
  obtain ⟨s, hs⟩ := hsqrt n hn
  have hs0 : s ≠ 0 := by
    rintro rfl
    rw [mul_zero] at hs
    exact (ne_of_gt hn) hs.symm
  refine ⟨1 / (2 * s), ?_⟩
  rw [← hs]
  field_simp
  ring

/-- **surjectivity of unit quaternions onto the proper rotations**, over every linearly ordered field in
    which positive elements have square roots -/
theorem quatRot_surjective_of_sqrt (hsqrt : ∀ x : K, 0 < x → ∃ s : K, s * s = x) (R : M3 K)
    (ho : R.mul R.transpose = M3.one) (hd : R.det = 1) : ∃ q : Q4 K, q.nrm2 = 1 ∧ quatRot q = R := by
  have hr := Nmat_rank1 R ho hd
  have hsum : (Nmat R).f00 + (Nmat R).f11 + (Nmat R).f22 + (Nmat R).f33 = 4 := by
    simp only [Nmat]; ring
  by_cases h0 : 0 < (Nmat R).f00
  · obtain ⟨t, ht⟩ := exists_scale hsqrt _ h0
    exact ⟨_, quatRot_of_outer R _ (outer_col0 _ hr t ht)⟩
  by_cases h1 : 0 < (Nmat R).f11
  · obtain ⟨t, ht⟩ := exists_scale hsqrt _ h1
    exact ⟨_, quatRot_of_outer R _ (outer_col1 _ hr t ht)⟩
  by_cases h2 : 0 < (Nmat R).f22
  · obtain ⟨t, ht⟩ := exists_scale hsqrt _ h2
    exact ⟨_, quatRot_of_outer R _ (outer_col2 _ hr t ht)⟩
  by_cases h3 : 0 < (Nmat R).f33
  · obtain ⟨t, ht⟩ := exists_scale hsqrt _ h3
    exact ⟨_, quatRot_of_outer R _ (outer_col3 _ hr t ht)⟩
  exfalso
  have := not_lt.mp h0; have := not_lt.mp h1; have := not_lt.mp h2; have := not_lt.mp h3
  linarith

end Ordered

/-- **every proper rotation over ℝ is `quatRot q` for a unit quaternion `q`** -/
theorem quatRot_surjective (R : M3 ℝ) (ho : R.mul R.transpose = M3.one) (hd : R.det = 1) :
    ∃ q : Q4 ℝ, q.nrm2 = 1 ∧ quatRot q = R :=
  quatRot_surjective_of_sqrt (fun x hx => ⟨Real.sqrt x, Real.mul_self_sqrt hx.le⟩) R ho hd

end QcelVerif.Kabsch
