import QcelVerif.Model.ChgMultAst
import QcelVerif.Lemmas.ChgMult
/-!
Helper lemmas about the evaluator of `Model/ChgMultAst.lean` (generic: nothing here mentions the generated terms).
-/
namespace QcelVerif.ChgMult.Ast
open QcelVerif.ChgMult

/-- all of `g 0 … g (n-1)` -/
def allN (n : Nat) (g : Nat → Bool) : Bool := (List.range n).all g

theorem allN_iff (n : Nat) (g : Nat → Bool) : allN n g = true ↔ ∀ k, k < n → g k = true := by
  simp [allN, List.all_eq_true, List.mem_range]

theorem allN_succ (n : Nat) (g : Nat → Bool) : allN (n + 1) g = (g 0 && allN n (fun k => g (k + 1))) := by
  simp [allN, List.range_succ_eq_map, List.all_map, Function.comp_def]

theorem optAllN_some : ∀ (n : Nat) (f : Nat → Option Bool) (g : Nat → Bool),
    (∀ k, k < n → f k = some (g k)) → optAllN n f = some (allN n g)
  | 0, _, _, _ => by simp [optAllN, allN]
  | n + 1, f, g, h => by
      have ih := optAllN_some n (fun k => f (k + 1)) (fun k => g (k + 1))
        (fun k hk => h (k + 1) (by omega))
      simp [optAllN, h 0 (by omega), ih, allN_succ]

theorem optTab_some {α β} : ∀ (l : List α) (f : Nat → Option β) (g : α → β),
    (∀ k (hk : k < l.length), f k = some (g l[k])) → optTab l.length f = some (l.map g)
  | [], _, _, _ => by simp [optTab]
  | x :: t, f, g, h => by
      have ih := optTab_some t (fun k => f (k + 1)) g
        (fun k hk => by
          have := h (k + 1) (by simp; omega)
          rw [List.getElem_cons_succ] at this
          exact this)
      have h0 := h 0 (by simp)
      simp at h0
      simp [optTab, h0, ih]

theorem optMap_some {α β} : ∀ (l : List α) (f : α → Option β) (g : α → β),
    (∀ x, x ∈ l → f x = some (g x)) → optMap l f = some (l.map g)
  | [], _, _, _ => by simp [optMap]
  | x :: t, f, g, h => by
      have ih := optMap_some t f g (fun y hy => h y (List.mem_cons_of_mem _ hy))
      simp [optMap, h x (List.mem_cons_self ..), ih]

theorem optAll_some {α} : ∀ (l : List α) (f : α → Option Bool) (g : α → Bool),
    (∀ x, x ∈ l → f x = some (g x)) → optAll l f = some (l.all g)
  | [], _, _, _ => by simp [optAll]
  | x :: t, f, g, h => by
      have ih := optAll_some t f g (fun y hy => h y (List.mem_cons_of_mem _ hy))
      have hx := h x (List.mem_cons_self ..)
      cases hg : g x <;> simp [optAll, hx, hg, ih]

theorem optAny_some {α} : ∀ (l : List α) (f : α → Option Bool) (g : α → Bool),
    (∀ x, x ∈ l → f x = some (g x)) → optAny l f = some (l.any g)
  | [], _, _, _ => by simp [optAny]
  | x :: t, f, g, h => by
      have ih := optAny_some t f g (fun y hy => h y (List.mem_cons_of_mem _ hy))
      have hx := h x (List.mem_cons_self ..)
      cases hg : g x <;> simp [optAny, hx, hg, ih]

@[simp] theorem optNth_natCast {α} (l : List α) (k : Nat) : optNth l (k : Int) = l[k]? := by
  simp [optNth]

theorem getElem?_eq_some_getD {α} (l : List α) (k : Nat) (d : α) (h : k < l.length) :
    l[k]? = some (l.getD k d) := by
  simp [List.getD_eq_getElem?_getD, List.getElem?_eq_getElem h]

theorem getD_of_getElem? {α} (l : List α) (k : Nat) (d x : α) (h : l[k]? = some x) : l.getD k d = x := by
  simp [List.getD_eq_getElem?_getD, h]

theorem pyMod_two (x : Int) : pyMod x 2 = some (x % 2) := by
  have : Int.fmod x 2 = x % 2 := Int.fmod_eq_emod_of_nonneg x (by omega)
  simp [pyMod, this]

theorem isum_append (a b : List Int) : isum (a ++ b) = isum a + isum b := by
  induction a with
  | nil => simp
  | cons x t ih => simp [ih]; omega

theorem isum_flatten (l : List (List Int)) : isum l.flatten = isum (l.map isum) := by
  induction l with
  | nil => rfl
  | cons x t ih => simp [isum_append, ih]

/-- a search whose assessments never raise is `List.find?` -/
theorem searchFirst_eq_find (p : Out → Option Bool) (q : Out → Bool) :
    ∀ (l : List Out), (∀ o, o ∈ l → p o = some (q o)) →
      searchFirst p l = match l.find? q with | some o => .ok o | none => .error .validation
  | [], _ => rfl
  | o :: t, h => by
      have ih := searchFirst_eq_find p q t (fun x hx => h x (List.mem_cons_of_mem _ hx))
      have ho := h o (List.mem_cons_self ..)
      cases hq : q o <;> simp [searchFirst, ho, hq, ih, List.find?]

/-- every member of a cartesian product picks one element per list -/
theorem length_of_mem_prod : ∀ (ls : List (List Int)) (x : List Int), x ∈ prod ls → x.length = ls.length
  | [], x, h => by simp [prod] at h; simp [h]
  | l :: ls, x, h => by
      simp only [prod, List.mem_flatMap, List.mem_map] at h
      obtain ⟨a, _, t, ht, rfl⟩ := h
      simp [length_of_mem_prod ls t ht]

theorem evalRulesLazy_of_evalRules (env : Env) : ∀ (rs : List RuleItem) (b : Bool),
    evalRules env rs = some b → evalRulesLazy env rs = some b
  | [], b, h => by simpa [evalRules, evalRulesLazy] using h
  | r :: rs, b, h => by
      simp only [evalRules] at h
      cases hr : evalItem env r with
      | none => simp [hr] at h
      | some a =>
        cases hs : evalRules env rs with
        | none => simp [hr, hs] at h
        | some b' =>
          simp [hr, hs] at h
          have ih := evalRulesLazy_of_evalRules env rs b' hs
          cases a <;> simp_all [evalRulesLazy]

theorem pyRange_succ (lo hi : Int) : pyRange lo (hi + 1) = irange lo hi := rfl

end QcelVerif.ChgMult.Ast

namespace QcelVerif.ChgMult.Ast
theorem exists_getD {α} (l : List α) (k : Nat) (d : α) (h : k < l.length) :
    ∃ x, l[k]? = some x ∧ l.getD k d = x := ⟨_, getElem?_eq_some_getD l k d h, rfl⟩
end QcelVerif.ChgMult.Ast
