import QcelVerif.Lemmas.Formula
/-!
Helper lemmas for the string (`List Char`) level of the formula model (C15 extension):
ASCII character classes as `Nat` ranges, decimal digits of a `Nat`, the regex cuts
`cutUpper` (`re.findall(r"[A-Z][^A-Z]*", ·)`) and `splitCount` (`re.match(r"(\D+)(\d*)", ·)`) on
rendered chunks, `str.title()` on well-formed symbols, and the dictionary fold `addCount`.
Nothing here is a property statement (those are in `Props/C15FormulaStr.lean`).
-/
namespace QcelVerif.Formula

/-! ### character classes as ranges of code points -/

theorem upper_iff (c : Char) : isAsciiUpper c = true ↔ 65 ≤ c.toNat ∧ c.toNat ≤ 90 := by
  simp only [isAsciiUpper, Bool.and_eq_true, decide_eq_true_eq, Char.le_def, UInt32.le_iff_toNat_le]
  exact Iff.rfl

theorem lower_iff (c : Char) : isAsciiLower c = true ↔ 97 ≤ c.toNat ∧ c.toNat ≤ 122 := by
  simp only [isAsciiLower, Bool.and_eq_true, decide_eq_true_eq, Char.le_def, UInt32.le_iff_toNat_le]
  exact Iff.rfl

theorem digit_iff (c : Char) : isAsciiDigit c = true ↔ 48 ≤ c.toNat ∧ c.toNat ≤ 57 := by
  simp only [isAsciiDigit, Bool.and_eq_true, decide_eq_true_eq, Char.le_def, UInt32.le_iff_toNat_le]
  exact Iff.rfl

theorem coreDigit_iff (c : Char) : c.isDigit = true ↔ 48 ≤ c.toNat ∧ c.toNat ≤ 57 := by
  simp only [Char.isDigit, Bool.and_eq_true, decide_eq_true_eq, ge_iff_le, UInt32.le_iff_toNat_le]
  exact Iff.rfl

theorem bool_false_of_not {b : Bool} (h : ¬ b = true) : b = false := by
  cases b <;> simp_all

theorem not_upper_of_digit {c : Char} (h : isAsciiDigit c = true) : isAsciiUpper c = false := by
  apply bool_false_of_not
  rw [upper_iff]; rw [digit_iff] at h; omega

theorem not_upper_of_lower {c : Char} (h : isAsciiLower c = true) : isAsciiUpper c = false := by
  apply bool_false_of_not
  rw [upper_iff]; rw [lower_iff] at h; omega

theorem not_lower_of_upper {c : Char} (h : isAsciiUpper c = true) : isAsciiLower c = false := by
  apply bool_false_of_not
  rw [lower_iff]; rw [upper_iff] at h; omega

theorem not_digit_of_upper {c : Char} (h : isAsciiUpper c = true) : isAsciiDigit c = false := by
  apply bool_false_of_not
  rw [digit_iff]; rw [upper_iff] at h; omega

theorem not_digit_of_lower {c : Char} (h : isAsciiLower c = true) : isAsciiDigit c = false := by
  apply bool_false_of_not
  rw [digit_iff]; rw [lower_iff] at h; omega

/-! ### decimal digits -/

theorem digitChar_toNat : ∀ d : Nat, d < 10 → (Nat.digitChar d).toNat = 48 + d := by decide

theorem digitsVal_append_single (l : List Char) (c : Char) :
    digitsVal (l ++ [c]) = digitsVal l * 10 + (c.toNat - 48) := by
  simp [digitsVal, List.foldl_append]

theorem digitsVal_single (c : Char) : digitsVal [c] = c.toNat - 48 := by
  simp [digitsVal]

/-- `int(str(n)) = n`: reading the decimal digits of `n` gives `n` back -/
theorem digitsVal_toDigits (n : Nat) : digitsVal (Nat.toDigits 10 n) = n := by
  induction n using Nat.strongRecOn with
  | _ n ih =>
    rw [Nat.toDigits_eq_if (by decide)]
    split
    · rename_i h
      rw [digitsVal_single, digitChar_toNat n h]; omega
    · rename_i h
      have hlt : n / 10 < n := Nat.div_lt_self (by omega) (by decide)
      rw [digitsVal_append_single, ih _ hlt, digitChar_toNat _ (Nat.mod_lt n (by decide))]
      omega

theorem toDigits_all_digit (n : Nat) : ∀ c ∈ Nat.toDigits 10 n, isAsciiDigit c = true := by
  intro c hc
  have := Nat.isDigit_of_mem_toDigits (by decide) (by decide) hc
  rw [coreDigit_iff] at this
  rw [digit_iff]; exact this

/-! ### `takeWhile` / `dropWhile` on a block followed by a block of the other kind -/

theorem takeWhile_block {α} (p : α → Bool) : ∀ (k ds : List α), (∀ x ∈ k, p x = true) →
    (∀ x ∈ ds, p x = false) → (k ++ ds).takeWhile p = k
  | [], [], _, _ => rfl
  | [], d :: ds, _, hd => by
      simp [hd d (List.mem_cons_self ..)]
  | a :: k, ds, hk, hd => by
      have ha := hk a (List.mem_cons_self ..)
      simp only [List.cons_append, List.takeWhile, ha]
      rw [takeWhile_block p k ds (fun x hx => hk x (List.mem_cons_of_mem _ hx)) hd]

theorem dropWhile_block {α} (p : α → Bool) : ∀ (k ds : List α), (∀ x ∈ k, p x = true) →
    (∀ x ∈ ds, p x = false) → (k ++ ds).dropWhile p = ds
  | [], [], _, _ => rfl
  | [], d :: ds, _, hd => by
      simp [hd d (List.mem_cons_self ..)]
  | a :: k, ds, hk, hd => by
      have ha := hk a (List.mem_cons_self ..)
      simp only [List.cons_append, List.dropWhile, ha]
      exact dropWhile_block p k ds (fun x hx => hk x (List.mem_cons_of_mem _ hx)) hd

theorem takeWhile_all {α} (p : α → Bool) : ∀ (l : List α), (∀ x ∈ l, p x = true) → l.takeWhile p = l
  | [], _ => rfl
  | a :: l, h => by
      simp only [List.takeWhile, h a (List.mem_cons_self ..)]
      rw [takeWhile_all p l (fun x hx => h x (List.mem_cons_of_mem _ hx))]

/-! ### the upper-case cut -/

theorem cutUpper_nonupper_append : ∀ (body rest : List Char), (∀ x ∈ body, isAsciiUpper x = false) →
    cutUpper (body ++ rest) = (body ++ (cutUpper rest).1, (cutUpper rest).2)
  | [], rest, _ => by simp
  | b :: body, rest, h => by
      have hb := h b (List.mem_cons_self ..)
      have ih := cutUpper_nonupper_append body rest (fun x hx => h x (List.mem_cons_of_mem _ hx))
      simp only [List.cons_append, cutUpper, ih, hb]
      simp

theorem cutUpper_chunk (c : Char) (body rest : List Char) (hc : isAsciiUpper c = true)
    (hb : ∀ x ∈ body, isAsciiUpper x = false) :
    cutUpper (c :: body ++ rest) = ([], (c :: body ++ (cutUpper rest).1) :: (cutUpper rest).2) := by
  simp only [List.cons_append, cutUpper, cutUpper_nonupper_append body rest hb, hc]
  simp

/-! ### `str.title()` on a well-formed key -/

theorem titleChars_true_lower : ∀ (l : List Char), (∀ x ∈ l, isAsciiLower x = true) →
    titleChars true l = l
  | [], _ => rfl
  | a :: l, h => by
      have ha := h a (List.mem_cons_self ..)
      have hu := not_upper_of_lower ha
      simp only [titleChars, ha, hu, Bool.or_true, ↓reduceIte, lowerC, Bool.false_eq_true]
      rw [titleChars_true_lower l (fun x hx => h x (List.mem_cons_of_mem _ hx))]

theorem titleChars_wf (c : Char) (rest : List Char) (hc : isAsciiUpper c = true)
    (hr : ∀ x ∈ rest, isAsciiLower x = true) : titleChars false (c :: rest) = c :: rest := by
  have hl := not_lower_of_upper hc
  simp only [titleChars, hc, Bool.true_or, ↓reduceIte, upperC, hl, Bool.false_eq_true]
  rw [titleChars_true_lower rest hr]

/-- ASCII letters: `upperC` gives an upper-case letter, `lowerC` a lower-case one -/
theorem upperC_lower_is_upper (n : Nat) (h1 : 97 ≤ n) (h2 : n ≤ 122) :
    65 ≤ (Char.ofNat (n - 32)).toNat ∧ (Char.ofNat (n - 32)).toNat ≤ 90 := by
  have key : ∀ n : Nat, n < 123 → 97 ≤ n →
      65 ≤ (Char.ofNat (n - 32)).toNat ∧ (Char.ofNat (n - 32)).toNat ≤ 90 := by decide
  exact key n (by omega) h1

theorem lowerC_upper_is_lower (n : Nat) (h1 : 65 ≤ n) (h2 : n ≤ 90) :
    97 ≤ (Char.ofNat (n + 32)).toNat ∧ (Char.ofNat (n + 32)).toNat ≤ 122 := by
  have key : ∀ n : Nat, n < 91 → 65 ≤ n →
      97 ≤ (Char.ofNat (n + 32)).toNat ∧ (Char.ofNat (n + 32)).toNat ≤ 122 := by decide
  exact key n (by omega) h1

def isAsciiLetter (c : Char) : Bool := isAsciiUpper c || isAsciiLower c

theorem upperC_letter {c : Char} (h : isAsciiLetter c = true) : isAsciiUpper (upperC c) = true := by
  unfold upperC
  by_cases hl : isAsciiLower c = true
  · simp only [hl, ↓reduceIte]
    rw [upper_iff]; rw [lower_iff] at hl
    exact upperC_lower_is_upper _ hl.1 hl.2
  · simp only [hl, Bool.false_eq_true, ↓reduceIte]
    simpa [isAsciiLetter, hl] using h

theorem lowerC_letter {c : Char} (h : isAsciiLetter c = true) : isAsciiLower (lowerC c) = true := by
  unfold lowerC
  by_cases hu : isAsciiUpper c = true
  · simp only [hu, ↓reduceIte]
    rw [lower_iff]; rw [upper_iff] at hu
    exact lowerC_upper_is_lower _ hu.1 hu.2
  · simp only [hu, Bool.false_eq_true, ↓reduceIte]
    simpa [isAsciiLetter, hu] using h

theorem titleChars_true_letters : ∀ (l : List Char), (∀ x ∈ l, isAsciiLetter x = true) →
    titleChars true l = l.map lowerC
  | [], _ => rfl
  | a :: l, h => by
      have ha := h a (List.mem_cons_self ..)
      have ha' : (isAsciiUpper a || isAsciiLower a) = true := ha
      simp only [titleChars, ha', ↓reduceIte, List.map_cons]
      rw [titleChars_true_letters l (fun x hx => h x (List.mem_cons_of_mem _ hx))]

theorem titleChars_letters (c : Char) (rest : List Char) (hc : isAsciiLetter c = true)
    (hr : ∀ x ∈ rest, isAsciiLetter x = true) :
    titleChars false (c :: rest) = upperC c :: rest.map lowerC := by
  have hc' : (isAsciiUpper c || isAsciiLower c) = true := hc
  simp only [titleChars, hc', ↓reduceIte, Bool.false_eq_true]
  rw [titleChars_true_letters rest hr]

/-! ### the dictionary fold -/

theorem addCount_new (acc : List (String × Nat)) (k : String) (n : Nat)
    (h : k ∉ acc.map Prod.fst) : addCount acc k n = acc ++ [(k, n)] := by
  unfold addCount
  have : acc.any (fun p => p.1 == k) = false := by
    apply bool_false_of_not
    intro hc
    rw [List.any_eq_true] at hc
    obtain ⟨p, hp, he⟩ := hc
    have : p.1 = k := by simpa using he
    exact h (List.mem_map.2 ⟨p, hp, this⟩)
  simp [this]

end QcelVerif.Formula
