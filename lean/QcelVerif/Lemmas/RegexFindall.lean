import QcelVerif.Model.RegexFindall
import QcelVerif.Lemmas.RegexEngine
/-!
Generic facts about `Model/RegexFindall.lean` (the engine's `findall` / `finditer`) — no property specifics.

  * `scan_skip`            stepping over the text of a reported match resumes the scan right after it
  * `matchAt_eq_find`      one search attempt = the first way to match (list semantics) that passes `must_advance`
  * `classRuns_head`, `ms_rep_cls_head`   the first way through a greedy `[class]{lo,}` takes the longest run
  * `ms_suffix`            every way to match leaves a suffix of the text it started on (the cursor walks the same string)
  * `scan_pieces`          the matches reported by `finditer` are consecutive, non-overlapping pieces of the subject, in order
-/
namespace QcelVerif.Regex

/-! ## unfolding `scan` -/

theorem scan_zero_nil (r : Re) (prev : Option Nat) : scan r 0 prev [] = (atPos r prev []).1 := by
  simp [scan]

theorem scan_zero_cons (r : Re) (prev : Option Nat) (c : Nat) (t : List Nat) :
    scan r 0 prev (c :: t) = (atPos r prev (c :: t)).1 ++ scan r ((atPos r prev (c :: t)).2 - 1) (some c) t := by
  simp [scan]

theorem scan_succ_cons (r : Re) (k : Nat) (prev : Option Nat) (c : Nat) (t : List Nat) :
    scan r (k + 1) prev (c :: t) = scan r k (some c) t := by
  simp [scan]

theorem scan_succ_nil (r : Re) (k : Nat) (prev : Option Nat) : scan r (k + 1) prev [] = [] := by
  simp [scan]

/-- stepping over `a` resumes the scan at the text after it, with the last character of `a` before the cursor -/
theorem scan_skip (r : Re) : ∀ (a b : List Nat) (prev : Option Nat),
    scan r a.length prev (a ++ b) = scan r 0 (lastOr prev a) b
  | [], b, prev => by simp [lastOr]
  | c :: t, b, prev => by
      rw [List.length_cons, List.cons_append, scan_succ_cons, scan_skip r t b (some c)]
      rfl

/-! ## one search attempt -/

theorem findSome?_ite_none {α} (q : α → Bool) (l : List α) :
    l.findSome? (fun a => if q a then none else some a) = l.find? (fun a => !q a) := by
  induction l with
  | nil => rfl
  | cons a t ih => by_cases h : q a <;> simp [h, ih]

/-- one attempt of `search` at a cursor: the first way to match (in backtracking order) that is not rejected by
`must_advance` -/
theorem matchAt_eq_find (r : Re) (adv : Bool) (prev : Option Nat) (s : List Nat) :
    matchAt r adv prev s = (r.ms ⟨prev, s, []⟩).find? (fun st' => !(adv && st'.rest.length == s.length)) := by
  unfold matchAt
  rw [bt_eq_findSome, findSome?_ite_none]

theorem matchAt_false (r : Re) (prev : Option Nat) (s : List Nat) : matchAt r false prev s = (r.ms ⟨prev, s, []⟩).head? := by
  rw [matchAt_eq_find]
  cases r.ms ⟨prev, s, []⟩ <;> simp

/-! ## the first way through a greedy class repetition is the longest run -/

theorem classRuns_head (p : Nat → Bool) : ∀ (s : List Nat) (lo fuel : Nat), s.length < fuel →
    (classRuns p lo none fuel s).head? =
      if lo ≤ (s.takeWhile p).length then some (s.takeWhile p, s.dropWhile p) else none := by
  intro s
  induction s with
  | nil =>
    intro lo fuel hf
    obtain ⟨f, rfl⟩ : ∃ f, fuel = f + 1 := ⟨fuel - 1, by omega⟩
    by_cases hlo : lo = 0 <;> simp [classRuns, hlo]
  | cons c t ih =>
    intro lo fuel hf
    obtain ⟨f, rfl⟩ : ∃ f, fuel = f + 1 := ⟨fuel - 1, by omega⟩
    have hft : t.length < f := by simp at hf; omega
    cases hp : p c with
    | false =>
      by_cases hlo : lo = 0 <;> simp [classRuns, hp, hlo]
    | true =>
      have ih' := ih (lo - 1) f hft
      simp only [classRuns, hp, if_true, decHi, List.takeWhile_cons, List.dropWhile_cons, List.length_cons]
      by_cases hle : lo - 1 ≤ (t.takeWhile p).length
      · rw [if_pos hle] at ih'
        rw [if_pos (show lo ≤ (t.takeWhile p).length + 1 by omega)]
        cases hX : classRuns p (lo - 1) none f t with
        | nil => rw [hX] at ih'; simp at ih'
        | cons x xs =>
          rw [hX] at ih'
          simp only [List.head?_cons, Option.some.injEq] at ih'
          subst ih'
          simp
      · rw [if_neg hle] at ih'
        rw [if_neg (show ¬ lo ≤ (t.takeWhile p).length + 1 by omega)]
        have hX : classRuns p (lo - 1) none f t = [] := by
          cases h : classRuns p (lo - 1) none f t with
          | nil => rfl
          | cons x xs => rw [h] at ih'; simp at ih'
        have hlo : lo ≠ 0 := by omega
        simp [hX, hlo]

/-- greedy `[class]{lo,}`: the first way to match consumes the longest run of class characters (none if it is shorter
than `lo`) -/
theorem ms_rep_cls_head (neg : Bool) (items : List Item) (lo : Nat) (st : St) :
    ((Re.rep lo none true (.cls neg items)).ms st).head? =
      if lo ≤ (st.rest.takeWhile (clsMem neg items)).length
      then some (st.adv (st.rest.takeWhile (clsMem neg items)) (st.rest.dropWhile (clsMem neg items))) else none := by
  rw [show (Re.rep lo none true (.cls neg items)).ms st
        = repMs (fun st' => Re.ms (.cls neg items) st') lo none true (st.rest.length + 1) st from rfl, repMs_cls,
    List.head?_map, classRuns_head _ _ _ _ (Nat.lt_succ_self _)]
  split <;> rfl

theorem head?_flatMap_of_isSome {α β} (l : List α) (f : α → List β) (h : ∀ a, (f a).head?.isSome = true) :
    (l.flatMap f).head? = l.head?.bind fun a => (f a).head? := by
  cases l with
  | nil => rfl
  | cons a t =>
    rw [List.head?_flatMap, List.findSome?_cons]
    have := h a
    cases hfa : (f a).head? with
    | none => rw [hfa] at this; simp at this
    | some y => simp [hfa]

theorem takeDiff_append' (a b : List Nat) : takeDiff (a ++ b) b = a := by
  simp [takeDiff]

/-! ## the cursor walks one string: every way to match leaves a suffix -/

theorem repMs_suffix (body : St → List St) (hb : ∀ st st', st' ∈ body st → st'.rest <:+ st.rest) (g : Bool) :
    ∀ (f lo : Nat) (hi : Option Nat) (st st' : St), st' ∈ repMs body lo hi g f st → st'.rest <:+ st.rest := by
  intro f
  induction f with
  | zero =>
    intro lo hi st st' h
    by_cases hlo : lo = 0 <;> simp [repMs, hlo] at h
    subst h; exact List.suffix_refl _
  | succ n ih =>
    intro lo hi st st' h
    have key : st' ∈ (if hi = some 0 then [] else (body st).flatMap fun s1 => repMs body (lo - 1) (decHi hi) g n s1) ∨
        st' ∈ (if lo = 0 then [st] else []) := by
      cases g <;> simp only [repMs, Bool.false_eq_true, if_false, if_true, List.mem_append] at h
      · exact h.symm
      · exact h
    rcases key with h1 | h2
    · by_cases hh : hi = some 0
      · simp [hh] at h1
      · simp only [hh, if_false, List.mem_flatMap] at h1
        obtain ⟨s1, hs1, hs'⟩ := h1
        exact (ih _ _ _ _ hs').trans (hb _ _ hs1)
    · by_cases hlo : lo = 0 <;> simp [hlo] at h2
      subst h2; exact List.suffix_refl _

/-- every way to match leaves the cursor on a suffix of the text it started on -/
theorem ms_suffix (r : Re) : ∀ (st st' : St), st' ∈ r.ms st → st'.rest <:+ st.rest := by
  induction r with
  | eps => intro st st' h; simp [Re.ms] at h; subst h; exact List.suffix_refl _
  | fail => intro st st' h; simp [Re.ms] at h
  | cls neg items =>
    intro st st' h
    simp only [Re.ms, stepCls] at h
    cases hr : st.rest with
    | nil => simp [hr] at h
    | cons c t =>
      by_cases hc : clsMem neg items c <;> simp [hr, hc] at h
      subst h; exact List.suffix_cons c t
  | seq a b iha ihb =>
    intro st st' h
    simp only [Re.ms, List.mem_flatMap] at h
    obtain ⟨s1, h1, h2⟩ := h
    exact (ihb _ _ h2).trans (iha _ _ h1)
  | alt a b iha ihb =>
    intro st st' h
    simp only [Re.ms, List.mem_append] at h
    rcases h with h | h
    · exact iha _ _ h
    · exact ihb _ _ h
  | rep lo hi g r ih =>
    intro st st' h
    simp only [Re.ms] at h
    exact repMs_suffix _ ih g _ _ _ _ _ h
  | group i r ih =>
    intro st st' h
    simp only [Re.ms, List.mem_map] at h
    obtain ⟨s1, h1, rfl⟩ := h
    exact ih st s1 h1
  | ifGroup i y n ihy ihn =>
    intro st st' h
    simp only [Re.ms] at h
    split at h
    · exact ihy _ _ h
    · exact ihn _ _ h
  | bos => intro st st' h; simp only [Re.ms] at h; split at h <;> simp at h; subst h; exact List.suffix_refl _
  | eos => intro st st' h; simp only [Re.ms] at h; split at h <;> simp at h; subst h; exact List.suffix_refl _
  | eolFinal => intro st st' h; simp only [Re.ms] at h; split at h <;> simp at h; subst h; exact List.suffix_refl _
  | bolMulti => intro st st' h; simp only [Re.ms] at h; split at h <;> simp at h; subst h; exact List.suffix_refl _
  | eolMulti => intro st st' h; simp only [Re.ms] at h; split at h <;> simp at h; subst h; exact List.suffix_refl _
  | wordB neg => intro st st' h; simp only [Re.ms] at h; split at h <;> simp at h; subst h; exact List.suffix_refl _

/-- a reported attempt is one of the ways to match, and under `must_advance` it is not empty -/
theorem matchAt_some {r : Re} {adv : Bool} {prev : Option Nat} {s : List Nat} {st : St} (h : matchAt r adv prev s = some st) :
    st.rest <:+ s ∧ (adv = true → st.rest.length ≠ s.length) := by
  rw [matchAt_eq_find] at h
  have hm := List.mem_of_find?_eq_some h
  have hp := List.find?_some h
  refine ⟨ms_suffix r _ _ hm, ?_⟩
  intro ha hl
  simp [ha, hl] at hp

theorem suffix_takeDiff {a s : List Nat} (h : a <:+ s) : takeDiff s a ++ a = s ∧ s.drop (s.length - a.length) = a := by
  obtain ⟨p, rfl⟩ := h
  simp [takeDiff]

theorem suffix_eq_of_length {a s : List Nat} (h : a <:+ s) (hl : ¬ a.length < s.length) : a = s := by
  have := h.length_le
  exact h.eq_of_length (by omega)

/-! ## the matches `finditer` reports are consecutive non-overlapping pieces of the subject -/

/-- `Pieces ms s`: `s = gap₁ ++ m₁ ++ gap₂ ++ m₂ ++ … ++ tail` with `ms = [m₁, m₂, …]` -/
inductive Pieces : List (List Nat) → List Nat → Prop
  | nil (s : List Nat) : Pieces [] s
  | cons (gap m rest : List Nat) (ms : List (List Nat)) : Pieces ms rest → Pieces (m :: ms) (gap ++ m ++ rest)

theorem Pieces.prepend {ms : List (List Nat)} {s : List Nat} (g : List Nat) (h : Pieces ms s) : Pieces ms (g ++ s) := by
  cases h with
  | nil => exact Pieces.nil _
  | cons gap m rest ms h' =>
    have := Pieces.cons (g ++ gap) m rest ms h'
    simpa [List.append_assoc] using this

theorem Pieces.here {ms : List (List Nat)} {rest : List Nat} (m : List Nat) (h : Pieces ms rest) : Pieces (m :: ms) (m ++ rest) := by
  simpa using Pieces.cons [] m rest ms h

/-- the texts reported at one cursor position, followed by pieces of what is left after stepping, are pieces of the text -/
theorem atPos_pieces (r : Re) (prev : Option Nat) (s : List Nat) (X : List (List Nat))
    (hX : Pieces X (s.drop (atPos r prev s).2)) :
    Pieces ((atPos r prev s).1.map (·.text) ++ X) s ∧ 1 ≤ (atPos r prev s).2 := by
  unfold atPos at hX ⊢
  cases h1 : matchAt r false prev s with
  | none =>
    simp only [h1] at hX ⊢
    refine ⟨?_, Nat.le_refl _⟩
    have key : Pieces X (s.take 1 ++ s.drop 1) := Pieces.prepend (s.take 1) hX
    rwa [List.take_append_drop] at key
  | some st1 =>
    simp only [h1] at hX ⊢
    have hs1 := (matchAt_some h1).1
    by_cases hlt : st1.rest.length < s.length
    · simp only [hlt, if_true] at hX ⊢
      obtain ⟨e1, e2⟩ := suffix_takeDiff hs1
      rw [e2] at hX
      refine ⟨?_, by omega⟩
      have := Pieces.here (takeDiff s st1.rest) hX
      rw [e1] at this
      simpa [foundOf] using this
    · simp only [hlt, if_false] at hX ⊢
      have e1 : st1.rest = s := suffix_eq_of_length hs1 hlt
      have t1 : takeDiff s st1.rest = [] := by rw [e1]; simp [takeDiff]
      cases h2 : matchAt r true prev s with
      | none =>
        simp only [h2] at hX ⊢
        refine ⟨?_, Nat.le_refl _⟩
        have key : Pieces X (s.take 1 ++ s.drop 1) := Pieces.prepend (s.take 1) hX
        rw [List.take_append_drop] at key
        have := Pieces.here [] key
        simpa [foundOf, t1] using this
      | some st2 =>
        simp only [h2] at hX ⊢
        obtain ⟨hs2, hne⟩ := matchAt_some h2
        have hlt2 : st2.rest.length < s.length := by
          have := hs2.length_le
          have := hne rfl
          omega
        obtain ⟨e3, e4⟩ := suffix_takeDiff hs2
        rw [e4] at hX
        refine ⟨?_, by omega⟩
        have := Pieces.here [] (Pieces.here (takeDiff s st2.rest) hX)
        rw [e3] at this
        simpa [foundOf, t1] using this

/-- **non-overlap, in order**: for every AST and subject, the texts `finditer` reports (after stepping over `k` characters)
are consecutive pieces of the remaining subject -/
theorem scan_pieces (r : Re) : ∀ (s : List Nat) (k : Nat) (prev : Option Nat),
    Pieces ((scan r k prev s).map (·.text)) (s.drop k)
  | [], k + 1, prev => by rw [scan_succ_nil]; exact Pieces.nil _
  | c :: t, k + 1, prev => by rw [scan_succ_cons]; exact scan_pieces r t k (some c)
  | [], 0, prev => by
      rw [scan_zero_nil]
      have := (atPos_pieces r prev [] [] (Pieces.nil _)).1
      simpa using this
  | c :: t, 0, prev => by
      rw [scan_zero_cons, List.map_append]
      have ih := scan_pieces r t ((atPos r prev (c :: t)).2 - 1) (some c)
      have hstep : 1 ≤ (atPos r prev (c :: t)).2 := by
        unfold atPos
        cases matchAt r false prev (c :: t) with
        | none => exact Nat.le_refl _
        | some st1 =>
          simp only
          split
          · omega
          · cases h2 : matchAt r true prev (c :: t) with
            | none => exact Nat.le_refl _
            | some st2 =>
              simp only
              obtain ⟨hs2, hne⟩ := matchAt_some h2
              have := hs2.length_le
              have := hne rfl
              omega
      have hd : (c :: t).drop (atPos r prev (c :: t)).2 = t.drop ((atPos r prev (c :: t)).2 - 1) := by
        obtain ⟨n, hn⟩ : ∃ n, (atPos r prev (c :: t)).2 = n + 1 := ⟨_, (Nat.sub_add_cancel hstep).symm⟩
        rw [hn]; simp
      exact (atPos_pieces r prev (c :: t) _ (hd ▸ ih)).1

/-- `re.finditer` / `re.findall`: the reported matches are consecutive non-overlapping pieces of the subject, in order -/
theorem finditer_pieces (r : Re) (s : List Nat) : Pieces ((r.finditer s).map (·.text)) s := by
  have := scan_pieces r s 0 none
  simpa [Re.finditer] using this

-- non-vacuity (tests): `x*` on "ax" reports '', 'x', '' — pieces of "ax" with gaps 'a', '', ''
example : Pieces [[], [120], []] [97, 120] := by
  have h := Pieces.cons [] [] [] [] (Pieces.nil [])
  have h2 := Pieces.cons [] [120] _ _ h
  have h3 := Pieces.cons [97] [] _ _ h2
  simpa using h3

end QcelVerif.Regex
