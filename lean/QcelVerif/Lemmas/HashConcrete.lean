import QcelVerif.Lemmas.Hash
import Mathlib.Tactic.Positivity
import Mathlib.Tactic.Ring
/-!
Helper lemmas for C11, part 3: the CONCRETE parameters of the driver.

  * `rndDouble` (round-to-nearest-even to 53 bits, `Model/Hash.lean`) satisfies `FlOk`;
  * `reprDec` / `reprRd` / `reprRat` (the concrete float printer) print the exact value: a small
    decimal-literal reader `decode` (specification side, used only in proofs) maps
    `reprDec neg mag k` back to `(neg, mag / 10^k)`.  Injectivity, the output alphabet and
    non-emptiness follow.
-/
namespace QcelVerif.Hash

/-! ### `rndDouble` is within 1/256 for `|y| ≤ 2^45` -/
theorem scale2_eq (a : Rat) (e : Int) : scale2 a e = a * (2 : Rat) ^ (-e) := by
  unfold scale2
  by_cases h : e ≥ 0
  · rw [if_pos h]
    obtain ⟨n, rfl⟩ := Int.eq_ofNat_of_zero_le h
    simp [zpow_neg, div_eq_mul_inv]
  · rw [if_neg h]
    have : -e = ((-e).toNat : Int) := by omega
    conv_rhs => rw [this, zpow_natCast]

/-- `2^(l-1) < a` for the `l` of `rndDouble` -/
theorem log2_lower (a : Rat) (ha : 0 < a) :
    (2 : Rat) ^ ((Nat.log2 a.num.natAbs : Int) - (Nat.log2 a.den : Int) - 1) < a := by
  have hnum : 0 < a.num := Rat.num_pos.mpr ha
  have hn0 : a.num.natAbs ≠ 0 := by omega
  have h1 : 2 ^ a.num.natAbs.log2 ≤ a.num.natAbs := Nat.log2_self_le hn0
  have h2 : a.den < 2 ^ (a.den.log2 + 1) := Nat.lt_log2_self
  have hden : (0 : Rat) < a.den := by exact_mod_cast a.den_pos
  have e : a = (a.num.natAbs : Rat) / (a.den : Rat) := by
    have : ((a.num.natAbs : Nat) : Int) = a.num := by omega
    have h' : (((a.num.natAbs : Nat) : Int) : Rat) = (a.num : Rat) := by rw [this]
    rw [Int.cast_natCast] at h'
    rw [h', Rat.num_div_den]
  have h1' : (2 : Rat) ^ a.num.natAbs.log2 ≤ (a.num.natAbs : Rat) := by exact_mod_cast h1
  have h2' : (a.den : Rat) < (2 : Rat) ^ (a.den.log2 + 1) := by exact_mod_cast h2
  have two : (2 : Rat) ≠ 0 := by norm_num
  have : (2 : Rat) ^ ((Nat.log2 a.num.natAbs : Int) - (Nat.log2 a.den : Int) - 1)
      = (2 : Rat) ^ a.num.natAbs.log2 / (2 : Rat) ^ (a.den.log2 + 1) := by
    rw [show ((Nat.log2 a.num.natAbs : Int) - (Nat.log2 a.den : Int) - 1) = (Nat.log2 a.num.natAbs : Int) - ((a.den.log2 + 1 : Nat) : Int) by push_cast; ring]
    rw [zpow_sub₀ two, zpow_natCast, zpow_natCast]
  rw [this]
  conv_rhs => rw [e]
  have hp : (0 : Rat) < (2 : Rat) ^ (a.den.log2 + 1) := by positivity
  rw [div_lt_div_iff₀ hp hden]
  calc (2 : Rat) ^ a.num.natAbs.log2 * (a.den : Rat) < (2 : Rat) ^ a.num.natAbs.log2 * (2 : Rat) ^ (a.den.log2 + 1) := by
        apply mul_lt_mul_of_pos_left h2'; positivity
    _ ≤ (a.num.natAbs : Rat) * (2 : Rat) ^ (a.den.log2 + 1) := by
        apply mul_le_mul_of_nonneg_right h1'; positivity

/-- the positive case of `rndDouble` -/
theorem rnd_pos_err (a : Rat) (ha : 0 < a) (hb : a ≤ 2 ^ 45) (e : Int)
    (he : e ≤ (Nat.log2 a.num.natAbs : Int) - (Nat.log2 a.den : Int) - 52) :
    |scale2 ((rintHE (scale2 a e) : Int) : Rat) (-e) - a| ≤ 1 / 256 := by
  have two : (2 : Rat) ≠ 0 := by norm_num
  have hl := log2_lower a ha
  generalize (Nat.log2 a.num.natAbs : Int) - (Nat.log2 a.den : Int) = l at he hl
  have hl45 : l - 1 < 45 := by
    have : (2 : Rat) ^ (l - 1) < (2 : Rat) ^ (45 : Int) := by
      have h45 : (2 : Rat) ^ (45 : Int) = 2 ^ 45 := by norm_num
      rw [h45]; exact lt_of_lt_of_le hl hb
    exact (zpow_lt_zpow_iff_right₀ (by norm_num : (1 : Rat) < 2)).mp this
  have he7 : e ≤ -7 := by omega
  rw [scale2_eq, scale2_eq, neg_neg]
  have hpe : (0 : Rat) < (2 : Rat) ^ e := zpow_pos (by norm_num) e
  have hinv : (2 : Rat) ^ (-e) * (2 : Rat) ^ e = 1 := by
    rw [← zpow_add₀ two]; simp
  have r := rint_err (a * (2 : Rat) ^ (-e))
  generalize ((rintHE (a * (2 : Rat) ^ (-e)) : Int) : Rat) = m at r ⊢
  have hd : m * (2 : Rat) ^ e - a = (m - a * (2 : Rat) ^ (-e)) * (2 : Rat) ^ e := by
    rw [sub_mul, mul_assoc, hinv, mul_one]
  rw [hd, abs_mul, abs_of_pos hpe]
  have h1 : |m - a * (2 : Rat) ^ (-e)| ≤ 1 / 2 := by
    rw [abs_le]; constructor <;> linarith [r.1, r.2]
  have h2 : (2 : Rat) ^ e ≤ (2 : Rat) ^ (-7 : Int) := zpow_le_zpow_right₀ (by norm_num) he7
  have h3 : (2 : Rat) ^ (-7 : Int) = 1 / 128 := by norm_num [zpow_neg]
  rw [h3] at h2
  calc |m - a * (2 : Rat) ^ (-e)| * (2 : Rat) ^ e ≤ 1 / 2 * (1 / 128) := by
        apply mul_le_mul h1 h2 hpe.le (by norm_num)
    _ = 1 / 256 := by norm_num

theorem flOk_rndDouble : FlOk rndDouble := by
  intro y hy
  unfold rndDouble
  by_cases h0 : y = 0
  · simp [h0]
  · rw [if_neg h0]
    by_cases hneg : y < 0
    · simp only [hneg, if_true]
      have ha : 0 < -y := by linarith
      have hb : -y ≤ 2 ^ 45 := by have := abs_le.mp hy; linarith [this.1]
      split_ifs with hc
      · have := rnd_pos_err (-y) ha hb ((Nat.log2 (-y).num.natAbs : Int) - (Nat.log2 (-y).den : Int) - 53) (by omega)
        rw [abs_le] at this ⊢; constructor <;> linarith [this.1, this.2]
      · have := rnd_pos_err (-y) ha hb _ (le_refl _)
        rw [abs_le] at this ⊢; constructor <;> linarith [this.1, this.2]
    · simp only [hneg, if_false]
      have ha : 0 < y := lt_of_le_of_ne (not_lt.mp hneg) (Ne.symm h0)
      have hb : y ≤ 2 ^ 45 := by have := abs_le.mp hy; linarith [this.2]
      split_ifs with hc
      · exact rnd_pos_err y ha hb ((Nat.log2 y.num.natAbs : Int) - (Nat.log2 y.den : Int) - 53) (by omega)
      · exact rnd_pos_err y ha hb _ (le_refl _)

/-! ### reading a decimal literal back (specification side; used only in proofs) -/

def dval (c : Char) : Nat := c.toNat - 48

/-- the number written by a digit string (most significant digit first) -/
def numOf (l : List Char) : Nat := l.foldl (fun a c => a * 10 + dval c) 0

theorem foldl_num (b : List Char) : ∀ acc : Nat,
    b.foldl (fun a c => a * 10 + dval c) acc = acc * 10 ^ b.length + b.foldl (fun a c => a * 10 + dval c) 0 := by
  induction b with
  | nil => intro acc; simp
  | cons x t ih =>
    intro acc
    simp only [List.foldl_cons, List.length_cons]
    rw [ih (acc * 10 + dval x), ih (0 * 10 + dval x)]
    ring

theorem numOf_append (a b : List Char) : numOf (a ++ b) = numOf a * 10 ^ b.length + numOf b := by
  unfold numOf
  rw [List.foldl_append, foldl_num]

theorem numOf_cons (c : Char) (b : List Char) : numOf (c :: b) = dval c * 10 ^ b.length + numOf b := by
  have := numOf_append [c] b
  simpa [numOf] using this

theorem dval_digitChar {d : Nat} (h : d < 10) : dval (digitChar d) = d := by
  have : ∀ d, d < 10 → dval (digitChar d) = d := by decide
  exact this d h

theorem numOf_showNat (n : Nat) : numOf (showNat n) = n := by
  unfold showNat
  induction n using Nat.strongRecOn with
  | _ n ih =>
    rw [natDigitsRev]
    split
    · rename_i h
      simp [numOf, dval_digitChar h]
    · rename_i h
      rw [List.reverse_cons, numOf_append, ih (n / 10) (by omega)]
      simp only [List.length_cons, List.length_nil, numOf, List.foldl_cons, List.foldl_nil]
      rw [dval_digitChar (Nat.mod_lt _ (by decide))]
      omega

theorem numOf_zeros (z : Nat) : numOf (zerosL z) = 0 := by
  induction z with
  | zero => rfl
  | succ z ih =>
    have : zerosL (z + 1) = '0' :: zerosL z := by simp [zerosL, List.replicate_succ]
    rw [this, numOf_cons, ih]
    simp [dval]

theorem zerosL_length (z : Nat) : (zerosL z).length = z := by simp [zerosL]

theorem showNat_mul10 {n : Nat} (h : n ≠ 0) : showNat (n * 10) = showNat n ++ ['0'] := by
  unfold showNat
  rw [natDigitsRev.eq_1 (n * 10)]
  have : ¬ n * 10 < 10 := by omega
  rw [if_neg this, List.reverse_cons]
  have e1 : n * 10 % 10 = 0 := by omega
  have e2 : n * 10 / 10 = n := by omega
  rw [e1, e2]
  rfl

theorem showNat_mul_pow {s : Nat} (h : s ≠ 0) (t : Nat) : showNat (s * 10 ^ t) = showNat s ++ zerosL t := by
  induction t with
  | zero => simp [zerosL]
  | succ t ih =>
    have hne : s * 10 ^ t ≠ 0 := Nat.mul_ne_zero h (by positivity)
    rw [pow_succ, ← mul_assoc, showNat_mul10 hne, ih]
    simp [zerosL, List.replicate_succ', List.append_assoc]

theorem stripZeros_spec : ∀ (fuel m : Nat), m ≠ 0 →
    stripZeros fuel m ≠ 0 ∧ ∃ t, m = stripZeros fuel m * 10 ^ t
  | 0, m, h => ⟨h, 0, by simp [stripZeros]⟩
  | fuel + 1, m, h => by
      unfold stripZeros
      by_cases hc : m ≠ 0 ∧ m % 10 = 0
      · rw [if_pos hc]
        have hm : m / 10 ≠ 0 := by omega
        obtain ⟨h1, t, ht⟩ := stripZeros_spec fuel (m / 10) hm
        refine ⟨h1, t + 1, ?_⟩
        rw [pow_succ, ← mul_assoc, ← ht]
        omega
      · rw [if_neg hc]
        exact ⟨h, 0, by simp⟩

/-! ### splitting at a marker character -/

def splitAtChar (c : Char) : List Char → List Char × Option (List Char)
  | [] => ([], none)
  | x :: t => if x = c then ([], some t) else (x :: (splitAtChar c t).1, (splitAtChar c t).2)

theorem splitAtChar_hit (c : Char) : ∀ (l r : List Char), (∀ x ∈ l, x ≠ c) → splitAtChar c (l ++ c :: r) = (l, some r)
  | [], r, _ => by simp [splitAtChar]
  | x :: l, r, h => by
      have hx : x ≠ c := h x (by simp)
      have ih := splitAtChar_hit c l r (fun y hy => h y (List.mem_cons_of_mem _ hy))
      simp [splitAtChar, hx, ih]

theorem splitAtChar_miss (c : Char) : ∀ (l : List Char), (∀ x ∈ l, x ≠ c) → splitAtChar c l = (l, none)
  | [], _ => by simp [splitAtChar]
  | x :: l, h => by
      have hx : x ≠ c := h x (by simp)
      have ih := splitAtChar_miss c l (fun y hy => h y (List.mem_cons_of_mem _ hy))
      simp [splitAtChar, hx, ih]

/-- the exponent part (after `e`) of a literal -/
def expOf : Option (List Char) → Int
  | none => 0
  | some [] => 0
  | some (c :: r) => if c = '-' then -(numOf r : Int) else if c = '+' then (numOf r : Int) else (numOf (c :: r) : Int)

/-- the value of an unsigned decimal literal `I[.F][e±X]` -/
def decodeBody (s : List Char) : Rat :=
  let me := splitAtChar 'e' s
  let ifr := splitAtChar '.' me.1
  let F := ifr.2.getD []
  (numOf (ifr.1 ++ F) : Rat) * (10 : Rat) ^ (expOf me.2 - (F.length : Int))

/-- sign bit and magnitude of a decimal literal -/
def decode : List Char → Bool × Rat
  | [] => (false, 0)
  | c :: t => if c = '-' then (true, decodeBody t) else (false, decodeBody (c :: t))

/-! ### the concrete printer, piece by piece -/

theorem isDigit_ne {c : Char} (h : c.isDigit = true) : c ≠ 'e' ∧ c ≠ '.' ∧ c ≠ '-' ∧ c ≠ '+' := by
  refine ⟨?_, ?_, ?_, ?_⟩ <;> (intro hc; subst hc; revert h; decide)

def Digits (l : List Char) : Prop := ∀ c ∈ l, c.isDigit = true

theorem digits_zeros (z : Nat) : Digits (zerosL z) := by
  intro c hc
  have := List.eq_of_mem_replicate hc
  subst this; decide

theorem digits_append {a b : List Char} (ha : Digits a) (hb : Digits b) : Digits (a ++ b) := by
  intro c hc; rcases List.mem_append.mp hc with h | h
  · exact ha c h
  · exact hb c h

theorem digits_take {a : List Char} (ha : Digits a) (n : Nat) : Digits (a.take n) :=
  fun c hc => ha c (List.mem_of_mem_take hc)

theorem digits_drop {a : List Char} (ha : Digits a) (n : Nat) : Digits (a.drop n) :=
  fun c hc => ha c (List.mem_of_mem_drop hc)

theorem digits_showNat (n : Nat) : Digits (showNat n) := showNat_digits n

theorem Digits.ne_e {l : List Char} (h : Digits l) : ∀ x ∈ l, x ≠ 'e' := fun x hx => (isDigit_ne (h x hx)).1
theorem Digits.ne_dot {l : List Char} (h : Digits l) : ∀ x ∈ l, x ≠ '.' := fun x hx => (isDigit_ne (h x hx)).2.1

/-- a literal without exponent part: `I.F` -/
theorem decodeBody_plain (I F : List Char) (hI : Digits I) (hF : Digits F) :
    decodeBody (I ++ '.' :: F) = (numOf (I ++ F) : Rat) * (10 : Rat) ^ (-(F.length : Int)) := by
  unfold decodeBody
  have h1 : splitAtChar 'e' (I ++ '.' :: F) = (I ++ '.' :: F, none) := by
    apply splitAtChar_miss
    intro x hx
    rcases List.mem_append.mp hx with h | h
    · exact hI.ne_e x h
    · rcases List.mem_cons.mp h with h | h
      · subst h; decide
      · exact hF.ne_e x h
  have h2 : splitAtChar '.' (I ++ '.' :: F) = (I, some F) := splitAtChar_hit '.' I F hI.ne_dot
  simp only [h1, h2, expOf, Option.getD_some, zero_sub]


def sgnL (neg : Bool) : List Char := if neg then ['-'] else []

def expPad (l : List Char) : List Char := if l.length < 2 then '0' :: l else l

def expStr (e : Int) : List Char :=
  'e' :: (if e < 0 then '-' else '+') :: expPad (showNat e.natAbs)

def mantOf : List Char → List Char
  | [] => []
  | [d] => [d]
  | d :: r => d :: '.' :: r

theorem numOf_expPad (n : Nat) : numOf (expPad (showNat n)) = n := by
  unfold expPad
  split
  · rw [numOf_cons, numOf_showNat]; simp [dval]
  · rw [numOf_showNat]

theorem expOf_expStr (e : Int) : ∃ t, expStr e = 'e' :: t ∧ expOf (some t) = e := by
  refine ⟨_, rfl, ?_⟩
  by_cases h : e < 0
  · simp only [h, if_true, expOf, numOf_expPad]; omega
  · have : ('+' : Char) ≠ '-' := by decide
    simp only [h, if_false, expOf, numOf_expPad, if_neg this, if_true]; omega

/-- a literal in exponent form: `d[.r]e±X` -/
theorem decodeBody_exp (ds : List Char) (hne : ds ≠ []) (hd : Digits ds) (e : Int) :
    decodeBody (mantOf ds ++ expStr e) = (numOf ds : Rat) * (10 : Rat) ^ (e - ((ds.length : Int) - 1)) := by
  obtain ⟨t, ht, hx⟩ := expOf_expStr e
  rw [ht]
  unfold decodeBody
  rcases ds with _ | ⟨d, _ | ⟨d', r⟩⟩
  · exact absurd rfl hne
  · have h1 : splitAtChar 'e' (mantOf [d] ++ 'e' :: t) = ([d], some t) :=
      splitAtChar_hit 'e' [d] t hd.ne_e
    have h2 : splitAtChar '.' [d] = ([d], none) := splitAtChar_miss '.' [d] hd.ne_dot
    simp only [h1, h2, hx]
    simp
  · have hm : mantOf (d :: d' :: r) = d :: '.' :: d' :: r := rfl
    have h1 : splitAtChar 'e' (mantOf (d :: d' :: r) ++ 'e' :: t) = (d :: '.' :: d' :: r, some t) := by
      rw [hm]
      apply splitAtChar_hit
      intro x hx'
      rcases List.mem_cons.mp hx' with h | h
      · exact hd.ne_e x (by simp [h])
      · rcases List.mem_cons.mp h with h | h
        · subst h; decide
        · exact hd.ne_e x (List.mem_cons_of_mem _ h)
    have h2 : splitAtChar '.' (d :: '.' :: d' :: r) = ([d], some (d' :: r)) :=
      splitAtChar_hit '.' [d] (d' :: r) (fun x hx' => hd.ne_dot x (by simp at hx'; simp [hx']))
    simp only [h1, h2, hx, Option.getD_some]
    simp only [List.cons_append, List.nil_append, List.length_cons]
    congr 2
    push_cast; ring


/-- the unsigned non-zero body of `reprDec`, as a function of the significant digits and the decimal point position -/
def bodyOf (ds : List Char) (decpt : Int) : List Char :=
  if decpt ≤ -4 ∨ decpt > 16 then mantOf ds ++ expStr (decpt - 1)
  else if decpt ≤ 0 then "0.".toList ++ zerosL (-decpt).toNat ++ ds
  else if decpt.toNat ≥ ds.length then ds ++ zerosL (decpt.toNat - ds.length) ++ ".0".toList
  else ds.take decpt.toNat ++ ['.'] ++ ds.drop decpt.toNat

theorem reprDec_eq (neg : Bool) (mag k : Nat) :
    reprDec neg mag k = sgnL neg ++
      (if mag = 0 then "0.0".toList
       else bodyOf (showNat (stripZeros (showNat mag).length mag)) (((showNat mag).length : Int) - (k : Int))) := by
  unfold reprDec bodyOf sgnL expStr expPad mantOf
  simp only []
  split_ifs <;> simp [List.append_assoc] <;>
    (rcases showNat (stripZeros (showNat mag).length mag) with _ | ⟨d, _ | ⟨d', r⟩⟩ <;> rfl)

/-- **the body denotes `0.ds × 10^decpt`** -/
theorem decodeBody_bodyOf (ds : List Char) (hne : ds ≠ []) (hd : Digits ds) (e : Int) :
    decodeBody (bodyOf ds e) = (numOf ds : Rat) * (10 : Rat) ^ (e - (ds.length : Int)) := by
  unfold bodyOf
  split_ifs with h1 h2 h3
  · rw [decodeBody_exp ds hne hd]
    congr 2; ring
  · have : "0.".toList ++ zerosL (-e).toNat ++ ds = ['0'] ++ '.' :: (zerosL (-e).toNat ++ ds) := by simp
    rw [this, decodeBody_plain _ _ (by intro c hc; simp at hc; subst hc; decide) (digits_append (digits_zeros _) hd)]
    have hN : numOf (['0'] ++ (zerosL (-e).toNat ++ ds)) = numOf ds := by
      rw [numOf_append, numOf_append, numOf_zeros]
      simp [numOf, dval]
    have hL : -(((zerosL (-e).toNat ++ ds).length : Nat) : Int) = e - (ds.length : Int) := by
      rw [List.length_append, zerosL_length]
      have : ((-e).toNat : Int) = -e := by omega
      push_cast; rw [this]; ring
    rw [hN, hL]
  · have : ds ++ zerosL (e.toNat - ds.length) ++ ".0".toList = (ds ++ zerosL (e.toNat - ds.length)) ++ '.' :: ['0'] := by simp
    rw [this, decodeBody_plain _ _ (digits_append hd (digits_zeros _)) (by intro c hc; simp at hc; subst hc; decide)]
    rw [numOf_append, numOf_append, numOf_zeros]
    simp only [List.length_cons, List.length_nil, zerosL_length, numOf, List.foldl_cons, List.foldl_nil, dval]
    have hz : ((e.toNat - ds.length : Nat) : Int) = e - ds.length := by omega
    have ten : (10 : Rat) ≠ 0 := by norm_num
    rw [← hz, zpow_natCast]
    push_cast
    simp only [zpow_neg]
    rw [zpow_one, add_zero, add_zero, mul_assoc, mul_inv_cancel₀ ten, mul_one]
  · have : List.take e.toNat ds ++ ['.'] ++ List.drop e.toNat ds = List.take e.toNat ds ++ '.' :: List.drop e.toNat ds := by simp
    rw [this, decodeBody_plain _ _ (digits_take hd _) (digits_drop hd _), List.take_append_drop]
    congr 2
    rw [List.length_drop]; omega

/-- the body starts with a digit (so the sign can be read off the first character) -/
theorem bodyOf_head (ds : List Char) (hne : ds ≠ []) (hd : Digits ds) (e : Int) :
    ∃ c r, bodyOf ds e = c :: r ∧ c.isDigit = true := by
  obtain ⟨d, t, rfl⟩ := List.exists_cons_of_ne_nil hne
  have hdd : d.isDigit = true := hd d (by simp)
  unfold bodyOf
  split_ifs with h1 h2 h3
  · rcases t with _ | ⟨d', r⟩
    · exact ⟨d, _, rfl, hdd⟩
    · exact ⟨d, _, rfl, hdd⟩
  · exact ⟨'0', _, rfl, by decide⟩
  · exact ⟨d, _, rfl, hdd⟩
  · obtain ⟨n, hn⟩ : ∃ n, e.toNat = n + 1 := ⟨e.toNat - 1, by omega⟩
    rw [hn]
    exact ⟨d, _, rfl, hdd⟩

/-- output alphabet: `0-9 + - . e` -/
def okCh (c : Char) : Prop := c.isDigit = true ∨ c = '-' ∨ c = '+' ∨ c = '.' ∨ c = 'e'

theorem okCh_tokCh {c : Char} (h : okCh c) : tokCh c = true := by
  rcases h with h | h | h | h | h
  · exact isDigit_tokCh h
  all_goals (subst h; decide)

theorem ok_digits {l : List Char} (h : Digits l) : ∀ c ∈ l, okCh c := fun c hc => Or.inl (h c hc)

theorem ok_append {a b : List Char} (ha : ∀ c ∈ a, okCh c) (hb : ∀ c ∈ b, okCh c) : ∀ c ∈ a ++ b, okCh c := by
  intro c hc; rcases List.mem_append.mp hc with h | h
  · exact ha c h
  · exact hb c h

theorem ok_mantOf {ds : List Char} (hd : Digits ds) : ∀ c ∈ mantOf ds, okCh c := by
  rcases ds with _ | ⟨d, _ | ⟨d', r⟩⟩
  · intro c hc; simp [mantOf] at hc
  · exact ok_digits hd
  · intro c hc
    simp only [mantOf, List.mem_cons] at hc
    rcases hc with h | h | h | h
    · exact Or.inl (hd c (by simp [h]))
    · exact Or.inr (Or.inr (Or.inr (Or.inl h)))
    · exact Or.inl (hd c (by simp [h]))
    · exact Or.inl (hd c (by simp [h]))

theorem ok_expStr (e : Int) : ∀ c ∈ expStr e, okCh c := by
  intro c hc
  simp only [expStr, List.mem_cons] at hc
  rcases hc with h | h | h
  · exact Or.inr (Or.inr (Or.inr (Or.inr h)))
  · split at h
    · exact Or.inr (Or.inl h)
    · exact Or.inr (Or.inr (Or.inl h))
  · unfold expPad at h
    split at h
    · rcases List.mem_cons.mp h with h | h
      · subst h; exact Or.inl (by decide)
      · exact Or.inl (digits_showNat _ c h)
    · exact Or.inl (digits_showNat _ c h)

theorem ok_bodyOf (ds : List Char) (hd : Digits ds) (e : Int) : ∀ c ∈ bodyOf ds e, okCh c := by
  have dot : ∀ c ∈ ['.'], okCh c := by intro c hc; simp at hc; exact Or.inr (Or.inr (Or.inr (Or.inl hc)))
  unfold bodyOf
  split_ifs
  · exact ok_append (ok_mantOf hd) (ok_expStr _)
  · refine ok_append (ok_append ?_ (ok_digits (digits_zeros _))) (ok_digits hd)
    intro c hc; simp at hc; rcases hc with h | h
    · subst h; exact Or.inl (by decide)
    · exact Or.inr (Or.inr (Or.inr (Or.inl h)))
  · refine ok_append (ok_append (ok_digits hd) (ok_digits (digits_zeros _))) ?_
    intro c hc; simp at hc; rcases hc with h | h
    · exact Or.inr (Or.inr (Or.inr (Or.inl h)))
    · subst h; exact Or.inl (by decide)
  · exact ok_append (ok_append (ok_digits (digits_take hd _)) dot) (ok_digits (digits_drop hd _))

theorem reprDec_ok (neg : Bool) (mag k : Nat) : ∀ c ∈ reprDec neg mag k, okCh c := by
  rw [reprDec_eq]
  apply ok_append
  · intro c hc; unfold sgnL at hc; split at hc
    · simp at hc; exact Or.inr (Or.inl hc)
    · simp at hc
  · split
    · intro c hc; simp at hc; rcases hc with h | h | h
      · subst h; exact Or.inl (by decide)
      · exact Or.inr (Or.inr (Or.inr (Or.inl h)))
      · subst h; exact Or.inl (by decide)
    · exact ok_bodyOf _ (digits_showNat _) _

theorem showNat_len_mul_pow {s : Nat} (h : s ≠ 0) (t : Nat) : (showNat (s * 10 ^ t)).length = (showNat s).length + t := by
  rw [showNat_mul_pow h, List.length_append, zerosL_length]

/-- **the concrete printer prints the exact value**: read back as a decimal literal, `reprDec neg mag k` is
`(-1)^neg · mag / 10^k` (sign bit kept separately, so that `-0.0` is told from `0.0`). -/
theorem decode_reprDec (neg : Bool) (mag k : Nat) : decode (reprDec neg mag k) = (neg, (mag : Rat) / (10 : Rat) ^ k) := by
  rw [reprDec_eq]
  have key : ∀ B : List Char, (∃ c r, B = c :: r ∧ c.isDigit = true) → decode (sgnL neg ++ B) = (neg, decodeBody B) := by
    rintro B ⟨c, r, rfl, hc⟩
    have hm : c ≠ '-' := (isDigit_ne hc).2.2.1
    cases neg
    · simp [sgnL, decode, hm]
    · simp [sgnL, decode]
  by_cases h0 : mag = 0
  · rw [if_pos h0, key "0.0".toList ⟨'0', ['.', '0'], rfl, by decide⟩, h0]
    have : decodeBody "0.0".toList = 0 := by
      have := decodeBody_plain ['0'] ['0'] (by intro c hc; simp at hc; subst hc; decide) (by intro c hc; simp at hc; subst hc; decide)
      simp only [List.cons_append, List.nil_append] at this
      rw [show "0.0".toList = ['0', '.', '0'] from rfl, this]
      simp [numOf, dval]
    rw [this]; simp
  · rw [if_neg h0]
    obtain ⟨hs, t, ht⟩ := stripZeros_spec (showNat mag).length mag h0
    generalize stripZeros (showNat mag).length mag = s at hs ht
    have hne : showNat s ≠ [] := showNat_ne_nil s
    rw [key _ (bodyOf_head _ hne (digits_showNat s) _), decodeBody_bodyOf _ hne (digits_showNat s), numOf_showNat]
    have hlen : (showNat mag).length = (showNat s).length + t := by rw [ht]; exact showNat_len_mul_pow hs t
    rw [hlen, ht]
    have ten : (10 : Rat) ≠ 0 := by norm_num
    have : (((showNat s).length + t : Nat) : Int) - (k : Int) - ((showNat s).length : Int) = (t : Int) - (k : Int) := by
      push_cast; ring
    rw [this, zpow_sub₀ ten, zpow_natCast, zpow_natCast]
    push_cast
    rw [mul_div_assoc]

theorem reprDec_inj {neg neg' : Bool} {mag mag' k k' : Nat} (h : reprDec neg mag k = reprDec neg' mag' k') :
    neg = neg' ∧ mag * 10 ^ k' = mag' * 10 ^ k := by
  have := congrArg decode h
  rw [decode_reprDec, decode_reprDec] at this
  obtain ⟨h1, h2⟩ := Prod.mk.inj this
  refine ⟨h1, ?_⟩
  have hk : (10 : Rat) ^ k ≠ 0 := by positivity
  have hk' : (10 : Rat) ^ k' ≠ 0 := by positivity
  rw [div_eq_div_iff hk hk'] at h2
  exact_mod_cast h2

theorem reprDec_ne_nil (neg : Bool) (mag k : Nat) : reprDec neg mag k ≠ [] := by
  intro h
  have := decode_reprDec neg mag k
  rw [h] at this
  have h1 := (Prod.mk.inj this).1
  subst h1
  rw [reprDec_eq] at h
  simp [sgnL] at h
  split at h
  · simp at h
  · rename_i h0
    obtain ⟨c, r, hc, _⟩ := bodyOf_head (showNat (stripZeros (showNat mag).length mag)) (showNat_ne_nil _) (digits_showNat _) (((showNat mag).length : Int) - (k : Int))
    rw [hc] at h; simp at h

/-- **the concrete `reprF` meets `Params.Ok`**, for every number of decimals and EVERY rounded value (no bound) -/
theorem reprRd_atomic (k : Nat) : Atomic (fun _ : Rd => True) (reprRd k) where
  inj a b _ _ h := by
    obtain ⟨h1, h2⟩ := reprDec_inj h
    have hp : 0 < 10 ^ k := by positivity
    have := Nat.eq_of_mul_eq_mul_right hp h2
    cases a; cases b; simp_all
  tok a _ c hc := okCh_tokCh (reprDec_ok _ _ _ c hc)
  ne a _ := reprDec_ne_nil _ _ _

/-! ### bond orders: `reprRat` -/

/-- bond orders the concrete printer can print: the denominator divides `10^k` for some `k ≤ 18`
(every multiple of `1/2^j`, `1/5^j`, `1/10^j` with `j ≤ 18`; `reprRat` prints `?` otherwise) -/
def DecPrintable (q : Rat) : Prop := (decScale q.den 19 0).isSome = true

instance (q : Rat) : Decidable (DecPrintable q) := inferInstanceAs (Decidable (_ = true))

theorem decScale_spec (den : Nat) : ∀ (fuel k0 k : Nat), decScale den fuel k0 = some k → 10 ^ k % den = 0
  | 0, _, _, h => by simp [decScale] at h
  | fuel + 1, k0, k, h => by
      unfold decScale at h
      split at h
      · rename_i hc; cases h; exact hc
      · exact decScale_spec den fuel (k0 + 1) k h

theorem decScale_complete (den : Nat) : ∀ (fuel k0 k : Nat), k0 ≤ k → k < k0 + fuel → 10 ^ k % den = 0 →
    (decScale den fuel k0).isSome = true
  | 0, k0, k, h1, h2, _ => by omega
  | fuel + 1, k0, k, h1, h2, h => by
      unfold decScale
      split
      · rfl
      · rename_i hc
        have : k0 ≠ k := by rintro rfl; exact hc h
        exact decScale_complete den fuel (k0 + 1) k (by omega) (by omega) h

theorem decPrintable_of_dvd (q : Rat) (k : Nat) (hk : k ≤ 18) (h : q.den ∣ 10 ^ k) : DecPrintable q :=
  decScale_complete q.den 19 0 k (by omega) (by omega) (Nat.mod_eq_zero_of_dvd h)

theorem decode_reprRat (q : Rat) (h : DecPrintable q) : decode (reprRat q) = (decide (q < 0), |q|) := by
  unfold reprRat
  unfold DecPrintable at h
  cases hk : decScale q.den 19 0 with
  | none => rw [hk] at h; simp at h
  | some k =>
    simp only
    rw [decode_reprDec]
    have hd := decScale_spec q.den 19 0 k hk
    obtain ⟨c, hc⟩ := Nat.dvd_of_mod_eq_zero hd
    have hden : q.den ≠ 0 := q.den_nz
    have e1 : q.num.natAbs * 10 ^ k / q.den = q.num.natAbs * c := by
      rw [hc, ← mul_assoc, mul_comm q.num.natAbs q.den, mul_assoc]
      exact Nat.mul_div_cancel_left _ (Nat.pos_of_ne_zero hden)
    rw [e1]
    congr 1
    have hdq : (q.den : Rat) ≠ 0 := by exact_mod_cast hden
    have hcq : (c : Rat) ≠ 0 := by
      intro h0
      have : c = 0 := by exact_mod_cast h0
      rw [this, mul_zero] at hc
      exact absurd hc (by positivity)
    have e2 : ((10 : Rat) ^ k) = (q.den : Rat) * (c : Rat) := by exact_mod_cast congrArg (Nat.cast (R := Rat)) hc
    rw [e2]
    push_cast
    rw [mul_div_mul_right _ _ hcq]
    have : ((q.num.natAbs : Nat) : Rat) = |(q.num : Rat)| := by
      rw [← Int.cast_abs, Int.abs_eq_natAbs, Int.cast_natCast]
    rw [this]
    conv_rhs => rw [← Rat.num_div_den q]
    rw [abs_div, abs_of_pos (show (0 : Rat) < q.den by exact_mod_cast q.den_pos)]

/-- **the concrete `reprB` is injective, non-empty and delimiter-free on printable bond orders** -/
theorem reprRat_atomic : Atomic DecPrintable reprRat where
  inj a b ha hb h := by
    have := congrArg decode h
    rw [decode_reprRat a ha, decode_reprRat b hb] at this
    obtain ⟨h1, h2⟩ := Prod.mk.inj this
    have h1' : a < 0 ↔ b < 0 := by simpa using h1
    by_cases hn : a < 0
    · have hb' := h1'.mp hn
      rw [abs_of_neg hn, abs_of_neg hb'] at h2
      linarith
    · have hb' : ¬ b < 0 := fun hb' => hn (h1'.mpr hb')
      rw [abs_of_nonneg (not_lt.mp hn), abs_of_nonneg (not_lt.mp hb')] at h2
      exact h2
  tok a ha c hc := by
    unfold reprRat at hc
    unfold DecPrintable at ha
    cases hk : decScale a.den 19 0 with
    | none => rw [hk] at ha; simp at ha
    | some k => rw [hk] at hc; exact okCh_tokCh (reprDec_ok _ _ _ c hc)
  ne a ha := by
    unfold reprRat
    unfold DecPrintable at ha
    cases hk : decScale a.den 19 0 with
    | none => rw [hk] at ha; simp at ha
    | some k => exact reprDec_ne_nil _ _ _

end QcelVerif.Hash
