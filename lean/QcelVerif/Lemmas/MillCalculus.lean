import QcelVerif.Props.C13
import Mathlib.Analysis.Calculus.FDeriv.Comp
import Mathlib.Analysis.Calculus.FDeriv.Add
import Mathlib.Analysis.Calculus.FDeriv.Linear
import Mathlib.Analysis.Calculus.FDeriv.Congr
import Mathlib.Topology.Algebra.Module.FiniteDimension
import Mathlib.Analysis.Calculus.ContDiff.Operations
import Mathlib.Analysis.SpecialFunctions.Sqrt
import Mathlib.Analysis.Calculus.LineDeriv.Basic
import Mathlib.Analysis.Calculus.Deriv.Pow
/-!
Helper definitions and lemmas for `Props/C13Calculus.lean`: the model's coordinate map
`alignCoords` (Model/Mill.lean) at `K = ℝ` as an affine map of the finite-dimensional normed space
`Geom ℝ n = Fin n → Fin 3 → ℝ` (Pi instances, sup norm — every norm is equivalent here and the
Fréchet derivative does not depend on the choice), its linear part `J` as a continuous linear map,
and the coordinate arrays (`grad`, `hess`) of first and second Fréchet derivatives.
-/
namespace QcelVerif.Mill
open Finset Filter Topology

noncomputable section

variable {n m : Nat}

/-- coordinate unit vector `e_{i,a}` of the `(n,3)` array space -/
def basisG (i : Fin n) (a : Fin 3) : Geom ℝ n := fun j b => if j = i ∧ b = a then 1 else 0

/-- `J` (Lemmas/Mill.lean: reflect `y` if mirror, rotate, permute atoms) as a linear map over ℝ -/
def Jlin (r : Recipe ℝ n m) : Geom ℝ n →ₗ[ℝ] Geom ℝ m where
  toFun := J r
  map_add' d e := by funext i a; simp only [J, sum3, Pi.add_apply]; ring
  map_smul' c d := by funext i a; simp only [J, sum3, Pi.smul_apply, smul_eq_mul, RingHom.id_apply]; ring

/-- `J` as a continuous linear map (automatic in finite dimension) -/
def Jclm (r : Recipe ℝ n m) : Geom ℝ n →L[ℝ] Geom ℝ m := LinearMap.toContinuousLinearMap (Jlin r)

@[simp] theorem Jclm_apply (r : Recipe ℝ n m) (d : Geom ℝ n) : Jclm r d = J r d := rfl

/-- from `coords_affine`: the model's forward coordinate map is affine with linear part `Jclm` -/
theorem alignCoords_add (r : Recipe ℝ n m) (x d : Geom ℝ n) :
    alignCoords r (x + d) = alignCoords r x + Jclm r d := by
  funext i a
  have h := coords_affine r x d i a
  have e : (fun i a => x i a + d i a) = x + d := rfl
  rw [e] at h
  simp only [Pi.add_apply, Jclm_apply]
  linarith

/-- `g x = J x + b` with `b = g 0` -/
theorem alignCoords_eq_affine (r : Recipe ℝ n m) (x : Geom ℝ n) :
    alignCoords r x = Jclm r x + alignCoords r 0 := by
  have h := alignCoords_add r 0 x
  rw [zero_add] at h
  rw [h, add_comm]

/-- the Fréchet derivative of the model's coordinate map is `J`, at every point, for every recipe -/
theorem hasFDerivAt_alignCoords (r : Recipe ℝ n m) (x : Geom ℝ n) :
    HasFDerivAt (alignCoords r) (Jclm r) x := by
  have e : alignCoords r = fun y => Jclm r y + alignCoords r 0 := funext (alignCoords_eq_affine r)
  rw [e]
  exact (Jclm r).hasFDerivAt.add_const _

theorem J_basis (r : Recipe ℝ n m) (j : Fin n) (c : Fin 3) (i : Fin m) (a : Fin 3) :
    J r (basisG j c) i a = if r.map i = j then frame r c a else 0 := by
  by_cases h : r.map i = j
  · simp only [J, basisG, sum3, h, true_and, if_true]
    fin_cases c <;> simp
  · simp [J, basisG, sum3, h]

/-- `Σ_c F[c,a] · J e_{map i, c} = e_{i,a}` : columns of the frame are orthonormal and the atom map is
injective, so `J` maps the `F`-combination of the unit vectors of atom `map i` onto `e_{i,a}` -/
theorem frame_J_basis (r : Recipe ℝ n m) (hR : IsOrtho r.rot) (hinj : Function.Injective r.map)
    (i : Fin m) (a : Fin 3) :
    frame r 0 a • J r (basisG (r.map i) 0) + frame r 1 a • J r (basisG (r.map i) 1)
      + frame r 2 a • J r (basisG (r.map i) 2) = basisG i a := by
  funext i' a'
  simp only [Pi.add_apply, Pi.smul_apply, smul_eq_mul, J_basis, hinj.eq_iff]
  have hc := ortho_cols (frame_ortho r hR) a a'
  simp only [sum3] at hc
  by_cases h : i' = i
  · simp only [h, if_true, basisG, true_and]
    rw [hc]
    by_cases h2 : a = a'
    · simp [h2]
    · have : ¬ a' = a := fun e => h2 e.symm
      simp [h2, this]
  · simp [h, basisG]

/-- pulling a linear functional back through `J`, reading off its coordinate array and pushing the
array forward with `J` gives the coordinate array of the functional itself -/
theorem J_pullback (r : Recipe ℝ n m) (hR : IsOrtho r.rot) (hinj : Function.Injective r.map)
    (L : Geom ℝ m →L[ℝ] ℝ) (i : Fin m) (a : Fin 3) :
    J r (fun j c => L (J r (basisG j c))) i a = L (basisG i a) := by
  have h := congrArg L (frame_J_basis r hR hinj i a)
  rw [map_add, map_add, map_smul, map_smul, map_smul] at h
  rw [← h]
  show sum3 (fun c => L (J r (basisG (r.map i) c)) * frame r c a) = _
  simp only [sum3, smul_eq_mul]
  ring

/-- the same for a bilinear form (both slots) -/
theorem J_pullback₂ (r : Recipe ℝ n m) (hR : IsOrtho r.rot) (hinj : Function.Injective r.map)
    (B : Geom ℝ m →L[ℝ] Geom ℝ m →L[ℝ] ℝ) (i j : Fin m) (a b : Fin 3) :
    (sum3 fun c => sum3 fun d =>
        frame r c a * B (J r (basisG (r.map i) c)) (J r (basisG (r.map j) d)) * frame r d b)
      = B (basisG i a) (basisG j b) := by
  have h1 := congrArg B (frame_J_basis r hR hinj i a)
  rw [map_add, map_add, map_smul, map_smul, map_smul] at h1
  have h2 := fun u : Geom ℝ m => congrArg (B u) (frame_J_basis r hR hinj j b)
  simp only [map_add, map_smul, smul_eq_mul] at h2
  rw [← h1]
  simp only [_root_.add_apply, _root_.smul_apply, smul_eq_mul, ← h2, sum3]
  ring

/-! ### coordinate arrays of the first and second Fréchet derivative -/

/-- the `(n,3)` gradient array of `E` at `x`: entry `(i,a)` is the Fréchet derivative of `E` at `x`
applied to the unit vector `e_{i,a}` (= ∂E/∂x_{ia}) -/
def grad (E : Geom ℝ n → ℝ) (x : Geom ℝ n) : Geom ℝ n := fun i a => fderiv ℝ E x (basisG i a)

/-- the `(3n,3n)` Hessian array of `E` at `x` in the model's flat index convention (row `3i+a`):
entry `(3i+a, 3j+b)` is the derivative in direction `e_{i,a}` of `y ↦ ∂E/∂x_{jb}(y)` -/
def hess (E : Geom ℝ n → ℝ) (x : Geom ℝ n) : Hess ℝ n :=
  fun s t => fderiv ℝ (fun y => fderiv ℝ E y (basisG (blk t) (off t))) x (basisG (blk s) (off s))

/-- the Hessian array is the array of first derivatives of the gradient array (by definition) -/
theorem hess_eq_fderiv_grad (E : Geom ℝ n → ℝ) (x : Geom ℝ n) (s t : Fin (n * 3)) :
    hess E x s t = fderiv ℝ (fun y => grad E y (blk t) (off t)) x (basisG (blk s) (off s)) := rfl

/-- for a twice differentiable function the Hessian array is the array of the second Fréchet
derivative `D²E(x) : V →L V →L ℝ` -/
theorem hess_eq_second (E : Geom ℝ n → ℝ) (x : Geom ℝ n) (h2 : DifferentiableAt ℝ (fderiv ℝ E) x)
    (s t : Fin (n * 3)) :
    hess E x s t = fderiv ℝ (fderiv ℝ E) x (basisG (blk s) (off s)) (basisG (blk t) (off t)) := by
  unfold hess
  have h := (ContinuousLinearMap.apply ℝ ℝ (basisG (blk t) (off t))).hasFDerivAt.comp x h2.hasFDerivAt
  have e : (fun y => fderiv ℝ E y (basisG (blk t) (off t)))
      = (ContinuousLinearMap.apply ℝ ℝ (basisG (blk t) (off t))) ∘ fderiv ℝ E := rfl
  rw [e, h.fderiv]
  rfl

/-! ### pair potentials: energies `Σ_{i≠j} f_ij(|x_i − x_j|²)` with arbitrary pair functions -/

/-- `E_f(x) = Σ_{i ≠ j} f_ij(|x_i − x_j|²)` over ordered pairs (each unordered pair twice; put the
factor ½ into `f`).  `f_ij` is a function of the SQUARED distance, so `f_ij s = k_ij/√s` is the
Coulomb term and `f_ij s = h_ij (√s − ρ_ij)²` the harmonic one. -/
def pairEnergy (f : Fin n → Fin n → ℝ → ℝ) (x : Geom ℝ n) : ℝ :=
  ∑ i, ∑ j, if i = j then 0 else f i j (dist2 x i j)

theorem dist2_contDiff (i j : Fin n) (k : WithTop ℕ∞) :
    ContDiff ℝ k (fun x : Geom ℝ n => dist2 x i j) := by
  have h : ∀ a : Fin 3, ContDiff ℝ k (fun x : Geom ℝ n => (x i a - x j a) * (x i a - x j a)) :=
    fun a => ((contDiff_apply_apply ℝ ℝ i a).sub (contDiff_apply_apply ℝ ℝ j a)).mul
      ((contDiff_apply_apply ℝ ℝ i a).sub (contDiff_apply_apply ℝ ℝ j a))
  exact ((h 0).add (h 1)).add (h 2)

theorem dist2_nonneg (x : Geom ℝ n) (i j : Fin n) : 0 ≤ dist2 x i j := by
  simp only [dist2, sum3]
  have := mul_self_nonneg (x i 0 - x j 0)
  have := mul_self_nonneg (x i 1 - x j 1)
  have := mul_self_nonneg (x i 2 - x j 2)
  linarith

/-- a pair potential is `C^k` wherever every pair function is `C^k` at the pair's squared distance -/
theorem pairEnergy_contDiffAt (f : Fin n → Fin n → ℝ → ℝ) (x : Geom ℝ n) (k : WithTop ℕ∞)
    (hf : ∀ i j, i ≠ j → ContDiffAt ℝ k (f i j) (dist2 x i j)) : ContDiffAt ℝ k (pairEnergy f) x := by
  unfold pairEnergy
  apply ContDiffAt.sum; intro i _
  apply ContDiffAt.sum; intro j _
  by_cases h : i = j
  · simp only [h, if_true]; exact contDiffAt_const
  · simp only [h, if_false]
    exact ContDiffAt.comp x (hf i j h) (dist2_contDiff i j k).contDiffAt

/-- Coulomb + harmonic pair function of the squared distance `s`: `k/√s + h (√s − ρ)²` -/
def coulombHarmonic (k h ρ : ℝ) (s : ℝ) : ℝ := k / Real.sqrt s + h * ((Real.sqrt s - ρ) * (Real.sqrt s - ρ))

theorem coulombHarmonic_contDiffAt (k h ρ : ℝ) (s : ℝ) (hs : 0 < s) (d : WithTop ℕ∞) :
    ContDiffAt ℝ d (coulombHarmonic k h ρ) s := by
  have hsq : ContDiffAt ℝ d Real.sqrt s := contDiffAt_id.sqrt (ne_of_gt hs)
  have hne : Real.sqrt s ≠ 0 := Real.sqrt_ne_zero'.mpr hs
  unfold coulombHarmonic
  exact (contDiffAt_const.div hsq hne).add
    (contDiffAt_const.mul ((hsq.sub contDiffAt_const).mul (hsq.sub contDiffAt_const)))

/-! ### the polynomial pair energies of `Lemmas/Mill.lean` as differentiable functions -/

theorem inner_basisG (d : Geom ℝ n) (j : Fin n) (c : Fin 3) :
    ∑ i, sum3 (fun a => d i a * basisG j c i a) = d j c := by
  have : ∀ i, sum3 (fun a => d i a * basisG j c i a) = if i = j then d j c else 0 := by
    intro i
    by_cases h : i = j
    · subst h; simp only [basisG, sum3, true_and, if_true]; fin_cases c <;> simp
    · simp [basisG, sum3, h]
  simp only [this, Finset.sum_ite_eq', Finset.mem_univ, if_true]

theorem flat_basisG (i : Fin n) (a : Fin 3) (s : Fin (n * 3)) :
    flat (basisG i a) s = if s = idx i a then 1 else 0 := by
  unfold flat basisG
  by_cases h : s = idx i a
  · subst h; simp [blk_idx, off_idx]
  · have : ¬ (blk s = i ∧ off s = a) := by
      rintro ⟨h1, h2⟩; apply h; rw [← idx_blk_off s, h1, h2]
    simp [h, this]

/-- a function differentiable at `x` whose restriction to the line `x + t d` is the polynomial
`F x + t G + t² q₂ + t³ q₃ + t⁴ q₄` has Fréchet derivative `G` in direction `d` -/
theorem fderiv_of_line_expansion (F : Geom ℝ n → ℝ) (x d : Geom ℝ n) (hF : DifferentiableAt ℝ F x)
    (G q2 q3 q4 : ℝ)
    (h : ∀ t : ℝ, F (fun i a => x i a + t * d i a) = F x + t * G + t ^ 2 * q2 + t ^ 3 * q3 + t ^ 4 * q4) :
    fderiv ℝ F x d = G := by
  have h1 := hF.hasFDerivAt.hasLineDerivAt d
  unfold HasLineDerivAt at h1
  have e : (fun t : ℝ => F (x + t • d))
      = fun t : ℝ => F x + t * G + t ^ 2 * q2 + t ^ 3 * q3 + t ^ 4 * q4 := funext fun t => h t
  rw [e] at h1
  have h2 : HasDerivAt (fun t : ℝ => F x + t * G + t ^ 2 * q2 + t ^ 3 * q3 + t ^ 4 * q4) G 0 := by
    have := ((((hasDerivAt_const (0 : ℝ) (F x)).add ((hasDerivAt_id (0 : ℝ)).mul_const G)).add
      (((hasDerivAt_id (0 : ℝ)).pow 2).mul_const q2)).add
      (((hasDerivAt_id (0 : ℝ)).pow 3).mul_const q3)).add
      (((hasDerivAt_id (0 : ℝ)).pow 4).mul_const q4)
    exact this.congr_deriv (by simp)
  exact h1.unique h2

theorem energy_contDiff (k c : Fin n → Fin n → ℝ) (d : WithTop ℕ∞) : ContDiff ℝ d (energy k c) := by
  unfold energy
  apply ContDiff.sum; intro i _
  apply ContDiff.sum; intro j _
  by_cases h : i < j
  · simp only [h, if_true]
    unfold pairE
    exact contDiff_const.mul (((dist2_contDiff i j d).sub contDiff_const).mul
      ((dist2_contDiff i j d).sub contDiff_const))
  · simp only [h, if_false]; exact contDiff_const

theorem gradE_contDiff (k c : Fin n → Fin n → ℝ) (i : Fin n) (a : Fin 3) (d : WithTop ℕ∞) :
    ContDiff ℝ d (fun y : Geom ℝ n => gradE k c y i a) := by
  unfold gradE
  apply ContDiff.sum; intro j _
  exact (contDiff_const.mul ((dist2_contDiff i j d).sub contDiff_const)).mul
    ((contDiff_apply_apply ℝ ℝ i a).sub (contDiff_apply_apply ℝ ℝ j a))

theorem Tblk_symm (k c : Fin n → Fin n → ℝ) (hk : ∀ i j, k i j = k j i) (hc : ∀ i j, c i j = c j i)
    (x : Geom ℝ n) (i j : Fin n) (a b : Fin 3) : Tblk k c x i j a b = Tblk k c x j i b a := by
  unfold Tblk
  rw [hk j i, hc j i, dist2_symm x j i]
  by_cases h : a = b
  · subst h; simp; ring
  · have h' : ¬ b = a := fun e => h e.symm
    simp [h, h']; ring

theorem Tblk_symm' (k c : Fin n → Fin n → ℝ) (x : Geom ℝ n) (i j : Fin n) (a b : Fin 3) :
    Tblk k c x i j a b = Tblk k c x i j b a := by
  unfold Tblk
  by_cases h : a = b
  · subst h; rfl
  · have h' : ¬ b = a := fun e => h e.symm
    simp [h, h']; ring

/-- the explicit Hessian of a polynomial pair energy with symmetric couplings is a symmetric array -/
theorem hessE_symm (k c : Fin n → Fin n → ℝ) (hk : ∀ i j, k i j = k j i) (hc : ∀ i j, c i j = c j i)
    (x : Geom ℝ n) (s t : Fin (n * 3)) : hessE k c x s t = hessE k c x t s := by
  unfold hessE
  by_cases h : blk s = blk t
  · have h' : blk t = blk s := h.symm
    simp only [h, if_true]
    apply Finset.sum_congr rfl; intro l _
    rw [Tblk_symm' k c x (blk t) l (off s) (off t)]
  · have h' : ¬ blk t = blk s := fun e => h e.symm
    simp only [h, h', if_false]
    rw [Tblk_symm k c hk hc x (blk s) (blk t) (off s) (off t)]

theorem fieldMu_contDiff (w : Fin n → Fin n → ℝ) (d : WithTop ℕ∞) :
    ContDiff ℝ d (fun x : Geom ℝ n => fieldMu w x) := by
  rw [contDiff_pi]
  intro a
  unfold fieldMu
  apply ContDiff.sum; intro i _
  apply ContDiff.sum; intro j _
  exact (contDiff_const.mul (dist2_contDiff i j d)).mul
    ((contDiff_apply_apply ℝ ℝ i a).sub (contDiff_apply_apply ℝ ℝ j a))

/-! ### `J` is an orthogonal isomorphism; the inverse of the coordinate map -/

/-- `J` preserves the standard inner product `⟨d,e⟩ = Σ_{i,a} d_ia e_ia` of coordinate arrays -/
theorem Jclm_inner (r : Recipe ℝ n m) (hR : IsOrtho r.rot) (hmap : Function.Bijective r.map)
    (d e : Geom ℝ n) :
    ∑ i, sum3 (fun a => Jclm r d i a * Jclm r e i a) = ∑ i, sum3 (fun a => d i a * e i a) := by
  have h := pairing_preserved r hR hmap d e
  rw [gradient_is_J] at h
  exact h

theorem Jclm_injective (r : Recipe ℝ n m) (hR : IsOrtho r.rot) (hmap : Function.Bijective r.map) :
    Function.Injective (Jclm r) := by
  rw [injective_iff_map_eq_zero]
  intro d hd
  funext j c
  have h := Jclm_inner r hR hmap d (basisG j c)
  rw [inner_basisG, hd] at h
  simp only [Pi.zero_apply, zero_mul, sum3, add_zero, Finset.sum_const_zero] at h
  exact h.symm

/-- `J` is invertible (a linear isomorphism of the coordinate-array spaces) -/
theorem Jclm_bijective (r : Recipe ℝ n m) (hR : IsOrtho r.rot) (hmap : Function.Bijective r.map) :
    Function.Bijective (Jclm r) := by
  have hmn : m = n := by simpa using Fintype.card_of_bijective hmap
  subst hmn
  have hi := Jclm_injective r hR hmap
  exact ⟨hi, (LinearMap.injective_iff_surjective (f := Jlin r)).mp hi⟩

/-- `J` as a continuous linear equivalence -/
def Jequiv (r : Recipe ℝ n m) (hR : IsOrtho r.rot) (hmap : Function.Bijective r.map) :
    Geom ℝ n ≃L[ℝ] Geom ℝ m :=
  (LinearEquiv.ofBijective (Jlin r) (Jclm_bijective r hR hmap)).toContinuousLinearEquiv

theorem Jequiv_apply (r : Recipe ℝ n m) (hR : IsOrtho r.rot) (hmap : Function.Bijective r.map)
    (d : Geom ℝ n) : Jequiv r hR hmap d = Jclm r d := rfl

/-- the inverse of the forward coordinate map -/
def alignInv (r : Recipe ℝ n m) (hR : IsOrtho r.rot) (hmap : Function.Bijective r.map)
    (z : Geom ℝ m) : Geom ℝ n := (Jequiv r hR hmap).symm (z - alignCoords r 0)

theorem alignCoords_alignInv (r : Recipe ℝ n m) (hR : IsOrtho r.rot) (hmap : Function.Bijective r.map)
    (z : Geom ℝ m) : alignCoords r (alignInv r hR hmap z) = z := by
  rw [alignCoords_eq_affine, alignInv, ← Jequiv_apply r hR hmap, ContinuousLinearEquiv.apply_symm_apply]
  abel

theorem alignInv_alignCoords (r : Recipe ℝ n m) (hR : IsOrtho r.rot) (hmap : Function.Bijective r.map)
    (x : Geom ℝ n) : alignInv r hR hmap (alignCoords r x) = x := by
  rw [alignInv, alignCoords_eq_affine r x, add_sub_cancel_right, ← Jequiv_apply r hR hmap,
    ContinuousLinearEquiv.symm_apply_apply]

theorem alignInv_contDiff (r : Recipe ℝ n m) (hR : IsOrtho r.rot) (hmap : Function.Bijective r.map)
    (k : WithTop ℕ∞) : ContDiff ℝ k (alignInv r hR hmap) :=
  ((Jequiv r hR hmap).symm.contDiff).comp (contDiff_id.sub contDiff_const)


/-! ### misc -/

/-- `C²` at a point gives the two differentiability hypotheses of `hessian_covariance` -/
theorem twice_differentiable_of_contDiffAt {F : Geom ℝ m → ℝ} {z : Geom ℝ m} (hF : ContDiffAt ℝ 2 F z) :
    (∀ᶠ w in 𝓝 z, DifferentiableAt ℝ F w) ∧ DifferentiableAt ℝ (fderiv ℝ F) z := by
  constructor
  · exact (hF.eventually (by simp)).mono fun w hw => hw.differentiableAt (by simp)
  · have h : ContDiffAt ℝ 1 (fderiv ℝ F) z := hF.fderiv_right (m := 1) (by rw [one_add_one_eq_two])
    exact h.differentiableAt (by simp)


/-! ### attached vectors -/

/-- the `(3,3n)` array `∂μ_a/∂x_{jb}` (column `3j+b`) that `align_vector_gradient` takes -/
def vecGrad (μ : Geom ℝ n → Vec3 ℝ) (x : Geom ℝ n) : Fin 3 → Fin (n * 3) → ℝ :=
  fun a s => fderiv ℝ μ x (basisG (blk s) (off s)) a

/-- `v ↦ v · Rᵀ` as a linear map (inverse of `align_vector` for an orthogonal rotation) -/
def rotBackLin (R : Mat3 ℝ) : Vec3 ℝ →ₗ[ℝ] Vec3 ℝ where
  toFun v := rowDot v (transpose R)
  map_add' u v := by funext a; simp only [rowDot, transpose, sum3, Pi.add_apply]; ring
  map_smul' c v := by
    funext a; simp only [rowDot, transpose, sum3, Pi.smul_apply, smul_eq_mul, RingHom.id_apply]; ring

theorem rotBack_alignVector (r : Recipe ℝ n n) (hR : IsOrtho r.rot) (v : Vec3 ℝ) :
    rotBackLin r.rot (alignVector r v) = v := by
  funext c
  have h := rowDot_back hR v c
  simp only [rotBackLin, alignVector, LinearMap.coe_mk, AddHom.coe_mk, rowDot, transpose, sum3] at h ⊢
  linarith

end

end QcelVerif.Mill
