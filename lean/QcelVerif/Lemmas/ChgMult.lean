import QcelVerif.Model.ChgMult
import QcelVerif.Lib.ListLemmas
/-!
Helper lemmas for C05 (property theorems are in `Props/C05.lean`).
-/
namespace QcelVerif.ChgMult

@[simp] theorem isum_nil : isum [] = 0 := rfl
@[simp] theorem isum_cons (x : Int) (l : List Int) : isum (x :: l) = x + isum l := rfl

theorem mem_dedup : ∀ (l : List Int) (x : Int), x ∈ dedup l ↔ x ∈ l
  | [], x => by simp [dedup]
  | y :: t, x => by
      simp only [dedup, List.mem_cons, List.mem_filter, mem_dedup t x]
      by_cases h : x = y
      · simp [h]
      · simp [h]

theorem dedup_head (x : Int) (t : List Int) : ∃ r, dedup (x :: t) = x :: r := ⟨_, rfl⟩

@[simp] theorem dedup_single (x : Int) : dedup [x] = [x] := rfl

theorem prod_singletons : ∀ (l : List Int), prod ((l.map (fun x => [x])).map dedup) = [l]
  | [] => rfl
  | x :: t => by
      have ih := prod_singletons t
      simp only [List.map_cons, prod, dedup_single, ih]
      simp

/-- pointwise membership: `x` picks one element from each list -/
def MemAll : List Int → List (List Int) → Prop
  | [], [] => True
  | a :: x, l :: ls => a ∈ l ∧ MemAll x ls
  | [], _ :: _ => False
  | _ :: _, [] => False

/-- membership in the cartesian product, pointwise -/
theorem mem_prod : ∀ (ls : List (List Int)) (x : List Int), x ∈ prod ls ↔ MemAll x ls
  | [], [] => by simp [prod, MemAll]
  | [], _ :: _ => by simp [prod, MemAll]
  | l :: ls, x => by
      simp only [prod, List.mem_flatMap, List.mem_map]
      constructor
      · rintro ⟨a, ha, t, ht, rfl⟩
        exact ⟨ha, (mem_prod ls t).1 ht⟩
      · intro h
        cases x with
        | nil => simp [MemAll] at h
        | cons a t => exact ⟨a, h.1, t, (mem_prod ls t).2 h.2, rfl⟩

theorem sumKnown_map_some (l : List Int) : sumKnown (l.map some) = isum l := by
  induction l with
  | nil => rfl
  | cons x t ih =>
    simp only [sumKnown, List.map_cons, isum_cons, Option.getD_some] at ih ⊢
    rw [ih]

theorem applyDefault_map_some (l : List Int) (d : Int) : applyDefault (l.map some) d = l := by
  induction l with
  | nil => rfl
  | cons x t ih =>
    simp only [applyDefault, List.map_cons, Option.getD_some] at ih ⊢
    rw [ih]

theorem irange_self (x : Int) : irange x x = [x] := by
  have : (x + 1 - x).toNat = 1 := by omega
  simp [irange, this, List.range_succ]

theorem mem_irange (lo hi x : Int) : x ∈ irange lo hi ↔ lo ≤ x ∧ x ≤ hi := by
  simp only [irange, List.mem_map, List.mem_range]
  constructor
  · rintro ⟨k, hk, rfl⟩; omega
  · intro h
    refine ⟨(x - lo).toNat, ?_, ?_⟩ <;> omega

theorem keepsAll_map_some (l : List Int) : keepsAll (l.map some) l = true := by
  induction l with
  | nil => rfl
  | cons x t ih => simp [keepsAll, keeps, ih]

/-- a fully specified list that is kept by `v` *is* `v` -/
theorem eq_of_keepsAll_all_some : ∀ (s : List (Option Int)) (v : List Int),
    s.length = v.length → (∀ o ∈ s, o ≠ none) → keepsAll s v = true → s = v.map some
  | [], [], _, _, _ => rfl
  | [], _ :: _, h, _, _ => by simp at h
  | _ :: _, [], h, _, _ => by simp at h
  | o :: ss, x :: vs, hl, hs, hk => by
      simp only [keepsAll, Bool.and_eq_true] at hk
      have h1 := eq_of_keepsAll_all_some ss vs (by simpa using hl)
        (fun o ho => hs o (List.mem_cons_of_mem _ ho)) hk.2
      cases o with
      | none => exact absurd rfl (hs none (List.mem_cons_self ..))
      | some y =>
        simp [keeps] at hk
        simp [h1, hk.1]

end QcelVerif.ChgMult
