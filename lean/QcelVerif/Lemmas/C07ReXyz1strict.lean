import QcelVerif.Lemmas.C07ReShapes
/-! xyz1strict = `\A(?P<nat>\d+)\Z`: the strict xyz count line -/
namespace QcelVerif.MolText
open QcelVerif.Regex QcelVerif.Gen


theorem xyz1strict_mem (b : List Nat) (x : St) :
    x ∈ FromStringRegex.xyz1strict.ms (St.init b) ↔
      (b ≠ [] ∧ ∀ c ∈ b, clsMem false [.digit] c = true) ∧ x = St.capture 1 (St.init b) ((St.init b).adv b []) := by
  simp only [xyz1strict_shape, digits1, mem_ms_seq, mem_ms_bos, mem_ms_group, mem_ms_plus, mem_ms_eos]
  constructor
  · rintro ⟨m, ⟨_, rfl⟩, m2, ⟨m3, ⟨a, r, ha, hs, hall, rfl⟩, rfl⟩, hr, rfl⟩
    simp only [St.capture, St.adv] at hr
    subst hr
    simp only [St.init, List.append_nil] at hs
    subst hs
    exact ⟨⟨ha, hall⟩, rfl⟩
  · rintro ⟨⟨h1, h2⟩, rfl⟩
    exact ⟨St.init b, ⟨rfl, rfl⟩, _, ⟨_, ⟨b, [], h1, by simp [St.init], h2, rfl⟩, rfl⟩, rfl, rfl⟩

theorem xyz1strict_eq_regex (s : Str) : xyz1strictRe s = xyz1strictHand s := by
  unfold xyz1strictRe xyz1strictHand
  rw [matchPrefix_eq_head, head?_of_mem_iff (xyz1strict_mem (toBytes s))]
  have hd : (∀ c ∈ toBytes s, clsMem false [.digit] c = true) ↔ ∀ c ∈ s, c.isDigit = true := all_toBytes _ _ cls_digit s
  by_cases h : isNatLine s = true
  · have h' : s ≠ [] ∧ ∀ c ∈ s, c.isDigit = true := by
      simpa [isNatLine, allDigits, List.isEmpty_iff] using h
    have hb : toBytes s ≠ [] ∧ ∀ c ∈ toBytes s, clsMem false [.digit] c = true := ⟨by simpa [toBytes_eq_nil] using h'.1, hd.mpr h'.2⟩
    rw [if_pos hb, if_pos h]
    have htd : takeDiff (toBytes s) [] = toBytes s := by
      unfold takeDiff; exact List.take_of_length_le (by simp)
    simp [grp, St.group, St.capture, St.adv, St.init, htd, FromStringRegex.xyz1strictG.nat, List.lookup, ofBytes_toBytes]
  · have h' : ¬ (s ≠ [] ∧ ∀ c ∈ s, c.isDigit = true) := by
      simpa [isNatLine, allDigits, List.isEmpty_iff] using h
    have hb : ¬ (toBytes s ≠ [] ∧ ∀ c ∈ toBytes s, clsMem false [.digit] c = true) := by
      rw [hd]; simpa [toBytes_eq_nil] using h'
    rw [if_neg hb, if_neg h]; rfl

end QcelVerif.MolText
