import QcelVerif.Lemmas.C07ReShapes
/-! xyz1 = `\A(?P<nat>\d+)[\s,]*((?P<ubohr>(bohr|au))|(?P<uang>ang))?\Z` under IGNORECASE, read as `process_bohrang` reads it,
= the hand recogniser `matchXyz1`, for every string -/
namespace QcelVerif.MolText
open QcelVerif.Regex QcelVerif.Gen

/-! ## characters -/

theorem upper_not_wsComma_digit (c : Char) (h : 65 ≤ c.toNat) : isWsComma c = false ∧ c.isDigit = false := by
  rw [← cls_wsComma, ← cls_digit]
  simp only [clsMem, Item.mem, isSpaceC, isDigitC, List.any_cons, List.any_nil, Bool.or_false]
  constructor
  · simp; omega
  · simp; omega

theorem letter_not_wsComma_digit (c : Char) (k : Nat) (hk : 97 ≤ k) (h : c.toLower.toNat = k) :
    isWsComma c = false ∧ c.isDigit = false := by
  apply upper_not_wsComma_digit
  rw [toLower_nat] at h
  split at h <;> omega

theorem wsComma_not_digit (c : Char) (h : isWsComma c = true) : c.isDigit = false := by
  rw [← cls_wsComma] at h
  rw [← cls_digit]
  simp only [clsMem, Item.mem, isSpaceC, isDigitC, List.any_cons, List.any_nil, Bool.or_false] at h ⊢
  simp at h ⊢
  omega

theorem takeDrop_stop {α} {p : α → Bool} : ∀ {A R : List α}, (∀ c ∈ A, p c = true) → (∀ c t, R = c :: t → p c = false) →
    (A ++ R).takeWhile p = A ∧ (A ++ R).dropWhile p = R
  | [], [], _, _ => by simp
  | [], c :: t, _, hR => by simp [hR c t rfl]
  | a :: A, R, hA, hR => by
    have := takeDrop_stop (A := A) (R := R) (fun c hc => hA c (by simp [hc])) hR
    simp [hA a (by simp), this.1, this.2]

theorem of_mem_takeWhile {α} {p : α → Bool} : ∀ {l : List α} {c : α}, c ∈ l.takeWhile p → p c = true
  | [], _, h => by simp at h
  | a :: l, c, h => by
    by_cases ha : p a = true
    · simp only [List.takeWhile_cons, ha, if_true, List.mem_cons] at h
      rcases h with rfl | h
      · exact ha
      · exact of_mem_takeWhile h
    · simp [ha] at h

/-! ## one letter under IGNORECASE, on a rest that is the image of a `Str` -/

theorem mem_ci (k : Nat) (hk : 97 ≤ k ∧ k ≤ 122) {st x : St} {U : Str} (hU : st.rest = toBytes U) :
    x ∈ (Re.cls false [.ch k, .ch (k - 32)]).ms st ↔
      ∃ C T, U = C :: T ∧ C.toLower.toNat = k ∧ x = { st with prev := some C.toNat, rest := toBytes T } := by
  rw [mem_ms_cls]
  constructor
  · rintro ⟨c, t, h1, h2, rfl⟩
    rw [hU] at h1
    cases U with
    | nil => simp at h1
    | cons C T =>
      simp only [toBytes_cons, List.cons.injEq] at h1
      obtain ⟨rfl, rfl⟩ := h1
      rw [cls_ci _ _ hk] at h2
      exact ⟨C, T, rfl, by simpa using h2, rfl⟩
  · rintro ⟨C, T, rfl, h2, rfl⟩
    exact ⟨C.toNat, toBytes T, by simpa using hU, by rw [cls_ci _ _ hk]; simpa using h2, rfl⟩

/-! ## the three unit words followed by the end of the text -/

theorem wordBohr_sound {st x : St} {U : Str} (hU : st.rest = toBytes U) (hx : x ∈ wordBohr.ms st) (hr : x.rest = []) :
    lowerS U = "bohr".toList ∧ x.caps = st.caps := by
  unfold wordBohr at hx
  obtain ⟨m1, h1, hx⟩ := mem_ms_seq.mp hx
  obtain ⟨C1, T1, rfl, e1, rfl⟩ := (mem_ci 98 (by omega) hU).mp h1
  obtain ⟨m2, h2, hx⟩ := mem_ms_seq.mp hx
  obtain ⟨C2, T2, rfl, e2, rfl⟩ := (mem_ci 111 (by omega) rfl).mp h2
  obtain ⟨m3, h3, hx⟩ := mem_ms_seq.mp hx
  obtain ⟨C3, T3, rfl, e3, rfl⟩ := (mem_ci 104 (by omega) rfl).mp h3
  obtain ⟨C4, T4, rfl, e4, rfl⟩ := (mem_ci 114 (by omega) rfl).mp hx
  have hT : T4 = [] := toBytes_eq_nil.mp hr
  subst hT
  refine ⟨?_, rfl⟩
  have f1 : C1.toLower = 'b' := toNat_inj e1
  have f2 : C2.toLower = 'o' := toNat_inj e2
  have f3 : C3.toLower = 'h' := toNat_inj e3
  have f4 : C4.toLower = 'r' := toNat_inj e4
  simp [lowerS, f1, f2, f3, f4]

theorem wordBohr_complete {st : St} {U : Str} (hU : st.rest = toBytes U) (h : lowerS U = "bohr".toList) :
    ∃ x, x ∈ wordBohr.ms st ∧ x.rest = [] ∧ x.caps = st.caps := by
  match U, h with
  | [C1, C2, C3, C4], h =>
    simp [lowerS] at h
    obtain ⟨f1, f2, f3, f4⟩ := h
    unfold wordBohr
    refine ⟨{ st with prev := some C4.toNat, rest := [] }, ?_, rfl, rfl⟩
    refine mem_ms_seq.mpr ⟨_, (mem_ci 98 (by omega) hU).mpr ⟨C1, _, rfl, by rw [f1]; rfl, rfl⟩, ?_⟩
    refine mem_ms_seq.mpr ⟨_, (mem_ci 111 (by omega) rfl).mpr ⟨C2, _, rfl, by rw [f2]; rfl, rfl⟩, ?_⟩
    refine mem_ms_seq.mpr ⟨_, (mem_ci 104 (by omega) rfl).mpr ⟨C3, _, rfl, by rw [f3]; rfl, rfl⟩, ?_⟩
    exact (mem_ci 114 (by omega) rfl).mpr ⟨C4, _, rfl, by rw [f4]; rfl, rfl⟩
  | [], h => simp [lowerS] at h
  | [_], h => simp [lowerS] at h
  | [_, _], h => simp [lowerS] at h
  | [_, _, _], h => simp [lowerS] at h
  | _ :: _ :: _ :: _ :: _ :: _, h => simp [lowerS] at h

theorem wordAu_sound {st x : St} {U : Str} (hU : st.rest = toBytes U) (hx : x ∈ wordAu.ms st) (hr : x.rest = []) :
    lowerS U = "au".toList ∧ x.caps = st.caps := by
  unfold wordAu at hx
  obtain ⟨m1, h1, hx⟩ := mem_ms_seq.mp hx
  obtain ⟨C1, T1, rfl, e1, rfl⟩ := (mem_ci 97 (by omega) hU).mp h1
  obtain ⟨C2, T2, rfl, e2, rfl⟩ := (mem_ci 117 (by omega) rfl).mp hx
  have hT : T2 = [] := toBytes_eq_nil.mp hr
  subst hT
  refine ⟨?_, rfl⟩
  have f1 : C1.toLower = 'a' := toNat_inj e1
  have f2 : C2.toLower = 'u' := toNat_inj e2
  simp [lowerS, f1, f2]

theorem wordAu_complete {st : St} {U : Str} (hU : st.rest = toBytes U) (h : lowerS U = "au".toList) :
    ∃ x, x ∈ wordAu.ms st ∧ x.rest = [] ∧ x.caps = st.caps := by
  match U, h with
  | [C1, C2], h =>
    simp [lowerS] at h
    obtain ⟨f1, f2⟩ := h
    unfold wordAu
    refine ⟨{ st with prev := some C2.toNat, rest := [] }, ?_, rfl, rfl⟩
    refine mem_ms_seq.mpr ⟨_, (mem_ci 97 (by omega) hU).mpr ⟨C1, _, rfl, by rw [f1]; rfl, rfl⟩, ?_⟩
    exact (mem_ci 117 (by omega) rfl).mpr ⟨C2, _, rfl, by rw [f2]; rfl, rfl⟩
  | [], h => simp [lowerS] at h
  | [_], h => simp [lowerS] at h
  | _ :: _ :: _ :: _, h => simp [lowerS] at h

theorem wordAng_sound {st x : St} {U : Str} (hU : st.rest = toBytes U) (hx : x ∈ wordAng.ms st) (hr : x.rest = []) :
    lowerS U = "ang".toList ∧ x.caps = st.caps := by
  unfold wordAng at hx
  obtain ⟨m1, h1, hx⟩ := mem_ms_seq.mp hx
  obtain ⟨C1, T1, rfl, e1, rfl⟩ := (mem_ci 97 (by omega) hU).mp h1
  obtain ⟨m2, h2, hx⟩ := mem_ms_seq.mp hx
  obtain ⟨C2, T2, rfl, e2, rfl⟩ := (mem_ci 110 (by omega) rfl).mp h2
  obtain ⟨C3, T3, rfl, e3, rfl⟩ := (mem_ci 103 (by omega) rfl).mp hx
  have hT : T3 = [] := toBytes_eq_nil.mp hr
  subst hT
  refine ⟨?_, rfl⟩
  have f1 : C1.toLower = 'a' := toNat_inj e1
  have f2 : C2.toLower = 'n' := toNat_inj e2
  have f3 : C3.toLower = 'g' := toNat_inj e3
  simp [lowerS, f1, f2, f3]

theorem wordAng_complete {st : St} {U : Str} (hU : st.rest = toBytes U) (h : lowerS U = "ang".toList) :
    ∃ x, x ∈ wordAng.ms st ∧ x.rest = [] ∧ x.caps = st.caps := by
  match U, h with
  | [C1, C2, C3], h =>
    simp [lowerS] at h
    obtain ⟨f1, f2, f3⟩ := h
    unfold wordAng
    refine ⟨{ st with prev := some C3.toNat, rest := [] }, ?_, rfl, rfl⟩
    refine mem_ms_seq.mpr ⟨_, (mem_ci 97 (by omega) hU).mpr ⟨C1, _, rfl, by rw [f1]; rfl, rfl⟩, ?_⟩
    refine mem_ms_seq.mpr ⟨_, (mem_ci 110 (by omega) rfl).mpr ⟨C2, _, rfl, by rw [f2]; rfl, rfl⟩, ?_⟩
    exact (mem_ci 103 (by omega) rfl).mpr ⟨C3, _, rfl, by rw [f3]; rfl, rfl⟩
  | [], h => simp [lowerS] at h
  | [_], h => simp [lowerS] at h
  | [_, _], h => simp [lowerS] at h
  | _ :: _ :: _ :: _ :: _, h => simp [lowerS] at h

/-! ## the optional unit followed by `\Z` -/

/-- what `process_bohrang` reads off a match -/
def unitOf (st : St) : Option Bool :=
  if truthy st 5 then some false else if truthy st 3 then some true else none

/-- what `matchXyz1` answers on the text after the `[\s,]` run -/
def unitHand (U : Str) : Option (Option Bool) :=
  if (lowerS U).isEmpty then some none
  else if lowerS U == "bohr".toList || lowerS U == "au".toList then some (some true)
  else if lowerS U == "ang".toList then some (some false)
  else none

theorem unit_sound {m x : St} {U : Str} {z : List Nat} (hU : m.rest = toBytes U) (hc : m.caps = [(1, z)])
    (hx : x ∈ xyz1Unit.ms m) (hr : x.rest = []) :
    unitHand U = some (unitOf x) ∧ ∀ c t, U = c :: t → isWsComma c = false ∧ c.isDigit = false := by
  rw [xyz1Unit, mem_ms_opt] at hx
  rcases hx with hx | rfl
  · obtain ⟨y, hy, rfl⟩ := mem_ms_group.mp hx
    rcases mem_ms_alt.mp hy with hy | hy
    · obtain ⟨y3, hy3, rfl⟩ := mem_ms_group.mp hy
      obtain ⟨y4, hy4, rfl⟩ := mem_ms_group.mp hy3
      have hr' : y4.rest = [] := hr
      rcases mem_ms_alt.mp hy4 with hw | hw
      · obtain ⟨hl, hcaps⟩ := wordBohr_sound hU hw hr'
        match U, hl with
        | C :: T, hl =>
          have hC : C.toLower.toNat = 98 := by
            simp [lowerS] at hl; rw [hl.1]; rfl
          refine ⟨?_, ?_⟩
          · simp [unitHand, hl, unitOf, truthy, St.group, List.lookup, hcaps, hc, hr', hU, takeDiff_nil]
          · intro c t h; injection h with h1 _; subst h1
            exact letter_not_wsComma_digit _ 98 (by omega) hC
      · obtain ⟨hl, hcaps⟩ := wordAu_sound hU hw hr'
        match U, hl with
        | C :: T, hl =>
          have hC : C.toLower.toNat = 97 := by
            simp [lowerS] at hl; rw [hl.1]; rfl
          refine ⟨?_, ?_⟩
          · simp [unitHand, hl, unitOf, truthy, St.group, List.lookup, hcaps, hc, hr', hU, takeDiff_nil]
          · intro c t h; injection h with h1 _; subst h1
            exact letter_not_wsComma_digit _ 97 (by omega) hC
    · obtain ⟨y5, hy5, rfl⟩ := mem_ms_group.mp hy
      have hr' : y5.rest = [] := hr
      obtain ⟨hl, hcaps⟩ := wordAng_sound hU hy5 hr'
      match U, hl with
      | C :: T, hl =>
        have hC : C.toLower.toNat = 97 := by
          simp [lowerS] at hl; rw [hl.1]; rfl
        refine ⟨?_, ?_⟩
        · simp [unitHand, hl, unitOf, truthy, St.group, List.lookup, hcaps, hc, hr', hU, takeDiff_nil]
        · intro c t h; injection h with h1 _; subst h1
          exact letter_not_wsComma_digit _ 97 (by omega) hC
  · rw [hU] at hr
    have hn : U = [] := toBytes_eq_nil.mp hr
    subst hn
    refine ⟨?_, ?_⟩
    · simp [unitHand, lowerS, unitOf, truthy, St.group, List.lookup, hc]
    · intro c t h; simp at h

theorem unit_complete {m : St} {U : Str} (hU : m.rest = toBytes U) (h : unitHand U ≠ none) :
    ∃ x, x ∈ xyz1Unit.ms m ∧ x.rest = [] := by
  rw [xyz1Unit]
  simp only [mem_ms_opt, mem_ms_group, mem_ms_alt]
  by_cases h0 : (lowerS U).isEmpty = true
  · have : U = [] := by
      cases U with
      | nil => rfl
      | cons c t => simp [lowerS] at h0
    subst this
    exact ⟨m, Or.inr rfl, hU⟩
  · by_cases h1 : lowerS U = "bohr".toList
    · obtain ⟨y, hy, hyr, _⟩ := wordBohr_complete hU h1
      exact ⟨_, Or.inl ⟨_, Or.inl ⟨_, ⟨_, Or.inl hy, rfl⟩, rfl⟩, rfl⟩, hyr⟩
    · by_cases h2 : lowerS U = "au".toList
      · obtain ⟨y, hy, hyr, _⟩ := wordAu_complete hU h2
        exact ⟨_, Or.inl ⟨_, Or.inl ⟨_, ⟨_, Or.inr hy, rfl⟩, rfl⟩, rfl⟩, hyr⟩
      · by_cases h3 : lowerS U = "ang".toList
        · obtain ⟨y, hy, hyr, _⟩ := wordAng_complete hU h3
          exact ⟨_, Or.inl ⟨_, Or.inr ⟨_, hy, rfl⟩, rfl⟩, hyr⟩
        · exfalso
          apply h
          simp at h1 h2 h3
          simp [unitHand, h0, h1, h2, h3]

/-! ## the whole pattern -/

/-- the state in front of the optional unit: digits `a`, then the `[\s,]` run `w`, `u` left -/
def xyz1Mid (b a w u : List Nat) : St := (St.capture 1 (St.init b) ((St.init b).adv a (w ++ u))).adv w u

theorem xyz1_mem (b : List Nat) (x : St) :
    x ∈ FromStringRegex.xyz1.ms (St.init b) ↔
      ∃ a w u, b = a ++ (w ++ u) ∧ a ≠ [] ∧ (∀ c ∈ a, clsMem false [.digit] c = true) ∧
        (∀ c ∈ w, clsMem false [.space, .ch 44] c = true) ∧ x ∈ xyz1Unit.ms (xyz1Mid b a w u) ∧ x.rest = [] := by
  simp only [xyz1_shape, digits1, wsComma0, mem_ms_seq, mem_ms_bos, mem_ms_group, mem_ms_plus, mem_ms_star, mem_ms_eos]
  constructor
  · rintro ⟨m, ⟨_, rfl⟩, m2, ⟨m3, ⟨a, r, ha, hs, hall, rfl⟩, rfl⟩, m4, ⟨w, u, hw, hwall, rfl⟩, m5, hm5, hr, rfl⟩
    simp only [capture_rest', adv_rest'] at hw
    subst hw
    exact ⟨a, w, u, hs, ha, hall, hwall, hm5, hr⟩
  · rintro ⟨a, w, u, hs, ha, hall, hwall, hx, hr⟩
    exact ⟨St.init b, ⟨rfl, rfl⟩, _, ⟨_, ⟨a, w ++ u, ha, hs, hall, rfl⟩, rfl⟩, _, ⟨w, u, rfl, hwall, rfl⟩, x, hx, hr, rfl⟩

/-- the hand recogniser on a text cut at the two maximal runs -/
theorem matchXyz1_split (A W U : Str) (hA : A ≠ []) (hAd : ∀ c ∈ A, c.isDigit = true) (hW : ∀ c ∈ W, isWsComma c = true)
    (hU : ∀ c t, U = c :: t → isWsComma c = false ∧ c.isDigit = false) : matchXyz1 (A ++ (W ++ U)) = unitHand U := by
  have h1 := takeDrop_stop (p := Char.isDigit) (A := A) (R := W ++ U) hAd (by
    intro c t h
    cases W with
    | nil => exact (hU c t h).2
    | cons d W' =>
      injection h with h1 _
      subst h1
      exact wsComma_not_digit _ (hW _ (by simp)))
  have h2 := takeDrop_stop (p := isWsComma) (A := W) (R := U) hW (fun c t h => (hU c t h).1)
  unfold matchXyz1 unitHand
  simp only [h1.1, h1.2, h2.2]
  cases A with
  | nil => exact absurd rfl hA
  | cons a A' => simp

theorem xyz1_sound (s : Str) (x : St) (hx : x ∈ FromStringRegex.xyz1.ms (St.init (toBytes s))) : matchXyz1 s = some (unitOf x) := by
  obtain ⟨a, r, u, hs, ha, hall, hwall, hxu, hr⟩ := (xyz1_mem _ _).mp hx
  obtain ⟨A, R, rfl, rfl, hR⟩ := toBytes_eq_append hs
  obtain ⟨W, U, rfl, rfl, rfl⟩ := toBytes_eq_append hR.symm
  have hu := unit_sound (m := xyz1Mid _ _ _ _) (U := U) rfl rfl hxu hr
  rw [matchXyz1_split A W U (by simpa [toBytes_eq_nil] using ha) ((all_toBytes _ _ cls_digit A).mp hall)
    ((all_toBytes _ _ cls_wsComma W).mp hwall) hu.2]
  exact hu.1

theorem xyz1_complete (s : Str) (h : matchXyz1 s ≠ none) : ∃ x, x ∈ FromStringRegex.xyz1.ms (St.init (toBytes s)) := by
  have hs : s = s.takeWhile Char.isDigit ++ ((s.dropWhile Char.isDigit).takeWhile isWsComma ++ (s.dropWhile Char.isDigit).dropWhile isWsComma) := by
    rw [List.takeWhile_append_dropWhile, List.takeWhile_append_dropWhile]
  have hA : s.takeWhile Char.isDigit ≠ [] := by
    intro hA
    apply h
    simp [matchXyz1, hA]
  have hU : unitHand ((s.dropWhile Char.isDigit).dropWhile isWsComma) ≠ none := by
    intro hU
    apply h
    have hA' : (s.takeWhile Char.isDigit).isEmpty = false := by simpa [List.isEmpty_iff] using hA
    unfold unitHand at hU
    unfold matchXyz1
    simp only [hA', Bool.false_eq_true, if_false]
    exact hU
  obtain ⟨x, hx, hr⟩ := unit_complete
    (m := xyz1Mid (toBytes s) (toBytes (s.takeWhile Char.isDigit)) (toBytes ((s.dropWhile Char.isDigit).takeWhile isWsComma))
      (toBytes ((s.dropWhile Char.isDigit).dropWhile isWsComma))) rfl hU
  refine ⟨x, (xyz1_mem _ _).mpr ⟨_, _, _, ?_, ?_, ?_, ?_, hx, hr⟩⟩
  · rw [← toBytes_append, ← toBytes_append, ← hs]
  · simpa [toBytes_eq_nil] using hA
  · rw [all_toBytes _ _ cls_digit]
    intro c hc
    exact of_mem_takeWhile hc
  · rw [all_toBytes _ _ cls_wsComma]
    intro c hc
    exact of_mem_takeWhile hc

/-- **xyz1**: the count line with an optional unit word, by the generic engine on the generated AST and read through the named
groups as `process_bohrang` reads them, is the hand recogniser `matchXyz1`, for every string -/
theorem xyz1_eq_regex (s : Str) : xyz1Re s = xyz1Hand s := by
  unfold xyz1Re xyz1Hand
  rw [matchPrefix_eq_head]
  cases hms : FromStringRegex.xyz1.ms (St.init (toBytes s)) with
  | nil =>
    by_cases h : matchXyz1 s = none
    · rw [h]; rfl
    · obtain ⟨x, hx⟩ := xyz1_complete s h
      rw [hms] at hx
      simp at hx
  | cons x l =>
    have := xyz1_sound s x (by rw [hms]; simp)
    rw [this]
    rfl

end QcelVerif.MolText
