import QcelVerif.Lemmas.C07ReShapes
/-!
C07 — `filter_comments`: `re.sub(r"(^|[^\\])#.*", r"\1", s)` computed by the generic regex engine on the generated AST
(`FromStringRegex.comment`) equals the hand-written one-pass stripper `filterComments` of M1, for EVERY string (no length bound).

  * one match attempt at the cursor, closed form (`comment_bt_start`, `comment_bt_mid`, `comment_bt_no`, `comment_bt_nil`)
  * the scan of `re.sub` at the level of the output text (`subOut`, `subOut_nil/_hit/_skip`)
  * `subOut_eq_fcGo`: strong induction on the text, with the invariant that the cursor is never on a `#` that follows a
    non-backslash character except at the very start (such a `#` belongs to the match that starts one character earlier)
  * `comment_eq_regex`
-/
namespace QcelVerif.MolText
open QcelVerif.Regex QcelVerif.Gen

theorem lastOr_some (l : List Nat) : ∀ x, ∃ y, lastOr (some x) l = some y := by
  induction l with
  | nil => intro x; exact ⟨x, rfl⟩
  | cons c t ih => intro x; exact ih c

theorem seq_ms (a b : Re) (m : St) : (Re.seq a b).ms m = (a.ms m).flatMap fun st' => b.ms st' := rfl

theorem commentTail_hash (m : St) (t : List Nat) (h : m.rest = 35 :: t) :
    (commentTail.ms m).head? = some ((⟨some 35, t, m.caps⟩ : St).adv (t.takeWhile (clsMem true [.ch 10])) (t.dropWhile (clsMem true [.ch 10]))) := by
  have h1 : (Re.cls false [.ch 35]).ms m = [⟨some 35, t, m.caps⟩] := by
    simp [Re.ms, stepCls, h, clsMem, Item.mem]
  unfold commentTail
  rw [seq_ms, h1]
  simp only [List.flatMap_cons, List.flatMap_nil, List.append_nil]
  exact ms_star_head _ _ _

theorem commentTail_none (m : St) (h : ∀ t, m.rest ≠ 35 :: t) : commentTail.ms m = [] := by
  have h1 : (Re.cls false [.ch 35]).ms m = [] := by
    cases hr : m.rest with
    | nil => simp [Re.ms, stepCls, hr]
    | cons c t =>
      have : c ≠ 35 := fun hc => h t (by rw [hr, hc])
      simp [Re.ms, stepCls, hr, clsMem, Item.mem, this]
  unfold commentTail
  rw [seq_ms, h1]
  rfl

theorem commentHead_ms (st : St) : commentHead.ms st =
    ((if st.prev.isNone then [st] else []) ++ (stepCls true [.ch 92] st).toList).map (fun st' => St.capture 1 st st') := rfl

theorem comment_bt (st : St) : FromStringRegex.comment.bt some st = ((commentHead.ms st).flatMap fun m => commentTail.ms m).head? := by
  rw [bt_eq_findSome, findSome?_some_eq_head?, comment_shape, seq_ms]

/-- at the very start, on a `#`: the `^` alternative -/
theorem comment_bt_start (t : List Nat) :
    ∃ st, FromStringRegex.comment.bt some ⟨none, 35 :: t, []⟩ = some st ∧ st.rest = t.dropWhile (clsMem true [.ch 10]) ∧
      st.prev ≠ none ∧ groupText st 1 = [] := by
  rw [comment_bt, commentHead_ms]
  simp only [Option.isNone_none, if_true, List.cons_append, List.map_cons, List.nil_append]
  rw [head?_flatMap_cons, commentTail_hash _ t rfl]
  refine ⟨_, rfl, rfl, ?_, ?_⟩
  · obtain ⟨y, hy⟩ := lastOr_some (t.takeWhile (clsMem true [.ch 10])) 35
    simp [hy]
  · simp [groupText, St.group, takeDiff]


theorem stepCls_bs (ep : Option Nat) (c : Nat) (t : List Nat) (caps : Caps) :
    stepCls true [.ch 92] ⟨ep, c :: t, caps⟩ = if c ≠ 92 then some ⟨some c, t, caps⟩ else none := by
  by_cases h : c = 92 <;> simp [stepCls, clsMem, Item.mem, h]

/-- `[^\\]#…`: a character other than a backslash, then `#` -/
theorem comment_bt_mid (ep : Option Nat) (c : Nat) (t : List Nat) (hc : c ≠ 92) (h : ep = none → c ≠ 35) :
    ∃ st, FromStringRegex.comment.bt some ⟨ep, c :: 35 :: t, []⟩ = some st ∧ st.rest = t.dropWhile (clsMem true [.ch 10]) ∧
      st.prev ≠ none ∧ groupText st 1 = [c] := by
  rw [comment_bt, commentHead_ms, stepCls_bs]
  simp only [hc, ne_eq, not_false_eq_true, if_true, Option.toList_some]
  have hfin : ∃ st, ((List.map (fun st' => St.capture 1 ⟨ep, c :: 35 :: t, []⟩ st') [⟨some c, 35 :: t, []⟩]).flatMap
        fun m => commentTail.ms m).head? = some st ∧ st.rest = t.dropWhile (clsMem true [.ch 10]) ∧
      st.prev ≠ none ∧ groupText st 1 = [c] := by
    simp only [List.map_cons, List.map_nil]
    rw [head?_flatMap_cons, commentTail_hash _ t rfl]
    refine ⟨_, rfl, rfl, ?_, ?_⟩
    · obtain ⟨y, hy⟩ := lastOr_some (t.takeWhile (clsMem true [.ch 10])) 35
      simp [hy]
    · have : takeDiff (c :: 35 :: t) (35 :: t) = [c] := takeDiff_append' [c] (35 :: t)
      simp [groupText, St.group, this]
  cases ep with
  | none =>
    have hc35 := h rfl
    simp only [Option.isNone_none, if_true, List.cons_append, List.nil_append]
    rw [List.map_cons, head?_flatMap_cons, commentTail_none _ (by intro t'; simp [hc35])]
    simpa using hfin
  | some p =>
    simpa using hfin

theorem comment_bt_nil (ep : Option Nat) : FromStringRegex.comment.bt some ⟨ep, [], []⟩ = none := by
  rw [comment_bt, flatMap_eq_nil_of_all]; · rfl
  intro m hm
  apply commentTail_none
  rw [commentHead_ms] at hm
  cases ep <;> simp [stepCls] at hm <;> simp [hm]

theorem comment_bt_no (ep : Option Nat) (c : Nat) (t : List Nat) (h1 : ep = none → c ≠ 35) (h2 : c ≠ 92 → ∀ t', t ≠ 35 :: t') :
    FromStringRegex.comment.bt some ⟨ep, c :: t, []⟩ = none := by
  rw [comment_bt, flatMap_eq_nil_of_all]; · rfl
  intro m hm
  apply commentTail_none
  rw [commentHead_ms, stepCls_bs] at hm
  simp only [List.mem_map, List.mem_append] at hm
  obtain ⟨m', hm', rfl⟩ := hm
  rcases hm' with hm' | hm'
  · cases ep with
    | none => 
      simp at hm'
      subst hm'
      intro t'
      simp [h1 rfl]
    | some p => simp at hm'
  · by_cases hc : c = 92
    · simp [hc] at hm'
    · simp [hc] at hm'
      subst hm'
      exact h2 hc

/-! ## the scan, at the level of the output text -/

def cmRender (x : List Hit × List Nat) : List Nat := x.1.flatMap (fun h => h.1 ++ groupText h.2 1) ++ x.2

def subOut (fuel : Nat) (ep : Option Nat) (s : List Nat) : Option (List Nat) :=
  (scanFuel FromStringRegex.comment fuel ep s).map cmRender

theorem subGroup_eq_subOut (s : List Nat) : subGroup FromStringRegex.comment 1 s = subOut (s.length + 1) none s := rfl

theorem subOut_nil (f : Nat) (ep : Option Nat) : subOut (f + 1) ep [] = some [] := by
  unfold subOut; rw [scanFuel_nil _ _ _ (comment_bt_nil ep)]; rfl

theorem subOut_hit (f : Nat) (ep : Option Nat) (c : Nat) (t : List Nat) (st : St)
    (h : FromStringRegex.comment.bt some ⟨ep, c :: t, []⟩ = some st) (hlt : st.rest.length < (c :: t).length) :
    subOut (f + 1) ep (c :: t) = (subOut f st.prev st.rest).map fun o => groupText st 1 ++ o := by
  unfold subOut; rw [scanFuel_hit _ _ _ _ _ _ h hlt]
  cases scanFuel FromStringRegex.comment f st.prev st.rest with
  | none => rfl
  | some x => simp [cmRender]

theorem subOut_skip (f : Nat) (ep : Option Nat) (c : Nat) (t : List Nat)
    (h : FromStringRegex.comment.bt some ⟨ep, c :: t, []⟩ = none) :
    subOut (f + 1) ep (c :: t) = (subOut (f + 1) (some c) t).map fun o => c :: o := by
  unfold subOut; rw [scanFuel_skip _ _ _ _ _ h]
  cases scanFuel FromStringRegex.comment (f + 1) (some c) t with
  | none => rfl
  | some x =>
    obtain ⟨hits, tail⟩ := x
    cases hits <;> simp [cmRender]

/-! ## the hand function -/

def notNl (c : Char) : Bool := !(c == '\n')

theorem cls_notNl (c : Char) : clsMem true [.ch 10] c.toNat = notNl c := by
  rw [cls_not_ch, notNl, beq_lit]; rfl

theorem fcGo_keep (hp : Option Char) (c : Char) (t : Str) (h : c = '#' → hp = some '\\') :
    fcGo false hp (c :: t) = c :: fcGo false (some c) t := by
  by_cases hc : c = '#'
  · subst hc; simp [fcGo, h rfl]
  · simp [fcGo, hc]

theorem fcGo_open (hp : Option Char) (t : Str) (h : hp ≠ some '\\') : fcGo false hp ('#' :: t) = fcGo true hp t := by
  simp [fcGo, h]

/-- inside a comment: on from the next newline (any `prev` there: a newline opens no comment) -/
theorem fcGo_true (p q : Option Char) (t : Str) : fcGo true p t = fcGo false q (t.dropWhile notNl) := by
  induction t with
  | nil => rfl
  | cons c t ih =>
    by_cases hc : c = '\n'
    · subst hc
      simp [fcGo, notNl]
    · have hn : notNl c = true := by simp [notNl, hc]
      simp [fcGo, hc, hn, ih]

theorem dropWhile_head {α} (p : α → Bool) : ∀ (l : List α) (x : α) (r : List α), l.dropWhile p = x :: r → p x = false := by
  intro l
  induction l with
  | nil => intro x r h; simp at h
  | cons a t ih =>
    intro x r h
    by_cases ha : p a = true
    · simp [ha] at h; exact ih x r h
    · simp [ha] at h; rw [← h.1]; simpa using ha

theorem dropWhile_length_le {α} (p : α → Bool) (l : List α) : (l.dropWhile p).length ≤ l.length := by
  induction l with
  | nil => simp
  | cons a t ih => simp only [List.dropWhile_cons]; split <;> simp <;> omega

theorem toNat_ne {c d : Char} (h : c ≠ d) : c.toNat ≠ d.toNat := fun e => h (toNat_inj e)

/-! ## the scan against the hand function -/

theorem subOut_eq_fcGo : ∀ (n : Nat) (s : Str), s.length ≤ n → ∀ fuel, s.length < fuel → ∀ (ep : Option Nat) (hp : Option Char),
    (ep = none → hp = none) → (ep ≠ none → ∀ t, s = '#' :: t → hp = some '\\') →
    subOut fuel ep (toBytes s) = some (toBytes (fcGo false hp s)) := by
  intro n
  induction n with
  | zero =>
    intro s hn fuel hf ep hp _ _
    obtain ⟨f, rfl⟩ : ∃ f, fuel = f + 1 := ⟨fuel - 1, by omega⟩
    have : s = [] := List.eq_nil_of_length_eq_zero (by omega)
    subst this
    exact subOut_nil f ep
  | succ n ih =>
    intro s hn fuel hf ep hp h0 h1
    obtain ⟨f, rfl⟩ : ∃ f, fuel = f + 1 := ⟨fuel - 1, by omega⟩
    cases s with
    | nil => exact subOut_nil f ep
    | cons c t =>
      simp only [List.length_cons] at hn hf
      -- after a hit: on from the next newline
      have after : ∀ (st : St) (t' : Str) (q : Option Char), t'.length ≤ t.length →
          st.rest = (toBytes t').dropWhile (clsMem true [.ch 10]) → st.prev ≠ none →
          subOut f st.prev st.rest = some (toBytes (fcGo true q t')) := by
        intro st t' q hl hr hpv
        rw [hr, dropWhile_toBytes _ notNl cls_notNl, fcGo_true q q]
        have hle := dropWhile_length_le notNl t'
        apply ih _ (by omega) f (by omega) st.prev q (fun h => absurd h hpv)
        intro _ r hr'
        have := dropWhile_head notNl t' '#' r hr'
        simp [notNl] at this
      by_cases hB : ep = none ∧ c = '#'
      · obtain ⟨rfl, rfl⟩ := hB
        obtain ⟨st, hbt, hrest, hprev, hg⟩ := comment_bt_start (toBytes t)
        have hp0 := h0 rfl
        subst hp0
        have hlt : st.rest.length < (35 :: toBytes t).length := by
          rw [hrest, dropWhile_toBytes _ notNl cls_notNl]
          have := dropWhile_length_le notNl t
          simp; omega
        rw [toBytes_cons, show '#'.toNat = 35 from rfl, subOut_hit f none _ _ st hbt hlt, hg, after st t none (Nat.le_refl _) hrest hprev,
          fcGo_open none t (by simp)]
        rfl
      · by_cases hC : c ≠ '\\' ∧ ∃ t', t = '#' :: t'
        · obtain ⟨hc, t', rfl⟩ := hC
          have hkeep : c = '#' → hp = some '\\' := by
            intro hc'
            apply h1 _ _ (by rw [hc'])
            intro he; exact hB ⟨he, hc'⟩
          obtain ⟨st, hbt, hrest, hprev, hg⟩ := comment_bt_mid ep c.toNat (toBytes t') (toNat_ne hc)
            (fun he => toNat_ne (fun hc' => hB ⟨he, hc'⟩))
          have hlt : st.rest.length < (c.toNat :: 35 :: toBytes t').length := by
            rw [hrest, dropWhile_toBytes _ notNl cls_notNl]
            have := dropWhile_length_le notNl t'
            simp; omega
          rw [toBytes_cons, toBytes_cons, show '#'.toNat = 35 from rfl, subOut_hit f ep _ _ st hbt hlt, hg,
            after st t' (some c) (by simp) hrest hprev, fcGo_keep hp c _ hkeep,
            fcGo_open (some c) t' (by simpa using hc)]
          rfl
        · have hkeep : c = '#' → hp = some '\\' := by
            intro hc'
            apply h1 _ _ (by rw [hc'])
            intro he; exact hB ⟨he, hc'⟩
          have hbt : FromStringRegex.comment.bt some ⟨ep, c.toNat :: toBytes t, []⟩ = none := by
            apply comment_bt_no
            · intro he hc'
              exact hB ⟨he, toNat_inj hc'⟩
            · intro hc' t' ht
              apply hC
              refine ⟨fun e => hc' (by rw [e]; rfl), ?_⟩
              cases t with
              | nil => simp at ht
              | cons d r =>
                simp only [toBytes_cons, List.cons.injEq] at ht
                exact ⟨r, by rw [toNat_inj (c := d) (d := '#') ht.1]⟩
          rw [toBytes_cons, subOut_skip f ep _ _ hbt, fcGo_keep hp c t hkeep,
            ih t (by omega) (f + 1) (by omega) (some c.toNat) (some c) (by simp)]
          · rfl
          · intro _ t' ht
            by_cases hc' : c = '\\'
            · rw [hc']
            · exact absurd ⟨hc', t', ht⟩ hC

theorem comment_eq_regex (s : Str) : filterCommentsRe s = filterCommentsHand s := by
  unfold filterCommentsRe filterCommentsHand filterComments
  rw [subGroup_eq_subOut, toBytes_length,
    subOut_eq_fcGo s.length s (Nat.le_refl _) (s.length + 1) (Nat.lt_succ_self _) none none (fun _ => rfl) (fun h => absurd rfl h)]
  simp [ofBytes_toBytes]

example : filterCommentsRe "a #b\n#c\nd\\#e".toList = some "a \n\nd\\#e".toList := by decide
example : filterCommentsRe "##x\n\\##y".toList = some "\n\\#".toList := by decide
example : filterCommentsRe "#".toList = some [] := by decide
example : filterCommentsRe "".toList = some [] := by decide

end QcelVerif.MolText
