import QcelVerif.Lemmas.C07ReAtomShapes
/-!
C07 — SIMPLENUCLEUS `((?P<E>[A-Z]{1,3})|(?P<Z>\d{1,3}))` (IGNORECASE folded into the class), the nucleus group of
`atom_cartesian_strict`, through the generic engine, for texts of EVERY length:

  * `mem_classRuns_some`, `mem_ms_rep13`  membership for a BOUNDED greedy class repetition (`[class]{1,3}`): every split
    `consumed ++ rest` with `consumed` inside the class and `1 ≤ |consumed| ≤ 3`
  * `simpleNuc_mem`, `simpleNuc_ext`      the group takes exactly the prefixes accepted by `isSimpleNucleus` and captures them as group 1
  * `isSimpleNucleus_no_sep / _ne_nil`, `simple_isNucleus`  a simple nucleus has no separator, is not empty, and is a NUCLEUS
-/
namespace QcelVerif.MolText
open QcelVerif.Regex QcelVerif.Gen

theorem mem_classRuns_some (p : Nat → Bool) :
    ∀ (s : List Nat) (lo hi f : Nat), s.length < f → ∀ x : List Nat × List Nat,
      x ∈ classRuns p lo (some hi) f s ↔
        (s = x.1 ++ x.2 ∧ (∀ c ∈ x.1, p c = true) ∧ lo ≤ x.1.length ∧ x.1.length ≤ hi) := by
  intro s
  induction s with
  | nil =>
    intro lo hi f hf x
    obtain ⟨f', rfl⟩ : ∃ f', f = f' + 1 := ⟨f - 1, by omega⟩
    obtain ⟨a, b⟩ := x
    have hmore : (if some hi = some 0 then ([] : List (List Nat × List Nat)) else
        match ([] : List Nat) with
        | c :: t => if p c then (classRuns p (lo - 1) (decHi (some hi)) f' t).map fun x => (c :: x.1, x.2) else []
        | [] => []) = [] := by split <;> rfl
    simp only [classRuns, hmore, List.nil_append]
    by_cases hlo : lo = 0
    · subst hlo
      constructor
      · intro h; simp at h; obtain ⟨rfl, rfl⟩ := h; simp
      · rintro ⟨h1, _, _⟩
        have := List.append_eq_nil_iff.mp h1.symm
        simp [this.1, this.2]
    · simp only [hlo, if_false]
      constructor
      · intro h; simp at h
      · rintro ⟨h1, _, h3, _⟩
        have := List.append_eq_nil_iff.mp h1.symm
        simp [this.1] at h3
        exact absurd h3 hlo
  | cons c t ih =>
    intro lo hi f hf x
    obtain ⟨f', rfl⟩ : ∃ f', f = f' + 1 := ⟨f - 1, by omega⟩
    have hf' : t.length < f' := by simp at hf; omega
    obtain ⟨a, b⟩ := x
    simp only [classRuns, List.mem_append]
    cases hi with
    | zero =>
      simp only [if_true, List.not_mem_nil, false_or]
      constructor
      · intro h
        by_cases hlo : lo = 0
        · simp [hlo] at h; obtain ⟨rfl, rfl⟩ := h; simp [hlo]
        · simp [hlo] at h
      · rintro ⟨h1, _, h3, h4⟩
        have ha : a = [] := List.eq_nil_of_length_eq_zero (by omega)
        subst ha
        simp at h3 h1
        simp [h3, h1]
    | succ h' =>
      have hne : (some (h' + 1) = some 0) = False := by simp
      simp only [hne, if_false, decHi, Nat.add_sub_cancel]
      constructor
      · rintro (h | h)
        · by_cases hp : p c = true
          · simp only [hp, if_true, List.mem_map] at h
            obtain ⟨y, hy, hxy⟩ := h
            have := (ih (lo - 1) h' f' hf' y).mp hy
            injection hxy with h1 h2
            subst h1; subst h2
            refine ⟨by simp [this.1], ?_, by simp; omega, by simp; omega⟩
            intro d hd
            simp at hd
            rcases hd with rfl | hd
            · exact hp
            · exact this.2.1 d hd
          · simp [hp] at h
        · by_cases hlo : lo = 0
          · simp [hlo] at h; obtain ⟨rfl, rfl⟩ := h; simp [hlo]
          · simp [hlo] at h
      · rintro ⟨h1, h2, h3, h4⟩
        cases a with
        | nil =>
          right
          simp at h3 h1
          simp [h3, h1]
        | cons d a' =>
          left
          simp at h1
          obtain ⟨rfl, h1⟩ := h1
          have hp : p c = true := h2 c (by simp)
          simp only [hp, if_true, List.mem_map]
          simp only [List.length_cons] at h3 h4
          refine ⟨(a', b), (ih (lo - 1) h' f' hf' (a', b)).mpr ⟨h1, fun e he => h2 e (by simp [he]), by
            show lo - 1 ≤ a'.length
            omega, by show a'.length ≤ h'; omega⟩, rfl⟩

theorem mem_ms_rep13 {neg : Bool} {items : List Item} {st x : St} :
    x ∈ (Re.rep 1 (some 3) true (.cls neg items)).ms st ↔
      ∃ a r, a ≠ [] ∧ a.length ≤ 3 ∧ st.rest = a ++ r ∧ (∀ c ∈ a, clsMem neg items c = true) ∧ x = st.adv a r := by
  rw [show (Re.rep 1 (some 3) true (.cls neg items)).ms st
        = repMs (fun st' => Re.ms (.cls neg items) st') 1 (some 3) true (st.rest.length + 1) st from rfl, repMs_cls,
      List.mem_map]
  constructor
  · rintro ⟨y, hy, rfl⟩
    have := (mem_classRuns_some _ _ 1 3 _ (Nat.lt_succ_self _) y).mp hy
    refine ⟨y.1, y.2, ?_, this.2.2.2, this.1, this.2.1, rfl⟩
    intro h; rw [h] at this; simp at this
  · rintro ⟨a, r, h0, hl, h1, h2, rfl⟩
    refine ⟨(a, r), (mem_classRuns_some _ _ 1 3 _ (Nat.lt_succ_self _) (a, r)).mpr ⟨h1, h2, ?_, hl⟩, rfl⟩
    cases a with
    | nil => exact absurd rfl h0
    | cons _ _ => simp


theorem cls_alpha (c : Char) : clsMem false [.range 65 90, .range 97 122] c.toNat = c.isAlpha := by
  rw [isAlpha_nat]; simp [clsMem, Item.mem, isAlphaC]

theorem isSimpleNucleus_iff (t : Str) :
    isSimpleNucleus t = true ↔
      (t ≠ [] ∧ t.length ≤ 3) ∧ ((∀ c ∈ t, c.isAlpha = true) ∨ (∀ c ∈ t, c.isDigit = true)) := by
  unfold isSimpleNucleus allDigits
  simp only [Bool.and_eq_true, Bool.or_eq_true, decide_eq_true_eq, List.all_eq_true]
  constructor
  · rintro ⟨⟨h1, h2⟩, h3⟩
    refine ⟨⟨?_, h2⟩, h3⟩
    intro h; subst h; simp at h1
  · rintro ⟨⟨h1, h2⟩, h3⟩
    refine ⟨⟨?_, h2⟩, h3⟩
    cases t with
    | nil => exact absurd rfl h1
    | cons _ _ => simp

theorem simpleNuc_mem (b : List Nat) (x : St) :
    x ∈ (Re.group 1 simpleNuc).ms (St.init b) ↔
      ∃ a r, a ≠ [] ∧ a.length ≤ 3 ∧ b = a ++ r ∧
        (((∀ c ∈ a, clsMem false [.range 65 90, .range 97 122] c = true) ∧
            x = St.capture 1 (St.init b) (St.capture 2 (St.init b) (St.capture 3 (St.init b) ((St.init b).adv a r)))) ∨
         ((∀ c ∈ a, clsMem false [.digit] c = true) ∧
            x = St.capture 1 (St.init b) (St.capture 2 (St.init b) (St.capture 4 (St.init b) ((St.init b).adv a r))))) := by
  simp only [simpleNuc, mem_ms_group, mem_ms_alt, mem_ms_rep13]
  constructor
  · rintro ⟨m, ⟨m2, (⟨m3, ⟨a, r, h0, hl, hs, hall, rfl⟩, rfl⟩ | ⟨m3, ⟨a, r, h0, hl, hs, hall, rfl⟩, rfl⟩), rfl⟩, rfl⟩
    · exact ⟨a, r, h0, hl, hs, Or.inl ⟨hall, rfl⟩⟩
    · exact ⟨a, r, h0, hl, hs, Or.inr ⟨hall, rfl⟩⟩
  · rintro ⟨a, r, h0, hl, hs, (⟨hall, rfl⟩ | ⟨hall, rfl⟩)⟩
    · exact ⟨_, ⟨_, Or.inl ⟨_, ⟨a, r, h0, hl, hs, hall, rfl⟩, rfl⟩, rfl⟩, rfl⟩
    · exact ⟨_, ⟨_, Or.inr ⟨_, ⟨a, r, h0, hl, hs, hall, rfl⟩, rfl⟩, rfl⟩, rfl⟩

theorem simpleNuc_ext : NucExtFor simpleNuc isSimpleNucleus := by
  intro s
  constructor
  · intro x hx
    obtain ⟨a, r, h0, hl, hs, hx⟩ := (simpleNuc_mem _ _).mp hx
    obtain ⟨t, r', rfl, rfl, rfl⟩ := toBytes_eq_append hs
    refine ⟨t, r', rfl, ?_, ?_, ?_⟩
    · rw [isSimpleNucleus_iff]
      refine ⟨⟨by simpa [toBytes_eq_nil] using h0, by simpa using hl⟩, ?_⟩
      rcases hx with ⟨hall, _⟩ | ⟨hall, _⟩
      · exact Or.inl ((all_toBytes _ _ cls_alpha t).mp hall)
      · exact Or.inr ((all_toBytes _ _ cls_digit t).mp hall)
    · rcases hx with ⟨_, rfl⟩ | ⟨_, rfl⟩ <;> simp
    · rcases hx with ⟨_, rfl⟩ | ⟨_, rfl⟩ <;>
        simp [St.group, St.init, takeDiff_append']
  · rintro t r rfl hP
    rw [isSimpleNucleus_iff] at hP
    obtain ⟨⟨h0, hl⟩, hP⟩ := hP
    have h0' : toBytes t ≠ [] := by simpa [toBytes_eq_nil] using h0
    have hl' : (toBytes t).length ≤ 3 := by simpa using hl
    rcases hP with hP | hP
    · exact ⟨_, (simpleNuc_mem _ _).mpr ⟨toBytes t, toBytes r, h0', hl', toBytes_append t r,
        Or.inl ⟨(all_toBytes _ _ cls_alpha t).mpr hP, rfl⟩⟩, rfl⟩
    · exact ⟨_, (simpleNuc_mem _ _).mpr ⟨toBytes t, toBytes r, h0', hl', toBytes_append t r,
        Or.inr ⟨(all_toBytes _ _ cls_digit t).mpr hP, rfl⟩⟩, rfl⟩


theorem isSimpleNucleus_ne_nil {t : Str} (h : isSimpleNucleus t = true) : t ≠ [] :=
  ((isSimpleNucleus_iff t).mp h).1.1

private theorem alpha_or_digit_facts (c : Char) (h : c.isAlpha = true ∨ c.isDigit = true) :
    isSep c = false ∧ (c == '@') = false ∧ (c != '@') = true ∧ (c == '(') = false := by
  rw [isAlpha_nat, isDigit_nat] at h
  simp only [isSep, bne, beq_lit, Char.reduceToNat, isAlphaC, isDigitC] at *
  simp only [Bool.or_eq_true, Bool.and_eq_true, decide_eq_true_eq, Bool.or_eq_false_iff, beq_eq_false_iff_ne,
    Bool.not_eq_true', ne_eq] at *
  omega

theorem isSimpleNucleus_no_sep {t : Str} (h : isSimpleNucleus t = true) : ∀ c ∈ t, isSep c = false := by
  intro c hc
  rcases ((isSimpleNucleus_iff t).mp h).2 with ha | hd
  · exact (alpha_or_digit_facts c (Or.inl (ha c hc))).1
  · exact (alpha_or_digit_facts c (Or.inr (hd c hc))).1

private theorem takeWhile_all {α} (q : α → Bool) : ∀ (t : List α), (∀ c ∈ t, q c = true) → t.takeWhile q = t ∧ t.dropWhile q = []
  | [], _ => ⟨rfl, rfl⟩
  | c :: t, h => by
    have := takeWhile_all q t (fun d hd => h d (by simp [hd]))
    simp [h c (by simp), this.1, this.2]

private theorem takeWhile_none {α} (q : α → Bool) : ∀ (t : List α), (∀ c ∈ t, q c = false) → t.takeWhile q = [] ∧ t.dropWhile q = t
  | [], _ => ⟨rfl, rfl⟩
  | c :: t, h => by
    simp [h c (by simp)]

private theorem isGhPrefix_false {t : Str} (h : ∀ c ∈ t, c.isAlpha = true ∨ c.isDigit = true) : isGhPrefix t = false := by
  unfold isGhPrefix
  split
  · rename_i g hh p _
    simp [(alpha_or_digit_facts p (h p (by simp))).2.2.2]
  · rfl

theorem simple_isNucleus {t : Str} (h : isSimpleNucleus t = true) : isNucleus t = true := by
  obtain ⟨⟨h0, hl⟩, hP⟩ := (isSimpleNucleus_iff t).mp h
  have hAD : ∀ c ∈ t, c.isAlpha = true ∨ c.isDigit = true := by
    intro c hc
    rcases hP with ha | hd
    · exact Or.inl (ha c hc)
    · exact Or.inr (hd c hc)
  have hat : ∀ c ∈ t, (c != '@') = true := fun c hc => (alpha_or_digit_facts c (hAD c hc)).2.2.1
  have hlbl := takeWhile_all (fun c : Char => c != '@') t hat
  have hgh := isGhPrefix_false hAD
  unfold isNucleus parseNucleus
  cases t with
  | nil => exact absurd rfl h0
  | cons c r =>
    have hc : (c == '@') = false := (alpha_or_digit_facts c (hAD c (by simp))).2.1
    simp only [hc, hgh, Bool.false_eq_true, if_false]
    unfold parseCore
    simp only [hlbl.1, hlbl.2, parseMass]
    rcases hP with ha | hd
    · have h1 := takeWhile_none Char.isDigit (c :: r) (fun d hd => alpha_not_digit (ha d hd))
      have h2 := takeWhile_all Char.isAlpha (c :: r) ha
      simp only [h1.1, h1.2, h2.1, h2.2]
      simp [userOk1]
      simpa using hl
    · have h1 := takeWhile_all Char.isDigit (c :: r) hd
      simp only [h1.1, h1.2]
      simp [userOk2]
      simpa using hl

end QcelVerif.MolText
