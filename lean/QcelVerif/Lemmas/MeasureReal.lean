import QcelVerif.Lemmas.Measure
import Mathlib.Analysis.SpecialFunctions.Sqrt
import Mathlib.Analysis.SpecialFunctions.Trigonometric.Inverse
import Mathlib.Analysis.SpecialFunctions.Complex.Arg
import Mathlib.Analysis.SpecialFunctions.Trigonometric.Arctan
/-!
Helper definitions and lemmas for the real-number part of C18 (`Props/C18Real.lean`).
Nothing here is a property statement.

* `atan2 y x` — the two-argument arctangent over ℝ, defined as `Complex.arg (x + y i)`.
  Value in `(-π, π]`; `atan2 0 0 = 0` (numpy: `arctan2(0, 0) = 0` as well).
  ℝ has no signed zero: `atan2 0 x = π` for every `x < 0`, whereas IEEE/numpy distinguishes
  `arctan2(+0.0, -1) = +π` from `arctan2(-0.0, -1) = -π`.  That one edge (and NaN / ±∞ inputs)
  is outside the real-number model.
* `normR a = √(a·a)` — `_norm` of `util/misc.py`.
* positive scaling, conjugation (`y ↦ −y`), `cos`/`sin`, the `arccos` form for `y ≥ 0`, and the
  uniqueness characterisation of `atan2`.
* the polynomial identities behind the textbook form of the dihedral.
-/
set_option linter.unusedSectionVars false
namespace QcelVerif.Measure
open V3

/-! ### atan2 -/

/-- two-argument arctangent over ℝ: the argument of `x + y i`, in `(-π, π]` -/
noncomputable def atan2 (y x : ℝ) : ℝ := Complex.arg ⟨x, y⟩

theorem atan2_mem (y x : ℝ) : -Real.pi < atan2 y x ∧ atan2 y x ≤ Real.pi :=
  ⟨Complex.neg_pi_lt_arg _, Complex.arg_le_pi _⟩

theorem atan2_zero_zero : atan2 0 0 = 0 := by
  unfold atan2
  have : (⟨0, 0⟩ : ℂ) = 0 := rfl
  rw [this, Complex.arg_zero]

/-- `atan2` depends only on the direction of `(x, y)` -/
theorem atan2_pos_mul {c : ℝ} (hc : 0 < c) (y x : ℝ) : atan2 (c * y) (c * x) = atan2 y x := by
  unfold atan2
  have : (⟨c * x, c * y⟩ : ℂ) = (c : ℂ) * ⟨x, y⟩ := by
    apply Complex.ext <;> simp
  rw [this, Complex.arg_real_mul _ hc]

theorem atan2_eq_pi_iff {y x : ℝ} : atan2 y x = Real.pi ↔ x < 0 ∧ y = 0 := by
  unfold atan2
  rw [Complex.arg_eq_pi_iff]

/-- `y ↦ −y` negates `atan2 y x`, except on the branch cut `y = 0, x < 0` where both are `π` -/
theorem atan2_neg (y x : ℝ) :
    atan2 (-y) x = if atan2 y x = Real.pi then Real.pi else -atan2 y x := by
  unfold atan2
  have : (⟨x, -y⟩ : ℂ) = (starRingEnd ℂ) ⟨x, y⟩ := by
    apply Complex.ext <;> simp
  rw [this, Complex.arg_conj]

theorem norm_mk (x y : ℝ) : ‖(⟨x, y⟩ : ℂ)‖ = Real.sqrt (x * x + y * y) := by
  rw [Complex.norm_def, Complex.normSq_mk]

theorem mk_ne_zero {x y : ℝ} (h : x ≠ 0 ∨ y ≠ 0) : (⟨x, y⟩ : ℂ) ≠ 0 := by
  intro e
  have h1 := congrArg Complex.re e
  have h2 := congrArg Complex.im e
  simp only [Complex.zero_re, Complex.zero_im] at h1 h2
  rcases h with h | h
  · exact h h1
  · exact h h2

theorem cos_atan2 {y x : ℝ} (h : x ≠ 0 ∨ y ≠ 0) :
    Real.cos (atan2 y x) = x / Real.sqrt (x * x + y * y) := by
  unfold atan2
  rw [Complex.cos_arg (mk_ne_zero h), norm_mk]

theorem sin_atan2 (y x : ℝ) :
    Real.sin (atan2 y x) = y / Real.sqrt (x * x + y * y) := by
  unfold atan2
  rw [Complex.sin_arg, norm_mk]

/-- upper half plane: `atan2 y x = arccos (x / √(x² + y²))` -/
theorem atan2_of_nonneg {y x : ℝ} (hy : 0 ≤ y) (h : x ≠ 0 ∨ y ≠ 0) :
    atan2 y x = Real.arccos (x / Real.sqrt (x * x + y * y)) := by
  unfold atan2
  rw [Complex.arg_of_im_nonneg_of_ne_zero (by exact hy) (mk_ne_zero h), norm_mk]

/-- characterisation: the only `θ ∈ (-π, π]` with `(x, y) = r (cos θ, sin θ)`, `r > 0` -/
theorem atan2_unique {r θ x y : ℝ} (hr : 0 < r) (h1 : -Real.pi < θ) (h2 : θ ≤ Real.pi)
    (hx : x = r * Real.cos θ) (hy : y = r * Real.sin θ) : atan2 y x = θ := by
  unfold atan2
  have : (⟨x, y⟩ : ℂ) = (r : ℂ) * (Complex.cos θ + Complex.sin θ * Complex.I) := by
    apply Complex.ext
    · simp [hx, ← Complex.ofReal_cos, ← Complex.ofReal_sin]
    · simp [hy, ← Complex.ofReal_cos, ← Complex.ofReal_sin]
  rw [this, Complex.arg_mul_cos_add_sin_mul_I hr ⟨h1, h2⟩]

/-! ### the usual case split of the two-argument arctangent (what C's / numpy's `atan2` computes on
finite non-zero reals): shows that `Complex.arg (x + y i)` *is* that function -/

theorem sqrt_one_add_div_sq {x : ℝ} (hx : x ≠ 0) (y : ℝ) :
    Real.sqrt (1 + (y / x) ^ 2) = Real.sqrt (x ^ 2 + y ^ 2) / |x| := by
  have h : 1 + (y / x) ^ 2 = (x ^ 2 + y ^ 2) / (x * x) := by
    field_simp
  rw [h, Real.sqrt_div (by positivity), Real.sqrt_mul_self_eq_abs]

theorem sqrt_sq_add_sq_pos {x : ℝ} (hx : x ≠ 0) (y : ℝ) : 0 < Real.sqrt (x ^ 2 + y ^ 2) := by
  apply Real.sqrt_pos.mpr
  have := pow_pos (abs_pos.mpr hx) 2
  rw [sq_abs] at this
  nlinarith [sq_nonneg y]

/-- right half plane -/
theorem atan2_of_pos {x : ℝ} (hx : 0 < x) (y : ℝ) : atan2 y x = Real.arctan (y / x) := by
  have hr := sqrt_sq_add_sq_pos hx.ne' y
  have hs := sqrt_one_add_div_sq hx.ne' y
  rw [abs_of_pos hx] at hs
  refine atan2_unique hr ?_ ?_ ?_ ?_
  · linarith [Real.neg_pi_div_two_lt_arctan (y / x), Real.pi_pos]
  · linarith [Real.arctan_lt_pi_div_two (y / x), Real.pi_pos]
  · rw [Real.cos_arctan, hs]
    field_simp
  · rw [Real.sin_arctan, hs]
    field_simp

/-- second quadrant (and the negative real axis: `y = 0` gives `π`) -/
theorem atan2_of_neg_of_nonneg {x y : ℝ} (hx : x < 0) (hy : 0 ≤ y) :
    atan2 y x = Real.arctan (y / x) + Real.pi := by
  have hr := sqrt_sq_add_sq_pos hx.ne y
  have hs := sqrt_one_add_div_sq hx.ne y
  rw [abs_of_neg hx] at hs
  have hx0 : x ≠ 0 := hx.ne
  have ht : Real.arctan (y / x) ≤ 0 := by
    rw [← Real.arctan_zero]
    exact Real.arctan_strictMono.monotone (div_nonpos_of_nonneg_of_nonpos hy hx.le)
  refine atan2_unique hr ?_ ?_ ?_ ?_
  · linarith [Real.neg_pi_div_two_lt_arctan (y / x), Real.pi_pos]
  · linarith
  · rw [Real.cos_add_pi, Real.cos_arctan, hs]
    field_simp
  · rw [Real.sin_add_pi, Real.sin_arctan, hs]
    field_simp

/-- third quadrant -/
theorem atan2_of_neg_of_neg {x y : ℝ} (hx : x < 0) (hy : y < 0) :
    atan2 y x = Real.arctan (y / x) - Real.pi := by
  have hr := sqrt_sq_add_sq_pos hx.ne y
  have hs := sqrt_one_add_div_sq hx.ne y
  rw [abs_of_neg hx] at hs
  have hx0 : x ≠ 0 := hx.ne
  have ht : 0 < Real.arctan (y / x) := by
    rw [← Real.arctan_zero]
    exact Real.arctan_strictMono (div_pos_of_neg_of_neg hy hx)
  refine atan2_unique hr ?_ ?_ ?_ ?_
  · linarith
  · linarith [Real.arctan_lt_pi_div_two (y / x), Real.pi_pos]
  · rw [Real.cos_sub_pi, Real.cos_arctan, hs]
    field_simp
  · rw [Real.sin_sub_pi, Real.sin_arctan, hs]
    field_simp

theorem atan2_zero_of_pos {y : ℝ} (hy : 0 < y) : atan2 y 0 = Real.pi / 2 := by
  refine atan2_unique hy ?_ ?_ ?_ ?_
  · linarith [Real.pi_pos]
  · linarith [Real.pi_pos]
  · rw [Real.cos_pi_div_two, mul_zero]
  · rw [Real.sin_pi_div_two, mul_one]

theorem atan2_zero_of_neg {y : ℝ} (hy : y < 0) : atan2 y 0 = -(Real.pi / 2) := by
  refine atan2_unique (neg_pos.mpr hy) ?_ ?_ ?_ ?_
  · linarith [Real.pi_pos]
  · linarith [Real.pi_pos]
  · rw [Real.cos_neg, Real.cos_pi_div_two, mul_zero]
  · rw [Real.sin_neg, Real.sin_pi_div_two]
    ring

/-! ### the run-time norm `_norm` over ℝ -/

/-- `_norm(a) = np.sqrt(np.einsum("ij,ij->i", a, a))` for one row (misc.py:137-143) -/
noncomputable def normR (a : V3 ℝ) : ℝ := Real.sqrt (nsq a)

theorem normR_nonneg (a : V3 ℝ) : 0 ≤ normR a := Real.sqrt_nonneg _

theorem normR_mul_self (a : V3 ℝ) : normR a * normR a = nsq a :=
  Real.mul_self_sqrt (nsq_nonneg a)

theorem nsq_sub_eq_zero {p q : V3 ℝ} : nsq (p - q) = 0 ↔ p = q := by
  constructor
  · intro h
    obtain ⟨hx, hy, hz⟩ := nsq_eq_zero (a := p - q) h
    simp only [V3.sub_x, V3.sub_y, V3.sub_z, sub_eq_zero] at hx hy hz
    exact V3.ext hx hy hz
  · intro h
    subst h
    v3_unfold
    ring

theorem nsq_sub_pos {p q : V3 ℝ} (h : p ≠ q) : 0 < nsq (p - q) :=
  lt_of_le_of_ne (nsq_nonneg _) (fun e => h (nsq_sub_eq_zero.mp e.symm))

theorem normR_sub_pos {p q : V3 ℝ} (h : p ≠ q) : 0 < normR (p - q) :=
  Real.sqrt_pos.mpr (nsq_sub_pos h)

theorem normR_sub_comm (p q : V3 ℝ) : normR (p - q) = normR (q - p) := by
  unfold normR
  congr 1
  v3_unfold
  ring

theorem normR_motion {T : Motion ℝ} (h : T.R.IsOrthogonal) (p q : V3 ℝ) :
    normR (T.apply p - T.apply q) = normR (p - q) := by
  unfold normR V3.nsq
  rw [apply_sub, dot_mulVec h]

theorem nsq_pos_of_ne_zero {a : V3 ℝ} (h : a ≠ ⟨0, 0, 0⟩) : 0 < nsq a := by
  refine lt_of_le_of_ne (nsq_nonneg _) (fun e => h ?_)
  obtain ⟨hx, hy, hz⟩ := nsq_eq_zero (a := a) e.symm
  exact V3.ext hx hy hz

/-! ### `angleCos` under motions and reversal -/

theorem angleCos_motion {T : Motion ℝ} (h : T.R.IsOrthogonal) (n12 n23 : ℝ) (p1 p2 p3 : V3 ℝ) :
    angleCos n12 n23 (T.apply p1) (T.apply p2) (T.apply p3) = angleCos n12 n23 p1 p2 p3 := by
  unfold angleCos
  simp only [apply_sub, dot_mulVec h]

theorem angleCos_reversal (n12 n23 : ℝ) (p1 p2 p3 : V3 ℝ) :
    angleCos n23 n12 p3 p2 p1 = angleCos n12 n23 p1 p2 p3 := by
  unfold angleCos
  simp only
  have : dot (p3 - p2) (p2 - p1) = dot (p1 - p2) (p2 - p3) := by
    v3_unfold
    ring
  rw [this, mul_comm n23 n12]

theorem clip_mem (x : ℝ) : -1 ≤ clip x (-1) 1 ∧ clip x (-1) 1 ≤ 1 := by
  unfold clip
  refine ⟨le_min (le_max_right _ _) (by norm_num), min_le_right _ _⟩

/-! ### polynomial identities behind the textbook dihedral -/

/-- `(b1×b2)×(b2×b3) = (b1·(b2×b3)) b2`, hence with Lagrange:
`((b1×b2)·(b2×b3))² + |b2|² (b1·(b2×b3))² = |b1×b2|² |b2×b3|²` -/
theorem dihedral_norm_identity {K : Type} [CommRing K] (b1 b2 b3 : V3 K) :
    dot (cross b1 b2) (cross b2 b3) * dot (cross b1 b2) (cross b2 b3)
      + nsq b2 * (dot b1 (cross b2 b3) * dot b1 (cross b2 b3))
      = nsq (cross b1 b2) * nsq (cross b2 b3) := by
  v3_unfold
  ring

end QcelVerif.Measure
