import QcelVerif.Lemmas.C07ReBridge
/-!
C07 — the generated ASTs of `Gen/FromStringRegex.lean`, cut into the stages the hand recognisers of M1 have.
Every `…_shape` theorem is proved by `rfl`: an edit of the pattern in the source that changes CPython's parse tree breaks it
(and with it the build of everything that reasons about the pattern).
-/
namespace QcelVerif.MolText
open QcelVerif.Regex QcelVerif.Gen

/-! ## building blocks -/

/-- `\d+` -/
def digits1 : Re := .rep 1 none true (.cls false [.digit])
/-- `\d*` -/
def digits0 : Re := .rep 0 none true (.cls false [.digit])
/-- `[-+]?` -/
def signOpt : Re := .rep 0 (some 1) true (.cls false [.ch 45, .ch 43])
/-- `(?:[DdEe][-+]?\d+)?` -/
def expOpt : Re := .rep 0 (some 1) true (.seq (.cls false [.ch 68, .ch 100, .ch 69, .ch 101]) (.seq signOpt digits1))
/-- `.` (the literal dot of NUMBER) -/
def dot : Re := .cls false [.ch 46]
/-- the three alternatives of NUMBER, in source order: `.num`, `num.`, `num` -/
def numA1 : Re := .seq signOpt (.seq digits0 (.seq dot (.seq digits1 expOpt)))
def numA2 : Re := .seq signOpt (.seq digits1 (.seq dot (.seq digits0 expOpt)))
def numA3 : Re := .seq signOpt (.seq digits1 expOpt)
def numberBody : Re := .alt numA1 (.alt numA2 numA3)
/-- SEP = `[\t ,]+` -/
def sepPlus : Re := .rep 1 none true (.cls false [.ch 9, .ch 32, .ch 44])

/-! ## shapes -/

theorem number_shape : FromStringRegex.number = .group 1 numberBody := rfl
theorem sep_shape : FromStringRegex.sep = sepPlus := rfl
theorem endl_shape : FromStringRegex.endl = .seq (.rep 0 none true (.cls false [.ch 9, .ch 32, .ch 44])) .eolFinal := rfl
/-- CHGMULT = `(?P<chg>NUMBER)` SEP `(?P<mult>\d+)` -/
def chgmultRe : Re := .seq (.group 1 (.group 2 numberBody)) (.seq sepPlus (.group 3 digits1))
theorem chgmult_shape : FromStringRegex.chgmult = chgmultRe := rfl
theorem xyz2_shape : FromStringRegex.xyz2 = .seq .bos chgmultRe := rfl
theorem cgmp_shape : FromStringRegex.cgmp = .seq .bos (.seq (.group 1 (.group 2 numberBody)) (.seq sepPlus (.seq (.group 3 digits1) .eos))) := rfl
theorem xyz1strict_shape : FromStringRegex.xyz1strict = .seq .bos (.seq (.group 1 digits1) .eos) := rfl

/-- `(^|[^\\])#.*` -/
def commentHead : Re := .group 1 (.alt .bos (.cls true [.ch 92]))
def commentTail : Re := .seq (.cls false [.ch 35]) (.rep 0 none true (.cls true [.ch 10]))
theorem comment_shape : FromStringRegex.comment = .seq commentHead commentTail := rfl

/-- `((?P<ubohr>(bohr|au))|(?P<uang>ang))?` under IGNORECASE -/
def wordBohr : Re := .seq (.cls false [.ch 98, .ch 66]) (.seq (.cls false [.ch 111, .ch 79]) (.seq (.cls false [.ch 104, .ch 72]) (.cls false [.ch 114, .ch 82])))
def wordAu : Re := .seq (.cls false [.ch 97, .ch 65]) (.cls false [.ch 117, .ch 85])
def wordAng : Re := .seq (.cls false [.ch 97, .ch 65]) (.seq (.cls false [.ch 110, .ch 78]) (.cls false [.ch 103, .ch 71]))
def xyz1Unit : Re := .rep 0 (some 1) true (.group 2 (.alt (.group 3 (.group 4 (.alt wordBohr wordAu))) (.group 5 wordAng)))
/-- `[\s,]*` -/
def wsComma0 : Re := .rep 0 none true (.cls false [.space, .ch 44])
theorem xyz1_shape : FromStringRegex.xyz1 = .seq .bos (.seq (.group 1 digits1) (.seq wsComma0 (.seq xyz1Unit .eos))) := rfl

theorem xyz1strict_groups : FromStringRegex.xyz1strictG.nat = 1 := rfl
theorem xyz1_groups : FromStringRegex.xyz1G.nat = 1 ∧ FromStringRegex.xyz1G.ubohr = 3 ∧ FromStringRegex.xyz1G.uang = 5 := ⟨rfl, rfl, rfl⟩
theorem xyz2_groups : FromStringRegex.xyz2G.chg = 1 ∧ FromStringRegex.xyz2G.mult = 3 := ⟨rfl, rfl⟩
theorem cgmp_groups : FromStringRegex.cgmpG.chg = 1 ∧ FromStringRegex.cgmpG.mult = 3 := ⟨rfl, rfl⟩

end QcelVerif.MolText
