import QcelVerif.Lemmas.Orient

/-!
# C16 — uniqueness of the eigen-frame of a 3×3 matrix with pairwise distinct eigenvalues

Helper lemmas (nothing here is a property statement of C16; the property statements built on them
are in `Props/C16Unique.lean`).

Setting: `M3 K` (the 9-field structure of `Model/Orient.lean`), `K` a commutative ring.
`V, l` and `V', l'` are two exact eigen-frames of the same matrix `T`:
`Orth V`, `Vᵀ T V = diag l`, `Orth V'`, `V'ᵀ T V' = diag l'`.   With `M := Vᵀ V'`:

* `frame_intertwine`      `diag l · M = M · diag l'`     (both are `Vᵀ T V'`; *no symmetry of `T` is
                          assumed* — `T = V diag(l) Vᵀ` is symmetric as a consequence)
* `intertwine_entries`    entrywise this reads `(lᵢ - l'ⱼ) · Mᵢⱼ = 0`
* `frame_overlap_orth`    `M` is orthogonal, and `V' = V · M`
* `eigframe_unique_of_regular`  (any commutative ring) if `l = l'` and the three differences
                          `lᵢ - lⱼ` (`i ≠ j`) are non-zero-divisors then `V' = V · diag(d₀,d₁,d₂)`, `dᵢ² = 1`
* `eigframe_unique`       (no zero divisors) `lᵢ` pairwise distinct ⇒ the same with `dᵢ = 1 ∨ dᵢ = -1`
* `eigvals_subset`        (domain) every `lᵢ` is one of the `l'ⱼ`
* `eigvals_unique`        (linearly ordered domain) `l` strictly ascending, `l'` ascending ⇒ `l' = l`
-/

namespace QcelVerif.Orient

section Ring
variable {K : Type} [CommRing K]

theorem mul_one3 (A : M3 K) : M3.mul A M3.one = A := by
  apply M3.ext' <;> simp only [M3.mul, M3.one] <;> ring

omit [CommRing K] in
theorem tr_tr (A : M3 K) : M3.tr (M3.tr A) = A := rfl

theorem tr_one : M3.tr (M3.one : M3 K) = M3.one := rfl

theorem orth_tr {V : M3 K} (h : Orth V) : Orth (M3.tr V) := ⟨by rw [tr_tr]; exact h.2, by rw [tr_tr]; exact h.1⟩

theorem orth_one : Orth (M3.one : M3 K) := ⟨by rw [tr_one, one_mul3], by rw [tr_one, one_mul3]⟩

/-- `Vᵀ T V = L` and `V Vᵀ = 1` give `T V = V L` -/
theorem eig_right {T V L : M3 K} (hV : M3.mul V (M3.tr V) = M3.one)
    (hD : M3.mul (M3.mul (M3.tr V) T) V = L) : M3.mul T V = M3.mul V L := by
  rw [← hD, ← mul_assoc3, ← mul_assoc3, hV, one_mul3]

/-- `Vᵀ T V = L` and `V Vᵀ = 1` give `Vᵀ T = L Vᵀ` -/
theorem eig_left {T V L : M3 K} (hV : M3.mul V (M3.tr V) = M3.one)
    (hD : M3.mul (M3.mul (M3.tr V) T) V = L) : M3.mul (M3.tr V) T = M3.mul L (M3.tr V) := by
  rw [← hD, mul_assoc3 (M3.mul (M3.tr V) T) V (M3.tr V), hV, mul_one3]

/-- a matrix with an orthogonal diagonalisation is symmetric (so symmetry of `T` is never a hypothesis) -/
theorem symm_of_eigframe {T V : M3 K} {a b c : K} (hV : M3.mul V (M3.tr V) = M3.one)
    (hD : M3.mul (M3.mul (M3.tr V) T) V = M3.diag a b c) : M3.tr T = T := by
  have hT : T = M3.mul (M3.mul V (M3.diag a b c)) (M3.tr V) := by
    rw [← eig_right hV hD, mul_assoc3, hV, mul_one3]
  have : M3.tr (M3.mul (M3.mul V (M3.diag a b c)) (M3.tr V)) = M3.mul (M3.mul V (M3.diag a b c)) (M3.tr V) := by
    rw [tr_mul, tr_mul, tr_tr, tr_diag, mul_assoc3]
  rw [hT]; exact this

/-- **Intertwining.**  Two eigen-frames of the same `T`: `L · (VᵀV') = (VᵀV') · L'`. -/
theorem frame_intertwine {T V V' L L' : M3 K}
    (hV : M3.mul V (M3.tr V) = M3.one) (hV' : M3.mul V' (M3.tr V') = M3.one)
    (hD : M3.mul (M3.mul (M3.tr V) T) V = L) (hD' : M3.mul (M3.mul (M3.tr V') T) V' = L') :
    M3.mul L (M3.mul (M3.tr V) V') = M3.mul (M3.mul (M3.tr V) V') L' := by
  rw [← mul_assoc3, ← eig_left hV hD, mul_assoc3, eig_right hV' hD', ← mul_assoc3]

/-- entrywise form of `diag l · M = M · diag l'` -/
theorem intertwine_entries {M : M3 K} {a b c a' b' c' : K}
    (h : M3.mul (M3.diag a b c) M = M3.mul M (M3.diag a' b' c')) :
    (a - a') * M.xx = 0 ∧ (a - b') * M.xy = 0 ∧ (a - c') * M.xz = 0 ∧
    (b - a') * M.yx = 0 ∧ (b - b') * M.yy = 0 ∧ (b - c') * M.yz = 0 ∧
    (c - a') * M.zx = 0 ∧ (c - b') * M.zy = 0 ∧ (c - c') * M.zz = 0 := by
  have h1 := congrArg M3.xx h; have h2 := congrArg M3.xy h; have h3 := congrArg M3.xz h
  have h4 := congrArg M3.yx h; have h5 := congrArg M3.yy h; have h6 := congrArg M3.yz h
  have h7 := congrArg M3.zx h; have h8 := congrArg M3.zy h; have h9 := congrArg M3.zz h
  simp only [M3.mul, M3.diag] at h1 h2 h3 h4 h5 h6 h7 h8 h9
  refine ⟨?_, ?_, ?_, ?_, ?_, ?_, ?_, ?_, ?_⟩
  · linear_combination h1
  · linear_combination h2
  · linear_combination h3
  · linear_combination h4
  · linear_combination h5
  · linear_combination h6
  · linear_combination h7
  · linear_combination h8
  · linear_combination h9

/-- the overlap matrix `M = VᵀV'` of two orthogonal matrices is orthogonal and `V' = V M` -/
theorem frame_overlap_orth {V V' : M3 K} (hV : Orth V) (hV' : Orth V') :
    Orth (M3.mul (M3.tr V) V') ∧ V' = M3.mul V (M3.mul (M3.tr V) V') :=
  ⟨orth_mul (orth_tr hV) hV', by rw [← mul_assoc3, hV.2, one_mul3]⟩

/-- an orthogonal diagonal matrix has entries of square one -/
theorem diag_orth_sq {a b c : K} (h : M3.mul (M3.tr (M3.diag a b c)) (M3.diag a b c) = M3.one) :
    a * a = 1 ∧ b * b = 1 ∧ c * c = 1 := by
  rw [tr_diag, diag_mul_diag] at h
  exact ⟨congrArg M3.xx h, congrArg M3.yy h, congrArg M3.zz h⟩

/-- a matrix whose off-diagonal entries vanish is `diag` of its diagonal -/
theorem eq_diag_of_offdiag {M : M3 K} (h2 : M.xy = 0) (h3 : M.xz = 0) (h4 : M.yx = 0) (h6 : M.yz = 0)
    (h7 : M.zx = 0) (h8 : M.zy = 0) : M = M3.diag M.xx M.yy M.zz :=
  M3.ext' rfl h2 h3 h4 rfl h6 h7 h8 rfl

/-- **Eigen-frame uniqueness, general commutative ring.**  `V, V'` orthogonal, both diagonalise `T`
to the same `diag(l₀,l₁,l₂)`, and the differences `lᵢ - lⱼ` (`i ≠ j`) are not zero divisors.  Then
`V' = V · diag(d₀,d₁,d₂)` with `dᵢ² = 1`  (and `dᵢ` are the diagonal entries of `VᵀV'`). -/
theorem eigframe_unique_of_regular {T V V' : M3 K} {l0 l1 l2 : K}
    (hV : Orth V) (hV' : Orth V')
    (hD : M3.mul (M3.mul (M3.tr V) T) V = M3.diag l0 l1 l2)
    (hD' : M3.mul (M3.mul (M3.tr V') T) V' = M3.diag l0 l1 l2)
    (r01 : ∀ x : K, (l0 - l1) * x = 0 → x = 0) (r02 : ∀ x : K, (l0 - l2) * x = 0 → x = 0)
    (r12 : ∀ x : K, (l1 - l2) * x = 0 → x = 0) :
    ∃ d0 d1 d2 : K, d0 * d0 = 1 ∧ d1 * d1 = 1 ∧ d2 * d2 = 1 ∧ V' = M3.mul V (M3.diag d0 d1 d2) := by
  obtain ⟨hMo, hVM⟩ := frame_overlap_orth hV hV'
  obtain ⟨-, e2, e3, e4, -, e6, e7, e8, -⟩ := intertwine_entries (frame_intertwine hV.2 hV'.2 hD hD')
  set M := M3.mul (M3.tr V) V' with hM
  have z2 : M.xy = 0 := r01 _ e2
  have z3 : M.xz = 0 := r02 _ e3
  have z4 : M.yx = 0 := r01 _ (by linear_combination (-1 : K) * e4)
  have z6 : M.yz = 0 := r12 _ e6
  have z7 : M.zx = 0 := r02 _ (by linear_combination (-1 : K) * e7)
  have z8 : M.zy = 0 := r12 _ (by linear_combination (-1 : K) * e8)
  have hdiag := eq_diag_of_offdiag z2 z3 z4 z6 z7 z8
  have h1 := hMo.1
  rw [hdiag] at h1
  obtain ⟨s0, s1, s2⟩ := diag_orth_sq h1
  exact ⟨M.xx, M.yy, M.zz, s0, s1, s2, by rw [← hdiag]; exact hVM⟩

end Ring

section Domain
variable {K : Type} [CommRing K] [NoZeroDivisors K]

theorem pm_of_sq {d : K} (h : d * d = 1) : d = 1 ∨ d = -1 := by
  have : (d - 1) * (d + 1) = 0 := by linear_combination h
  rcases mul_eq_zero.mp this with h | h
  · left; linear_combination h
  · right; linear_combination h

/-- **Eigen-frame uniqueness.**  Over a commutative ring without zero divisors (every field, ℚ, ℝ):
two orthogonal matrices diagonalising the same `T` to the same `diag(l₀,l₁,l₂)` with pairwise distinct
`lᵢ` differ by a sign per column: `V' = V · diag(d₀,d₁,d₂)`, `dᵢ = ±1`. -/
theorem eigframe_unique {T V V' : M3 K} {l0 l1 l2 : K}
    (hV : Orth V) (hV' : Orth V')
    (hD : M3.mul (M3.mul (M3.tr V) T) V = M3.diag l0 l1 l2)
    (hD' : M3.mul (M3.mul (M3.tr V') T) V' = M3.diag l0 l1 l2)
    (h01 : l0 ≠ l1) (h02 : l0 ≠ l2) (h12 : l1 ≠ l2) :
    ∃ d0 d1 d2 : K, (d0 = 1 ∨ d0 = -1) ∧ (d1 = 1 ∨ d1 = -1) ∧ (d2 = 1 ∨ d2 = -1) ∧
      V' = M3.mul V (M3.diag d0 d1 d2) := by
  have reg : ∀ {a b : K}, a ≠ b → ∀ x : K, (a - b) * x = 0 → x = 0 := by
    intro a b hab x hx
    rcases mul_eq_zero.mp hx with h | h
    · exact absurd (sub_eq_zero.mp h) hab
    · exact h
  obtain ⟨d0, d1, d2, s0, s1, s2, h⟩ := eigframe_unique_of_regular hV hV' hD hD' (reg h01) (reg h02) (reg h12)
  exact ⟨d0, d1, d2, pm_of_sq s0, pm_of_sq s1, pm_of_sq s2, h⟩

/-- each eigenvalue of the first frame occurs among those of the second (a row of an orthogonal matrix
is not zero) -/
theorem eigvals_subset [Nontrivial K] {T V V' : M3 K} {l0 l1 l2 l0' l1' l2' : K}
    (hV : Orth V) (hV' : Orth V')
    (hD : M3.mul (M3.mul (M3.tr V) T) V = M3.diag l0 l1 l2)
    (hD' : M3.mul (M3.mul (M3.tr V') T) V' = M3.diag l0' l1' l2') :
    (l0 = l0' ∨ l0 = l1' ∨ l0 = l2') ∧ (l1 = l0' ∨ l1 = l1' ∨ l1 = l2') ∧ (l2 = l0' ∨ l2 = l1' ∨ l2 = l2') := by
  obtain ⟨hMo, -⟩ := frame_overlap_orth hV hV'
  obtain ⟨e1, e2, e3, e4, e5, e6, e7, e8, e9⟩ := intertwine_entries (frame_intertwine hV.2 hV'.2 hD hD')
  set M := M3.mul (M3.tr V) V' with hM
  have o1 := congrArg M3.xx hMo.2
  have o5 := congrArg M3.yy hMo.2
  have o9 := congrArg M3.zz hMo.2
  simp only [M3.mul, M3.tr, M3.one] at o1 o5 o9
  have key : ∀ {a a' b' c' p q r : K}, (a - a') * p = 0 → (a - b') * q = 0 → (a - c') * r = 0 →
      p * p + q * q + r * r = 1 → a = a' ∨ a = b' ∨ a = c' := by
    intro a a' b' c' p q r hp hq hr hs
    by_contra hne
    simp only [not_or] at hne
    obtain ⟨n1, n2, n3⟩ := hne
    have zp : p = 0 := (mul_eq_zero.mp hp).resolve_left (sub_ne_zero.mpr n1)
    have zq : q = 0 := (mul_eq_zero.mp hq).resolve_left (sub_ne_zero.mpr n2)
    have zr : r = 0 := (mul_eq_zero.mp hr).resolve_left (sub_ne_zero.mpr n3)
    rw [zp, zq, zr] at hs
    simp at hs
  exact ⟨key e1 e2 e3 o1, key e4 e5 e6 o5, key e7 e8 e9 o9⟩

end Domain

section Ordered
variable {K : Type} [CommRing K] [LinearOrder K] [IsStrictOrderedRing K]

/-- **The ascending eigenvalue list is unique.**  Two exact eigen-frames of the same matrix, the first
with strictly ascending eigenvalues, the second with ascending ones: the eigenvalue triples coincide. -/
theorem eigvals_unique {T V V' : M3 K} {l l' : V3 K}
    (hV : Orth V) (hV' : Orth V')
    (hD : M3.mul (M3.mul (M3.tr V) T) V = M3.diag l.x l.y l.z)
    (hD' : M3.mul (M3.mul (M3.tr V') T) V' = M3.diag l'.x l'.y l'.z)
    (hxy : l.x < l.y) (hyz : l.y < l.z) (hxy' : l'.x ≤ l'.y) (hyz' : l'.y ≤ l'.z) : l' = l := by
  have : NoZeroDivisors K := IsStrictOrderedRing.noZeroDivisors
  obtain ⟨a0, a1, a2⟩ := eigvals_subset hV hV' hD hD'
  obtain ⟨b0, b1, b2⟩ := eigvals_subset hV' hV hD' hD
  have x1 : l.x ≤ l'.x := by rcases b0 with h | h | h <;> linarith
  have x2 : l'.x ≤ l.x := by rcases a0 with h | h | h <;> linarith
  have z1 : l'.z ≤ l.z := by rcases b2 with h | h | h <;> linarith
  have z2 : l.z ≤ l'.z := by rcases a2 with h | h | h <;> linarith
  have ex : l'.x = l.x := le_antisymm x2 x1
  have ez : l'.z = l.z := le_antisymm z1 z2
  have ey : l'.y = l.y := by
    rcases a1 with h | h | h
    · rw [ex] at h; exact absurd h (ne_of_gt hxy)
    · exact h.symm
    · rw [ez] at h; exact absurd h (ne_of_lt hyz)
  exact V3.ext' ex ey ez

end Ordered

end QcelVerif.Orient
