import QcelVerif.Model.NucleusRe
import QcelVerif.Lemmas.RegexEngine
/-!
Lemmas tying the hand-written NUCLEUS recogniser (`Model/Nucleus.lean`: `runs`, `optG`, `ghostAlts`, `label1Alts`,
`label2Alts`, `massAlts`, `closes`, `allMatches`) to the generic regex engine run on the generated AST.
-/
namespace QcelVerif.Nucleus
open QcelVerif QcelVerif.PStr QcelVerif.Regex

/-! ## `runs` by recursion on the string -/

theorem runs_nil (p : Nat → Bool) (max : Nat) : runs p max [] = [] := by simp [runs]

theorem runs_zero (p : Nat → Bool) (s : Bytes) : runs p 0 s = [] := by simp [runs]

theorem runs_cons_neg (p : Nat → Bool) (max c : Nat) (t : Bytes) (h : p c = false) : runs p max (c :: t) = [] := by
  simp [runs, h]

theorem range_succ_reverse (n : Nat) : (List.range (n + 1)).reverse = ((List.range n).reverse.map (· + 1)) ++ [0] := by
  rw [List.range_succ_eq_map, List.reverse_cons, List.map_reverse]

theorem runs_cons_pos (p : Nat → Bool) (m c : Nat) (t : Bytes) (h : p c = true) :
    runs p (m + 1) (c :: t) = (runs p m t).map (fun x => (c :: x.1, x.2)) ++ [([c], t)] := by
  simp only [runs, List.takeWhile_cons, h, if_true, List.length_cons, Nat.succ_min_succ, range_succ_reverse,
    List.map_append, List.map_map, List.map_cons, List.map_nil]
  simp [Function.comp_def]

theorem mem_runs_append (p : Nat → Bool) (max : Nat) (s : Bytes) (x : Bytes × Bytes) (h : x ∈ runs p max s) :
    s = x.1 ++ x.2 := by
  simp only [runs, List.mem_map] at h
  obtain ⟨k, _, rfl⟩ := h
  simp

/-! ## the engine's class repetition explores exactly `runs` -/

theorem classRuns_zero_succ (p : Nat → Bool) (hi : Option Nat) (f : Nat) (s : List Nat) :
    classRuns p 0 hi (f + 1) s = classRuns p 1 hi (f + 1) s ++ [([], s)] := by
  simp [classRuns]

theorem classRuns_one_some (p : Nat → Bool) :
    ∀ (s : List Nat) (max f : Nat), s.length + 1 ≤ f → classRuns p 1 (some max) f s = runs p max s := by
  intro s
  induction s with
  | nil =>
    intro max f hf
    obtain ⟨f', rfl⟩ : ∃ f', f = f' + 1 := ⟨f - 1, by omega⟩
    simp [classRuns, runs_nil]
  | cons c t ih =>
    intro max f hf
    obtain ⟨f', rfl⟩ : ∃ f', f = f' + 1 := ⟨f - 1, by omega⟩
    obtain ⟨f'', rfl⟩ : ∃ f'', f' = f'' + 1 := ⟨f' - 1, by simp at hf; omega⟩
    cases max with
    | zero => simp [classRuns, runs_zero]
    | succ m =>
      cases hp : p c with
      | false => simp [classRuns, hp, runs_cons_neg]
      | true =>
        have hlen : t.length + 1 ≤ f'' + 1 := by simp at hf; omega
        rw [runs_cons_pos p m c t hp, ← ih m (f'' + 1) hlen]
        simp only [classRuns, hp, decHi]
        simp

theorem classRuns_one_none (p : Nat → Bool) :
    ∀ (s : List Nat) (f : Nat), s.length + 1 ≤ f → classRuns p 1 none f s = runs p s.length s := by
  intro s
  induction s with
  | nil =>
    intro f hf
    obtain ⟨f', rfl⟩ : ∃ f', f = f' + 1 := ⟨f - 1, by omega⟩
    simp [classRuns, runs_nil]
  | cons c t ih =>
    intro f hf
    obtain ⟨f', rfl⟩ : ∃ f', f = f' + 1 := ⟨f - 1, by omega⟩
    obtain ⟨f'', rfl⟩ : ∃ f'', f' = f'' + 1 := ⟨f' - 1, by simp at hf; omega⟩
    cases hp : p c with
    | false => simp [classRuns, hp, runs_cons_neg]
    | true =>
      have hlen : t.length + 1 ≤ f'' + 1 := by simp at hf; omega
      rw [List.length_cons, runs_cons_pos p t.length c t hp, ← ih (f'' + 1) hlen]
      simp only [classRuns, hp, decHi]
      simp

/-- greedy `[class]{1,max}` / `[class]+` followed by a continuation: the hand recogniser's `runs`, longest first -/
theorem bind_rep1 {β} (neg : Bool) (items : List Item) (hi : Option Nat) (st : St) (F : St → List β) :
    bindMs (.rep 1 hi true (.cls neg items)) st F
      = (runs (clsMem neg items) (hi.getD st.rest.length) st.rest).flatMap fun x => F (st.adv x.1 x.2) := by
  unfold bindMs
  rw [show Re.ms (.rep 1 hi true (.cls neg items)) st
        = repMs (fun st' => Re.ms (.cls neg items) st') 1 hi true (st.rest.length + 1) st from rfl, repMs_cls]
  cases hi with
  | none => simp [classRuns_one_none, List.flatMap_map]
  | some m => simp [classRuns_one_some, List.flatMap_map]

/-! ## the classes of the generated NUCLEUS AST are the hand recogniser's predicates -/

theorem cls_digit : clsMem false [.digit] = isDigit := by
  funext c; simp [clsMem, Item.mem, isDigitC, isDigit]

theorem cls_alpha : clsMem false [.range 65 90, .range 97 122] = isAlpha := by
  funext c; simp [clsMem, Item.mem, isAlpha, isUpper, isLower]

theorem cls_word : clsMem false [.word] = isWord := by
  funext c; simp [clsMem, Item.mem, isWordC, isAlphaC, isDigitC, isWord, isAlpha, isUpper, isLower, isDigit]

theorem cls_ch (a c : Nat) : clsMem false [.ch a] c = (c == a) := by
  simp [clsMem, Item.mem]

/-! ## the generated AST, cut into the stages of the hand recogniser -/

def digits1 : Re := .rep 1 none true (.cls false [.digit])
def userU : Re := .seq (.cls false [.ch 95]) (.rep 1 none true (.cls false [.word]))
def ghostRe : Re :=
  .rep 0 (some 1) true (.alt (.group 1 (.cls false [.ch 64]))
    (.group 2 (.seq (.cls false [.ch 71, .ch 103]) (.seq (.cls false [.ch 104, .ch 72]) (.cls false [.ch 40])))))
def userOpt1 : Re := .rep 0 (some 1) true (.group 7 (.alt (.group 8 userU) (.group 9 digits1)))
def userOpt2 : Re := .rep 0 (some 1) true (.group 12 (.group 13 userU))
def elemUser : Re := .seq (.group 6 (.rep 1 (some 3) true (.cls false [.range 65 90, .range 97 122]))) userOpt1
def label1Re : Re := .seq (.rep 0 (some 1) true (.group 5 digits1)) elemUser
def label2Re : Re := .seq (.group 11 (.rep 1 (some 3) true (.cls false [.digit]))) userOpt2
def massRe : Re :=
  .rep 0 (some 1) true (.seq (.cls false [.ch 64]) (.group 14 (.seq digits1 (.seq (.cls false [.ch 46]) digits1))))
def closeEos : Re := .seq (.ifGroup 2 (.cls false [.ch 41]) .eps) .eos
def tailRe : Re := .seq massRe closeEos
def coreRe : Re := .group 3 (.alt (.group 4 label1Re) (.group 10 label2Re))
def coreTail : Re := .seq coreRe tailRe

/-- the generated AST is the concatenation of the hand recogniser's stages (`rfl`: any edit of the NUCLEUS pattern
that changes CPython's parse tree breaks this line) -/
theorem nucleus_shape : Gen.NucleusRegex.nucleus = .seq .bos (.seq ghostRe coreTail) := rfl

theorem flatMap_congr_mem {α β} {l : List α} {f g : α → List β} (h : ∀ a ∈ l, f a = g a) : l.flatMap f = l.flatMap g := by
  induction l with
  | nil => rfl
  | cons a t ih =>
    simp only [List.flatMap_cons]
    rw [h a (by simp), ih (fun b hb => h b (by simp [hb]))]

theorem takeDiff_append (a b : List Nat) : takeDiff (a ++ b) b = a := by
  simp [takeDiff]

/-- `(?(gh2)\))` then `\Z` -/
theorem close_eq (st : St) :
    bindMs closeEos st (fun st' => [groupsOfSt st']) = if closes (st.group 2).isSome st.rest then [groupsOfSt st] else [] := by
  simp only [closeEos, bind_seq, bind_ifGroup, bind_cls, bind_eps, bind_eos, cls_ch]
  cases h2 : (st.group 2).isSome
  · cases hr : st.rest <;> simp [closes]
  · cases hr : st.rest with
    | nil => simp [closes]
    | cons c t =>
      by_cases hc : c = 41
      · subst hc
        cases t <;> simp [closes, groupsOfSt, St.group]
      · simp [closes, hc]


@[simp] theorem adv_rest (st : St) (x r : List Nat) : (st.adv x r).rest = r := rfl
@[simp] theorem adv_caps (st : St) (x r : List Nat) : (st.adv x r).caps = st.caps := rfl
@[simp] theorem capture_rest (i : Nat) (a b : St) : (St.capture i a b).rest = b.rest := rfl
@[simp] theorem capture_caps (i : Nat) (a b : St) : (St.capture i a b).caps = (i, takeDiff a.rest b.rest) :: b.caps := rfl

theorem filter_map_eq_flatMap {α β} (l : List α) (p : α → Bool) (g : α → β) :
    (l.filter p).map g = l.flatMap fun a => if p a then [g a] else [] := by
  induction l with
  | nil => rfl
  | cons a t ih => by_cases h : p a <;> simp [h, ih]

theorem massAlts_not_at (c : Nat) (t : Bytes) (hc : ¬ c = 64) : massAlts (c :: t) = [(none, c :: t)] := by
  unfold massAlts
  split
  · rename_i heq
    injection heq with h1 h2
    exact absurd h1 hc
  · simp [optG]

/-- the groups `parse_nucleus_label` reads, from the captures `c` overridden by the given fields -/
def mkG (c : Caps) (A E user1 Z user2 mass : Option Bytes) : Groups :=
  { gh1 := (c.lookup 1).isSome, gh2 := (c.lookup 2).isSome
    A := A.or (c.lookup 5), E := E.or (c.lookup 6), user1 := user1.or (c.lookup 7)
    Z := Z.or (c.lookup 11), user2 := user2.or (c.lookup 12), mass := mass.or (c.lookup 14) }

open QcelVerif.Gen.NucleusRegex in
theorem groupsOfSt_eq_mkG (st : St) : groupsOfSt st = mkG st.caps none none none none none none := by
  simp [groupsOfSt, mkG, St.group, nucleusG.gh1, nucleusG.gh2, nucleusG.A, nucleusG.E, nucleusG.user1, nucleusG.Z,
    nucleusG.user2, nucleusG.mass]

theorem close_eq' (st : St) :
    bindMs closeEos st (fun st' => [mkG st'.caps none none none none none none])
      = if closes (st.caps.lookup 2).isSome st.rest then [mkG st.caps none none none none none none] else [] := by
  simpa [groupsOfSt_eq_mkG, St.group] using close_eq st

/-- `(?:@(?P<mass>\d+\.\d+))?`, `(?(gh2)\))`, `\Z` -/
theorem tail_eq (st : St) :
    bindMs tailRe st (fun st' => [groupsOfSt st']) =
      (massAlts st.rest).flatMap fun m =>
        if closes (st.caps.lookup 2).isSome m.2 then [mkG st.caps none none none none none m.1] else [] := by
  unfold tailRe
  rw [bind_seq]
  simp only [massRe, digits1, bind_opt, bind_seq, bind_cls, bind_group, bind_rep1, groupsOfSt_eq_mkG, close_eq', cls_digit, cls_ch,
    adv_rest, adv_caps, capture_rest, capture_caps, Option.getD_none]
  cases hr : st.rest with
  | nil => simp [massAlts, optG]
  | cons c t =>
    by_cases hc : c = 64
    · subst hc
      simp only [massAlts, optG, List.flatMap_append, List.flatMap_map, List.flatMap_assoc, List.flatMap_cons, List.flatMap_nil,
        List.append_nil, beq_self_eq_true, if_true]
      congr 1
      · apply flatMap_congr_mem
        intro x hx
        cases hx2 : x.2 with
        | nil => simp
        | cons c' u =>
          by_cases hc' : c' = 46
          · subst hc'
            simp only [beq_self_eq_true, if_true, List.flatMap_map]
            apply flatMap_congr_mem
            intro y hy
            have ht : t = (x.1 ++ 46 :: y.1) ++ y.2 := by
              have h1 := mem_runs_append _ _ _ _ hx
              have h2 := mem_runs_append _ _ _ _ hy
              rw [hx2, h2] at h1
              simpa using h1
            have htd : takeDiff t y.2 = x.1 ++ 46 :: y.1 := by
              rw [ht]; exact takeDiff_append _ _
            simp [mkG, List.lookup, htd]
          · simp [hc']
    · have hc2 : (c == 64) = false := by simpa using hc
      simp [massAlts_not_at c t hc, hc2]

theorem userUnderscore_not (c : Nat) (t : Bytes) (hc : ¬ c = 95) : userUnderscore (c :: t) = [] := by
  unfold userUnderscore
  split
  · rename_i heq
    injection heq with h1 h2
    exact absurd h1 hc
  · rfl

theorem takeDiff_of_mem_runs (p : Nat → Bool) (max : Nat) (s : Bytes) (x : Bytes × Bytes) (h : x ∈ runs p max s) :
    takeDiff s x.2 = x.1 := by
  have h1 := mem_runs_append _ _ _ _ h
  calc takeDiff s x.2 = takeDiff (x.1 ++ x.2) x.2 := by rw [← h1]
    _ = x.1 := takeDiff_append _ _

theorem takeDiff_cons_of_mem_runs (p : Nat → Bool) (max c : Nat) (s : Bytes) (x : Bytes × Bytes) (h : x ∈ runs p max s) :
    takeDiff (c :: s) x.2 = c :: x.1 := by
  have h1 := mem_runs_append _ _ _ _ h
  calc takeDiff (c :: s) x.2 = takeDiff ((c :: x.1) ++ x.2) x.2 := by rw [List.cons_append, ← h1]
    _ = c :: x.1 := takeDiff_append _ _

/-- `(?P<user1>(_\w+)|(\d+))?` followed by the tail -/
theorem user1_eq (st0 st2 : St) :
    bindMs userOpt1 st2 (fun st' => bindMs tailRe (St.capture 3 st0 (St.capture 4 st0 st')) (fun st'' => [groupsOfSt st''])) =
      (optG (userUnderscore st2.rest ++ runs isDigit st2.rest.length st2.rest) st2.rest).flatMap fun u =>
        (massAlts u.2).flatMap fun m =>
          if closes (st2.caps.lookup 2).isSome m.2 then [mkG st2.caps none none u.1 none none m.1] else [] := by
  simp only [userOpt1, userU, digits1, bind_opt, bind_group, bind_alt, bind_seq, bind_cls, bind_rep1, tail_eq, cls_digit, cls_word, cls_ch,
    adv_rest, adv_caps, capture_rest, capture_caps, Option.getD_none, optG, List.flatMap_append, List.flatMap_map, List.map_append,
    List.flatMap_cons, List.flatMap_nil, List.append_nil]
  congr 1
  congr 1
  · cases hr : st2.rest with
    | nil => simp [userUnderscore]
    | cons c t =>
      by_cases hc : c = 95
      · subst hc
        simp only [userUnderscore, beq_self_eq_true, if_true, List.flatMap_map]
        apply flatMap_congr_mem
        intro x hx
        simp [mkG, List.lookup, takeDiff_cons_of_mem_runs _ _ _ _ _ hx]
      · simp [userUnderscore_not c t hc, hc]
  · apply flatMap_congr_mem
    intro x hx
    simp [mkG, List.lookup, takeDiff_of_mem_runs _ _ _ _ hx]

/-- `(?P<E>[A-Z]{1,3})(?P<user1>…)?` followed by the tail -/
theorem elemUser_eq (st0 st1 : St) :
    bindMs elemUser st1 (fun st' => bindMs tailRe (St.capture 3 st0 (St.capture 4 st0 st')) (fun st'' => [groupsOfSt st''])) =
      (runs isAlpha 3 st1.rest).flatMap fun e =>
        (optG (userUnderscore e.2 ++ runs isDigit e.2.length e.2) e.2).flatMap fun u =>
          (massAlts u.2).flatMap fun m =>
            if closes (st1.caps.lookup 2).isSome m.2 then [mkG st1.caps none (some e.1) u.1 none none m.1] else [] := by
  unfold elemUser
  rw [bind_seq, bind_group, bind_rep1]
  simp only [user1_eq, cls_alpha, Option.getD_some, adv_rest, adv_caps, capture_rest, capture_caps]
  apply flatMap_congr_mem
  intro e he
  simp [mkG, List.lookup, takeDiff_of_mem_runs _ _ _ _ he]

/-- `label1` followed by the tail -/
theorem label1_eq (st0 : St) :
    bindMs label1Re st0 (fun st' => bindMs tailRe (St.capture 3 st0 (St.capture 4 st0 st')) (fun st'' => [groupsOfSt st''])) =
      (label1Alts st0.rest).flatMap fun l =>
        (massAlts l.2.2.2).flatMap fun m =>
          if closes (st0.caps.lookup 2).isSome m.2 then [mkG st0.caps l.1 (some l.2.1) l.2.2.1 none none m.1] else [] := by
  unfold label1Re
  rw [bind_seq, bind_opt, bind_group]
  unfold digits1
  rw [bind_rep1]
  simp only [elemUser_eq, cls_digit, Option.getD_none, adv_rest, adv_caps, capture_rest, capture_caps,
    label1Alts, optG, List.flatMap_append, List.flatMap_map, List.flatMap_assoc, List.flatMap_cons, List.flatMap_nil, List.append_nil]
  congr 1
  · apply flatMap_congr_mem
    intro a ha
    simp [mkG, List.lookup, takeDiff_of_mem_runs _ _ _ _ ha]

/-- `(?P<user2>(_\w+))?` followed by the tail -/
theorem user2_eq (st0 st2 : St) :
    bindMs userOpt2 st2 (fun st' => bindMs tailRe (St.capture 3 st0 (St.capture 10 st0 st')) (fun st'' => [groupsOfSt st''])) =
      (optG (userUnderscore st2.rest) st2.rest).flatMap fun u =>
        (massAlts u.2).flatMap fun m =>
          if closes (st2.caps.lookup 2).isSome m.2 then [mkG st2.caps none none none none u.1 m.1] else [] := by
  simp only [userOpt2, userU, bind_opt, bind_group, bind_seq, bind_cls, bind_rep1, tail_eq, cls_word, cls_ch,
    adv_rest, adv_caps, capture_rest, capture_caps, Option.getD_none, optG, List.flatMap_append, List.flatMap_map,
    List.flatMap_cons, List.flatMap_nil, List.append_nil]
  congr 1
  · cases hr : st2.rest with
    | nil => simp [userUnderscore]
    | cons c t =>
      by_cases hc : c = 95
      · subst hc
        simp only [userUnderscore, beq_self_eq_true, if_true, List.flatMap_map]
        apply flatMap_congr_mem
        intro x hx
        simp [mkG, List.lookup, takeDiff_cons_of_mem_runs _ _ _ _ _ hx]
      · simp [userUnderscore_not c t hc, hc]

/-- `label2` followed by the tail -/
theorem label2_eq (st0 : St) :
    bindMs label2Re st0 (fun st' => bindMs tailRe (St.capture 3 st0 (St.capture 10 st0 st')) (fun st'' => [groupsOfSt st''])) =
      (label2Alts st0.rest).flatMap fun l =>
        (massAlts l.2.2).flatMap fun m =>
          if closes (st0.caps.lookup 2).isSome m.2 then [mkG st0.caps none none none (some l.1) l.2.1 m.1] else [] := by
  unfold label2Re
  rw [bind_seq, bind_group, bind_rep1]
  simp only [user2_eq, cls_digit, Option.getD_some, adv_rest, adv_caps, capture_rest, capture_caps,
    label2Alts, List.flatMap_map, List.flatMap_assoc]
  apply flatMap_congr_mem
  intro z hz
  simp [mkG, List.lookup, takeDiff_of_mem_runs _ _ _ _ hz]

/-- the hand recogniser's continuation after the ghost marker -/
def contHand (gh1 gh2 : Bool) (r : Bytes) : List Groups :=
  ((label1Alts r).flatMap fun l =>
      ((massAlts l.2.2.2).filter fun m => closes gh2 m.2).map fun m =>
        ({ gh1 := gh1, gh2 := gh2, A := l.1, E := some l.2.1, user1 := l.2.2.1, Z := none, user2 := none, mass := m.1 } : Groups)) ++
  ((label2Alts r).flatMap fun l =>
      ((massAlts l.2.2).filter fun m => closes gh2 m.2).map fun m =>
        ({ gh1 := gh1, gh2 := gh2, A := none, E := none, user1 := none, Z := some l.1, user2 := l.2.1, mass := m.1 } : Groups))

theorem allMatches_eq (s : Bytes) : allMatches s = (ghostAlts s).flatMap fun g => contHand g.1 g.2.1 g.2.2 := rfl

/-- element / atomic-number part and everything after it, for a state whose captures hold at most the ghost groups -/
theorem coreTail_eq (st0 : St) (h5 : st0.caps.lookup 5 = none) (h6 : st0.caps.lookup 6 = none) (h7 : st0.caps.lookup 7 = none)
    (h11 : st0.caps.lookup 11 = none) (h12 : st0.caps.lookup 12 = none) (h14 : st0.caps.lookup 14 = none) :
    bindMs coreTail st0 (fun st' => [groupsOfSt st']) =
      contHand (st0.caps.lookup 1).isSome (st0.caps.lookup 2).isSome st0.rest := by
  unfold coreTail coreRe
  rw [bind_seq, bind_group, bind_alt, bind_group, bind_group, label1_eq, label2_eq]
  simp only [contHand, filter_map_eq_flatMap, mkG, h5, h6, h7, h11, h12, h14, Option.or_none]


theorem core0 (p : Option Nat) (r : List Nat) :
    bindMs coreTail ⟨p, r, []⟩ (fun st' => [groupsOfSt st']) = contHand false false r := by
  rw [coreTail_eq _ rfl rfl rfl rfl rfl rfl]; rfl

theorem core1 (p : Option Nat) (r x : List Nat) :
    bindMs coreTail ⟨p, r, [(1, x)]⟩ (fun st' => [groupsOfSt st']) = contHand true false r := by
  rw [coreTail_eq _ rfl rfl rfl rfl rfl rfl]; rfl

theorem core2 (p : Option Nat) (r x : List Nat) :
    bindMs coreTail ⟨p, r, [(2, x)]⟩ (fun st' => [groupsOfSt st']) = contHand false true r := by
  rw [coreTail_eq _ rfl rfl rfl rfl rfl rfl]; rfl

theorem toLower_eq_iff (c k : Nat) (hk : 97 ≤ k ∧ k ≤ 122) : (toLower c == k) = (c == k - 32 || c == k) := by
  simp only [toLower, isUpper]
  by_cases hu : (decide (65 ≤ c) && decide (c ≤ 90)) = true
  · simp only [hu, if_true]
    simp only [Bool.and_eq_true, decide_eq_true_eq] at hu
    rw [Bool.eq_iff_iff]
    simp only [beq_iff_eq, Bool.or_eq_true]
    omega
  · simp only [hu]
    simp only [Bool.and_eq_true, decide_eq_true_eq, not_and, Nat.not_le] at hu
    rw [Bool.eq_iff_iff]
    simp only [beq_iff_eq, Bool.or_eq_true, Bool.false_eq_true, if_false]
    omega

theorem cls_G (c : Nat) : clsMem false [.ch 71, .ch 103] c = (toLower c == 103) := by
  rw [toLower_eq_iff c 103 (by omega)]
  simp [clsMem, Item.mem]

theorem cls_H (c : Nat) : clsMem false [.ch 104, .ch 72] c = (toLower c == 104) := by
  rw [toLower_eq_iff c 104 (by omega)]
  simp [clsMem, Item.mem, Bool.or_comm]

/-- `ghostAlts` with its pattern matches spelled as the character tests the engine performs -/
theorem ghost_flatMap {β} (K : Bool × Bool × Bytes → List β) (s : Bytes) :
    (ghostAlts s).flatMap K =
      (match s with
        | c :: t => if c == 64 then K (true, false, t) else []
        | [] => []) ++
      (match s with
        | c :: t =>
          if toLower c == 103 then
            match t with
            | c2 :: t2 =>
              if toLower c2 == 104 then
                match t2 with
                | c3 :: t3 => if c3 == 40 then K (false, true, t3) else []
                | [] => []
              else []
            | [] => []
          else []
        | [] => []) ++
      K (false, false, s) := by
  simp only [ghostAlts, List.flatMap_append, List.flatMap_cons, List.flatMap_nil, List.append_nil]
  congr 1
  congr 1
  · cases s with
    | nil => rfl
    | cons c t =>
      by_cases hc : c = 64
      · subst hc; simp
      · have hc2 : (c == 64) = false := by simpa using hc
        simp only [hc2]
        split
        · rename_i heq
          injection heq with h1 h2
          exact absurd h1 hc
        · simp
  · cases s with
    | nil => rfl
    | cons c t =>
      cases t with
      | nil => simp
      | cons c2 t2 =>
        cases t2 with
        | nil => simp
        | cons c3 t3 =>
          by_cases hc3 : c3 = 40
          · subst hc3
            by_cases h1 : (toLower c == 103) = true <;> by_cases h2 : (toLower c2 == 104) = true <;> simp [h1, h2]
          · have hc3' : (c3 == 40) = false := by simpa using hc3
            simp only [hc3']
            split
            · rename_i heq
              injection heq with _ h2
              injection h2 with _ h3
              injection h3 with h4 _
              exact absurd h4 hc3
            · simp

/-- **the hand recogniser explores exactly the matches of the generated regex, in the same order** -/
theorem allMatches_eq_regex (s : Bytes) :
    (Gen.NucleusRegex.nucleus.ms (St.init s)).map groupsOfSt = allMatches s := by
  rw [map_ms_eq_bind, nucleus_shape, bind_seq, bind_bos]
  simp only [St.init, Option.isNone_none, if_true]
  rw [bind_seq]
  unfold ghostRe
  simp only [bind_opt, bind_alt, bind_group, bind_seq, bind_cls, cls_ch, cls_G, cls_H, St.capture, core0, core1, core2]
  rw [allMatches_eq, ghost_flatMap]
  rfl

end QcelVerif.Nucleus
