import QcelVerif.Model.Serialize
import QcelVerif.Lemmas.Serialize
import QcelVerif.Lemmas.SerializeMsgpack
/-!
Helper lemmas for the msgpack byte-stream round trip (C10, `Props/C10Msgpack.lean`). Core Lean only.

Layout
* `withLen`/`rawOf`/`arrOf`/`mapOf` : top-level copies of the four local helpers of `mpDec`, so that the branch the decoder
  takes for a head byte can be *named* (`mpDec_c4 : h.toNat = 0xc4 → mpDec (f+1) (h :: r) = withLen r 1 (rawOf .bin)`).
* one `mpDec_<head>` lemma per head form: unfolds `mpDec` once and walks down the `if` chain test by test
  (`ite_neg'` with `omega` for every test that fails, `ite_pos'` for the one that holds) — no `simp` over the chain.
* `dec_*` lemmas: what the decoder does on the exact bytes the encoder writes (`mpInt`, `mpStrHead`, …), followed by
  an arbitrary rest of the stream.
-/
namespace QcelVerif.Ser

theorem ite_neg' {α : Type} {c : Prop} [Decidable c] {a b x : α} (hc : ¬ c) (h : b = x) :
    (if c then a else b) = x := by rw [if_neg hc]; exact h

theorem ite_pos' {α : Type} {c : Prop} [Decidable c] {a b x : α} (hc : c) (h : a = x) :
    (if c then a else b) = x := by rw [if_pos hc]; exact h

/-- result type of one decoding step -/
abbrev DR := Except DecErr (Val × Bytes)

/-- the local `withLen` of `mpDec` -/
def withLen (r : Bytes) (k : Nat) (f : Nat → Bytes → DR) : DR :=
  match takeN k r with
  | some (lb, r') => f (beNat lb) r'
  | none => .error .truncated

/-- the local `raw` of `mpDec` -/
def rawOf (mk : Bytes → Val) (len : Nat) (r' : Bytes) : DR :=
  match takeN len r' with
  | some (b, r'') => .ok (mk b, r'')
  | none => .error .truncated

/-- the local `arrOf` of `mpDec` -/
def arrOf (fuel len : Nat) (r' : Bytes) : DR :=
  (mpDecL fuel len r').map fun (l, r'') => (.arr l, r'')

/-- the local `mapOf` of `mpDec` -/
def mapOf (fuel len : Nat) (r' : Bytes) : DR :=
  match mpDecP fuel len r' with
  | .error e => .error e
  | .ok (l, r'') =>
    match mpHook l with
    | .ok v => .ok (v, r'')
    | .error e => .error (.hook e)

/-! ### one lemma per head form -/

local macro "dec_head" : tactic =>
  `(tactic| (rw [mpDec]; (repeat (refine ite_neg' (by omega) ?_)); refine ite_pos' (by omega) ?_; rfl))

section heads
variable (f : Nat) (h : UInt8) (r : Bytes)

theorem mpDec_posfix' (hn : h.toNat < 0x80) : mpDec (f + 1) (h :: r) = .ok (.int h.toNat, r) := by
  rw [mpDec]
  exact ite_pos' hn rfl
theorem mpDec_fixmap (h1 : 0x80 ≤ h.toNat) (h2 : h.toNat < 0x90) :
    mpDec (f + 1) (h :: r) = mapOf f (h.toNat - 0x80) r := by dec_head
theorem mpDec_fixarr (h1 : 0x90 ≤ h.toNat) (h2 : h.toNat < 0xa0) :
    mpDec (f + 1) (h :: r) = arrOf f (h.toNat - 0x90) r := by dec_head
theorem mpDec_fixstr (h1 : 0xa0 ≤ h.toNat) (h2 : h.toNat < 0xc0) :
    mpDec (f + 1) (h :: r) = rawOf .str (h.toNat - 0xa0) r := by
  rw [mpDec]
  refine ite_neg' (by omega) ?_
  refine ite_neg' (by omega) ?_
  refine ite_neg' (by omega) ?_
  refine ite_pos' h2 ?_
  generalize h.toNat - 0xa0 = len   -- keep `rfl` from evaluating the subtraction
  rfl
theorem mpDec_c0 (hn : h.toNat = 0xc0) : mpDec (f + 1) (h :: r) = .ok (.nil, r) := by dec_head
theorem mpDec_c2 (hn : h.toNat = 0xc2) : mpDec (f + 1) (h :: r) = .ok (.bool false, r) := by dec_head
theorem mpDec_c3 (hn : h.toNat = 0xc3) : mpDec (f + 1) (h :: r) = .ok (.bool true, r) := by dec_head
theorem mpDec_c4 (hn : h.toNat = 0xc4) : mpDec (f + 1) (h :: r) = withLen r 1 (rawOf .bin) := by dec_head
theorem mpDec_c5 (hn : h.toNat = 0xc5) : mpDec (f + 1) (h :: r) = withLen r 2 (rawOf .bin) := by dec_head
theorem mpDec_c6 (hn : h.toNat = 0xc6) : mpDec (f + 1) (h :: r) = withLen r 4 (rawOf .bin) := by dec_head
theorem mpDec_cb (hn : h.toNat = 0xcb) : mpDec (f + 1) (h :: r) = rawOf .f64 8 r := by dec_head
theorem mpDec_cc (hn : h.toNat = 0xcc) :
    mpDec (f + 1) (h :: r) = withLen r 1 (fun v r' => .ok (.int v, r')) := by dec_head
theorem mpDec_cd (hn : h.toNat = 0xcd) :
    mpDec (f + 1) (h :: r) = withLen r 2 (fun v r' => .ok (.int v, r')) := by dec_head
theorem mpDec_ce (hn : h.toNat = 0xce) :
    mpDec (f + 1) (h :: r) = withLen r 4 (fun v r' => .ok (.int v, r')) := by dec_head
theorem mpDec_cf (hn : h.toNat = 0xcf) :
    mpDec (f + 1) (h :: r) = withLen r 8 (fun v r' => .ok (.int v, r')) := by dec_head
theorem mpDec_d0 (hn : h.toNat = 0xd0) :
    mpDec (f + 1) (h :: r) = withLen r 1 (fun v r' =>
      .ok (.int (if v < 128 then (v : Int) else (v : Int) - 256), r')) := by dec_head
theorem mpDec_d1 (hn : h.toNat = 0xd1) :
    mpDec (f + 1) (h :: r) = withLen r 2 (fun v r' =>
      .ok (.int (if v < 32768 then (v : Int) else (v : Int) - 65536), r')) := by dec_head
theorem mpDec_d2 (hn : h.toNat = 0xd2) :
    mpDec (f + 1) (h :: r) = withLen r 4 (fun v r' =>
      .ok (.int (if v < 2147483648 then (v : Int) else (v : Int) - 4294967296), r')) := by dec_head
theorem mpDec_d3 (hn : h.toNat = 0xd3) :
    mpDec (f + 1) (h :: r) = withLen r 8 (fun v r' =>
      .ok (.int (if v < 9223372036854775808 then (v : Int) else (v : Int) - 18446744073709551616), r')) := by
  dec_head
theorem mpDec_d9 (hn : h.toNat = 0xd9) : mpDec (f + 1) (h :: r) = withLen r 1 (rawOf .str) := by dec_head
theorem mpDec_da (hn : h.toNat = 0xda) : mpDec (f + 1) (h :: r) = withLen r 2 (rawOf .str) := by dec_head
theorem mpDec_db (hn : h.toNat = 0xdb) : mpDec (f + 1) (h :: r) = withLen r 4 (rawOf .str) := by dec_head
theorem mpDec_dc (hn : h.toNat = 0xdc) : mpDec (f + 1) (h :: r) = withLen r 2 (arrOf f) := by dec_head
theorem mpDec_dd (hn : h.toNat = 0xdd) : mpDec (f + 1) (h :: r) = withLen r 4 (arrOf f) := by dec_head
theorem mpDec_de (hn : h.toNat = 0xde) : mpDec (f + 1) (h :: r) = withLen r 2 (mapOf f) := by dec_head
theorem mpDec_df (hn : h.toNat = 0xdf) : mpDec (f + 1) (h :: r) = withLen r 4 (mapOf f) := by dec_head
theorem mpDec_negfix (hn : 0xe0 ≤ h.toNat) :
    mpDec (f + 1) (h :: r) = .ok (.int ((h.toNat : Int) - 256), r) := by dec_head

end heads

/-! ### length fields and raw payloads -/

theorem withLen_be (k n : Nat) (rest : Bytes) (F : Nat → Bytes → DR) (hn : n < 256 ^ k) :
    withLen (beBytes k n ++ rest) k F = F n rest := by
  unfold withLen
  rw [takeN_be]
  show F (beNat (beBytes k n)) rest = F n rest
  rw [beNat_beBytes_mod, Nat.mod_eq_of_lt hn]

theorem withLen_be1 (n : Nat) (rest : Bytes) (F : Nat → Bytes → DR) (hn : n < 256) :
    withLen (beBytes 1 n ++ rest) 1 F = F n rest := withLen_be 1 n rest F (by simpa using hn)
theorem withLen_be2 (n : Nat) (rest : Bytes) (F : Nat → Bytes → DR) (hn : n < 65536) :
    withLen (beBytes 2 n ++ rest) 2 F = F n rest := withLen_be 2 n rest F (by simpa using hn)
theorem withLen_be4 (n : Nat) (rest : Bytes) (F : Nat → Bytes → DR) (hn : n < 4294967296) :
    withLen (beBytes 4 n ++ rest) 4 F = F n rest := withLen_be 4 n rest F (by simpa using hn)
theorem withLen_be8 (n : Nat) (rest : Bytes) (F : Nat → Bytes → DR) (hn : n < 18446744073709551616) :
    withLen (beBytes 8 n ++ rest) 8 F = F n rest := withLen_be 8 n rest F (by simpa using hn)

theorem rawOf_append (mk : Bytes → Val) (n : Nat) (b rest : Bytes) (hb : b.length = n) :
    rawOf mk n (b ++ rest) = .ok (mk b, rest) := by
  unfold rawOf
  rw [takeN_append b rest n hb]

/-! ### integers: all ten forms of `mpInt` -/

theorem dec_nat (f n : Nat) (rest : Bytes) (hn : n < 18446744073709551616) :
    mpDec (f + 1) (mpInt (n : Int) ++ rest) = .ok (.int n, rest) := by
  have h0 : (0 : Int) ≤ (n : Int) := Int.natCast_nonneg n
  unfold mpInt
  rw [if_pos h0]
  simp only [Int.toNat_natCast]
  by_cases c1 : n < 128
  · rw [if_pos c1]
    exact mpDec_posfix f n rest c1
  rw [if_neg c1]
  by_cases c2 : n < 256
  · rw [if_pos c2]
    show mpDec (f + 1) (0xcc :: (beBytes 1 n ++ rest)) = _
    rw [mpDec_cc f _ _ (by decide), withLen_be1 n rest _ c2]
  rw [if_neg c2]
  by_cases c3 : n < 65536
  · rw [if_pos c3]
    show mpDec (f + 1) (0xcd :: (beBytes 2 n ++ rest)) = _
    rw [mpDec_cd f _ _ (by decide), withLen_be2 n rest _ c3]
  rw [if_neg c3]
  by_cases c4 : n < 4294967296
  · rw [if_pos c4]
    show mpDec (f + 1) (0xce :: (beBytes 4 n ++ rest)) = _
    rw [mpDec_ce f _ _ (by decide), withLen_be4 n rest _ c4]
  rw [if_neg c4]
  show mpDec (f + 1) (0xcf :: (beBytes 8 n ++ rest)) = _
  rw [mpDec_cf f _ _ (by decide), withLen_be8 n rest _ hn]

theorem dec_negnat (f m : Nat) (rest : Bytes) (h1 : 1 ≤ m) (h2 : m ≤ 9223372036854775808) :
    mpDec (f + 1) (mpInt (-(m : Int)) ++ rest) = .ok (.int (-(m : Int)), rest) := by
  have h0 : ¬ (0 : Int) ≤ -(m : Int) := by omega
  unfold mpInt
  rw [if_neg h0]
  simp only [Int.neg_neg, Int.toNat_natCast]
  by_cases c1 : m ≤ 32
  · rw [if_pos c1]
    have ht : (UInt8.ofNat (256 - m)).toNat = 256 - m := toNat_ofNat_lt (by omega)
    show mpDec (f + 1) (UInt8.ofNat (256 - m) :: rest) = _
    rw [mpDec_negfix f _ _ (by omega), ht]
    have : ((256 - m : Nat) : Int) - 256 = -(m : Int) := by omega
    rw [this]
  rw [if_neg c1]
  by_cases c2 : m ≤ 128
  · rw [if_pos c2]
    show mpDec (f + 1) (0xd0 :: (beBytes 1 (256 - m) ++ rest)) = _
    rw [mpDec_d0 f _ _ (by decide), withLen_be1 _ rest _ (by omega)]
    show Except.ok (Val.int (if 256 - m < 128 then ((256 - m : Nat) : Int) else ((256 - m : Nat) : Int) - 256), rest) = _
    rw [if_neg (by omega)]
    have : ((256 - m : Nat) : Int) - 256 = -(m : Int) := by omega
    rw [this]
  rw [if_neg c2]
  by_cases c3 : m ≤ 32768
  · rw [if_pos c3]
    show mpDec (f + 1) (0xd1 :: (beBytes 2 (65536 - m) ++ rest)) = _
    rw [mpDec_d1 f _ _ (by decide), withLen_be2 _ rest _ (by omega)]
    show Except.ok (Val.int (if 65536 - m < 32768 then ((65536 - m : Nat) : Int)
      else ((65536 - m : Nat) : Int) - 65536), rest) = _
    rw [if_neg (by omega)]
    have : ((65536 - m : Nat) : Int) - 65536 = -(m : Int) := by omega
    rw [this]
  rw [if_neg c3]
  by_cases c4 : m ≤ 2147483648
  · rw [if_pos c4]
    show mpDec (f + 1) (0xd2 :: (beBytes 4 (4294967296 - m) ++ rest)) = _
    rw [mpDec_d2 f _ _ (by decide), withLen_be4 _ rest _ (by omega)]
    show Except.ok (Val.int (if 4294967296 - m < 2147483648 then ((4294967296 - m : Nat) : Int)
      else ((4294967296 - m : Nat) : Int) - 4294967296), rest) = _
    rw [if_neg (by omega)]
    have : ((4294967296 - m : Nat) : Int) - 4294967296 = -(m : Int) := by omega
    rw [this]
  rw [if_neg c4]
  show mpDec (f + 1) (0xd3 :: (beBytes 8 (18446744073709551616 - m) ++ rest)) = _
  rw [mpDec_d3 f _ _ (by decide), withLen_be8 _ rest _ (by omega)]
  show Except.ok (Val.int (if 18446744073709551616 - m < 9223372036854775808
    then ((18446744073709551616 - m : Nat) : Int)
    else ((18446744073709551616 - m : Nat) : Int) - 18446744073709551616), rest) = _
  rw [if_neg (by omega)]
  have : ((18446744073709551616 - m : Nat) : Int) - 18446744073709551616 = -(m : Int) := by omega
  rw [this]

/-- every integer msgpack can hold (−2^63 … 2^64−1) decodes to itself -/
theorem dec_int (f : Nat) (i : Int) (rest : Bytes)
    (h1 : -9223372036854775808 ≤ i) (h2 : i < 18446744073709551616) :
    mpDec (f + 1) (mpInt i ++ rest) = .ok (.int i, rest) := by
  by_cases h0 : 0 ≤ i
  · obtain ⟨n, rfl⟩ := Int.eq_ofNat_of_zero_le h0
    exact dec_nat f n rest (by omega)
  · obtain ⟨m, rfl⟩ : ∃ m : Nat, i = -(m : Int) := ⟨(-i).toNat, by omega⟩
    exact dec_negnat f m rest (by omega) (by omega)

/-! ### heads carrying a length: str (4 forms), bin (3), array (3), map (3) -/

theorem dec_strHead (f n : Nat) (r : Bytes) (hn : n < 4294967296) :
    mpDec (f + 1) (mpStrHead n ++ r) = rawOf .str n r := by
  unfold mpStrHead
  by_cases c1 : n < 32
  · rw [if_pos c1]
    have ht : (UInt8.ofNat (0xa0 + n)).toNat = 0xa0 + n := toNat_ofNat_lt (by omega)
    show mpDec (f + 1) (UInt8.ofNat (0xa0 + n) :: r) = _
    rw [mpDec_fixstr f _ _ (by omega) (by omega), ht, Nat.add_sub_cancel_left]
  rw [if_neg c1]
  by_cases c2 : n < 256
  · rw [if_pos c2]
    show mpDec (f + 1) (0xd9 :: (beBytes 1 n ++ r)) = _
    rw [mpDec_d9 f _ _ (by decide), withLen_be1 n r _ c2]
  rw [if_neg c2]
  by_cases c3 : n < 65536
  · rw [if_pos c3]
    show mpDec (f + 1) (0xda :: (beBytes 2 n ++ r)) = _
    rw [mpDec_da f _ _ (by decide), withLen_be2 n r _ c3]
  rw [if_neg c3]
  show mpDec (f + 1) (0xdb :: (beBytes 4 n ++ r)) = _
  rw [mpDec_db f _ _ (by decide), withLen_be4 n r _ hn]

theorem dec_binHead (f n : Nat) (r : Bytes) (hn : n < 4294967296) :
    mpDec (f + 1) (mpBinHead n ++ r) = rawOf .bin n r := by
  unfold mpBinHead
  by_cases c2 : n < 256
  · rw [if_pos c2]
    show mpDec (f + 1) (0xc4 :: (beBytes 1 n ++ r)) = _
    rw [mpDec_c4 f _ _ (by decide), withLen_be1 n r _ c2]
  rw [if_neg c2]
  by_cases c3 : n < 65536
  · rw [if_pos c3]
    show mpDec (f + 1) (0xc5 :: (beBytes 2 n ++ r)) = _
    rw [mpDec_c5 f _ _ (by decide), withLen_be2 n r _ c3]
  rw [if_neg c3]
  show mpDec (f + 1) (0xc6 :: (beBytes 4 n ++ r)) = _
  rw [mpDec_c6 f _ _ (by decide), withLen_be4 n r _ hn]

theorem dec_arrHead (f n : Nat) (r : Bytes) (hn : n < 4294967296) :
    mpDec (f + 1) (mpArrHead n ++ r) = arrOf f n r := by
  unfold mpArrHead
  by_cases c1 : n < 16
  · rw [if_pos c1]
    have ht : (UInt8.ofNat (0x90 + n)).toNat = 0x90 + n := toNat_ofNat_lt (by omega)
    show mpDec (f + 1) (UInt8.ofNat (0x90 + n) :: r) = _
    rw [mpDec_fixarr f _ _ (by omega) (by omega), ht, Nat.add_sub_cancel_left]
  rw [if_neg c1]
  by_cases c3 : n < 65536
  · rw [if_pos c3]
    show mpDec (f + 1) (0xdc :: (beBytes 2 n ++ r)) = _
    rw [mpDec_dc f _ _ (by decide), withLen_be2 n r _ c3]
  rw [if_neg c3]
  show mpDec (f + 1) (0xdd :: (beBytes 4 n ++ r)) = _
  rw [mpDec_dd f _ _ (by decide), withLen_be4 n r _ hn]

theorem dec_mapHead (f n : Nat) (r : Bytes) (hn : n < 4294967296) :
    mpDec (f + 1) (mpMapHead n ++ r) = mapOf f n r := by
  unfold mpMapHead
  by_cases c1 : n < 16
  · rw [if_pos c1]
    have ht : (UInt8.ofNat (0x80 + n)).toNat = 0x80 + n := toNat_ofNat_lt (by omega)
    show mpDec (f + 1) (UInt8.ofNat (0x80 + n) :: r) = _
    rw [mpDec_fixmap f _ _ (by omega) (by omega), ht, Nat.add_sub_cancel_left]
  rw [if_neg c1]
  by_cases c3 : n < 65536
  · rw [if_pos c3]
    show mpDec (f + 1) (0xde :: (beBytes 2 n ++ r)) = _
    rw [mpDec_de f _ _ (by decide), withLen_be2 n r _ c3]
  rw [if_neg c3]
  show mpDec (f + 1) (0xdf :: (beBytes 4 n ++ r)) = _
  rw [mpDec_df f _ _ (by decide), withLen_be4 n r _ hn]

/-! ### leaves -/

theorem dec_nil (f : Nat) (rest : Bytes) : mpDec (f + 1) (0xc0 :: rest) = .ok (.nil, rest) :=
  mpDec_c0 f _ _ (by decide)
theorem dec_false (f : Nat) (rest : Bytes) : mpDec (f + 1) (0xc2 :: rest) = .ok (.bool false, rest) :=
  mpDec_c2 f _ _ (by decide)
theorem dec_true (f : Nat) (rest : Bytes) : mpDec (f + 1) (0xc3 :: rest) = .ok (.bool true, rest) :=
  mpDec_c3 f _ _ (by decide)

theorem dec_f64 (f : Nat) (b rest : Bytes) (hb : b.length = 8) :
    mpDec (f + 1) (0xcb :: (b ++ rest)) = .ok (.f64 b, rest) := by
  rw [mpDec_cb f _ _ (by decide), rawOf_append _ _ _ _ hb]

theorem dec_str (f n : Nat) (s rest : Bytes) (hs : s.length = n) (hn : n < 4294967296) :
    mpDec (f + 1) (mpStrHead n ++ (s ++ rest)) = .ok (.str s, rest) := by
  rw [dec_strHead f n _ hn, rawOf_append _ _ _ _ hs]

theorem dec_bin (f n : Nat) (b rest : Bytes) (hb : b.length = n) (hn : n < 4294967296) :
    mpDec (f + 1) (mpBinHead n ++ (b ++ rest)) = .ok (.bin b, rest) := by
  rw [dec_binHead f n _ hn, rawOf_append _ _ _ _ hb]

/-! ### stepping through element and pair lists -/

theorem mpDecL_zero (fuel : Nat) (bs : Bytes) : mpDecL fuel 0 bs = .ok ([], bs) := by rw [mpDecL]

theorem mpDecP_zero (fuel : Nat) (bs : Bytes) : mpDecP fuel 0 bs = .ok ([], bs) := by rw [mpDecP]

theorem mpDecL_cons_ok {fuel k : Nat} {bs r r' : Bytes} {v : Val} {l : List Val}
    (h1 : mpDec fuel bs = .ok (v, r)) (h2 : mpDecL fuel k r = .ok (l, r')) :
    mpDecL fuel (k + 1) bs = .ok (v :: l, r') := by
  rw [mpDecL, h1]
  simp only [h2]

theorem mpDecP_cons_ok {fuel k : Nat} {bs r r' r'' : Bytes} {key v : Val} {l : List (Val × Val)}
    (h1 : mpDec fuel bs = .ok (key, r)) (h2 : mpDec fuel r = .ok (v, r'))
    (h3 : mpDecP fuel k r' = .ok (l, r'')) :
    mpDecP fuel (k + 1) bs = .ok ((key, v) :: l, r'') := by
  rw [mpDecP, h1]
  simp only [h2, h3]

theorem arrOf_ok {fuel n : Nat} {bs r : Bytes} {l : List Val} (h : mpDecL fuel n bs = .ok (l, r)) :
    arrOf fuel n bs = .ok (.arr l, r) := by
  unfold arrOf
  rw [h]
  rfl

theorem mapOf_ok {fuel n : Nat} {bs r : Bytes} {l : List (Val × Val)} {v : Val}
    (h : mpDecP fuel n bs = .ok (l, r)) (hk : mpHook l = .ok v) :
    mapOf fuel n bs = .ok (v, r) := by
  unfold mapOf
  rw [h]
  simp only [hk]

/-! ### every encoded value occupies at least one byte (fuel accounting) -/

theorem mpInt_length_pos (i : Int) : 1 ≤ (mpInt i).length := by
  unfold mpInt
  split
  · simp only []
    repeat' split
    all_goals simp
  · simp only []
    repeat' split
    all_goals simp

theorem mpStrHead_length_pos (n : Nat) : 1 ≤ (mpStrHead n).length := by
  unfold mpStrHead
  repeat' split
  all_goals simp

theorem mpBinHead_length_pos (n : Nat) : 1 ≤ (mpBinHead n).length := by
  unfold mpBinHead
  repeat' split
  all_goals simp

theorem mpArrHead_length_pos (n : Nat) : 1 ≤ (mpArrHead n).length := by
  unfold mpArrHead
  repeat' split
  all_goals simp

theorem mpMapHead_length_pos (n : Nat) : 1 ≤ (mpMapHead n).length := by
  unfold mpMapHead
  repeat' split
  all_goals simp

/-! ### the array envelope, byte level -/

/-- the shape entries are written exactly like a list of non-negative ints -/
theorem dec_shape (f : Nat) : ∀ (shape : List Nat) (rest : Bytes),
    (∀ n ∈ shape, n < 18446744073709551616) →
    mpDecL (f + 1) shape.length (mpEncShape shape ++ rest)
      = .ok (shape.map fun (n : Nat) => Val.int (n : Int), rest)
  | [], rest, _ => by
    rw [mpEncShape]
    exact mpDecL_zero _ _
  | n :: t, rest, h => by
    have hn : n < 18446744073709551616 := h n (List.mem_cons_self ..)
    have ht : ∀ x ∈ t, x < 18446744073709551616 := fun x hx => h x (List.mem_cons_of_mem _ hx)
    rw [mpEncShape, List.append_assoc]
    exact mpDecL_cons_ok (dec_nat f n _ hn) (dec_shape f t rest ht)

/-- the key/value list of the envelope (`ndEnvelope … = .map (ndList …)`) -/
def ndList (dt : Bytes) (shape : List Nat) (data : Bytes) : List (Val × Val) :=
  [(.bin (asciiBytes "_nd_"), .bool true),
   (.bin (asciiBytes "dtype"), .str dt),
   (.bin (asciiBytes "data"), .bin data)]
  ++ (if shape.length > 1 then
        [(.bin (asciiBytes "shape"), .arr (shape.map fun (n : Nat) => Val.int (n : Int)))] else [])

theorem ndEnvelope_eq (dt : Bytes) (shape : List Nat) (data : Bytes) :
    ndEnvelope dt shape data = .map (ndList dt shape data) := rfl

theorem len_key_nd : (asciiBytes "_nd_").length = 4 := by decide
theorem len_key_dtype : (asciiBytes "dtype").length = 5 := by decide
theorem len_key_data : (asciiBytes "data").length = 4 := by decide
theorem len_key_shape : (asciiBytes "shape").length = 5 := by decide

/-- an ndarray leaf is at least three bytes on the wire (so the fuel `length + 1` reaches the shape entries) -/
theorem mpEnc_nd_length (dt : Bytes) (shape : List Nat) (data : Bytes) :
    3 ≤ (mpEnc (.nd dt shape data)).length := by
  rw [mpEnc]
  have h1 := mpMapHead_length_pos (if shape.length > 1 then 4 else 3)
  have h2 := mpBinHead_length_pos 4
  simp only [List.length_append, List.length_cons, List.length_nil]
  omega

theorem mpEncL_shape : ∀ shape : List Nat,
    mpEncL (shape.map fun (n : Nat) => Val.int (n : Int)) = mpEncShape shape
  | [] => by rw [List.map_nil, mpEncL, mpEncShape]
  | n :: t => by rw [List.map_cons, mpEncL, mpEncShape, mpEnc, mpEncL_shape t]

/-- the bytes of an ndarray leaf are the bytes of its envelope map -/
theorem mpEnc_nd_eq (dt : Bytes) (shape : List Nat) (data : Bytes) :
    mpEnc (.nd dt shape data)
      = mpMapHead (ndList dt shape data).length ++ mpEncP (ndList dt shape data) := by
  by_cases hr : shape.length > 1
  · simp only [ndList, hr, if_true, List.cons_append, List.nil_append, mpEnc, mpEncP, List.length_cons,
      List.length_nil, List.append_assoc, len_key_nd, len_key_dtype, len_key_data, len_key_shape, mpEncL_shape,
      List.length_map, List.append_nil, Nat.reduceAdd]
  · simp only [ndList, hr, if_false, List.cons_append, List.nil_append, mpEnc, mpEncP, List.length_cons,
      List.length_nil, List.append_assoc, len_key_nd, len_key_dtype, len_key_data,
      List.append_nil, Nat.reduceAdd]

theorem key_nd_lt : (asciiBytes "_nd_").length < 4294967296 := by rw [len_key_nd]; decide
theorem key_dtype_lt : (asciiBytes "dtype").length < 4294967296 := by rw [len_key_dtype]; decide
theorem key_data_lt : (asciiBytes "data").length < 4294967296 := by rw [len_key_data]; decide
theorem key_shape_lt : (asciiBytes "shape").length < 4294967296 := by rw [len_key_shape]; decide

/-- the `shape` value of an envelope: an array of non-negative ints -/
theorem dec_shapeArr (f : Nat) (shape : List Nat) (rest : Bytes) (hrank : shape.length < 4294967296)
    (hdims : ∀ n ∈ shape, n < 18446744073709551616) :
    mpDec (f + 2) (mpEnc (.arr (shape.map fun (n : Nat) => Val.int (n : Int))) ++ rest)
      = .ok (.arr (shape.map fun (n : Nat) => Val.int (n : Int)), rest) := by
  rw [mpEnc, List.length_map, mpEncL_shape, List.append_assoc, dec_arrHead (f + 1) _ _ hrank]
  exact arrOf_ok (dec_shape f shape rest hdims)

/-- decoding the pairs of an envelope: three or four `bin` keys with a bool, a str, a bin and a list of ints -/
theorem dec_ndPairs (f : Nat) (dt data : Bytes) (shape : List Nat) (rest : Bytes)
    (hdt : dt.length < 4294967296) (hdata : data.length < 4294967296) (hrank : shape.length < 4294967296)
    (hdims : ∀ n ∈ shape, n < 18446744073709551616) :
    mpDecP (f + 2) (ndList dt shape data).length (mpEncP (ndList dt shape data) ++ rest)
      = .ok (ndList dt shape data, rest) := by
  have k1 : ∀ r, mpDec (f + 2) (mpEnc (.bin (asciiBytes "_nd_")) ++ r) = .ok (.bin (asciiBytes "_nd_"), r) := by
    intro r; rw [mpEnc, List.append_assoc]; exact dec_bin (f + 1) _ _ _ rfl key_nd_lt
  have k2 : ∀ r, mpDec (f + 2) (mpEnc (.bin (asciiBytes "dtype")) ++ r) = .ok (.bin (asciiBytes "dtype"), r) := by
    intro r; rw [mpEnc, List.append_assoc]; exact dec_bin (f + 1) _ _ _ rfl key_dtype_lt
  have k3 : ∀ r, mpDec (f + 2) (mpEnc (.bin (asciiBytes "data")) ++ r) = .ok (.bin (asciiBytes "data"), r) := by
    intro r; rw [mpEnc, List.append_assoc]; exact dec_bin (f + 1) _ _ _ rfl key_data_lt
  have k4 : ∀ r, mpDec (f + 2) (mpEnc (.bin (asciiBytes "shape")) ++ r) = .ok (.bin (asciiBytes "shape"), r) := by
    intro r; rw [mpEnc, List.append_assoc]; exact dec_bin (f + 1) _ _ _ rfl key_shape_lt
  have v1 : ∀ r, mpDec (f + 2) (mpEnc (.bool true) ++ r) = .ok (.bool true, r) := by
    intro r; rw [mpEnc]; exact dec_true (f + 1) r
  have v2 : ∀ r, mpDec (f + 2) (mpEnc (.str dt) ++ r) = .ok (.str dt, r) := by
    intro r; rw [mpEnc, List.append_assoc]; exact dec_str (f + 1) _ _ _ rfl hdt
  have v3 : ∀ r, mpDec (f + 2) (mpEnc (.bin data) ++ r) = .ok (.bin data, r) := by
    intro r; rw [mpEnc, List.append_assoc]; exact dec_bin (f + 1) _ _ _ rfl hdata
  by_cases hr : shape.length > 1
  · have hl : ndList dt shape data =
        [(.bin (asciiBytes "_nd_"), .bool true), (.bin (asciiBytes "dtype"), .str dt),
         (.bin (asciiBytes "data"), .bin data),
         (.bin (asciiBytes "shape"), .arr (shape.map fun (n : Nat) => Val.int (n : Int)))] := by
      simp only [ndList, hr, if_true, List.cons_append, List.nil_append]
    rw [hl]
    simp only [mpEncP, List.append_assoc, List.length_cons, List.length_nil, List.nil_append]
    refine mpDecP_cons_ok (k1 _) (v1 _) ?_
    refine mpDecP_cons_ok (k2 _) (v2 _) ?_
    refine mpDecP_cons_ok (k3 _) (v3 _) ?_
    refine mpDecP_cons_ok (k4 _) (dec_shapeArr f shape _ hrank hdims) ?_
    exact mpDecP_zero _ _
  · have hl : ndList dt shape data =
        [(.bin (asciiBytes "_nd_"), .bool true), (.bin (asciiBytes "dtype"), .str dt),
         (.bin (asciiBytes "data"), .bin data)] := by
      simp only [ndList, hr, if_false, List.append_nil]
    rw [hl]
    simp only [mpEncP, List.append_assoc, List.length_cons, List.length_nil, List.nil_append]
    refine mpDecP_cons_ok (k1 _) (v1 _) ?_
    refine mpDecP_cons_ok (k2 _) (v2 _) ?_
    refine mpDecP_cons_ok (k3 _) (v3 _) ?_
    exact mpDecP_zero _ _

theorem ndList_length_lt (dt : Bytes) (shape : List Nat) (data : Bytes) :
    (ndList dt shape data).length < 4294967296 := by
  unfold ndList
  split <;> simp

end QcelVerif.Ser
