import QcelVerif.Model.MolSchema
/-! Helper lemmas for C09 (b): `np.split` by sorted separators, the fragment pattern it produces. -/
namespace QcelVerif.MolSchema

theorem npSplitAux_flatten {α : Type} (a : List α) : ∀ (seps : List Nat) (start : Nat),
    sortedLe start seps = true → (∀ s ∈ seps, s ≤ a.length) →
    (npSplitAux a start seps).flatten = a.drop start
  | [], start => by intro _ _; simp [npSplitAux]
  | s :: rest, start => by
    intro hs hle
    simp only [sortedLe, Bool.and_eq_true, decide_eq_true_eq] at hs
    have hsl : s ≤ a.length := hle s (List.mem_cons_self ..)
    have ih := npSplitAux_flatten a rest s hs.2 (fun x hx => hle x (List.mem_cons_of_mem _ hx))
    simp only [npSplitAux, List.flatten_cons, ih]
    have h1 : a.drop start = (a.take s ++ a.drop s).drop start := by rw [List.take_append_drop]
    rw [h1, List.drop_append_of_le_length]
    simp [List.length_take]; omega

theorem cumsum_npSplitAux {α : Type} (a : List α) : ∀ (seps : List Nat) (start : Nat),
    sortedLe start seps = true → (∀ s ∈ seps, s ≤ a.length) → start ≤ a.length →
    cumsumFrom start ((npSplitAux a start seps).map List.length) = seps ++ [a.length]
  | [], start => by
    intro _ _ h
    simp [npSplitAux, cumsumFrom]; omega
  | s :: rest, start => by
    intro hs hle hst
    simp only [sortedLe, Bool.and_eq_true, decide_eq_true_eq] at hs
    have hsl : s ≤ a.length := hle s (List.mem_cons_self ..)
    have ih := cumsum_npSplitAux a rest s hs.2 (fun x hx => hle x (List.mem_cons_of_mem _ hx)) hsl
    have hlen : start + ((a.take s).drop start).length = s := by
      simp [List.length_drop, List.length_take]; omega
    simp only [npSplitAux, List.map_cons, cumsumFrom, hlen, ih, List.cons_append]

theorem npSplitAux_ne_nil {α : Type} (a : List α) (start : Nat) (seps : List Nat) :
    npSplitAux a start seps ≠ [] := by
  cases seps <;> simp [npSplitAux]

/-! sorted integer ranges -/

def irange (s n : Nat) : List Int := (List.range' s n).map Int.ofNat

theorem arange_eq (n : Nat) : arange n = irange 0 n := by
  simp [arange, irange, List.range_eq_range']

theorem irange_succ (s n : Nat) : irange s (n + 1) = (s : Int) :: irange (s + 1) n := by
  simp [irange, List.range'_succ]

theorem sortInts_irange : ∀ (n s : Nat), sortInts (irange s n) = irange s n
  | 0, s => by simp [irange, sortInts]
  | n + 1, s => by
    rw [irange_succ, sortInts, sortInts_irange n (s + 1)]
    cases n with
    | zero => simp [irange, insertSorted]
    | succ m =>
      rw [irange_succ, insertSorted]
      simp
      intro h
      omega

/-- the fragment pattern written by `to_schema` for `n` atoms and separators `seps` -/
def patternOf (n : Nat) (seps : List Nat) : List (List Int) :=
  (npSplit (List.range n) seps).map (·.map Int.ofNat)

theorem patternOf_lengths (n : Nat) (seps : List Nat) :
    (patternOf n seps).map List.length = (npSplit (List.range n) seps).map List.length := by
  simp [patternOf, List.map_map, Function.comp_def]

theorem patternOf_flatten (n : Nat) (seps : List Nat) (hs : sortedLe 0 seps = true) (hle : ∀ s ∈ seps, s ≤ n) :
    (patternOf n seps).flatten = arange n := by
  have h := npSplitAux_flatten (List.range n) seps 0 hs (by simpa using hle)
  simp only [patternOf, npSplit, arange]
  rw [← List.map_flatten, h]
  simp

theorem contiguize_patternOf {K : Type} (n : Nat) (seps : List Nat) (hs : sortedLe 0 seps = true)
    (hle : ∀ s ∈ seps, s ≤ n) (geom : List K) (hg : geom.length = 3 * n)
    (elea elez : Option (List Int)) (elem : Option (List String)) (mass : Option (List K))
    (real : Option (List Bool)) (elbl : Option (List String))
    (h1 : lenOk n elea = true) (h2 : lenOk n elez = true) (h3 : lenOk n elem = true) (h4 : lenOk n mass = true)
    (h5 : lenOk n real = true) (h6 : lenOk n elbl = true) :
    contiguize (patternOf n seps) geom elea elez elem mass real elbl =
      .ok { seps := seps, geom := geom, elea := elea, elez := elez, elem := elem, mass := mass, real := real, elbl := elbl } := by
  have hcs : cumsumFrom 0 ((patternOf n seps).map List.length) = seps ++ [n] := by
    rw [patternOf_lengths]
    have := cumsum_npSplitAux (List.range n) seps 0 hs (by simpa using hle) (by simp)
    simpa [npSplit] using this
  have hmod : geom.length % 3 = 0 := by omega
  have hdiv : geom.length / 3 = n := by omega
  unfold contiguize
  simp only [hcs, List.getLast?_append, List.getLast?_singleton, Option.some_or, List.dropLast_concat]
  cases seps with
  | nil =>
    have hp : patternOf n [] = [arange n] := by simp [patternOf, npSplit, npSplitAux, arange]
    simp [hp, hmod, hdiv]
  | cons s rest =>
    have hfl := patternOf_flatten n (s :: rest) hs hle
    obtain ⟨p1, p2, ptl, hp⟩ : ∃ p1 p2 ptl, patternOf n (s :: rest) = p1 :: p2 :: ptl := by
      simp only [patternOf, npSplit, npSplitAux, List.map_cons]
      cases hr : npSplitAux (List.range n) s rest with
      | nil => exact absurd hr (npSplitAux_ne_nil _ _ _)
      | cons q qs => exact ⟨_, _, _, rfl⟩
    rw [hp] at hfl ⊢
    simp only [hfl]
    simp [arange_eq, sortInts_irange, hmod, hdiv, h1, h2, h3, h4, h5, h6]

end QcelVerif.MolSchema
