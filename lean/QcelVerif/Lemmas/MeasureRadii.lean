import QcelVerif.Model.MeasureRadii
import QcelVerif.Lemmas.Measure
/-!
Helper lemmas for `Props/C18Radii.lean` (nothing here is a property statement): how the atoms
built by `atomsOfSymbols` relate, index by index, to the `(symbol, point)` rows.
-/
set_option linter.unusedSectionVars false
namespace QcelVerif.Measure
open QcelVerif QcelVerif.PStr

variable {K : Type}

theorem atomsOfSymbols_getElem? (rad : Bytes → Option K) :
    ∀ (l : List (Bytes × V3 K)) (as : List (Atom K)), atomsOfSymbols rad l = some as →
      ∀ (i : Nat) (a : Atom K), as[i]? = some a ↔
        ∃ s, l[i]? = some (s, a.p) ∧ rad s = some a.r
  | [], as, h, i, a => by
      simp only [atomsOfSymbols, Option.some.injEq] at h
      subst h
      simp
  | (s, p) :: rest, as, h, i, a => by
      simp only [atomsOfSymbols] at h
      cases hr : rad s with
      | none => simp [hr] at h
      | some r =>
        cases hrest : atomsOfSymbols rad rest with
        | none => simp [hr, hrest] at h
        | some as' =>
          simp only [hr, hrest, Option.some.injEq] at h
          subst h
          cases i with
          | zero =>
            simp only [List.getElem?_cons_zero, Option.some.injEq]
            constructor
            · intro e
              subst e
              exact ⟨s, rfl, hr⟩
            · rintro ⟨s', e, hr'⟩
              simp only [Prod.mk.injEq] at e
              obtain ⟨e1, e2⟩ := e
              subst e1
              rw [hr] at hr'
              cases a
              simp only [Option.some.injEq] at hr'
              simp_all
          | succ i =>
            simp only [List.getElem?_cons_succ]
            exact atomsOfSymbols_getElem? rad rest as' hrest i a

theorem atomsOfSymbols_length (rad : Bytes → Option K) :
    ∀ (l : List (Bytes × V3 K)) (as : List (Atom K)), atomsOfSymbols rad l = some as →
      as.length = l.length
  | [], as, h => by
      simp only [atomsOfSymbols, Option.some.injEq] at h
      subst h
      rfl
  | (s, p) :: rest, as, h => by
      simp only [atomsOfSymbols] at h
      cases hr : rad s with
      | none => simp [hr] at h
      | some r =>
        cases hrest : atomsOfSymbols rad rest with
        | none => simp [hr, hrest] at h
        | some as' =>
          simp only [hr, hrest, Option.some.injEq] at h
          subst h
          simp [atomsOfSymbols_length rad rest as' hrest]

section ordered
variable {K : Type} [Field K] [LinearOrder K] [IsStrictOrderedRing K]

/-- moving the geometry moves the atoms and leaves the radii (and any look-up failure) alone -/
theorem atomsOfSymbols_move (rad : Bytes → Option K) (T : Motion K) :
    ∀ (l : List (Bytes × V3 K)),
      atomsOfSymbols rad (l.map fun sp => (sp.1, T.apply sp.2))
        = (atomsOfSymbols rad l).map (List.map (Atom.move T))
  | [] => rfl
  | (s, p) :: rest => by
      simp only [List.map_cons, atomsOfSymbols, atomsOfSymbols_move rad T rest]
      cases rad s with
      | none => rfl
      | some r =>
        cases atomsOfSymbols rad rest with
        | none => rfl
        | some as => rfl

end ordered

end QcelVerif.Measure
