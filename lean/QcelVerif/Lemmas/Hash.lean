import QcelVerif.Lemmas.HashRender
import Mathlib.Tactic.Linarith
import Mathlib.Tactic.NormNum
import Mathlib.Algebra.Order.Field.Rat
import Mathlib.Data.Rat.Cast.Order
/-!
Helper lemmas for C11, part 2: round-half-even on rationals, the sort, the total order on bonds.
-/
namespace QcelVerif.Hash

/-! ### round half even -/

theorem rint_near (q : Rat) (n : Int) (h1 : (n : Rat) - 1/2 < q) (h2 : q < (n : Rat) + 1/2) : rintHE q = n := by
  unfold rintHE
  have hf1 := Rat.floor_le q
  have hf2 := Rat.lt_floor_add_one q
  push_cast at hf2
  by_cases hq : (n : Rat) ≤ q
  · have e : q.floor = n := by
      have a1 : n ≤ q.floor := Rat.le_floor_iff.mpr hq
      have a2 : q.floor < n + 1 := by
        have : (q.floor : Rat) < ((n + 1 : Int) : Rat) := by push_cast; linarith
        exact_mod_cast this
      omega
    simp only [e]
    have : q - (n : Rat) < 1/2 := by linarith
    rw [if_pos this]
  · have hq' : q < n := not_le.mp hq
    have e : q.floor = n - 1 := by
      have a1 : n - 1 ≤ q.floor := Rat.le_floor_iff.mpr (by push_cast; linarith)
      have a2 : q.floor < n := by
        have : (q.floor : Rat) < (n : Rat) := by linarith
        exact_mod_cast this
      omega
    simp only [e]
    have h3 : ¬ (q - (((n - 1 : Int)) : Rat) < 1/2) := by push_cast; linarith
    have h4 : (1/2 : Rat) < q - (((n - 1 : Int)) : Rat) := by push_cast; linarith
    rw [if_neg h3, if_pos h4]
    omega

theorem rint_err (q : Rat) : (rintHE q : Rat) - 1/2 ≤ q ∧ q ≤ (rintHE q : Rat) + 1/2 := by
  unfold rintHE
  have hf1 := Rat.floor_le q
  have hf2 := Rat.lt_floor_add_one q
  push_cast at hf2
  simp only
  split_ifs with h1 h2 h3
  · constructor <;> linarith
  · push_cast; constructor <;> linarith
  · constructor <;> linarith
  · push_cast; constructor <;> linarith

/-- IEEE round-to-nearest for the product inside `np.around`: for `|y| ≤ 2^45` half an ulp is at most `2^-8`. -/
def FlOk (fl : Rat → Rat) : Prop := ∀ y : Rat, |y| ≤ 2 ^ 45 → |fl y - y| ≤ 1 / 256

theorem flOk_id : FlOk id := by
  intro y _; simp

theorem rint_fl_near {fl : Rat → Rat} (hfl : FlOk fl) (y : Rat) (n : Int) (hy : |y| ≤ 2 ^ 45)
    (h1 : (n : Rat) - 1/2 + 1/256 < y) (h2 : y < (n : Rat) + 1/2 - 1/256) : rintHE (fl y) = n := by
  have := abs_le.mp (hfl y hy)
  exact rint_near _ _ (by linarith [this.1]) (by linarith [this.2])

theorem rint_fl_err {fl : Rat → Rat} (hfl : FlOk fl) (y : Rat) (hy : |y| ≤ 2 ^ 45) :
    (rintHE (fl y) : Rat) - (1/2 + 1/256) ≤ y ∧ y ≤ (rintHE (fl y) : Rat) + (1/2 + 1/256) := by
  have := abs_le.mp (hfl y hy)
  have e := rint_err (fl y)
  constructor <;> linarith [this.1, this.2, e.1, e.2]

/-! ### the sort -/

structure TotalOrder {α} (le : α → α → Bool) : Prop where
  total : ∀ a b, le a b = true ∨ le b a = true
  trans : ∀ a b c, le a b = true → le b c = true → le a c = true
  antisymm : ∀ a b, le a b = true → le b a = true → a = b

section sort
variable {α : Type} {le : α → α → Bool}

theorem insertBy_comm (h : TotalOrder le) (a b : α) : ∀ l : List α,
    insertBy le a (insertBy le b l) = insertBy le b (insertBy le a l)
  | [] => by
      simp only [insertBy]
      by_cases hab : le a b = true <;> by_cases hba : le b a = true
      · have := h.antisymm a b hab hba; subst this; rfl
      · simp [hab, hba]
      · simp [hab, hba]
      · rcases h.total a b with h1 | h1 <;> simp_all
  | x :: l => by
      by_cases hax : le a x = true <;> by_cases hbx : le b x = true
      · simp only [insertBy, hax, hbx, if_true]
        by_cases hab : le a b = true <;> by_cases hba : le b a = true
        · have := h.antisymm a b hab hba; subst this; rfl
        · simp [insertBy, hab, hba, hax, hbx]
        · simp [insertBy, hab, hba, hax, hbx]
        · rcases h.total a b with h1 | h1 <;> simp_all
      · -- a ≤ x, ¬ b ≤ x  ⇒ ¬ b ≤ a
        have hba : ¬ le b a = true := fun hba => hbx (h.trans b a x hba hax)
        simp [insertBy, hax, hbx, hba]
      · have hab : ¬ le a b = true := fun hab => hax (h.trans a b x hab hbx)
        simp [insertBy, hax, hbx, hab]
      · simp only [insertBy, hax, hbx, if_false, Bool.false_eq_true]
        rw [insertBy_comm h a b l]

theorem sortBy_perm_eq (h : TotalOrder le) {l₁ l₂ : List α} (p : l₁.Perm l₂) : sortBy le l₁ = sortBy le l₂ := by
  induction p with
  | nil => rfl
  | cons x _ ih => simp [sortBy, ih]
  | swap x y l => simp only [sortBy]; exact insertBy_comm h y x _
  | trans _ _ ih1 ih2 => exact ih1.trans ih2

theorem insertBy_perm (a : α) : ∀ l : List α, (insertBy le a l).Perm (a :: l)
  | [] => by simp [insertBy]
  | x :: l => by
      simp only [insertBy]
      split
      · exact List.Perm.refl _
      · exact ((insertBy_perm a l).cons x).trans (List.Perm.swap a x l)

theorem sortBy_perm : ∀ l : List α, (sortBy le l).Perm l
  | [] => by simp [sortBy]
  | x :: l => by
      simp only [sortBy]
      exact (insertBy_perm x _).trans ((sortBy_perm l).cons x)

def Sorted (le : α → α → Bool) (l : List α) : Prop := l.Pairwise (fun a b => le a b = true)

theorem insertBy_sorted (h : TotalOrder le) (a : α) : ∀ l : List α, Sorted le l → Sorted le (insertBy le a l)
  | [], _ => by simp [insertBy, Sorted]
  | x :: l, hs => by
      unfold Sorted at hs ⊢
      simp only [insertBy]
      by_cases hax : le a x = true
      · simp only [hax, if_true]
        refine List.Pairwise.cons ?_ hs
        intro y hy
        rcases List.mem_cons.mp hy with rfl | hy
        · exact hax
        · exact h.trans a x y hax ((List.pairwise_cons.mp hs).1 y hy)
      · simp only [hax, if_false, Bool.false_eq_true]
        have hxa : le x a = true := (h.total a x).resolve_left hax
        refine List.Pairwise.cons ?_ (insertBy_sorted h a l (List.pairwise_cons.mp hs).2)
        intro y hy
        have := (insertBy_perm (le := le) a l).mem_iff.mp hy
        rcases List.mem_cons.mp this with rfl | hy'
        · exact hxa
        · exact (List.pairwise_cons.mp hs).1 y hy'

theorem sortBy_sorted (h : TotalOrder le) : ∀ l : List α, Sorted le (sortBy le l)
  | [] => by simp [sortBy, Sorted]
  | x :: l => insertBy_sorted h x _ (sortBy_sorted h l)

theorem sortBy_of_sorted (h : TotalOrder le) : ∀ l : List α, Sorted le l → sortBy le l = l
  | [], _ => rfl
  | x :: l, hs => by
      unfold Sorted at hs
      have ih := sortBy_of_sorted h l (List.pairwise_cons.mp hs).2
      simp only [sortBy, ih]
      cases l with
      | nil => rfl
      | cons y t =>
        have : le x y = true := (List.pairwise_cons.mp hs).1 y (by simp)
        simp [insertBy, this]

end sort

/-! ### the order on bonds -/

theorem bondLe_iff (x y : Bond) : bondLe x y = true ↔
    x.a < y.a ∨ (x.a = y.a ∧ (x.b < y.b ∨ (x.b = y.b ∧ x.order ≤ y.order))) := by
  simp [bondLe]

theorem bondLe_total : TotalOrder bondLe where
  total x y := by
    rw [bondLe_iff, bondLe_iff]
    rcases Nat.lt_trichotomy x.a y.a with h | h | h
    · exact Or.inl (Or.inl h)
    · rcases Nat.lt_trichotomy x.b y.b with h' | h' | h'
      · exact Or.inl (Or.inr ⟨h, Or.inl h'⟩)
      · rcases le_total x.order y.order with ho | ho
        · exact Or.inl (Or.inr ⟨h, Or.inr ⟨h', ho⟩⟩)
        · exact Or.inr (Or.inr ⟨h.symm, Or.inr ⟨h'.symm, ho⟩⟩)
      · exact Or.inr (Or.inr ⟨h.symm, Or.inl h'⟩)
    · exact Or.inr (Or.inl h)
  trans x y z := by
    rw [bondLe_iff, bondLe_iff, bondLe_iff]
    rintro (h1 | ⟨h1, h1' | ⟨h1', h1''⟩⟩) (h2 | ⟨h2, h2' | ⟨h2', h2''⟩⟩)
    · exact Or.inl (by omega)
    · exact Or.inl (by omega)
    · exact Or.inl (by omega)
    · exact Or.inl (by omega)
    · exact Or.inr ⟨by omega, Or.inl (by omega)⟩
    · exact Or.inr ⟨by omega, Or.inl (by omega)⟩
    · exact Or.inl (by omega)
    · exact Or.inr ⟨by omega, Or.inl (by omega)⟩
    · exact Or.inr ⟨by omega, Or.inr ⟨by omega, le_trans h1'' h2''⟩⟩
  antisymm x y := by
    rw [bondLe_iff, bondLe_iff]
    rintro (h1 | ⟨h1, h1' | ⟨h1', h1''⟩⟩) (h2 | ⟨h2, h2' | ⟨h2', h2''⟩⟩) <;> try omega
    cases x; cases y
    simp only [Bond.mk.injEq] at *
    exact ⟨h1, h1', le_antisymm h1'' h2''⟩

end QcelVerif.Hash
