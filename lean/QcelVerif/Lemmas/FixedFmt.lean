import QcelVerif.Model.FixedFmt
/-! Helper lemmas for the fixed-point printer (C08). Core Lean only. -/
namespace QcelVerif.FixedFmt

theorem charVal_digitChar : ∀ d, d < 10 → charVal (digitChar d) = d := by decide

theorem isDigitChar_digitChar (d : Nat) : isDigitChar (digitChar d) = true := by
  unfold digitChar; split <;> decide

theorem digitsVal_append_single (l : Str) (c : Char) :
    digitsVal (l ++ [c]) = digitsVal l * 10 + charVal c := by
  simp [digitsVal, List.foldl_append]

theorem digitsVal_natDigitsAux : ∀ (f n : Nat), n < f → digitsVal (natDigitsAux f n) = n
  | 0, n, h => by omega
  | f + 1, n, h => by
    unfold natDigitsAux
    split
    · next h10 => simp [digitsVal, charVal_digitChar n h10]
    · next h10 =>
      rw [digitsVal_append_single, digitsVal_natDigitsAux f (n / 10) (by omega),
        charVal_digitChar _ (Nat.mod_lt _ (by omega))]
      omega

theorem digitsVal_natDigits (n : Nat) : digitsVal (natDigits n) = n :=
  digitsVal_natDigitsAux (n + 1) n (by omega)

theorem natDigitsAux_all_digits : ∀ (f n : Nat), ∀ c ∈ natDigitsAux f n, isDigitChar c = true
  | 0, n => by intro c hc; simp [natDigitsAux] at hc
  | f + 1, n => by
    unfold natDigitsAux
    split
    · intro c hc; simp at hc; subst hc; exact isDigitChar_digitChar _
    · intro c hc
      simp only [List.mem_append, List.mem_singleton] at hc
      rcases hc with hc | hc
      · exact natDigitsAux_all_digits f (n / 10) c hc
      · subst hc; exact isDigitChar_digitChar _

theorem natDigits_all_digits (n : Nat) : ∀ c ∈ natDigits n, isDigitChar c = true :=
  natDigitsAux_all_digits (n + 1) n

theorem natDigits_ne_nil (n : Nat) : natDigits n ≠ [] := by
  unfold natDigits natDigitsAux; split <;> simp

theorem digitsVal_zeros_append (k : Nat) (l : Str) :
    digitsVal (List.replicate k '0' ++ l) = digitsVal l := by
  induction k with
  | zero => simp
  | succ k ih =>
    have : digitsVal ('0' :: (List.replicate k '0' ++ l)) = digitsVal (List.replicate k '0' ++ l) := by
      simp [digitsVal, charVal]
    rw [List.replicate_succ, List.cons_append, this, ih]

theorem padZeros_length (k : Nat) (l : Str) : k ≤ (padZeros k l).length := by
  simp [padZeros]; omega

end QcelVerif.FixedFmt
