import QcelVerif.Props.C15Src
/-!
# C15 — loop invariants of the order-preserving path (`group_fragments=False`) of the source-derived `get_fragment`

The generated body of the `else:` branch of `if group_fragments:` (`Props/C15Src.lean: gOrdered`, equal to the generated term by
`gf_shape`) is run by the evaluator of `Model/FragmentsAst.lean`.  This file proves, for ALL molecules whose fragment lists name
existing atoms and have a charge and a multiplicity each, what the three loops leave in the variables:
* loop 1 (`at2fr[iat] = ifr`)            — `at2fr` is `Fragments.at2fr` (last fragment listing the atom wins);
* loop 2 (`for iat in range(nat)`)       — rows / symbols / masses = `keptAtoms`, flags = `ifr in real`, `at2at` = `Fragments.at2at`;
* loop 3 (`for ifr, fr in enumerate(…)`) — remapped index lists, charges, multiplicities of the selected fragments in original order.
-/
namespace QcelVerif.FragSrc
open QcelVerif.FragAst QcelVerif.Fragments QcelVerif.ChgMult

/-- an optional index as the evaluator holds it -/
def oI (o : Option Nat) : Option Int := o.map (fun (k : Nat) => (k : Int))

/-- a length-`n` list of optional indices (`at2fr`, `at2at`) given by a function -/
def optL (f : Nat → Option Nat) (n : Nat) : List (Option Int) := (List.range n).map (fun i => oI (f i))

theorem optL_length (f : Nat → Option Nat) (n : Nat) : (optL f n).length = n := by simp [optL]

theorem optL_none (n : Nat) : (List.replicate n [(none : Option Int)]).flatten = optL (fun _ => none) n := by
  simp [optL, oI, List.map_const']

theorem optL_set (f : Nat → Option Nat) (n j : Nat) (v : Option Nat) :
    (optL f n).set j (oI v) = optL (fun i => if i = j then v else f i) n := by
  apply List.ext_getElem
  · simp [optL]
  · intro i h1 h2
    simp only [optL, List.getElem_set, List.getElem_map, List.getElem_range]
    by_cases h : j = i
    · subst h; simp
    · have : ¬ i = j := fun e => h e.symm
      simp [h, this]

theorem nth?_optL (f : Nat → Option Nat) (n i : Nat) (h : i < n) : nth? (optL f n) (i : Int) = some (oI (f i)) := by
  simp [nth?, optL, h]

theorem optL_congr {f g : Nat → Option Nat} {n : Nat} (h : ∀ i, i < n → f i = g i) : optL f n = optL g n := by
  simp only [optL]
  apply List.map_congr_left
  intro i hi
  rw [h i (List.mem_range.1 hi)]

section ordered
variable (R G : List Nat) (o : Val)

/-- the state of `get_fragment` inside the order-preserving path -/
def ost (ge sy ma ra fr fc fm sz a2f x21 x22 x23 a2a x25 : Val) : St Int :=
  ⟨[.s none, .l (natL R), .l (natL G), o, b2v false, ge, sy, ma, ra, fr, fc, fm, sz,
    .s none, .s none, .s none, .s none, .s none, .s none, .s none,
    a2f, x21, x22, x23, a2a, x25, .s none, .s none, .s none, .s none, .s none, .s none, .s none], []⟩

/-! ### loop 1: `for ifr, fr in enumerate(self.fragments): for iat in fr: at2fr[iat] = ifr` -/

def aInner : Stmt := .setIdx 20 (.var 23) (.var 21)

theorem a_inner (inp : List Val) (n k : Nat) (ge sy ma ra fr fc fm sz x22 a2a x25 : Val) :
    ∀ (ys : List Nat) (f : Nat → Option Nat) (x23 : Val), (∀ y ∈ ys, y < n) →
    ∃ x23', foldO (fun st a => exec inp (fun _ _ => (0 : Int)) aInner { st with v := setSlot st.v 23 a })
        (ost R G o ge sy ma ra fr fc fm sz (.l (optL f n)) (.s (some (k : Nat))) x22 x23 a2a x25) ((natL ys).map .s) =
      some (ost R G o ge sy ma ra fr fc fm sz (.l (optL (fun i => if ys.contains i then some k else f i) n))
        (.s (some (k : Nat))) x22 x23' a2a x25)
  | [], f, x23, _ => ⟨x23, by simp [foldO, natL]⟩
  | y :: t, f, x23, h => by
    have hy : y < n := h y (by simp)
    obtain ⟨x23', ih⟩ := a_inner inp n k ge sy ma ra fr fc fm sz x22 a2a x25 t (fun i => if i = y then some k else f i)
      (.s (some (y : Int))) (fun z hz => h z (by simp [hz]))
    refine ⟨x23', ?_⟩
    have hstep : exec inp (fun _ _ => (0 : Int)) aInner
        { ost R G o ge sy ma ra fr fc fm sz (.l (optL f n)) (.s (some (k : Nat))) x22 x23 a2a x25 with
          v := setSlot (ost R G o ge sy ma ra fr fc fm sz (.l (optL f n)) (.s (some (k : Nat))) x22 x23 a2a x25).v 23
            (.s (some (y : Int))) } =
        some (ost R G o ge sy ma ra fr fc fm sz (.l (optL (fun i => if i = y then some k else f i) n))
          (.s (some (k : Nat))) x22 (.s (some (y : Int))) a2a x25) := by
      have := optL_set f n y (some k)
      simp only [oI, Option.map_some] at this
      simp [ost, aInner, exec, evalE, setSlot, optL_length, hy, this]
    simp only [natL, List.map_cons, foldO, hstep] at ih ⊢
    rw [ih]
    congr 4
    funext i
    by_cases hi : i = y <;> simp [hi]

def aOuter : Stmt := .forIn 23 (.var 22) aInner

/-- `at2fr` after walking the fragments `frs` numbered from `k`, starting from `f` -/
def a2fAfter (f : Nat → Option Nat) : Nat → List (List Nat) → Nat → Option Nat
  | _, [] => f
  | k, fr :: t => a2fAfter (fun i => if fr.contains i then some k else f i) (k + 1) t

theorem a2fAfter_eq : ∀ (frs : List (List Nat)) (k : Nat) (f : Nat → Option Nat) (i : Nat),
    a2fAfter f k frs i = match at2frFrom frs k i with
      | some x => some x
      | none => f i
  | [], _, _, _ => rfl
  | fr :: t, k, f, i => by
    rw [a2fAfter, a2fAfter_eq t, at2frFrom]
    cases at2frFrom t (k + 1) i with
    | some x => rfl
    | none => by_cases h : i ∈ fr <;> simp [h]

theorem a2fAfter_at2fr (frags : List (List Nat)) : a2fAfter (fun _ => none) 0 frags = at2fr frags := by
  funext i
  rw [a2fAfter_eq, at2fr]
  cases at2frFrom frags 0 i <;> rfl

theorem a_outer (inp : List Val) (n : Nat) (ge sy ma ra fr fc fm sz a2a x25 : Val) :
    ∀ (rest : List (List Nat)) (k : Nat) (f : Nat → Option Nat) (x21 x22 x23 : Val), (∀ fr ∈ rest, ∀ y ∈ fr, y < n) →
    ∃ x21' x22' x23', foldO (fun st (p : Nat × Val) => exec inp (fun _ _ => (0 : Int)) aOuter
          { st with v := setSlot (setSlot st.v 21 (.s (some (p.1 : Nat)))) 22 p.2 })
        (ost R G o ge sy ma ra fr fc fm sz (.l (optL f n)) x21 x22 x23 a2a x25) (enumFrom' k ((rest.map natL).map .l)) =
      some (ost R G o ge sy ma ra fr fc fm sz (.l (optL (a2fAfter f k rest) n)) x21' x22' x23' a2a x25)
  | [], k, f, x21, x22, x23, _ => ⟨x21, x22, x23, by simp [foldO, enumFrom', a2fAfter]⟩
  | y :: t, k, f, x21, x22, x23, h => by
    obtain ⟨y23, hin⟩ := a_inner R G o inp n k ge sy ma ra fr fc fm sz (.l (natL y)) a2a x25 y f x23 (h y (by simp))
    obtain ⟨x21', x22', x23', ih⟩ := a_outer inp n ge sy ma ra fr fc fm sz a2a x25 t (k + 1)
      (fun i => if y.contains i then some k else f i) (.s (some (k : Nat))) (.l (natL y)) y23
      (fun z hz => h z (by simp [hz]))
    refine ⟨x21', x22', x23', ?_⟩
    have hstep : exec inp (fun _ _ => (0 : Int)) aOuter
        { ost R G o ge sy ma ra fr fc fm sz (.l (optL f n)) x21 x22 x23 a2a x25 with
          v := setSlot (setSlot (ost R G o ge sy ma ra fr fc fm sz (.l (optL f n)) x21 x22 x23 a2a x25).v 21
            (.s (some (k : Nat)))) 22 (.l (natL y)) } =
        some (ost R G o ge sy ma ra fr fc fm sz (.l (optL (fun i => if y.contains i then some k else f i) n))
          (.s (some (k : Nat))) (.l (natL y)) y23 a2a x25) := by
      rw [← hin]
      simp [ost, aOuter, exec, evalE, setSlot, Val.items]
    simp only [List.map_cons, enumFrom', foldO, hstep] at ih ⊢
    rw [ih]
    rfl

/-! ### loop 2: `for iat in range(nat):` — kept atoms, ghost marking, `at2at` -/

def bBody : Stmt :=
  (.seq (.set 21 (.idx (.var 20) (.var 23))) (.ite (.or_ (.isIn (.var 21) (.var 1)) (.isIn (.var 21) (.var 2))) (.seq (.append 5 (.idx (.inp 3) (.var 23))) (.seq (.append 6 (.idx (.inp 1) (.var 23))) (.seq (.append 8 (.isIn (.var 21) (.var 1))) (.seq (.append 7 (.idx (.inp 2) (.var 23))) (.seq (.setIdx 24 (.var 23) (.var 12)) (.addAssign 12 (.int 1))))))) (.setIdx 24 (.var 23) .none)))

theorem b_step (n : Nat) (zs : List Int) (real : List Bool) (frags : List (List Nat)) (fcs fms : List Int) (c : Int)
    (fr fc fm x25 : Val) (A H S1 S2 S3 F : List (Option Int)) (cnt m : Nat) (a : Option Int) (rA gA : Bool)
    (hm : m < n) (hH : m < H.length) (hA : nth? A (m : Int) = some a)
    (h1 : (natL R).contains a = rA) (h2 : (natL G).contains a = gA) (x21 x22 x23 : Val) :
    exec (inputs n zs real frags fcs fms c) (fun _ _ => (0 : Int)) bBody
      { ost R G o (.l S1) (.l S2) (.l S3) (.l F) fr fc fm (.s (some (cnt : Nat))) (.l A) x21 x22 x23 (.l H) x25 with
        v := setSlot (ost R G o (.l S1) (.l S2) (.l S3) (.l F) fr fc fm (.s (some (cnt : Nat))) (.l A) x21 x22 x23 (.l H) x25).v 23
          (.s (some (m : Int))) } =
    some (if rA || gA then
        ost R G o (.l (S1 ++ [some (m : Int)])) (.l (S2 ++ [some (m : Int)])) (.l (S3 ++ [some (m : Int)]))
          (.l (F ++ [some (if rA then 1 else 0)])) fr fc fm (.s (some ((cnt + 1 : Nat) : Int))) (.l A) (.s a) x22
          (.s (some (m : Int))) (.l (H.set m (some (cnt : Int)))) x25
      else
        ost R G o (.l S1) (.l S2) (.l S3) (.l F) fr fc fm (.s (some (cnt : Nat))) (.l A) (.s a) x22
          (.s (some (m : Int))) (.l (H.set m none)) x25) := by
  subst h1 h2
  by_cases hr : a ∈ natL R <;> by_cases hg : a ∈ natL G <;>
    simp [bBody, ost, exec, evalE, setSlot, inputs, hA, hr, hg, nth?_range n m hm, appendVal, b2v, Val.truthy, hH]

theorem contains_oI (L : List Nat) (x : Option Nat) :
    (natL L).contains (oI x) = (match x with | some k => L.contains k | none => false) := by
  cases x with
  | none => simp [oI, natL]
  | some k => simpa [oI] using contains_natL L k

theorem real_eq (frags : List (List Nat)) (i : Nat) : (natL R).contains (oI (at2fr frags i)) = realAtom frags R i := by
  rw [contains_oI]; rfl

theorem keep_eq (frags : List (List Nat)) (i : Nat) :
    ((natL R).contains (oI (at2fr frags i)) || (natL G).contains (oI (at2fr frags i))) = keepAtom frags R G i := by
  rw [contains_oI, contains_oI]; unfold keepAtom; cases at2fr frags i <;> rfl

/-- the kept atoms among the first `m` -/
def keptTo (frags : List (List Nat)) (m : Nat) : List Nat := (List.range m).filter (keepAtom frags R G)

theorem keptTo_succ (frags : List (List Nat)) (m : Nat) :
    keptTo R G frags (m + 1) = keptTo R G frags m ++ (if keepAtom frags R G m then [m] else []) := by
  simp only [keptTo, List.range_succ, List.filter_append]
  cases h : keepAtom frags R G m <;> simp [h]

theorem countP_succ (p : Nat → Bool) (m : Nat) :
    (List.range (m + 1)).countP p = (List.range m).countP p + (if p m then 1 else 0) := by
  rw [List.range_succ, List.countP_append]; cases h : p m <;> simp [h]

theorem a2a_set_keep (frags : List (List Nat)) (n m : Nat) (hk : keepAtom frags R G m = true) :
    (optL (fun i => if i < m then at2at frags R G i else none) n).set m
        (some (((List.range m).countP (keepAtom frags R G) : Nat) : Int)) =
      optL (fun i => if i < m + 1 then at2at frags R G i else none) n := by
  have := optL_set (fun i => if i < m then at2at frags R G i else none) n m (some ((List.range m).countP (keepAtom frags R G)))
  simp only [oI, Option.map_some] at this
  rw [this]
  apply optL_congr
  intro i _
  by_cases hi : i = m
  · subst hi; simp [at2at, hk]
  · have : (i < m + 1) = (i < m) := by apply propext; omega
    simp [hi, this]

theorem a2a_set_drop (frags : List (List Nat)) (n m : Nat) (hk : keepAtom frags R G m = false) :
    (optL (fun i => if i < m then at2at frags R G i else none) n).set m none =
      optL (fun i => if i < m + 1 then at2at frags R G i else none) n := by
  have := optL_set (fun i => if i < m then at2at frags R G i else none) n m none
  simp only [oI, Option.map_none] at this
  rw [this]
  apply optL_congr
  intro i _
  by_cases hi : i = m
  · subst hi; simp [at2at, hk]
  · have : (i < m + 1) = (i < m) := by apply propext; omega
    simp [hi, this]

/-- the loop-2 invariant after the atoms `0..m-1` -/
def bst (frags : List (List Nat)) (n m : Nat) (fr fc fm x21 x22 x23 x25 : Val) : St Int :=
  ost R G o (.l (natL (keptTo R G frags m))) (.l (natL (keptTo R G frags m))) (.l (natL (keptTo R G frags m)))
    (.l ((keptTo R G frags m).map (fun i => some (b2i (realAtom frags R i))))) fr fc fm
    (.s (some (((List.range m).countP (keepAtom frags R G) : Nat) : Int))) (.l (optL (at2fr frags) n)) x21 x22 x23
    (.l (optL (fun i => if i < m then at2at frags R G i else none) n)) x25

theorem b_loop (n : Nat) (zs : List Int) (real : List Bool) (frags : List (List Nat)) (fcs fms : List Int) (c : Int)
    (fr fc fm x22 x25 : Val) : ∀ (len m : Nat), m + len = n → ∀ (x21 x23 : Val),
    ∃ x21' x23', foldO (fun st a => exec (inputs n zs real frags fcs fms c) (fun _ _ => (0 : Int)) bBody
          { st with v := setSlot st.v 23 a })
        (bst R G o frags n m fr fc fm x21 x22 x23 x25) ((natL (List.range' m len)).map .s) =
      some (bst R G o frags n (m + len) fr fc fm x21' x22 x23' x25)
  | 0, m, _, x21, x23 => ⟨x21, x23, by simp [foldO, natL]⟩
  | len + 1, m, h, x21, x23 => by
    have hm : m < n := by omega
    have hstep := b_step R G o n zs real frags fcs fms c fr fc fm x25 (optL (at2fr frags) n)
      (optL (fun i => if i < m then at2at frags R G i else none) n) (natL (keptTo R G frags m)) (natL (keptTo R G frags m))
      (natL (keptTo R G frags m)) ((keptTo R G frags m).map (fun i => some (b2i (realAtom frags R i))))
      ((List.range m).countP (keepAtom frags R G)) m (oI (at2fr frags m)) _ _ hm (by simp [optL_length, hm])
      (nth?_optL _ _ _ hm) rfl rfl x21 x22 x23
    obtain ⟨x21', x23', ih⟩ := b_loop n zs real frags fcs fms c fr fc fm x22 x25 len (m + 1) (by omega)
      (.s (oI (at2fr frags m))) (.s (some (m : Int)))
    refine ⟨x21', x23', ?_⟩
    rw [keep_eq, real_eq] at hstep
    have hnext : bst R G o frags n (m + 1) fr fc fm (.s (oI (at2fr frags m))) x22 (.s (some (m : Int))) x25 = _ :=
      Eq.refl _
    by_cases hk : keepAtom frags R G m = true
    · simp only [hk, reduceIte, a2a_set_keep R G frags n m hk] at hstep
      have e : bst R G o frags n (m + 1) fr fc fm (.s (oI (at2fr frags m))) x22 (.s (some (m : Int))) x25 =
          ost R G o (.l (natL (keptTo R G frags m) ++ [some (m : Int)])) (.l (natL (keptTo R G frags m) ++ [some (m : Int)]))
            (.l (natL (keptTo R G frags m) ++ [some (m : Int)]))
            (.l ((keptTo R G frags m).map (fun i => some (b2i (realAtom frags R i))) ++ [some (if realAtom frags R m = true then 1 else 0)]))
            fr fc fm (.s (some (((List.range m).countP (keepAtom frags R G) + 1 : Nat) : Int))) (.l (optL (at2fr frags) n))
            (.s (oI (at2fr frags m))) x22 (.s (some (m : Int)))
            (.l (optL (fun i => if i < m + 1 then at2at frags R G i else none) n)) x25 := by
        simp [bst, keptTo_succ, countP_succ, hk, natL, b2i]
      rw [← e] at hstep
      simp only [List.range'_succ, natL, List.map_cons, foldO] at ih ⊢
      simp only [bst, natL] at hstep
      simp only [bst, natL, hstep, Nat.add_assoc, Nat.add_comm 1 len] at ih ⊢
      exact ih
    · have hk' : keepAtom frags R G m = false := by simpa using hk
      simp only [hk', Bool.false_eq_true, reduceIte, a2a_set_drop R G frags n m hk'] at hstep
      have e : bst R G o frags n (m + 1) fr fc fm (.s (oI (at2fr frags m))) x22 (.s (some (m : Int))) x25 =
          ost R G o (.l (natL (keptTo R G frags m))) (.l (natL (keptTo R G frags m)))
            (.l (natL (keptTo R G frags m)))
            (.l ((keptTo R G frags m).map (fun i => some (b2i (realAtom frags R i)))))
            fr fc fm (.s (some (((List.range m).countP (keepAtom frags R G) : Nat) : Int))) (.l (optL (at2fr frags) n))
            (.s (oI (at2fr frags m))) x22 (.s (some (m : Int)))
            (.l (optL (fun i => if i < m + 1 then at2at frags R G i else none) n)) x25 := by
        simp [bst, keptTo_succ, countP_succ, hk', natL]
      rw [← e] at hstep
      simp only [List.range'_succ, natL, List.map_cons, foldO] at ih ⊢
      simp only [bst, natL] at hstep
      simp only [bst, natL, hstep, Nat.add_assoc, Nat.add_comm 1 len] at ih ⊢
      exact ih

/-! ### loop 3: `for ifr, fr in enumerate(self.fragments):` — remapped index lists, charges, multiplicities -/

def cBody : Stmt :=
  (.seq (.ite (.or_ (.isIn (.var 21) (.var 1)) (.isIn (.var 21) (.var 2))) (.append 9 (.comp (.idx (.var 24) (.var 25)) 25 (.var 22) (.int 1))) .skip) (.ite (.isIn (.var 21) (.var 1)) (.seq (.append 10 (.idx (.inp 4) (.var 21))) (.append 11 (.idx (.inp 5) (.var 21)))) (.ite (.isIn (.var 21) (.var 2)) (.seq (.append 10 (.int 0)) (.append 11 (.int 1))) .skip)))

theorem compO_map {g : Option Int → Option (Option Int)} {cond : Option Int → Option Bool} (hc : ∀ x, cond x = some true)
    (hf : Nat → Option Int) : ∀ ys : List Nat, (∀ i ∈ ys, g (some (i : Int)) = some (hf i)) →
    compO cond g (natL ys) = some (ys.map hf)
  | [], _ => rfl
  | y :: t, h => by
    have ih := compO_map hc hf t (fun i hi => h i (by simp [hi]))
    simp only [natL, List.map_cons, compO, hc, h y (by simp)] at ih ⊢
    simp [ih]

def selPiece {β} (k : Nat) (a b : β) : List β := if R.contains k then [a] else if G.contains k then [b] else []

theorem exec_append_eq {K : Type} [Add K] [Mul K] [Div K] [Zero K] [IntCast K] (inp : List Val) (dist : Nat → Nat → K)
    (k : Nat) (e : Expr) (st : St K) : exec inp dist (.append k e) st =
    (match st.v[k]?, evalE inp st.v e with
      | some t, some a => (appendVal t a).map (fun r => { st with v := setSlot st.v k r })
      | _, _ => none) := by rfl

theorem evalE_comp_eq (inp v : List Val) (body : Expr) (x : Nat) (src cond : Expr) :
    evalE inp v (.comp body x src cond) =
    (match evalE inp v src with
      | some (.l xs) =>
          (compO (fun a => (evalE inp (setSlot v x (.s a)) cond).map Val.truthy)
                 (fun a => match evalE inp (setSlot v x (.s a)) body with
                    | some (.s r) => some r
                    | _ => Option.none) xs).map .l
      | _ => none) := by rfl

def cSel : Stmt := (.ite (.or_ (.isIn (.var 21) (.var 1)) (.isIn (.var 21) (.var 2))) (.append 9 (.comp (.idx (.var 24) (.var 25)) 25 (.var 22) (.int 1))) .skip)
def cChg : Stmt := (.ite (.isIn (.var 21) (.var 1)) (.seq (.append 10 (.idx (.inp 4) (.var 21))) (.append 11 (.idx (.inp 5) (.var 21)))) (.ite (.isIn (.var 21) (.var 2)) (.seq (.append 10 (.int 0)) (.append 11 (.int 1))) .skip))

theorem c_sel (inp : List Val) (n : Nat) (ge sy ma ra sz a2f x23 x25 fc fm : Val) (h : Nat → Option Nat) (k : Nat) (ys : List Nat)
    (hys : ∀ i ∈ ys, i < n) (FS : List (List (Option Int))) :
    exec inp (fun _ _ => (0 : Int)) cSel
      (ost R G o ge sy ma ra (llv FS) fc fm sz a2f (.s (some (k : Nat))) (.l (natL ys)) x23 (.l (optL h n)) x25) =
    some (ost R G o ge sy ma ra (llv (FS ++ if R.contains k || G.contains k then [ys.map (fun i => oI (h i))] else []))
      fc fm sz a2f (.s (some (k : Nat))) (.l (natL ys)) x23 (.l (optL h n)) x25) := by
  have hcompE : evalE inp (ost R G o ge sy ma ra (llv FS) fc fm sz a2f (.s (some (k : Nat))) (.l (natL ys)) x23 (.l (optL h n)) x25).v
      (.comp (.idx (.var 24) (.var 25)) 25 (.var 22) (.int 1)) = some (.l (ys.map (fun i => oI (h i)))) := by
    rw [evalE_comp_eq]
    have h22 : evalE inp (ost R G o ge sy ma ra (llv FS) fc fm sz a2f (.s (some (k : Nat))) (.l (natL ys)) x23 (.l (optL h n)) x25).v
        (.var 22) = some (.l (natL ys)) := rfl
    rw [h22]
    simp only []
    rw [compO_map (hf := fun i => oI (h i))]
    · rfl
    · intro x; simp [evalE, Val.truthy]
    · intro i hi
      simp [ost, evalE, setSlot, nth?_optL h n i (hys i hi)]
  have hcond : evalE inp (ost R G o ge sy ma ra (llv FS) fc fm sz a2f (.s (some (k : Nat))) (.l (natL ys)) x23 (.l (optL h n)) x25).v
      (.or_ (.isIn (.var 21) (.var 1)) (.isIn (.var 21) (.var 2))) = some (b2v (R.contains k || G.contains k)) := by
    by_cases hr : k ∈ R <;> by_cases hg : k ∈ G <;> simp [ost, evalE, mem_natL, hr, hg, b2v, Val.truthy]
  unfold cSel
  rw [exec_ite_eq, hcond]
  by_cases hsel : (R.contains k || G.contains k) = true
  · simp only [hsel, b2v, Val.truthy, reduceIte]
    rw [exec_append_eq, hcompE]
    simp [ost, appendVal_llv, setSlot]
  · have hsel' : (R.contains k || G.contains k) = false := by simpa using hsel
    simp only [hsel', b2v, Val.truthy]
    simp [exec_skip_eq]

theorem c_chg (n : Nat) (zs : List Int) (real : List Bool) (frags : List (List Nat)) (fcs fms : List Int) (c : Int)
    (ge sy ma ra fr sz a2f x22 x23 a2a x25 : Val) (k : Nat) (hk1 : k < fcs.length) (hk2 : k < fms.length)
    (C Mu : List (Option Int)) :
    exec (inputs n zs real frags fcs fms c) (fun _ _ => (0 : Int)) cChg
      (ost R G o ge sy ma ra fr (.l C) (.l Mu) sz a2f (.s (some (k : Nat))) x22 x23 a2a x25) =
    some (ost R G o ge sy ma ra fr (.l (C ++ selPiece R G k (some (fcs.getD k 0)) (some 0)))
      (.l (Mu ++ selPiece R G k (some (fms.getD k 0)) (some 1))) sz a2f (.s (some (k : Nat))) x22 x23 a2a x25) := by
  by_cases hr : k ∈ R <;> by_cases hg : k ∈ G <;>
    simp [cChg, ost, exec, evalE, setSlot, inputs, mem_natL, hr, hg, appendVal, b2v, Val.truthy, selPiece,
      nth?_intL, hk1, hk2]

def selFr (hf : Nat → Option Int) : Nat → List (List Nat) → List (List (Option Int))
  | _, [] => []
  | k, fr :: t => (if R.contains k || G.contains k then [fr.map hf] else []) ++ selFr hf (k + 1) t

def selCh (fcs : List Int) (dflt : Int) : Nat → List (List Nat) → List (Option Int)
  | _, [] => []
  | k, _ :: t => selPiece R G k (some (fcs.getD k 0)) (some dflt) ++ selCh fcs dflt (k + 1) t

theorem c_loop (n : Nat) (zs : List Int) (real : List Bool) (frags : List (List Nat)) (fcs fms : List Int) (c : Int)
    (ge sy ma ra sz a2f x23 x25 : Val) (h : Nat → Option Nat) :
    ∀ (rest : List (List Nat)) (k : Nat) (FS : List (List (Option Int))) (C Mu : List (Option Int)) (x21 x22 : Val),
      k + rest.length ≤ fcs.length → k + rest.length ≤ fms.length → (∀ fr ∈ rest, ∀ i ∈ fr, i < n) →
    ∃ x21' x22', foldO (fun st (p : Nat × Val) => exec (inputs n zs real frags fcs fms c) (fun _ _ => (0 : Int)) (.seq cSel cChg)
          { st with v := setSlot (setSlot st.v 21 (.s (some (p.1 : Nat)))) 22 p.2 })
        (ost R G o ge sy ma ra (llv FS) (.l C) (.l Mu) sz a2f x21 x22 x23 (.l (optL h n)) x25)
        (enumFrom' k ((rest.map natL).map .l)) =
      some (ost R G o ge sy ma ra (llv (FS ++ selFr R G (fun i => oI (h i)) k rest)) (.l (C ++ selCh R G fcs 0 k rest))
        (.l (Mu ++ selCh R G fms 1 k rest)) sz a2f x21' x22' x23 (.l (optL h n)) x25)
  | [], k, FS, C, Mu, x21, x22, _, _, _ => ⟨x21, x22, by simp [foldO, enumFrom', selFr, selCh]⟩
  | y :: t, k, FS, C, Mu, x21, x22, h1, h2, h3 => by
    simp only [List.length_cons] at h1 h2
    obtain ⟨x21', x22', ih⟩ := c_loop n zs real frags fcs fms c ge sy ma ra sz a2f x23 x25 h t (k + 1)
      (FS ++ if R.contains k || G.contains k then [y.map (fun i => oI (h i))] else [])
      (C ++ selPiece R G k (some (fcs.getD k 0)) (some 0)) (Mu ++ selPiece R G k (some (fms.getD k 0)) (some 1))
      (.s (some (k : Nat))) (.l (natL y)) (by omega) (by omega) (fun z hz => h3 z (by simp [hz]))
    refine ⟨x21', x22', ?_⟩
    have hstep : exec (inputs n zs real frags fcs fms c) (fun _ _ => (0 : Int)) (.seq cSel cChg)
        { ost R G o ge sy ma ra (llv FS) (.l C) (.l Mu) sz a2f x21 x22 x23 (.l (optL h n)) x25 with
          v := setSlot (setSlot (ost R G o ge sy ma ra (llv FS) (.l C) (.l Mu) sz a2f x21 x22 x23 (.l (optL h n)) x25).v 21
            (.s (some (k : Nat)))) 22 (.l (natL y)) } =
        some (ost R G o ge sy ma ra (llv (FS ++ if R.contains k || G.contains k then [y.map (fun i => oI (h i))] else []))
          (.l (C ++ selPiece R G k (some (fcs.getD k 0)) (some 0))) (.l (Mu ++ selPiece R G k (some (fms.getD k 0)) (some 1)))
          sz a2f (.s (some (k : Nat))) (.l (natL y)) x23 (.l (optL h n)) x25) := by
      have e : ({ ost R G o ge sy ma ra (llv FS) (.l C) (.l Mu) sz a2f x21 x22 x23 (.l (optL h n)) x25 with
          v := setSlot (setSlot (ost R G o ge sy ma ra (llv FS) (.l C) (.l Mu) sz a2f x21 x22 x23 (.l (optL h n)) x25).v 21
            (.s (some (k : Nat)))) 22 (.l (natL y)) } : St Int) =
          ost R G o ge sy ma ra (llv FS) (.l C) (.l Mu) sz a2f (.s (some (k : Nat))) (.l (natL y)) x23 (.l (optL h n)) x25 := rfl
      rw [e, exec_seq', c_sel R G o _ n ge sy ma ra sz a2f x23 x25 (.l C) (.l Mu) h k y (h3 y (by simp)) FS, Option.bind_some,
        c_chg R G o n zs real frags fcs fms c ge sy ma ra _ sz a2f (.l (natL y)) x23 _ x25 k (by omega) (by omega) C Mu]
    simp only [List.map_cons, enumFrom', foldO, hstep] at ih ⊢
    rw [ih]
    simp [selFr, selCh, List.append_assoc]

theorem selFr_congr (hf hf' : Nat → Option Int) : ∀ (rest : List (List Nat)) (k : Nat),
    (∀ fr ∈ rest, ∀ i ∈ fr, hf i = hf' i) → selFr R G hf k rest = selFr R G hf' k rest
  | [], _, _ => rfl
  | y :: t, k, h => by
    have e : y.map hf = y.map hf' := List.map_congr_left (h y (by simp))
    simp only [selFr, e, selFr_congr hf hf' t (k + 1) (fun fr hfr => h fr (by simp [hfr]))]

end ordered

/-! ### the whole order-preserving branch -/

theorem exec_forEnum_eq {K : Type} [Add K] [Mul K] [Div K] [Zero K] [IntCast K] (inp : List Val) (dist : Nat → Nat → K)
    (i x : Nat) (src : Expr) (body : Stmt) (st : St K) : exec inp dist (.forEnum i x src body) st =
    (match (evalE inp st.v src).bind Val.items with
      | some items =>
          if i < st.v.length ∧ x < st.v.length then
            foldO (fun st (p : Nat × Val) =>
              exec inp dist body { st with v := setSlot (setSlot st.v i (.s (some (p.1 : Nat)))) x p.2 }) st
              (enumFrom' 0 items)
          else none
      | none => none) := by rfl

theorem exec_assert_eq {K : Type} [Add K] [Mul K] [Div K] [Zero K] [IntCast K] (inp : List Val) (dist : Nat → Nat → K)
    (c : Expr) (st : St K) : exec inp dist (.assert_ c) st =
    (match evalE inp st.v c with
      | some x => if x.truthy then some st else none
      | none => none) := by rfl

theorem gOrdered_eq : gOrdered =
    (.seq (.set 20 (.mul (.list1 .none) (.len (.inp 1)))) (.seq (.forEnum 21 22 (.inp 0) aOuter)
    (.seq (.set 24 (.mul (.list1 .none) (.len (.inp 1)))) (.seq (.forIn 23 (.range (.int 0) (.len (.inp 1))) bBody)
    (.seq (.forEnum 21 22 (.inp 0) (.seq cSel cChg)) (.assert_ (.not_ (.isIn .none (.var 9))))))))) := rfl

theorem gfStart_ost (R G : List Nat) (orient : Bool) : gfStart R G orient false =
    ost R G (b2v orient) (.l []) (.l []) (.l []) (.l []) (.l []) (.l []) (.l []) (.s (some 0))
      (.s none) (.s none) (.s none) (.s none) (.s none) (.s none) := rfl

/-- the order-preserving branch, from the state after the common initialisations, on any molecule whose fragment lists name
existing atoms and have a charge and a multiplicity each -/
theorem g_ordered (n : Nat) (zs : List Int) (real : List Bool) (frags : List (List Nat)) (fcs fms : List Int) (c : Int)
    (R G : List Nat) (orient : Bool) (hA : ∀ fr ∈ frags, ∀ i ∈ fr, i < n)
    (hfc : frags.length ≤ fcs.length) (hfm : frags.length ≤ fms.length) :
    ∃ x21 x22 x23 x24, exec (inputs n zs real frags fcs fms c) (fun _ _ => (0 : Int)) gOrdered (gfStart R G orient false) =
      some (ost R G (b2v orient) (.l (natL (keptTo R G frags n))) (.l (natL (keptTo R G frags n)))
        (.l (natL (keptTo R G frags n))) (.l ((keptTo R G frags n).map (fun i => some (b2i (realAtom frags R i)))))
        (llv (selFr R G (fun i => oI (at2at frags R G i)) 0 frags)) (.l (selCh R G fcs 0 0 frags)) (.l (selCh R G fms 1 0 frags))
        (.s (some (((List.range n).countP (keepAtom frags R G) : Nat) : Int))) (.l (optL (at2fr frags) n)) x21 x22 x23
        x24 (.s none)) := by
  obtain ⟨a21, a22, a23, hA2⟩ := a_outer R G (b2v orient) (inputs n zs real frags fcs fms c) n (.l []) (.l []) (.l []) (.l [])
    (.l []) (.l []) (.l []) (.s (some 0)) (.s none) (.s none) frags 0 (fun _ => none) (.s none) (.s none) (.s none) hA
  obtain ⟨b21, b23, hB⟩ := b_loop R G (b2v orient) n zs real frags fcs fms c (.l []) (.l []) (.l []) a22 (.s none) n 0 (by omega)
    a21 a23
  obtain ⟨c21, c22, hC⟩ := c_loop R G (b2v orient) n zs real frags fcs fms c (.l (natL (keptTo R G frags n)))
    (.l (natL (keptTo R G frags n))) (.l (natL (keptTo R G frags n)))
    (.l ((keptTo R G frags n).map (fun i => some (b2i (realAtom frags R i)))))
    (.s (some (((List.range n).countP (keepAtom frags R G) : Nat) : Int))) (.l (optL (at2fr frags) n)) b23 (.s none)
    (fun i => if i < n then at2at frags R G i else none) frags 0 [] [] [] b21 a22 (by omega) (by omega) hA
  have hcong : optL (fun i => if i < n then at2at frags R G i else none) n = optL (at2at frags R G) n :=
    optL_congr (fun i hi => by simp [hi])
  have hsel : selFr R G (fun i => oI (if i < n then at2at frags R G i else none)) 0 frags =
      selFr R G (fun i => oI (at2at frags R G i)) 0 frags :=
    selFr_congr R G _ _ frags 0 (fun fr hfr i hi => by simp [hA fr hfr i hi])
  refine ⟨c21, c22, b23, .l (optL (fun i => if i < n then at2at frags R G i else none) n), ?_⟩
  have hI : inputs n zs real frags fcs fms c = inputs n zs real frags fcs fms c := rfl
  have h1 : exec (inputs n zs real frags fcs fms c) (fun _ _ => (0 : Int)) (.set 20 (.mul (.list1 .none) (.len (.inp 1))))
      (ost R G (b2v orient) (.l []) (.l []) (.l []) (.l []) (.l []) (.l []) (.l []) (.s (some 0))
        (.s none) (.s none) (.s none) (.s none) (.s none) (.s none)) =
      some (ost R G (b2v orient) (.l []) (.l []) (.l []) (.l []) (.l []) (.l []) (.l []) (.s (some 0))
        (.l (optL (fun _ => none) n)) (.s none) (.s none) (.s none) (.s none) (.s none)) := by
    rw [← optL_none]
    simp [exec_set_eq, evalE, inputs, ost, setSlot, natL]
  have h2 : exec (inputs n zs real frags fcs fms c) (fun _ _ => (0 : Int)) (.forEnum 21 22 (.inp 0) aOuter)
      (ost R G (b2v orient) (.l []) (.l []) (.l []) (.l []) (.l []) (.l []) (.l []) (.s (some 0))
        (.l (optL (fun _ => none) n)) (.s none) (.s none) (.s none) (.s none) (.s none)) =
      some (ost R G (b2v orient) (.l []) (.l []) (.l []) (.l []) (.l []) (.l []) (.l []) (.s (some 0))
        (.l (optL (at2fr frags) n)) a21 a22 a23 (.s none) (.s none)) := by
    rw [exec_forEnum_eq]
    rw [a2fAfter_at2fr] at hA2
    have hi0 : ∀ v, evalE (inputs n zs real frags fcs fms c) v (.inp 0) = some (.ll (frags.map natL)) := fun _ => rfl
    rw [hi0]
    simp only [Option.bind_some, Val.items]
    rw [if_pos (by simp [ost]), hA2]
  have h3 : exec (inputs n zs real frags fcs fms c) (fun _ _ => (0 : Int)) (.set 24 (.mul (.list1 .none) (.len (.inp 1))))
      (ost R G (b2v orient) (.l []) (.l []) (.l []) (.l []) (.l []) (.l []) (.l []) (.s (some 0))
        (.l (optL (at2fr frags) n)) a21 a22 a23 (.s none) (.s none)) =
      some (bst R G (b2v orient) frags n 0 (.l []) (.l []) (.l []) a21 a22 a23 (.s none)) := by
    have e : bst R G (b2v orient) frags n 0 (.l []) (.l []) (.l []) a21 a22 a23 (.s none) =
        ost R G (b2v orient) (.l []) (.l []) (.l []) (.l []) (.l []) (.l []) (.l []) (.s (some 0))
          (.l (optL (at2fr frags) n)) a21 a22 a23 (.l (optL (fun _ => none) n)) (.s none) := by
      simp [bst, keptTo, natL]
    rw [e, ← optL_none]
    simp [exec_set_eq, evalE, inputs, ost, setSlot, natL]
  have h4 : exec (inputs n zs real frags fcs fms c) (fun _ _ => (0 : Int)) (.forIn 23 (.range (.int 0) (.len (.inp 1))) bBody)
      (bst R G (b2v orient) frags n 0 (.l []) (.l []) (.l []) a21 a22 a23 (.s none)) =
      some (bst R G (b2v orient) frags n n (.l []) (.l []) (.l []) b21 a22 b23 (.s none)) := by
    rw [exec_forIn_eq]
    have hitems : evalE (inputs n zs real frags fcs fms c) (bst R G (b2v orient) frags n 0 (.l []) (.l []) (.l []) a21 a22 a23 (.s none)).v
        (.range (.int 0) (.len (.inp 1))) = some (.l (natL (List.range' 0 n))) := by
      simp [evalE, inputs, natL, List.range_eq_range']
    rw [hitems]
    simp only [Option.bind_some, Val.items]
    rw [if_pos (by simp [bst, ost])]
    simpa using hB
  rw [gOrdered_eq, gfStart_ost, exec_seq', h1, Option.bind_some, exec_seq', h2, Option.bind_some, exec_seq', h3,
    Option.bind_some, exec_seq', h4, Option.bind_some, exec_seq']
  have hC' := hC
  simp only [List.nil_append, hsel] at hC'
  have h5 : exec (inputs n zs real frags fcs fms c) (fun _ _ => (0 : Int)) (.forEnum 21 22 (.inp 0) (.seq cSel cChg))
      (bst R G (b2v orient) frags n n (.l []) (.l []) (.l []) b21 a22 b23 (.s none)) =
      some (ost R G (b2v orient) (.l (natL (keptTo R G frags n))) (.l (natL (keptTo R G frags n)))
        (.l (natL (keptTo R G frags n))) (.l ((keptTo R G frags n).map (fun i => some (b2i (realAtom frags R i)))))
        (llv (selFr R G (fun i => oI (at2at frags R G i)) 0 frags)) (.l (selCh R G fcs 0 0 frags)) (.l (selCh R G fms 1 0 frags))
        (.s (some (((List.range n).countP (keepAtom frags R G) : Nat) : Int))) (.l (optL (at2fr frags) n)) c21 c22 b23
        (.l (optL (fun i => if i < n then at2at frags R G i else none) n)) (.s none)) := by
    rw [exec_forEnum_eq]
    have hi0 : ∀ v, evalE (inputs n zs real frags fcs fms c) v (.inp 0) = some (.ll (frags.map natL)) := fun _ => rfl
    rw [hi0]
    simp only [Option.bind_some, Val.items]
    rw [if_pos (by simp [bst, ost])]
    exact hC'
  rw [h5, Option.bind_some, exec_assert_eq]
  generalize selFr R G (fun i => oI (at2at frags R G i)) 0 frags = X
  cases X <;> simp [ost, evalE, llv, b2v, Val.truthy]

end QcelVerif.FragSrc
