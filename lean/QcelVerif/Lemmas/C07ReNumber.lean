import QcelVerif.Lemmas.C07ReShapes
import QcelVerif.Props.C07
/-!
C07 — NUMBER: the hand recogniser `isNumber` of M1 equals the generic regex engine run on the generated AST, for EVERY string.

  * `Ext re L` : the ways `re` matches from a cursor are exactly the splits of the remaining text into a word of the language `L`
    and a rest, and only the cursor moves.  Closed under `seq`, `alt`, `?`, one-character classes, greedy `[class]*` / `[class]+`
    (`Ext.seq/alt/opt/cls/star/plus`), so the extent of `numberBody` is read off the AST (`ext_numberBody : Ext numberBody LNumber`).
  * `LNumber t ↔ NumLang t ↔ isNumber t = true` : pure `List Char` reasoning (`LNumber_iff_NumLang`, `isNumber_iff_NumLang`).
  * `numberBody_mem` (the extent lemma), `number_full_iff`, `number_eq_regex`, `number_group`.
Core Lean only.
-/
namespace QcelVerif.MolText
open QcelVerif.Regex QcelVerif.Gen

/-! ## languages on `Str` and the extent of a regex -/

def LSeq (A B : Str → Prop) (t : Str) : Prop := ∃ u v, t = u ++ v ∧ A u ∧ B v
def LAlt (A B : Str → Prop) (t : Str) : Prop := A t ∨ B t
def LOpt (A : Str → Prop) (t : Str) : Prop := A t ∨ t = []
def LChar (p : Char → Bool) (t : Str) : Prop := ∃ c, t = [c] ∧ p c = true
def LStar (p : Char → Bool) (t : Str) : Prop := ∀ c ∈ t, p c = true
def LPlus (p : Char → Bool) (t : Str) : Prop := t ≠ [] ∧ ∀ c ∈ t, p c = true

/-- the ways `re` matches from a cursor are exactly the splits of the remaining text into a word of `L` and a rest;
only the cursor moves -/
def Ext (re : Re) (L : Str → Prop) : Prop :=
  ∀ (s : Str) (st x : St), st.rest = toBytes s →
    (x ∈ re.ms st ↔ ∃ t r, s = t ++ r ∧ L t ∧ x = st.adv (toBytes t) (toBytes r))

theorem Ext.congr {re : Re} {L L' : Str → Prop} (h : Ext re L) (hL : ∀ t, L t ↔ L' t) : Ext re L' := by
  intro s st x hs
  rw [h s st x hs]
  constructor
  · rintro ⟨t, r, h1, h2, h3⟩; exact ⟨t, r, h1, (hL t).mp h2, h3⟩
  · rintro ⟨t, r, h1, h2, h3⟩; exact ⟨t, r, h1, (hL t).mpr h2, h3⟩

theorem Ext.seq {a b : Re} {A B : Str → Prop} (ha : Ext a A) (hb : Ext b B) : Ext (.seq a b) (LSeq A B) := by
  intro s st x hs
  rw [mem_ms_seq]
  constructor
  · rintro ⟨m, hm, hx⟩
    obtain ⟨t, r, rfl, hA, rfl⟩ := (ha s st m hs).mp hm
    obtain ⟨t', r', rfl, hB, rfl⟩ := (hb r _ x rfl).mp hx
    refine ⟨t ++ t', r', by simp, ⟨t, t', rfl, hA, hB⟩, ?_⟩
    rw [adv_adv, toBytes_append]
  · rintro ⟨t, r, rfl, ⟨u, v, rfl, hA, hB⟩, rfl⟩
    refine ⟨st.adv (toBytes u) (toBytes (v ++ r)), (ha _ st _ hs).mpr ⟨u, v ++ r, by simp, hA, rfl⟩, ?_⟩
    refine (hb (v ++ r) _ _ rfl).mpr ⟨v, r, rfl, hB, ?_⟩
    rw [adv_adv, toBytes_append]

theorem Ext.alt {a b : Re} {A B : Str → Prop} (ha : Ext a A) (hb : Ext b B) : Ext (.alt a b) (LAlt A B) := by
  intro s st x hs
  rw [mem_ms_alt, ha s st x hs, hb s st x hs]
  constructor
  · rintro (⟨t, r, h1, h2, h3⟩ | ⟨t, r, h1, h2, h3⟩)
    · exact ⟨t, r, h1, Or.inl h2, h3⟩
    · exact ⟨t, r, h1, Or.inr h2, h3⟩
  · rintro ⟨t, r, h1, h2 | h2, h3⟩
    · exact Or.inl ⟨t, r, h1, h2, h3⟩
    · exact Or.inr ⟨t, r, h1, h2, h3⟩

theorem Ext.opt {a : Re} {A : Str → Prop} (ha : Ext a A) : Ext (.rep 0 (some 1) true a) (LOpt A) := by
  intro s st x hs
  rw [mem_ms_opt, ha s st x hs]
  constructor
  · rintro (⟨t, r, h1, h2, h3⟩ | rfl)
    · exact ⟨t, r, h1, Or.inl h2, h3⟩
    · refine ⟨[], s, rfl, Or.inr rfl, ?_⟩
      rw [← hs]; rfl
  · rintro ⟨t, r, h1, h2 | rfl, h3⟩
    · exact Or.inl ⟨t, r, h1, h2, h3⟩
    · right
      simp only [List.nil_append] at h1
      subst h1
      rw [h3, ← hs]; rfl

theorem Ext.cls {neg : Bool} {items : List Item} {p : Char → Bool} (hp : ∀ c : Char, clsMem neg items c.toNat = p c) :
    Ext (.cls neg items) (LChar p) := by
  intro s st x hs
  rw [mem_ms_cls]
  constructor
  · rintro ⟨c, t, h1, h2, rfl⟩
    rw [hs] at h1
    cases s with
    | nil => simp at h1
    | cons d s' =>
      simp only [toBytes_cons, List.cons.injEq] at h1
      obtain ⟨rfl, rfl⟩ := h1
      exact ⟨[d], s', rfl, ⟨d, rfl, by rw [← hp]; exact h2⟩, rfl⟩
  · rintro ⟨t, r, rfl, ⟨d, rfl, hd⟩, rfl⟩
    exact ⟨d.toNat, toBytes r, by simp [hs], by rw [hp]; exact hd, rfl⟩

theorem Ext.star {neg : Bool} {items : List Item} {p : Char → Bool} (hp : ∀ c : Char, clsMem neg items c.toNat = p c) :
    Ext (.rep 0 none true (.cls neg items)) (LStar p) := by
  intro s st x hs
  rw [mem_ms_star]
  constructor
  · rintro ⟨a, r, h1, h2, rfl⟩
    rw [hs] at h1
    obtain ⟨t, r', rfl, rfl, rfl⟩ := toBytes_eq_append h1
    exact ⟨t, r', rfl, (all_toBytes _ _ hp t).mp h2, rfl⟩
  · rintro ⟨t, r, rfl, h2, rfl⟩
    exact ⟨toBytes t, toBytes r, by simp [hs], (all_toBytes _ _ hp t).mpr h2, rfl⟩

theorem Ext.plus {neg : Bool} {items : List Item} {p : Char → Bool} (hp : ∀ c : Char, clsMem neg items c.toNat = p c) :
    Ext (.rep 1 none true (.cls neg items)) (LPlus p) := by
  intro s st x hs
  rw [mem_ms_plus]
  constructor
  · rintro ⟨a, r, h0, h1, h2, rfl⟩
    rw [hs] at h1
    obtain ⟨t, r', rfl, rfl, rfl⟩ := toBytes_eq_append h1
    exact ⟨t, r', rfl, ⟨by simpa [toBytes_eq_nil] using h0, (all_toBytes _ _ hp t).mp h2⟩, rfl⟩
  · rintro ⟨t, r, rfl, ⟨h0, h2⟩, rfl⟩
    exact ⟨toBytes t, toBytes r, by simpa [toBytes_eq_nil] using h0, by simp [hs], (all_toBytes _ _ hp t).mpr h2, rfl⟩

/-! ## the classes of NUMBER -/

def isSignC (c : Char) : Bool := c == '-' || c == '+'
def isDotC (c : Char) : Bool := c == '.'

theorem cls_sign (c : Char) : clsMem false [.ch 45, .ch 43] c.toNat = isSignC c := by
  simp only [clsMem, Item.mem, isSignC, beq_lit, List.any_cons, List.any_nil, Bool.or_false, Char.reduceToNat]
  generalize (c.toNat == 45) = a
  generalize (c.toNat == 43) = b
  cases a <;> cases b <;> rfl

theorem cls_dot (c : Char) : clsMem false [.ch 46] c.toNat = isDotC c := by
  simp only [clsMem, Item.mem, isDotC, beq_lit, List.any_cons, List.any_nil, Bool.or_false, Char.reduceToNat]
  generalize (c.toNat == 46) = a
  cases a <;> rfl

theorem cls_exp (c : Char) : clsMem false [.ch 68, .ch 100, .ch 69, .ch 101] c.toNat = isExpChar c := by
  simp only [clsMem, Item.mem, isExpChar, beq_lit, List.any_cons, List.any_nil, Bool.or_false, Char.reduceToNat]
  generalize (c.toNat == 68) = a
  generalize (c.toNat == 100) = b
  generalize (c.toNat == 69) = d
  generalize (c.toNat == 101) = e
  cases a <;> cases b <;> cases d <;> cases e <;> rfl

/-! ## the language of NUMBER, read off the AST -/

def LSign : Str → Prop := LOpt (LChar isSignC)
def LDig0 : Str → Prop := LStar Char.isDigit
def LDig1 : Str → Prop := LPlus Char.isDigit
def LExp : Str → Prop := LOpt (LSeq (LChar isExpChar) (LSeq LSign LDig1))
def LA1 : Str → Prop := LSeq LSign (LSeq LDig0 (LSeq (LChar isDotC) (LSeq LDig1 LExp)))
def LA2 : Str → Prop := LSeq LSign (LSeq LDig1 (LSeq (LChar isDotC) (LSeq LDig0 LExp)))
def LA3 : Str → Prop := LSeq LSign (LSeq LDig1 LExp)
def LNumber : Str → Prop := LAlt LA1 (LAlt LA2 LA3)

theorem ext_signOpt : Ext signOpt LSign := Ext.opt (Ext.cls cls_sign)
theorem ext_digits0 : Ext digits0 LDig0 := Ext.star cls_digit
theorem ext_digits1 : Ext digits1 LDig1 := Ext.plus cls_digit
theorem ext_dot : Ext dot (LChar isDotC) := Ext.cls cls_dot
theorem ext_expOpt : Ext expOpt LExp := Ext.opt (Ext.seq (Ext.cls cls_exp) (Ext.seq ext_signOpt ext_digits1))
theorem ext_numA1 : Ext numA1 LA1 :=
  Ext.seq ext_signOpt (Ext.seq ext_digits0 (Ext.seq ext_dot (Ext.seq ext_digits1 ext_expOpt)))
theorem ext_numA2 : Ext numA2 LA2 :=
  Ext.seq ext_signOpt (Ext.seq ext_digits1 (Ext.seq ext_dot (Ext.seq ext_digits0 ext_expOpt)))
theorem ext_numA3 : Ext numA3 LA3 := Ext.seq ext_signOpt (Ext.seq ext_digits1 ext_expOpt)
theorem ext_numberBody : Ext numberBody LNumber := Ext.alt ext_numA1 (Ext.alt ext_numA2 ext_numA3)

/-! ## the hand recogniser, stage by stage -/

/-- unsigned mantissa: `\d+` or `\d*\.\d*` with a digit on one side -/
def MantUL (m : Str) : Prop :=
  LDig1 m ∨ ∃ ip fp, m = ip ++ '.' :: fp ∧ LDig0 ip ∧ LDig0 fp ∧ (ip ≠ [] ∨ fp ≠ [])

/-- sign, unsigned mantissa, exponent -/
def NumLang (t : Str) : Prop := ∃ sg m ex, t = sg ++ (m ++ ex) ∧ LSign sg ∧ MantUL m ∧ LExp ex

theorem isSignC_iff {c : Char} : isSignC c = true ↔ c = '-' ∨ c = '+' := by simp [isSignC]
theorem isDotC_iff {c : Char} : isDotC c = true ↔ c = '.' := by simp [isDotC]

theorem LSign_iff (sg : Str) : LSign sg ↔ sg = ['-'] ∨ sg = ['+'] ∨ sg = [] := by
  unfold LSign LOpt LChar
  constructor
  · rintro (⟨c, rfl, hc⟩ | rfl)
    · rcases isSignC_iff.mp hc with rfl | rfl <;> simp
    · simp
  · rintro (rfl | rfl | rfl)
    · exact Or.inl ⟨'-', rfl, by decide⟩
    · exact Or.inl ⟨'+', rfl, by decide⟩
    · exact Or.inr rfl

theorem allDigits_iff (d : Str) : (allDigits d && !d.isEmpty) = true ↔ LDig1 d := by
  simp [allDigits, List.all_eq_true, LDig1, LPlus, and_comm]

theorem allDigits_iff0 (d : Str) : allDigits d = true ↔ LDig0 d := by
  simp [allDigits, List.all_eq_true, LDig0, LStar]

theorem parseExp_cons (e : Char) (r : Str) : parseExp (e :: r) =
    if isExpChar e then
      match r with
      | '-' :: d => if allDigits d && !d.isEmpty then some (some (true, d)) else none
      | '+' :: d => if allDigits d && !d.isEmpty then some (some (false, d)) else none
      | d => if allDigits d && !d.isEmpty then some (some (false, d)) else none
    else none := rfl

theorem ite_isSome {α} (b : Bool) (v : α) : (if b = true then some v else none).isSome = b := by
  cases b <;> rfl

theorem dig1_head {d : Str} (h : LDig1 d) : ∃ c t, d = c :: t ∧ c.isDigit = true := by
  obtain ⟨h0, h1⟩ := h
  cases d with
  | nil => exact absurd rfl h0
  | cons c t => exact ⟨c, t, rfl, h1 c (by simp)⟩

theorem parseExp_isSome (ex : Str) : (parseExp ex).isSome = true ↔ LExp ex := by
  cases ex with
  | nil => simp [parseExp, LExp, LOpt]
  | cons e r =>
    rw [parseExp_cons]
    unfold LExp LOpt LSeq LChar
    constructor
    · intro h
      left
      by_cases he : isExpChar e = true
      · simp only [he, if_true] at h
        refine ⟨[e], r, rfl, ⟨e, rfl, he⟩, ?_⟩
        split at h
        · rename_i d
          rw [ite_isSome, allDigits_iff] at h
          exact ⟨['-'], d, rfl, (LSign_iff _).mpr (Or.inl rfl), h⟩
        · rename_i d
          rw [ite_isSome, allDigits_iff] at h
          exact ⟨['+'], d, rfl, (LSign_iff _).mpr (Or.inr (Or.inl rfl)), h⟩
        · rw [ite_isSome, allDigits_iff] at h
          exact ⟨[], r, rfl, (LSign_iff _).mpr (Or.inr (Or.inr rfl)), h⟩
      · simp [he] at h
    · rintro (⟨u, v, huv, ⟨c, rfl, hc⟩, sg, d, rfl, hsg, hd⟩ | h)
      · simp only [List.singleton_append, List.cons.injEq] at huv
        obtain ⟨rfl, rfl⟩ := huv
        simp only [hc, if_true]
        rcases (LSign_iff _).mp hsg with rfl | rfl | rfl
        · simp only [List.singleton_append]
          rw [ite_isSome, allDigits_iff]; exact hd
        · simp only [List.singleton_append]
          rw [ite_isSome, allDigits_iff]; exact hd
        · simp only [List.nil_append]
          obtain ⟨c, t, rfl, hcd⟩ := dig1_head hd
          obtain ⟨h1, h2, _⟩ := digit_ne_minus hcd
          split
          · rename_i heq
            simp only [List.cons.injEq] at heq
            rw [← heq.1] at h1; simp at h1
          · rename_i heq
            simp only [List.cons.injEq] at heq
            rw [← heq.1] at h2; simp at h2
          · rw [ite_isSome, allDigits_iff]; exact hd
      · simp at h

theorem parseMantU_isSome (m : Str) : (parseMantU m).isSome = true ↔ MantUL m := by
  constructor
  · intro h
    have hsplit : m.takeWhile Char.isDigit ++ m.dropWhile Char.isDigit = m := List.takeWhile_append_dropWhile
    have htw : ∀ c ∈ m.takeWhile Char.isDigit, c.isDigit = true := by
      have := List.all_takeWhile (p := Char.isDigit) (l := m)
      exact fun c hc => List.all_eq_true.mp this c hc
    unfold parseMantU at h
    simp only at h
    split at h
    · rename_i heq
      left
      rw [heq, List.append_nil] at hsplit
      rw [hsplit] at htw h
      refine ⟨?_, htw⟩
      intro hm; subst hm; simp at h
    · rename_i r heq
      right
      rw [ite_isSome, Bool.and_eq_true, allDigits_iff0] at h
      refine ⟨m.takeWhile Char.isDigit, r, by rw [← heq]; exact hsplit.symm, htw, h.1, ?_⟩
      have h2 := h.2
      simp only [Bool.or_eq_true, Bool.not_eq_true', List.isEmpty_eq_false_iff] at h2
      exact h2
    · simp at h
  · rintro (h | ⟨ip, fp, rfl, hi, hf, hne⟩)
    · rw [parseMantU_int m h]; rfl
    · have hdot : Char.isDigit '.' = false := by decide
      have h1 : (ip ++ '.' :: fp).takeWhile Char.isDigit = ip := tw_app ip _ hi (Or.inr ⟨'.', fp, rfl, hdot⟩)
      have h2 : (ip ++ '.' :: fp).dropWhile Char.isDigit = '.' :: fp := dw_app ip _ hi (Or.inr ⟨'.', fp, rfl, hdot⟩)
      unfold parseMantU
      simp only [h1, h2]
      rw [ite_isSome, Bool.and_eq_true, allDigits_iff0]
      refine ⟨hf, ?_⟩
      simp only [Bool.or_eq_true, Bool.not_eq_true', List.isEmpty_eq_false_iff]
      exact hne

theorem mantUL_head {m : Str} (h : MantUL m) : ∃ d t, m = d :: t ∧ (d == '-') = false ∧ (d == '+') = false := by
  rcases h with h | ⟨ip, fp, rfl, hi, _, _⟩
  · obtain ⟨c, t, rfl, hc⟩ := dig1_head h
    exact ⟨c, t, rfl, (digit_ne_minus hc).1, (digit_ne_minus hc).2.1⟩
  · cases ip with
    | nil => exact ⟨'.', fp, rfl, by decide, by decide⟩
    | cons c t =>
      have hc : c.isDigit = true := hi c (by simp)
      exact ⟨c, t ++ '.' :: fp, rfl, (digit_ne_minus hc).1, (digit_ne_minus hc).2.1⟩

theorem mantUL_all {m : Str} (h : MantUL m) : ∀ c ∈ m, isMantChar c = true := by
  rcases h with h | ⟨ip, fp, rfl, hi, hf, _⟩
  · intro c hc; exact digit_mant (h.2 c hc)
  · intro c hc
    simp only [List.mem_append, List.mem_cons] at hc
    rcases hc with hc | rfl | hc
    · exact digit_mant (hi c hc)
    · decide
    · exact digit_mant (hf c hc)

theorem isSome_map {α β} (o : Option α) (f : α → β) : (o.map f).isSome = o.isSome := by cases o <;> rfl

theorem parseMant_isSome (s : Str) : (parseMant s).isSome = true ↔ ∃ sg m, s = sg ++ m ∧ LSign sg ∧ MantUL m := by
  constructor
  · intro h
    cases s with
    | nil => simp [parseMant] at h
    | cons c r =>
      unfold parseMant at h
      simp only at h
      by_cases h1 : (c == '-') = true
      · simp only [h1, if_true, isSome_map] at h
        rw [beq_iff_eq] at h1; subst h1
        exact ⟨['-'], r, rfl, (LSign_iff _).mpr (Or.inl rfl), (parseMantU_isSome r).mp h⟩
      · by_cases h2 : (c == '+') = true
        · simp only [h1, h2, Bool.false_eq_true, if_false, if_true, isSome_map] at h
          rw [beq_iff_eq] at h2; subst h2
          exact ⟨['+'], r, rfl, (LSign_iff _).mpr (Or.inr (Or.inl rfl)), (parseMantU_isSome r).mp h⟩
        · simp only [h1, h2, Bool.false_eq_true, if_false, isSome_map] at h
          exact ⟨[], c :: r, rfl, (LSign_iff _).mpr (Or.inr (Or.inr rfl)), (parseMantU_isSome _).mp h⟩
  · rintro ⟨sg, m, rfl, hsg, hm⟩
    have hm' := (parseMantU_isSome m).mpr hm
    rcases (LSign_iff _).mp hsg with rfl | rfl | rfl
    · simp [parseMant, hm']
    · simp [parseMant, hm']
    · obtain ⟨d, t, rfl, hd1, hd2⟩ := mantUL_head hm
      simp only [List.nil_append]
      unfold parseMant
      simp only [hd1, hd2, Bool.false_eq_true, if_false, isSome_map]
      exact hm'

theorem isNumber_split (t : Str) : isNumber t = true ↔
    (parseMant (t.takeWhile isMantChar)).isSome = true ∧ (parseExp (t.dropWhile isMantChar)).isSome = true := by
  unfold isNumber parseNumber
  cases parseMant (t.takeWhile isMantChar) with
  | none => simp
  | some v =>
    obtain ⟨n, a, b, d⟩ := v
    cases parseExp (t.dropWhile isMantChar) <;> simp

theorem LExp_head {ex : Str} (h : LExp ex) : ex = [] ∨ ∃ d t, ex = d :: t ∧ isMantChar d = false := by
  rcases h with ⟨u, v, rfl, ⟨c, rfl, hc⟩, _⟩ | rfl
  · exact Or.inr ⟨c, v, rfl, exp_not_mant hc⟩
  · exact Or.inl rfl

theorem LSign_all {sg : Str} (h : LSign sg) : ∀ c ∈ sg, isMantChar c = true := by
  rcases (LSign_iff _).mp h with rfl | rfl | rfl <;> intro c hc <;> simp at hc <;> subst hc <;> decide

/-- the hand recogniser accepts exactly sign? mantissa exponent? -/
theorem isNumber_iff_NumLang (t : Str) : isNumber t = true ↔ NumLang t := by
  rw [isNumber_split, parseMant_isSome, parseExp_isSome]
  constructor
  · rintro ⟨⟨sg, m, hsm, hsg, hm⟩, hex⟩
    refine ⟨sg, m, t.dropWhile isMantChar, ?_, hsg, hm, hex⟩
    rw [← List.append_assoc, ← hsm]
    exact List.takeWhile_append_dropWhile.symm
  · rintro ⟨sg, m, ex, rfl, hsg, hm, hex⟩
    have hall : ∀ c ∈ sg ++ m, isMantChar c = true := by
      intro c hc
      rcases List.mem_append.mp hc with hc | hc
      · exact LSign_all hsg c hc
      · exact mantUL_all hm c hc
    rw [← List.append_assoc, tw_app (sg ++ m) ex hall (LExp_head hex), dw_app (sg ++ m) ex hall (LExp_head hex)]
    exact ⟨⟨sg, m, rfl, hsg, hm⟩, hex⟩

theorem LDot_iff {u : Str} : LChar isDotC u ↔ u = ['.'] := by
  constructor
  · rintro ⟨c, rfl, hc⟩; rw [isDotC_iff.mp hc]
  · rintro rfl; exact ⟨'.', rfl, by decide⟩

/-- the language read off the AST is sign? mantissa exponent? -/
theorem LNumber_iff_NumLang (t : Str) : LNumber t ↔ NumLang t := by
  constructor
  · rintro (h | h | h)
    · obtain ⟨sg, _, rfl, hsg, ip, _, rfl, hip, dt, _, rfl, hdt, fp, ex, rfl, hfp, hex⟩ := h
      rw [LDot_iff.mp hdt]
      exact ⟨sg, ip ++ '.' :: fp, ex, by simp, hsg, Or.inr ⟨ip, fp, rfl, hip, hfp.2, Or.inr hfp.1⟩, hex⟩
    · obtain ⟨sg, _, rfl, hsg, ip, _, rfl, hip, dt, _, rfl, hdt, fp, ex, rfl, hfp, hex⟩ := h
      rw [LDot_iff.mp hdt]
      exact ⟨sg, ip ++ '.' :: fp, ex, by simp, hsg, Or.inr ⟨ip, fp, rfl, hip.2, hfp, Or.inl hip.1⟩, hex⟩
    · obtain ⟨sg, _, rfl, hsg, ip, ex, rfl, hip, hex⟩ := h
      exact ⟨sg, ip, ex, rfl, hsg, Or.inl hip, hex⟩
  · rintro ⟨sg, m, ex, rfl, hsg, hm | ⟨ip, fp, rfl, hip, hfp, hne⟩, hex⟩
    · exact Or.inr (Or.inr ⟨sg, _, rfl, hsg, m, ex, rfl, hm, hex⟩)
    · by_cases h0 : ip = []
      · have hf : fp ≠ [] := by rcases hne with h | h; exact absurd h0 h; exact h
        refine Or.inl ⟨sg, _, rfl, hsg, ip, '.' :: (fp ++ ex), by simp, hip, ['.'], fp ++ ex, rfl, LDot_iff.mpr rfl,
          fp, ex, rfl, ⟨hf, hfp⟩, hex⟩
      · refine Or.inr (Or.inl ⟨sg, _, rfl, hsg, ip, '.' :: (fp ++ ex), by simp, ⟨h0, hip⟩, ['.'], fp ++ ex, rfl, LDot_iff.mpr rfl,
          fp, ex, rfl, hfp, hex⟩)

/-! ## the theorems -/

theorem numberBody_lang : Ext numberBody (fun t => isNumber t = true) :=
  ext_numberBody.congr fun t => (LNumber_iff_NumLang t).trans (isNumber_iff_NumLang t).symm

/-- **extent of NUMBER**: the ways NUMBER's body matches from a cursor are exactly the splits of the remaining text into a token
the hand recogniser accepts and a rest; only the cursor moves (no captures inside). -/
theorem numberBody_mem (s : Str) (st x : St) (hs : st.rest = toBytes s) :
    x ∈ numberBody.ms st ↔ ∃ t r, s = t ++ r ∧ isNumber t = true ∧ x = st.adv (toBytes t) (toBytes r) :=
  numberBody_lang s st x hs

theorem find?_eq_some_of_unique {α} {l : List α} {p : α → Bool} {v : α} {P : Prop}
    (h : ∀ x, (x ∈ l ∧ p x = true) ↔ (P ∧ x = v)) (y : α) : l.find? p = some y ↔ P ∧ y = v := by
  constructor
  · intro hf
    exact (h y).mp ⟨List.mem_of_find?_eq_some hf, List.find?_some hf⟩
  · rintro ⟨hP, rfl⟩
    obtain ⟨hm, hp⟩ := (h y).mpr ⟨hP, rfl⟩
    cases hf : l.find? p with
    | none => rw [List.find?_eq_none] at hf; exact absurd hp (hf y hm)
    | some z =>
      have := (h z).mp ⟨List.mem_of_find?_eq_some hf, List.find?_some hf⟩
      rw [this.2]

theorem number_ms_full (t : Str) (x : St) :
    (x ∈ FromStringRegex.number.ms (St.init (toBytes t)) ∧ x.rest.isEmpty = true) ↔
      (isNumber t = true ∧ x = St.capture 1 (St.init (toBytes t)) ((St.init (toBytes t)).adv (toBytes t) [])) := by
  rw [number_shape, mem_ms_group]
  constructor
  · rintro ⟨⟨m, hm, rfl⟩, hr⟩
    obtain ⟨t', r, rfl, hn, rfl⟩ := (numberBody_mem t (St.init (toBytes t)) m rfl).mp hm
    simp only [capture_rest', adv_rest', List.isEmpty_iff, toBytes_eq_nil] at hr
    subst hr
    simp only [List.append_nil] at *
    exact ⟨hn, rfl⟩
  · rintro ⟨hn, rfl⟩
    refine ⟨⟨_, (numberBody_mem t (St.init (toBytes t)) _ rfl).mpr ⟨t, [], by simp, hn, rfl⟩, rfl⟩, rfl⟩

/-- `fullmatch(NUMBER, token)` succeeds exactly on the tokens the hand recogniser accepts, and then in exactly one way -/
theorem number_full_iff (t : Str) (x : St) :
    FromStringRegex.number.fullMatch (toBytes t) = some x ↔
      isNumber t = true ∧ x = St.capture 1 (St.init (toBytes t)) ((St.init (toBytes t)).adv (toBytes t) []) := by
  rw [fullMatch_eq_find]
  exact find?_eq_some_of_unique (number_ms_full t) x

/-- **NUMBER = hand recogniser**, for every token -/
theorem number_eq_regex (t : Str) : isNumberRe t = isNumberHand t := by
  unfold isNumberRe isNumberHand
  cases hn : isNumber t with
  | true =>
    rw [((number_full_iff t _).mpr ⟨hn, rfl⟩)]; rfl
  | false =>
    cases hf : FromStringRegex.number.fullMatch (toBytes t) with
    | none => rfl
    | some x => have := ((number_full_iff t x).mp hf).1; rw [hn] at this; exact absurd this (by decide)

/-- group 1 of a full match of NUMBER is the whole token -/
theorem number_group (t : Str) (st : St) (h : FromStringRegex.number.fullMatch (toBytes t) = some st) :
    st.group 1 = some (toBytes t) := by
  obtain ⟨_, rfl⟩ := (number_full_iff t st).mp h
  simp [St.group, St.init, takeDiff_nil]

/-! ## non-vacuity -/

example : isNumberRe "1.5D+02".toList = true := by decide
example : isNumberRe "1.e".toList = false := by decide
example : isNumberRe "-.5".toList = true := by decide
example : isNumberRe "+-1".toList = false := by decide
example : isNumberHand "1.5D+02".toList = true := by decide
example : isNumberHand "1.e".toList = false := by decide

end QcelVerif.MolText
