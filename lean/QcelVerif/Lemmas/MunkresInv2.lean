import QcelVerif.Lemmas.MunkresInv2.Basic
import QcelVerif.Lemmas.MunkresInv2.Step1
import QcelVerif.Lemmas.MunkresInv2.Step36
import QcelVerif.Lemmas.MunkresInv2.Step4
import QcelVerif.Lemmas.MunkresInv2.Step5
import QcelVerif.Lemmas.MunkresInv2.Cert
/-!
C14 — Munkres step invariants, assembled: every step of the state machine establishes the
invariant of the step it hands over to (`doStep_inv`), hence a run that finishes, on whatever fuel,
ends in a state whose stars are a complete independent set of zeros of a non-negative
`C = cost − u − v` (`runSteps_final`), and such a state reads out as a certificate
(`final_wideOK`).  Termination within the fuel is *not* proved: it is the hypothesis `= .ok …`.
-/
namespace QcelVerif.Munkres
open QcelVerif.Assign

/-- the state in which `_step3` reports "done": the base invariant, and a star in every row -/
structure Final (n m : Nat) (cost : Nat → Nat → Rat) (s : State) : Prop where
  base : Base n m cost s
  full : ∀ i, i < n → ∃ j, Star s.marked i j

/-- what holds after a step, depending on where it hands over to -/
def Post (n m : Nat) (cost : Nat → Nat → Rat) : Option Step → State → Prop
  | some st => InvAt n m cost st
  | none => Final n m cost

/-- **One step.**  Each of `_step1`, `_step3`, `_step4`, `_step5`, `_step6`, started in a state that
satisfies its invariant, ends (if it ends) in a state satisfying the invariant of its successor. -/
theorem doStep_inv {n m : Nat} {cost : Nat → Nat → Rat} {st : Step} {s s' : State} {nx : Option Step}
    (h : doStep st s = .ok (s', nx)) (hi : InvAt n m cost st s) : Post n m cost nx s' := by
  cases st <;> simp only [doStep, Except.ok.injEq] at h
  · -- step 1
    have e1 : s' = (step1 s).1 := by rw [h]
    have e2 : nx = (step1 s).2 := by rw [h]
    rw [e2, step1_next, e1]
    exact step1_inv hi
  · -- step 3
    have e1 : s' = (step3 s).1 := by rw [h]
    have e2 : nx = (step3 s).2 := by rw [h]
    have hL := step3_inv hi
    rcases step3_next s with h4 | hd
    · rw [e2, h4, e1]; exact hL
    · rw [e2, hd, e1]
      refine ⟨hL.base, fun i hlt => ?_⟩
      obtain ⟨j, hj⟩ := step3_done hi hd i hlt
      exact ⟨j, by rw [(step3_state s).1]; exact hj⟩
  · -- step 4
    rcases step4_inv h hi with ⟨e, hL⟩ | ⟨e, h5⟩
    · rw [e]; exact hL
    · rw [e]; exact h5
  · -- step 5
    obtain ⟨e, h3⟩ := step5_inv h hi
    rw [e]; exact h3
  · -- step 6
    have e1 : s' = (step6 s).1 := by rw [h]
    have e2 : nx = (step6 s).2 := by rw [h]
    rw [e2, step6_next, e1]
    exact step6_inv hi

/-- **Any number of steps.**  A run of the state machine that finishes (`= .ok`, on any fuel) from a
state satisfying the invariant of its first step ends in a `Final` state. -/
theorem runSteps_final {n m : Nat} {cost : Nat → Nat → Rat} : ∀ (f : Nat) (st : Step) (s : State)
    (tr : Array (Step × State)) (s' : State) (tr' : Array (Step × State)),
    runSteps f st s tr = .ok (s', tr') → InvAt n m cost st s → Final n m cost s'
  | 0, _, _, _, _, _, h, _ => by simp [runSteps] at h
  | f + 1, st, s, tr, s', tr', h, hi => by
    unfold runSteps at h
    split at h
    · simp at h
    · rename_i s1 nx hd
      have hp := doStep_inv hd hi
      simp only at h
      split at h
      · simp only [Except.ok.injEq, Prod.mk.injEq] at h
        rw [← h.1]; exact hp
      · exact runSteps_final f _ _ _ _ _ h hp

/-- the freshly built state satisfies the invariant of step 1, for any `cost` that agrees with the
stored matrix on the `n × m` entries -/
theorem initState_inv1 (n m : Nat) (costM : Mat Rat) (cost : Nat → Nat → Rat)
    (hsz : costM.size = n) (hrow : ∀ i, i < n → (costM.getD i #[]).size = m)
    (hc : ∀ i, i < n → ∀ j, j < m → get2 costM i j = cost i j) : Inv1 n m cost (initState n m costM) := by
  refine ⟨⟨hsz, hrow, by simp [initState], ?_, by simp [initState], by simp [initState]⟩, hc, ?_, ?_, ?_⟩
  · intro i hi
    simp [initState, Array.getD_eq_getD_getElem?, hi]
  · intro i j
    unfold initState get2
    by_cases hi : i < n
    · by_cases hj : j < m
      · simp [Array.getD_eq_getD_getElem?, hi, hj]
      · simp [Array.getD_eq_getD_getElem?, hi, hj]
    · simp [Array.getD_eq_getD_getElem?, hi]
  · intro i hi
    simp [RU, initState, Array.getD_eq_getD_getElem?, hi]
  · intro j hj
    simp [CU, initState, Array.getD_eq_getD_getElem?, hj]

/-- **A finished run of the solver on a non-empty wide matrix ends in a `Final` state.** -/
theorem solveWide_final (n m : Nat) (costM : Mat Rat) (cost : Nat → Nat → Rat)
    (hsz : costM.size = n) (hrow : ∀ i, i < n → (costM.getD i #[]).size = m)
    (hc : ∀ i, i < n → ∀ j, j < m → get2 costM i j = cost i j) (hn : 0 < n) (hm : 0 < m)
    (s : State) (tr : Array (Step × State)) (h : solveWide n m costM = .ok (s, tr)) :
    Final n m cost s := by
  unfold solveWide at h
  simp only at h
  have : (n == 0 || m == 0) = false := by
    simp; omega
  rw [this] at h
  simp only [Bool.false_eq_true, if_false] at h
  exact runSteps_final _ _ _ _ _ _ h (initState_inv1 n m costM cost hsz hrow hc)

/-- with an empty axis nothing runs and nothing is starred -/
theorem solveWide_empty (n m : Nat) (costM : Mat Rat) (h0 : n = 0 ∨ m = 0)
    (s : State) (tr : Array (Step × State)) (h : solveWide n m costM = .ok (s, tr)) :
    ∀ i j, get2 s.marked i j = 0 := by
  unfold solveWide at h
  simp only at h
  have : (n == 0 || m == 0) = true := by
    rcases h0 with rfl | rfl <;> simp
  rw [this] at h
  simp only [if_true, Except.ok.injEq, Prod.mk.injEq] at h
  rw [← h.1]
  intro i j
  unfold initState get2
  by_cases hi : i < n
  · by_cases hj : j < m
    · simp [Array.getD_eq_getD_getElem?, hi, hj]
    · simp [Array.getD_eq_getD_getElem?, hi, hj]
  · simp [Array.getD_eq_getD_getElem?, hi]

theorem starPairs_nodup (M : Mat Nat) : (starPairs M).Nodup := by
  refine (starPairs_sorted M).imp ?_
  intro p q h e
  subst e
  rcases h with h | ⟨_, h⟩ <;> exact Nat.lt_irrefl _ h

/-- **Read-out of a `Final` state is a certificate** (wide orientation, `0 < n ≤ m`):
`step3_done_cert` of the design — `red` is any function that agrees with `C` on the matrix. -/
theorem final_wideOK {n m : Nat} (hn : 0 < n) (hnm : n ≤ m) {cost : Nat → Nat → Rat} {s : State}
    (hf : Final n m cost s) (red : Nat → Nat → Rat)
    (hred : ∀ i, i < n → ∀ j, j < m → red i j = get2 s.C i j) :
    wideOK n m cost red (starPairs s.marked) = true
    ∧ incB ((starPairs s.marked).map Prod.fst) = true :=
  ⟨wideOK_of_stars' hn hnm hf.base hf.full red hred _ (fun p => starPairs_mem s.marked p) (starPairs_nodup _),
   starPairs_incB s.marked hf.base.starRow⟩

/-! ### the only errors of the state machine are the two resource errors -/

theorem step4Loop_err : ∀ (f : Nat) (Cz cov : Mat Nat) (s : State) (e : Err),
    step4Loop f Cz cov s = .error e → e = .fuel
  | 0, _, _, _, e, h => by
    simp only [step4Loop, Except.error.injEq] at h
    exact h.symm
  | f + 1, Cz, cov, s, e, h => by
    unfold step4Loop at h
    simp only at h
    split at h
    · simp at h
    · split at h
      · simp at h
      · exact step4Loop_err f _ _ _ e h

theorem step5Loop_err (M : Mat Nat) (m : Nat) : ∀ (f count : Nat) (path : Array (Nat × Int)) (e : Err),
    step5Loop M m f count path = .error e → e = .fuel ∨ e = .index
  | 0, _, _, e, h => by
    simp only [step5Loop, Except.error.injEq] at h
    exact Or.inl h.symm
  | f + 1, count, path, e, h => by
    unfold step5Loop at h
    simp only [bind, Except.bind, pathSet] at h
    split at h
    · simp at h
    · split at h
      · rename_i e' he'
        split at he'
        · simp at he'
        · simp only [Except.error.injEq] at he' h
          exact Or.inr (h ▸ he'.symm)
      · split at h
        · rename_i e' he'
          split at he'
          · simp at he'
          · simp only [Except.error.injEq] at he' h
            exact Or.inr (h ▸ he'.symm)
        · exact step5Loop_err M m f _ _ e h

theorem doStep_err (st : Step) (s : State) (e : Err) (h : doStep st s = .error e) :
    e = .fuel ∨ e = .index := by
  cases st <;> simp only [doStep] at h
  · simp at h
  · simp at h
  · exact Or.inl (step4Loop_err _ _ _ _ e h)
  · unfold step5 at h
    simp only [bind, Except.bind, pure, Except.pure, pathSet] at h
    split at h
    · rename_i e' he'
      split at he'
      · simp at he'
      · simp only [Except.error.injEq] at he' h
        exact Or.inr (h ▸ he'.symm)
    · split at h
      · rename_i e' he'
        simp only [Except.error.injEq] at h
        exact h ▸ step5Loop_err _ _ _ _ _ e' he'
      · simp at h
  · simp at h

theorem runSteps_err : ∀ (f : Nat) (st : Step) (s : State) (tr : Array (Step × State)) (e : Err),
    runSteps f st s tr = .error e → e = .fuel ∨ e = .index
  | 0, _, _, _, e, h => by
    simp only [runSteps, Except.error.injEq] at h
    exact Or.inl h.symm
  | f + 1, st, s, tr, e, h => by
    unfold runSteps at h
    split at h
    · rename_i e' he'
      simp only [Except.error.injEq] at h
      exact h ▸ doStep_err st s e' he'
    · simp only at h
      split at h
      · simp at h
      · exact runSteps_err f _ _ _ e h

theorem solveWide_err (n m : Nat) (costM : Mat Rat) (e : Err) (h : solveWide n m costM = .error e) :
    e = .fuel ∨ e = .index := by
  unfold solveWide at h
  simp only at h
  split at h
  · simp at h
  · exact runSteps_err _ _ _ _ e h

end QcelVerif.Munkres
