import QcelVerif.Lemmas.MunkresInv
/-!
C14 — Munkres step invariants, part 1: loop rules, array lemmas and the invariant itself.

`InvAt n m cost st s` is what holds of the `_Hungary` state `s` just before step `st` runs
(`n × m` with the matrix in the wide orientation).  The other files of this directory prove that
every step establishes the invariant of the step it hands over to.
-/
namespace QcelVerif.Munkres
open QcelVerif.Assign

/-! ### `for` loops in `Id` -/

theorem forIn_list_inv {β : Type} (l : List Nat) (init : β) (f : Nat → β → Id (ForInStep β))
    (P : List Nat → β → Prop)
    (hs : ∀ (pre : List Nat) (i : Nat) (post : List Nat) b, l = pre ++ i :: post → P pre b →
        ∃ b', f i b = ForInStep.yield b' ∧ P (pre ++ [i]) b')
    (h0 : P [] init) : P l (forIn (m := Id) l init f) := by
  suffices H : ∀ (post pre : List Nat) (b : β), l = pre ++ post → P pre b →
      P l (forIn (m := Id) post b f) from H l [] init rfl h0
  intro post
  induction post with
  | nil =>
    intro pre b hl hp
    simp at hl
    subst hl
    exact hp
  | cons i post ih =>
    intro pre b hl hp
    obtain ⟨b', hb, hp'⟩ := hs pre i post b hl hp
    rw [List.forIn_cons, hb]
    exact ih (pre ++ [i]) b' (by simp [hl]) hp'

/-- invariant rule for `for i in [0:n]` loops (in `Id`) whose body always continues -/
theorem forIn_range_inv {β : Type} (n : Nat) (init : β) (f : Nat → β → Id (ForInStep β))
    (P : Nat → β → Prop) (h0 : P 0 init)
    (hs : ∀ i b, i < n → P i b → ∃ b', f i b = ForInStep.yield b' ∧ P (i + 1) b') :
    P n (forIn (m := Id) [:n] init f) := by
  rw [Std.Legacy.Range.forIn_eq_forIn_range']
  have e : List.range' 0 ([:n] : Std.Legacy.Range).size 1 = List.range n := by
    simp [Std.Legacy.Range.size, List.range_eq_range']
  simp only [e]
  have := forIn_list_inv (List.range n) init f (fun pre b => P pre.length b ∧ pre = List.range pre.length)
    (by
      intro pre i post b hl ⟨hp, hpre⟩
      have hlen : pre.length < n := by
        have := congrArg List.length hl
        simp at this
        omega
      have hi : i = pre.length := by
        have h1 : (List.range n)[pre.length]? = some i := by rw [hl]; simp
        simp [List.getElem?_range hlen] at h1
        omega
      subst hi
      obtain ⟨b', hb, hp'⟩ := hs pre.length b hlen hp
      refine ⟨b', hb, by simpa using hp', ?_⟩
      simp [List.range_succ]
      exact hpre)
    ⟨h0, rfl⟩
  simpa using this.1

/-- a `for i in [0:n]` loop whose body always continues is a left fold over `0 … n-1` -/
theorem forIn_range_yield {β : Type} (n : Nat) (init : β) (g : Nat → β → β) :
    (forIn (m := Id) [:n] init fun i b => ForInStep.yield (g i b)) =
      (List.range n).foldl (fun b i => g i b) init := by
  have := List.forIn_pure_yield_eq_foldl (m := Id) (l := List.range n) g init
  rw [Std.Legacy.Range.forIn_eq_forIn_range']
  have e : List.range' 0 ([:n] : Std.Legacy.Range).size 1 = List.range n := by
    simp [Std.Legacy.Range.size, List.range_eq_range']
  rw [e]
  exact this

/-! ### arrays -/

theorem getD_set! {α} (a : Array α) (i k : Nat) (x d : α) :
    (a.set! i x).getD k d = if i = k ∧ k < a.size then x else a.getD k d := by
  simp only [Array.set!_eq_setIfInBounds, Array.getD_eq_getD_getElem?, Array.getElem?_setIfInBounds]
  split <;> rename_i h
  · subst h
    by_cases hk : i < a.size <;> simp [hk]
  · simp [h]

theorem get2_set2 {α} [Inhabited α] (M : Mat α) (i j i' j' : Nat) (x : α) :
    get2 (set2 M i j x) i' j' =
      if i = i' ∧ j = j' ∧ i < M.size ∧ j < (M.getD i #[]).size then x else get2 M i' j' := by
  unfold get2 set2
  simp only [Array.getD_eq_getD_getElem?, Array.getElem?_modify, Array.set!_eq_setIfInBounds]
  by_cases hi : i = i'
  · subst hi
    by_cases h1 : i < M.size
    · simp [h1, Array.getElem?_setIfInBounds]
      by_cases hj : j = j'
      · subst hj
        by_cases h2 : j < M[i].size <;> simp [h2]
      · simp [hj]
    · simp [h1]
  · simp [hi]

theorem set2_size {α} (M : Mat α) (i j : Nat) (x : α) : (set2 M i j x).size = M.size := by
  simp [set2]

theorem set2_row_size {α} (M : Mat α) (i j k : Nat) (x : α) :
    ((set2 M i j x).getD k #[]).size = (M.getD k #[]).size := by
  unfold set2
  simp only [Array.getD_eq_getD_getElem?, Array.getElem?_modify]
  by_cases hi : i = k
  · subst hi
    by_cases h1 : i < M.size <;> simp [h1]
  · simp [hi]

/-- an entry different from the default lies inside the matrix -/
theorem get2_ne_default {α} [Inhabited α] (M : Mat α) (i j : Nat) (h : get2 M i j ≠ default) :
    i < M.size ∧ j < (M.getD i #[]).size := by
  unfold get2 at h
  by_cases hi : i < M.size
  · refine ⟨hi, ?_⟩
    by_cases hj : j < (M.getD i #[]).size
    · exact hj
    · exfalso
      apply h
      generalize M.getD i #[] = r at hj
      simp [Array.getD_eq_getD_getElem?, Array.getElem?_eq_none (Nat.le_of_not_lt hj)]
  · exfalso
    apply h
    simp [Array.getD_eq_getD_getElem?, Array.getElem?_eq_none (Nat.le_of_not_lt hi)]

theorem getD_true_lt (a : Array Bool) (i : Nat) (h : a.getD i false = true) : i < a.size := by
  by_cases hi : i < a.size
  · exact hi
  · simp [Array.getD_eq_getD_getElem?, Array.getElem?_eq_none (Nat.le_of_not_lt hi)] at h

/-- `np.argmax(a == x)` finds an element with the property whenever there is one -/
theorem firstIdx_spec {α} (p : α → Bool) (a : Array α) (d : α) (k : Nat) (hk : k < a.size)
    (hp : p (a.getD k d) = true) :
    firstIdx p a < a.size ∧ p (a.getD (firstIdx p a) d) = true := by
  unfold firstIdx
  have hk' : p a[k] = true := by simpa [Array.getD_eq_getD_getElem?, hk] using hp
  have hex : ∃ x ∈ a, p x = true := ⟨a[k], Array.getElem_mem hk, hk'⟩
  cases hf : a.findIdx? p with
  | none =>
    rw [Array.findIdx?_eq_none_iff] at hf
    have := hf a[k] (Array.getElem_mem hk)
    simp [hk'] at this
  | some i =>
    rw [Array.findIdx?_eq_some_iff_getElem] at hf
    obtain ⟨hi, hpi, _⟩ := hf
    simp only [Option.getD_some]
    exact ⟨hi, by simpa [Array.getD_eq_getD_getElem?, hi] using hpi⟩

/-! ### `rowMin` -/

theorem foldl_minR_le_acc (l : List Rat) (a : Rat) : l.foldl minR a ≤ a := by
  induction l generalizing a with
  | nil => simp
  | cons x l ih =>
    simp only [List.foldl_cons]
    refine le_trans (ih _) ?_
    unfold minR
    split
    · exact le_of_lt ‹x < a›
    · exact le_refl a

theorem foldl_minR_le_mem (l : List Rat) (a : Rat) {x : Rat} (hx : x ∈ l) : l.foldl minR a ≤ x := by
  induction l generalizing a with
  | nil => simp at hx
  | cons y l ih =>
    simp only [List.foldl_cons]
    rcases List.mem_cons.1 hx with rfl | hx
    · refine le_trans (foldl_minR_le_acc l _) ?_
      unfold minR
      split
      · exact le_refl x
      · exact not_lt.1 ‹¬ x < a›
    · exact ih _ hx

theorem foldl_minR_ge (l : List Rat) (a b : Rat) (ha : b ≤ a) (hl : ∀ x ∈ l, b ≤ x) : b ≤ l.foldl minR a := by
  induction l generalizing a with
  | nil => simpa using ha
  | cons y l ih =>
    simp only [List.foldl_cons]
    apply ih
    · unfold minR
      split
      · exact hl y (List.mem_cons_self ..)
      · exact ha
    · exact fun x hx => hl x (List.mem_cons_of_mem _ hx)

/-- `r.min()` is below every element -/
theorem rowMin_le (r : Array Rat) (j : Nat) (hj : j < r.size) : rowMin r ≤ r.getD j 0 := by
  unfold rowMin
  rw [← Array.foldl_toList]
  apply foldl_minR_le_mem
  simp [Array.getD_eq_getD_getElem?, hj]

theorem rowMin_le_mem (r : Array Rat) (x : Rat) (hx : x ∈ r) : rowMin r ≤ x := by
  unfold rowMin
  rw [← Array.foldl_toList]
  exact foldl_minR_le_mem _ _ (by simpa using hx)

/-- `r.min()` of non-negative numbers is non-negative (the empty minimum is 0 in the model) -/
theorem rowMin_nonneg (r : Array Rat) (h : ∀ x ∈ r, 0 ≤ x) : 0 ≤ rowMin r := by
  unfold rowMin
  rw [← Array.foldl_toList]
  apply foldl_minR_ge
  · by_cases h0 : 0 < r.size
    · have : r.getD 0 0 = r[0] := by simp [Array.getD_eq_getD_getElem?, h0]
      rw [this]
      exact h _ (Array.getElem_mem h0)
    · have : r.getD 0 0 = 0 := by simp [Array.getD_eq_getD_getElem?, Array.getElem?_eq_none (Nat.le_of_not_lt h0)]
      rw [this]
  · intro x hx
    exact h x (by simpa using hx)
/-! ### the invariant -/

def Star (M : Mat Nat) (i j : Nat) : Prop := get2 M i j = 1
def Prime (M : Mat Nat) (i j : Nat) : Prop := get2 M i j = 2
/-- row `i` is uncovered -/
def RU (s : State) (i : Nat) : Prop := s.rowUnc.getD i false = true
/-- column `j` is uncovered -/
def CU (s : State) (j : Nat) : Prop := s.colUnc.getD j false = true

/-- every array of the state has the shape of an `n × m` problem -/
structure Shape (n m : Nat) (s : State) : Prop where
  Csz : s.C.size = n
  Crow : ∀ i, i < n → (s.C.getD i #[]).size = m
  Msz : s.marked.size = n
  Mrow : ∀ i, i < n → (s.marked.getD i #[]).size = m
  rsz : s.rowUnc.size = n
  csz : s.colUnc.size = m

/-- `C = cost − u − v`, with the column potentials bounded by `V`, and equal to `V` on every
column that has no star (this is what the rectangular certificate needs: a column that never got
a star was never covered, so it received every `− minval` of step 6). -/
def Pot (n m : Nat) (cost : Nat → Nat → Rat) (C : Mat Rat) (M : Mat Nat) : Prop :=
  ∃ (u v : Nat → Rat) (V : Rat),
    (∀ i, i < n → ∀ j, j < m → get2 C i j = cost i j - u i - v j)
    ∧ (∀ j, j < m → v j ≤ V)
    ∧ (∀ j, j < m → (∀ i, ¬ Star M i j) → v j = V)

/-- the part of the invariant that holds before every step -/
structure Base (n m : Nat) (cost : Nat → Nat → Rat) (s : State) : Prop where
  shape : Shape n m s
  nonneg : ∀ i, i < n → ∀ j, j < m → 0 ≤ get2 s.C i j
  pot : Pot n m cost s.C s.marked
  starZero : ∀ i j, Star s.marked i j → get2 s.C i j = 0
  starRow : ∀ i j j', Star s.marked i j → Star s.marked i j' → j = j'
  starCol : ∀ i i' j, Star s.marked i j → Star s.marked i' j → i = i'

/-- before `_step1`: the freshly built state -/
structure Inv1 (n m : Nat) (cost : Nat → Nat → Rat) (s : State) : Prop where
  shape : Shape n m s
  C_eq : ∀ i, i < n → ∀ j, j < m → get2 s.C i j = cost i j
  unmarked : ∀ i j, get2 s.marked i j = 0
  rowU : ∀ i, i < n → RU s i
  colU : ∀ j, j < m → CU s j

/-- before `_step3`: no primes, nothing covered -/
structure Inv3 (n m : Nat) (cost : Nat → Nat → Rat) (s : State) : Prop where
  base : Base n m cost s
  noPrime : ∀ i j, ¬ Prime s.marked i j
  rowU : ∀ i, i < n → RU s i
  colU : ∀ j, j < m → CU s j

/-- the loop invariant of steps 4 and 6 (also what holds at every pass of the `while` of step 4) -/
structure Loop (n m : Nat) (cost : Nat → Nat → Rat) (s : State) : Prop where
  base : Base n m cost s
  /-- a star's column is covered exactly when its row is not -/
  l1 : ∀ i j, Star s.marked i j → (CU s j ↔ ¬ RU s i)
  /-- a covered row has a star and a prime -/
  l2 : ∀ i, i < n → ¬ RU s i → (∃ j, Star s.marked i j) ∧ (∃ j, Prime s.marked i j)
  /-- a covered column has a star -/
  l3 : ∀ j, j < m → ¬ CU s j → ∃ i, Star s.marked i j
  /-- a prime sits in an uncovered column of a covered row -/
  l4 : ∀ i j, Prime s.marked i j → CU s j ∧ ¬ RU s i
  primeZero : ∀ i j, Prime s.marked i j → get2 s.C i j = 0
  /-- the order in which rows were primed: a star in the column of a prime belongs to a row that was
  primed earlier -/
  rank : ∃ (rk : Nat → Nat) (B : Nat), (∀ i, rk i < B) ∧
    ∀ i j i', Prime s.marked i j → Star s.marked i' j → rk i' < rk i

/-- before `_step5`: `Z0` is a prime in a row without star; following star-in-column /
prime-in-row links strictly decreases the priming order -/
structure Inv5 (n m : Nat) (cost : Nat → Nat → Rat) (s : State) : Prop where
  base : Base n m cost s
  z0 : Prime s.marked s.z0r s.z0c
  z0row : ∀ j, ¬ Star s.marked s.z0r j
  primeZero : ∀ i j, Prime s.marked i j → get2 s.C i j = 0
  rank : ∃ rk : Nat → Nat, ∀ i j i', Prime s.marked i j → Star s.marked i' j →
    (∃ j', Prime s.marked i' j') ∧ rk i' < rk i

/-- what holds just before step `st` runs -/
def InvAt (n m : Nat) (cost : Nat → Nat → Rat) : Step → State → Prop
  | .s1 => Inv1 n m cost
  | .s3 => Inv3 n m cost
  | .s4 => Loop n m cost
  | .s5 => Inv5 n m cost
  | .s6 => Loop n m cost

theorem Star.lt {n m : Nat} {s : State} (hs : Shape n m s) {i j : Nat} (h : Star s.marked i j) :
    i < n ∧ j < m := by
  have := get2_ne_default s.marked i j (by rw [h]; decide)
  refine ⟨hs.Msz ▸ this.1, ?_⟩
  rw [← hs.Mrow i (hs.Msz ▸ this.1)]
  exact this.2

theorem Prime.lt {n m : Nat} {s : State} (hs : Shape n m s) {i j : Nat} (h : Prime s.marked i j) :
    i < n ∧ j < m := by
  have := get2_ne_default s.marked i j (by rw [h]; decide)
  refine ⟨hs.Msz ▸ this.1, ?_⟩
  rw [← hs.Mrow i (hs.Msz ▸ this.1)]
  exact this.2

end QcelVerif.Munkres
