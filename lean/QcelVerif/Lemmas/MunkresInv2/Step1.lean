import QcelVerif.Lemmas.MunkresInv2.Basic
/-!
C14 — Munkres step invariants, part 2: `_step1` establishes the invariant of `_step3`.
-/
namespace QcelVerif.Munkres
open QcelVerif.Assign

theorem step1_next (s : State) : (step1 s).2 = some .s3 := rfl

/-- invariant of the two nested loops of `_step1` over `(marked, row_uncovered, col_uncovered)` -/
structure S1Loop (C : Mat Rat) (n m : Nat) (mk : Mat Nat) (ru cu : Array Bool) : Prop where
  msz : mk.size = n
  mrow : ∀ i, i < n → (mk.getD i #[]).size = m
  rsz : ru.size = n
  csz : cu.size = m
  bin : ∀ i j, get2 mk i j = 0 ∨ get2 mk i j = 1
  star : ∀ i j, get2 mk i j = 1 →
    get2 C i j = 0 ∧ ru.getD i false = false ∧ cu.getD j false = false
  srow : ∀ i j j', get2 mk i j = 1 → get2 mk i j' = 1 → j = j'
  scol : ∀ i i' j, get2 mk i j = 1 → get2 mk i' j = 1 → i = i'

theorem getD_set!_false (a : Array Bool) (i k : Nat) (h : a.getD k false = false) :
    (a.set! i false).getD k false = false := by
  rw [getD_set!]
  split
  · rfl
  · exact h

theorem getD_set!_self_false (a : Array Bool) (i : Nat) :
    (a.set! i false).getD i false = false := by
  rw [getD_set!]
  split
  · rfl
  · rename_i hn
    by_cases hi : i < a.size
    · exact absurd ⟨rfl, hi⟩ hn
    · simp [Array.getD_eq_getD_getElem?, Array.getElem?_eq_none (Nat.le_of_not_lt hi)]

/-- a star of the updated mask is the new one or an old one -/
theorem star_set2 (mk : Mat Nat) (i j i' j' : Nat) (h : get2 (set2 mk i j 1) i' j' = 1) :
    (i = i' ∧ j = j') ∨ get2 mk i' j' = 1 := by
  rw [get2_set2] at h
  split at h
  · rename_i hc
    exact Or.inl ⟨hc.1, hc.2.1⟩
  · exact Or.inr h

/-- starring an uncovered zero and covering its row and column preserves the loop invariant -/
theorem S1Loop.step {C : Mat Rat} {n m : Nat} {mk : Mat Nat} {ru cu : Array Bool}
    (h : S1Loop C n m mk ru cu) (i j : Nat) (hz : get2 C i j = 0)
    (hc : cu.getD j false = true) (hr : ru.getD i false = true) :
    S1Loop C n m (set2 mk i j 1) (ru.set! i false) (cu.set! j false) := by
  have noRow : ∀ j', get2 mk i j' ≠ 1 := by
    intro j' hs
    have := (h.star i j' hs).2.1
    rw [hr] at this
    exact Bool.noConfusion this
  have noCol : ∀ i', get2 mk i' j ≠ 1 := by
    intro i' hs
    have := (h.star i' j hs).2.2
    rw [hc] at this
    exact Bool.noConfusion this
  refine ⟨?_, ?_, ?_, ?_, ?_, ?_, ?_, ?_⟩
  · rw [set2_size]; exact h.msz
  · intro k hk; rw [set2_row_size]; exact h.mrow k hk
  · simp [h.rsz]
  · simp [h.csz]
  · intro i' j'
    rw [get2_set2]
    split
    · exact Or.inr rfl
    · exact h.bin i' j'
  · intro i' j' hs
    rcases star_set2 mk i j i' j' hs with ⟨rfl, rfl⟩ | ho
    · exact ⟨hz, getD_set!_self_false ru i, getD_set!_self_false cu j⟩
    · obtain ⟨h1, h2, h3⟩ := h.star i' j' ho
      exact ⟨h1, getD_set!_false ru i i' h2, getD_set!_false cu j j' h3⟩
  · intro i' j1 j2 h1 h2
    rcases star_set2 mk i j i' j1 h1 with ⟨rfl, rfl⟩ | ho1
    · rcases star_set2 mk i j i j2 h2 with ⟨_, rfl⟩ | ho2
      · rfl
      · exact absurd ho2 (noRow j2)
    · rcases star_set2 mk i j i' j2 h2 with ⟨rfl, rfl⟩ | ho2
      · exact absurd ho1 (noRow j1)
      · exact h.srow i' j1 j2 ho1 ho2
  · intro i1 i2 j' h1 h2
    rcases star_set2 mk i j i1 j' h1 with ⟨rfl, rfl⟩ | ho1
    · rcases star_set2 mk i j i2 j h2 with ⟨rfl, _⟩ | ho2
      · rfl
      · exact absurd ho2 (noCol i2)
    · rcases star_set2 mk i j i2 j' h2 with ⟨rfl, rfl⟩ | ho2
      · exact absurd ho1 (noCol i1)
      · exact h.scol i1 i2 j' ho1 ho2

/-- the row-reduced matrix of `_step1` -/
def redC (s : State) : Mat Rat := s.C.map fun r => r.map (fun x => x - rowMin r)

/-- `_step1` is `clearCovers` of a state whose mask and covers satisfy the loop invariant -/
theorem step1_loops (n m : Nat) (s : State)
    (h0 : S1Loop (redC s) n m s.marked s.rowUnc s.colUnc) :
    ∃ t : Mat Nat × Array Bool × Array Bool,
      (step1 s).1 = clearCovers { s with C := redC s, marked := t.1, rowUnc := t.2.1, colUnc := t.2.2 }
      ∧ S1Loop (redC s) n m t.1 t.2.1 t.2.2 := by
  unfold step1 redC
  simp only [Id.run, bind, pure]
  refine ⟨_, rfl, ?_⟩
  refine forIn_range_inv _ _ _ (fun _ (b : Mat Nat × Array Bool × Array Bool) => S1Loop (redC s) n m b.1 b.2.1 b.2.2) h0 ?_
  intro i b _ hb
  refine ⟨_, rfl, ?_⟩
  refine forIn_range_inv _ _ _ (fun _ (b : Mat Nat × Array Bool × Array Bool) => S1Loop (redC s) n m b.1 b.2.1 b.2.2) hb ?_
  intro j c _ hc
  split
  · rename_i hcond
    refine ⟨_, rfl, ?_⟩
    simp only [Bool.and_eq_true, beq_iff_eq] at hcond
    exact hc.step i j hcond.1.1 hcond.1.2 hcond.2
  · exact ⟨_, rfl, hc⟩

theorem get2_redC {n m : Nat} {s : State} (hs : Shape n m s) (i j : Nat) (hi : i < n) (hj : j < m) :
    get2 (redC s) i j = get2 s.C i j - rowMin (s.C.getD i #[]) := by
  have hi' : i < s.C.size := by rw [hs.Csz]; exact hi
  have hj' : j < (s.C.getD i #[]).size := by rw [hs.Crow i hi]; exact hj
  exact get2_map_rows s.C (fun r x => x - rowMin r) i j hi' hj'

theorem getD_replicate_true (k i : Nat) (h : i < k) :
    (Array.replicate k true).getD i false = true := by
  simp [Array.getD_eq_getD_getElem?, h]

theorem S1Loop.init {n m : Nat} {cost : Nat → Nat → Rat} {s : State} (h : Inv1 n m cost s) :
    S1Loop (redC s) n m s.marked s.rowUnc s.colUnc := by
  have no1 : ∀ i j, get2 s.marked i j ≠ 1 := by
    intro i j hs
    rw [h.unmarked i j] at hs
    exact Nat.noConfusion hs
  exact ⟨h.shape.Msz, h.shape.Mrow, h.shape.rsz, h.shape.csz, fun i j => Or.inl (h.unmarked i j),
    fun i j hs => absurd hs (no1 i j), fun i j _ hs _ => absurd hs (no1 i j),
    fun i _ j hs _ => absurd hs (no1 i j)⟩

theorem step1_inv {n m : Nat} {cost : Nat → Nat → Rat} {s : State} (h : Inv1 n m cost s) :
    Inv3 n m cost (step1 s).1 := by
  obtain ⟨t, ht, hl⟩ := step1_loops n m s (S1Loop.init h)
  rw [ht]
  have hs := h.shape
  refine ⟨⟨⟨?_, ?_, hl.msz, hl.mrow, ?_, ?_⟩, ?_, ?_, ?_, ?_, ?_⟩, ?_, ?_, ?_⟩
  · show (redC s).size = n
    unfold redC
    rw [Array.size_map]
    exact hs.Csz
  · intro i hi
    show ((redC s).getD i #[]).size = m
    unfold redC
    rw [getD_map_size (g := fun r x => x - rowMin r)]
    exact hs.Crow i hi
  · show (Array.replicate t.2.1.size true).size = n
    rw [Array.size_replicate]
    exact hl.rsz
  · show (Array.replicate t.2.2.size true).size = m
    rw [Array.size_replicate]
    exact hl.csz
  · intro i hi j hj
    show 0 ≤ get2 (redC s) i j
    rw [get2_redC hs i j hi hj]
    have hj' : j < (s.C.getD i #[]).size := by rw [hs.Crow i hi]; exact hj
    have := rowMin_le (s.C.getD i #[]) j hj'
    have e : get2 s.C i j = (s.C.getD i #[]).getD j 0 := rfl
    rw [e]
    linarith
  · refine ⟨fun i => rowMin (s.C.getD i #[]), fun _ => 0, 0, ?_, fun _ _ => le_refl _, fun _ _ _ => rfl⟩
    intro i hi j hj
    show get2 (redC s) i j = _
    rw [get2_redC hs i j hi hj, h.C_eq i hi j hj]
    ring
  · intro i j hst
    exact (hl.star i j hst).1
  · intro i j j' h1 h2
    exact hl.srow i j j' h1 h2
  · intro i i' j h1 h2
    exact hl.scol i i' j h1 h2
  · intro i j hp
    have hp' : get2 t.1 i j = 2 := hp
    rcases hl.bin i j with h0 | h1
    · rw [h0] at hp'; exact Nat.noConfusion hp'
    · rw [h1] at hp'; exact absurd hp' (by decide)
  · intro i hi
    show (Array.replicate t.2.1.size true).getD i false = true
    exact getD_replicate_true _ _ (by rw [hl.rsz]; exact hi)
  · intro j hj
    show (Array.replicate t.2.2.size true).getD j false = true
    exact getD_replicate_true _ _ (by rw [hl.csz]; exact hj)

end QcelVerif.Munkres
