import QcelVerif.Lemmas.MunkresInv2.Basic
/-!
C14 — Munkres step invariants, part: `_step5` (augment along the alternating path of primes and
stars that starts at `Z0`).

The path is handled as the list of its cells in *reverse* order (newest first):
`[p_k, s_k, p_{k-1}, …, s_1, p_0]` with `p_a = (r_a, c_a)` primed, `s_a = (r_a, c_{a-1})` starred.
Following the path strictly decreases the priming order `rk` of the rows (invariant `Inv5.rank`),
so no cell repeats and flipping every cell keeps the stars independent.
-/
namespace QcelVerif.Munkres
open QcelVerif.Assign

/-- alternating path, newest cell first -/
inductive Chain (M : Mat Nat) (rk : Nat → Nat) : List (Nat × Nat) → Prop
  | base (p : Nat × Nat) : Prime M p.1 p.2 → (∀ j, ¬ Star M p.1 j) → Chain M rk [p]
  | step (q p : Nat × Nat) (rest : List (Nat × Nat)) : Chain M rk (p :: rest) → Prime M q.1 q.2 →
      Star M q.1 p.2 → rk q.1 < rk p.1 → Chain M rk (q :: (q.1, p.2) :: p :: rest)

section chain
variable {M : Mat Nat} {rk : Nat → Nat}

theorem star_not_prime {i j : Nat} (h : Star M i j) : ¬ Prime M i j := by
  unfold Star at h; unfold Prime; rw [h]; decide

theorem Chain.ne_nil {l : List (Nat × Nat)} (h : Chain M rk l) : l ≠ [] := by
  cases h <;> simp

/-- the newest cell is a prime -/
theorem Chain.head_prime {p : Nat × Nat} {rest : List (Nat × Nat)} (h : Chain M rk (p :: rest)) :
    Prime M p.1 p.2 := by
  cases h with
  | base _ h1 _ => exact h1
  | step _ _ _ _ h1 _ _ => exact h1

/-- every row on the path was primed no earlier than the newest one -/
theorem Chain.rank_ge {p : Nat × Nat} {rest : List (Nat × Nat)} (h : Chain M rk (p :: rest)) :
    ∀ x ∈ p :: rest, rk p.1 ≤ rk x.1 := by
  generalize hl : p :: rest = l at h
  induction h generalizing p rest with
  | base p0 _ _ =>
    injection hl with h1 h2
    subst h1
    intro x hx
    simp at hx
    rw [hx]
  | step q p0 rest0 hc _ _ hlt ih =>
    injection hl with h1 h2
    subst h1
    intro x hx
    rcases List.mem_cons.1 hx with rfl | hx
    · exact Nat.le_refl _
    rcases List.mem_cons.1 hx with rfl | hx
    · exact Nat.le_refl _
    · exact Nat.le_trans (Nat.le_of_lt hlt) (ih rfl x hx)

/-- every cell of the path is a prime or a star -/
theorem Chain.cells {l : List (Nat × Nat)} (h : Chain M rk l) :
    ∀ x ∈ l, Prime M x.1 x.2 ∨ Star M x.1 x.2 := by
  induction h with
  | base p h1 _ =>
    intro x hx
    simp at hx
    rw [hx]
    exact Or.inl h1
  | step q p rest _ h1 h2 _ ih =>
    intro x hx
    rcases List.mem_cons.1 hx with rfl | hx
    · exact Or.inl h1
    rcases List.mem_cons.1 hx with rfl | hx
    · exact Or.inr h2
    · exact ih x hx

/-- the star (if any) in the row of a prime of the path is on the path -/
theorem Chain.row_star {l : List (Nat × Nat)} (h : Chain M rk l) :
    ∀ x ∈ l, Prime M x.1 x.2 → (∀ j, ¬ Star M x.1 j) ∨ ∃ j', Star M x.1 j' ∧ (x.1, j') ∈ l := by
  induction h with
  | base p _ h2 =>
    intro x hx _
    simp at hx
    rw [hx]
    exact Or.inl h2
  | step q p rest _ h1 h2 _ ih =>
    intro x hx hp
    rcases List.mem_cons.1 hx with rfl | hx
    · exact Or.inr ⟨p.2, h2, by simp⟩
    rcases List.mem_cons.1 hx with rfl | hx
    · exact absurd hp (star_not_prime h2)
    · rcases ih x hx hp with h3 | ⟨j', h3, h4⟩
      · exact Or.inl h3
      · exact Or.inr ⟨j', h3, by simp [h4]⟩

/-- the star in the column of a prime of the path, other than the newest, is on the path -/
theorem Chain.col_star {p : Nat × Nat} {rest : List (Nat × Nat)} (h : Chain M rk (p :: rest)) :
    ∀ x ∈ p :: rest, Prime M x.1 x.2 → x = p ∨ ∃ i', Star M i' x.2 ∧ (i', x.2) ∈ p :: rest := by
  generalize hl : p :: rest = l at h
  induction h generalizing p rest with
  | base p0 _ _ =>
    injection hl with h1 h2
    subst h1
    intro x hx _
    simp at hx
    exact Or.inl hx
  | step q p0 rest0 hc h1 h2 _ ih =>
    injection hl with h3 h4
    subst h3
    intro x hx hp
    rcases List.mem_cons.1 hx with rfl | hx
    · exact Or.inl rfl
    rcases List.mem_cons.1 hx with rfl | hx
    · exact absurd hp (star_not_prime h2)
    · right
      rcases ih rfl x hx hp with rfl | ⟨i', h5, h6⟩
      · exact ⟨p.1, h2, by simp⟩
      · exact ⟨i', h5, by simp [h6]⟩

/-- the column of a star of the path holds a prime of the path -/
theorem Chain.col_prime {l : List (Nat × Nat)} (h : Chain M rk l) :
    ∀ x ∈ l, Star M x.1 x.2 → ∃ i', Prime M i' x.2 ∧ (i', x.2) ∈ l := by
  induction h with
  | base p h1 _ =>
    intro x hx hs
    simp at hx
    rw [hx] at hs
    exact absurd h1 (star_not_prime hs)
  | step q p rest hc h1 h2 _ ih =>
    intro x hx hs
    rcases List.mem_cons.1 hx with rfl | hx
    · exact absurd h1 (star_not_prime hs)
    rcases List.mem_cons.1 hx with rfl | hx
    · exact ⟨p.1, hc.head_prime, by simp⟩
    · obtain ⟨i', h3, h4⟩ := ih x hx hs
      exact ⟨i', h3, by simp [h4]⟩

/-- two primes of the path in the same row are the same cell -/
theorem Chain.prime_row_inj {l : List (Nat × Nat)} (h : Chain M rk l) :
    ∀ x ∈ l, ∀ y ∈ l, Prime M x.1 x.2 → Prime M y.1 y.2 → x.1 = y.1 → x = y := by
  induction h with
  | base p _ _ =>
    intro x hx y hy _ _ _
    simp at hx hy
    rw [hx, hy]
  | step q p rest hc h1 h2 hlt ih =>
    have hge := hc.rank_ge
    intro x hx y hy hpx hpy hxy
    rcases List.mem_cons.1 hx with rfl | hx
    · rcases List.mem_cons.1 hy with rfl | hy
      · rfl
      rcases List.mem_cons.1 hy with rfl | hy
      · exact absurd hpy (star_not_prime h2)
      · have := hge y hy
        rw [← hxy] at this
        omega
    rcases List.mem_cons.1 hx with rfl | hx'
    · exact absurd hpx (star_not_prime h2)
    rcases List.mem_cons.1 hy with rfl | hy
    · have := hge x hx'
      rw [hxy] at this
      omega
    rcases List.mem_cons.1 hy with rfl | hy'
    · exact absurd hpy (star_not_prime h2)
    · exact ih x hx' y hy' hpx hpy hxy

/-- no cell repeats -/
theorem Chain.nodup {l : List (Nat × Nat)} (h : Chain M rk l) : l.Nodup := by
  induction h with
  | base p _ _ => simp
  | step q p rest hc h1 h2 hlt ih =>
    have hge := hc.rank_ge
    rw [List.nodup_cons, List.nodup_cons]
    refine ⟨?_, ?_, ih⟩
    · intro hq
      rcases List.mem_cons.1 hq with e | hq
      · rw [e] at h1
        exact star_not_prime h2 h1
      · have := hge q hq
        omega
    · intro hq
      have := hge _ hq
      simp only at this
      omega

/-- two primes of the path in the same column are the same cell (uses the global priming order:
a star in the column of a prime belongs to an earlier-primed row) -/
theorem Chain.prime_col_inj {l : List (Nat × Nat)} (h : Chain M rk l)
    (hrk : ∀ i j i', Prime M i j → Star M i' j → rk i' < rk i) :
    ∀ x ∈ l, ∀ y ∈ l, Prime M x.1 x.2 → Prime M y.1 y.2 → x.2 = y.2 → x = y := by
  induction h with
  | base p _ _ =>
    intro x hx y hy _ _ _
    simp at hx hy
    rw [hx, hy]
  | step q p rest hc h1 h2 hlt ih =>
    have hge := hc.rank_ge
    have hcs := hc.col_star
    -- a prime of the older part cannot share the column of the newest prime `q`
    have key : ∀ y ∈ p :: rest, Prime M y.1 y.2 → q.2 = y.2 → False := by
      intro y hy hpy hqy
      rcases hcs y hy hpy with rfl | ⟨i', h5, h6⟩
      · -- then the star `(q.1, p.2)` is the prime `q`
        rw [← hqy] at h2
        exact star_not_prime h2 h1
      · have h7 := hrk q.1 q.2 i' h1 (hqy ▸ h5)
        have h8 := hge _ h6
        simp only at h8
        omega
    intro x hx y hy hpx hpy hxy
    rcases List.mem_cons.1 hx with rfl | hx
    · rcases List.mem_cons.1 hy with rfl | hy
      · rfl
      rcases List.mem_cons.1 hy with rfl | hy
      · exact absurd hpy (star_not_prime h2)
      · exact (key y hy hpy hxy).elim
    rcases List.mem_cons.1 hx with rfl | hx'
    · exact absurd hpx (star_not_prime h2)
    rcases List.mem_cons.1 hy with rfl | hy
    · exact (key x hx' hpx hxy.symm).elim
    rcases List.mem_cons.1 hy with rfl | hy'
    · exact absurd hpy (star_not_prime h2)
    · exact ih x hx' y hy' hpx hpy hxy

end chain

/-! ### flipping the cells of the path -/

/-- lines 272-276: a star becomes plain, anything else becomes a star -/
def flipCell (M : Mat Nat) (c : Nat × Nat) : Mat Nat :=
  if get2 M c.1 c.2 == 1 then set2 M c.1 c.2 0 else set2 M c.1 c.2 1

/-- flip the cells of a (reversed) path, oldest first -/
def flips (M : Mat Nat) (l : List (Nat × Nat)) : Mat Nat := l.foldr (fun c M => flipCell M c) M

theorem flipCell_size (M : Mat Nat) (c : Nat × Nat) : (flipCell M c).size = M.size := by
  unfold flipCell; split <;> exact set2_size ..

theorem flipCell_row_size (M : Mat Nat) (c : Nat × Nat) (k : Nat) :
    ((flipCell M c).getD k #[]).size = (M.getD k #[]).size := by
  unfold flipCell; split <;> exact set2_row_size ..

theorem flips_size (M : Mat Nat) (l : List (Nat × Nat)) : (flips M l).size = M.size := by
  induction l with
  | nil => rfl
  | cons c l ih => simp only [flips, List.foldr_cons] at ih ⊢; rw [flipCell_size]; exact ih

theorem flips_row_size (M : Mat Nat) (l : List (Nat × Nat)) (k : Nat) :
    ((flips M l).getD k #[]).size = (M.getD k #[]).size := by
  induction l with
  | nil => rfl
  | cons c l ih => simp only [flips, List.foldr_cons] at ih ⊢; rw [flipCell_row_size]; exact ih

theorem get2_flipCell (M : Mat Nat) (c : Nat × Nat) (i j : Nat)
    (hc : c.1 < M.size ∧ c.2 < (M.getD c.1 #[]).size) :
    get2 (flipCell M c) i j =
      if c = (i, j) then (if get2 M i j = 1 then 0 else 1) else get2 M i j := by
  unfold flipCell
  by_cases h1 : get2 M c.1 c.2 = 1
  · rw [if_pos (by simpa using h1), get2_set2]
    by_cases hc' : c = (i, j)
    · subst hc'
      rw [if_pos ⟨rfl, rfl, hc.1, hc.2⟩, if_pos rfl, if_pos h1]
    · rw [if_neg (fun hh => hc' (Prod.ext hh.1 hh.2.1)), if_neg hc']
  · rw [if_neg (by simpa using h1), get2_set2]
    by_cases hc' : c = (i, j)
    · subst hc'
      rw [if_pos ⟨rfl, rfl, hc.1, hc.2⟩, if_pos rfl, if_neg h1]
    · rw [if_neg (fun hh => hc' (Prod.ext hh.1 hh.2.1)), if_neg hc']

/-- closed form of the marks after flipping a duplicate-free list of cells -/
theorem get2_flips (M : Mat Nat) (l : List (Nat × Nat)) (hnd : l.Nodup)
    (hin : ∀ c ∈ l, c.1 < M.size ∧ c.2 < (M.getD c.1 #[]).size) (i j : Nat) :
    get2 (flips M l) i j = if (i, j) ∈ l then (if get2 M i j = 1 then 0 else 1) else get2 M i j := by
  induction l with
  | nil => simp [flips]
  | cons c l ih =>
    have hnd' := List.nodup_cons.1 hnd
    have ih' := ih hnd'.2 (fun c hc => hin c (List.mem_cons_of_mem _ hc))
    have hc := hin c (List.mem_cons_self ..)
    have hc' : c.1 < (flips M l).size ∧ c.2 < ((flips M l).getD c.1 #[]).size := by
      rw [flips_size, flips_row_size]; exact hc
    show get2 (flipCell (flips M l) c) i j = _
    rw [get2_flipCell _ c i j hc', ih']
    by_cases hcij : c = (i, j)
    · subst hcij
      rw [if_pos rfl, if_neg hnd'.1, if_pos (List.mem_cons_self ..)]
    · rw [if_neg hcij]
      by_cases hm : (i, j) ∈ l
      · rw [if_pos hm, if_pos (List.mem_cons_of_mem _ hm)]
      · rw [if_neg hm, if_neg (fun hh => (List.mem_cons.1 hh).elim (fun e => hcij e.symm) hm)]

/-- line 280: `marked[marked == 2] = 0` -/
def erasePrimes (M : Mat Nat) : Mat Nat := M.map fun r => r.map fun x => if x == 2 then 0 else x

theorem get2_erasePrimes (M : Mat Nat) (i j : Nat) :
    get2 (erasePrimes M) i j = if get2 M i j = 2 then 0 else get2 M i j := by
  unfold erasePrimes get2
  by_cases hi : i < M.size
  · by_cases hj : j < M[i].size
    · simp [Array.getD_eq_getD_getElem?, hi, hj]
    · simp [Array.getD_eq_getD_getElem?, hi, hj]
  · simp [Array.getD_eq_getD_getElem?, hi]

theorem erasePrimes_size (M : Mat Nat) : (erasePrimes M).size = M.size := by simp [erasePrimes]

theorem erasePrimes_row_size (M : Mat Nat) (k : Nat) :
    ((erasePrimes M).getD k #[]).size = (M.getD k #[]).size := by
  unfold erasePrimes
  by_cases hk : k < M.size <;> simp [Array.getD_eq_getD_getElem?, hk]

section augment
variable {M : Mat Nat} {rk : Nat → Nat} {p : Nat × Nat} {rest : List (Nat × Nat)}

/-- the marks after step 5 -/
def augment (M : Mat Nat) (l : List (Nat × Nat)) : Mat Nat := erasePrimes (flips M l)

theorem Chain.inM (h : Chain M rk (p :: rest)) :
    ∀ c ∈ p :: rest, c.1 < M.size ∧ c.2 < (M.getD c.1 #[]).size := by
  intro c hc
  rcases h.cells c hc with h1 | h1
  · exact get2_ne_default M c.1 c.2 (by unfold Prime at h1; rw [h1]; decide)
  · exact get2_ne_default M c.1 c.2 (by unfold Star at h1; rw [h1]; decide)

/-- the new stars: the primes of the path, and the old stars off the path -/
theorem augment_star_iff (h : Chain M rk (p :: rest)) (i j : Nat) :
    Star (augment M (p :: rest)) i j ↔
      (((i, j) ∈ p :: rest ∧ Prime M i j) ∨ (Star M i j ∧ (i, j) ∉ p :: rest)) := by
  unfold Star augment
  rw [get2_erasePrimes, get2_flips M _ h.nodup h.inM]
  by_cases hm : (i, j) ∈ p :: rest
  · rw [if_pos hm]
    rcases h.cells _ hm with h1 | h1
    · have h1' : get2 M i j = 2 := h1
      simp [h1', hm, Prime]
    · have h1' : get2 M i j = 1 := h1
      simp [h1', hm, Prime]
  · rw [if_neg hm]
    by_cases h2 : get2 M i j = 2
    · simp [h2, hm]
    · simp [h2, hm]

theorem augment_no_prime (l : List (Nat × Nat)) (i j : Nat) : ¬ Prime (augment M l) i j := by
  unfold Prime augment
  rw [get2_erasePrimes]
  split <;> simp_all

end augment

/-- flipping a complete alternating path (it ends in a column without star) and erasing the primes
re-establishes the invariant of step 3 -/
theorem augment_inv {n m : Nat} {cost : Nat → Nat → Rat} {s s' : State} {rk : Nat → Nat}
    {p : Nat × Nat} {rest : List (Nat × Nat)} (h5 : Inv5 n m cost s)
    (hrk : ∀ i j i', Prime s.marked i j → Star s.marked i' j → rk i' < rk i)
    (hch : Chain s.marked rk (p :: rest)) (hend : ∀ i, ¬ Star s.marked i p.2)
    (hC : s'.C = s.C) (hM : s'.marked = augment s.marked (p :: rest))
    (hru : s'.rowUnc = Array.replicate s.rowUnc.size true)
    (hcu : s'.colUnc = Array.replicate s.colUnc.size true) : Inv3 n m cost s' := by
  have hb := h5.base
  have hs := hb.shape
  have hiff : ∀ i j, Star s'.marked i j ↔
      (((i, j) ∈ p :: rest ∧ Prime s.marked i j) ∨ (Star s.marked i j ∧ (i, j) ∉ p :: rest)) := by
    intro i j; rw [hM]; exact augment_star_iff hch i j
  have hshape : Shape n m s' := by
    refine ⟨by rw [hC]; exact hs.Csz, by rw [hC]; exact hs.Crow, ?_, ?_, by rw [hru]; simp [hs.rsz],
      by rw [hcu]; simp [hs.csz]⟩
    · rw [hM]; unfold augment; rw [erasePrimes_size, flips_size]; exact hs.Msz
    · intro i hi
      rw [hM]; unfold augment; rw [erasePrimes_row_size, flips_row_size]; exact hs.Mrow i hi
  -- a column that had a star still has one
  have hcolkeep : ∀ i j, Star s.marked i j → ∃ i', Star s'.marked i' j := by
    intro i j hst
    by_cases hm : (i, j) ∈ p :: rest
    · obtain ⟨i', h1, h2⟩ := hch.col_prime (i, j) hm hst
      exact ⟨i', (hiff i' j).2 (Or.inl ⟨h2, h1⟩)⟩
    · exact ⟨i, (hiff i j).2 (Or.inr ⟨hst, hm⟩)⟩
  refine ⟨⟨hshape, by rw [hC]; exact hb.nonneg, ?_, ?_, ?_, ?_⟩, ?_, ?_, ?_⟩
  · obtain ⟨u, v, V, h1, h2, h3⟩ := hb.pot
    refine ⟨u, v, V, by rw [hC]; exact h1, h2, fun j hj hno => h3 j hj (fun i hi => ?_)⟩
    obtain ⟨i', hi'⟩ := hcolkeep i j hi
    exact hno i' hi'
  · intro i j hst
    rw [hC]
    rcases (hiff i j).1 hst with ⟨_, h1⟩ | ⟨h1, _⟩
    · exact h5.primeZero i j h1
    · exact hb.starZero i j h1
  · -- one star per row
    intro i j j' h1 h2
    rcases (hiff i j).1 h1 with ⟨a1, a2⟩ | ⟨a1, a2⟩ <;> rcases (hiff i j').1 h2 with ⟨b1, b2⟩ | ⟨b1, b2⟩
    · have := hch.prime_row_inj (i, j) a1 (i, j') b1 a2 b2 rfl
      exact (Prod.ext_iff.1 this).2
    · rcases hch.row_star (i, j) a1 a2 with h3 | ⟨j'', h3, h4⟩
      · exact absurd b1 (h3 j')
      · have : j' = j'' := hb.starRow i j' j'' b1 h3
        exact absurd (this ▸ h4) b2
    · rcases hch.row_star (i, j') b1 b2 with h3 | ⟨j'', h3, h4⟩
      · exact absurd a1 (h3 j)
      · have : j = j'' := hb.starRow i j j'' a1 h3
        exact absurd (this ▸ h4) a2
    · exact hb.starRow i j j' a1 b1
  · -- one star per column
    intro i i' j h1 h2
    rcases (hiff i j).1 h1 with ⟨a1, a2⟩ | ⟨a1, a2⟩ <;> rcases (hiff i' j).1 h2 with ⟨b1, b2⟩ | ⟨b1, b2⟩
    · have := hch.prime_col_inj hrk (i, j) a1 (i', j) b1 a2 b2 rfl
      exact (Prod.ext_iff.1 this).1
    · rcases hch.col_star (i, j) a1 a2 with h3 | ⟨i'', h3, h4⟩
      · have : j = p.2 := (Prod.ext_iff.1 h3).2
        exact absurd (this ▸ b1) (hend i')
      · have : i' = i'' := hb.starCol i' i'' j b1 h3
        exact absurd (this ▸ h4) b2
    · rcases hch.col_star (i', j) b1 b2 with h3 | ⟨i'', h3, h4⟩
      · have : j = p.2 := (Prod.ext_iff.1 h3).2
        exact absurd (this ▸ a1) (hend i)
      · have : i = i'' := hb.starCol i i'' j a1 h3
        exact absurd (this ▸ h4) a2
    · exact hb.starCol i i' j a1 b1
  · intro i j
    rw [hM]
    exact augment_no_prime _ i j
  · intro i hi
    unfold RU
    rw [hru]
    simp [Array.getD_eq_getD_getElem?, hs.rsz, hi]
  · intro j hj
    unfold CU
    rw [hcu]
    simp [Array.getD_eq_getD_getElem?, hs.csz, hj]

/-! ### the path array and the two loops of `_step5` -/

def cellOf (m : Nat) (p : Nat × Int) : Nat × Nat := (p.1, wrapIdx m p.2)
def enc (c : Nat × Nat) : Nat × Int := (c.1, Int.ofNat c.2)

theorem wrapIdx_ofNat (m k : Nat) : wrapIdx m (Int.ofNat k) = k := by
  unfold wrapIdx
  have : ¬ (Int.ofNat k < 0) := by simp
  rw [if_neg this]
  simp

theorem cellOf_enc (m : Nat) (c : Nat × Nat) : cellOf m (enc c) = c := by
  unfold cellOf enc
  rw [wrapIdx_ofNat]

/-- scanning a column for its first star -/
theorem colScan_none (M : Mat Nat) (pc : Nat)
    (h : get2 M (firstIdx (fun x => x == 1) (M.map fun r => r.getD pc 0)) pc ≠ 1) :
    ∀ i, ¬ Star M i pc := by
  intro i hst
  have hlt := get2_ne_default M i pc (by unfold Star at hst; rw [hst]; decide)
  have e : ∀ k, k < M.size → (M.map fun r => r.getD pc 0).getD k 0 = get2 M k pc := by
    intro k hk
    simp [get2, Array.getD_eq_getD_getElem?, hk]
  have := firstIdx_spec (fun x => x == 1) (M.map fun r => r.getD pc 0) 0 i (by simpa using hlt.1)
    (by rw [e i hlt.1]; simpa [Star] using hst)
  rw [e _ (by simpa using this.1)] at this
  exact h (by simpa using this.2)

/-- scanning a row for its first prime -/
theorem rowScan_some (M : Mat Nat) (row j' : Nat) (hp : Prime M row j') :
    get2 M row (firstIdx (fun x => x == 2) (M.getD row #[])) = 2 := by
  have hlt := get2_ne_default M row j' (by unfold Prime at hp; rw [hp]; decide)
  have := firstIdx_spec (fun x => x == 2) (M.getD row #[]) default j' hlt.2
    (by show (_ == 2) = true
        rw [beq_iff_eq]; exact hp)
  have h2 := this.2
  rw [beq_iff_eq] at h2
  exact h2

/-- `path[0..count]`, read as cells, is the reversed list; the last entry is stored with a
non-negative column -/
def PathRel (m count : Nat) (path : Array (Nat × Int)) (p : Nat × Nat) (rest : List (Nat × Nat)) : Prop :=
  (p :: rest).reverse = (List.range (count + 1)).map (fun k => cellOf m (path.getD k (0, 0)))
  ∧ path.getD count (0, 0) = enc p

theorem step5Loop_inv (M : Mat Nat) (m : Nat) (rk : Nat → Nat)
    (hlink : ∀ i j i', Prime M i j → Star M i' j → (∃ j', Prime M i' j') ∧ rk i' < rk i) :
    ∀ (f count : Nat) (path : Array (Nat × Int)) (r : Nat × Array (Nat × Int)),
    step5Loop M m f count path = .ok r → ∀ (p : Nat × Nat) (rest : List (Nat × Nat)),
    Chain M rk (p :: rest) → PathRel m count path p rest →
    ∃ p' rest', Chain M rk (p' :: rest') ∧ PathRel m r.1 r.2 p' rest' ∧ (∀ i, ¬ Star M i p'.2)
  | 0, _, _, _, h => by simp [step5Loop] at h
  | f + 1, count, path, r, h => by
    intro p rest hch ⟨hrev, hlast⟩
    unfold step5Loop at h
    simp only [bind, Except.bind, pathSet, Nat.add_sub_cancel] at h
    rw [hlast] at h
    simp only [enc, wrapIdx_ofNat] at h
    generalize hrow : firstIdx (fun x => x == 1) (M.map fun r => r.getD p.2 0) = row at h
    by_cases hex : (get2 M row p.2 != 1) = true
    · rw [if_pos hex] at h
      simp only [Except.ok.injEq] at h
      subst h
      refine ⟨p, rest, hch, ⟨hrev, hlast⟩, ?_⟩
      apply colScan_none
      rw [hrow]
      simpa using hex
    · rw [if_neg hex] at h
      have hstar : Star M row p.2 := by unfold Star; simpa using hex
      obtain ⟨⟨j', hj'⟩, hlt⟩ := hlink p.1 p.2 row hch.head_prime hstar
      by_cases hs1 : count + 1 < path.size
      · rw [if_pos hs1] at h
        simp only at h
        have e1 : (path.set! (count + 1) (row, Int.ofNat p.2)).getD (count + 1) (0, 0) = (row, Int.ofNat p.2) := by
          rw [getD_set!, if_pos ⟨rfl, hs1⟩]
        rw [e1] at h
        simp only at h
        have hcol := rowScan_some M row j' hj'
        generalize hcoleq : firstIdx (fun x => x == 2) (M.getD row #[]) = col at h hcol
        have hne : ¬ ((get2 M row col != 2) = true) := by simp [hcol]
        rw [if_neg hne] at h
        by_cases hs2 : count + 1 + 1 < (path.set! (count + 1) (row, Int.ofNat p.2)).size
        · rw [if_pos hs2] at h
          simp only at h
          refine step5Loop_inv M m rk hlink f _ _ r h (row, col) ((row, p.2) :: p :: rest) ?_ ?_
          · exact Chain.step (row, col) p rest hch hcol hstar hlt
          · have hsz : (path.set! (count + 1) (row, Int.ofNat p.2)).size = path.size := by simp
            rw [hsz] at hs2
            constructor
            · rw [List.range_succ, List.range_succ, List.map_append, List.map_append]
              simp only [List.map_cons, List.map_nil]
              have e2 : (List.range (count + 1)).map (fun k => cellOf m
                  (((path.set! (count + 1) (row, Int.ofNat p.2)).set! (count + 1 + 1) (row, Int.ofNat col)).getD k (0, 0)))
                  = (List.range (count + 1)).map (fun k => cellOf m (path.getD k (0, 0))) := by
                apply List.map_congr_left
                intro k hk
                have hk' : k < count + 1 := List.mem_range.1 hk
                rw [getD_set!, if_neg (fun hh => by omega), getD_set!, if_neg (fun hh => by omega)]
              rw [e2, ← hrev]
              have e3 : ((path.set! (count + 1) (row, Int.ofNat p.2)).set! (count + 1 + 1) (row, Int.ofNat col)).getD
                  (count + 1) (0, 0) = enc (row, p.2) := by
                rw [getD_set!, if_neg (fun hh => by omega), getD_set!, if_pos ⟨rfl, hs1⟩]
                rfl
              have e4 : ((path.set! (count + 1) (row, Int.ofNat p.2)).set! (count + 1 + 1) (row, Int.ofNat col)).getD
                  (count + 1 + 1) (0, 0) = enc (row, col) := by
                rw [getD_set!, if_pos ⟨rfl, by rw [hsz]; exact hs2⟩]
                rfl
              rw [e3, e4, cellOf_enc, cellOf_enc]
              simp
            · rw [getD_set!, if_pos ⟨rfl, by rw [hsz]; exact hs2⟩]
              rfl
        · rw [if_neg hs2] at h
          simp at h
      · rw [if_neg hs1] at h
        simp at h

/-- the loop of lines 272-276 flips the cells of the path, oldest first -/
theorem flipLoop_eq (M : Mat Nat) (m count : Nat) (path : Array (Nat × Int)) (p : Nat × Nat)
    (rest : List (Nat × Nat)) (hrel : PathRel m count path p rest) :
    (forIn (m := Id) [:count + 1] M fun i mk =>
      if (get2 mk (path.getD i (0, 0)).1 (wrapIdx m (path.getD i (0, 0)).2) == 1) = true then
        ForInStep.yield (set2 mk (path.getD i (0, 0)).1 (wrapIdx m (path.getD i (0, 0)).2) 0)
      else ForInStep.yield (set2 mk (path.getD i (0, 0)).1 (wrapIdx m (path.getD i (0, 0)).2) 1))
    = flips M (p :: rest) := by
  have e : (fun (i : Nat) (mk : Mat Nat) =>
      if (get2 mk (path.getD i (0, 0)).1 (wrapIdx m (path.getD i (0, 0)).2) == 1) = true then
        (ForInStep.yield (set2 mk (path.getD i (0, 0)).1 (wrapIdx m (path.getD i (0, 0)).2) 0) : Id _)
      else ForInStep.yield (set2 mk (path.getD i (0, 0)).1 (wrapIdx m (path.getD i (0, 0)).2) 1))
      = fun i mk => ForInStep.yield (flipCell mk (cellOf m (path.getD i (0, 0)))) := by
    funext i mk
    unfold flipCell cellOf
    simp only
    by_cases hc : (get2 mk (path.getD i (0, 0)).1 (wrapIdx m (path.getD i (0, 0)).2) == 1) = true
    · rw [if_pos hc, if_pos hc]
    · rw [if_neg hc, if_neg hc]
  rw [e, forIn_range_yield]
  have e2 : (List.range (count + 1)).foldl (fun b i => flipCell b (cellOf m (path.getD i (0, 0)))) M
      = ((List.range (count + 1)).map (fun k => cellOf m (path.getD k (0, 0)))).foldl (fun b c => flipCell b c) M := by
    rw [List.foldl_map]
  rw [e2, ← hrel.1, List.foldl_reverse]
  rfl

/-- `_step5` re-establishes the invariant of step 3 -/
theorem step5_inv {n m : Nat} {cost : Nat → Nat → Rat} {s s' : State} {nx : Option Step}
    (h : step5 s = .ok (s', nx)) (h5 : Inv5 n m cost s) : nx = some .s3 ∧ Inv3 n m cost s' := by
  obtain ⟨rk, hlink⟩ := h5.rank
  unfold step5 at h
  simp only [bind, Except.bind, pure, Except.pure, pathSet, Id.run] at h
  by_cases h0 : 0 < s.path.size
  · rw [if_pos h0] at h
    simp only at h
    generalize hres : step5Loop s.marked s.colUnc.size (s.rowUnc.size + s.colUnc.size + 1) 0
      (s.path.set! 0 (s.z0r, Int.ofNat s.z0c)) = res at h
    cases res with
    | error e => simp at h
    | ok v =>
      simp only [Except.ok.injEq, Prod.mk.injEq] at h
      obtain ⟨hs', hnx⟩ := h
      refine ⟨hnx.symm, ?_⟩
      have hrel0 : PathRel s.colUnc.size 0 (s.path.set! 0 (s.z0r, Int.ofNat s.z0c)) (s.z0r, s.z0c) [] := by
        have e0 : (s.path.set! 0 (s.z0r, Int.ofNat s.z0c)).getD 0 (0, 0) = enc (s.z0r, s.z0c) := by
          rw [getD_set!, if_pos ⟨rfl, h0⟩]; rfl
        refine ⟨?_, e0⟩
        simp only [List.range_succ, List.range_zero, List.nil_append, List.map_cons, List.map_nil, e0, cellOf_enc]
        rfl
      obtain ⟨p', rest', hch, hrel, hend⟩ := step5Loop_inv s.marked s.colUnc.size rk hlink _ _ _ _ hres
        (s.z0r, s.z0c) [] (Chain.base _ h5.z0 h5.z0row) hrel0
      rw [flipLoop_eq s.marked s.colUnc.size v.1 v.2 p' rest' hrel] at hs'
      refine augment_inv h5 (fun i j i' h1 h2 => (hlink i j i' h1 h2).2) hch hend ?_ ?_ ?_ ?_
      · rw [← hs']; rfl
      · rw [← hs']; rfl
      · rw [← hs']; rfl
      · rw [← hs']; rfl
  · rw [if_neg h0] at h
    simp at h

end QcelVerif.Munkres
