import QcelVerif.Lemmas.MunkresInv2.Basic
/-!
C14 — Munkres step invariants: `_step6` preserves the loop invariant and hands over to step 4;
`_step3` turns `Inv3` into the loop invariant, and when it stops every row has a star.
-/
namespace QcelVerif.Munkres
open QcelVerif.Assign

/-! ### step 6 -/

def vals6 (s : State) : Array Rat := Id.run do
  let mut acc : Array Rat := #[]
  for i in [0:s.C.size] do
    if s.rowUnc.getD i false then
      let r := s.C.getD i #[]
      for j in [0:r.size] do
        if s.colUnc.getD j false then acc := acc.push (r.getD j 0)
  return acc

def C6 (s : State) (mv : Rat) : Mat Rat :=
  s.C.mapIdx fun i r => r.mapIdx fun j x =>
      let x1 := if s.rowUnc.getD i false then x else x + mv
      if s.colUnc.getD j false then x1 - mv else x1

theorem step6_eq (s : State) : step6 s =
    if s.rowUnc.any id && s.colUnc.any id then ({ s with C := C6 s (rowMin (vals6 s)) }, some .s4)
    else (s, some .s4) := rfl

theorem get2_rat (M : Mat Rat) (i j : Nat) : get2 M i j = (M.getD i #[]).getD j 0 := rfl

theorem vals6_inner (s : State) (r : Array Rat) (n : Nat) (acc : Array Rat) (x : Rat) :
    @Membership.mem Rat (Array Rat) _ (forIn (m := Id) [:n] acc fun j b =>
        if s.colUnc.getD j false = true then ForInStep.yield (b.push (r.getD j 0))
        else ForInStep.yield b) x ↔
      x ∈ acc ∨ ∃ j, j < n ∧ CU s j ∧ x = r.getD j 0 := by
  refine forIn_range_inv n acc _ (fun k b => x ∈ b ↔ x ∈ acc ∨ ∃ j, j < k ∧ CU s j ∧ x = r.getD j 0)
    (by simp) ?_
  intro k b hk hP
  split
  · rename_i hc
    refine ⟨_, rfl, ?_⟩
    simp only [Array.mem_push, hP]
    constructor
    · rintro ((h | ⟨j, hj, h1, h2⟩) | h)
      · exact Or.inl h
      · exact Or.inr ⟨j, by omega, h1, h2⟩
      · exact Or.inr ⟨k, by omega, hc, h⟩
    · rintro (h | ⟨j, hj, h1, h2⟩)
      · exact Or.inl (Or.inl h)
      · by_cases hjk : j = k
        · subst hjk; exact Or.inr h2
        · exact Or.inl (Or.inr ⟨j, by omega, h1, h2⟩)
  · rename_i hc
    refine ⟨_, rfl, ?_⟩
    rw [hP]
    constructor
    · rintro (h | ⟨j, hj, h1, h2⟩)
      · exact Or.inl h
      · exact Or.inr ⟨j, by omega, h1, h2⟩
    · rintro (h | ⟨j, hj, h1, h2⟩)
      · exact Or.inl h
      · by_cases hjk : j = k
        · subst hjk; exact absurd h1 hc
        · exact Or.inr ⟨j, by omega, h1, h2⟩

theorem vals6_mem (s : State) (x : Rat) :
    x ∈ vals6 s ↔ ∃ i j, i < s.C.size ∧ RU s i ∧ j < (s.C.getD i #[]).size ∧ CU s j ∧ x = get2 s.C i j := by
  unfold vals6
  simp only [Id.run, bind, pure]
  refine forIn_range_inv s.C.size #[] _
    (fun k b => x ∈ b ↔ ∃ i j, i < k ∧ RU s i ∧ j < (s.C.getD i #[]).size ∧ CU s j ∧ x = get2 s.C i j)
    (by simp) ?_
  intro k b hk hP
  by_cases hr : s.rowUnc.getD k false = true
  · rw [if_pos hr]
    refine ⟨_, rfl, ?_⟩
    rw [vals6_inner, hP]
    constructor
    · rintro (⟨i, j, hi, h⟩ | ⟨j, hj, h1, h2⟩)
      · exact ⟨i, j, by omega, h⟩
      · exact ⟨k, j, by omega, hr, hj, h1, h2⟩
    · rintro ⟨i, j, hi, h1, h2, h3, h4⟩
      by_cases hik : i = k
      · subst hik; exact Or.inr ⟨j, h2, h3, h4⟩
      · exact Or.inl ⟨i, j, by omega, h1, h2, h3, h4⟩
  · rw [if_neg hr]
    refine ⟨_, rfl, ?_⟩
    rw [hP]
    constructor
    · rintro ⟨i, j, hi, h⟩
      exact ⟨i, j, by omega, h⟩
    · rintro ⟨i, j, hi, h1, h2, h3, h4⟩
      by_cases hik : i = k
      · subst hik; exact absurd h1 hr
      · exact ⟨i, j, by omega, h1, h2, h3, h4⟩

theorem get2_C6 (s : State) (mv : Rat) (i j : Nat) (hi : i < s.C.size) (hj : j < (s.C.getD i #[]).size) :
    get2 (C6 s mv) i j = get2 s.C i j + (if s.rowUnc.getD i false = true then 0 else mv)
      - (if s.colUnc.getD j false = true then mv else 0) := by
  unfold C6
  rw [get2_mapIdx s.C _ i j hi hj]
  by_cases hr : s.rowUnc.getD i false = true <;> by_cases hc : s.colUnc.getD j false = true <;>
    simp [hr, hc]

theorem step6_inv_aux {n m : Nat} {cost : Nat → Nat → Rat} {s : State} (h : Loop n m cost s)
    (mv : Rat) (h0 : 0 ≤ mv)
    (hle : ∀ i j, i < n → j < m → RU s i → CU s j → mv ≤ get2 s.C i j) :
    Loop n m cost { s with C := C6 s mv } := by
  have hsh := h.base.shape
  have hC : ∀ i j, i < n → j < m → get2 (C6 s mv) i j =
      get2 s.C i j + (if s.rowUnc.getD i false = true then 0 else mv)
        - (if s.colUnc.getD j false = true then mv else 0) := by
    intro i j hi hj
    exact get2_C6 s mv i j (hsh.Csz ▸ hi) (by rw [hsh.Crow i hi]; exact hj)
  refine { base := { shape := ?_, nonneg := ?_, pot := ?_, starZero := ?_,
                     starRow := h.base.starRow, starCol := h.base.starCol },
           l1 := h.l1, l2 := h.l2, l3 := h.l3, l4 := h.l4, primeZero := ?_, rank := h.rank }
  · refine ⟨?_, ?_, hsh.Msz, hsh.Mrow, hsh.rsz, hsh.csz⟩
    · show (C6 s mv).size = n
      simp [C6, hsh.Csz]
    · intro i hi
      show ((C6 s mv).getD i #[]).size = m
      unfold C6
      rw [getD_mapIdx_size]
      exact hsh.Crow i hi
  · intro i hi j hj
    show 0 ≤ get2 (C6 s mv) i j
    rw [hC i j hi hj]
    have hnn := h.base.nonneg i hi j hj
    by_cases hr : s.rowUnc.getD i false = true <;> by_cases hc : s.colUnc.getD j false = true
    · have := hle i j hi hj hr hc
      rw [if_pos hr, if_pos hc]
      linarith
    · rw [if_pos hr, if_neg hc]
      linarith
    · rw [if_neg hr, if_pos hc]
      linarith
    · rw [if_neg hr, if_neg hc]
      linarith
  · obtain ⟨u, v, V, h1, h2, h3⟩ := h.base.pot
    refine ⟨fun i => u i - (if s.rowUnc.getD i false = true then 0 else mv),
      fun j => v j + (if s.colUnc.getD j false = true then mv else 0), V + mv, ?_, ?_, ?_⟩
    · intro i hi j hj
      show get2 (C6 s mv) i j = _
      rw [hC i j hi hj, h1 i hi j hj]
      ring
    · intro j hj
      have := h2 j hj
      by_cases hc : s.colUnc.getD j false = true
      · simp only [if_pos hc]; linarith
      · simp only [if_neg hc]; linarith
    · intro j hj hns
      have hc : s.colUnc.getD j false = true := by
        by_contra hc
        obtain ⟨i, hi⟩ := h.l3 j hj hc
        exact hns i hi
      simp only [if_pos hc]
      rw [h3 j hj hns]
  · intro i j hst
    obtain ⟨hi, hj⟩ := Star.lt hsh hst
    show get2 (C6 s mv) i j = 0
    rw [hC i j hi hj, h.base.starZero i j hst]
    have hl := h.l1 i j hst
    by_cases hr : s.rowUnc.getD i false = true
    · have hc : ¬ s.colUnc.getD j false = true := fun hc => (hl.1 hc) hr
      rw [if_pos hr, if_neg hc]; ring
    · have hc : s.colUnc.getD j false = true := hl.2 hr
      rw [if_neg hr, if_pos hc]; ring
  · intro i j hp
    obtain ⟨hi, hj⟩ := Prime.lt hsh hp
    show get2 (C6 s mv) i j = 0
    obtain ⟨hc, hr⟩ := h.l4 i j hp
    have hc : s.colUnc.getD j false = true := hc
    have hr : ¬ s.rowUnc.getD i false = true := hr
    rw [hC i j hi hj, h.primeZero i j hp]
    rw [if_neg hr, if_pos hc]; ring

theorem step6_next (s : State) : (step6 s).2 = some .s4 := by
  rw [step6_eq]; split <;> rfl

theorem step6_inv {n m : Nat} {cost : Nat → Nat → Rat} {s : State} (h : Loop n m cost s) :
    Loop n m cost (step6 s).1 := by
  rw [step6_eq]
  split
  · have hsh := h.base.shape
    apply step6_inv_aux h
    · apply rowMin_nonneg
      intro x hx
      obtain ⟨i, j, hi, _, hj, _, rfl⟩ := (vals6_mem s x).1 hx
      have hi' : i < n := hsh.Csz ▸ hi
      exact h.base.nonneg i hi' j (by rw [← hsh.Crow i hi']; exact hj)
    · intro i j hi hj hr hc
      apply rowMin_le_mem
      exact (vals6_mem s _).2 ⟨i, j, hsh.Csz ▸ hi, hr, by rw [hsh.Crow i hi]; exact hj, hc, rfl⟩
  · exact h

/-! ### step 3 -/

theorem step3_state (s : State) :
    (step3 s).1.marked = s.marked ∧ (step3 s).1.C = s.C ∧ (step3 s).1.rowUnc = s.rowUnc :=
  ⟨rfl, rfl, rfl⟩

theorem step3_next (s : State) : (step3 s).2 = some .s4 ∨ (step3 s).2 = none := by
  unfold step3
  simp only
  split
  · exact Or.inl rfl
  · exact Or.inr rfl

theorem star_iff (M : Mat Nat) (i j : Nat) :
    Star M i j ↔ ∃ h : i < M.size, M[i].getD j 0 = 1 := by
  unfold Star get2
  by_cases hi : i < M.size
  · simp [Array.getD, hi]
  · simp [Array.getD, hi]

theorem any_star (M : Mat Nat) (j : Nat) :
    M.any (fun r => r.getD j 0 == 1) = true ↔ ∃ i, Star M i j := by
  rw [Array.any_eq_true]
  constructor
  · rintro ⟨i, hi, h⟩
    exact ⟨i, (star_iff M i j).2 ⟨hi, by simpa using h⟩⟩
  · rintro ⟨i, h⟩
    obtain ⟨hi, h⟩ := (star_iff M i j).1 h
    exact ⟨i, hi, by simpa using h⟩

theorem step3_CU (s : State) (j : Nat) :
    CU (step3 s).1 j ↔ CU s j ∧ ¬ ∃ i, Star s.marked i j := by
  unfold CU
  show (s.colUnc.mapIdx fun j b => if s.marked.any (fun r => r.getD j 0 == 1) then false else b).getD j false = true ↔ _
  rw [← any_star]
  by_cases hj : j < s.colUnc.size
  · simp [Array.getD, hj]
    tauto
  · simp [Array.getD, hj]


theorem step3_inv {n m : Nat} {cost : Nat → Nat → Rat} {s : State} (h : Inv3 n m cost s) :
    Loop n m cost (step3 s).1 := by
  have hb := h.base
  have hsh := hb.shape
  have hRU : ∀ i, RU (step3 s).1 i ↔ RU s i := fun i => Iff.rfl
  refine { base := { shape := ⟨hsh.Csz, hsh.Crow, hsh.Msz, hsh.Mrow, hsh.rsz, ?_⟩, nonneg := hb.nonneg,
                     pot := hb.pot, starZero := hb.starZero, starRow := hb.starRow, starCol := hb.starCol },
           l1 := ?_, l2 := ?_, l3 := ?_, l4 := ?_, primeZero := ?_, rank := ?_ }
  · show (s.colUnc.mapIdx _).size = m
    rw [Array.size_mapIdx]
    exact hsh.csz
  · intro i j hst
    have hst' : Star s.marked i j := hst
    obtain ⟨hi, hj⟩ := Star.lt hsh hst'
    rw [step3_CU, hRU]
    constructor
    · rintro ⟨_, hn⟩
      exact absurd ⟨i, hst'⟩ hn
    · intro hn
      exact absurd (h.rowU i hi) hn
  · intro i hi hn
    exact absurd (h.rowU i hi) hn
  · intro j hj hn
    rw [step3_CU] at hn
    by_contra hne
    exact hn ⟨h.colU j hj, hne⟩
  · intro i j hp
    exact absurd hp (h.noPrime i j)
  · intro i j hp
    exact absurd hp (h.noPrime i j)
  · exact ⟨fun _ => 0, 1, fun _ => Nat.zero_lt_one, fun i j i' hp _ => absurd hp (h.noPrime i j)⟩


theorem foldl_add_le {α : Type} (f : α → Nat) (l : List α) (h1 : ∀ r ∈ l, f r ≤ 1) (a : Nat) :
    l.foldl (fun a r => a + f r) a ≤ a + l.length := by
  induction l generalizing a with
  | nil => simp
  | cons x l ih =>
    simp only [List.foldl_cons, List.length_cons]
    have := ih (fun r hr => h1 r (List.mem_cons_of_mem _ hr)) (a + f x)
    have := h1 x (List.mem_cons_self ..)
    omega

theorem foldl_add_full {α : Type} (f : α → Nat) (l : List α) (h1 : ∀ r ∈ l, f r ≤ 1) (a : Nat)
    (h : a + l.length ≤ l.foldl (fun a r => a + f r) a) : ∀ r ∈ l, 1 ≤ f r := by
  induction l generalizing a with
  | nil => simp
  | cons x l ih =>
    simp only [List.foldl_cons, List.length_cons] at h
    have h1' : ∀ r ∈ l, f r ≤ 1 := fun r hr => h1 r (List.mem_cons_of_mem _ hr)
    have hb := foldl_add_le f l h1' (a + f x)
    have hx := h1 x (List.mem_cons_self ..)
    intro r hr
    rcases List.mem_cons.1 hr with rfl | hr
    · omega
    · exact ih h1' (a + f x) (by omega) r hr

theorem list_countP_le_one (l : List Nat)
    (h : ∀ j j' : Nat, l[j]? = some 1 → l[j']? = some 1 → j = j') : l.countP (· == 1) ≤ 1 := by
  induction l with
  | nil => simp
  | cons x l ih =>
    rw [List.countP_cons]
    by_cases hx : x = 1
    · subst hx
      have : l.countP (· == 1) = 0 := by
        rw [List.countP_eq_zero]
        intro a ha
        obtain ⟨j, hj, rfl⟩ := List.mem_iff_getElem.1 ha
        intro h1
        have h1 : l[j] = 1 := by simpa using h1
        have := h 0 (j + 1) (by simp) (by simp [hj, h1])
        omega
      simp [this]
    · have := ih (fun j j' h1 h2 => by
        have := h (j + 1) (j' + 1) (by simpa using h1) (by simpa using h2)
        omega)
      simp [hx]
      exact this

theorem step3_done {n m : Nat} {cost : Nat → Nat → Rat} {s : State} (h : Inv3 n m cost s)
    (hd : (step3 s).2 = none) : ∀ i, i < n → ∃ j, Star s.marked i j := by
  have hb := h.base
  have hsh := hb.shape
  have hge : s.marked.toList.length ≤ s.marked.toList.foldl (fun a r => a + r.countP (· == 1)) 0 := by
    rw [Array.foldl_toList]
    unfold step3 at hd
    simp only at hd
    split at hd
    · exact absurd hd (by simp)
    · rename_i hlt
      have hn : s.C.size = s.marked.size := by rw [hsh.Csz, hsh.Msz]
      have := Nat.le_of_not_lt hlt
      rw [Array.length_toList]
      omega
  have hle1 : ∀ r ∈ s.marked.toList, r.countP (· == 1) ≤ 1 := by
    intro r hr
    obtain ⟨i, hi, rfl⟩ := List.mem_iff_getElem.1 hr
    have hi' : i < s.marked.size := by simpa using hi
    rw [← Array.countP_toList]
    apply list_countP_le_one
    intro j j' h1 h2
    apply hb.starRow i j j'
    · rw [star_iff]
      refine ⟨hi', ?_⟩
      have h1 : s.marked[i][j]? = some 1 := by simpa using h1
      simp [Array.getD_eq_getD_getElem?, h1]
    · rw [star_iff]
      refine ⟨hi', ?_⟩
      have h2 : s.marked[i][j']? = some 1 := by simpa using h2
      simp [Array.getD_eq_getD_getElem?, h2]
  have hall := foldl_add_full (fun r : Array Nat => r.countP (· == 1)) s.marked.toList hle1 0
    (by simpa using hge)
  intro i hi
  have hi' : i < s.marked.size := hsh.Msz ▸ hi
  have := hall s.marked[i] (by simp)
  have hpos : 0 < s.marked[i].countP (· == 1) := this
  rw [Array.countP_pos_iff] at hpos
  obtain ⟨a, ha, hp⟩ := hpos
  obtain ⟨j, hj, rfl⟩ := Array.mem_iff_getElem.1 ha
  refine ⟨j, (star_iff _ _ _).2 ⟨hi', ?_⟩⟩
  simpa [Array.getD_eq_getD_getElem?, hj] using hp


end QcelVerif.Munkres
