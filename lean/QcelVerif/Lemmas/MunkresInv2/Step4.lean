import QcelVerif.Lemmas.MunkresInv2.Basic
/-!
C14 — Munkres step invariants, part: `_step4` (prime an uncovered zero; cover its row and uncover
the column of its star, or hand over to step 5 / step 6).
-/
namespace QcelVerif.Munkres
open QcelVerif.Assign

/-- `np.argmax` returns the value it found together with its position -/
theorem argmaxFlat_spec (M : Mat Nat) :
    (argmaxFlat M).2.2 = get2 M (argmaxFlat M).1 (argmaxFlat M).2.1 := by
  unfold argmaxFlat
  simp only [Id.run, bind, pure]
  refine forIn_range_inv M.size _ _ (fun _ (b : Nat × Nat × Nat) => b.2.2 = get2 M b.1 b.2.1) rfl ?_
  intro i b _ hb
  refine ⟨_, rfl, ?_⟩
  refine forIn_range_inv _ b _ (fun _ (b : Nat × Nat × Nat) => b.2.2 = get2 M b.1 b.2.1) hb ?_
  intro j b _ hb
  by_cases hlt : b.2.2 < (M.getD i #[]).getD j 0
  · rw [if_pos hlt]
    exact ⟨_, rfl, rfl⟩
  · rw [if_neg hlt]
    exact ⟨_, rfl, hb⟩

section prime
variable {n m : Nat} {cost : Nat → Nat → Rat} {s : State} {row col : Nat}

theorem prime_marks (hs : Shape n m s) (hr : row < n) (hc : col < m) (i j : Nat) :
    get2 (set2 s.marked row col 2) i j = if row = i ∧ col = j then 2 else get2 s.marked i j := by
  rw [get2_set2]
  have h1 : row < s.marked.size := hs.Msz ▸ hr
  have h2 : col < (s.marked.getD row #[]).size := by rw [hs.Mrow row hr]; exact hc
  by_cases h : row = i ∧ col = j
  · obtain ⟨rfl, rfl⟩ := h
    rw [if_pos ⟨rfl, rfl, h1, h2⟩, if_pos ⟨rfl, rfl⟩]
  · have : ¬ (row = i ∧ col = j ∧ row < s.marked.size ∧ col < (s.marked.getD row #[]).size) :=
      fun hh => h ⟨hh.1, hh.2.1⟩
    rw [if_neg this, if_neg h]

theorem prime_star_iff (h : Loop n m cost s) (hr : RU s row) (hc : CU s col) (i j : Nat) :
    Star (set2 s.marked row col 2) i j ↔ Star s.marked i j := by
  have hs := h.base.shape
  have hr' : row < n := hs.rsz ▸ getD_true_lt _ _ hr
  have hc' : col < m := hs.csz ▸ getD_true_lt _ _ hc
  unfold Star
  rw [prime_marks hs hr' hc']
  by_cases hij : row = i ∧ col = j
  · rw [if_pos hij]
    obtain ⟨rfl, rfl⟩ := hij
    constructor
    · intro h2; exact absurd h2 (by decide)
    · intro hst
      exact absurd hr ((h.l1 row col hst).1 hc)
  · rw [if_neg hij]

theorem prime_prime_iff (h : Loop n m cost s) (hr : RU s row) (hc : CU s col) (i j : Nat) :
    Prime (set2 s.marked row col 2) i j ↔ (Prime s.marked i j ∨ (i = row ∧ j = col)) := by
  have hs := h.base.shape
  have hr' : row < n := hs.rsz ▸ getD_true_lt _ _ hr
  have hc' : col < m := hs.csz ▸ getD_true_lt _ _ hc
  unfold Prime
  rw [prime_marks hs hr' hc']
  by_cases hij : row = i ∧ col = j
  · rw [if_pos hij]
    obtain ⟨rfl, rfl⟩ := hij
    simp
  · rw [if_neg hij]
    constructor
    · exact Or.inl
    · rintro (h1 | ⟨rfl, rfl⟩)
      · exact h1
      · exact absurd ⟨rfl, rfl⟩ hij

theorem prime_shape (hs : Shape n m s) (s' : State) (hC : s'.C = s.C)
    (hM : s'.marked = set2 s.marked row col 2) (hru : s'.rowUnc.size = s.rowUnc.size)
    (hcu : s'.colUnc.size = s.colUnc.size) : Shape n m s' := by
  refine ⟨by rw [hC]; exact hs.Csz, by rw [hC]; exact hs.Crow, by rw [hM, set2_size]; exact hs.Msz, ?_,
    by rw [hru]; exact hs.rsz, by rw [hcu]; exact hs.csz⟩
  intro i hi
  rw [hM, set2_row_size]
  exact hs.Mrow i hi

theorem prime_base (h : Loop n m cost s) (hr : RU s row) (hc : CU s col) (s' : State) (hC : s'.C = s.C)
    (hM : s'.marked = set2 s.marked row col 2) (hru : s'.rowUnc.size = s.rowUnc.size)
    (hcu : s'.colUnc.size = s.colUnc.size) : Base n m cost s' := by
  have hst : ∀ i j, Star s'.marked i j ↔ Star s.marked i j := by
    intro i j; rw [hM]; exact prime_star_iff h hr hc i j
  refine ⟨prime_shape h.base.shape s' hC hM hru hcu, by rw [hC]; exact h.base.nonneg, ?_, ?_, ?_, ?_⟩
  · obtain ⟨u, v, V, h1, h2, h3⟩ := h.base.pot
    refine ⟨u, v, V, by rw [hC]; exact h1, h2, fun j hj hno => h3 j hj (fun i hi => hno i ((hst i j).2 hi))⟩
  · intro i j hij
    rw [hC]
    exact h.base.starZero i j ((hst i j).1 hij)
  · intro i j j' h1 h2
    exact h.base.starRow i j j' ((hst _ _).1 h1) ((hst _ _).1 h2)
  · intro i i' j h1 h2
    exact h.base.starCol i i' j ((hst _ _).1 h1) ((hst _ _).1 h2)

/-- the primed zero has no star in its row: hand over to step 5 -/
theorem prime_to_s5 (h : Loop n m cost s) (hz : get2 s.C row col = 0) (hr : RU s row) (hc : CU s col)
    (hno : ∀ j, ¬ Star (set2 s.marked row col 2) row j) :
    Inv5 n m cost { s with marked := set2 s.marked row col 2, z0r := row, z0c := col } := by
  have hst := prime_star_iff h hr hc
  have hpr := prime_prime_iff h hr hc
  refine ⟨prime_base h hr hc _ rfl rfl rfl rfl, ?_, hno, ?_, ?_⟩
  · exact (hpr row col).2 (Or.inr ⟨rfl, rfl⟩)
  · intro i j hp
    rcases (hpr i j).1 hp with hp | ⟨rfl, rfl⟩
    · exact h.primeZero i j hp
    · exact hz
  · obtain ⟨rk, B, hB, hrk⟩ := h.rank
    refine ⟨fun i => if i = row then B else rk i, ?_⟩
    intro i j i' hp hs'
    have hs0 : Star s.marked i' j := (hst i' j).1 hs'
    have hi'row : i' ≠ row := fun e => hno j (e ▸ hs')
    -- the column of a prime is uncovered, so the star's row is covered, so it holds a prime
    have hcuj : CU s j := by
      rcases (hpr i j).1 hp with hp | ⟨_, rfl⟩
      · exact (h.l4 i j hp).1
      · exact hc
    have hcov : ¬ RU s i' := (h.l1 i' j hs0).1 hcuj
    have hi'n : i' < n := (Star.lt h.base.shape hs0).1
    obtain ⟨j', hj'⟩ := (h.l2 i' hi'n hcov).2
    refine ⟨⟨j', (hpr i' j').2 (Or.inl hj')⟩, ?_⟩
    simp only [if_neg hi'row]
    rcases (hpr i j).1 hp with hp | ⟨rfl, _⟩
    · have : i ≠ row := fun e => (h.l4 i j hp).2 (e ▸ hr)
      rw [if_neg this]
      exact hrk i j i' hp hs0
    · rw [if_pos rfl]
      exact hB i'

/-- the primed zero has a star in its row at column `sc`: cover the row, uncover `sc`, go on -/
theorem prime_continue (h : Loop n m cost s) (hz : get2 s.C row col = 0) (hr : RU s row) (hc : CU s col)
    (sc : Nat) (hsc : Star (set2 s.marked row col 2) row sc) (s' : State) (hC : s'.C = s.C)
    (hM : s'.marked = set2 s.marked row col 2) (hru : s'.rowUnc = s.rowUnc.set! row false)
    (hcu : s'.colUnc = s.colUnc.set! sc true) : Loop n m cost s' := by
  have hst := prime_star_iff h hr hc
  have hpr := prime_prime_iff h hr hc
  have hs := h.base.shape
  have hsc0 : Star s.marked row sc := (hst row sc).1 hsc
  have hr' : row < n := hs.rsz ▸ getD_true_lt _ _ hr
  have hscm : sc < m := (Star.lt hs hsc0).2
  have hRU : ∀ i, RU s' i ↔ (RU s i ∧ i ≠ row) := by
    intro i
    unfold RU
    rw [hru]
    simp only [getD_set!]
    by_cases hi : row = i
    · subst hi
      simp [hs.rsz, hr']
    · rw [if_neg (fun hh => hi hh.1)]
      constructor
      · exact fun hh => ⟨hh, fun e => hi e.symm⟩
      · exact fun hh => hh.1
  have hCU : ∀ j, CU s' j ↔ (CU s j ∨ j = sc) := by
    intro j
    unfold CU
    rw [hcu]
    simp only [getD_set!]
    by_cases hj : sc = j
    · subst hj
      simp [hs.csz, hscm]
    · rw [if_neg (fun hh => hj hh.1)]
      constructor
      · exact Or.inl
      · rintro (hh | rfl)
        · exact hh
        · exact absurd rfl hj
  rw [← hM] at hst hpr hsc
  rw [← hC] at hz
  refine ⟨prime_base h hr hc s' hC hM (by rw [hru]; simp) (by rw [hcu]; simp), ?_, ?_, ?_, ?_, ?_, ?_⟩
  · -- l1
    intro i j hij
    have hij0 := (hst i j).1 hij
    rw [hCU, hRU]
    by_cases hi : i = row
    · subst hi
      have : j = sc := h.base.starRow _ _ _ hij0 hsc0
      subst this
      constructor
      · intro _ hh; exact hh.2 rfl
      · intro _; exact Or.inr rfl
    · have hj : j ≠ sc := fun e => hi (h.base.starCol _ _ _ (e ▸ hij0) hsc0)
      constructor
      · rintro (hcu | e) hh
        · exact (h.l1 i j hij0).1 hcu hh.1
        · exact hj e
      · intro hh
        refine Or.inl ((h.l1 i j hij0).2 (fun hru => hh ⟨hru, hi⟩))
  · -- l2
    intro i hi hcov
    rw [hRU] at hcov
    by_cases hir : i = row
    · subst hir
      exact ⟨⟨sc, hsc⟩, ⟨col, (hpr _ _).2 (Or.inr ⟨rfl, rfl⟩)⟩⟩
    · have hcov0 : ¬ RU s i := fun hh => hcov ⟨hh, hir⟩
      obtain ⟨⟨j, hj⟩, ⟨j', hj'⟩⟩ := h.l2 i hi hcov0
      exact ⟨⟨j, (hst _ _).2 hj⟩, ⟨j', (hpr _ _).2 (Or.inl hj')⟩⟩
  · -- l3
    intro j hj hcov
    rw [hCU] at hcov
    obtain ⟨i, hi⟩ := h.l3 j hj (fun hh => hcov (Or.inl hh))
    exact ⟨i, (hst _ _).2 hi⟩
  · -- l4
    intro i j hp
    rw [hCU, hRU]
    rcases (hpr i j).1 hp with hp | ⟨rfl, rfl⟩
    · exact ⟨Or.inl (h.l4 i j hp).1, fun hh => (h.l4 i j hp).2 hh.1⟩
    · exact ⟨Or.inl hc, fun hh => hh.2 rfl⟩
  · -- primeZero
    intro i j hp
    rcases (hpr i j).1 hp with hp | ⟨rfl, rfl⟩
    · rw [hC]; exact h.primeZero i j hp
    · exact hz
  · -- rank
    obtain ⟨rk, B, hB, hrk⟩ := h.rank
    refine ⟨fun i => if i = row then B else rk i, B + 1, ?_, ?_⟩
    · intro i
      by_cases hi : i = row
      · simp [hi]
      · simp only [if_neg hi]
        exact Nat.lt_succ_of_lt (hB i)
    · intro i j i' hp hs'
      have hs0 : Star s.marked i' j := (hst i' j).1 hs'
      have hcuj : CU s j := by
        rcases (hpr i j).1 hp with hp | ⟨_, rfl⟩
        · exact (h.l4 i j hp).1
        · exact hc
      have hi'row : i' ≠ row := fun e => (h.l1 i' j hs0).1 hcuj (e ▸ hr)
      simp only [if_neg hi'row]
      rcases (hpr i j).1 hp with hp | ⟨rfl, _⟩
      · have : i ≠ row := fun e => (h.l4 i j hp).2 (e ▸ hr)
        rw [if_neg this]
        exact hrk i j i' hp hs0
      · rw [if_pos rfl]
        exact hB i'

end prime

theorem getD_mapIdx_row (cov : Mat Nat) (F : Nat → Array Nat → Array Nat) (i : Nat) :
    (cov.mapIdx F).getD i #[] = if i < cov.size then F i (cov.getD i #[]) else #[] := by
  by_cases hi : i < cov.size <;> simp [Array.getD_eq_getD_getElem?, hi]

theorem getD_replicate_zero (k j : Nat) : (Array.replicate k (0 : Nat)).getD j 0 = 0 := by
  by_cases hj : j < k <;> simp [Array.getD_eq_getD_getElem?, hj]

theorem get2_covUpdate (cov : Mat Nat) (g : Nat → Nat) (row sc k i j : Nat)
    (h : get2 ((cov.mapIdx fun i r => r.set! sc (g i)).set! row (Array.replicate k 0)) i j ≠ 0) :
    i ≠ row ∧ ((j = sc ∧ g i ≠ 0) ∨ (j ≠ sc ∧ get2 cov i j ≠ 0)) := by
  unfold get2 at h
  rw [getD_set!] at h
  by_cases hr : row = i ∧ i < (cov.mapIdx fun i r => r.set! sc (g i)).size
  · rw [if_pos hr] at h
    exact absurd (getD_replicate_zero k j) h
  · rw [if_neg hr, getD_mapIdx_row] at h
    by_cases hi : i < cov.size
    · rw [if_pos hi, getD_set!] at h
      refine ⟨fun e => hr ⟨e.symm, by simpa using hi⟩, ?_⟩
      by_cases hj : sc = j ∧ j < (cov.getD i #[]).size
      · rw [if_pos hj] at h
        exact Or.inl ⟨hj.1.symm, h⟩
      · rw [if_neg hj] at h
        by_cases hjs : j = sc
        · subst hjs
          have hge : ¬ j < (cov.getD i #[]).size := fun hh => hj ⟨rfl, hh⟩
          exfalso
          apply h
          generalize cov.getD i #[] = r at hge
          simp [Array.getD_eq_getD_getElem?, Array.getElem?_eq_none (Nat.le_of_not_lt hge)]
        · exact Or.inr ⟨hjs, h⟩
    · rw [if_neg hi] at h
      exact absurd (by simp) h

/-- `Cz` marks zeros of `C`; a non-zero entry of `covered_C` is an uncovered zero -/
structure CovOK (s : State) (Cz cov : Mat Nat) : Prop where
  cz : ∀ i j, get2 Cz i j ≠ 0 → get2 s.C i j = 0
  cov : ∀ i j, get2 cov i j ≠ 0 → get2 Cz i j ≠ 0 ∧ RU s i ∧ CU s j

/-- the `while True` of `_step4`: whatever it hands over to, the invariant of that step holds -/
theorem step4Loop_inv {n m : Nat} {cost : Nat → Nat → Rat} : ∀ (f : Nat) (Cz cov : Mat Nat) (s s' : State)
    (nx : Option Step), step4Loop f Cz cov s = .ok (s', nx) → Loop n m cost s → CovOK s Cz cov →
    (nx = some .s6 ∧ Loop n m cost s') ∨ (nx = some .s5 ∧ Inv5 n m cost s')
  | 0, _, _, _, _, _, h, _, _ => by simp [step4Loop] at h
  | f + 1, Cz, cov, s, s', nx, h, hL, hcov => by
    unfold step4Loop at h
    have hspec := argmaxFlat_spec cov
    generalize argmaxFlat cov = amx at h hspec
    obtain ⟨row, col, val⟩ := amx
    simp only at h hspec
    by_cases hv : (val == 0) = true
    · rw [if_pos hv] at h
      simp only [Except.ok.injEq, Prod.mk.injEq] at h
      exact Or.inl ⟨h.2.symm, h.1 ▸ hL⟩
    · rw [if_neg hv] at h
      have hne : get2 cov row col ≠ 0 := by
        rw [← hspec]; simpa using hv
      obtain ⟨hcz, hr, hc⟩ := hcov.cov row col hne
      have hz := hcov.cz row col hcz
      generalize hsc : firstIdx (fun x => x == 1) (Array.getD (set2 s.marked row col 2) row #[]) = sc at h
      by_cases hns : (get2 (set2 s.marked row col 2) row sc != 1) = true
      · rw [if_pos hns] at h
        simp only [Except.ok.injEq, Prod.mk.injEq] at h
        refine Or.inr ⟨h.2.symm, ?_⟩
        rw [← h.1]
        refine prime_to_s5 hL hz hr hc ?_
        intro j hj
        -- a star in the row would have been found by `argmax`
        have hlt := get2_ne_default (set2 s.marked row col 2) row j (by rw [hj]; decide)
        have := firstIdx_spec (fun x => x == 1) (Array.getD (set2 s.marked row col 2) row #[]) default j hlt.2
          (by show (_ == 1) = true
              rw [beq_iff_eq]; exact hj)
        rw [hsc] at this
        have h1 : get2 (set2 s.marked row col 2) row sc = 1 := by
          have h2 := this.2
          rw [beq_iff_eq] at h2; exact h2
        simp [h1] at hns
      · rw [if_neg hns] at h
        have hstar : Star (set2 s.marked row col 2) row sc := by
          unfold Star; simpa using hns
        have hL' := prime_continue hL hz hr hc sc hstar
          { s with marked := set2 s.marked row col 2, rowUnc := s.rowUnc.set! row false,
                   colUnc := s.colUnc.set! sc true } rfl rfl rfl rfl
        refine step4Loop_inv f _ _ _ _ _ h hL' ⟨hcov.cz, ?_⟩
        intro i j hij
        obtain ⟨hirow, hcases⟩ := get2_covUpdate cov _ row sc _ i j hij
        have hsc0 : Star s.marked row sc := (prime_star_iff hL hr hc row sc).1 hstar
        have hscm : sc < m := (Star.lt hL.base.shape hsc0).2
        rcases hcases with ⟨rfl, hg⟩ | ⟨hjs, hold⟩
        · have hg1 : get2 Cz i j ≠ 0 := fun e => hg (by rw [e]; simp)
          have hg2 : (s.rowUnc.set! row false).getD i false = true := by
            by_cases hh : (s.rowUnc.set! row false).getD i false = true
            · exact hh
            · exact absurd (by rw [if_neg hh]; simp) hg
          refine ⟨hg1, hg2, ?_⟩
          show (s.colUnc.set! j true).getD j false = true
          rw [getD_set!, if_pos ⟨rfl, hL.base.shape.csz ▸ hscm⟩]
        · obtain ⟨h1, h2, h3⟩ := hcov.cov i j hold
          refine ⟨h1, ?_, ?_⟩
          · show (s.rowUnc.set! row false).getD i false = true
            rw [getD_set!, if_neg (fun hh => hirow hh.1.symm)]
            exact h2
          · show (s.colUnc.set! sc true).getD j false = true
            rw [getD_set!, if_neg (fun hh => hjs hh.1.symm)]
            exact h3

theorem get2_Cz (C : Mat Rat) (i j : Nat)
    (h : get2 (C.map fun r => r.map fun x => if x == 0 then (1 : Nat) else 0) i j ≠ 0) : get2 C i j = 0 := by
  have hlt := get2_ne_default _ i j h
  have hi : i < C.size := by simpa using hlt.1
  have hj : j < C[i].size := by simpa [Array.getD_eq_getD_getElem?, hi] using hlt.2
  have e : get2 (C.map fun r => r.map fun x => if x == 0 then (1 : Nat) else 0) i j
      = if C[i][j] == 0 then 1 else 0 := by
    simp [get2, Array.getD_eq_getD_getElem?, hi, hj]
  rw [e] at h
  have e2 : get2 C i j = C[i][j] := by simp [get2, Array.getD_eq_getD_getElem?, hi, hj]
  rw [e2]
  by_cases h0 : C[i][j] = 0
  · exact h0
  · simp [h0] at h

theorem get2_mapIdx_nat (M : Mat Nat) (F : Nat → Nat → Nat → Nat) (i j : Nat)
    (h : get2 (M.mapIdx fun i r => r.mapIdx fun j x => F i j x) i j ≠ 0) :
    get2 (M.mapIdx fun i r => r.mapIdx fun j x => F i j x) i j = F i j (get2 M i j) := by
  have hlt := get2_ne_default _ i j h
  have hi : i < M.size := by simpa using hlt.1
  have hj : j < M[i].size := by simpa [Array.getD_eq_getD_getElem?, hi] using hlt.2
  simp [get2, Array.getD_eq_getD_getElem?, hi, hj]

/-- `_step4` establishes the invariant of the step it hands over to (step 5 or step 6) -/
theorem step4_inv {n m : Nat} {cost : Nat → Nat → Rat} {s s' : State} {nx : Option Step}
    (h : step4 s = .ok (s', nx)) (hL : Loop n m cost s) :
    (nx = some .s6 ∧ Loop n m cost s') ∨ (nx = some .s5 ∧ Inv5 n m cost s') := by
  unfold step4 at h
  refine step4Loop_inv _ _ _ _ _ _ h hL ⟨fun i j hij => get2_Cz s.C i j hij, ?_⟩
  intro i j hij
  have e := get2_mapIdx_nat _ (fun i j z => z * (if s.rowUnc.getD i false then 1 else 0)
    * (if s.colUnc.getD j false then 1 else 0)) i j hij
  rw [e] at hij
  obtain ⟨h3, h4⟩ := Nat.mul_ne_zero_iff.1 hij
  obtain ⟨h5, h6⟩ := Nat.mul_ne_zero_iff.1 h3
  refine ⟨h5, ?_, ?_⟩
  · unfold RU
    by_cases hh : s.rowUnc.getD i false = true
    · exact hh
    · exact absurd (by rw [if_neg hh]) h6
  · unfold CU
    by_cases hh : s.colUnc.getD j false = true
    · exact hh
    · exact absurd (by rw [if_neg hh]) h4

end QcelVerif.Munkres
