import QcelVerif.Lemmas.MunkresInv2.Basic
import QcelVerif.Lemmas.AssignCert
/-!
C14 — Munkres step invariants: the read-out.  `starPairs` enumerates exactly the entries equal to 1
in row-major order, and any duplicate-free enumeration of the stars of a finished state passes the
wide certificate check.
-/
namespace QcelVerif.Munkres
open QcelVerif.Assign

/-! ### `starPairs` -/

/-- row-major (lexicographic) order on index pairs -/
def Lex (p q : Nat × Nat) : Prop := p.1 < q.1 ∨ (p.1 = q.1 ∧ p.2 < q.2)

/-- the accumulator of `starPairs` when the loops stand at entry `(i, j)` -/
structure InvIn (M : Mat Nat) (i j : Nat) (acc : Array (Nat × Nat)) : Prop where
  mem : ∀ p, p ∈ acc.toList ↔
    (p.1 < i ∧ get2 M p.1 p.2 = 1) ∨ (p.1 = i ∧ p.2 < j ∧ get2 M p.1 p.2 = 1)
  sorted : acc.toList.Pairwise Lex

theorem InvIn.push {M : Mat Nat} {i j : Nat} {acc : Array (Nat × Nat)} (h : InvIn M i j acc)
    (h1 : get2 M i j = 1) : InvIn M i (j + 1) (acc.push (i, j)) := by
  constructor
  · rintro ⟨a, b⟩
    simp only [Array.toList_push, List.mem_append, List.mem_singleton, h.mem, Prod.mk.injEq]
    constructor
    · rintro ((⟨h2, h3⟩ | ⟨h2, h3, h4⟩) | ⟨rfl, rfl⟩)
      · exact Or.inl ⟨h2, h3⟩
      · exact Or.inr ⟨h2, by omega, h4⟩
      · exact Or.inr ⟨rfl, by omega, h1⟩
    · rintro (⟨h2, h3⟩ | ⟨h2, h3, h4⟩)
      · exact Or.inl (Or.inl ⟨h2, h3⟩)
      · by_cases hb : b < j
        · exact Or.inl (Or.inr ⟨h2, hb, h4⟩)
        · exact Or.inr ⟨h2, by omega⟩
  · rw [Array.toList_push, List.pairwise_append]
    refine ⟨h.sorted, List.pairwise_singleton _ _, ?_⟩
    intro p hp q hq
    rw [List.mem_singleton] at hq
    subst hq
    rcases (h.mem p).1 hp with ⟨h2, _⟩ | ⟨h2, h3, _⟩
    · exact Or.inl h2
    · exact Or.inr ⟨h2, h3⟩

theorem InvIn.skip {M : Mat Nat} {i j : Nat} {acc : Array (Nat × Nat)} (h : InvIn M i j acc)
    (h1 : get2 M i j ≠ 1) : InvIn M i (j + 1) acc := by
  refine ⟨?_, h.sorted⟩
  rintro ⟨a, b⟩
  simp only [h.mem]
  constructor
  · rintro (⟨h2, h3⟩ | ⟨h2, h3, h4⟩)
    · exact Or.inl ⟨h2, h3⟩
    · exact Or.inr ⟨h2, by omega, h4⟩
  · rintro (⟨h2, h3⟩ | ⟨h2, h3, h4⟩)
    · exact Or.inl ⟨h2, h3⟩
    · by_cases hb : b < j
      · exact Or.inr ⟨h2, hb, h4⟩
      · exfalso
        have hbj : b = j := by omega
        subst hbj
        subst h2
        exact h1 h4

/-- a finished row: move on to the next one -/
theorem InvIn.next {M : Mat Nat} {i : Nat} {acc : Array (Nat × Nat)}
    (h : InvIn M i (M.getD i #[]).size acc) : InvIn M (i + 1) 0 acc := by
  refine ⟨?_, h.sorted⟩
  rintro ⟨a, b⟩
  simp only [h.mem]
  constructor
  · rintro (⟨h2, h3⟩ | ⟨h2, _, h4⟩)
    · exact Or.inl ⟨by omega, h3⟩
    · exact Or.inl ⟨by omega, h4⟩
  · rintro (⟨h2, h3⟩ | ⟨_, h3, _⟩)
    · by_cases ha : a < i
      · exact Or.inl ⟨ha, h3⟩
      · have hai : a = i := by omega
        subst hai
        have := get2_ne_default M a b (by rw [h3]; decide)
        exact Or.inr ⟨rfl, this.2, h3⟩
    · omega

/-- the inner loop of `starPairs` -/
theorem starPairs_inner (M : Mat Nat) (i : Nat) (acc : Array (Nat × Nat)) (h : InvIn M i 0 acc) :
    InvIn M i (M.getD i #[]).size
      (forIn (m := Id) [:(M.getD i #[]).size] acc fun j (s : Array (Nat × Nat)) =>
        if ((M.getD i #[]).getD j 0 == 1) = true then ForInStep.yield (s.push (i, j))
        else ForInStep.yield s) := by
  refine forIn_range_inv _ acc _ (fun j (a : Array (Nat × Nat)) => InvIn M i j a) h ?_
  intro j b _ hb
  have hg : (M.getD i #[]).getD j 0 = get2 M i j := rfl
  by_cases h1 : ((M.getD i #[]).getD j 0 == 1) = true
  · refine ⟨_, if_pos h1, ?_⟩
    rw [hg, beq_iff_eq] at h1
    exact hb.push h1
  · refine ⟨_, if_neg h1, ?_⟩
    rw [hg, beq_iff_eq] at h1
    exact hb.skip h1

theorem starPairs_inv (M : Mat Nat) : ∃ acc : Array (Nat × Nat),
    starPairs M = acc.toList ∧ InvIn M M.size 0 acc := by
  unfold starPairs
  simp only [Id.run, bind, pure]
  refine ⟨_, rfl, ?_⟩
  refine forIn_range_inv _ #[] _ (fun i (a : Array (Nat × Nat)) => InvIn M i 0 a) ?_ ?_
  · refine ⟨?_, by simp⟩
    rintro ⟨a, b⟩
    simp
  · intro i b _ hb
    exact ⟨_, rfl, (starPairs_inner M i b hb).next⟩

/-- membership: exactly the entries equal to 1 -/
theorem starPairs_mem (M : Mat Nat) (p : Nat × Nat) : p ∈ starPairs M ↔ get2 M p.1 p.2 = 1 := by
  obtain ⟨acc, he, hi⟩ := starPairs_inv M
  rw [he, hi.mem]
  constructor
  · rintro (⟨_, h⟩ | ⟨_, h, _⟩)
    · exact h
    · omega
  · intro h
    exact Or.inl ⟨(get2_ne_default M p.1 p.2 (by rw [h]; decide)).1, h⟩

/-- row-major order -/
theorem starPairs_sorted (M : Mat Nat) :
    (starPairs M).Pairwise (fun p q => p.1 < q.1 ∨ (p.1 = q.1 ∧ p.2 < q.2)) := by
  obtain ⟨acc, he, hi⟩ := starPairs_inv M
  rw [he]
  exact hi.sorted

theorem incB_of_pairwise : ∀ l : List Nat, l.Pairwise (· < ·) → incB l = true
  | [] => by simp [incB]
  | [_] => by simp [incB]
  | a :: b :: l => by
    intro h
    rw [List.pairwise_cons] at h
    simp only [incB, Bool.and_eq_true, decide_eq_true_eq]
    exact ⟨h.1 b (List.mem_cons_self ..), incB_of_pairwise (b :: l) h.2⟩

/-- rows strictly increasing when no row holds two 1-entries -/
theorem starPairs_incB (M : Mat Nat) (h : ∀ i j j', get2 M i j = 1 → get2 M i j' = 1 → j = j') :
    incB ((starPairs M).map Prod.fst) = true := by
  apply incB_of_pairwise
  rw [List.pairwise_map]
  refine (starPairs_sorted M).imp_of_mem ?_
  intro p q hp hq hpq
  rcases hpq with h1 | ⟨h1, h2⟩
  · exact h1
  · exfalso
    have hp' := (starPairs_mem M p).1 hp
    have hq' := (starPairs_mem M q).1 hq
    rw [← h1] at hq'
    have := h p.1 p.2 q.2 hp' hq'
    omega

/-! ### transposition of the marks -/

theorem get2_transpose_nat (n m : Nat) (M : Mat Nat) (i j : Nat) (hi : i < n) (hj : j < m) :
    get2 (transpose n m M) j i = get2 M i j := by
  simp [transpose, get2, Array.getD, hi, hj]

theorem get2_transpose_nat_iff (n m : Nat) (M : Mat Nat) (i j : Nat) (hM : M.size = n)
    (hrow : ∀ i, i < n → (M.getD i #[]).size = m) :
    get2 (transpose n m M) j i = 1 ↔ get2 M i j = 1 := by
  by_cases hi : i < n
  · by_cases hj : j < m
    · rw [get2_transpose_nat n m M i j hi hj]
    · constructor
      · intro h
        exfalso
        have := (get2_ne_default _ j i (by rw [h]; decide)).1
        simp [transpose] at this
        omega
      · intro h
        exfalso
        have := (get2_ne_default _ i j (by rw [h]; decide)).2
        rw [hrow i hi] at this
        omega
  · constructor
    · intro h
      exfalso
      have := get2_ne_default _ j i (by rw [h]; decide)
      have hj : j < m := by simpa [transpose] using this.1
      have h2 := this.2
      simp [transpose, Array.getD, hj] at h2
      omega
    · intro h
      exfalso
      have := (get2_ne_default _ i j (by rw [h]; decide)).1
      omega

/-! ### the stars of a finished state are a certificate -/

/-- any duplicate-free enumeration of the stars of a finished state is a wide certificate -/
theorem wideOK_of_stars' {n m : Nat} (hn : 0 < n) (hnm : n ≤ m) {cost : Nat → Nat → Rat} {s : State}
    (hb : Base n m cost s) (hall : ∀ i, i < n → ∃ j, Star s.marked i j)
    (red : Nat → Nat → Rat) (hred : ∀ i, i < n → ∀ j, j < m → red i j = get2 s.C i j)
    (σ : Pairs) (hmem : ∀ p, p ∈ σ ↔ Star s.marked p.1 p.2) (hnd : σ.Nodup) :
    wideOK n m cost red σ = true := by
  obtain ⟨u, v, V, hC, hvV, hvE⟩ := hb.pot
  have hm : 0 < m := by omega
  have hlt : ∀ p ∈ σ, p.1 < n ∧ p.2 < m := fun p hp => Star.lt hb.shape ((hmem p).1 hp)
  have hrows : (σ.map Prod.fst).Nodup := by
    refine List.Nodup.map_on ?_ hnd
    intro p hp q hq hpq
    have h1 := (hmem p).1 hp
    have h2 := (hmem q).1 hq
    rw [← hpq] at h2
    exact Prod.ext hpq (hb.starRow _ _ _ h1 h2)
  have hcols : (σ.map Prod.snd).Nodup := by
    refine List.Nodup.map_on ?_ hnd
    intro p hp q hq hpq
    have h1 := (hmem p).1 hp
    have h2 := (hmem q).1 hq
    rw [← hpq] at h2
    exact Prod.ext (hb.starCol _ _ _ h1 h2) hpq
  have hperm : (σ.map Prod.fst).Perm (List.range n) := by
    rw [List.perm_ext_iff_of_nodup hrows List.nodup_range]
    intro a
    rw [List.mem_range, List.mem_map]
    constructor
    · rintro ⟨p, hp, rfl⟩
      exact (hlt p hp).1
    · intro ha
      obtain ⟨j, hj⟩ := hall a ha
      exact ⟨(a, j), (hmem (a, j)).2 hj, rfl⟩
  have hlen : σ.length = min n m := by
    have := hperm.length_eq
    rw [List.length_map, List.length_range] at this
    rw [this, Nat.min_eq_left hnm]
  have hass : IsAssign n m σ := ⟨hlen, hlt, hrows, hcols⟩
  have hu : ∀ i, i < n → uPot cost red i = u i + v 0 := by
    intro i hi
    unfold uPot
    rw [hred i hi 0 hm, hC i hi 0 hm]
    ring
  have hv : ∀ j, j < m → vPot cost red j = v j - v 0 := by
    intro j hj
    unfold vPot
    rw [hred 0 hn j hj, hred 0 hn 0 hm, hC 0 hn j hj, hC 0 hn 0 hm]
    ring
  unfold wideOK
  simp only [Bool.and_eq_true, allIdx_iff, List.all_eq_true, decide_eq_true_eq, beq_iff_eq,
    Bool.or_eq_true, List.mem_range, List.contains_iff_mem]
  refine ⟨⟨⟨⟨isAssign_iff.2 hass, ?_⟩, ?_⟩, ?_⟩, ?_⟩
  · intro i hi j hj
    unfold resid
    rw [hu i hi, hv j hj, hred i hi j hj, hC i hi j hj]
    ring
  · intro i hi j hj
    rw [hred i hi j hj]
    exact hb.nonneg i hi j hj
  · intro p hp
    rw [hred _ (hlt p hp).1 _ (hlt p hp).2]
    exact hb.starZero _ _ ((hmem p).1 hp)
  · intro k hk
    by_cases hk' : k ∈ σ.map Prod.snd
    · exact Or.inl hk'
    · right
      intro p hp
      have hnos : ∀ i, ¬ Star s.marked i k := by
        intro i hi
        exact hk' (List.mem_map.2 ⟨(i, k), (hmem (i, k)).2 hi, rfl⟩)
      rw [hv p.2 (hlt p hp).2, hv k hk, hvE k hk hnos]
      have := hvV p.2 (hlt p hp).2
      linarith

theorem wideOK_of_stars {n m : Nat} (hn : 0 < n) (hnm : n ≤ m) {cost : Nat → Nat → Rat} {s : State}
    (hb : Base n m cost s) (hall : ∀ i, i < n → ∃ j, Star s.marked i j)
    (σ : Pairs) (hmem : ∀ p, p ∈ σ ↔ Star s.marked p.1 p.2) (hnd : σ.Nodup) :
    wideOK n m cost (matFn s.C) σ = true :=
  wideOK_of_stars' hn hnm hb hall (matFn s.C) (fun _ _ _ _ => rfl) σ hmem hnd

end QcelVerif.Munkres
