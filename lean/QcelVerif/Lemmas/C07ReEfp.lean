import QcelVerif.Lemmas.C07ReAtomLine
import QcelVerif.Lemmas.C07ReKeywords
/-!
C07 — the one-line EFP fragment pattern

    efpxyzabc = `\A efp SEP (?P<efpfile>(\w+)) SEP (?P<x>NUMBER) SEP … SEP (?P<c>NUMBER) ENDL \Z`     IGNORECASE | VERBOSE

(`SEP = [\t ,]+`, `ENDL = [\t ,]*$`) run by the generic engine on the generated AST and read through the groups
efpfile / x / y / z / a / b / c (`efpRe`) is what M1's line classifier answers (`efpHand`), for EVERY string.

Route (as for atom lines): every way to match decomposes the line into `efp`-word, separator run, file word, six
(separator run, NUMBER) pairs and a trailing separator run; such a line splits into 8 fields (9 with a trailing run, the last
one empty, removed by `dropTrailingEmpty`), none of the earlier branches of `classify` / `classifyRest` fires on it, and the efp
branch answers the same texts.  Conversely `classify s = .efp …` yields such a decomposition, hence a way to match.
-/
namespace QcelVerif.MolText
open QcelVerif.Regex QcelVerif.Gen

namespace Efp

/-! ## (0) shape -/

/-- SEP `(?P<g>(NUMBER))`, then `K` -/
def sepNum (g : Nat) (K : Re) : Re := .seq sepPlus (.seq (.group g (.group (g + 1) numberBodyI)) K)

/-- a chain of `SEP (?P<g>(NUMBER))` steps, then `K` -/
def sepNums : List Nat → Re → Re
  | [], K => K
  | g :: gs, K => sepNum g (sepNums gs K)

/-- `[\t ,]*` -/
def sepStar : Re := .rep 0 none true (.cls false [.ch 9, .ch 32, .ch 44])

/-- ENDL `\Z` = `[\t ,]*$\Z` -/
def endlEos : Re := .seq sepStar (.seq .eolFinal .eos)

/-- the group numbers of x, y, z, a, b, c -/
def numGroups : List Nat := [3, 5, 7, 9, 11, 13]

end Efp

open Efp in
/-- `\A` efp SEP `(?P<efpfile>(\w+))` (SEP `(?P<·>(NUMBER))`)⁶ ENDL `\Z` -/
theorem efpxyzabc_shape : FromStringRegex.efpxyzabc =
    .seq .bos (Kw.litK [101, 102, 112] (.seq sepPlus (.seq (.group 1 (.group 2 Kw.word1)) (sepNums numGroups endlEos)))) := rfl

theorem efpxyzabc_groups : FromStringRegex.efpxyzabcG.efpfile = 1 ∧
    [FromStringRegex.efpxyzabcG.x, FromStringRegex.efpxyzabcG.y, FromStringRegex.efpxyzabcG.z, FromStringRegex.efpxyzabcG.a,
      FromStringRegex.efpxyzabcG.b, FromStringRegex.efpxyzabcG.c] = Efp.numGroups := ⟨rfl, rfl⟩

namespace Efp

/-! ## (1) pieces of text -/

/-- (separator run, token) pairs, then `r` -/
def joinR : List (Str × Str) → Str → Str
  | [], r => r
  | (sp, t) :: ps, r => sp ++ (t ++ joinR ps r)

/-- the state after a chain of `SEP (NUMBER)` steps -/
def numEnds : List Nat → St → List (Str × Str) → Str → St
  | g :: gs, m, (sp, t) :: ps, r => numEnds gs (numEnd g m sp t (joinR ps r)) ps r
  | _, m, _, _ => m

theorem numEnds_rest : ∀ (gs : List Nat) (m : St) (ps : List (Str × Str)) (r : Str), ps.length = gs.length →
    m.rest = toBytes (joinR ps r) → (numEnds gs m ps r).rest = toBytes r
  | [], m, [], r, _, hm => hm
  | [], _, _ :: _, _, h, _ => by simp at h
  | _ :: _, _, [], _, h, _ => by simp at h
  | g :: gs, m, (sp, t) :: ps, r, h, _ => by
    simp only [numEnds]
    exact numEnds_rest gs _ ps r (by simpa using h) (numEnd_rest _ _ _ _ _)

theorem sepNums_mem (K : Re) : ∀ (gs : List Nat) (r0 : Str) (m x : St), m.rest = toBytes r0 →
    (x ∈ (sepNums gs K).ms m ↔
      ∃ ps r, ps.length = gs.length ∧ r0 = joinR ps r ∧ (∀ p ∈ ps, SepOk p.1 ∧ isNumber p.2 = true) ∧ x ∈ K.ms (numEnds gs m ps r))
  | [], r0, m, x, hm => by
    simp only [sepNums]
    constructor
    · intro hx; exact ⟨[], r0, rfl, rfl, by simp, hx⟩
    · rintro ⟨ps, r, hl, rfl, _, hx⟩
      have : ps = [] := List.eq_nil_of_length_eq_zero hl
      subst this
      exact hx
  | g :: gs, r0, m, x, hm => by
    simp only [sepNums, sepNum]
    rw [sepnum_mem g _ r0 m x hm]
    constructor
    · rintro ⟨sp, t, r1, rfl, hsp, ht, hx⟩
      rw [sepNums_mem K gs r1 _ x (numEnd_rest _ _ _ _ _)] at hx
      obtain ⟨ps, r, hl, rfl, hps, hx⟩ := hx
      refine ⟨(sp, t) :: ps, r, by simp [hl], rfl, ?_, hx⟩
      intro p hp
      simp only [List.mem_cons] at hp
      rcases hp with rfl | hp
      · exact ⟨hsp, ht⟩
      · exact hps p hp
    · rintro ⟨ps, r, hl, rfl, hps, hx⟩
      match ps, hl, hps, hx with
      | (sp, t) :: ps, hl, hps, hx =>
        have h0 := hps (sp, t) (by simp)
        refine ⟨sp, t, joinR ps r, rfl, h0.1, h0.2, ?_⟩
        rw [sepNums_mem K gs _ _ x (numEnd_rest _ _ _ _ _)]
        exact ⟨ps, r, by simpa using hl, rfl, fun p hp => hps p (by simp [hp]), hx⟩

/-- greedy `[class]*` on the image of an M1 string -/
theorem star_mem_str {neg : Bool} {items : List Item} {q : Char → Bool} (hq : ∀ c, clsMem neg items c.toNat = q c)
    (r : Str) (m x : St) (hm : m.rest = toBytes r) :
    x ∈ (Re.rep 0 none true (.cls neg items)).ms m ↔
      ∃ a b, r = a ++ b ∧ (∀ c ∈ a, q c = true) ∧ x = m.adv (toBytes a) (toBytes b) := by
  rw [mem_ms_star]
  constructor
  · rintro ⟨a, b, hab, hall, rfl⟩
    rw [hm] at hab
    obtain ⟨a', b', rfl, rfl, rfl⟩ := toBytes_eq_append hab
    exact ⟨a', b', rfl, (all_toBytes _ _ hq a').mp hall, rfl⟩
  · rintro ⟨a, b, rfl, hall, rfl⟩
    exact ⟨toBytes a, toBytes b, by simp [hm], (all_toBytes _ _ hq a).mpr hall, rfl⟩

theorem mem_ms_eolFinal {st x : St} : x ∈ Re.eolFinal.ms st ↔ (st.rest = [] ∨ st.rest = [10]) ∧ x = st := by
  simp only [Re.ms, holdsAt]
  by_cases h : (st.rest.isEmpty || st.rest == [10]) = true
  · simp only [h, if_true, List.mem_singleton]
    simp only [Bool.or_eq_true, List.isEmpty_iff, beq_iff_eq] at h
    simp [h]
  · simp only [h]
    simp only [Bool.or_eq_true, List.isEmpty_iff, beq_iff_eq] at h
    simp [h]

/-- ENDL `\Z`: a separator run up to the end of the text (the `$` before `\Z` adds nothing) -/
theorem endlEos_mem (r : Str) (m x : St) (hm : m.rest = toBytes r) :
    x ∈ endlEos.ms m ↔ (∀ c ∈ r, isSep c = true) ∧ x = m.adv (toBytes r) [] := by
  unfold endlEos
  rw [mem_ms_seq]
  constructor
  · rintro ⟨m1, h1, hx⟩
    rw [sepStar, star_mem_str cls_sep r m m1 hm] at h1
    obtain ⟨a, b, rfl, ha, rfl⟩ := h1
    obtain ⟨m2, h2, hx⟩ := mem_ms_seq.mp hx
    obtain ⟨_, rfl⟩ := mem_ms_eolFinal.mp h2
    obtain ⟨hb, rfl⟩ := mem_ms_eos.mp hx
    have hb' : b = [] := toBytes_eq_nil.mp hb
    subst hb'
    simp only [List.append_nil]
    exact ⟨ha, rfl⟩
  · rintro ⟨hr, rfl⟩
    refine ⟨m.adv (toBytes r) [], ?_, mem_ms_seq.mpr ⟨_, mem_ms_eolFinal.mpr ⟨Or.inl rfl, rfl⟩, mem_ms_eos.mpr ⟨rfl, rfl⟩⟩⟩
    rw [sepStar, star_mem_str cls_sep r m _ hm]
    exact ⟨r, [], by simp, hr, rfl⟩

/-! ## (2) regex side: every way to match is a decomposition of the line, and conversely -/

def efpWord : Str := ['e', 'f', 'p']

/-- the decomposition both sides agree on -/
def EfpDec (s E sp0 f : Str) (ps : List (Str × Str)) (tl : Str) : Prop :=
  s = E ++ (sp0 ++ (f ++ joinR ps tl)) ∧ lowerS E = efpWord ∧ SepOk sp0 ∧ f ≠ [] ∧ (∀ c ∈ f, isWord c = true) ∧ ps.length = 6 ∧
    (∀ p ∈ ps, SepOk p.1 ∧ isNumber p.2 = true) ∧ (∀ c ∈ tl, isSep c = true)

/-- what `efpRe` reads off a final state -/
def efpGroups (st : St) : Option (Str × List Str) :=
  match grp st 1, numGroups.mapM (grp st) with
  | some f, some h => some (f, h)
  | _, _ => none

theorem efpWord_bytes (E : Str) : toBytes (lowerS E) = [101, 102, 112] ↔ lowerS E = efpWord :=
  ⟨fun h => toBytes_inj (b := efpWord) h, fun h => by rw [h]; rfl⟩

/-- the state after `(?P<efpfile>(\w+))` -/
def fileEnd (m : St) (f r : Str) : St := St.capture 1 m (St.capture 2 m (m.adv (toBytes f) (toBytes r)))

theorem file_mem (B : Str) (m x : St) (hm : m.rest = toBytes B) :
    x ∈ (Re.group 1 (.group 2 Kw.word1)).ms m ↔
      ∃ f r, f ≠ [] ∧ B = f ++ r ∧ (∀ c ∈ f, isWord c = true) ∧ x = fileEnd m f r := by
  simp only [mem_ms_group, Kw.word1, plus_mem_str cls_word B m _ hm]
  constructor
  · rintro ⟨_, ⟨_, ⟨f, r, h1, h2, h3, rfl⟩, rfl⟩, rfl⟩; exact ⟨f, r, h1, h2, h3, rfl⟩
  · rintro ⟨f, r, h1, h2, h3, rfl⟩; exact ⟨_, ⟨_, ⟨f, r, h1, h2, h3, rfl⟩, rfl⟩, rfl⟩

theorem fileEnd_rest (m : St) (f r : Str) : (fileEnd m f r).rest = toBytes r := rfl

theorem fileEnd_caps (m : St) (f r : Str) (hm : m.rest = toBytes (f ++ r)) :
    (fileEnd m f r).caps = (1, toBytes f) :: (2, toBytes f) :: m.caps := by
  simp [fileEnd, hm, takeDiff_append']

theorem groups_final (m : St) (f : Str) (c1 : Caps) (hc : m.caps = (1, toBytes f) :: c1)
    (p1 p2 p3 p4 p5 p6 : Str × Str) (r : Str) (tl : List Nat) :
    efpGroups ((numEnds numGroups m [p1, p2, p3, p4, p5, p6] r).adv tl []) = some (f, [p1.2, p2.2, p3.2, p4.2, p5.2, p6.2]) := by
  obtain ⟨s1, t1⟩ := p1
  obtain ⟨s2, t2⟩ := p2
  obtain ⟨s3, t3⟩ := p3
  obtain ⟨s4, t4⟩ := p4
  obtain ⟨s5, t5⟩ := p5
  obtain ⟨s6, t6⟩ := p6
  simp [efpGroups, numGroups, grp, St.group, numEnds, numEnd_caps, hc, List.lookup, ofBytes_toBytes]

theorem efp_sound (s : Str) (w : St) (hw : w ∈ FromStringRegex.efpxyzabc.ms (St.init (toBytes s))) :
    ∃ E sp0 f ps tl, EfpDec s E sp0 f ps tl ∧ efpGroups w = some (f, ps.map (·.2)) := by
  rw [efpxyzabc_shape] at hw
  obtain ⟨m0, h0, hw⟩ := mem_ms_seq.mp hw
  obtain ⟨_, rfl⟩ := mem_ms_bos.mp h0
  obtain ⟨E, T, m, rfl, hE, hm, hw⟩ := Kw.litK_sound _ _ (by decide) (st := St.init (toBytes s)) (U := s) rfl hw
  obtain ⟨m2, h2, hw⟩ := mem_ms_seq.mp hw
  rw [sepPlus, plus_mem_str cls_sep T m m2 hm] at h2
  obtain ⟨sp0, B, hsp0, rfl, hsp, rfl⟩ := h2
  obtain ⟨m3, h3, hw⟩ := mem_ms_seq.mp hw
  rw [file_mem B _ _ rfl] at h3
  obtain ⟨f, R, hf0, rfl, hf, rfl⟩ := h3
  rw [sepNums_mem endlEos numGroups R _ w (fileEnd_rest _ _ _)] at hw
  obtain ⟨ps, tl, hl, rfl, hps, hw⟩ := hw
  rw [endlEos_mem tl _ _ (numEnds_rest _ _ _ _ hl (fileEnd_rest _ _ _))] at hw
  obtain ⟨htl, rfl⟩ := hw
  refine ⟨E, sp0, f, ps, tl, ⟨rfl, (efpWord_bytes E).mp hE, ⟨hsp0, hsp⟩, hf0, hf, hl, hps, htl⟩, ?_⟩
  match ps, hl with
  | [p1, p2, p3, p4, p5, p6], _ =>
    exact groups_final _ f _ (fileEnd_caps _ f _ rfl) p1 p2 p3 p4 p5 p6 tl _

theorem efp_complete (s E sp0 f : Str) (ps : List (Str × Str)) (tl : Str) (h : EfpDec s E sp0 f ps tl) :
    ∃ w, w ∈ FromStringRegex.efpxyzabc.ms (St.init (toBytes s)) := by
  obtain ⟨rfl, hE, hsp, hf0, hf, hl, hps, htl⟩ := h
  rw [efpxyzabc_shape]
  obtain ⟨m, hm, hall⟩ := Kw.litK_complete (.seq sepPlus (.seq (.group 1 (.group 2 Kw.word1)) (sepNums numGroups endlEos))) _ (by decide)
    (st := St.init (toBytes (E ++ (sp0 ++ (f ++ joinR ps tl))))) (A := E) (T := sp0 ++ (f ++ joinR ps tl)) rfl ((efpWord_bytes E).mpr hE)
  let m2 := m.adv (toBytes sp0) (toBytes (f ++ joinR ps tl))
  let m3 := fileEnd m2 f (joinR ps tl)
  have hin : (numEnds numGroups m3 ps tl).adv (toBytes tl) [] ∈
      (Re.seq sepPlus (.seq (.group 1 (.group 2 Kw.word1)) (sepNums numGroups endlEos))).ms m := by
    refine mem_ms_seq.mpr ⟨m2, ?_, mem_ms_seq.mpr ⟨m3, ?_, ?_⟩⟩
    · rw [sepPlus, plus_mem_str cls_sep _ m _ hm]
      exact ⟨sp0, _, hsp.1, rfl, hsp.2, rfl⟩
    · rw [file_mem (f ++ joinR ps tl) _ _ rfl]
      exact ⟨f, _, hf0, rfl, hf, rfl⟩
    · rw [sepNums_mem endlEos numGroups (joinR ps tl) _ _ (fileEnd_rest _ _ _)]
      refine ⟨ps, tl, hl, rfl, hps, ?_⟩
      rw [endlEos_mem tl _ _ (numEnds_rest _ _ _ _ hl (fileEnd_rest _ _ _))]
      exact ⟨htl, rfl⟩
  exact ⟨_, mem_ms_seq.mpr ⟨_, mem_ms_bos.mpr ⟨rfl, rfl⟩, hall _ hin⟩⟩

/-! ## (3) hand side: `splitSep` of joined fields, and inverted -/

theorem splitSep_sepOnly (tl : Str) (h0 : tl ≠ []) (h : ∀ c ∈ tl, isSep c = true) : splitSep tl = [[], []] := by
  cases tl with
  | nil => exact absurd rfl h0
  | cons c t =>
    rw [splitSep_sep_cons c t (h c (by simp))]
    have : t.dropWhile isSep = [] := by
      have := dw_app (p := isSep) t [] (fun d hd => h d (by simp [hd])) (Or.inl rfl)
      simpa using this
    rw [this]; simp [splitSep]

/-- fields joined by separator runs, then a (possibly empty) trailing separator run: the fields, and an empty one for the run -/
theorem splitSep_joinR (tl : Str) (htl : ∀ c ∈ tl, isSep c = true) : ∀ (ps : List (Str × Str)) (t : Str),
    (∀ c ∈ t, isSep c = false) → (∀ p ∈ ps, SepOk p.1 ∧ TokOk p.2) →
    splitSep (t ++ joinR ps tl) = t :: ps.map (·.2) ++ (if tl = [] then [] else [[]])
  | [], t, ht, _ => by
    simp only [joinR, List.map_nil]
    by_cases h0 : tl = []
    · subst h0
      have := splitSep_tok_append t [] [] [] ht (by simp [splitSep])
      simpa using this
    · have := splitSep_tok_append t tl [] [[]] ht (splitSep_sepOnly tl h0 htl)
      simpa [h0] using this
  | (sp, u) :: ps, t, ht, hps => by
    have hp := hps (sp, u) (by simp)
    have ih := splitSep_joinR tl htl ps u hp.2.2 (fun q hq => hps q (by simp [hq]))
    obtain ⟨d, u', rfl⟩ : ∃ d u', u = d :: u' := by
      cases u with
      | nil => exact absurd rfl hp.2.1
      | cons a b => exact ⟨a, b, rfl⟩
    have hd : isSep d = false := hp.2.2 d (by simp)
    have h1 : splitSep (sp ++ (d :: u' ++ joinR ps tl)) = [] :: splitSep (d :: u' ++ joinR ps tl) :=
      splitSep_sep_run sp d (u' ++ joinR ps tl) hp.1.1 hp.1.2 hd
    have := splitSep_tok_append t (sp ++ (d :: u' ++ joinR ps tl)) [] _ ht h1
    simp only [joinR, List.map_cons, List.append_nil] at this ⊢
    rw [this, ih]
    simp

/-- `splitSep` inverted: the line is its fields joined by separator runs -/
theorem splitSep_inv : ∀ (L : List Str) (s t : Str), splitSep s = t :: L →
    ∃ ps, s = t ++ joinR ps [] ∧ ps.map (·.2) = L ∧ (∀ c ∈ t, isSep c = false) ∧
      ∀ p ∈ ps, SepOk p.1 ∧ ∀ c ∈ p.2, isSep c = false
  | [], s, t, h => by
    obtain ⟨e, hs⟩ := splitSep_single h
    exact ⟨[], by simp [joinR, e], rfl, e ▸ hs, by simp⟩
  | b :: L, s, t, h => by
    obtain ⟨e1, h1, k1⟩ := splitSep_cons2 h
    obtain ⟨ps, hs, hmap, hb, hps⟩ := splitSep_inv L (afterSepS s) b k1
    have nsepAll : ∀ c ∈ chgTok s, isSep c = false := by
      intro c hc
      have := List.all_eq_true.mp (List.all_takeWhile (p := nsep) (l := s)) c hc
      simpa [nsep] using this
    refine ⟨(sepRun s, b) :: ps, ?_, by simp [hmap], e1 ▸ nsepAll, ?_⟩
    · have d1 := decomp_s s
      rw [e1]
      simp only [joinR]
      rw [← hs, ← List.append_assoc]
      exact d1
    · intro p hp
      simp only [List.mem_cons] at hp
      rcases hp with rfl | hp
      · exact ⟨⟨sepRun_ne_nil h1, sepRun_all s⟩, hb⟩
      · exact hps p hp

theorem dropTrailingEmpty_inv {ts L : List Str} (h : dropTrailingEmpty ts = L) : ts = L ∨ ts = L ++ [[]] := by
  unfold dropTrailingEmpty at h
  split at h
  · rename_i r hr
    right
    have := congrArg List.reverse hr
    rw [List.reverse_reverse] at this
    rw [this, ← h]; simp
  · exact Or.inl h

theorem dropTrailingEmpty_snoc (L : List Str) : dropTrailingEmpty (L ++ [[]]) = L := by
  simp [dropTrailingEmpty]

theorem dropTrailingEmpty_keep (L : List Str) (c : Str) (hc : c ≠ []) : dropTrailingEmpty (L ++ [c]) = L ++ [c] := by
  unfold dropTrailingEmpty
  split
  · rename_i r hr
    simp at hr
    exact absurd hr.1 hc
  · rfl

/-! ## (4) hand side: `classifyRest` on an efp line -/


theorem efp_prefix {E : Str} (h : lowerS E = efpWord) :
    ∃ c1 c2 c3, E = [c1, c2, c3] ∧ c1.toLower = 'e' ∧ c2.toLower = 'f' ∧ c3.toLower = 'p' := by
  match E, h with
  | [c1, c2, c3], h =>
    simp only [lowerS, efpWord, List.map_cons, List.map_nil, List.cons.injEq, and_true] at h
    exact ⟨c1, c2, c3, rfl, h.1, h.2.1, h.2.2⟩
  | [], h => simp [lowerS, efpWord] at h
  | [_], h => simp [lowerS, efpWord] at h
  | [_, _], h => simp [lowerS, efpWord] at h
  | _ :: _ :: _ :: _ :: _, h => simp [lowerS, efpWord] at h

theorem classifyUnits_e (r : Str) : classifyUnits ('e' :: r) = none := by
  unfold classifyUnits
  split
  · rename_i heq
    injection heq with h1 _
    exact absurd h1 (by decide)
  · rfl

theorem classifySym_e {s r : Str} (h : lowerS s = 'e' :: r) : classifySym s = none := by
  unfold classifySym
  dsimp only
  rw [h]
  split
  · rename_i heq
    injection heq with h1 _
    exact absurd h1 (by decide)
  · rfl

/-- the keyword branches of `classifyRest` do not fire on a line that starts with `efp` and a separator character -/
theorem classifyRest_efp {s r : Str} (hl : lowerS s = 'e' :: 'f' :: 'p' :: r) (hlen : 4 ≤ s.length)
    {e f x y z a b c : Str} (hd : dropTrailingEmpty (splitSep s) = [e, f, x, y, z, a, b, c]) (he : lowerS e = efpWord) (hf0 : f ≠ [])
    (hf : ∀ d ∈ f, isWord d = true) {px py pz pa pb pc : NumParts} (hx : parseNumber x = some px) (hy : parseNumber y = some py)
    (hz : parseNumber z = some pz) (ha : parseNumber a = some pa) (hb : parseNumber b = some pb) (hc : parseNumber c = some pc) :
    classifyRest s = .efp f [px, py, pz, pa, pb, pc] := by
  have hs2 : ¬ (s == "--".toList) = true := by
    intro h2
    rw [beq_iff_eq] at h2
    rw [h2] at hlen
    simp at hlen
  have e1 : ¬ ('e' :: 'f' :: 'p' :: r == "no_com".toList || 'e' :: 'f' :: 'p' :: r == "nocom".toList) = true := by simp
  have e2 : ¬ ('e' :: 'f' :: 'p' :: r == "no_reorient".toList || 'e' :: 'f' :: 'p' :: r == "noreorient".toList) = true := by simp
  have e3 : ¬ (List.take 7 ('e' :: 'f' :: 'p' :: r) == "pubchem".toList) = true := by simp
  have e4 : classifyUnits ('e' :: 'f' :: 'p' :: r) = none := classifyUnits_e _
  have hcond : (lowerS e == "efp".toList && !f.isEmpty && f.all isWord) = true := by
    rw [he]
    have : f.isEmpty = false := by simpa [List.isEmpty_iff] using hf0
    simp [efpWord, this, List.all_eq_true]
    exact hf
  unfold classifyRest
  dsimp only
  rw [hl, if_neg e1, if_neg e2, if_neg hs2, if_neg e3, e4]
  dsimp only
  rw [classifySym_e hl]
  dsimp only
  rw [hd]
  dsimp only
  rw [if_pos hcond, hx, hy, hz, ha, hb, hc]

theorem classifyRest_efp_inv {s f : Str} {h : List NumParts} (hc : classifyRest s = .efp f h) :
    ∃ e x y z a b c, dropTrailingEmpty (splitSep s) = [e, f, x, y, z, a, b, c] ∧ lowerS e = efpWord ∧ f ≠ [] ∧
      (∀ d ∈ f, isWord d = true) ∧ isNumber x = true ∧ isNumber y = true ∧ isNumber z = true ∧ isNumber a = true ∧
      isNumber b = true ∧ isNumber c = true := by
  unfold classifyRest at hc
  dsimp only at hc
  split at hc
  · cases hc
  split at hc
  · cases hc
  split at hc
  · cases hc
  split at hc
  · cases hc
  split at hc
  · cases hc
  split at hc
  · cases hc
  split at hc
  · split at hc <;> cases hc
  · rename_i e f' x y z a b c hd
    split at hc
    · rename_i hcond
      split at hc
      · rename_i px py pz pa pb pc hx hy hz ha hb hcc
        injection hc with h1 h2
        subst h1
        simp only [Bool.and_eq_true, beq_iff_eq, Bool.not_eq_true', List.isEmpty_eq_false_iff, List.all_eq_true] at hcond
        exact ⟨e, x, y, z, a, b, c, hd, hcond.1.1, hcond.1.2, hcond.2, by simp [isNumber, hx], by simp [isNumber, hy],
          by simp [isNumber, hz], by simp [isNumber, ha], by simp [isNumber, hb], by simp [isNumber, hcc]⟩
      · cases hc
    · cases hc
  · cases hc

/-! ## (5) hand side: `efpHand` and the decomposition -/

theorem word_not_sep {c : Char} (h : isWord c = true) : isSep c = false := by
  rw [isWord_nat] at h
  rw [isSep_nat, Bool.eq_false_iff]
  simp only [isWordC, isAlphaC, isDigitC, Bool.or_eq_true, Bool.and_eq_true, decide_eq_true_eq, beq_iff_eq] at h
  simp only [ne_eq, Bool.or_eq_true, beq_iff_eq]
  omega

theorem classify_of_fields {s : Str} (hs : s ≠ []) {a b c d e : Str} {T : List Str} (h : splitSep s = a :: b :: c :: d :: e :: T) :
    classify s = classifyRest s := by
  unfold classify
  have hse : s.isEmpty = false := by simpa [List.isEmpty_iff] using hs
  simp only [hse, Bool.false_eq_true, if_false, h]

theorem efpHand_of_dec {s E sp0 f : Str} {ps : List (Str × Str)} {tl : Str} (h : EfpDec s E sp0 f ps tl) :
    efpHand s = some (f, ps.map (·.2)) := by
  obtain ⟨rfl, hE, hsp, hf0, hf, hl, hps, htl⟩ := h
  obtain ⟨c1, c2, c3, rfl, h1, h2, h3⟩ := efp_prefix hE
  have hEsep : ∀ c ∈ [c1, c2, c3], isSep c = false := by
    intro c hc
    simp only [List.mem_cons, List.not_mem_nil, or_false] at hc
    rcases hc with rfl | rfl | rfl
    · exact Kw.letter_not_sep (Kw.letter_of_lower h1 (by decide))
    · exact Kw.letter_not_sep (Kw.letter_of_lower h2 (by decide))
    · exact Kw.letter_not_sep (Kw.letter_of_lower h3 (by decide))
  have hall : ∀ p ∈ (sp0, f) :: ps, SepOk p.1 ∧ TokOk p.2 := by
    intro p hp
    simp only [List.mem_cons] at hp
    rcases hp with rfl | hp
    · exact ⟨hsp, hf0, fun c hc => word_not_sep (hf c hc)⟩
    · exact ⟨(hps p hp).1, isNumber_tokOk (hps p hp).2⟩
  have hsplit := splitSep_joinR tl htl ((sp0, f) :: ps) [c1, c2, c3] hEsep hall
  match ps, hl, hps, hsplit with
  | [(s1, t1), (s2, t2), (s3, t3), (s4, t4), (s5, t5), (s6, t6)], _, hps, hsplit =>
    obtain ⟨px, hx⟩ := Option.isSome_iff_exists.mp (hps (s1, t1) (by simp)).2
    obtain ⟨py, hy⟩ := Option.isSome_iff_exists.mp (hps (s2, t2) (by simp)).2
    obtain ⟨pz, hz⟩ := Option.isSome_iff_exists.mp (hps (s3, t3) (by simp)).2
    obtain ⟨pa, ha⟩ := Option.isSome_iff_exists.mp (hps (s4, t4) (by simp)).2
    obtain ⟨pb, hb⟩ := Option.isSome_iff_exists.mp (hps (s5, t5) (by simp)).2
    obtain ⟨pc, hc⟩ := Option.isSome_iff_exists.mp (hps (s6, t6) (by simp)).2
    have ht6 : t6 ≠ [] := isNumber_ne_nil (hps (s6, t6) (by simp)).2
    obtain ⟨d, sp0', rfl⟩ : ∃ d sp0', sp0 = d :: sp0' := by
      cases sp0 with
      | nil => exact absurd rfl hsp.1
      | cons a b => exact ⟨a, b, rfl⟩
    simp only [joinR, List.map_cons, List.map_nil] at hsplit ⊢
    generalize hS : [c1, c2, c3] ++ (d :: sp0' ++ (f ++ (s1 ++ (t1 ++ (s2 ++ (t2 ++ (s3 ++ (t3 ++ (s4 ++ (t4 ++ (s5 ++ (t5 ++ (s6 ++ (t6 ++ tl)))))))))))))) = S at hsplit ⊢
    have hl' : ∃ r, lowerS S = 'e' :: 'f' :: 'p' :: r := by
      rw [← hS]
      simp only [lowerS, List.cons_append, List.nil_append, List.map_cons, h1, h2, h3]
      exact ⟨_, rfl⟩
    obtain ⟨r, hl'⟩ := hl'
    have hlen : 4 ≤ S.length := by rw [← hS]; simp
    have hne : S ≠ [] := by rw [← hS]; simp
    have hd : dropTrailingEmpty (splitSep S) = [[c1, c2, c3], f, t1, t2, t3, t4, t5, t6] := by
      rw [hsplit]
      by_cases h0 : tl = []
      · simp only [h0, if_true, List.append_nil]
        exact dropTrailingEmpty_keep [[c1, c2, c3], f, t1, t2, t3, t4, t5] t6 ht6
      · simp only [h0, if_false]
        exact dropTrailingEmpty_snoc [[c1, c2, c3], f, t1, t2, t3, t4, t5, t6]
    have hrest := classifyRest_efp hl' hlen hd hE hf0 hf hx hy hz ha hb hc
    have hcl : classify S = .efp f [px, py, pz, pa, pb, pc] := by
      rw [classify_of_fields hne hsplit, hrest]
    unfold efpHand
    rw [hcl, hsplit]
    rfl

theorem joinR_snoc (tl : Str) : ∀ ps : List (Str × Str), joinR (ps ++ [(tl, [])]) [] = joinR ps tl
  | [] => by simp [joinR]
  | (sp, t) :: ps => by simp [joinR, joinR_snoc tl ps]

theorem nums_of_map {ps : List (Str × Str)} {x y z a b c : Str} (hmap : ps.map (·.2) = [x, y, z, a, b, c])
    (hps : ∀ p ∈ ps, SepOk p.1 ∧ ∀ d ∈ p.2, isSep d = false)
    (hx : isNumber x = true) (hy : isNumber y = true) (hz : isNumber z = true) (ha : isNumber a = true) (hb : isNumber b = true)
    (hc : isNumber c = true) : ps.length = 6 ∧ ∀ p ∈ ps, SepOk p.1 ∧ isNumber p.2 = true := by
  refine ⟨by simpa using congrArg List.length hmap, fun p hp => ⟨(hps p hp).1, ?_⟩⟩
  have : p.2 ∈ ps.map (·.2) := List.mem_map.mpr ⟨p, hp, rfl⟩
  rw [hmap] at this
  simp only [List.mem_cons, List.not_mem_nil, or_false] at this
  rcases this with h | h | h | h | h | h <;> rw [h] <;> assumption

theorem dec_of_efpHand {s : Str} {v : Str × List Str} (h : efpHand s = some v) : ∃ E sp0 f ps tl, EfpDec s E sp0 f ps tl := by
  unfold efpHand at h
  split at h
  · rename_i f hh hcl
    have hrest := Kw.classify_kw hcl (by simp) (by simp) (by simp)
    obtain ⟨e, x, y, z, a, b, c, hd, he, hf0, hf, hx, hy, hz, ha, hb, hc⟩ := classifyRest_efp_inv hrest
    rcases dropTrailingEmpty_inv hd with hs | hs
    · obtain ⟨ps, hs', hmap, _, hps⟩ := splitSep_inv _ s e hs
      obtain ⟨⟨sp0, f'⟩, ps', rfl, hf', hmap'⟩ := List.map_eq_cons_iff.mp hmap
      simp only at hf'
      subst hf'
      obtain ⟨hl, hnum⟩ := nums_of_map hmap' (fun p hp => hps p (by simp [hp])) hx hy hz ha hb hc
      exact ⟨e, sp0, f', ps', [], hs', he, (hps (sp0, f') (by simp)).1, hf0, hf, hl, hnum, by simp⟩
    · simp only [List.cons_append, List.nil_append] at hs
      obtain ⟨ps, hs', hmap, _, hps⟩ := splitSep_inv _ s e hs
      obtain ⟨⟨sp0, f'⟩, ps1, rfl, hf', hmap1⟩ := List.map_eq_cons_iff.mp hmap
      simp only at hf'
      subst hf'
      have hmap1' : ps1.map (·.2) = [x, y, z, a, b, c] ++ [[]] := hmap1
      obtain ⟨l1, l2, rfl, hm1, hm2⟩ := List.map_eq_append_iff.mp hmap1'
      obtain ⟨⟨tl, t'⟩, l3, rfl, ht', hm3⟩ := List.map_eq_cons_iff.mp hm2
      simp only at ht'
      subst ht'
      have : l3 = [] := List.map_eq_nil_iff.mp hm3
      subst this
      obtain ⟨hl, hnum⟩ := nums_of_map hm1 (fun p hp => hps p (by simp [hp])) hx hy hz ha hb hc
      refine ⟨e, sp0, f', l1, tl, ?_, he, (hps (sp0, f') (by simp)).1, hf0, hf, hl, hnum, (hps (tl, []) (by simp)).1.2⟩
      rw [hs']
      simp only [joinR, joinR_snoc]
  · cases h

end Efp

/-! ## (6) the theorem -/

theorem efpRe_eq_groups (s : Str) : efpRe s = (FromStringRegex.efpxyzabc.matchPrefix (toBytes s)).bind Efp.efpGroups := rfl

/-- **efpxyzabc**: the one-line EFP fragment pattern, run by the generic engine on the generated AST and read through the groups
efpfile / x / y / z / a / b / c, is what `classify` answers (file name and the six coordinate texts), for every string -/
theorem efp_eq_regex (s : Str) : efpRe s = efpHand s := by
  rw [efpRe_eq_groups, matchPrefix_eq_head]
  -- soundness: every way to match projects to M1's answer
  have hA : ∀ w ∈ FromStringRegex.efpxyzabc.ms (St.init (toBytes s)), Efp.efpGroups w = efpHand s := by
    intro w hw
    obtain ⟨E, sp0, f, ps, tl, hdec, hg⟩ := Efp.efp_sound s w hw
    rw [hg, Efp.efpHand_of_dec hdec]
  -- completeness: when M1 answers, there is a way to match
  have hB : FromStringRegex.efpxyzabc.ms (St.init (toBytes s)) = [] → efpHand s = none := by
    intro hnil
    cases hl : efpHand s with
    | none => rfl
    | some v =>
      exfalso
      obtain ⟨E, sp0, f, ps, tl, hdec⟩ := Efp.dec_of_efpHand hl
      obtain ⟨w, hw⟩ := Efp.efp_complete s E sp0 f ps tl hdec
      rw [hnil] at hw
      simp at hw
  cases hl : FromStringRegex.efpxyzabc.ms (St.init (toBytes s)) with
  | nil => simp [hB hl]
  | cons w l' =>
    have := hA w (by rw [hl]; simp)
    simp [this]

end QcelVerif.MolText
