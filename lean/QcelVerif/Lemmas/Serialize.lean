import QcelVerif.Model.Serialize
/-! Helper lemmas for C10 (not property statements). Core Lean only. -/
namespace QcelVerif.Ser

/-! ### hex -/

theorem unhex_hex_digit : ∀ n, n < 16 → unhexDigit (hexDigit n) = some n := by decide

theorem ofNat_div_mod (b : UInt8) : UInt8.ofNat (16 * (b.toNat / 16) + b.toNat % 16) = b := by
  have : 16 * (b.toNat / 16) + b.toNat % 16 = b.toNat := by omega
  rw [this]; simp

/-! ### big-endian fields -/

theorem beBytes_length (k n : Nat) : (beBytes k n).length = k := by
  induction k with
  | zero => simp [beBytes]
  | succ k ih => simp [beBytes, ih]

theorem toNat_ofNat_mod (n : Nat) : (UInt8.ofNat (n % 256)).toNat = n % 256 := by
  simp [UInt8.toNat_ofNat']

theorem beNat_beBytes_mod (k n : Nat) : beNat (beBytes k n) = n % 256 ^ k := by
  induction k with
  | zero => simp [beBytes, beNat, Nat.mod_one]
  | succ k ih =>
    simp only [beBytes, beNat, beBytes_length, ih, toNat_ofNat_mod]
    -- goal: n / 256^k % 256 * 256^k + n % 256^k = n % 256^(k+1)
    rw [Nat.pow_succ, Nat.mod_mul, Nat.mul_comm (256 ^ k) (n / 256 ^ k % 256), Nat.add_comm]

/-! ### chunk / flatten -/

theorem chunk_flatten {α : Type} (m : Nat) : ∀ (rows : List (List α)), (∀ r ∈ rows, r.length = m) →
    chunk m rows.length rows.flatten = rows
  | [], _ => by simp [chunk]
  | r :: t, h => by
    have hr : r.length = m := h r (List.mem_cons_self ..)
    have ht : ∀ r' ∈ t, r'.length = m := fun r' hr' => h r' (List.mem_cons_of_mem _ hr')
    simp only [List.length_cons, List.flatten_cons, chunk]
    rw [← hr, List.take_left', List.drop_left']
    · rw [hr, chunk_flatten m t ht]
    · rfl
    · rfl

theorem length_flatten_rows {α : Type} (m : Nat) : ∀ (rows : List (List α)), (∀ r ∈ rows, r.length = m) →
    rows.flatten.length = rows.length * m
  | [], _ => by simp
  | r :: t, h => by
    have hr : r.length = m := h r (List.mem_cons_self ..)
    have ht : ∀ r' ∈ t, r'.length = m := fun r' hr' => h r' (List.mem_cons_of_mem _ hr')
    simp only [List.flatten_cons, List.length_append, List.length_cons, hr, length_flatten_rows m t ht]
    rw [Nat.add_mul, Nat.one_mul, Nat.add_comm]

/-! ### hex text as UTF-8 bytes and back (the json-ext `data` string) -/

theorem hexDigit_byte_char : ∀ n, n < 16 → Char.ofNat (UInt8.ofNat (hexDigit n).toNat).toNat = hexDigit n := by
  decide

theorem bytesToChars_hexBytes : ∀ data : Bytes, bytesToChars (hexBytes data) = hex data
  | [] => by simp [bytesToChars, hexBytes, hex]
  | b :: t => by
    have hb : b.toNat < 256 := b.toNat_lt
    have h1 : b.toNat / 16 < 16 := by omega
    have h2 : b.toNat % 16 < 16 := by omega
    have ih := bytesToChars_hexBytes t
    simp only [bytesToChars, hexBytes, hex, List.map_cons, List.map_map] at ih ⊢
    rw [hexDigit_byte_char _ h1, hexDigit_byte_char _ h2, ih]

/-! ### envelope hooks -/

theorem shapeOfVals_map : ∀ shape : List Nat, shapeOfVals (shape.map fun (n : Nat) => Val.int (n : Int)) = some shape
  | [] => by simp [shapeOfVals]
  | n :: t => by
    simp only [List.map_cons, shapeOfVals, shapeOfVals_map t]
    simp

theorem prodL_singleton (n : Nat) : prodL [n] = n := by simp [prodL]

/-- what the size test of `np.frombuffer` + `arr.shape = …` needs from well-formedness -/
theorem wf_arith {isz len p : Nat} (hpos : 0 < isz) (hlen : len = isz * p) : len % isz = 0 ∧ len / isz = p := by
  subst hlen
  exact ⟨Nat.mul_mod_right isz p, Nat.mul_div_cancel_left p hpos⟩

/-- a list of length ≥ 1 that is not longer than 1 is a singleton -/
theorem singleton_of_length {α : Type} (l : List α) (h1 : 1 ≤ l.length) (h2 : ¬ l.length > 1) : ∃ a, l = [a] := by
  match l, h1, h2 with
  | [a], _, _ => exact ⟨a, rfl⟩
  | _ :: _ :: _, _, h2 => simp at h2

end QcelVerif.Ser
