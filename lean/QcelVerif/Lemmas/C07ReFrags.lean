import QcelVerif.Lemmas.C07ReBridge
import QcelVerif.Props.C07Text
/-!
C07 — the fragment marker of psi4 molecule texts

    fragment_marker = re.compile(r'^\s*--\s*$', re.MULTILINE)        used as   re.split(fragment_marker, text)

computed by the generic regex engine on the generated AST (`FromStringRegex.fragmentMarker`), each field then cut into its
non-empty stripped lines (what the callers do next), equals M1's line view — the non-empty stripped lines of the text, cut at
the lines that are `--` — for EVERY text (no length bound): `frags_eq_regex`.

  * `fragmentMarker_shape` (rfl): `^`, `\s*`, `-`, `-`, `\s*`, `$`
  * one match attempt at a cursor, through the list-of-successes semantics (`fm_mem_shape`, `fm_mem_exists`; on `Str`:
    `fm_bt_some`, `fm_bt_ne_none`, `fm_bt_mid`): there is a match iff the cursor is at a line start (start of text / after a
    newline) and the text is  W ++ "--" ++ W2 ++ rest  with W, W2 whitespace (`\s` also eats newlines: blank lines before and
    after the marker line are swallowed) and `rest` empty or starting with a newline; the match ends in front of such a `rest`.
    WHICH such end the greedy `\s*` backtracks to is immaterial (every choice leaves the same non-empty stripped lines), so
    only the first way's shape is used, never its exact position.
  * text side: `linesOf_marker` (such a text has the lines `--` :: lines of `rest`), `strip_eq_marker` (a newline-free line
    that strips to `--` has that form), `classify l == .marker ↔ l = "--"` (`isMarker_iff`)
  * the scan (`scan_fm`): strong induction on the text from a cursor at a line start; a match gives an empty first field,
    no match skips the line (`skip_line_nl`, `skip_line_end`: inside a line `^` fails), which is then not a marker line.
-/
namespace QcelVerif.MolText
open QcelVerif.Regex QcelVerif.Gen

namespace FragMarker

def ws0 : Re := .rep 0 none true (.cls false [.space])
def dash : Re := .cls false [.ch 45]
def fmRe : Re := .seq .bolMulti (.seq ws0 (.seq dash (.seq dash (.seq ws0 .eolMulti))))

def lineStart (p : Option Nat) : Bool := p.isNone || p == some 10

theorem mem_ms_bolMulti {st x : St} : x ∈ Re.bolMulti.ms st ↔ lineStart st.prev = true ∧ x = st := by
  by_cases h : lineStart st.prev = true
  · have h' := h
    unfold lineStart at h'
    simp [Re.ms, holdsAt, h, h']
  · have h' := h
    unfold lineStart at h'
    simp [Re.ms, holdsAt, h, h']

theorem mem_ms_eolMulti {st x : St} :
    x ∈ Re.eolMulti.ms st ↔ (st.rest = [] ∨ st.rest.head? = some 10) ∧ x = st := by
  cases hr : st.rest with
  | nil => simp [Re.ms, holdsAt, hr]
  | cons c t =>
    by_cases hc : c = 10 <;> simp [Re.ms, holdsAt, hr, hc]

theorem clsDash (c : Nat) : clsMem false [.ch 45] c = true ↔ c = 45 := by
  simp [clsMem, Item.mem]

/-- every way to match the marker at a cursor: shape of the text and of the end state -/
theorem fm_mem_shape {p : Option Nat} {s : List Nat} {caps : Caps} {x : St} (hx : x ∈ fmRe.ms ⟨p, s, caps⟩) :
    lineStart p = true ∧ ∃ W W2 rest, s = W ++ 45 :: 45 :: (W2 ++ rest) ∧
      (∀ c ∈ W, clsMem false [.space] c = true) ∧ (∀ c ∈ W2, clsMem false [.space] c = true) ∧
      (rest = [] ∨ rest.head? = some 10) ∧ x.rest = rest := by
  unfold fmRe at hx
  obtain ⟨m1, h1, hx⟩ := mem_ms_seq.mp hx
  obtain ⟨hls, rfl⟩ := mem_ms_bolMulti.mp h1
  obtain ⟨m2, h2, hx⟩ := mem_ms_seq.mp hx
  obtain ⟨W, r1, hs1, hW, rfl⟩ := mem_ms_star.mp h2
  obtain ⟨m3, h3, hx⟩ := mem_ms_seq.mp hx
  obtain ⟨c1, t1, hr1, hc1, rfl⟩ := mem_ms_cls.mp h3
  obtain ⟨m4, h4, hx⟩ := mem_ms_seq.mp hx
  obtain ⟨c2, t2, hr2, hc2, rfl⟩ := mem_ms_cls.mp h4
  obtain ⟨m5, h5, hx⟩ := mem_ms_seq.mp hx
  obtain ⟨W2, r3, hs3, hW2, rfl⟩ := mem_ms_star.mp h5
  obtain ⟨hend, rfl⟩ := mem_ms_eolMulti.mp hx
  rw [clsDash] at hc1 hc2
  subst hc1; subst hc2
  simp only [adv_rest'] at hr1 hr2 hs3 hs1 hend
  refine ⟨hls, W, W2, r3, ?_, hW, hW2, hend, rfl⟩
  subst hr1; subst hr2; subst hs3
  exact hs1

theorem fm_mem_exists {p : Option Nat} {caps : Caps} (hls : lineStart p = true) (W W2 rest : List Nat)
    (hW : ∀ c ∈ W, clsMem false [.space] c = true) (hW2 : ∀ c ∈ W2, clsMem false [.space] c = true)
    (hend : rest = [] ∨ rest.head? = some 10) :
    ∃ x, x ∈ fmRe.ms ⟨p, W ++ 45 :: 45 :: (W2 ++ rest), caps⟩ := by
  unfold fmRe
  refine ⟨_, mem_ms_seq.mpr ⟨_, mem_ms_bolMulti.mpr ⟨hls, rfl⟩, mem_ms_seq.mpr ⟨_, mem_ms_star.mpr ⟨W, _, rfl, hW, rfl⟩,
    mem_ms_seq.mpr ⟨_, mem_ms_cls.mpr ⟨45, _, rfl, by decide, rfl⟩,
    mem_ms_seq.mpr ⟨_, mem_ms_cls.mpr ⟨45, _, rfl, by decide, rfl⟩,
    mem_ms_seq.mpr ⟨_, mem_ms_star.mpr ⟨W2, rest, rfl, hW2, rfl⟩, mem_ms_eolMulti.mpr ⟨hend, rfl⟩⟩⟩⟩⟩⟩⟩

/-! ## text lemmas -/

theorem classifyRest_marker (s : Str) (h : classifyRest s = .marker) : s = "--".toList := by
  unfold classifyRest at h
  simp only [] at h
  repeat' split at h
  all_goals first | (cases h; done) | skip
  all_goals simp_all

theorem classify_marker (s : Str) (h : classify s = .marker) : s = "--".toList := by
  unfold classify at h
  repeat' split at h
  all_goals first | (cases h; done) | exact classifyRest_marker s h

theorem isMarker_iff (s : Str) : (classify s == .marker) = (s == "--".toList) := by
  rw [Bool.eq_iff_iff]
  simp only [beq_iff_eq]
  constructor
  · exact classify_marker s
  · intro h; subst h; decide

theorem linesOf_nil : linesOf [] = [] := by decide

theorem linesOf_ws_cons (w : Char) (x : Str) (hw : isWs w = true) : linesOf (w :: x) = linesOf x := by
  obtain ⟨h, r, hr⟩ := splitLines_exists x
  unfold linesOf
  by_cases hn : w = '\n'
  · subst hn
    have hs : strip ([] : Str) = [] := by decide
    simp [splitLines, hr, hs]
  · have : (w == '\n') = false := by simpa using hn
    simp only [splitLines, hr, this, Bool.false_eq_true, if_false, List.map_cons]
    have : strip (w :: h) = strip h := by
      have := strip_frame [w] h [] (by intro c hc; simp at hc; subst hc; exact hw) (by intro c hc; cases hc)
      simpa using this
    rw [this]

theorem linesOf_ws_prefix (W x : Str) (hW : ∀ c ∈ W, isWs c = true) : linesOf (W ++ x) = linesOf x := by
  induction W with
  | nil => rfl
  | cons w W ih =>
    rw [List.cons_append, linesOf_ws_cons w _ (hW w (by simp)), ih (fun c hc => hW c (by simp [hc]))]

def lineL (l : Str) : List Str := if (strip l).isEmpty then [] else [strip l]

theorem linesOf_line (l : Str) (hl : ∀ c ∈ l, (c == '\n') = false) : linesOf l = lineL l := by
  unfold linesOf lineL
  rw [splitLines_line l hl]
  by_cases h : (strip l).isEmpty = true <;> simp [h]

theorem linesOf_line_nl (l t : Str) (hl : ∀ c ∈ l, (c == '\n') = false) : linesOf (l ++ '\n' :: t) = lineL l ++ linesOf t := by
  unfold linesOf lineL
  rw [splitLines_append_nl l t hl]
  by_cases h : (strip l).isEmpty = true <;> simp [h]


/-! ## a marker line in the text -/

theorem ws_split (W rest : Str) (hW : ∀ c ∈ W, isWs c = true) (hr : rest = [] ∨ ∃ t, rest = '\n' :: t) :
    ∃ u t', W ++ rest = u ++ t' ∧ (∀ c ∈ u, isWs c = true) ∧ (∀ c ∈ u, (c == '\n') = false) ∧
      (t' = [] ∨ ∃ t, t' = '\n' :: t) ∧ linesOf t' = linesOf rest := by
  induction W with
  | nil => exact ⟨[], rest, rfl, by simp, by simp, hr, rfl⟩
  | cons w W ih =>
    have hw := hW w (by simp)
    have hW' : ∀ c ∈ W, isWs c = true := fun c hc => hW c (by simp [hc])
    by_cases hn : w = '\n'
    · subst hn
      refine ⟨[], '\n' :: (W ++ rest), rfl, by simp, by simp, Or.inr ⟨_, rfl⟩, ?_⟩
      rw [linesOf_ws_cons _ _ hw, linesOf_ws_prefix _ _ hW']
    · obtain ⟨u, t', h1, h2, h3, h4, h5⟩ := ih hW'
      refine ⟨w :: u, t', by simp [h1], ?_, ?_, h4, h5⟩
      · intro c hc
        rw [List.mem_cons] at hc
        rcases hc with rfl | hc
        · exact hw
        · exact h2 c hc
      · intro c hc
        rw [List.mem_cons] at hc
        rcases hc with rfl | hc
        · simpa using hn
        · exact h3 c hc

theorem lineL_marker (u : Str) (hu : ∀ c ∈ u, isWs c = true) : lineL ('-' :: '-' :: u) = ["--".toList] := by
  have h := strip_frame [] "--".toList u (by intro c hc; cases hc) hu
  have h2 : strip "--".toList = "--".toList := by decide
  rw [h2] at h
  have h3 : ([] : Str) ++ "--".toList ++ u = '-' :: '-' :: u := rfl
  rw [h3] at h
  unfold lineL
  rw [h]
  rfl

/-- a line that strips to `--`, preceded by whitespace (blank lines included), followed by whitespace up to a line end -/
theorem linesOf_marker (W W2 rest : Str) (hW : ∀ c ∈ W, isWs c = true) (hW2 : ∀ c ∈ W2, isWs c = true)
    (hr : rest = [] ∨ ∃ t, rest = '\n' :: t) :
    linesOf (W ++ '-' :: '-' :: (W2 ++ rest)) = "--".toList :: linesOf rest := by
  rw [linesOf_ws_prefix _ _ hW]
  obtain ⟨u, t', h1, h2, h3, h4, h5⟩ := ws_split W2 rest hW2 hr
  rw [h1, ← h5]
  have hnf : ∀ c ∈ '-' :: '-' :: u, (c == '\n') = false := by
    intro c hc
    simp only [List.mem_cons] at hc
    rcases hc with rfl | rfl | hc
    · decide
    · decide
    · exact h3 c hc
  rcases h4 with rfl | ⟨t, rfl⟩
  · rw [List.append_nil, linesOf_line _ hnf, lineL_marker u h2, linesOf_nil]
  · have : '-' :: '-' :: (u ++ '\n' :: t) = ('-' :: '-' :: u) ++ '\n' :: t := rfl
    rw [this, linesOf_line_nl _ _ hnf, lineL_marker u h2, linesOf_ws_cons _ _ nl_is_ws]
    rfl

theorem mem_takeWhile_true (p : Char → Bool) : ∀ (l : Str) (c : Char), c ∈ l.takeWhile p → p c = true
  | [], c, h => by cases h
  | d :: l, c, h => by
    by_cases hd : p d = true
    · simp only [List.takeWhile_cons, hd, if_true, List.mem_cons] at h
      rcases h with rfl | h
      · exact hd
      · exact mem_takeWhile_true p l c h
    · simp [hd] at h

theorem strip_eq_marker (l : Str) (h : strip l = "--".toList) :
    ∃ W W2, l = W ++ '-' :: '-' :: W2 ∧ (∀ c ∈ W, isWs c = true) ∧ (∀ c ∈ W2, isWs c = true) := by
  unfold strip stripR stripL at h
  have hl : l = l.takeWhile isWs ++ l.dropWhile isWs := (List.takeWhile_append_dropWhile).symm
  generalize hd : l.dropWhile isWs = d at h hl
  have he : d.reverse = d.reverse.takeWhile isWs ++ d.reverse.dropWhile isWs := (List.takeWhile_append_dropWhile).symm
  have h' : d.reverse.dropWhile isWs = "--".toList := by
    have := congrArg List.reverse h
    rw [List.reverse_reverse] at this
    rw [this]; rfl
  rw [h'] at he
  have hd2 : d = "--".toList ++ (d.reverse.takeWhile isWs).reverse := by
    have := congrArg List.reverse he
    rw [List.reverse_reverse, List.reverse_append] at this
    have hrev : "--".toList.reverse = "--".toList := by decide
    rw [hrev] at this
    exact this
  refine ⟨l.takeWhile isWs, (d.reverse.takeWhile isWs).reverse, ?_, ?_, ?_⟩
  · rw [hd2] at hl; exact hl
  · intro c hc; exact (mem_takeWhile_true _ _ _ hc)
  · intro c hc
    rw [List.mem_reverse] at hc
    exact (mem_takeWhile_true _ _ _ hc)

/-! ## one match attempt, on `Str` -/

theorem fm_bt_some {p : Option Nat} {s : Str} {st : St} (h : fmRe.bt some ⟨p, toBytes s, []⟩ = some st) :
    lineStart p = true ∧ ∃ W W2 rest : Str, s = W ++ '-' :: '-' :: (W2 ++ rest) ∧
      (∀ c ∈ W, isWs c = true) ∧ (∀ c ∈ W2, isWs c = true) ∧ (rest = [] ∨ ∃ t, rest = '\n' :: t) ∧ st.rest = toBytes rest := by
  rw [bt_eq_findSome, findSome?_some_eq_head?] at h
  obtain ⟨hls, Wn, W2n, restn, hs, hW, hW2, hend, hrest⟩ := fm_mem_shape (head?_mem h)
  refine ⟨hls, ?_⟩
  obtain ⟨a, b, rfl, rfl, hb⟩ := toBytes_eq_append hs
  cases b with
  | nil => simp at hb
  | cons c1 b =>
    cases b with
    | nil => simp at hb
    | cons c2 b =>
      simp only [toBytes_cons, List.cons.injEq] at hb
      obtain ⟨h1, h2, h3⟩ := hb
      obtain ⟨a2, b2, rfl, rfl, rfl⟩ := toBytes_eq_append h3.symm
      have e1 : c1 = '-' := toNat_inj h1.symm
      have e2 : c2 = '-' := toNat_inj h2.symm
      subst e1; subst e2
      refine ⟨a, a2, b2, rfl, (all_toBytes _ isWs cls_space a).mp hW, (all_toBytes _ isWs cls_space a2).mp hW2, ?_, hrest⟩
      cases b2 with
      | nil => exact Or.inl rfl
      | cons c t =>
        right
        rcases hend with hend | hend
        · simp at hend
        · simp only [toBytes_cons, List.head?_cons, Option.some.injEq] at hend
          have : c = '\n' := toNat_inj hend
          subst this
          exact ⟨t, rfl⟩

theorem fm_bt_ne_none {p : Option Nat} (hls : lineStart p = true) (W W2 rest : Str)
    (hW : ∀ c ∈ W, isWs c = true) (hW2 : ∀ c ∈ W2, isWs c = true) (hr : rest = [] ∨ ∃ t, rest = '\n' :: t) :
    fmRe.bt some ⟨p, toBytes (W ++ '-' :: '-' :: (W2 ++ rest)), []⟩ ≠ none := by
  intro h
  rw [bt_eq_findSome, findSome?_some_eq_head?, List.head?_eq_none_iff] at h
  obtain ⟨x, hx⟩ := fm_mem_exists (p := p) (caps := []) hls (toBytes W) (toBytes W2) (toBytes rest)
    ((all_toBytes _ isWs cls_space W).mpr hW) ((all_toBytes _ isWs cls_space W2).mpr hW2)
    (by
      rcases hr with rfl | ⟨t, rfl⟩
      · exact Or.inl rfl
      · exact Or.inr rfl)
  have e : toBytes (W ++ '-' :: '-' :: (W2 ++ rest)) = toBytes W ++ 45 :: 45 :: (toBytes W2 ++ toBytes rest) := by
    simp only [toBytes_append, toBytes_cons]; rfl
  rw [← e, h] at hx
  cases hx

theorem fm_bt_mid {p : Option Nat} (hp : lineStart p = false) (s : Str) : fmRe.bt some ⟨p, toBytes s, []⟩ = none := by
  cases h : fmRe.bt some ⟨p, toBytes s, []⟩ with
  | none => rfl
  | some st => have := (fm_bt_some h).1; rw [hp] at this; cases this

/-! ## the hand splitter on lines -/

theorem splitOnMarker_ne_nil : ∀ ls : List Str, splitOnMarker ls ≠ []
  | [] => by simp [splitOnMarker]
  | l :: ls => by
    unfold splitOnMarker
    cases h : splitOnMarker ls with
    | nil => simp
    | cons a r => simp only; split <;> simp

theorem splitOnMarker_marker (ls : List Str) : splitOnMarker ("--".toList :: ls) = [] :: splitOnMarker ls := by
  rw [splitOnMarker]
  cases h : splitOnMarker ls with
  | nil => exact absurd h (splitOnMarker_ne_nil _)
  | cons a r =>
    have : (classify "--".toList == Line.marker) = true := by decide
    simp only [this, if_true]

theorem splitOnMarker_prefix (A : List Str) (hA : ∀ x ∈ A, x ≠ "--".toList) (B : List Str) (h : List Str) (r : List (List Str))
    (hB : splitOnMarker B = h :: r) : splitOnMarker (A ++ B) = (A ++ h) :: r := by
  induction A with
  | nil => exact hB
  | cons a A ih =>
    have := ih (fun x hx => hA x (by simp [hx]))
    rw [List.cons_append, splitOnMarker, this]
    have hm : (classify a == Line.marker) = false := by
      rw [isMarker_iff]
      simpa using hA a (by simp)
    simp [hm]

/-! ## the scan of `re.split` -/

/-- the fields `re.split` returns -/
def pieces (x : List Hit × List Nat) : List (List Nat) := x.1.map (fun h => h.1) ++ [x.2]

/-- the skipped character joins the first field -/
def prep (c : Nat) (x : List Hit × List Nat) : List Hit × List Nat :=
  match x.1 with
  | [] => ([], c :: x.2)
  | hit :: hits => ((c :: hit.1, hit.2) :: hits, x.2)

theorem pieces_exists (x : List Hit × List Nat) : ∃ a r, pieces x = a :: r := by
  obtain ⟨hits, tail⟩ := x
  cases hits with
  | nil => exact ⟨_, _, rfl⟩
  | cons h hs => exact ⟨_, _, rfl⟩

theorem pieces_prep (c : Nat) (x : List Hit × List Nat) (a : List Nat) (r : List (List Nat)) (h : pieces x = a :: r) :
    pieces (prep c x) = (c :: a) :: r := by
  obtain ⟨hits, tail⟩ := x
  cases hits with
  | nil =>
    simp only [pieces, List.map_nil, List.nil_append, List.cons.injEq] at h
    simp [pieces, prep, h.1, ← h.2]
  | cons hh hs =>
    simp only [pieces, List.map_cons, List.cons_append, List.cons.injEq] at h
    simp [pieces, prep, h.1, ← h.2]

theorem scanFuel_skip' (f : Nat) (p : Option Nat) (c : Nat) (t : List Nat) (h : fmRe.bt some ⟨p, c :: t, []⟩ = none) :
    scanFuel fmRe (f + 1) p (c :: t) = (scanFuel fmRe (f + 1) (some c) t).map (prep c) :=
  scanFuel_skip fmRe f p c t h

theorem lineStart_char (c : Char) (hc : (c == '\n') = false) : lineStart (some c.toNat) = false := by
  have : c.toNat ≠ 10 := by
    intro h
    have : c = '\n' := toNat_inj h
    subst this
    simp at hc
  simp [lineStart, this]

/-- no match inside a line: the rest of the line and its newline join the first field of what follows -/
theorem skip_line_nl (f : Nat) (t : Str) (y : List Hit × List Nat)
    (hy : scanFuel fmRe (f + 1) (some 10) (toBytes t) = some y) (a : List Nat) (r : List (List Nat)) (hp : pieces y = a :: r) :
    ∀ (l : Str), (∀ c ∈ l, (c == '\n') = false) → ∀ (p : Option Nat),
      fmRe.bt some ⟨p, toBytes (l ++ '\n' :: t), []⟩ = none →
      ∃ y', scanFuel fmRe (f + 1) p (toBytes (l ++ '\n' :: t)) = some y' ∧ pieces y' = (toBytes l ++ 10 :: a) :: r
  | [], _, p, hbt => by
    refine ⟨prep 10 y, ?_, pieces_prep 10 y a r hp⟩
    have := scanFuel_skip' f p 10 (toBytes t) hbt
    rw [hy] at this
    exact this
  | c :: l, hl, p, hbt => by
    have hc := hl c (by simp)
    obtain ⟨y', hy', hp'⟩ := skip_line_nl f t y hy a r hp l (fun x hx => hl x (by simp [hx])) (some c.toNat)
      (fm_bt_mid (lineStart_char c hc) _)
    refine ⟨prep c.toNat y', ?_, ?_⟩
    · have := scanFuel_skip' f p c.toNat (toBytes (l ++ '\n' :: t)) hbt
      rw [hy'] at this
      exact this
    · exact pieces_prep c.toNat y' _ r hp'

theorem skip_line_end (f : Nat) : ∀ (l : Str), (∀ c ∈ l, (c == '\n') = false) → ∀ (p : Option Nat),
      fmRe.bt some ⟨p, toBytes l, []⟩ = none → scanFuel fmRe (f + 1) p (toBytes l) = some ([], toBytes l)
  | [], _, p, hbt => scanFuel_nil fmRe f p hbt
  | c :: l, hl, p, hbt => by
    have hc := hl c (by simp)
    have ih := skip_line_end f l (fun x hx => hl x (by simp [hx])) (some c.toNat) (fm_bt_mid (lineStart_char c hc) _)
    have := scanFuel_skip' f p c.toNat (toBytes l) hbt
    rw [ih] at this
    exact this

theorem ofBytes_append (a b : List Nat) : ofBytes (a ++ b) = ofBytes a ++ ofBytes b := by simp [ofBytes]

theorem dropWhile_nl (s : Str) :
    s.dropWhile (fun c => !(c == '\n')) = [] ∨ ∃ t, s.dropWhile (fun c => !(c == '\n')) = '\n' :: t := by
  induction s with
  | nil => exact Or.inl rfl
  | cons c s ih =>
    by_cases hc : c = '\n'
    · subst hc; right; exact ⟨s, by simp⟩
    · have : (c == '\n') = false := by simpa using hc
      simp only [List.dropWhile_cons, this, Bool.not_false, if_true]
      exact ih

theorem takeWhile_nl (s : Str) : ∀ c ∈ s.takeWhile (fun c => !(c == '\n')), (c == '\n') = false := by
  intro c hc
  have := mem_takeWhile_true _ _ _ hc
  simpa using this

/-- **the scan**: from a cursor that is at a line start (or just after a match, where the rest is empty or starts with a newline) -/
theorem scan_fm : ∀ (n : Nat) (s : Str), s.length ≤ n → ∀ (f : Nat) (p : Option Nat), s.length < f →
    (lineStart p = true ∨ (s = [] ∨ ∃ t, s = '\n' :: t)) →
    ∃ y, scanFuel fmRe f p (toBytes s) = some y ∧ (pieces y).map (fun b => linesOf (ofBytes b)) = splitOnMarker (linesOf s) := by
  intro n
  induction n with
  | zero =>
    intro s hn f p hf _
    have hs : s = [] := by cases s with | nil => rfl | cons _ _ => simp at hn
    subst hs
    obtain ⟨f, rfl⟩ : ∃ f', f = f' + 1 := ⟨f - 1, by simp at hf; omega⟩
    have hbt : fmRe.bt some ⟨p, toBytes [], []⟩ = none := by
      cases h : fmRe.bt some ⟨p, toBytes [], []⟩ with
      | none => rfl
      | some st =>
        obtain ⟨_, W, W2, rest, hs, _⟩ := fm_bt_some h
        have := congrArg List.length hs
        simp at this
    exact ⟨([], []), scanFuel_nil fmRe f p hbt, by decide⟩
  | succ n ih =>
    intro s hn f p hf hcur
    obtain ⟨f, rfl⟩ : ∃ f', f = f' + 1 := ⟨f - 1, by omega⟩
    cases hbt : fmRe.bt some ⟨p, toBytes s, []⟩ with
    | some st =>
      obtain ⟨_, W, W2, rest, hs, hW, hW2, hr, hrest⟩ := fm_bt_some hbt
      have hlen : rest.length + 2 ≤ s.length := by
        have := congrArg List.length hs
        simp at this
        omega
      obtain ⟨y, hy, hyp⟩ := ih rest (by omega) f st.prev (by omega) (Or.inr hr)
      obtain ⟨c, t, hct⟩ : ∃ c t, s = c :: t := by
        cases s with
        | nil => simp at hlen
        | cons c t => exact ⟨c, t, rfl⟩
      have hhit := scanFuel_hit fmRe f p c.toNat (toBytes t) st (by rw [← toBytes_cons, ← hct]; exact hbt)
        (by rw [hrest, ← toBytes_cons, ← hct]; simp; omega)
      rw [hrest, hy] at hhit
      refine ⟨(([], st) :: y.1, y.2), by rw [hct]; exact hhit, ?_⟩
      rw [hs, linesOf_marker W W2 rest hW hW2 hr, splitOnMarker_marker, ← hyp]
      simp [pieces, ofBytes, linesOf_nil]
    | none =>
      have hsplit : s = s.takeWhile (fun c => !(c == '\n')) ++ s.dropWhile (fun c => !(c == '\n')) :=
        (List.takeWhile_append_dropWhile).symm
      have hl := takeWhile_nl s
      have hdn := dropWhile_nl s
      generalize s.takeWhile (fun c => !(c == '\n')) = l at hsplit hl
      generalize s.dropWhile (fun c => !(c == '\n')) = d at hsplit hdn
      -- the line is not a marker
      have hnm : ∀ x ∈ lineL l, x ≠ "--".toList := by
        intro x hx hxe
        subst hxe
        have hstrip : strip l = "--".toList := by
          unfold lineL at hx
          split at hx
          · cases hx
          · rw [List.mem_singleton] at hx; exact hx.symm
        rcases hcur with hls | hcur
        · obtain ⟨W, W2, hlw, hW, hW2⟩ := strip_eq_marker l hstrip
          have := fm_bt_ne_none hls W W2 d hW hW2 hdn
          apply this
          have e : W ++ '-' :: '-' :: (W2 ++ d) = s := by
            rw [hsplit, hlw]; simp
          rw [e]; exact hbt
        · have hl0 : l = [] := by
            rcases hcur with rfl | ⟨t, rfl⟩
            · have := congrArg List.length hsplit
              cases l with
              | nil => rfl
              | cons _ _ => simp at this
            · cases l with
              | nil => rfl
              | cons c l' =>
                have hc := hl c (by simp)
                simp only [List.cons_append, List.cons.injEq] at hsplit
                rw [← hsplit.1] at hc
                simp at hc
          subst hl0
          revert hstrip
          decide
      rcases hdn with hd | ⟨t, hd⟩
      · rw [hd, List.append_nil] at hsplit
        subst hsplit
        refine ⟨([], toBytes s), skip_line_end f s hl p hbt, ?_⟩
        simp only [pieces, List.map_nil, List.nil_append, List.map_cons, ofBytes_toBytes]
        rw [linesOf_line s hl]
        have := splitOnMarker_prefix (lineL s) hnm [] [] [] rfl
        simpa using this.symm
      · rw [hd] at hsplit
        have hlen : t.length < s.length := by
          have := congrArg List.length hsplit
          simp at this
          omega
        obtain ⟨y, hy, hyp⟩ := ih t (by omega) (f + 1) (some 10) (by omega) (Or.inl rfl)
        obtain ⟨a, r, hp⟩ := pieces_exists y
        rw [hsplit] at hbt
        obtain ⟨y', hy', hp'⟩ := skip_line_nl f t y hy a r hp l hl p hbt
        refine ⟨y', by rw [hsplit]; exact hy', ?_⟩
        rw [hp] at hyp
        simp only [List.map_cons] at hyp
        rw [hp', hsplit, linesOf_line_nl l t hl]
        simp only [List.map_cons]
        have e : ofBytes (toBytes l ++ 10 :: a) = l ++ '\n' :: ofBytes a := by
          rw [ofBytes_append, ofBytes_toBytes]; rfl
        rw [e, linesOf_line_nl l _ hl]
        exact (splitOnMarker_prefix (lineL l) hnm (linesOf t) _ _ hyp.symm).symm

end FragMarker
open FragMarker

/-- `fragment_marker`, stage by stage: `^` `\s*` `-` `-` `\s*` `$` -/
theorem fragmentMarker_shape : FromStringRegex.fragmentMarker = fmRe := rfl

/-- **fragment_marker**: `re.split(r'^\s*--\s*$', text)` (MULTILINE) by the generic engine on the generated AST, each field then
cut into its non-empty stripped lines, is the list of non-empty stripped lines of the text cut at the lines that are `--` -/
theorem frags_eq_regex (s : Str) : fragsRe s = fragsHand s := by
  unfold fragsRe fragsHand split scan
  rw [fragmentMarker_shape]
  obtain ⟨y, hy, hyp⟩ := scan_fm s.length s (Nat.le_refl _) ((toBytes s).length + 1) none (by simp) (Or.inl rfl)
  rw [hy]
  simp only [Option.map_some]
  exact congrArg some hyp

end QcelVerif.MolText
