import QcelVerif.Model.Fragments
import QcelVerif.Props.C05
import Mathlib.Data.List.Basic
import Mathlib.Data.List.Range
/-! Helper lemmas for the fragment-extraction model (C15). -/
namespace QcelVerif.Fragments
open QcelVerif.ChgMult (isum highSpin vfc Rules)

/-! ### `mapM` in `Option`, `pick` -/

theorem mapM_option_eq_some {α β} (f : α → Option β) : ∀ (l : List α) (r : List β),
    l.mapM f = some r ↔ l.map f = r.map some
  | [], r => by cases r <;> simp
  | a :: l, r => by
      cases r with
      | nil => cases hf : f a <;> cases hl : l.mapM f <;> simp [List.mapM_cons, hf, hl]
      | cons b r =>
        simp only [List.mapM_cons, List.map_cons, List.cons.injEq]
        cases hf : f a with
        | none => simp
        | some b' =>
          cases hl : l.mapM f with
          | none =>
            have := (mapM_option_eq_some f l r).not.1 (by simp [hl])
            simp [this]
          | some r' =>
            have := mapM_option_eq_some f l r'
            simp only [hl, true_iff] at this
            simp only [Option.bind_eq_bind, Option.bind_some, Option.pure_def, Option.some.injEq,
              List.cons.injEq, this]
            constructor
            · rintro ⟨rfl, rfl⟩; exact ⟨rfl, rfl⟩
            · rintro ⟨rfl, h⟩
              refine ⟨rfl, ?_⟩
              exact List.map_injective_iff.2 (fun _ _ e => Option.some.inj e) h

theorem pick_eq_some {β} (l : List β) (idx : List Nat) (r : List β) :
    pick l idx = some r ↔ idx.map (fun i => l[i]?) = r.map some :=
  mapM_option_eq_some _ idx r

theorem pick_length {β} {l : List β} {idx : List Nat} {r : List β} (h : pick l idx = some r) :
    r.length = idx.length := by
  have := congrArg List.length ((pick_eq_some l idx r).1 h)
  simpa using this.symm

/-! ### `ranges` -/

theorem ranges_map_length : ∀ (ks : List Nat) (s : Nat), (ranges s ks).map List.length = ks
  | [], _ => rfl
  | k :: ks, s => by simp [ranges, ranges_map_length ks]

theorem ranges_flatten : ∀ (ks : List Nat) (s : Nat),
    (ranges s ks).flatten = (List.range ks.sum).map (s + ·)
  | [], _ => by simp [ranges]
  | k :: ks, s => by
      simp only [ranges, List.flatten_cons, ranges_flatten ks, List.sum_cons, List.range_add,
        List.map_append, List.map_map]
      congr 1
      apply List.map_congr_left
      intro a _
      simp [Nat.add_assoc]

theorem sum_map_length_flatten {β} (l : List (List β)) : (l.map List.length).sum = l.flatten.length := by
  simp [List.length_flatten]

/-! ### filtering a range: positions are counts -/

theorem filter_range_getElem? (p : Nat → Bool) : ∀ (n i : Nat), i < n → p i = true →
    ((List.range n).filter p)[(List.range i).countP p]? = some i
  | 0, _, h, _ => by omega
  | n + 1, i, h, hp => by
      rw [List.range_succ, List.filter_append]
      by_cases hin : i < n
      · have ih := filter_range_getElem? p n i hin hp
        have hlt : (List.range i).countP p < ((List.range n).filter p).length := by
          by_contra hc
          rw [List.getElem?_eq_none (by omega)] at ih
          cases ih
        rw [List.getElem?_append_left hlt]
        exact ih
      · have : i = n := by omega
        subst this
        rw [List.countP_eq_length_filter, List.getElem?_append_right (Nat.le_refl _)]
        simp [hp]

theorem countP_range_lt (p : Nat → Bool) {i j : Nat} (h : i < j) (hp : p i = true) :
    (List.range i).countP p < (List.range j).countP p := by
  have h1 : (List.range (i + 1)).countP p = (List.range i).countP p + 1 := by
    rw [List.range_succ, List.countP_append]; simp [hp]
  have h2 : (List.range (i + 1)).countP p ≤ (List.range j).countP p := by
    apply List.Sublist.countP_le
    exact List.range_sublist.2 (by omega)
  omega

/-! ### `at2fr` -/

theorem at2frFrom_sound : ∀ (frs : List (List Nat)) (ifr i k : Nat), at2frFrom frs ifr i = some k →
    ∃ j fr, k = ifr + j ∧ frs[j]? = some fr ∧ i ∈ fr
  | [], _, _, _, h => by simp [at2frFrom] at h
  | fr :: rest, ifr, i, k, h => by
      unfold at2frFrom at h
      cases hr : at2frFrom rest (ifr + 1) i with
      | some k' =>
        rw [hr] at h
        simp only [Option.some.injEq] at h
        subst h
        obtain ⟨j, fr', hk, hj, hi⟩ := at2frFrom_sound rest (ifr + 1) i k' hr
        exact ⟨j + 1, fr', by omega, by simpa using hj, hi⟩
      | none =>
        rw [hr] at h
        simp only at h
        split at h
        · rename_i hc
          simp only [Option.some.injEq] at h
          exact ⟨0, fr, by omega, by simp, by simpa using hc⟩
        · cases h

theorem at2frFrom_complete : ∀ (frs : List (List Nat)) (ifr i : Nat),
    (∃ fr ∈ frs, i ∈ fr) → (at2frFrom frs ifr i).isSome = true
  | [], _, _, h => by simp at h
  | fr :: rest, ifr, i, h => by
      unfold at2frFrom
      cases hr : at2frFrom rest (ifr + 1) i with
      | some k' => simp
      | none =>
        simp only
        obtain ⟨fr', hm, hi⟩ := h
        rcases List.mem_cons.1 hm with rfl | hm
        · simp [hi]
        · have := at2frFrom_complete rest (ifr + 1) i ⟨fr', hm, hi⟩
          rw [hr] at this; cases this

/-- every atom lies in at most one fragment -/
def DisjointFrags (frags : List (List Nat)) : Prop :=
  ∀ (a b : Nat) (fa fb : List Nat) (i : Nat), frags[a]? = some fa → frags[b]? = some fb →
    i ∈ fa → i ∈ fb → a = b

theorem at2fr_eq_some_iff (frags : List (List Nat)) (hd : DisjointFrags frags) (i k : Nat) :
    at2fr frags i = some k ↔ ∃ fr, frags[k]? = some fr ∧ i ∈ fr := by
  constructor
  · intro h
    obtain ⟨j, fr, hk, hj, hi⟩ := at2frFrom_sound frags 0 i k h
    have : k = j := by omega
    subst this
    exact ⟨fr, hj, hi⟩
  · rintro ⟨fr, hk, hi⟩
    have hs := at2frFrom_complete frags 0 i ⟨fr, List.mem_of_getElem? hk, hi⟩
    obtain ⟨k', hk'⟩ := Option.isSome_iff_exists.1 hs
    obtain ⟨j, fr', hkj, hj, hi'⟩ := at2frFrom_sound frags 0 i k' hk'
    have : k' = j := by omega
    subst this
    have := hd k' k fr' fr i hj hk hi' hi
    subst this
    exact hk'

/-! ### sums -/

theorem isum_append (a b : List Int) : isum (a ++ b) = isum a + isum b := by
  induction a with
  | nil => simp [isum]
  | cons x t ih => simp only [List.cons_append, ChgMult.isum_cons, ih]; omega

theorem isum_map_const_zero {β} (l : List β) : isum (l.map (fun _ => (0 : Int))) = 0 := by
  exact ChgMult.isum_zeros l

theorem isum_map_add {β} (f g : β → Int) (l : List β) :
    isum (l.map f) + isum (l.map g) = isum (l.map (fun x => f x + g x)) := by
  induction l with
  | nil => rfl
  | cons _ t ih => simp only [List.map_cons, ChgMult.isum_cons, ← ih]; omega

theorem isum_filter_map {β} (q : β → Bool) (f : β → Int) (l : List β) :
    isum ((l.filter q).map f) = isum (l.map (fun x => if q x then f x else 0)) := by
  induction l with
  | nil => rfl
  | cons x t ih =>
    cases hq : q x <;> simp [List.filter, hq, ChgMult.isum_cons, ih]

theorem isum_zipWith_sub : ∀ (a b : List Int), a.length = b.length →
    isum (List.zipWith (· - ·) a b) = isum a - isum b
  | [], [], _ => rfl
  | [], _ :: _, h => by simp at h
  | _ :: _, [], h => by simp at h
  | x :: a, y :: b, h => by
      simp only [List.zipWith_cons_cons, ChgMult.isum_cons, isum_zipWith_sub a b (by simpa using h)]
      omega

/-! ### what a charge/multiplicity validation with everything specified returns -/

theorem kept_list (l o : List Int) (hlen : o.length = l.length)
    (hk : ∀ (k : Nat) (v x : Int), (l.map some)[k]? = some (some v) → o[k]? = some x → x = v) : o = l := by
  apply List.ext_getElem hlen
  intro k h1 h2
  exact hk k l[k] o[k] (by simp [h2]) (by simp [h1])

end QcelVerif.Fragments
