import QcelVerif.Lemmas.MunkresTerm.Basic
import QcelVerif.Lemmas.MunkresTerm.Step36
import QcelVerif.Lemmas.MunkresTerm.Step4
import QcelVerif.Lemmas.MunkresTerm.Step5
/-!
C14 — termination of the Munkres model, assembled: a lexicographic measure
(`n −` starred rows, then the position in the 3 → 4 → (6 → 4)* → 5 cycle, then `n −` covered rows)
strictly decreases with every step, every single step terminates under its invariant, and the
measure of the initial state is below the model's fuel `stepFuel n m`.
-/
namespace QcelVerif.Munkres
open QcelVerif.Assign

/-- the invariant of a step plus what termination needs: wide orientation, the size of `path`,
and — inside the 4/5/6 cycle — that some row still has no star -/
structure TInv (n m : Nat) (cost : Nat → Nat → Rat) (st : Step) (s : State) : Prop where
  inv : InvAt n m cost st s
  hnm : n ≤ m
  psz : s.path.size = n + m
  few : st = .s4 ∨ st = .s5 ∨ st = .s6 → (starRows n s.marked).card < n

open Classical in
/-- the termination measure -/
noncomputable def mu (n : Nat) (st : Step) (s : State) : Nat :=
  (n - (starRows n s.marked).card) * (2 * n + 5) +
  match st with
  | .s1 => 2 * n + 5
  | .s3 => 2 * n + 4
  | .s4 => 2 * (n - (covRows n s).card) + (if UncZero s then 1 else 3)
  | .s6 => 2 * (n - (covRows n s).card) + 2
  | .s5 => 0

theorem covRows_congr {n : Nat} {s s' : State} (h : s'.rowUnc = s.rowUnc) : covRows n s' = covRows n s := by
  ext i
  simp only [mem_covRows, RU, h]

theorem step1_path (s : State) : (step1 s).1.path = s.path := rfl
theorem step3_path (s : State) : (step3 s).1.path = s.path := rfl

theorem starRows_unmarked {n : Nat} {M : Mat Nat} (h : ∀ i j, get2 M i j = 0) : starRows n M = ∅ := by
  ext i
  simp only [mem_starRows, Finset.notMem_empty, iff_false, not_and, not_exists]
  intro _ j hj
  unfold Star at hj
  rw [h] at hj
  exact absurd hj (by decide)

/-- **Every single step terminates** under its invariant (the inner `while` loops of steps 4 and 5
never exhaust their fuel, `path` is never overrun). -/
theorem doStep_total {n m : Nat} {cost : Nat → Nat → Rat} {st : Step} {s : State}
    (h : TInv n m cost st s) : ∃ r, doStep st s = .ok r := by
  cases st
  · exact ⟨_, rfl⟩
  · exact ⟨_, rfl⟩
  · exact step4_total h.inv
  · exact step5_total h.inv h.hnm h.psz
  · exact ⟨_, rfl⟩

/-- **Every step that hands over to another step decreases the measure** (and re-establishes the
termination invariant). -/
theorem doStep_decreases {n m : Nat} {cost : Nat → Nat → Rat} {st st' : Step} {s s' : State}
    (hrun : doStep st s = .ok (s', some st')) (h : TInv n m cost st s) :
    TInv n m cost st' s' ∧ mu n st' s' < mu n st s := by
  have hpost := doStep_inv hrun h.inv
  cases st <;> simp only [doStep, Except.ok.injEq] at hrun
  · -- step 1
    have e1 : (step1 s).1 = s' := by rw [hrun]
    have e2 : (step1 s).2 = some st' := by rw [hrun]
    rw [step1_next] at e2
    simp only [Option.some.injEq] at e2
    subst e2
    refine ⟨⟨hpost, h.hnm, by rw [← e1, step1_path]; exact h.psz, fun hh => by simp at hh⟩, ?_⟩
    have h0 : starRows n s.marked = ∅ := starRows_unmarked h.inv.unmarked
    simp only [mu, h0, Finset.card_empty, Nat.sub_zero]
    have := Nat.mul_le_mul_right (2 * n + 5) (Nat.sub_le n (starRows n s'.marked).card)
    omega
  · -- step 3
    have e1 : (step3 s).1 = s' := by rw [hrun]
    have e2 : (step3 s).2 = some st' := by rw [hrun]
    rcases step3_next s with h4 | hd
    · rw [h4] at e2
      simp only [Option.some.injEq] at e2
      subst e2
      have hm : s'.marked = s.marked := by rw [← e1]; exact (step3_state s).1
      refine ⟨⟨hpost, h.hnm, by rw [← e1, step3_path]; exact h.psz,
        fun _ => by rw [hm]; exact step3_more h.inv h4⟩, ?_⟩
      simp only [mu, hm]
      split <;> omega
    · rw [hd] at e2; simp at e2
  · -- step 4
    obtain ⟨hst, hsub, hpath, hflag⟩ := step4_progress hrun h.inv
    have hS : starRows n s'.marked = starRows n s.marked := starRows_congr hst
    have hle : (covRows n s).card ≤ (covRows n s').card := Finset.card_le_card hsub
    have hR' := covRows_card_le n s'
    have hfew := h.few (Or.inl rfl)
    rcases step4_inv hrun h.inv with ⟨e, _⟩ | ⟨e, _⟩
    · simp only [Option.some.injEq] at e
      subst e
      refine ⟨⟨hpost, h.hnm, by rw [hpath]; exact h.psz, fun _ => by rw [hS]; exact hfew⟩, ?_⟩
      simp only [mu, hS]
      by_cases hz : UncZero s
      · have := hflag hz rfl
        rw [if_pos hz]
        omega
      · rw [if_neg hz]
        omega
    · simp only [Option.some.injEq] at e
      subst e
      refine ⟨⟨hpost, h.hnm, by rw [hpath]; exact h.psz, fun _ => by rw [hS]; exact hfew⟩, ?_⟩
      simp only [mu, hS]
      split <;> omega
  · -- step 5
    obtain ⟨e, _⟩ := step5_inv hrun h.inv
    simp only [Option.some.injEq] at e
    subst e
    obtain ⟨hp, hcard⟩ := step5_progress (n := n) hrun h.inv
    have hfew := h.few (Or.inr (Or.inl rfl))
    refine ⟨⟨hpost, h.hnm, by rw [hp]; exact h.psz, fun hh => by simp at hh⟩, ?_⟩
    simp only [mu, hcard]
    have e1 : n - (starRows n s.marked).card = (n - ((starRows n s.marked).card + 1)) + 1 := by omega
    rw [e1, Nat.add_mul]
    omega
  · -- step 6
    have e1 : (step6 s).1 = s' := by rw [hrun]
    have e2 : (step6 s).2 = some st' := by rw [hrun]
    rw [step6_next] at e2
    simp only [Option.some.injEq] at e2
    subst e2
    have hfew := h.few (Or.inr (Or.inr rfl))
    obtain ⟨hz, hm, hr, _, hp⟩ := step6_flag h.inv h.hnm hfew
    rw [e1] at hz hm hr hp
    refine ⟨⟨hpost, h.hnm, by rw [hp]; exact h.psz, fun _ => by rw [hm]; exact hfew⟩, ?_⟩
    simp only [mu, hm, covRows_congr hr, if_pos hz]
    omega

/-- **The state machine terminates**: with more fuel than the measure, the run finishes. -/
theorem runSteps_total {n m : Nat} {cost : Nat → Nat → Rat} : ∀ (f : Nat) (st : Step) (s : State)
    (tr : Array (Step × State)), TInv n m cost st s → mu n st s < f → ∃ r, runSteps f st s tr = .ok r
  | 0, _, _, _, _, hf => by omega
  | f + 1, st, s, tr, h, hf => by
    obtain ⟨⟨s', nx⟩, hd⟩ := doStep_total h
    unfold runSteps
    rw [hd]
    simp only
    cases nx with
    | none => exact ⟨_, rfl⟩
    | some st' =>
      obtain ⟨h', hlt⟩ := doStep_decreases hd h
      exact runSteps_total f st' s' _ h' (by omega)

theorem mu_init_lt_fuel (n m : Nat) (s : State) : mu n .s1 s < stepFuel n m := by
  have h1 : (n - (starRows n s.marked).card) * (2 * n + 5) ≤ n * (2 * n + 5) :=
    Nat.mul_le_mul_right _ (Nat.sub_le _ _)
  simp only [mu, stepFuel]
  have h2 : n * (2 * n + 5) + (2 * n + 5) ≤ 4 * (n + m) * (n + m) * (n + m) + 15 := by
    have hk : n ≤ n + m := Nat.le_add_right n m
    generalize n + m = k at hk
    have h3 : n * (2 * n + 5) + (2 * n + 5) ≤ k * (2 * k + 5) + (2 * k + 5) := by
      have := Nat.mul_le_mul hk (show 2 * n + 5 ≤ 2 * k + 5 by omega)
      omega
    refine Nat.le_trans h3 ?_
    rcases Nat.eq_zero_or_pos k with rfl | hk0
    · simp
    · have h4 : k * k ≤ k * k * k := Nat.le_mul_of_pos_right _ hk0
      have h5 : k ≤ k * k := Nat.le_mul_of_pos_right _ hk0
      have e1 : 4 * k * k * k = 4 * (k * k * k) := by ring
      have e2 : k * (2 * k + 5) = 2 * (k * k) + 5 * k := by ring
      rw [e1, e2]
      by_cases hk1 : k = 1
      · subst hk1; simp
      · have hk2 : 2 ≤ k := by omega
        have h6 : 2 * (k * k) ≤ k * k * k :=
          calc 2 * (k * k) ≤ k * (k * k) := Nat.mul_le_mul_right _ hk2
            _ = k * k * k := (Nat.mul_assoc k k k).symm
        have h7 : 2 * k ≤ k * k := Nat.mul_le_mul_right k hk2
        omega
  omega

/-- **The solver terminates on every non-empty wide matrix** within the model's fuel. -/
theorem solveWide_total (n m : Nat) (costM : Mat Rat) (hsz : costM.size = n)
    (hrow : ∀ i, i < n → (costM.getD i #[]).size = m) (hnm : n ≤ m) :
    ∃ r, solveWide n m costM = .ok r := by
  unfold solveWide
  simp only
  split
  · exact ⟨_, rfl⟩
  · have hinv := initState_inv1 n m costM (fun i j => get2 costM i j) hsz hrow (fun _ _ _ _ => rfl)
    exact runSteps_total (n := n) (m := m) (cost := fun i j => get2 costM i j) _ _ _ _
      ⟨hinv, hnm, by simp [initState], fun hh => by simp at hh⟩ (mu_init_lt_fuel n m _)

end QcelVerif.Munkres
